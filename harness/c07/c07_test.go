package c07

import (
	"fmt"
	"math/big"
	"os"
	"sort"
	"strconv"
	"strings"
	"testing"
	"time"

	"github.com/cockroachdb/apd/v3"
	"github.com/dolthub/go-mysql-server/sql"
	"github.com/dolthub/go-mysql-server/vh/internal/fx"
	"github.com/dolthub/go-mysql-server/vh/internal/kf"
	"github.com/dolthub/go-mysql-server/vh/internal/stats"
	"pgregory.net/rapid"
)

// tri is a three-valued truth value as the engine returned it.
type tri int8

const (
	tF tri = 0
	tT tri = 1
	tN tri = -1
)

func triOf(s string) (tri, bool) {
	switch s {
	case "N":
		return tN, true
	case "n:1":
		return tT, true
	case "n:0":
		return tF, true
	}
	return tN, false
}

// repr is the *representation* of an engine value: Go type plus raw text. Two values with
// different repr that the engine's '=' equates make a case non-trivial.
func repr(v any) string {
	if v == nil {
		return "NULL"
	}
	if w, ok := v.(sql.AnyWrapper); ok {
		if u, err := w.UnwrapAny(nil); err == nil {
			v = u
		}
	}
	switch x := v.(type) {
	case *apd.Decimal:
		return "dec:" + x.Text('f')
	case time.Time:
		return "time:" + x.UTC().Format("2006-01-02 15:04:05.000000")
	case []byte:
		return "bytes:" + string(x)
	case float64:
		return "float64:" + strconv.FormatFloat(x, 'g', -1, 64) + signbit(x)
	case float32:
		return "float32:" + strconv.FormatFloat(float64(x), 'g', -1, 32) + signbit(float64(x))
	}
	return fmt.Sprintf("%T:%v", v, v)
}

func signbit(f float64) string {
	if f == 0 && 1/f < 0 {
		return "(neg0)"
	}
	return ""
}

// world is everything the oracle knows about one case after asking the engine.
type world struct {
	c      *tcase
	s      *fx.Sess
	st     *stats.Collector
	raw    bool // witness mode: no finding is treated as listed
	n      int
	lN, rN []string // canonical (fx.Norm) form per row; "N" for NULL
	lR, rR []string // representation per row
	lGo    []any
	rGo    []any
	lType  sql.Type
	rType  sql.Type
	// engine's '=' : ll[i][j] is (l_i = l_j), lr[i][j] is (l_i = r_j), rr[i][j] is (r_i = r_j)
	ll, lr, rr [][]tri
	// uu is '=' on the unified column of (SELECT l UNION ALL SELECT r): element index e<n is
	// l_e, e>=n is r_(e-n). nil if that statement failed.
	uu [][]tri
}

func newTri(n, m int) [][]tri {
	out := make([][]tri, n)
	for i := range out {
		out[i] = make([]tri, m)
	}
	return out
}

type skip struct{ why string }

// load creates the table and asks the engine for the stored values and the '=' relations.
func load(rt *rapid.T, c *tcase, s *fx.Sess) (*world, *skip) { return loadT(rt, c, s) }

// fataler is what load needs from *rapid.T / *testing.T.
type fataler interface {
	Fatalf(format string, args ...any)
}

func loadT(rt fataler, c *tcase, s *fx.Sess) (*world, *skip) {
	s.MustExec(rt.Fatalf, c.ddl(), c.insert())
	w := &world{c: c, s: s, n: len(c.lv)}
	r := s.Exec("SELECT id, l, r FROM t ORDER BY id")
	if !r.OK() || len(r.Rows) != w.n {
		rt.Fatalf("harness: cannot read back the table: %s\n%s", r, c)
	}
	w.lType, w.rType = r.Schema[1].Type, r.Schema[2].Type
	for _, row := range r.Rows {
		w.lGo = append(w.lGo, row[1])
		w.rGo = append(w.rGo, row[2])
		w.lN = append(w.lN, fx.Norm(row[1], w.lType))
		w.rN = append(w.rN, fx.Norm(row[2], w.rType))
		w.lR = append(w.lR, repr(row[1]))
		w.rR = append(w.rR, repr(row[2]))
	}
	r = s.Exec("SELECT a.id, b.id, a.l = b.l, a.l = b.r, a.r = b.r, b.r = a.l FROM t a CROSS JOIN t b")
	if !r.OK() {
		return nil, &skip{"eq-query-failed"}
	}
	if len(r.Rows) != w.n*w.n {
		rt.Fatalf("harness: cross join returned %d rows for n=%d\n%s", len(r.Rows), w.n, c)
	}
	w.ll, w.lr, w.rr = newTri(w.n, w.n), newTri(w.n, w.n), newTri(w.n, w.n)
	for _, row := range fx.NormRows(r.Schema, r.Rows) {
		i, j := idOf(row[0])-1, idOf(row[1])-1
		var ok [3]bool
		w.ll[i][j], ok[0] = triOf(row[2])
		w.lr[i][j], ok[1] = triOf(row[3])
		w.rr[i][j], ok[2] = triOf(row[4])
		if !ok[0] || !ok[1] || !ok[2] {
			return nil, &skip{"eq-not-boolean"}
		}
		// the operand order must not matter (if it does, '=' is not an equivalence: C26's matter)
		if rl, ok := triOf(row[5]); !ok || rl != w.lr[i][j] {
			return nil, &skip{"eq-asymmetric"}
		}
	}
	const u = "(SELECT id AS k, l AS v FROM t UNION ALL SELECT id + 100 AS k, r AS v FROM t)"
	r = s.Exec("SELECT x.k, y.k, x.v = y.v FROM " + u + " x CROSS JOIN " + u + " y")
	if r.OK() && len(r.Rows) == 4*w.n*w.n {
		w.uu = newTri(2*w.n, 2*w.n)
		for _, row := range fx.NormRows(r.Schema, r.Rows) {
			i, j := w.uidx(idOf(row[0])), w.uidx(idOf(row[1]))
			v, ok := triOf(row[2])
			if !ok {
				w.uu = nil
				break
			}
			w.uu[i][j] = v
		}
	}
	return w, nil
}

func (w *world) uidx(k int) int {
	if k > 100 {
		return w.n + k - 101
	}
	return k - 1
}

func idOf(norm string) int {
	v, err := strconv.Atoi(strings.TrimPrefix(norm, "n:"))
	if err != nil {
		panic("harness: not an id: " + norm)
	}
	return v
}

// elem is one member of a value pool: side 0 = column l, 1 = column r; row index.
type elem struct{ side, row int }

func (w *world) eq(a, b elem) tri {
	switch {
	case a.side == 0 && b.side == 0:
		return w.ll[a.row][b.row]
	case a.side == 0 && b.side == 1:
		return w.lr[a.row][b.row]
	case a.side == 1 && b.side == 0:
		return w.lr[b.row][a.row]
	}
	return w.rr[a.row][b.row]
}

func (w *world) isNull(e elem) bool {
	if e.side == 0 {
		return w.lN[e.row] == "N"
	}
	return w.rN[e.row] == "N"
}

func (w *world) reprOf(e elem) string {
	if e.side == 0 {
		return w.lR[e.row]
	}
	return w.rR[e.row]
}

// classes partitions the non-NULL elements of pool into the classes of rel and verifies
// that rel is an equivalence on them (reflexive, symmetric, transitive, never NULL).
// ok=false means the relation is not an equivalence: other properties own that.
func classes(pool []elem, rel func(a, b elem) tri) (cls [][]elem, ok bool) {
	parent := make([]int, len(pool))
	for i := range parent {
		parent[i] = i
	}
	var find func(int) int
	find = func(x int) int {
		for parent[x] != x {
			parent[x] = parent[parent[x]]
			x = parent[x]
		}
		return x
	}
	for i := range pool {
		for j := range pool {
			if rel(pool[i], pool[j]) == tT {
				parent[find(i)] = find(j)
			}
		}
	}
	for i := range pool {
		for j := range pool {
			want := tF
			if find(i) == find(j) {
				want = tT
			}
			if rel(pool[i], pool[j]) != want {
				return nil, false
			}
		}
	}
	byRoot := map[int]int{}
	for i := range pool {
		r := find(i)
		k, seen := byRoot[r]
		if !seen {
			k = len(cls)
			byRoot[r] = k
			cls = append(cls, nil)
		}
		cls[k] = append(cls[k], pool[i])
	}
	return cls, true
}

func (w *world) pool(side int) []elem {
	var out []elem
	for i := 0; i < w.n; i++ {
		e := elem{side, i}
		if !w.isNull(e) {
			out = append(out, e)
		}
	}
	return out
}

func maskOf(es []elem) int64 {
	var m int64
	for _, e := range es {
		m |= 1 << uint(e.row)
	}
	return m
}

// violation describes one disagreement between a hashing operator and '='.
type violation struct {
	op   string // operator label
	sql  string
	msg  string
	info map[string]bool // facts used by the known-finding signatures
}

func (v *violation) String() string { return fmt.Sprintf("[%s] %s\n    %s", v.op, v.sql, v.msg) }

// hasClash reports whether a class contains two different representations.
func (w *world) hasClash(cls [][]elem) bool {
	for _, c := range cls {
		for _, e := range c[1:] {
			if w.reprOf(e) != w.reprOf(c[0]) {
				return true
			}
		}
	}
	return false
}

var survey = os.Getenv("C07_SURVEY") != ""
var timing = map[string]time.Duration{}

func maxRows() int {
	if os.Getenv("VERIF_TIER") == "thorough" {
		return 12
	}
	return 8
}

func TestC07(t *testing.T) {
	st := stats.New("C07", "")
	defer st.Flush()
	tally := map[string]int{}
	first := map[string]string{}
	defer func() {
		if survey {
			keys := make([]string, 0, len(tally))
			for k := range tally {
				keys = append(keys, k)
			}
			sort.Strings(keys)
			for _, k := range keys {
				fmt.Printf("SURVEY %6d %s\n", tally[k], k)
			}
			for k, d := range timing {
				fmt.Printf("TIMING %8.1fms %s\n", float64(d.Microseconds())/1000, k)
			}
			for _, k := range keys {
				fmt.Printf("FIRST %s\n%s\n\n", k, first[k])
			}
		}
	}()
	rapid.Check(t, func(rt *rapid.T) {
		st.Eval()
		c := drawCase(rt, maxRows())
		f := fx.New(fx.Opts{})
		defer f.Close()
		s := f.NewSession("", "", "")
		w, sk := load(rt, c, s)
		if sk != nil {
			st.Class("skip:" + sk.why)
			return
		}
		st.Class("family:" + strings.SplitN(c.L.fam, "/", 2)[0])
		if c.L.ddl == c.R.ddl {
			st.Class("types:same")
		} else {
			st.Class("types:different")
		}
		w.st = st
		vs := w.checkAll()
		for _, v := range vs {
			if survey {
				k := v.op + " | " + coarse(c.L) + " | " + coarse(c.R)
				tally[k]++
				if _, ok := first[k]; !ok {
					first[k] = c.String() + "\n" + v.String()
				}
				continue
			}
			rt.Fatalf("C07 violated: a hashing operator disagrees with the engine's own '='\n%s\n%s", c, v)
		}
	})
}

// listed reports whether finding id is to be treated as a listed known finding. The
// witness sub-test (raw=true) never excludes anything.
func (w *world) listed(id string) bool { return !w.raw && kf.Listed(id) }

// skipRegion is used for findings whose defective behaviour is not predicted by the
// harness: when the finding is listed and the case lies in its region, the operator is
// not run (excluded by construction).
func (w *world) skipRegion(id string, inRegion bool) bool {
	if inRegion && w.listed(id) {
		w.st.Excluded(id)
		return true
	}
	return false
}

// known filters a violation through a finding whose defective mechanism the harness can
// predict: the violation is a known hit only if the case lies in the region, the finding
// is listed and alt() (the same operator checked against the prediction of the defective
// mechanism) holds. Any other behaviour stays a violation.
func (w *world) known(id string, inRegion bool, v *violation, alt func() *violation) *violation {
	if v == nil || !inRegion || !w.listed(id) {
		return v
	}
	if alt() != nil {
		return v
	}
	kf.Suppress(w.st, id)
	return nil
}

// bytewise is the relation "same stored representation" (what a hash over raw values
// implements).
func (w *world) bytewise(a, b elem) tri {
	if a.side == 2 {
		if w.lR[a.row] == w.lR[b.row] && w.rR[a.row] == w.rR[b.row] {
			return tT
		}
		return tF
	}
	if w.reprOf(a) == w.reprOf(b) {
		return tT
	}
	return tF
}

// keyText is the text the row hash writes for a numeric value once set operations have
// "unified" it: digits with the value's own scale.
func (w *world) keyText(e elem) string {
	r := w.reprOf(e)
	t := r[strings.Index(r, ":")+1:]
	t = strings.TrimSuffix(t, "(neg0)")
	if t == "-0" {
		t = "0"
	}
	return t
}

func (w *world) byKeyText(a, b elem) tri {
	if w.keyText(a) == w.keyText(b) {
		return tT
	}
	return tF
}

func (w *world) isStr() bool { return strings.HasPrefix(w.c.L.fam, "str/") }
func (w *world) isBinColl() bool {
	return strings.HasSuffix(w.c.L.fam, "_bin")
}

func (w *world) anyValue(pred func(repr string) bool) bool {
	for i := 0; i < w.n; i++ {
		if (w.lN[i] != "N" && pred(w.lR[i])) || (w.rN[i] != "N" && pred(w.rR[i])) {
			return true
		}
	}
	return false
}

// checkAll runs every operator on the case and returns the violations found.
func (w *world) checkAll() []*violation {
	st := w.st
	var vs []*violation
	add := func(v *violation) {
		if v != nil {
			vs = append(vs, v)
		}
	}
	strFam := w.isStr() && !w.isBinColl()
	textual := w.isStr() || w.c.L.fam == "bin"
	hasNUL := textual && w.anyValue(func(r string) bool { return strings.Contains(r, "\x00") })
	hasComma := textual && w.anyValue(func(r string) bool { return strings.Contains(r, ",") })
	lPool, rPool := w.pool(0), w.pool(1)
	lCls, lOK := classes(lPool, w.eq)
	_, rOK := classes(rPool, w.eq)
	nontrivial := false
	if !lOK {
		st.Class("skip:l-not-equivalence")
	}
	if lOK {
		clash := w.hasClash(lCls)
		if clash {
			nontrivial = true
			st.Class("clash:single-column")
		}
		lBytes, _ := classes(lPool, w.bytewise)
		add(w.opGroupBy1(lCls))
		add(w.known("C07-distinct-collation", strFam && clash, w.opDistinct1(lCls), func() *violation { return w.opDistinct1(lBytes) }))
		add(w.known("C07-countdistinct-key", strFam && clash, w.opCountDistinct1(lCls), func() *violation { return w.opCountDistinct1(lBytes) }))
	}
	if lOK && rOK {
		// pairs (l_i, r_i) with both parts non-NULL
		var pp []elem
		for i := 0; i < w.n; i++ {
			if w.lN[i] != "N" && w.rN[i] != "N" {
				pp = append(pp, elem{2, i})
			}
		}
		pairRel := func(a, b elem) tri {
			if w.ll[a.row][b.row] == tT && w.rr[a.row][b.row] == tT {
				return tT
			}
			return tF
		}
		pCls, _ := classes(pp, pairRel)
		pBytes, _ := classes(pp, w.bytewise)
		clash := len(pCls) != len(pBytes)
		if clash {
			st.Class("clash:pair")
		}
		if !w.skipRegion("C07-rowhash-nul-separator", hasNUL) {
			add(w.opGroupBy2(pCls))
			add(w.known("C07-distinct-collation", strFam && clash, w.opDistinct2(pCls), func() *violation { return w.opDistinct2(pBytes) }))
		}
		// COUNT(DISTINCT l, r): the defective mechanism is "distinct concatenations of
		// text(l) , text(r) ," - blind to the collation, and a ',' inside a value collides.
		// (Once repaired through the row hash, the NUL separator finding applies here too.)
		concat := func(a, b elem) tri {
			ka := strings.SplitN(w.lR[a.row], ":", 2)[1] + "," + strings.SplitN(w.rR[a.row], ":", 2)[1]
			kb := strings.SplitN(w.lR[b.row], ":", 2)[1] + "," + strings.SplitN(w.rR[b.row], ":", 2)[1]
			if ka == kb {
				return tT
			}
			return tF
		}
		pConcat, _ := classes(pp, concat)
		if !w.skipRegion("C07-rowhash-nul-separator", hasNUL) {
			add(w.known("C07-countdistinct-key", (strFam && clash) || hasComma, w.opCountDistinct2(pCls),
				func() *violation { return w.opCountDistinct2(pConcat) }))
		}
	}
	// operators that relate l-values to r-values: '=' must be an equivalence on the union
	// pool, and '=' on the unified column of (l UNION ALL r) must be the same relation
	uPool := append(append([]elem{}, lPool...), rPool...)
	uCls, uOK := classes(uPool, w.eq)
	crossOK := false
	switch {
	case !uOK:
		st.Class("skip:union-not-equivalence")
	case w.uu == nil:
		st.Class("skip:unified-eq-failed")
	case !w.unifiedAgrees(uPool):
		st.Class("skip:unified-eq-differs")
	default:
		crossOK = true
	}
	if crossOK {
		clash := w.hasClash(uCls)
		if clash {
			nontrivial = true
			st.Class("clash:two-column")
		}
		uBytes, _ := classes(uPool, w.bytewise)
		uKey, _ := classes(uPool, w.byKeyText)
		numCross := w.c.L.fam == "num" && w.c.L.ddl != w.c.R.ddl && len(uKey) != len(uCls)
		// set operations hash rows without the column types (C07-distinct-collation); between two
		// *different* string types the planner moreover wraps both sides in CONVERT(x, CHAR), which
		// drops the collation (C07-setop-convert-collation). Same prediction: equality by bytes.
		setID := "C07-distinct-collation"
		if w.c.L.ddl != w.c.R.ddl {
			setID = "C07-setop-convert-collation"
		}
		for _, op := range []string{"UNION", "INTERSECT", "INTERSECT ALL", "EXCEPT", "EXCEPT ALL"} {
			v := w.opSet(op, uCls)
			v = w.known(setID, strFam && clash, v, func() *violation { return w.opSet(op, uBytes) })
			v = w.known("C07-setop-decimal-scale", numCross, v, func() *violation { return w.opSet(op, uKey) })
			add(v)
		}
		// WHERE l IN (SELECT r ...) is planned as a semi-join, or (larger tables) as a hash join
		// over Distinct(SELECT r): that Distinct hashes without the column type, so byte-different
		// '='-equal r values stay apart and every match is returned once per such value
		// (C07-distinct-collation). Prediction: multiplicity = number of byte-distinct matching r.
		rClash := false
		for i := 0; i < w.n; i++ {
			for j := 0; j < w.n; j++ {
				if w.rN[i] != "N" && w.rN[j] != "N" && w.rr[i][j] == tT && w.rR[i] != w.rR[j] {
					rClash = true
				}
			}
		}
		crossClash := false
		for i := 0; i < w.n; i++ {
			for j := 0; j < w.n; j++ {
				if w.lr[i][j] == tT && w.lR[i] != w.rR[j] {
					crossClash = true
				}
			}
		}
		// ... and that hash join is subject to C07-hashjoin-collation like the hinted one below
		if !w.skipRegion("C07-hashjoin-collation", strFam && crossClash && w.c.L.ddl != w.c.R.ddl) {
			add(w.known("C07-distinct-collation", strFam && rClash, w.opInSubquery(false), w.inSubqueryOverByteDistinct))
		}
		if !w.skipRegion("C07-insubquery-left-conversion", w.c.L.ddl != w.c.R.ddl && w.someLDoesNotFitR()) {
			add(w.opInSubquery(true))
		}
		if crossClash {
			nontrivial = true
			st.Class("clash:cross-match")
		}
		if !w.skipRegion("C07-hashjoin-collation", strFam && crossClash && w.c.L.ddl != w.c.R.ddl) {
			add(w.opHashJoin("inner"))
			add(w.opHashJoin("left"))
		}
	}
	if lOK && rOK {
		pairClash := false
		for i := 0; i < w.n; i++ {
			for j := 0; j < w.n; j++ {
				if w.ll[i][j] == tT && w.rr[i][j] == tT && (w.lR[i] != w.lR[j] || w.rR[i] != w.rR[j]) {
					pairClash = true
				}
			}
		}
		if !w.skipRegion("C07-rowhash-nul-separator", hasNUL) && !w.skipRegion("C07-hashjoin-collation", strFam && pairClash) {
			add(w.opHashJoin2())
		}
	}
	w.opInLists(add)
	if nontrivial {
		st.NonTrivial(map[string]any{"ddl": w.c.ddl(), "insert": w.c.insert()}, w.c.L.ddl, w.c.R.ddl, w.lR, w.rR)
	}
	return vs
}

func (w *world) unifiedAgrees(pool []elem) bool {
	ui := func(e elem) int { return e.side*w.n + e.row }
	for _, a := range pool {
		for _, b := range pool {
			if w.uu[ui(a)][ui(b)] != w.eq(a, b) {
				return false
			}
		}
	}
	return true
}

// run executes an operator statement. A failing statement is not a C07 matter (other
// properties own errors and crashes); ok=false then.
func (w *world) run(q string) (rows [][]string, res *fx.Result, ok bool) {
	if survey {
		t0 := time.Now()
		defer func() { timing[strings.SplitN(q, " FROM ", 2)[0]] += time.Since(t0) }()
	}
	r := w.s.Exec(q)
	if !r.OK() {
		return nil, r, false
	}
	return fx.NormRows(r.Schema, r.Rows), r, true
}

func sortedMasks(ms []int64) []int64 {
	out := append([]int64{}, ms...)
	sort.Slice(out, func(i, j int) bool { return out[i] < out[j] })
	return out
}

func masksEqual(a, b []int64) bool {
	if len(a) != len(b) {
		return false
	}
	for i := range a {
		if a[i] != b[i] {
			return false
		}
	}
	return true
}

func (w *world) showMask(m int64) string {
	var ids []string
	for i := 0; i < w.n; i++ {
		if m&(1<<uint(i)) != 0 {
			ids = append(ids, strconv.Itoa(i+1))
		}
	}
	return "{" + strings.Join(ids, ",") + "}"
}

func (w *world) showMasks(ms []int64) string {
	var parts []string
	for _, m := range ms {
		parts = append(parts, w.showMask(m))
	}
	return strings.Join(parts, " ")
}

// groupMasks checks a "SELECT SUM(w) ... GROUP BY ..." result: the groups that consist of
// rows without NULL key must be exactly the classes.
func (w *world) groupMasks(op, q string, cls [][]elem, nullMask int64) *violation {
	rows, _, ok := w.run(q)
	if !ok {
		return nil
	}
	var got []int64
	for _, r := range rows {
		// SUM over a BIGINT column is returned as DOUBLE by this engine; masks are < 2^12
		fv, err := strconv.ParseFloat(strings.TrimPrefix(strings.TrimPrefix(r[0], "n:"), "f:"), 64)
		m := int64(fv)
		if err != nil || float64(m) != fv {
			return &violation{op: op, sql: q, msg: "unexpected SUM(w) value " + r[0]}
		}
		if m&nullMask != 0 && m&^nullMask == 0 {
			continue // a group made only of rows with a NULL key: not asserted
		}
		got = append(got, m)
	}
	var want []int64
	for _, c := range cls {
		want = append(want, maskOf(c))
	}
	got, want = sortedMasks(got), sortedMasks(want)
	if !masksEqual(got, want) {
		return &violation{op: op, sql: q, msg: fmt.Sprintf("groups (row ids) %s, '='-classes %s", w.showMasks(got), w.showMasks(want))}
	}
	return nil
}

func (w *world) nullMask(pred func(i int) bool) int64 {
	var m int64
	for i := 0; i < w.n; i++ {
		if pred(i) {
			m |= 1 << uint(i)
		}
	}
	return m
}

func (w *world) opGroupBy1(cls [][]elem) *violation {
	return w.groupMasks("GROUP BY", "SELECT SUM(w) FROM t GROUP BY l", cls, w.nullMask(func(i int) bool { return w.lN[i] == "N" }))
}

func (w *world) opGroupBy2(cls [][]elem) *violation {
	return w.groupMasks("GROUP BY 2col", "SELECT SUM(w) FROM t GROUP BY l, r", cls,
		w.nullMask(func(i int) bool { return w.lN[i] == "N" || w.rN[i] == "N" }))
}

// classOfValue maps an output row back to the class that holds a pool element with the
// same canonical form; -1 if there is none.
func (w *world) classOfValue(cls [][]elem, match func(e elem) bool) int {
	for k, c := range cls {
		for _, e := range c {
			if match(e) {
				return k
			}
		}
	}
	return -1
}

// distinctRows checks a de-duplicated projection: ignoring rows with a NULL, the output
// must hold exactly one representative of every class.
func (w *world) distinctRows(op, q string, rows [][]string, cls [][]elem, match func(row []string, e elem) bool) *violation {
	seen := make([]int, len(cls))
	nonNull := 0
	for _, r := range rows {
		hasNull := false
		for _, v := range r {
			if v == "N" {
				hasNull = true
			}
		}
		if hasNull {
			continue
		}
		nonNull++
		k := w.classOfValue(cls, func(e elem) bool { return match(r, e) })
		if k < 0 {
			return &violation{op: op, sql: q, msg: fmt.Sprintf("output row %v is none of the input values; output %s", r, fx.ShowSeq(rows))}
		}
		seen[k]++
	}
	for k, c := range seen {
		if c != 1 {
			return &violation{op: op, sql: q, msg: fmt.Sprintf("%d non-NULL output rows for %d '='-classes; class of row ids %s appears %d times; output %s",
				nonNull, len(cls), w.showMask(maskOf(cls[k])), c, fx.ShowSeq(rows))}
		}
	}
	return nil
}

func (w *world) opDistinct1(cls [][]elem) *violation {
	q := "SELECT DISTINCT l FROM t"
	rows, _, ok := w.run(q)
	if !ok {
		return nil
	}
	return w.distinctRows("DISTINCT", q, rows, cls, func(r []string, e elem) bool { return w.lN[e.row] == r[0] })
}

func (w *world) opDistinct2(cls [][]elem) *violation {
	q := "SELECT DISTINCT l, r FROM t"
	rows, _, ok := w.run(q)
	if !ok {
		return nil
	}
	return w.distinctRows("DISTINCT 2col", q, rows, cls, func(r []string, e elem) bool { return w.lN[e.row] == r[0] && w.rN[e.row] == r[1] })
}

func (w *world) countIs(op, q string, want int) *violation {
	rows, _, ok := w.run(q)
	if !ok {
		return nil
	}
	if len(rows) != 1 || rows[0][0] != "n:"+strconv.Itoa(want) {
		return &violation{op: op, sql: q, msg: fmt.Sprintf("result %s, number of '='-classes %d", fx.ShowSeq(rows), want)}
	}
	return nil
}

func (w *world) opCountDistinct1(cls [][]elem) *violation {
	return w.countIs("COUNT(DISTINCT)", "SELECT COUNT(DISTINCT l) FROM t", len(cls))
}

func (w *world) opCountDistinct2(cls [][]elem) *violation {
	return w.countIs("COUNT(DISTINCT) 2col", "SELECT COUNT(DISTINCT l, r) FROM t", len(cls))
}

// opSet checks l <op> r on the classes of the union pool. Output rows that are NULL are
// not asserted (the statement speaks about non-NULL values).
func (w *world) opSet(op string, cls [][]elem) *violation {
	q := "SELECT l FROM t " + op + " SELECT r FROM t"
	rows, _, ok := w.run(q)
	if !ok {
		return nil
	}
	got := 0
	for _, r := range rows {
		if r[0] != "N" {
			got++
		}
	}
	want := 0
	for _, c := range cls {
		nl, nr := 0, 0
		for _, e := range c {
			if e.side == 0 {
				nl++
			} else {
				nr++
			}
		}
		switch op {
		case "UNION":
			want++
		case "INTERSECT":
			if nl > 0 && nr > 0 {
				want++
			}
		case "INTERSECT ALL":
			want += min(nl, nr)
		case "EXCEPT":
			if nl > 0 && nr == 0 {
				want++
			}
		case "EXCEPT ALL":
			want += max(0, nl-nr)
		}
	}
	if got != want {
		return &violation{op: op, sql: q, msg: fmt.Sprintf("%d non-NULL output rows %s, the '='-classes of the two inputs require %d", got, fx.ShowSeq(rows), want)}
	}
	return nil
}

// idSet extracts the set of ids of a one-column result.
func idSet(rows [][]string, col int) map[int]int {
	out := map[int]int{}
	for _, r := range rows {
		out[idOf(r[col])]++
	}
	return out
}

func showIDs(m map[int]int) string {
	var ids []int
	for k, c := range m {
		for i := 0; i < c; i++ {
			ids = append(ids, k)
		}
	}
	sort.Ints(ids)
	return fmt.Sprint(ids)
}

func sameIDs(a, b map[int]int) bool {
	if len(a) != len(b) {
		return false
	}
	for k, v := range a {
		if b[k] != v {
			return false
		}
	}
	return true
}

// litBytes decodes a quoted SQL literal of the pools into the bytes it denotes.
func litBytes(lit string) (string, bool) {
	if len(lit) < 2 || lit[0] != '\'' {
		return "", false
	}
	return strings.ReplaceAll(lit[1:len(lit)-1], `\0`, "\x00"), true
}

func isIntLit(lit string) bool {
	_, err := strconv.ParseInt(lit, 10, 64)
	return err == nil
}

// fractional reports whether a numeric literal denotes a non-integer.
func fractional(lit string) bool {
	f, err := strconv.ParseFloat(lit, 64)
	return err == nil && f != float64(int64(f))
}

// opInLists: x IN (list) is TRUE exactly when x = e is TRUE for some list element e. The
// oracle evaluates every l = e in a projection. Two forms: IN in WHERE (the analyzer turns
// it into a hash lookup) and IN in the projection (plain tuple comparison).
func (w *world) opInLists(add func(*violation)) {
	var cols []string
	for _, e := range w.c.inList {
		cols = append(cols, "l = "+e)
	}
	r := w.s.Exec("SELECT id, " + strings.Join(cols, ", ") + " FROM t")
	if !r.OK() {
		w.st.Class("skip:in-list-eq-failed")
		return
	}
	want := map[int]int{}
	collClash := false // some 'l = element' is TRUE between byte-different strings
	for _, row := range fx.NormRows(r.Schema, r.Rows) {
		i := idOf(row[0]) - 1
		for k, v := range row[1:] {
			if v != "n:1" {
				continue
			}
			want[i+1] = 1
			if b, ok := litBytes(w.c.inList[k]); ok {
				if "string:"+b != w.lR[i] && "bytes:"+b != w.lR[i] {
					collClash = true
				}
			}
		}
	}
	if collClash {
		w.st.Class("clash:in-list")
	}
	list := strings.Join(w.c.inList, ", ")
	hasNegZero, hasFrac := false, false
	for _, e := range w.c.inList {
		if e == "-0e0" {
			hasNegZero = true
		}
		if fractional(e) {
			hasFrac = true
		}
	}
	intL := false
	switch w.c.L.label {
	case "tinyint", "int", "bigint":
		intL = true
	}
	check := func(op, q string, got map[int]int, exp map[int]int) *violation {
		if !sameIDs(got, exp) {
			return &violation{op: op, sql: q, msg: fmt.Sprintf("IN is TRUE for row ids %s, some 'l = element' is TRUE for row ids %s", showIDs(got), showIDs(want))}
		}
		return nil
	}
	// filter form
	func() {
		if w.skipRegion("C07-hashin-time", w.c.L.fam == "tod") ||
			w.skipRegion("C07-hashin-negzero", w.c.L.fam == "num" && hasNegZero) ||
			w.skipRegion("C07-hashin-first-element-type", intL && hasFrac && isIntLit(w.c.inList[0])) {
			return
		}
		q := "SELECT id FROM t WHERE l IN (" + list + ")"
		rows, _, ok := w.run(q)
		if !ok {
			return
		}
		got := idSet(rows, 0)
		add(check("IN list (filter)", q, got, want))
	}()
	// projection form
	q := "SELECT id, l IN (" + list + ") FROM t"
	rows, _, ok := w.run(q)
	if !ok {
		return
	}
	got := map[int]int{}
	for _, row := range rows {
		if row[1] == "n:1" {
			got[idOf(row[0])] = 1
		}
	}
	add(check("IN list (projection)", q, got, want))
}

// someLDoesNotFitR reports whether some non-NULL l value is not exactly representable in
// the type of column r.
func (w *world) someLDoesNotFitR() bool {
	for i := 0; i < w.n; i++ {
		if w.lN[i] != "N" && !fits(w.c.R, w.lN[i]) {
			return true
		}
	}
	return false
}

// fits reports whether the canonical value v is exactly representable in kind k.
func fits(k kind, v string) bool {
	switch k.fam {
	case "num":
		var r *big.Rat
		if strings.HasPrefix(v, "f:") {
			f, err := strconv.ParseFloat(v[2:], 64)
			if err != nil {
				return false
			}
			r = new(big.Rat).SetFloat64(f)
		} else {
			var ok bool
			r, ok = new(big.Rat).SetString(strings.TrimPrefix(v, "n:"))
			if !ok {
				return false
			}
		}
		switch k.label {
		case "tinyint", "int", "bigint", "dec0":
			return r.IsInt()
		case "uint", "ubigint":
			return r.IsInt() && r.Sign() >= 0
		case "dec2":
			return new(big.Rat).Mul(r, big.NewRat(100, 1)).IsInt()
		case "dec4":
			return new(big.Rat).Mul(r, big.NewRat(10000, 1)).IsInt()
		case "double":
			f, exact := r.Float64()
			_ = f
			return exact
		case "float":
			f, exact := r.Float32()
			_ = f
			return exact
		}
		return false
	case "time", "tod":
		us, err := strconv.ParseInt(v[2:], 10, 64)
		if err != nil {
			return false
		}
		switch k.label {
		case "date":
			return us%86400000000 == 0
		case "datetime", "timestamp", "time":
			return us%1000000 == 0
		}
		return true
	}
	return true
}

// opInSubquery: l IN (SELECT r FROM t) is TRUE exactly for the rows whose l equals some r.
func (w *world) opInSubquery(proj bool) *violation {
	want := map[int]int{}
	for i := 0; i < w.n; i++ {
		for j := 0; j < w.n; j++ {
			if w.lr[i][j] == tT {
				want[i+1] = 1
			}
		}
	}
	var q, op string
	got := map[int]int{}
	if proj {
		op, q = "IN subquery (projection)", "SELECT id, l IN (SELECT r FROM t) FROM t"
		rows, _, ok := w.run(q)
		if !ok {
			return nil
		}
		for _, row := range rows {
			if row[1] == "n:1" {
				got[idOf(row[0])] = 1
			}
		}
	} else {
		op, q = "IN subquery (filter)", "SELECT id FROM t WHERE l IN (SELECT r FROM t)"
		rows, _, ok := w.run(q)
		if !ok {
			return nil
		}
		got = idSet(rows, 0)
	}
	if !sameIDs(got, want) {
		return &violation{op: op, sql: q, msg: fmt.Sprintf("IN is TRUE for row ids %s, 'l = r' is TRUE for some r exactly for row ids %s", showIDs(got), showIDs(want))}
	}
	return nil
}

// inSubqueryOverByteDistinct checks the filter form against the prediction of the
// C07-distinct-collation mechanism: row i is returned once per byte-distinct r value with
// l_i = r TRUE.
func (w *world) inSubqueryOverByteDistinct() *violation {
	q := "SELECT id FROM t WHERE l IN (SELECT r FROM t)"
	rows, _, ok := w.run(q)
	if !ok {
		return nil
	}
	want := map[int]int{}
	for i := 0; i < w.n; i++ {
		seen := map[string]bool{}
		for j := 0; j < w.n; j++ {
			if w.lr[i][j] == tT && !seen[w.rR[j]] {
				seen[w.rR[j]] = true
				want[i+1]++
			}
		}
	}
	if got := idSet(rows, 0); !sameIDs(got, want) {
		return &violation{op: "IN subquery (filter)", sql: q, msg: fmt.Sprintf("IN returns row ids %s, the byte-distinct prediction is %s", showIDs(got), showIDs(want))}
	}
	return nil
}

func pairSet(rows [][]string) map[[2]int]int {
	out := map[[2]int]int{}
	for _, r := range rows {
		b := 0
		if r[1] != "N" {
			b = idOf(r[1])
		}
		out[[2]int{idOf(r[0]), b}]++
	}
	return out
}

func showPairs(m map[[2]int]int) string {
	var ps [][2]int
	for k, c := range m {
		for i := 0; i < c; i++ {
			ps = append(ps, k)
		}
	}
	sort.Slice(ps, func(i, j int) bool {
		if ps[i][0] != ps[j][0] {
			return ps[i][0] < ps[j][0]
		}
		return ps[i][1] < ps[j][1]
	})
	return fmt.Sprint(ps)
}

func samePairs(a, b map[[2]int]int) bool {
	if len(a) != len(b) {
		return false
	}
	for k, v := range a {
		if b[k] != v {
			return false
		}
	}
	return true
}

// opHashJoin: an equi-join a.l = b.r forced to a hash join returns exactly the pairs for
// which the engine's '=' is TRUE (left join: plus the unmatched left rows, id 0 = NULL).
func (w *world) opHashJoin(mode string) *violation {
	st := w.st
	jk := "JOIN"
	if mode == "left" {
		jk = "LEFT JOIN"
	}
	q := "SELECT /*+ HASH_JOIN(a,b) */ a.id, b.id FROM t a " + jk + " t b ON a.l = b.r"
	rows, _, ok := w.run(q)
	if !ok {
		return nil
	}
	if mode == "inner" {
		if strings.Contains(w.s.Plan(q), "HashJoin") {
			st.Class("join:hash")
		} else {
			st.Class("join:other-operator")
		}
	}
	want := map[[2]int]int{}
	for i := 0; i < w.n; i++ {
		matched := false
		for j := 0; j < w.n; j++ {
			if w.lr[i][j] == tT {
				want[[2]int{i + 1, j + 1}] = 1
				matched = true
			}
		}
		if !matched && mode == "left" {
			want[[2]int{i + 1, 0}] = 1
		}
	}
	got := pairSet(rows)
	if !samePairs(got, want) {
		return &violation{op: "hash join (" + mode + ")", sql: q, msg: fmt.Sprintf("joined id pairs %s, pairs with 'a.l = b.r' TRUE %s", showPairs(got), showPairs(want))}
	}
	return nil
}

// opHashJoin2: two-column equi-join (tuple hash key).
func (w *world) opHashJoin2() *violation {
	q := "SELECT /*+ HASH_JOIN(a,b) */ a.id, b.id FROM t a JOIN t b ON a.l = b.l AND a.r = b.r"
	rows, _, ok := w.run(q)
	if !ok {
		return nil
	}
	want := map[[2]int]int{}
	for i := 0; i < w.n; i++ {
		for j := 0; j < w.n; j++ {
			if w.ll[i][j] == tT && w.rr[i][j] == tT {
				want[[2]int{i + 1, j + 1}] = 1
			}
		}
	}
	got := pairSet(rows)
	if !samePairs(got, want) {
		return &violation{op: "hash join 2col", sql: q, msg: fmt.Sprintf("joined id pairs %s, pairs with both '=' TRUE %s", showPairs(got), showPairs(want))}
	}
	return nil
}

var _ = kf.Listed

func coarse(k kind) string {
	switch {
	case strings.HasPrefix(k.fam, "str/"):
		return strings.TrimPrefix(k.fam, "str/utf8mb4_")
	case k.fam == "num":
		switch k.label {
		case "tinyint", "int", "bigint":
			return "int"
		case "uint", "ubigint":
			return "uint"
		case "double", "float":
			return k.label
		}
		return k.label
	}
	return k.label
}
