package c07

import (
	"testing"

	"github.com/dolthub/go-mysql-server/vh/internal/fx"
	"github.com/dolthub/go-mysql-server/vh/internal/kf"
	"github.com/dolthub/go-mysql-server/vh/internal/stats"
)

// witness is the minimal reproduction of one finding: a fixed case, the operator that
// disagrees with '=', and the exact observation. The signature of the finding in this
// sub-test is "this witness, this operator, this observation": anything else the witness
// case shows (another operator, another result) is reported as a violation.
type witness struct {
	id       string
	l, r     kind
	lv, rv   []string
	inList   []string
	op       string
	observed string
}

func sk(ddl, fam, label string) kind { return kind{label: label, ddl: ddl, fam: fam} }

var (
	vcAI  = sk("VARCHAR(8) COLLATE utf8mb4_0900_ai_ci", "str/utf8mb4_0900_ai_ci", "varchar/0900_ai_ci")
	txtAI = sk("TEXT COLLATE utf8mb4_0900_ai_ci", "str/utf8mb4_0900_ai_ci", "text/0900_ai_ci")
	vcBin = sk("VARCHAR(8) COLLATE utf8mb4_0900_bin", "str/utf8mb4_0900_bin", "varchar/0900_bin")
)

var witnesses = []witness{
	{id: "C07-distinct-collation", l: vcAI, r: vcAI, lv: []string{"'a'", "'A'"}, rv: []string{"'x'", "'x'"}, inList: []string{"'q'"},
		op: "DISTINCT", observed: "2 non-NULL output rows for 1 '='-classes; class of row ids {1,2} appears 2 times; output [(s:a) (s:A)]"},
	{id: "C07-distinct-collation", l: vcAI, r: vcAI, lv: []string{"'a'"}, rv: []string{"'A'"}, inList: []string{"'q'"},
		op: "UNION", observed: "2 non-NULL output rows [(s:a) (s:A)], the '='-classes of the two inputs require 1"},
	{id: "C07-distinct-collation", l: vcAI, r: vcAI, inList: []string{"'q'"},
		lv: []string{"'Á'", "'ab'", "'AB'", "NULL", "NULL", "'ab'", "'AB'", "'aB'", "'aB'", "'A'", "'ab'"},
		rv: []string{"NULL", "'A'", "'á'", "'a'", "'b'", "'Á'", "'ab'", "'á'", "'Á'", "NULL", "NULL"},
		op: "IN subquery (filter)", observed: "IN is TRUE for row ids [1 1 1 1 2 3 6 7 8 9 10 10 10 10 11], 'l = r' is TRUE for some r exactly for row ids [1 2 3 6 7 8 9 10 11]"},
	{id: "C07-countdistinct-key", l: vcAI, r: vcAI, lv: []string{"'a'", "'A'"}, rv: []string{"'x'", "'x'"}, inList: []string{"'q'"},
		op: "COUNT(DISTINCT)", observed: "result [(n:2)], number of '='-classes 1"},
	{id: "C07-countdistinct-key", l: vcBin, r: vcBin, lv: []string{"'a,'", "'a'"}, rv: []string{"'b'", "',b'"}, inList: []string{"'q'"},
		op: "COUNT(DISTINCT) 2col", observed: "result [(n:1)], number of '='-classes 2"},
	{id: "C07-rowhash-nul-separator", l: vcBin, r: vcBin, lv: []string{`'a'`, `'a\0'`}, rv: []string{`'\0b'`, `'b'`}, inList: []string{"'q'"},
		op: "GROUP BY 2col", observed: "groups (row ids) {1,2}, '='-classes {1} {2}"},
	// repaired in /repo (listed as C02-except-empty-string, status fixed): kept as a regression witness
	{id: "C02-except-empty-string", l: vcBin, r: vcBin, lv: []string{"''"}, rv: []string{"'b'"}, inList: []string{"'q'"},
		op: "EXCEPT", observed: "0 non-NULL output rows [], the '='-classes of the two inputs require 1"},
	{id: "C07-distinct-collation", l: vcAI, r: vcAI, lv: []string{"'a'"}, rv: []string{"'A'"}, inList: []string{"'q'"},
		op: "INTERSECT", observed: "0 non-NULL output rows [], the '='-classes of the two inputs require 1"},
	{id: "C07-setop-convert-collation", l: vcAI, r: txtAI, lv: []string{"'a'"}, rv: []string{"'A'"}, inList: []string{"'q'"},
		op: "UNION", observed: "2 non-NULL output rows [(s:a) (s:A)], the '='-classes of the two inputs require 1"},
	{id: "C07-setop-decimal-scale", l: numKinds[5], r: numKinds[6], lv: []string{"1.5"}, rv: []string{"1.5"}, inList: []string{"7"},
		op: "UNION", observed: "2 non-NULL output rows [(n:3/2) (n:3/2)], the '='-classes of the two inputs require 1"},
	{id: "C07-insubquery-left-conversion", l: timeKinds[1], r: timeKinds[0], lv: []string{"'2020-01-01 12:00:00'"}, rv: []string{"'2020-01-01'"}, inList: []string{"'2001-01-01'"},
		op: "IN subquery (projection)", observed: "IN is TRUE for row ids [1], 'l = r' is TRUE for some r exactly for row ids []"},
	{id: "C07-hashjoin-collation", l: vcAI, r: txtAI, lv: []string{"'a'", "'b'"}, rv: []string{"'A'", "'B'"}, inList: []string{"'q'"},
		op: "hash join (inner)", observed: "joined id pairs [[1 1]], pairs with 'a.l = b.r' TRUE [[1 1] [2 2]]"},
	{id: "C07-hashjoin-collation", l: vcAI, r: vcAI, lv: []string{"'a'", "'A'"}, rv: []string{"'x'", "'X'"}, inList: []string{"'q'"},
		op: "hash join 2col", observed: "joined id pairs [[1 1] [1 2] [2 2]], pairs with both '=' TRUE [[1 1] [1 2] [2 1] [2 2]]"},
	{id: "C07-hashin-time", l: todKinds[0], r: todKinds[0], lv: []string{"'00:00:01'"}, rv: []string{"'00:00:01'"}, inList: []string{"'00:00:01'"},
		op: "IN list (filter)", observed: "IN is TRUE for row ids [], some 'l = element' is TRUE for row ids [1]"},
	{id: "C07-hashin-negzero", l: numKinds[8], r: numKinds[8], lv: []string{"0e0"}, rv: []string{"0e0"}, inList: []string{"-0.5", "-0e0"},
		op: "IN list (filter)", observed: "IN is TRUE for row ids [], some 'l = element' is TRUE for row ids [1]"},
	{id: "C07-hashin-first-element-type", l: numKinds[0], r: numKinds[0], lv: []string{"2"}, rv: []string{"2"}, inList: []string{"1", "1.50"},
		op: "IN list (filter)", observed: "IN is TRUE for row ids [1], some 'l = element' is TRUE for row ids []"},
	// repaired in /repo (listed as C29-in-binary, status fixed): kept as a regression witness
	{id: "C29-in-binary", l: vcAI, r: vcAI, lv: []string{"'a'"}, rv: []string{"'a'"}, inList: []string{"'A'"},
		op: "IN list (projection)", observed: "IN is TRUE for row ids [], some 'l = element' is TRUE for row ids [1]"},
}

// TestC07Known re-confirms the witness of every finding. A witness that still violates
// the property is accepted only if its finding is listed (kf.Suppress); a witness that no
// longer violates is fine (the defect was repaired - then the main search is not excluding
// the region any more either, because exclusion also depends on the listing).
func TestC07Known(t *testing.T) {
	st := stats.New("C07", "known")
	defer st.Flush()
	for _, wit := range witnesses {
		st.Eval()
		c := &tcase{L: wit.l, R: wit.r, lv: wit.lv, rv: wit.rv, inList: wit.inList}
		f := fx.New(fx.Opts{})
		s := f.NewSession("", "", "")
		var w *world
		var skp *skip
		func() {
			defer f.Close()
			w, skp = loadT(t, c, s)
			if skp != nil {
				return
			}
			w.st, w.raw = st, true
			vs := w.checkAll()
			reproduced := false
			for _, v := range vs {
				if v.op == wit.op && (wit.observed == "" || v.msg == wit.observed) {
					reproduced = true
					if kf.Suppress(st, wit.id) {
						t.Logf("KNOWN-FINDING %s still reproduces: %s", wit.id, v)
					} else {
						t.Errorf("C07 violated (finding %s is not listed as known)\n%s\n%s", wit.id, c, v)
					}
				}
			}
			if !reproduced {
				st.Class("witness-not-reproduced:" + wit.id)
				t.Logf("witness of %s (%s) does not reproduce; violations seen: %v", wit.id, wit.op, vs)
			} else {
				st.NonTrivial(nil, wit.id, wit.op, c.String())
			}
		}()
		if skp != nil {
			st.Class("witness-skipped:" + wit.id)
			t.Logf("witness of %s skipped: %s", wit.id, skp.why)
		}
	}
}
