package c07

import (
	"fmt"
	"testing"

	"github.com/dolthub/go-mysql-server/vh/internal/fx"
)

func TestZZScratch(t *testing.T) {
	f := fx.New(fx.Opts{})
	defer f.Close()
	s := f.NewSession("", "", "")
	s.MustExec(t.Fatalf, "CREATE TABLE t (id INT PRIMARY KEY, l VARCHAR(8) COLLATE utf8mb4_0900_ai_ci, r TEXT COLLATE utf8mb4_0900_ai_ci)", "INSERT INTO t VALUES (1,'a','A'),(2,'b','B')")
	q := "SELECT l FROM t UNION SELECT r FROM t"
	fmt.Println(s.Plan(q))
	r := s.Exec(q)
	fmt.Println(r, r.Schema[0].Type)
}
