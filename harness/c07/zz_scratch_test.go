package c07

import (
	"fmt"
	"testing"

	"github.com/dolthub/go-mysql-server/vh/internal/fx"
)

func TestZZScratch(t *testing.T) {
	f := fx.New(fx.Opts{})
	defer f.Close()
	s := f.NewSession("", "", "")
	s.MustExec(t.Fatalf, "CREATE TABLE t (id INT PRIMARY KEY, w BIGINT NOT NULL, l VARCHAR(8) COLLATE utf8mb4_0900_ai_ci, r VARCHAR(8) COLLATE utf8mb4_0900_ai_ci)",
		"INSERT INTO t VALUES (1, 1, 'Á', NULL), (2, 2, 'ab', 'A'), (3, 4, 'AB', 'á'), (4, 8, NULL, 'a'), (5, 16, NULL, 'b'), (6, 32, 'ab', 'Á'), (7, 64, 'AB', 'ab'), (8, 128, 'aB', 'á'), (9, 256, 'aB', 'Á'), (10, 512, 'A', NULL), (11, 1024, 'ab', NULL)")
	q := "SELECT id FROM t WHERE l IN (SELECT r FROM t)"
	fmt.Println(s.Plan(q))
	fmt.Println(s.Exec(q))
	s.MustExec(t.Fatalf, "DELETE FROM t WHERE id > 8")
	fmt.Println(s.Plan(q))
	fmt.Println(s.Exec(q))
}
