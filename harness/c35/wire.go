package c35

import (
	"bytes"
	"context"
	"database/sql"
	"encoding/json"
	"fmt"
	"math"
	"math/big"
	"sort"
	"strconv"
	"strings"
	"sync/atomic"
	"time"

	"github.com/dolthub/vitess/go/sqltypes"
	querypb "github.com/dolthub/vitess/go/vt/proto/query"
	"github.com/dolthub/vitess/go/vt/sqlparser"

	gsql "github.com/dolthub/go-mysql-server/sql"
	"github.com/dolthub/go-mysql-server/vh/internal/fx"
	"github.com/dolthub/go-mysql-server/vh/internal/srvfx"
)

// ---------------------------------------------------------------------------------------
// canonical forms
//
// Both sides are mapped to the canonical strings of fx.Norm (N, n:<rat>, f:<%.17g>,
// s:<bytes>, t:<unix micros>, d:<micros>), with one difference: JSON is canonicalised here
// (j:<text>, numbers printed through float64) because the engine keeps the Go number type
// a JSON document was built from while the wire only carries text.

// normEngine canonicalises one engine value.
func normEngine(v any, typ gsql.Type) string {
	if v == nil {
		return "N"
	}
	if jw, ok := v.(gsql.JSONWrapper); ok {
		i, err := jw.ToInterface(context.Background())
		if err != nil {
			return "?:json-error:" + err.Error()
		}
		return "j:" + canonJSON(i)
	}
	return fx.Norm(v, typ)
}

// nonconforming counts engine cells whose Go value was not of the column's declared type
// (they are compared after Type.Convert, see normEngineRows).
var nonconforming atomic.Int64

var convCtx = gsql.NewEmptyContext()

// normEngineRows canonicalises the engine's rows. The wire carries every value as the
// column type the engine declares in the result schema, so a value that is not of that
// type (for example a decimal in a column declared DOUBLE: property C09, not this one) is
// first converted to it with the type's own Convert; conforming values are unchanged by it.
func normEngineRows(sch gsql.Schema, rows []gsql.Row) [][]string {
	out := make([][]string, len(rows))
	for i, r := range rows {
		o := make([]string, len(r))
		for j, v := range r {
			var t gsql.Type
			if j < len(sch) {
				t = sch[j].Type
			}
			o[j] = normEngine(v, t)
			if v != nil && t != nil {
				if cv, ok := convertTo(t, v); ok {
					if c := normEngine(cv, t); c != o[j] {
						nonconforming.Add(1)
						o[j] = c
					}
				}
			}
		}
		out[i] = o
	}
	return out
}

func convertTo(t gsql.Type, v any) (cv any, ok bool) {
	defer func() {
		if recover() != nil {
			ok = false
		}
	}()
	switch t.Type() {
	case sqltypes.Float32, sqltypes.Float64, sqltypes.Decimal,
		sqltypes.Int8, sqltypes.Int16, sqltypes.Int24, sqltypes.Int32, sqltypes.Int64,
		sqltypes.Uint8, sqltypes.Uint16, sqltypes.Uint24, sqltypes.Uint32, sqltypes.Uint64:
	default:
		return nil, false // only numeric representation changes are bridged
	}
	cv, inRange, err := t.Convert(convCtx, v)
	if err != nil || inRange != gsql.InRange {
		return nil, false
	}
	return cv, true
}

func canonJSON(v any) string {
	var sb strings.Builder
	writeCanonJSON(&sb, v)
	return sb.String()
}

func writeCanonJSON(sb *strings.Builder, v any) {
	switch x := v.(type) {
	case nil:
		sb.WriteString("null")
	case map[string]any:
		keys := make([]string, 0, len(x))
		for k := range x {
			keys = append(keys, k)
		}
		sort.Strings(keys)
		sb.WriteByte('{')
		for i, k := range keys {
			if i > 0 {
				sb.WriteByte(',')
			}
			sb.WriteString(strconv.Quote(k))
			sb.WriteByte(':')
			writeCanonJSON(sb, x[k])
		}
		sb.WriteByte('}')
	case []any:
		sb.WriteByte('[')
		for i, e := range x {
			if i > 0 {
				sb.WriteByte(',')
			}
			writeCanonJSON(sb, e)
		}
		sb.WriteByte(']')
	case string:
		sb.WriteString(strconv.Quote(x))
	case bool:
		sb.WriteString(strconv.FormatBool(x))
	case json.Number:
		f, err := strconv.ParseFloat(string(x), 64)
		if err != nil {
			sb.WriteString("?" + string(x))
			return
		}
		sb.WriteString(strconv.FormatFloat(f, 'g', -1, 64))
	default:
		// any Go number type (and decimals): through its canonical number, as float64
		n := fx.Norm(v, nil)
		if strings.HasPrefix(n, "n:") {
			if r, ok := new(big.Rat).SetString(n[2:]); ok {
				f, _ := r.Float64()
				sb.WriteString(strconv.FormatFloat(f, 'g', -1, 64))
				return
			}
		}
		if strings.HasPrefix(n, "f:") {
			if f, err := strconv.ParseFloat(n[2:], 64); err == nil {
				sb.WriteString(strconv.FormatFloat(f, 'g', -1, 64))
				return
			}
		}
		sb.WriteString(n)
	}
}

// normWire canonicalises one value as delivered by go-sql-driver (text protocol: []byte,
// or int64/uint64/float32/float64 for numeric field types; binary protocol: the same Go
// types, temporal values formatted by the driver) against the type the engine declares for
// the column.
func normWire(v any, typ gsql.Type) string {
	switch x := v.(type) {
	case nil:
		return "N"
	case int64:
		return "n:" + strconv.FormatInt(x, 10)
	case uint64:
		return "n:" + strconv.FormatUint(x, 10)
	case float32:
		return "f:" + strconv.FormatFloat(float64(x), 'g', 17, 64)
	case float64:
		return "f:" + strconv.FormatFloat(x, 'g', 17, 64)
	case bool:
		if x {
			return "n:1"
		}
		return "n:0"
	case time.Time:
		return "t:" + strconv.FormatInt(x.UTC().UnixMicro(), 10)
	case string:
		return normWireText([]byte(x), typ)
	case []byte:
		return normWireText(x, typ)
	}
	return fmt.Sprintf("?:%T:%v", v, v)
}

func normWireText(b []byte, typ gsql.Type) string {
	s := string(b)
	qt := sqltypes.Null
	if typ != nil {
		qt = typ.Type()
	}
	switch qt {
	case sqltypes.Int8, sqltypes.Int16, sqltypes.Int24, sqltypes.Int32, sqltypes.Int64,
		sqltypes.Uint8, sqltypes.Uint16, sqltypes.Uint24, sqltypes.Uint32, sqltypes.Uint64, sqltypes.Year,
		sqltypes.Decimal:
		if r, ok := new(big.Rat).SetString(s); ok && !strings.ContainsAny(s, "eE/") {
			return "n:" + r.RatString()
		}
		return "?:number:" + s
	case sqltypes.Float32:
		f, err := strconv.ParseFloat(s, 32)
		if err != nil && !isRangeErr(err) {
			return "?:float:" + s
		}
		return "f:" + strconv.FormatFloat(float64(float32(f)), 'g', 17, 64)
	case sqltypes.Float64:
		f, err := strconv.ParseFloat(s, 64)
		if err != nil && !isRangeErr(err) {
			return "?:double:" + s
		}
		return "f:" + strconv.FormatFloat(f, 'g', 17, 64)
	case sqltypes.Bit:
		if len(b) > 8 {
			return "?:bit:" + fmt.Sprintf("%x", b)
		}
		var u uint64
		for _, c := range b {
			u = u<<8 | uint64(c)
		}
		return "n:" + strconv.FormatUint(u, 10)
	case sqltypes.Date, sqltypes.Datetime, sqltypes.Timestamp:
		if us, ok := parseDateTime(s); ok {
			return "t:" + strconv.FormatInt(us, 10)
		}
		return "?:datetime:" + s
	case sqltypes.Time:
		if us, ok := parseTimespan(s); ok {
			return "d:" + strconv.FormatInt(us, 10)
		}
		return "?:time:" + s
	case sqltypes.TypeJSON:
		dec := json.NewDecoder(bytes.NewReader(b))
		dec.UseNumber()
		var v any
		if err := dec.Decode(&v); err != nil {
			return "?:json:" + s
		}
		if dec.More() {
			return "?:json-trailing:" + s
		}
		return "j:" + canonJSON(v)
	}
	// character and binary strings, ENUM, SET, and everything untyped: the bytes
	return "s:" + s
}

func isRangeErr(err error) bool {
	ne, ok := err.(*strconv.NumError)
	return ok && ne.Err == strconv.ErrRange
}

// parseDateTime parses "YYYY-MM-DD[ HH:MM:SS[.ffffff]]" into unix microseconds (UTC).
func parseDateTime(s string) (int64, bool) {
	layouts := []string{"2006-01-02 15:04:05.999999", "2006-01-02"}
	for _, l := range layouts {
		if t, err := time.Parse(l, s); err == nil {
			return t.UnixMicro(), true
		}
	}
	return 0, false
}

// parseTimespan parses "[-]H+:MM:SS[.ffffff]" into microseconds.
func parseTimespan(s string) (int64, bool) {
	neg := false
	if strings.HasPrefix(s, "-") {
		neg = true
		s = s[1:]
	}
	frac := ""
	if i := strings.IndexByte(s, '.'); i >= 0 {
		frac = s[i+1:]
		s = s[:i]
	}
	parts := strings.Split(s, ":")
	if len(parts) != 3 {
		return 0, false
	}
	h, e1 := strconv.ParseInt(parts[0], 10, 64)
	m, e2 := strconv.ParseInt(parts[1], 10, 64)
	sec, e3 := strconv.ParseInt(parts[2], 10, 64)
	if e1 != nil || e2 != nil || e3 != nil || m > 59 || sec > 59 || h < 0 || m < 0 || sec < 0 {
		return 0, false
	}
	var us int64
	if frac != "" {
		if len(frac) > 6 {
			return 0, false
		}
		f, err := strconv.ParseInt(frac+strings.Repeat("0", 6-len(frac)), 10, 64)
		if err != nil {
			return 0, false
		}
		us = f
	}
	total := ((h*60+m)*60+sec)*1e6 + us
	if neg {
		total = -total
	}
	return total, true
}

// valEq compares two canonical values exactly. Numbers delivered in different Go types
// (n: vs f:) are compared by value; no tolerance is applied anywhere: the text protocol
// prints the shortest representation that round-trips, the binary protocol carries the bits.
func valEq(a, b string) bool {
	if a == b {
		return true
	}
	ra, oka := exactNumber(a)
	rb, okb := exactNumber(b)
	if !oka || !okb {
		return false
	}
	return ra.Cmp(rb) == 0
}

func exactNumber(s string) (*big.Rat, bool) {
	if strings.HasPrefix(s, "n:") {
		return new(big.Rat).SetString(s[2:])
	}
	if strings.HasPrefix(s, "f:") {
		f, err := strconv.ParseFloat(s[2:], 64)
		if err != nil || math.IsNaN(f) || math.IsInf(f, 0) {
			return nil, false
		}
		return new(big.Rat).SetFloat64(f), true
	}
	return nil, false
}

func rowEq(a, b []string) bool {
	if len(a) != len(b) {
		return false
	}
	for i := range a {
		if !valEq(a[i], b[i]) {
			return false
		}
	}
	return true
}

// sortKey maps a canonical value to a key under which valEq-equal values collide.
func sortKey(v string) string {
	if r, ok := exactNumber(v); ok {
		return "#" + r.RatString()
	}
	return v
}

// diffRows compares got with want as sequences (ordered) or multisets and describes the
// first difference ("" when equal).
func diffRows(got, want [][]string, ordered bool) string {
	if !ordered {
		return diffMultiset(got, want)
	}
	n := len(got)
	if len(want) < n {
		n = len(want)
	}
	for i := 0; i < n; i++ {
		if !rowEq(got[i], want[i]) {
			return fmt.Sprintf("row %d differs: client got %s, engine produced %s (client %d rows, engine %d rows)",
				i, showRow(got[i]), showRow(want[i]), len(got), len(want))
		}
	}
	if len(got) != len(want) {
		return fmt.Sprintf("row count differs: client got %d rows, engine produced %d rows (the first %d agree)", len(got), len(want), n)
	}
	return ""
}

func rowKey(r []string) string {
	ks := make([]string, len(r))
	for j, v := range r {
		ks[j] = sortKey(v)
	}
	return strings.Join(ks, "\x1f")
}

// diffMultiset reports the rows that only one side has.
func diffMultiset(got, want [][]string) string {
	count := map[string]int{}
	for _, r := range want {
		count[rowKey(r)]++
	}
	var onlyClient [][]string
	for _, r := range got {
		k := rowKey(r)
		if count[k] > 0 {
			count[k]--
		} else {
			onlyClient = append(onlyClient, r)
		}
	}
	var onlyEngine [][]string
	for _, r := range want {
		k := rowKey(r)
		if count[k] > 0 {
			count[k]--
			onlyEngine = append(onlyEngine, r)
		}
	}
	if len(onlyClient) == 0 && len(onlyEngine) == 0 {
		return ""
	}
	show := func(rows [][]string) string {
		var parts []string
		for i, r := range rows {
			if i == 3 {
				parts = append(parts, "…")
				break
			}
			parts = append(parts, showRow(r))
		}
		return strings.Join(parts, " ")
	}
	return fmt.Sprintf("as multisets: client got %d rows, engine produced %d rows; %d rows only at the client: %s; %d rows only in the engine: %s",
		len(got), len(want), len(onlyClient), show(onlyClient), len(onlyEngine), show(onlyEngine))
}

func showRow(r []string) string {
	parts := make([]string, len(r))
	for i, v := range r {
		if len(v) > 80 {
			v = fmt.Sprintf("%s…(%d bytes)", v[:80], len(v))
		}
		parts[i] = strconv.QuoteToASCII(v)
	}
	return "(" + strings.Join(parts, ", ") + ")"
}

// ---------------------------------------------------------------------------------------
// running statements over the wire

// wireResult is what the client observed for one statement.
type wireResult struct {
	Cols     []string
	Rows     [][]any
	Affected int64
	InsertID int64
	IsExec   bool // executed through Exec (OK packet expected)
	Err      error
	// RowsBeforeErr is set when Err came after some rows had been delivered.
	Hung bool
}

// clientTimeout is a liveness guard for one client call (never an oracle): a call that
// does not return makes the run inconclusive.
const clientTimeout = 120 * time.Second

// execer is the subset of *sql.Conn / *sql.Stmt used here.
type wireConn struct {
	c *sql.Conn
}

func scanAll(rows *sql.Rows) (cols []string, out [][]any, err error) {
	defer rows.Close()
	cols, err = rows.Columns()
	if err != nil {
		return nil, nil, err
	}
	for rows.Next() {
		vals := make([]any, len(cols))
		ptrs := make([]any, len(cols))
		for i := range vals {
			ptrs[i] = &vals[i]
		}
		if err := rows.Scan(ptrs...); err != nil {
			return cols, out, err
		}
		out = append(out, vals)
	}
	return cols, out, rows.Err()
}

// run executes one statement on the pinned connection. binary selects the prepared
// (binary) protocol: COM_STMT_PREPARE + COM_STMT_EXECUTE (+ COM_STMT_CLOSE); otherwise the
// statement is sent as COM_QUERY text. expectOK selects Exec (the statement is expected to
// answer with an OK packet) or Query (a result set is expected).
func (w *wireConn) run(q string, binary bool, args []any, expectOK bool) *wireResult {
	res := &wireResult{IsExec: expectOK}
	ctx, cancel := context.WithTimeout(context.Background(), clientTimeout)
	defer cancel()
	done := make(chan struct{})
	go func() {
		defer close(done)
		if binary {
			st, err := w.c.PrepareContext(ctx, q)
			if err != nil {
				res.Err = err
				return
			}
			defer st.Close()
			if expectOK {
				r, err := st.ExecContext(ctx, args...)
				if err != nil {
					res.Err = err
					return
				}
				res.Affected, _ = r.RowsAffected()
				res.InsertID, _ = r.LastInsertId()
				return
			}
			rows, err := st.QueryContext(ctx, args...)
			if err != nil {
				res.Err = err
				return
			}
			res.Cols, res.Rows, res.Err = scanAll(rows)
			return
		}
		if expectOK {
			r, err := w.c.ExecContext(ctx, q)
			if err != nil {
				res.Err = err
				return
			}
			res.Affected, _ = r.RowsAffected()
			res.InsertID, _ = r.LastInsertId()
			return
		}
		rows, err := w.c.QueryContext(ctx, q)
		if err != nil {
			res.Err = err
			return
		}
		res.Cols, res.Rows, res.Err = scanAll(rows)
	}()
	select {
	case <-done:
	case <-time.After(clientTimeout + 10*time.Second):
		srvfx.Inconclusive(fmt.Errorf("client call did not return: %s", q))
	}
	if ctx.Err() != nil {
		srvfx.Inconclusive(fmt.Errorf("client call exceeded the liveness guard of %v: %s", clientTimeout, q))
	}
	return res
}

// runMulti sends several statements in one COM_QUERY (multi-statement mode) and collects
// one result set per statement.
func (w *wireConn) runMulti(q string) (sets []*wireResult, err error) {
	ctx, cancel := context.WithTimeout(context.Background(), clientTimeout)
	defer cancel()
	rows, err := w.c.QueryContext(ctx, q)
	if err != nil {
		return nil, err
	}
	defer rows.Close()
	for {
		r := &wireResult{}
		r.Cols, err = rows.Columns()
		if err != nil {
			return sets, err
		}
		for rows.Next() {
			vals := make([]any, len(r.Cols))
			ptrs := make([]any, len(r.Cols))
			for i := range vals {
				ptrs[i] = &vals[i]
			}
			if err := rows.Scan(ptrs...); err != nil {
				return sets, err
			}
			r.Rows = append(r.Rows, vals)
		}
		if err := rows.Err(); err != nil {
			return sets, err
		}
		sets = append(sets, r)
		if !rows.NextResultSet() {
			break
		}
	}
	if ctx.Err() != nil {
		srvfx.Inconclusive(fmt.Errorf("client call exceeded the liveness guard: %s", q))
	}
	return sets, rows.Err()
}

func normWireRows(sch gsql.Schema, rows [][]any) [][]string {
	out := make([][]string, len(rows))
	for i, r := range rows {
		o := make([]string, len(r))
		for j, v := range r {
			var t gsql.Type
			if j < len(sch) {
				t = sch[j].Type
			}
			o[j] = normWire(v, t)
		}
		out[i] = o
	}
	return out
}

// ---------------------------------------------------------------------------------------
// bindings for the in-process side of a prepared statement with parameters

// bindingsFor builds the bindings the server builds for the same arguments: the driver
// sends int64 as LONGLONG, float64 as DOUBLE, string as a length-encoded string and nil
// as NULL; vitess turns those into INT64, FLOAT64, VARBINARY and NULL values
// (mysql/query.go parseStmtArgs), and the handler converts them with
// sqltypes.BindVariableToValue + sqlparser.ExprFromValue (server/handler.go bindingsToExprs).
func bindingsFor(args []any) (map[string]sqlparser.Expr, error) {
	if len(args) == 0 {
		return nil, nil
	}
	out := map[string]sqlparser.Expr{}
	for i, a := range args {
		var v sqltypes.Value
		switch x := a.(type) {
		case nil:
			v = sqltypes.NULL
		case int64:
			v = sqltypes.NewInt64(x)
		case float64:
			v = sqltypes.NewFloat64(x)
		case string:
			v = sqltypes.MakeTrusted(sqltypes.VarBinary, []byte(x))
		default:
			return nil, fmt.Errorf("unsupported argument type %T", a)
		}
		var bv *querypb.BindVariable = sqltypes.ValueBindVariable(v)
		val, err := sqltypes.BindVariableToValue(bv)
		if err != nil {
			return nil, err
		}
		e, err := sqlparser.ExprFromValue(val)
		if err != nil {
			return nil, err
		}
		out[fmt.Sprintf("v%d", i+1)] = e
	}
	return out, nil
}

const (
	mysqlTypeTimestamp = sqltypes.Timestamp
	mysqlTypeTime      = sqltypes.Time
)
