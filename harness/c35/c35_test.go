package c35

import (
	"fmt"
	"os"
	"runtime"
	"strings"
	"testing"
	"time"

	"github.com/dolthub/vitess/go/mysql"
	"pgregory.net/rapid"

	sqle "github.com/dolthub/go-mysql-server"
	"github.com/dolthub/go-mysql-server/memory"
	gsql "github.com/dolthub/go-mysql-server/sql"
	"github.com/dolthub/go-mysql-server/sql/analyzer"
	"github.com/dolthub/go-mysql-server/vh/internal/fx"
	"github.com/dolthub/go-mysql-server/vh/internal/kf"
	"github.com/dolthub/go-mysql-server/vh/internal/srvfx"
	"github.com/dolthub/go-mysql-server/vh/internal/stats"
)

const rowsBatch = 128 // server/handler.go

// Findings (see notes/C35.md and notes/C35.findings.json).
const (
	// binary protocol: fractional seconds of TIMESTAMP(n) columns are cut off by a client that
	// honours the column metadata, because schemaToFields sets Decimals only for DATETIME.
	kfTimestampDecimals = "C35-bin-timestamp-decimals"
	// the same for TIME columns (TimespanType has no precision to announce).
	kfTimeDecimals = "C35-bin-time-decimals"
	// value-row pipeline: a filter `x >= y` / `x <= y` evaluated on value rows is TRUE when
	// an operand is NULL (comparison.CompareValue returns 0 for NULL operands), so the
	// client receives rows the engine does not produce in process.
	kfValueRowNullCmp = "C35-valuerow-null-cmp"
)

// Not a finding, but outside what the statement pins down: FOUND_ROWS() right after a
// SELECT that failed while evaluating its select list is 1 for a client and 0 in process
// (the handler defers the top-level projection, so the row iterator that feeds FOUND_ROWS
// has already counted the row when the projection fails). What the counter holds after a
// failed statement is not defined by MySQL either, so the search does not ask for it.
const unpinnedFoundRowsAfterFail = "unpinned:found-rows-after-failed-statement"

// ---------------------------------------------------------------------------------------
// one case = one fixture + one server

type env struct {
	f     *fx.Fixture
	srv   *srvfx.Server
	found bool // clients connect with CLIENT_FOUND_ROWS
	multi bool // clients connect with CLIENT_MULTI_STATEMENTS (text statements then go through ComMultiQuery)
	base  int  // goroutines before the case built anything
}

// newEnv builds the engine over an in-memory provider with the database d (as fx.New does)
// plus the value-row database v (vrtab.go).
func newEnv(found bool, vseed uint64) *env {
	base := runtime.NumGoroutine()
	db := memory.NewDatabase("d")
	pro := memory.NewDBProvider(db, newVrDB(vseed))
	eng := sqle.New(analyzer.NewDefault(pro), &sqle.Config{})
	return &env{f: &fx.Fixture{Pro: pro, Engine: eng, DBs: []*memory.Database{db}}, found: found, base: base}
}

// twin creates the in-process session that mirrors one client connection: same user,
// same capabilities, same current database.
func (e *env) twin() *fx.Sess {
	var caps uint32
	if e.found {
		caps = mysql.CapabilityClientFoundRows
	}
	base := gsql.NewBaseSessionWithClientServer("127.0.0.1:3306", gsql.Client{User: "root", Address: "127.0.0.1", Capabilities: caps}, 0)
	s := memory.NewSession(base, e.f.Pro)
	s.SetCurrentDatabase("d")
	return &fx.Sess{F: e.f, S: s, Timeout: 120 * time.Second}
}

func (e *env) start() error {
	srv, err := srvfx.Start(e.f.Engine, e.f.Pro, srvfx.Opts{TeardownTimeout: teardownTimeout})
	if err != nil {
		return err
	}
	e.srv = srv
	return nil
}

func (e *env) connect() (*wireConn, error) {
	params := map[string]string{}
	if e.found {
		params["clientFoundRows"] = "true"
	}
	if e.multi {
		params["multiStatements"] = "true"
	}
	c, err := e.srv.Conn("d", params)
	if err != nil {
		return nil, err
	}
	return &wireConn{c: c}, nil
}

// teardownTimeout bounds the teardown of one case. A liveness guard only (the machine may
// be heavily loaded): a teardown that does not finish makes the shard inconclusive.
const teardownTimeout = 90 * time.Second

// close ends the case: clients closed, listener closed, accept loop joined, every
// connection handler returned (srvfx.Close awaits SessionManager.WaitForClosedConnections),
// engine closed - and then nothing of the case may be left running: the number of
// goroutines must come back to what it was before the case built its engine and server.
// That includes the listener's accept goroutine (server/listener.go NewListener), which
// only returns once the socket is closed, the per-connection handler goroutines of vitess,
// the row-spooling goroutines of the handler, and the harness's own client goroutines. A
// case that does not get there is a liveness problem (inconclusive), not a verdict.
func (e *env) close() {
	if e.srv != nil {
		if err := e.srv.Close(); err != nil {
			srvfx.Inconclusive(err)
		}
	}
	e.f.Close()
	deadline := time.Now().Add(teardownTimeout)
	for wait := time.Millisecond; runtime.NumGoroutine() > e.base; {
		if time.Now().After(deadline) {
			buf := make([]byte, 1<<17)
			buf = buf[:runtime.Stack(buf, true)]
			srvfx.Inconclusive(fmt.Errorf("%d goroutines before the case, %d still there %v after its teardown:\n%s", e.base, runtime.NumGoroutine(), teardownTimeout, buf))
		}
		time.Sleep(wait)
		if wait < 50*time.Millisecond {
			wait *= 2
		}
	}
}

// ---------------------------------------------------------------------------------------
// the differential oracle for one statement

type outcome struct {
	msg      string // "" = agrees
	broken   bool   // the client connection is no longer usable (legitimately)
	nontriv  bool
	sizeSeen int
	class    string
	skip     bool // in-process side panicked / timed out: nothing to compare
}

func expectedErr(err error) (uint16, string) {
	se := gsql.CastSQLError(err)
	return uint16(se.Num), se.State
}

// checkStmt runs st in process on tw and over the wire on wc and compares.
func checkStmt(st *stats.Collector, tw *fx.Sess, wc *wireConn, s *stmt) outcome {
	if len(s.Multi) > 0 {
		return checkMulti(st, tw, wc, s)
	}
	execs := s.Args
	if len(execs) == 0 {
		execs = [][]any{nil}
	}
	var out outcome
	for _, args := range execs {
		o := checkExec(st, tw, wc, s, args)
		if o.msg != "" || o.skip || o.broken {
			return o
		}
		out.nontriv = out.nontriv || o.nontriv
		if o.sizeSeen > out.sizeSeen {
			out.sizeSeen = o.sizeSeen
		}
		out.class = o.class
	}
	return out
}

// checkMulti: the parts run one after the other in process, and together in one COM_QUERY
// over the wire; result set i must equal the result of part i.
func checkMulti(st *stats.Collector, tw *fx.Sess, wc *wireConn, s *stmt) (out outcome) {
	exps, err := expectMulti(tw, s)
	if err != nil {
		out.msg = "harness: " + err.Error()
		return
	}
	if last := exps[len(exps)-1]; last.Panic != nil || last.TimedOut {
		out.skip = true
		return
	}
	sets, err := wc.runMulti(s.SQL)
	return compareMulti(st, s, exps, sets, err)
}

// expectMulti runs the parts of a multi-statement in process, one after the other, up to
// and including the first part that fails (the server stops there as well); the statement
// is cut to the parts that ran.
func expectMulti(tw *fx.Sess, s *stmt) ([]*fx.Result, error) {
	var exps []*fx.Result
	for i, p := range s.Multi {
		exp, err := expect(tw, p, nil)
		if err != nil {
			return nil, err
		}
		exps = append(exps, exp)
		if exp.Panic != nil || exp.TimedOut {
			return exps, nil
		}
		if exp.Err != nil {
			s.Multi = s.Multi[:i+1]
			var texts []string
			for _, q := range s.Multi {
				texts = append(texts, q.SQL)
			}
			s.SQL = strings.Join(texts, "; ")
			s.Twin = s.SQL
			break
		}
	}
	return exps, nil
}

func compareMulti(st *stats.Collector, s *stmt, exps []*fx.Result, sets []*wireResult, err error) (out outcome) {
	nOK := len(exps)
	failing := exps[len(exps)-1].Err != nil
	if failing {
		nOK--
	}
	if err != nil && !failing {
		out.msg = fmt.Sprintf("the engine succeeds on all %d statements, the client received an error after %d result sets: %v", len(exps), len(sets), err)
		out.broken = srvfx.IsConnBroken(err)
		return
	}
	if len(sets) != nOK {
		out.msg = fmt.Sprintf("%d statements were sent (%d succeed in process), the client received %d complete result sets (error: %v)", len(exps), nOK, len(sets), err)
		return
	}
	for i := 0; i < nOK; i++ {
		p := s.Multi[i]
		o := compare(st, p, exps[i], sets[i])
		if o.msg != "" {
			o.msg = fmt.Sprintf("result set %d of %d (%s): %s", i+1, len(sets), clip(p.SQL), o.msg)
			return o
		}
		if o.sizeSeen > out.sizeSeen {
			out.sizeSeen = o.sizeSeen
		}
	}
	out.class = "multi-rows"
	out.nontriv = true
	if failing {
		o := compare(st, s.Multi[nOK], exps[nOK], &wireResult{Err: err})
		if o.msg != "" {
			o.msg = fmt.Sprintf("statement %d of %d (%s): %s", nOK+1, len(exps), clip(s.Multi[nOK].SQL), o.msg)
			return o
		}
		out.broken = o.broken
		out.class = "multi-rows-then-error"
	}
	return
}

func checkExec(st *stats.Collector, tw *fx.Sess, wc *wireConn, s *stmt, args []any) (out outcome) {
	exp, err := expect(tw, s, args)
	if err != nil {
		out.msg = "harness: " + err.Error()
		return
	}
	if exp.Panic != nil || exp.TimedOut {
		out.skip = true
		return
	}
	got := runWire(wc, s, args, exp)
	return compare(st, s, exp, got)
}

// expect runs one execution of s in process.
func expect(tw *fx.Sess, s *stmt, args []any) (*fx.Result, error) {
	binds, err := bindingsFor(args)
	if err != nil {
		return nil, err
	}
	return tw.ExecB(s.Twin, binds), nil
}

// abortsStream reports whether the expectation is a failure after at least one full batch:
// the server may then have to abort the connection instead of sending the error.
func abortsStream(exp *fx.Result) bool { return exp.Err != nil && len(exp.Rows) >= rowsBatch }

// runWire runs the same execution over the wire; the expected shape decides between Exec
// (OK packet) and Query (result set).
func runWire(wc *wireConn, s *stmt, args []any, exp *fx.Result) *wireResult {
	_, expectOK := exp.OkResult()
	if exp.Err != nil {
		// no result shape to go by: statements that can produce rows go through Query
		u := strings.ToUpper(strings.TrimSpace(s.SQL))
		expectOK = !(strings.HasPrefix(u, "SELECT") || strings.HasPrefix(u, "SHOW") || strings.HasPrefix(u, "WITH") || strings.HasPrefix(u, "DESCRIBE"))
	}
	return wc.run(s.SQL, s.Binary, args, expectOK)
}

// compare is the oracle: what the client observed (got) against what the engine produced
// in process (exp).
func compare(st *stats.Collector, s *stmt, exp *fx.Result, got *wireResult) (out outcome) {
	_, isOK := exp.OkResult()
	if exp.Err != nil {
		num, state := expectedErr(exp.Err)
		k := len(exp.Rows) // rows the engine produced before it failed
		out.class = "error"
		// after a failure behind the first batch the client always reconnects (and the
		// in-process twin session is renewed), whether or not the server had to abort
		out.broken = abortsStream(exp)
		if got.Err == nil {
			out.msg = fmt.Sprintf("the engine fails with error %d (%v) after %d rows, the client received no error (%d rows, affected=%d)", num, exp.Err, k, len(got.Rows), got.Affected)
			return
		}
		gn, gs, isPacket := srvfx.ErrNumber(got.Err)
		if isPacket {
			if gn != num || gs != state {
				out.msg = fmt.Sprintf("the engine fails with error %d/%s (%v), the client received error %d/%s (%v)", num, state, exp.Err, gn, gs, got.Err)
				return
			}
			out.nontriv = true
			return
		}
		// not an error packet: the server aborted the connection. The protocol allows that
		// only once a part of the result set is on its way, i.e. after a full batch.
		out.class = "error-midstream-abort"
		if k < rowsBatch {
			out.msg = fmt.Sprintf("the engine fails with error %d (%v) after %d rows (before the first batch of %d), the client did not receive that error but: %v", num, exp.Err, k, rowsBatch, got.Err)
			return
		}
		if len(got.Rows) > k {
			out.msg = fmt.Sprintf("the engine fails after %d rows, the client received %d rows before the connection was aborted", k, len(got.Rows))
			return
		}
		if s.Ordered {
			want := normEngineRows(exp.Schema, exp.Rows[:len(got.Rows)])
			if d := diffRows(normWireRows(exp.Schema, got.Rows), want, true); d != "" {
				out.msg = "rows received before the failure are not a prefix of the engine's rows: " + d
				return
			}
		}
		out.nontriv = true
		out.sizeSeen = k
		return
	}

	if got.Err != nil {
		out.msg = fmt.Sprintf("the engine succeeds (%d rows), the client received an error: %v", len(exp.Rows), got.Err)
		out.broken = srvfx.IsConnBroken(got.Err)
		return
	}

	if isOK {
		ok, _ := exp.OkResult()
		out.class = "ok-packet"
		if uint64(got.Affected) != ok.RowsAffected || uint64(got.InsertID) != ok.InsertID {
			out.msg = fmt.Sprintf("OK packet differs: client got RowsAffected=%d LastInsertId=%d, engine produced RowsAffected=%d InsertID=%d",
				got.Affected, got.InsertID, ok.RowsAffected, ok.InsertID)
			return
		}
		out.nontriv = true
		out.sizeSeen = int(ok.RowsAffected)
		return
	}

	// result set
	out.class = "rows"
	if len(got.Cols) != len(exp.Schema) {
		out.msg = fmt.Sprintf("column count differs: client got %d columns %q, engine produced %d", len(got.Cols), got.Cols, len(exp.Schema))
		return
	}
	for i, c := range exp.Schema {
		if got.Cols[i] != c.Name {
			out.msg = fmt.Sprintf("column %d is named %q for the client, %q in the engine", i, got.Cols[i], c.Name)
			return
		}
	}
	want := normEngineRows(exp.Schema, exp.Rows)
	have := normWireRows(exp.Schema, got.Rows)
	if d := diffRows(have, want, s.Ordered); d != "" {
		if s.Binary {
			if ts, tm, ok := isTemporalDecimalsFinding(exp.Schema, have, want, s.Ordered, kf.Listed(kfTimestampDecimals), kf.Listed(kfTimeDecimals)); ok {
				out.class = "known"
				if ts {
					kf.Suppress(st, kfTimestampDecimals)
					out.class += "-" + kfTimestampDecimals
				}
				if tm {
					kf.Suppress(st, kfTimeDecimals)
					out.class += "-" + kfTimeDecimals
				}
				return
			}
		}
		if len(s.NullCmpCols) > 0 && isValueRowNullCmpFinding(s.NullCmpCols, have, want) && kf.Suppress(st, kfValueRowNullCmp) {
			out.class = "known-" + kfValueRowNullCmp
			return
		}
		out.msg = d
		return
	}
	out.sizeSeen = len(exp.Rows)
	out.nontriv = len(exp.Rows) > rowsBatch
	return
}

// isTemporalDecimalsFinding is the signature of C35-bin-timestamp-decimals and
// C35-bin-time-decimals: binary protocol (checked by the caller), the results have the same
// shape, and every differing cell is a TIMESTAMP resp. TIME column whose engine value has
// fractional seconds while the client value is that value cut to whole seconds. allowTs /
// allowTime say which of the two findings is listed; ts / tm report which of them explain
// cells of this result.
func isTemporalDecimalsFinding(sch gsql.Schema, have, want [][]string, ordered, allowTs, allowTime bool) (ts, tm, ok bool) {
	if len(have) != len(want) || !(allowTs || allowTime) {
		return false, false, false
	}
	allowed := func(j int) (isTs, isTime bool) {
		if j >= len(sch) {
			return false, false
		}
		switch sch[j].Type.Type() {
		case mysqlTypeTimestamp:
			return allowTs, false
		case mysqlTypeTime:
			return false, allowTime
		}
		return false, false
	}
	if !ordered {
		// unordered results: cut the engine's values the same way and compare again
		cut := make([][]string, len(want))
		for i, r := range want {
			c := append([]string(nil), r...)
			for j := range c {
				isTs, isTime := allowed(j)
				if !isTs && !isTime {
					continue
				}
				if t, ok := cutFraction(c[j]); ok && t != c[j] {
					c[j] = t
					ts, tm = ts || isTs, tm || isTime
				}
			}
			cut[i] = c
		}
		if (ts || tm) && diffRows(have, cut, false) == "" {
			return ts, tm, true
		}
		return false, false, false
	}
	for i := range want {
		if len(have[i]) != len(want[i]) {
			return false, false, false
		}
		for j := range want[i] {
			if valEq(have[i][j], want[i][j]) {
				continue
			}
			isTs, isTime := allowed(j)
			if !isTs && !isTime {
				return false, false, false
			}
			t, ok := cutFraction(want[i][j])
			if !ok || t == want[i][j] || t != have[i][j] {
				return false, false, false
			}
			ts, tm = ts || isTs, tm || isTime
		}
	}
	return ts, tm, ts || tm
}

// isValueRowNullCmpFinding is the signature of C35-valuerow-null-cmp: the client received
// every row the engine produced plus extra rows, and every extra row is NULL in one of the
// columns compared with >= / <= in the WHERE clause.
func isValueRowNullCmpFinding(cols []int, have, want [][]string) bool {
	if len(have) <= len(want) {
		return false
	}
	key := func(r []string) string {
		ks := make([]string, len(r))
		for i, v := range r {
			ks[i] = sortKey(v)
		}
		return strings.Join(ks, "\x1f")
	}
	left := map[string]int{}
	for _, r := range want {
		left[key(r)]++
	}
	for _, r := range have {
		k := key(r)
		if left[k] > 0 {
			left[k]--
			continue
		}
		null := false
		for _, c := range cols {
			if c < len(r) && r[c] == "N" {
				null = true
			}
		}
		if !null {
			return false
		}
	}
	for _, n := range left {
		if n != 0 {
			return false
		}
	}
	return true
}

// cutFraction truncates a canonical t:/d: value (microseconds) to whole seconds, towards
// the earlier instant for t: and towards zero for d: (the way a formatter that drops the
// fraction digits does).
func cutFraction(v string) (string, bool) {
	if len(v) < 3 || (v[:2] != "t:" && v[:2] != "d:") {
		return "", false
	}
	var us int64
	if _, err := fmt.Sscanf(v[2:], "%d", &us); err != nil {
		return "", false
	}
	if v[:2] == "t:" {
		r := us % 1000000
		if r < 0 {
			r += 1000000
		}
		return fmt.Sprintf("t:%d", us-r), true
	}
	return fmt.Sprintf("d:%d", us-us%1000000), true
}

// ---------------------------------------------------------------------------------------
// TestC35: sequential statement lists on one connection

func tableRoot(rt *rapid.T) int {
	// R*R rows in big: 144 (sizes up to 129), 529 (up to 513), 1024 (1000), 5041 (5000)
	return []int{12, 23, 32, 71}[weighted(rt, "tableClass", 8, 7, 3, 2)]
}

func thorough() bool { return os.Getenv("VERIF_TIER") == "thorough" }

// drawSearchDataset draws the data of a search case. The regions of the listed findings are
// left out by construction, and only while they are listed (TestC35Known keeps re-confirming
// their witnesses): fractional TIMESTAMP resp. TIME values, and (in stmts.go selValueRow)
// value-row scans filtered with >= / <= on nullable columns.
func drawSearchDataset(rt *rapid.T, st *stats.Collector, R int) *dataset {
	for _, id := range []string{kfTimestampDecimals, kfTimeDecimals, kfValueRowNullCmp} {
		if kf.Listed(id) {
			st.Excluded(id)
		}
	}
	return drawDataset(rt, R, !kf.Listed(kfTimestampDecimals), !kf.Listed(kfTimeDecimals))
}

func TestC35(t *testing.T) {
	st := stats.New("C35", "")
	defer st.Flush()
	defer func() {
		st.Set("value_row_pipeline_rows", valueRowCalls.Load())
		st.Set("engine_cells_not_of_declared_type", nonconforming.Load())
	}()
	rapid.Check(t, func(rt *rapid.T) {
		st.Eval()
		R := tableRoot(rt)
		found := rapid.Bool().Draw(rt, "clientFoundRows")
		d := drawSearchDataset(rt, st, R)
		e := newEnv(found, rapid.Uint64().Draw(rt, "vseed"))
		e.multi = rapid.Bool().Draw(rt, "multiStatements")
		defer e.close()
		g := &genCtx{d: d, multi: e.multi}
		setup := append(d.setupSQL(), g.dmlTableDDL(g.w()), g.dmlTableDDL(g.p()))
		e.twin().MustExec(rt.Fatalf, setup...)
		tw := e.twin() // as fresh as the client's session: per-session counters start equal
		if err := e.start(); err != nil {
			srvfx.Inconclusive(fmt.Errorf("start server: %w", err))
		}
		wc, err := e.connect()
		if err != nil {
			srvfx.Inconclusive(fmt.Errorf("connect: %w", err))
		}
		nStmts := rapid.IntRange(3, 12).Draw(rt, "nStmts")
		var history []string
		prevFailed := false
		for i := 0; i < nStmts; i++ {
			s := g.drawStmt(rt)
			if s.TextOnly {
				s.Binary = false
				if prevFailed {
					// ROW_COUNT()/FOUND_ROWS() right after a failed statement: not pinned down
					// (see unpinnedFoundRowsAfterFail), replaced
					st.Class(unpinnedFoundRowsAfterFail)
					s = &stmt{Kind: "session-fn", SQL: "SELECT LAST_INSERT_ID()", Twin: "SELECT LAST_INSERT_ID()", Ordered: true, Size: 1}
				}
			}
			history = append(history, s.String())
			o := checkStmt(st, tw, wc, s)
			if o.skip {
				st.Class("skipped-engine-panic-or-timeout")
				return // the fixture is poisoned
			}
			if o.msg != "" {
				rt.Fatalf("C35 violated: %s\n  statement %d: %s\n  table big has %d rows, clientFoundRows=%v\n  history:\n    %s",
					o.msg, i, s, d.N(), found, strings.Join(history, "\n    "))
			}
			proto := "text"
			if s.Binary {
				proto = "binary"
			}
			prevFailed = strings.HasPrefix(o.class, "error") || o.class == "multi-rows-then-error"
			st.Class("stmt:" + s.Kind)
			st.Class("proto:" + proto)
			st.Class("outcome:" + o.class)
			st.Class("size:" + sizeClass(o.sizeSeen, o.class))
			if o.nontriv {
				st.NonTrivial(map[string]any{"stmt": clip(s.SQL), "protocol": proto, "outcome": o.class, "size": o.sizeSeen}, s.Kind, sizeClass(o.sizeSeen, o.class), proto, o.class, s.SQL)
			}
			if o.broken {
				// the server aborted the stream (legitimately): new connection, new twin session
				wc, err = e.connect()
				if err != nil {
					srvfx.Inconclusive(fmt.Errorf("reconnect: %w", err))
				}
				tw = e.twin()
			}
		}
	})
}

func sizeClass(n int, class string) string {
	if class == "error" {
		return "n/a"
	}
	switch {
	case n == 0:
		return "0"
	case n == 1:
		return "1"
	case n < rowsBatch-1:
		return "2..126"
	case n <= rowsBatch+1:
		return fmt.Sprintf("%d", n)
	case n < 255:
		return "130..254"
	case n <= 257:
		return fmt.Sprintf("%d", n)
	case n < 511:
		return "258..510"
	case n <= 513:
		return fmt.Sprintf("%d", n)
	case n < 1000:
		return "514..999"
	case n == 1000:
		return "1000"
	case n < 5000:
		return "1001..4999"
	}
	return ">=5000"
}

// TestC35Known re-confirms the witnesses of the findings, in both states of a finding: while
// its id is listed as known the witness must still deviate in the recorded way (compare
// then classifies the outcome as known-<id>; if no run of a witness does, the entry is
// reported as stale, which is not a failure) and in no other way; once the id is not listed
// (not yet triaged, or repaired in /repo) the witness must satisfy the property like every
// other statement. It also keeps searching inside the regions the main search leaves out
// while the findings are listed: TIMESTAMP(6) and TIME values with fractional seconds
// through both protocols, value-row scans with >= / <= on nullable columns.
func TestC35Known(t *testing.T) {
	st := stats.New("C35", "known")
	defer st.Flush()
	hits := map[string]int{}
	rapid.Check(t, func(rt *rapid.T) {
		st.Eval()
		d := drawDataset(rt, 12, true, true)
		e := newEnv(false, rapid.Uint64().Draw(rt, "vseed"))
		defer e.close()
		e.twin().MustExec(rt.Fatalf, d.setupSQL()...)
		e.twin().MustExec(rt.Fatalf,
			"CREATE TABLE wit (id INT PRIMARY KEY, ts TIMESTAMP(6), tm TIME, dt DATETIME(6))",
			"INSERT INTO wit VALUES (1, '2020-01-02 03:04:05.678901', '12:34:56.789', '2020-01-02 03:04:05.678901'), (2, '2038-01-19 03:14:07.999999', '-00:00:00.000001', NULL), (3, '2001-09-09 01:46:40', '100:00:00', '1000-01-01 00:00:00')")
		tw := e.twin()
		if err := e.start(); err != nil {
			srvfx.Inconclusive(fmt.Errorf("start server: %w", err))
		}
		wc, err := e.connect()
		if err != nil {
			srvfx.Inconclusive(fmt.Errorf("connect: %w", err))
		}
		n := []int{1, 127, 128, 129, 144}[uni(rt, "n", 5)]
		vn := func(label string) int { return sizes[1+uni(rt, label, len(sizes)-3)] } // 1 .. 1000 rows
		type wit struct {
			ids []string
			s   *stmt
		}
		var wits []wit
		both := func(ids []string, s stmt) {
			for _, binary := range []bool{false, true} {
				c := s
				c.Binary = binary
				wits = append(wits, wit{ids, &c})
			}
		}
		// the fixed witnesses (each through the text and the binary protocol) ...
		both([]string{kfTimestampDecimals}, stmt{Kind: "wit-timestamp", SQL: "SELECT id, ts, dt FROM wit ORDER BY id", Ordered: true})
		both([]string{kfTimeDecimals}, stmt{Kind: "wit-time", SQL: "SELECT id, tm, dt FROM wit ORDER BY id", Ordered: true})
		both([]string{kfTimeDecimals}, stmt{Kind: "wit-time", SQL: "SELECT TIME('12:34:56.789'), CAST('2020-01-02 03:04:05.678' AS DATETIME(3)), CAST('2020-01-02 03:04:05.678901' AS DATETIME(6))", Ordered: true})
		both([]string{kfValueRowNullCmp}, stmt{Kind: "wit-valuerow-null-cmp", SQL: "SELECT * FROM v.t127 WHERE y >= 2000", NullCmpCols: []int{7}})
		both([]string{kfValueRowNullCmp}, stmt{Kind: "wit-valuerow-null-cmp", SQL: "SELECT * FROM v.t256 WHERE a <= u", NullCmpCols: []int{1, 2}})
		// ... and drawn statements inside the regions
		both([]string{kfTimestampDecimals, kfTimeDecimals}, stmt{Kind: "frac-temporal", SQL: fmt.Sprintf("SELECT id, c_ts, c_time, c_dt6, c_dt3 FROM big ORDER BY id LIMIT %d", n), Ordered: true})
		both([]string{kfTimestampDecimals, kfTimeDecimals}, stmt{Kind: "frac-temporal", SQL: fmt.Sprintf("SELECT c_time, c_ts, id FROM big WHERE id < %d", n)})
		both([]string{kfValueRowNullCmp}, stmt{Kind: "valuerow-null-cmp", SQL: fmt.Sprintf("SELECT * FROM v.t%d WHERE 3 >= t8", vn("vn1")), NullCmpCols: []int{8}})
		both([]string{kfValueRowNullCmp}, stmt{Kind: "valuerow-null-cmp", SQL: fmt.Sprintf("SELECT * FROM v.t%d WHERE f <= a", vn("vn2")), NullCmpCols: []int{3, 1}})
		for _, w := range wits {
			s := w.s
			s.Twin = s.SQL
			o := checkStmt(st, tw, wc, s)
			if o.skip {
				return
			}
			proto := "text"
			if s.Binary {
				proto = "binary"
			}
			if o.msg != "" {
				rt.Fatalf("C35 violated by a witness statement of %v: %s\n  statement: %s", w.ids, o.msg, s)
			}
			for _, id := range w.ids {
				if strings.Contains(o.class, id) {
					hits[id]++
				}
			}
			st.Class("outcome:" + o.class)
			st.NonTrivial(nil, s.SQL, proto, o.class)
		}
	})
	for _, id := range []string{kfTimestampDecimals, kfTimeDecimals, kfValueRowNullCmp} {
		if kf.Listed(id) && hits[id] == 0 && !t.Failed() {
			t.Logf("STALE known finding %s: its witnesses now satisfy the property", id)
			st.Class("stale:" + id)
		}
	}
}
