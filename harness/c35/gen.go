package c35

import (
	"fmt"
	"strconv"
	"strings"

	"pgregory.net/rapid"
)

// ---------------------------------------------------------------------------------------
// data: table `base` (R rows, one column per type, values from boundary pools), table
// `big` = base x base (R*R rows, ids 0..R*R-1, the other columns taken alternately from
// the two factors, so neighbouring rows differ), filled with one INSERT ... SELECT.

// sizes are the result sizes around the boundaries of server/handler.go: rowsBatch = 128
// rows per sqltypes.Result, a row channel of 512 rows, a result channel of 4 batches.
var sizes = []int{0, 1, 127, 128, 129, 255, 256, 257, 511, 512, 513, 1000, 5000}

// column describes one typed column of base/big.
type column struct {
	name string
	ddl  string
	pool []string // SQL literals
}

func hexLit(b []byte) string { return fmt.Sprintf("x'%x'", b) }

func strLit(s string) string {
	var sb strings.Builder
	sb.WriteByte('\'')
	for _, r := range s {
		switch r {
		case '\'':
			sb.WriteString("''")
		case '\\':
			sb.WriteString("\\\\")
		default:
			sb.WriteRune(r)
		}
	}
	sb.WriteByte('\'')
	return sb.String()
}

var longA = strings.Repeat("a", 249)

// typedColumns returns the typed columns; fracTs / fracTime add fractional seconds to the
// TIMESTAMP resp. TIME pool (the regions of the findings C35-bin-timestamp-decimals and
// C35-bin-time-decimals: left out of the search only while the finding is listed as known).
func typedColumns(fracTs, fracTime bool) []column {
	cols := []column{
		{"c_i8", "TINYINT", []string{"0", "-128", "127", "NULL", "5"}},
		{"c_u8", "TINYINT UNSIGNED", []string{"0", "255", "NULL", "7"}},
		{"c_i16", "SMALLINT", []string{"-32768", "32767", "0", "NULL"}},
		{"c_i24", "MEDIUMINT", []string{"-8388608", "8388607", "1", "NULL"}},
		{"c_i32", "INT", []string{"-2147483648", "2147483647", "0", "NULL", "42"}},
		{"c_u32", "INT UNSIGNED", []string{"4294967295", "0", "NULL", "3000000000"}},
		{"c_i64", "BIGINT", []string{"-9223372036854775808", "9223372036854775807", "0", "-1", "NULL", "1234567890123"}},
		{"c_u64", "BIGINT UNSIGNED", []string{"18446744073709551615", "9223372036854775808", "0", "NULL", "17"}},
		{"c_dec", "DECIMAL(20,6)", []string{"99999999999999.999999", "-99999999999999.999999", "0.000001", "0", "NULL", "-1.500000", "12345.678900"}},
		{"c_dec0", "DECIMAL(10,0)", []string{"9999999999", "-1", "0", "NULL"}},
		{"c_dbl", "DOUBLE", []string{"0", "0.1", "-1.5e-10", "1.7976931348623157e308", "5e-324", "0.3333333333333333", "NULL", "123456789.125", "1e15", "1e16", "-2.5"}},
		{"c_flt", "FLOAT", []string{"1.1", "3.4028234e38", "1e-45", "0.5", "NULL", "-7.25", "16777216"}},
		{"c_vc", "VARCHAR(64)", []string{"''", "'a'", "'A'", "'á'", "'日本語'", "'😀 x'", "'it''s'", "'back\\\\slash'", "'NULL'", "' lead'", "'trail '", "NULL", strLit(strings.Repeat("v", 64)), "'tab\\there'", "'new\\nline'"}},
		{"c_ch", "CHAR(5)", []string{"''", "'ab'", "'abcde'", "NULL", "'é'"}},
		{"c_txt", "TEXT", []string{"''", "NULL", strLit(longA + "b"), strLit(longA + "bc"), strLit(longA + "bcdefgh"), "'short'", strLit(strings.Repeat("xy", 700))}},
		{"c_blob", "BLOB", []string{"x''", "x'00'", "x'00ff00ff'", "NULL", hexLit([]byte("\xc3\x28 invalid utf8 \xff\xfe")), hexLit([]byte(strings.Repeat("\x00\x01\xfb\xfc\xfd\xfe\xff", 40)))}},
		{"c_vbin", "VARBINARY(16)", []string{"x''", "x'0001'", "x'ffffffffffffffffffffffffffffffff'", "NULL", "'abc'"}},
		{"c_bin", "BINARY(4)", []string{"x'00000000'", "x'61'", "x'ffffffff'", "NULL"}},
		{"c_date", "DATE", []string{"'1000-01-01'", "'9999-12-31'", "'2020-02-29'", "'1970-01-01'", "NULL", "'2024-07-04'"}},
		{"c_dt6", "DATETIME(6)", []string{"'1000-01-01 00:00:00.000000'", "'9999-12-31 23:59:59.999999'", "'2020-02-29 12:34:56.000001'", "'1999-12-31 23:59:59.500000'", "NULL", "'2024-07-04 01:02:03.100000'"}},
		{"c_dt0", "DATETIME", []string{"'1000-01-01 00:00:00'", "'9999-12-31 23:59:59'", "'2020-02-29 12:34:56'", "NULL"}},
		{"c_dt3", "DATETIME(3)", []string{"'2001-02-03 04:05:06.789'", "'2001-02-03 04:05:06.000'", "NULL", "'1969-12-31 23:59:59.999'"}},
		{"c_year", "YEAR", []string{"1901", "2155", "2024", "NULL", "2000"}},
		{"c_enum", "ENUM('x','y','zed','')", []string{"'x'", "'y'", "'zed'", "''", "NULL"}},
		{"c_set", "SET('p','q','r')", []string{"''", "'p'", "'p,r'", "'p,q,r'", "NULL", "'q'"}},
		{"c_bit1", "BIT(1)", []string{"b'0'", "b'1'", "NULL"}},
		{"c_bit9", "BIT(9)", []string{"b'0'", "b'111111111'", "b'100000000'", "b'1'", "NULL", "b'11111111'"}},
		{"c_bit64", "BIT(64)", []string{"b'0'", "18446744073709551615", "b'1000000000000000000000000000000000000000000000000000000000000000'", "NULL", "65"}},
		{"c_json", "JSON", []string{"'null'", "'[]'", "'{}'", "'{\"a\": [1, 2.5, \"x\", true, null], \"b\": {\"c\": \"é\"}}'", "'\"str\"'", "'7'", "'[1, [2, [3, [4]]]]'", "NULL", "'{\"k2\": 1, \"k1\": 2, \"k10\": -0.125}'"}},
		{"c_bool", "BOOL", []string{"TRUE", "FALSE", "NULL"}},
	}
	ts := column{"c_ts", "TIMESTAMP(6)", []string{"'1970-01-01 00:00:01.000000'", "'2038-01-19 03:14:07.000000'", "'2020-02-29 12:34:56.000000'", "NULL", "'2001-09-09 01:46:40.000000'"}}
	tm := column{"c_time", "TIME", []string{"'00:00:00'", "'-838:59:59'", "'838:59:59'", "'12:34:56'", "'-00:00:01'", "NULL", "'100:00:00'"}}
	if fracTs {
		ts.pool = append(ts.pool, "'2038-01-19 03:14:07.999999'", "'2020-02-29 12:34:56.000001'", "'1999-12-31 23:59:59.500000'")
	}
	if fracTime {
		tm.pool = append(tm.pool, "'12:34:56.789'", "'-838:59:58.999999'", "'00:00:00.000001'")
	}
	return append(cols, ts, tm)
}

// dataset is the drawn content of base (and so of big).
type dataset struct {
	R     int
	cols  []column
	off   []int // per column: index of row 0's pool entry
	step  []int // per column: stride through the pool from row to row
	extra map[string][]string
}

func (d *dataset) cell(row, col int) string {
	p := d.cols[col].pool
	return p[(d.off[col]+row*d.step[col])%len(p)]
}

func (d *dataset) N() int { return d.R * d.R }

func drawDataset(rt *rapid.T, R int, fracTs, fracTime bool) *dataset {
	d := &dataset{R: R, cols: typedColumns(fracTs, fracTime)}
	// a few drawn values per case on top of the fixed boundary pools
	for i := range d.cols {
		c := &d.cols[i]
		c.pool = append([]string(nil), c.pool...)
		switch c.name {
		case "c_i64":
			c.pool = append(c.pool, strconv.FormatInt(rapid.Int64().Draw(rt, "i64"), 10))
		case "c_u64":
			c.pool = append(c.pool, strconv.FormatUint(rapid.Uint64().Draw(rt, "u64"), 10))
		case "c_dbl":
			f := rapid.Float64Range(-1e300, 1e300).Draw(rt, "dbl")
			c.pool = append(c.pool, strconv.FormatFloat(f, 'e', -1, 64))
		case "c_flt":
			f := rapid.Float32Range(-1e38, 1e38).Draw(rt, "flt")
			c.pool = append(c.pool, strconv.FormatFloat(float64(f), 'e', -1, 32))
		case "c_vc":
			s := rapid.StringOfN(rapid.RuneFrom(vcRunes), 0, 20, 64).Draw(rt, "vc")
			c.pool = append(c.pool, strLit(s))
		case "c_blob":
			b := rapid.SliceOfN(rapid.Byte(), 0, 300).Draw(rt, "blob")
			c.pool = append(c.pool, hexLit(b))
		case "c_txt":
			n := rapid.SampledFrom([]int{0, 1, 250, 251, 252, 255, 256, 1000, 4095, 4096, 4097}).Draw(rt, "txtlen")
			c.pool = append(c.pool, strLit(strings.Repeat("t", n)))
		}
	}
	d.off = make([]int, len(d.cols))
	d.step = make([]int, len(d.cols))
	for i, c := range d.cols {
		d.off[i] = rapid.IntRange(0, len(c.pool)-1).Draw(rt, "off_"+c.name)
		d.step[i] = rapid.IntRange(0, len(c.pool)-1).Draw(rt, "step_"+c.name)
	}
	return d
}

// setupSQL returns the statements that create and fill base and big.
func (d *dataset) setupSQL() []string {
	var defs []string
	var names []string
	for _, c := range d.cols {
		defs = append(defs, c.name+" "+c.ddl)
		names = append(names, c.name)
	}
	var out []string
	out = append(out, "CREATE TABLE base (bid INT PRIMARY KEY, "+strings.Join(defs, ", ")+")")
	out = append(out, "CREATE TABLE big (id INT PRIMARY KEY, "+strings.Join(defs, ", ")+")")
	var sb strings.Builder
	sb.WriteString("INSERT INTO base VALUES ")
	for r := 0; r < d.R; r++ {
		if r > 0 {
			sb.WriteString(", ")
		}
		sb.WriteString("(" + strconv.Itoa(r))
		for c := range d.cols {
			sb.WriteString(", " + d.cell(r, c))
		}
		sb.WriteString(")")
	}
	out = append(out, sb.String())
	// big: id = a.bid*R + b.bid; odd columns from a (slow factor), even from b (fast factor)
	sel := []string{fmt.Sprintf("a.bid * %d + b.bid", d.R)}
	for i, n := range names {
		if i%2 == 0 {
			sel = append(sel, "b."+n)
		} else {
			sel = append(sel, "a."+n)
		}
	}
	out = append(out, "INSERT INTO big SELECT "+strings.Join(sel, ", ")+" FROM base a CROSS JOIN base b")
	return out
}

// vcRunes is the alphabet of drawn VARCHAR values: ASCII incl. quote, backslash, LIKE
// wildcards and control characters, 2-, 3- and 4-byte UTF-8.
var vcRunes = []rune("abcXYZ 09'\\\"%_;\t\néß日本😀")
