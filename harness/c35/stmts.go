package c35

import (
	"fmt"
	"strconv"
	"strings"

	"pgregory.net/rapid"

	"github.com/dolthub/go-mysql-server/vh/internal/kf"
)

// stmt is one generated statement. SQL is sent by the client; Twin is run in process (it
// differs from SQL only in the name of the DML twin table: the client works on <p>w, the
// in-process session on <p>p, both start out identical).
type stmt struct {
	Kind    string // class label
	SQL     string
	Twin    string
	Binary  bool    // prepared-statement (binary) protocol
	Args    [][]any // binary only: one execution per argument set (nil = one execution without arguments)
	Ordered bool    // the statement has a total ORDER BY: compare as sequences
	Size    int     // intended result / affected size (for the size classes), -1 = n/a
	// MayFailMidStream: the statement is built to fail after Size rows have been produced.
	MidStream bool
	// TextOnly statements read per-session counters that a prepare step may legitimately touch.
	TextOnly bool
	// NullCmpCols: result columns that are operands of a >= / <= comparison in the WHERE
	// clause of a value-row scan (region of finding C35-valuerow-null-cmp).
	NullCmpCols []int
	// Multi: the statements sent together in one COM_QUERY (multi-statement mode); SQL is
	// their concatenation.
	Multi []*stmt
}

func (s *stmt) String() string {
	p := "text"
	if s.Binary {
		p = "binary"
	}
	a := ""
	if len(s.Args) > 0 {
		a = fmt.Sprintf(" args=%v", s.Args)
	}
	if s.Twin != s.SQL {
		return fmt.Sprintf("[%s/%s] %s%s   (in process: %s)", s.Kind, p, clip(s.SQL), a, clip(s.Twin))
	}
	return fmt.Sprintf("[%s/%s] %s%s", s.Kind, p, clip(s.SQL), a)
}

func clip(s string) string {
	if len(s) > 600 {
		return s[:600] + fmt.Sprintf("…(%d bytes)", len(s))
	}
	return s
}

// genCtx carries what the statement generators need to know about the case.
type genCtx struct {
	d      *dataset
	prefix string // DML table prefix ("" for the sequential check, "c<i>_" per concurrent client)
	conc   bool   // concurrent phase: no DDL, no transactions, no session counters
	multi  bool   // the connection has CLIENT_MULTI_STATEMENTS: several statements per COM_QUERY are possible
	nextK  int    // next unused unique key for inserts
	bump   int    // next id offset for INSERT ... SELECT
}

func (g *genCtx) w() string { return g.prefix + "w" }
func (g *genCtx) p() string { return g.prefix + "p" }

// uni draws an integer in [0, n) without rapid's bias towards small values (rapid's integer
// and SampledFrom generators favour short bit lengths, which would starve the later
// classes): 12 unbiased bits, reduced modulo n. Shrinks towards 0.
func uni(rt *rapid.T, label string, n int) int {
	bits := rapid.SliceOfN(rapid.Bool(), 12, 12).Draw(rt, label)
	v := 0
	for _, b := range bits {
		v <<= 1
		if b {
			v |= 1
		}
	}
	return v % n
}

// weighted draws an index with probability proportional to its weight.
func weighted(rt *rapid.T, label string, w ...int) int {
	total := 0
	for _, x := range w {
		total += x
	}
	v := uni(rt, label, total)
	for i, x := range w {
		if v < x {
			return i
		}
		v -= x
	}
	return len(w) - 1
}

func pickStr(rt *rapid.T, label string, xs []string) string { return xs[uni(rt, label, len(xs))] }

// sizesUpTo returns the boundary sizes that fit into n rows.
func sizesUpTo(n int) []int {
	var out []int
	for _, s := range sizes {
		if s <= n {
			out = append(out, s)
		}
	}
	return out
}

func (g *genCtx) drawSize(rt *rapid.T) int {
	fit := sizesUpTo(g.d.N())
	switch weighted(rt, "szMode", 4, 5, 1) {
	case 0: // the largest sizes the table allows: they are what the table was sized for
		k := len(fit) - 1 - uni(rt, "szTopIdx", 3)
		if k < 0 {
			k = 0
		}
		return fit[k]
	case 1:
		return fit[uni(rt, "sz", len(fit))]
	}
	return rapid.IntRange(0, g.d.N()).Draw(rt, "szFree")
}

// selectList draws a select list over alias a of big.
func (g *genCtx) selectList(rt *rapid.T, alias string) string {
	pre := ""
	if alias != "" {
		pre = alias + "."
	}
	switch uni(rt, "slKind", 10) {
	case 0, 1, 2:
		if alias != "" {
			return alias + ".*"
		}
		return "*"
	case 3:
		return pre + "id"
	}
	n := rapid.IntRange(1, 8).Draw(rt, "slN")
	items := []string{pre + "id"}
	for i := 0; i < n; i++ {
		c := g.d.cols[uni(rt, "slCol", len(g.d.cols))]
		col := pre + c.name
		switch uni(rt, "slExpr", 8) {
		case 0:
			items = append(items, fmt.Sprintf("%s IS NULL AS n%d", col, i))
		case 1:
			items = append(items, fmt.Sprintf("COALESCE(%s, %sid) AS co%d", col, pre, i))
		case 2:
			items = append(items, fmt.Sprintf("%sid * 3 - 1 AS e%d", pre, i))
		case 3:
			items = append(items, fmt.Sprintf("CONCAT('<', %sid, '>') AS s%d", pre, i))
		case 4:
			items = append(items, fmt.Sprintf("CAST(%sid AS DECIMAL(12,3)) / 8 AS q%d", pre, i))
		default:
			items = append(items, col)
		}
	}
	return strings.Join(items, ", ")
}

func (g *genCtx) proto(rt *rapid.T) bool { return rapid.Bool().Draw(rt, "binary") }

// ---- read-only statements on the shared tables -------------------------------------------

// selBig: ordered prefix of big through ORDER BY id LIMIT n (sequence comparison).
func (g *genCtx) selBigOrdered(rt *rapid.T) *stmt {
	n := g.drawSize(rt)
	dir := rapid.SampledFrom([]string{"", " DESC"}).Draw(rt, "dir")
	q := fmt.Sprintf("SELECT %s FROM big ORDER BY id%s LIMIT %d", g.selectList(rt, ""), dir, n)
	if rapid.IntRange(0, 4).Draw(rt, "off") == 0 && n < g.d.N() {
		q += fmt.Sprintf(" OFFSET %d", rapid.IntRange(0, g.d.N()-n).Draw(rt, "offset"))
	}
	return &stmt{Kind: "sel-ordered", SQL: q, Twin: q, Binary: g.proto(rt), Ordered: true, Size: n}
}

// selBigFilter: unordered, size fixed through the primary key range (multiset comparison).
func (g *genCtx) selBigFilter(rt *rapid.T) *stmt {
	n := g.drawSize(rt)
	var where string
	switch uni(rt, "wKind", 3) {
	case 0:
		where = fmt.Sprintf("id < %d", n)
	case 1:
		lo := rapid.IntRange(0, g.d.N()-n).Draw(rt, "lo")
		where = fmt.Sprintf("id >= %d AND id < %d", lo, lo+n)
	default:
		where = fmt.Sprintf("id + 0 < %d", n) // no index
	}
	q := fmt.Sprintf("SELECT %s FROM big WHERE %s", g.selectList(rt, ""), where)
	return &stmt{Kind: "sel-filter", SQL: q, Twin: q, Binary: g.proto(rt), Size: n}
}

// selParam: prepared statement with parameters, executed once or twice with different
// arguments (the second execution reuses the statement handle).
func (g *genCtx) selParam(rt *rapid.T) *stmt {
	var args [][]any
	execs := rapid.IntRange(1, 2).Draw(rt, "execs")
	size := -1
	var q string
	ordered := false
	switch uni(rt, "pKind", 4) {
	case 0:
		q = fmt.Sprintf("SELECT %s FROM big WHERE id < ? ORDER BY id", g.selectList(rt, ""))
		ordered = true
		for i := 0; i < execs; i++ {
			n := g.drawSize(rt)
			args = append(args, []any{int64(n)})
			if n > size {
				size = n
			}
		}
	case 1:
		q = fmt.Sprintf("SELECT %s FROM big WHERE id >= ? AND id < ?", g.selectList(rt, ""))
		for i := 0; i < execs; i++ {
			n := g.drawSize(rt)
			lo := rapid.IntRange(0, g.d.N()-n).Draw(rt, "lo")
			args = append(args, []any{int64(lo), int64(lo + n)})
			if n > size {
				size = n
			}
		}
	case 2:
		q = "SELECT id, c_vc, ? AS p1, ? AS p2, ? AS p3, ? AS p4 FROM big WHERE c_vc = ? OR id = ? ORDER BY id"
		ordered = true
		for i := 0; i < execs; i++ {
			s := rapid.SampledFrom([]string{"a", "", "á", "日本語", "it's", "nope"}).Draw(rt, "sarg")
			args = append(args, []any{int64(rapid.IntRange(-5, 5).Draw(rt, "a1")), s, rapid.SampledFrom([]float64{0.5, -2.25, 1e10}).Draw(rt, "a3"), nil, s, int64(rapid.IntRange(0, g.d.N()).Draw(rt, "a6"))})
		}
	default:
		q = "SELECT ?, ?, ?"
		for i := 0; i < execs; i++ {
			args = append(args, []any{int64(rapid.Int64().Draw(rt, "l1")), rapid.SampledFrom([]string{"", "x", "é😀", strings.Repeat("p", 300)}).Draw(rt, "l2"), nil})
		}
		size = 1
	}
	return &stmt{Kind: "sel-param", SQL: q, Twin: q, Binary: true, Args: args, Ordered: ordered, Size: size}
}

// selShape: other iterator shapes on top (joins, aggregation, set operations, windows,
// derived tables), sized through the same boundaries.
func (g *genCtx) selShape(rt *rapid.T) *stmt {
	n := g.drawSize(rt)
	N := g.d.N()
	var q string
	ordered := false
	kind := uni(rt, "shape", 11)
	switch kind {
	case 0: // group by with n groups
		if n == 0 {
			q = "SELECT id % 7 AS g, COUNT(*), SUM(c_i32), MIN(c_vc), MAX(c_dbl), AVG(c_dec) FROM big WHERE id < 0 GROUP BY g"
		} else {
			q = fmt.Sprintf("SELECT id %% %d AS g, COUNT(*), SUM(c_i32), MIN(c_vc), MAX(c_dbl), AVG(c_dec) FROM big GROUP BY g ORDER BY g", n)
			ordered = true
		}
	case 1: // union all of two ranges, n rows in total
		a := rapid.IntRange(0, n).Draw(rt, "ua")
		q = fmt.Sprintf("SELECT id, c_vc, c_i64 FROM big WHERE id < %d UNION ALL SELECT id, c_txt, c_u64 FROM big WHERE id >= %d AND id < %d", a, N-(n-a), N)
	case 2: // join on the base factors: n rows
		q = fmt.Sprintf("SELECT b.id, a.bid, a.c_json, b.c_blob, a.c_dt6 FROM big b JOIN base a ON a.bid = b.id %% %d WHERE b.id < %d ORDER BY b.id", g.d.R, n)
		ordered = true
	case 3: // window function
		q = fmt.Sprintf("SELECT id, ROW_NUMBER() OVER (ORDER BY id DESC) AS rn, c_time FROM big WHERE id < %d ORDER BY id", n)
		ordered = true
	case 4: // derived table + limit
		q = fmt.Sprintf("SELECT t.id, t.x FROM (SELECT id, CONCAT(COALESCE(c_vc, 'null'), '-', id) AS x FROM big) t ORDER BY t.id DESC LIMIT %d", n)
		ordered = true
	case 5: // distinct
		q = fmt.Sprintf("SELECT DISTINCT c_enum, c_set, c_year FROM big WHERE id < %d", n)
	case 6: // cross join with limit: big results from few rows
		q = fmt.Sprintf("SELECT a.bid, b.bid, a.c_vc, b.c_dec FROM base a CROSS JOIN base b ORDER BY a.bid, b.bid LIMIT %d", n)
		ordered = true
	case 7: // subquery
		q = fmt.Sprintf("SELECT id, (SELECT COUNT(*) FROM base x WHERE x.bid <= big.id %% %d) AS c FROM big WHERE id < %d ORDER BY id", g.d.R, n)
		ordered = true
	case 8: // scalar subquery that is a primary-key point lookup (uncorrelated), n outer rows
		q = fmt.Sprintf("SELECT id, (SELECT x.bid FROM base x WHERE x.bid = %d) AS c FROM big WHERE id < %d ORDER BY id", rapid.IntRange(0, g.d.R).Draw(rt, "pkLit"), n)
		ordered = true
	case 9: // scalar subquery that is a primary-key point lookup correlated with the outer row
		q = fmt.Sprintf("SELECT id, (SELECT x.c_i64 FROM big x WHERE x.id = big.id) AS c, (SELECT COUNT(*) FROM base) AS k FROM big WHERE id < %d ORDER BY id", n)
		ordered = true
	default: // recursive CTE free of tables
		m := n
		if m > 1000 {
			m = 1000
		}
		if m == 0 {
			q = "WITH RECURSIVE r(n) AS (SELECT 1 UNION ALL SELECT n + 1 FROM r WHERE n < 1) SELECT n FROM r WHERE n > 1"
		} else {
			q = fmt.Sprintf("WITH RECURSIVE r(n) AS (SELECT 1 UNION ALL SELECT n + 1 FROM r WHERE n < %d) SELECT n, n * n, CONCAT('r', n) FROM r", m)
		}
		n = m
	}
	return &stmt{Kind: "sel-shape" + strconv.Itoa(kind), SQL: q, Twin: q, Binary: g.proto(rt), Ordered: ordered, Size: n}
}

// selValueRow reads a virtual table of database v (vrtab.go): SELECT * straight off the
// table is spooled by Handler.resultForValueRowIter; the projected / sorted variants go
// through the default pipeline over the same rows.
func (g *genCtx) selValueRow(rt *rapid.T) *stmt {
	n := sizes[uni(rt, "vrSize", len(sizes))]
	if n > 1000 && uni(rt, "vrBig", 3) != 0 {
		n = sizes[uni(rt, "vrSize2", len(sizes)-1)]
	}
	q := fmt.Sprintf("SELECT * FROM v.t%d", n)
	kind := "sel-valuerow"
	ordered := false
	var nullCmp []int
	switch weighted(rt, "vrKind", 4, 1, 1, 2, 1) {
	case 1: // projection + sort on top: default pipeline over the same table
		q = fmt.Sprintf("SELECT id, s, f, dt FROM v.t%d ORDER BY id DESC", n)
		kind, ordered = "sel-valuerow-proj", true
	case 2: // filter that is not a value expression: default pipeline
		q = fmt.Sprintf("SELECT * FROM v.t%d WHERE a IS NOT NULL OR s IS NULL", n)
		kind = "sel-valuerow-filter"
	case 3: // numeric comparison: evaluated on value rows, stays in the value-row pipeline
		fit := sizesUpTo(n)
		m := fit[uni(rt, "vrCut", len(fit))]
		q = fmt.Sprintf("SELECT * FROM v.t%d WHERE id < %d", n, m)
		kind = "sel-valuerow-cmp"
		n = m
	case 4:
		cmps := vrCmps
		if kf.Listed(kfValueRowNullCmp) {
			// >= / <= on nullable columns is the region of the listed finding: left out
			cmps = cmps[:vrCmpsNotNull]
		}
		c := cmps[uni(rt, "vrCmp", len(cmps))]
		q = fmt.Sprintf("SELECT * FROM v.t%d WHERE %s", n, c.cond)
		kind = "sel-valuerow-cmp"
		nullCmp = c.nullCols
	}
	return &stmt{Kind: kind, SQL: q, Twin: q, Binary: g.proto(rt), Ordered: ordered, Size: n, NullCmpCols: nullCmp}
}

// vrCmp is a numeric comparison evaluated on value rows; nullCols are the result columns of
// v.t<n> (id a u f s x dt y t8) that are nullable operands of a >= / <= in it.
type vrCmp struct {
	cond     string
	nullCols []int
}

// vrCmps: the first vrCmpsNotNull entries compare with < / > or involve only the NOT NULL
// id; the others are >= / <= with a nullable operand (region of C35-valuerow-null-cmp).
var vrCmps = []vrCmp{
	{"a < u", nil}, {"t8 < id", nil}, {"f > a", nil}, {"y > 2000", nil}, {"u > 5", nil}, {"100 <= id", nil}, {"id >= 7", nil},
	{"y >= 2000", []int{7}}, {"a <= u", []int{1, 2}}, {"3 >= t8", []int{8}}, {"f <= a", []int{3, 1}}, {"u >= 5", []int{2}}, {"t8 <= id", []int{8}},
}

const vrCmpsNotNull = 7

var literalItems = []string{
	"1", "-1", "0", "18446744073709551615", "-9223372036854775808", "1.50", "-0.000001", "1e0", "2.5e-3", "1e308",
	"'x'", "''", "'é日本😀'", "x'00ff'", "b'101'", "NULL", "TRUE", "FALSE",
	"CAST('2020-01-02' AS DATE)", "CAST('2020-01-02 03:04:05.678901' AS DATETIME(6))", "CAST('2020-01-02 03:04:05' AS DATETIME)",
	"CAST(5 AS UNSIGNED)", "CAST(-5 AS SIGNED)", "CAST('[1, {\"a\": \"b\"}]' AS JSON)", "CAST(1.5 AS DECIMAL(10,3))", "CAST('abc' AS BINARY)",
	"CAST('abc' AS CHAR(2))", "CAST(1.25 AS DOUBLE)", "CAST(1.25 AS FLOAT)", "CAST(2024 AS YEAR)",
	"TIME('12:34:56')", "TIMEDIFF('10:00:00', '12:30:00')", "DATE_ADD('2020-02-28', INTERVAL 2 DAY)",
	"1 + 1", "7 / 2", "7 DIV 2", "2 * 1.5", "POW(2, 10)", "SQRT(2)", "1 / 3", "5 % 3", "-(-9223372036854775807)",
	"CONCAT('a', 'b')", "UPPER('straße')", "LENGTH('日本')", "HEX(255)", "UNHEX('00FF')", "REPEAT('ab', 3)", "JSON_OBJECT('k', 1, 'l', JSON_ARRAY(1, 'x', NULL))",
	"JSON_EXTRACT('{\"a\": [1, 2]}', '$.a[1]')", "1 = 1", "1 IN (1, 2)", "'a' LIKE 'A'", "NULL IS NULL", "IF(1, 'y', 'n')", "COALESCE(NULL, 2)",
	"CASE WHEN 1 THEN 1.5 ELSE 2 END", "GREATEST(1, 2.5)", "ABS(-3)", "ROUND(2.567, 2)", "FLOOR(-1.5)", "BIT_COUNT(255)", "1 << 62",
}

// selLiteral: one-row selects without a table (the "max 1 row" spooling shortcut), many
// expression types, long strings around the length-encoding boundaries of the protocol.
func (g *genCtx) selLiteral(rt *rapid.T) *stmt {
	n := rapid.IntRange(1, 10).Draw(rt, "litN")
	var items []string
	for i := 0; i < n; i++ {
		if rapid.IntRange(0, 11).Draw(rt, "litLong") == 0 {
			l := rapid.SampledFrom([]int{0, 1, 250, 251, 252, 65535, 65536, 65537, 100000}).Draw(rt, "litLen")
			items = append(items, fmt.Sprintf("REPEAT('%s', %d) AS l%d", rapid.SampledFrom([]string{"a", "é"}).Draw(rt, "litCh"), l, i))
			continue
		}
		it := pickStr(rt, "lit", literalItems)
		if rapid.Bool().Draw(rt, "litAlias") {
			it += fmt.Sprintf(" AS a%d", i)
		}
		items = append(items, it)
	}
	q := "SELECT " + strings.Join(items, ", ")
	return &stmt{Kind: "sel-literal", SQL: q, Twin: q, Binary: g.proto(rt), Ordered: true, Size: 1}
}

// multiStmt: 2-4 read-only statements in one COM_QUERY; the client receives one result set
// per statement (the handler spools each with the "more results" flag set).
func (g *genCtx) multiStmt(rt *rapid.T) *stmt {
	n := 2 + uni(rt, "multiN", 3)
	var parts []*stmt
	var texts []string
	size := 0
	for i := 0; i < n; i++ {
		var p *stmt
		switch uni(rt, "multiKind", 4) {
		case 0:
			p = g.selBigOrdered(rt)
		case 1:
			p = g.selBigFilter(rt)
		case 2:
			p = g.selValueRow(rt)
		default:
			p = g.selLiteral(rt)
		}
		p.Binary = false
		parts = append(parts, p)
		texts = append(texts, p.SQL)
		if p.Size > size {
			size = p.Size
		}
	}
	q := strings.Join(texts, "; ")
	return &stmt{Kind: "multi", SQL: q, Twin: q, Multi: parts, Size: size}
}

// showStmts: catalog statements with a deterministic answer. Not in the list on purpose:
// information_schema.tables and SHOW TABLE STATUS call RowCount on every table, which in
// the in-memory backend registers every table's data in the reading session, and the
// session's commit writes all of them back (memory.Session.CommitTransaction) - a reader
// that silently acts as a writer of other clients' tables, which the backend does not
// support concurrently.
var showStmts = []string{
	"SHOW TABLES", "SHOW CREATE TABLE big", "DESCRIBE big", "SHOW COLUMNS FROM base", "SHOW INDEXES FROM big", "SHOW FULL TABLES",
	"SELECT DATABASE()", "SHOW DATABASES",
	"SELECT @@autocommit, @@sql_mode", "SHOW COLLATION LIKE 'utf8mb4_0900_bin'", "SHOW CHARSET LIKE 'utf8mb4'",
}

func (g *genCtx) show(rt *rapid.T) *stmt {
	q := pickStr(rt, "show", showStmts)
	return &stmt{Kind: "show", SQL: q, Twin: q, Binary: g.proto(rt), Size: -1}
}

// ---- failing statements --------------------------------------------------------------------

// onT instantiates a statement template for the client's table and for its in-process twin.
func (g *genCtx) onT(tmpl string) (string, string) {
	return strings.ReplaceAll(tmpl, "{T}", g.w()), strings.ReplaceAll(tmpl, "{T}", g.p())
}

// failingStmts are statements expected to fail. Statements that write only ever name the
// twin table {T}, so that one that unexpectedly succeeds has the same effect on both sides
// and cannot disturb the shared tables.
var failingStmts = []string{
	"SELEC 1",
	"SELECT * FROM",
	"SELECT * FROM no_such_table",
	"SELECT no_such_col FROM big",
	"SELECT id FROM big WHERE nope = 1",
	"SELECT * FROM no_such_db.t",
	"SELECT no_such_function(1)",
	"SELECT (SELECT id FROM big)",
	"SELECT id, (SELECT bid FROM base) FROM big",
	"SELECT id FROM big UNION SELECT id, c_vc FROM big",
	"SELECT * FROM big ORDER BY no_such",
	"SELECT JSON_EXTRACT('{', '$.a')",
	"SELECT JSON_EXTRACT('{}', '$[')",
	"SELECT (1, 2) = 1",
	"SELECT ~0",
	"SELECT (1, 2) IN (SELECT id FROM big)",
	"SELECT id FROM big WHERE id IN (SELECT id, c_vc FROM big)",
	"SELECT * FROM big a JOIN big a",
	"SELECT id, id FROM big GROUP BY 3",
	"USE no_such_db",
	"CALL no_such_proc()",
	"SET @@no_such_var = 1",
	"SET SESSION autocommit = 'maybe'",
	"DROP TABLE no_such_table",
	"SIGNAL SQLSTATE '45000' SET MESSAGE_TEXT = 'boom'",
	"SIGNAL SQLSTATE '45000' SET MESSAGE_TEXT = 'boom', MYSQL_ERRNO = 31234",
	"SIGNAL SQLSTATE '23000'",
	"CREATE TABLE {T} (x INT)",
	"CREATE TABLE {T}_bad (a INT, a INT)",
	"ALTER TABLE {T} ADD COLUMN id INT",
	"ALTER TABLE {T} DROP COLUMN nope",
	"INSERT INTO {T} (id, k, v) VALUES (NULL, NULL, 'x'), (1, 1, 'dup1'), (1, 2, 'dup2')",
	"INSERT INTO {T} (n) VALUES (NULL)",
	"INSERT INTO {T} (n) VALUES (2000000)",
	"INSERT INTO {T} (k) SELECT 1 FROM base",
	"INSERT INTO {T} (t8) VALUES (1000)",
	"INSERT INTO {T} (v) VALUES (REPEAT('x', 100))",
	"INSERT INTO {T} (e) VALUES ('nope')",
	"INSERT INTO {T} (j) VALUES ('{bad')",
	"INSERT INTO {T} (dt) VALUES ('not a date')",
	"INSERT INTO {T} (nope) VALUES (1)",
	"INSERT INTO {T} (k) VALUES (1, 2)",
	"INSERT INTO {T} (id, k) VALUES (1, 999999), (1, 999998)",
	"INSERT INTO {T} (id, k) VALUES (7, 777), (8, 777)",
	"UPDATE {T} SET n = NULL",
	"UPDATE {T} SET nope = 1",
	"UPDATE {T} SET k = 1",
	"UPDATE {T} SET n = 2000000 WHERE id > 0",
	"DELETE FROM {T} WHERE nope = 1",
}

func (g *genCtx) failing(rt *rapid.T) *stmt {
	cands := failingStmts
	if g.conc {
		// no DDL while other clients run (the in-memory catalog is not built for it)
		cands = nil
		for _, c := range failingStmts {
			if !strings.HasPrefix(c, "CREATE") && !strings.HasPrefix(c, "ALTER") && !strings.HasPrefix(c, "DROP") {
				cands = append(cands, c)
			}
		}
	}
	w, p := g.onT(cands[uni(rt, "fail", len(cands))])
	return &stmt{Kind: "fail", SQL: w, Twin: p, Binary: g.proto(rt), Size: -1}
}

// failMidStream: a statement that produces k rows and then fails (the scalar subquery
// returns two rows for id = k only).
func (g *genCtx) failMidStream(rt *rapid.T) *stmt {
	k := g.drawSize(rt)
	if k >= g.d.N() {
		k = g.d.N() - 1
	}
	q := fmt.Sprintf("SELECT id, c_vc, (SELECT x.bid FROM base x WHERE x.bid <= (big.id = %d)) AS boom FROM big ORDER BY id", k)
	return &stmt{Kind: "fail-midstream", SQL: q, Twin: q, Binary: g.proto(rt), Ordered: true, Size: k, MidStream: true}
}

// ---- DML on the twin tables ----------------------------------------------------------------

func (g *genCtx) dmlTableDDL(name string) string {
	return fmt.Sprintf("CREATE TABLE %s (id INT PRIMARY KEY AUTO_INCREMENT, k INT, v VARCHAR(80), n INT NOT NULL DEFAULT 0, t8 TINYINT, e ENUM('x','y'), j JSON, dt DATE, UNIQUE KEY uk (k), CHECK (n < 1000000))", name)
}

func (g *genCtx) dml(rt *rapid.T) *stmt {
	var tmpl string
	size := -1
	binary := g.proto(rt)
	var args [][]any
	kind := uni(rt, "dml", 16)
	if g.conc && (kind == 12 || kind == 13) {
		kind = 3
	}
	label := "dml"
	switch kind {
	case 0: // single-row insert, auto id
		g.nextK++
		tmpl = fmt.Sprintf("INSERT INTO {T} (k, v, n, j, dt, e) VALUES (%d, %s, %d, '[1, \"x\"]', '2020-02-29', 'y')", 100000+g.nextK, strLit(pickStr(rt, "v", []string{"", "v", "é", "it's"})), uni(rt, "n", 6))
		size = 1
		label = "dml-insert1"
	case 1: // multi-row insert
		m := 2 + uni(rt, "rows", 5)
		var vals []string
		for i := 0; i < m; i++ {
			g.nextK++
			vals = append(vals, fmt.Sprintf("(%d, 'm%d', %d)", 100000+g.nextK, i, i))
		}
		tmpl = "INSERT INTO {T} (k, v, n) VALUES " + strings.Join(vals, ", ")
		size = m
		label = "dml-insertN"
	case 2: // explicit id far away (moves the auto-increment counter)
		g.nextK++
		tmpl = fmt.Sprintf("INSERT INTO {T} (id, k, v) VALUES (%d, %d, 'explicit')", 200000+g.nextK*10, 100000+g.nextK)
		size = 1
		label = "dml-insert-id"
	case 3: // insert ... select with n rows: big affected-row counts
		n := g.drawSize(rt)
		g.bump++
		base := 1000000 + g.bump*10000
		tmpl = fmt.Sprintf("INSERT INTO {T} (id, k, v, n) SELECT id + %d, id + %d, c_vc, id %% 1000 FROM big WHERE id < %d", base, base, n)
		size = n
		label = "dml-insert-select"
	case 4: // update a range (changed rows)
		n := []int{0, 1, 2, 127, 128, 129, 1000}[uni(rt, "updN", 7)]
		tmpl = fmt.Sprintf("UPDATE {T} SET n = n + 1 WHERE id <= %d", n)
		label = "dml-update"
	case 5: // update that matches but changes nothing (found vs changed)
		tmpl = "UPDATE {T} SET n = n WHERE id > 0"
		label = "dml-update-noop"
	case 6:
		tmpl = fmt.Sprintf("UPDATE {T} SET v = CONCAT(COALESCE(v, ''), '!'), n = %d WHERE k %% 2 = %d", uni(rt, "un", 4), uni(rt, "par", 2))
		label = "dml-update"
	case 7:
		tmpl = fmt.Sprintf("DELETE FROM {T} WHERE id %% 5 = %d", uni(rt, "dmod", 5))
		label = "dml-delete"
	case 8:
		tmpl = "DELETE FROM {T}"
		label = "dml-delete-all"
	case 9: // replace: 1 (new) or 2 (replaced) affected rows
		tmpl = fmt.Sprintf("REPLACE INTO {T} (id, k, v) VALUES (%d, %d, 'repl')", 1+uni(rt, "rid", 4), 300001+uni(rt, "rk", 4))
		label = "dml-replace"
	case 10: // upsert: 0, 1 or 2 affected rows
		tmpl = fmt.Sprintf("INSERT INTO {T} (id, k, v, n) VALUES (%d, %d, 'up', 1) ON DUPLICATE KEY UPDATE n = %d", 1+uni(rt, "uid", 4), 400001+uni(rt, "uk", 4), 1+uni(rt, "un", 2))
		label = "dml-upsert"
	case 11: // insert ignore with a duplicate
		g.nextK++
		tmpl = fmt.Sprintf("INSERT IGNORE INTO {T} (id, k, v) VALUES (1, %d, 'ign'), (NULL, %d, 'ign2')", 500000+g.nextK, 500000+g.nextK)
		label = "dml-insert-ignore"
	case 12:
		tmpl = "TRUNCATE TABLE {T}"
		label = "dml-truncate"
	case 13: // DDL answers with an OK packet as well
		g.nextK++
		x := fmt.Sprintf("x%d", g.nextK)
		switch uni(rt, "ddl", 4) {
		case 0:
			tmpl = "CREATE TABLE {T}_" + x + " (a INT PRIMARY KEY, b TEXT)"
		case 1:
			tmpl = "ALTER TABLE {T} ADD COLUMN " + x + " INT DEFAULT 7"
		case 2:
			tmpl = "CREATE INDEX i" + x + " ON {T} (n)"
		default:
			tmpl = "DROP TABLE IF EXISTS {T}_nothing"
		}
		label = "ddl"
	case 14: // parameters in DML
		binary = true
		g.nextK++
		tmpl = "INSERT INTO {T} (k, v, n) VALUES (?, ?, ?)"
		args = [][]any{{int64(600000 + g.nextK), pickStr(rt, "pv", []string{"", "p", "é😀", "it's"}), int64(uni(rt, "pn", 10))}}
		if rapid.Bool().Draw(rt, "again") {
			g.nextK++
			args = append(args, []any{int64(600000 + g.nextK), nil, int64(3)})
		}
		size = 1
		label = "dml-param"
	default:
		binary = true
		tmpl = "UPDATE {T} SET v = ? WHERE id >= ? AND id < ?"
		lo := uni(rt, "plo", 6)
		args = [][]any{{pickStr(rt, "pu", []string{"u1", "", "ü"}), int64(lo), int64(lo + rapid.IntRange(0, 300).Draw(rt, "pspan"))}}
		label = "dml-param"
	}
	w, p := g.onT(tmpl)
	return &stmt{Kind: label, SQL: w, Twin: p, Binary: binary, Args: args, Size: size}
}

// dmlRead reads the DML table back (content must be identical on both sides) or a
// per-session counter.
func (g *genCtx) dmlRead(rt *rapid.T) *stmt {
	switch uni(rt, "rd", 6) {
	case 0:
		return &stmt{Kind: "session-fn", SQL: "SELECT LAST_INSERT_ID()", Twin: "SELECT LAST_INSERT_ID()", Binary: g.proto(rt), Ordered: true, Size: 1}
	case 1:
		if g.conc {
			break
		}
		return &stmt{Kind: "session-fn", SQL: "SELECT ROW_COUNT(), FOUND_ROWS()", Twin: "SELECT ROW_COUNT(), FOUND_ROWS()", Ordered: true, Size: 1, TextOnly: true}
	case 2:
		v := rapid.IntRange(0, 99).Draw(rt, "uv")
		q := fmt.Sprintf("SET @u = %d", v)
		return &stmt{Kind: "set-uservar", SQL: q, Twin: q, Binary: g.proto(rt), Size: -1}
	case 3:
		return &stmt{Kind: "get-uservar", SQL: "SELECT @u, @nope", Twin: "SELECT @u, @nope", Binary: g.proto(rt), Ordered: true, Size: 1}
	}
	return &stmt{Kind: "dml-readback", SQL: "SELECT * FROM " + g.w() + " ORDER BY id", Twin: "SELECT * FROM " + g.p() + " ORDER BY id", Binary: g.proto(rt), Ordered: true, Size: -1}
}

func (g *genCtx) txn(rt *rapid.T) *stmt {
	q := pickStr(rt, "txn", []string{"BEGIN", "START TRANSACTION", "COMMIT", "ROLLBACK", "SET autocommit = 0", "SET autocommit = 1", "USE d"})
	return &stmt{Kind: "txn", SQL: q, Twin: q, Binary: false, Size: -1}
}

// drawStmt draws one statement of any class.
func (g *genCtx) drawStmt(rt *rapid.T) *stmt {
	k := uni(rt, "class", 100)
	switch {
	case k < 13:
		return g.selBigOrdered(rt)
	case k < 21:
		return g.selBigFilter(rt)
	case k < 28:
		return g.selValueRow(rt)
	case k < 36:
		return g.selParam(rt)
	case k < 47:
		return g.selShape(rt)
	case k < 53:
		return g.selLiteral(rt)
	case k < 57:
		return g.show(rt)
	case k < 67:
		return g.failing(rt)
	case k < 70:
		return g.failMidStream(rt)
	case k < 84:
		return g.dml(rt)
	case k < 92:
		return g.dmlRead(rt)
	case k < 96:
		if g.multi {
			return g.multiStmt(rt)
		}
		return g.selBigOrdered(rt)
	default:
		if g.conc {
			return g.dmlRead(rt)
		}
		return g.txn(rt)
	}
}
