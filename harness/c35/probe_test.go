package c35

import "testing"

func TestProbeFR(t *testing.T) {
	e := newEnv(false, 7)
	defer e.close()
	if err := e.start(); err != nil {
		t.Fatal(err)
	}
	show := func(label string, pre []string, bin bool) {
		tw := e.twin()
		wc, _ := e.connect()
		for _, q := range pre {
			r := tw.Exec(q)
			g := wc.run(q, bin, nil, false)
			t.Logf("  %s: pre %q inproc err=%v wire err=%v", label, q, r.Err, g.Err)
		}
		r := tw.Exec("SELECT ROW_COUNT(), FOUND_ROWS()")
		g := wc.run("SELECT ROW_COUNT(), FOUND_ROWS()", false, nil, false)
		t.Logf("%s: inproc %v | wire %v", label, r, g.Rows)
	}
	show("fresh", nil, false)
	show("fail-text", []string{"SELECT JSON_EXTRACT('{}', '$[')"}, false)
	show("fail-bin", []string{"SELECT JSON_EXTRACT('{}', '$[')"}, true)
	show("fail-bin-notable", []string{"SELECT * FROM nope"}, true)
	show("fail-text-notable", []string{"SELECT * FROM nope"}, false)
	show("ok-bin", []string{"SELECT 1 UNION SELECT 2"}, true)
	show("ok-text", []string{"SELECT 1 UNION SELECT 2"}, false)
	show("ok-text-then-fail-bin", []string{"SELECT 1 UNION SELECT 2 UNION SELECT 3", "SELECT JSON_EXTRACT('{}', '$[')"}, true)
}
