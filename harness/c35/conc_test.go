package c35

import (
	"fmt"
	"strings"
	"sync"
	"testing"

	"pgregory.net/rapid"

	"github.com/dolthub/go-mysql-server/vh/internal/fx"
	"github.com/dolthub/go-mysql-server/vh/internal/srvfx"
	"github.com/dolthub/go-mysql-server/vh/internal/stats"
)

// planned is one execution with its sequential expectation.
type planned struct {
	s    *stmt
	args []any
	exp  *fx.Result
	exps []*fx.Result // multi-statement: one expectation per part
}

// TestC35Conc: 1-16 clients, each with its own connection and its own generated statement
// list, run concurrently against one server. Statements read the shared tables (base,
// big) and write only the client's own table, so every result is independent of the
// schedule and must equal the expectation computed beforehand, sequentially and in
// process, on the client's twin session and twin table.
func TestC35Conc(t *testing.T) {
	st := stats.New("C35", "conc")
	defer st.Flush()
	rapid.Check(t, func(rt *rapid.T) {
		st.Eval()
		nClients := []int{1, 2, 3, 4, 5, 6, 8, 10, 12, 16}[uni(rt, "clients", 10)]
		R := []int{12, 23, 32, 71}[weighted(rt, "tableClass", 9, 8, 2, 1)]
		found := rapid.Bool().Draw(rt, "clientFoundRows")
		d := drawSearchDataset(rt, st, R)
		e := newEnv(found, rapid.Uint64().Draw(rt, "vseed"))
		e.multi = rapid.Bool().Draw(rt, "multiStatements")
		defer e.close()
		setupSess := e.twin()
		setup := d.setupSQL()
		gens := make([]*genCtx, nClients)
		for i := range gens {
			gens[i] = &genCtx{d: d, prefix: fmt.Sprintf("c%d_", i), conc: true, multi: e.multi}
			setup = append(setup, gens[i].dmlTableDDL(gens[i].w()), gens[i].dmlTableDDL(gens[i].p()))
		}
		setupSess.MustExec(rt.Fatalf, setup...)

		// sequential expectations; a new twin session wherever the client will reconnect
		plans := make([][]planned, nClients)
		total := 0
		for i := range gens {
			tw := e.twin()
			n := rapid.IntRange(2, 8).Draw(rt, "nStmts")
			for j := 0; j < n; j++ {
				s := gens[i].drawStmt(rt)
				if s.TextOnly {
					s.Binary = false
				}
				if len(s.Multi) > 0 {
					exps, err := expectMulti(tw, s)
					if err != nil {
						rt.Fatalf("harness: %v", err)
					}
					if last := exps[len(exps)-1]; last.Panic != nil || last.TimedOut {
						st.Class("skipped-engine-panic-or-timeout")
						return
					}
					plans[i] = append(plans[i], planned{s: s, exps: exps})
					total++
					continue
				}
				execs := s.Args
				if len(execs) == 0 {
					execs = [][]any{nil}
				}
				for _, args := range execs {
					exp, err := expect(tw, s, args)
					if err != nil {
						rt.Fatalf("harness: %v", err)
					}
					if exp.Panic != nil || exp.TimedOut {
						st.Class("skipped-engine-panic-or-timeout")
						return
					}
					plans[i] = append(plans[i], planned{s: s, args: args, exp: exp})
					total++
					if abortsStream(exp) {
						tw = e.twin()
					}
				}
			}
		}

		if err := e.start(); err != nil {
			srvfx.Inconclusive(fmt.Errorf("start server: %w", err))
		}
		conns := make([]*wireConn, nClients)
		for i := range conns {
			c, err := e.connect()
			if err != nil {
				srvfx.Inconclusive(fmt.Errorf("connect: %w", err))
			}
			conns[i] = c
		}

		// concurrent phase
		type failure struct {
			msg  string
			step int
		}
		fails := make([]*failure, nClients)
		outs := make([][]outcome, nClients)
		var wg sync.WaitGroup
		startGate := make(chan struct{})
		for i := 0; i < nClients; i++ {
			wg.Add(1)
			go func(i int) {
				defer wg.Done()
				wc := conns[i]
				<-startGate
				for j, p := range plans[i] {
					var o outcome
					if len(p.s.Multi) > 0 {
						sets, err := wc.runMulti(p.s.SQL)
						o = compareMulti(st, p.s, p.exps, sets, err)
					} else {
						o = compare(st, p.s, p.exp, runWire(wc, p.s, p.args, p.exp))
					}
					outs[i] = append(outs[i], o)
					if o.msg != "" {
						fails[i] = &failure{o.msg, j}
						return
					}
					if o.broken {
						c, err := e.connect()
						if err != nil {
							srvfx.Inconclusive(fmt.Errorf("reconnect: %w", err))
						}
						wc = c
					}
				}
			}(i)
		}
		close(startGate)
		wg.Wait()

		for i, f := range fails {
			if f == nil {
				continue
			}
			var hist []string
			for j := 0; j <= f.step; j++ {
				hist = append(hist, fmt.Sprintf("%s args=%v", plans[i][j].s, plans[i][j].args))
			}
			rt.Fatalf("C35 violated with %d concurrent clients: client %d, step %d: %s\n  table big has %d rows, clientFoundRows=%v\n  this client's statements so far:\n    %s",
				nClients, i, f.step, f.msg, d.N(), found, strings.Join(hist, "\n    "))
		}
		st.Class(fmt.Sprintf("clients:%02d", nClients))
		maxSize := 0
		for i := range outs {
			for j, o := range outs[i] {
				st.Class("stmt:" + plans[i][j].s.Kind)
				st.Class("outcome:" + o.class)
				if o.sizeSeen > maxSize {
					maxSize = o.sizeSeen
				}
			}
		}
		st.ClassN("statements", total)
		if nClients >= 4 {
			st.NonTrivial(map[string]any{"clients": nClients, "statements": total, "max_result": maxSize}, nClients, total, sizeClass(maxSize, ""), d.N(), found)
		}
	})
}
