package c35

import (
	"encoding/binary"
	"fmt"
	"io"
	"math"
	"strconv"
	"strings"
	"sync/atomic"
	"time"

	"github.com/dolthub/vitess/go/sqltypes"

	gsql "github.com/dolthub/go-mysql-server/sql"
	"github.com/dolthub/go-mysql-server/sql/types"
)

// The in-memory backend never produces sql.ValueRowIter, so Handler.resultForValueRowIter
// (the value-row spooling pipeline named by the property) is unreachable with it alone.
// vrDB is a minimal read-only integrator database whose tables do: database `v` holds the
// virtual tables t<n> (n rows each, n from the boundary sizes); row i is a pure function
// of i and of the table's seed. PartitionRows returns an iterator that implements both
// sql.RowIter (used by the in-process engine) and sql.ValueRowIter (picked by the
// handler), producing the same logical row either way: Go values for Next, the binary
// encodings read by the types' SQLValue for NextValueRow.

type vrDB struct {
	name   string
	tables map[string]*vrTable
	order  []string
}

var _ gsql.Database = (*vrDB)(nil)

func (d *vrDB) Name() string { return d.name }

func (d *vrDB) GetTableInsensitive(ctx *gsql.Context, name string) (gsql.Table, bool, error) {
	t, ok := d.tables[strings.ToLower(name)]
	if !ok {
		return nil, false, nil
	}
	return t, true, nil
}

func (d *vrDB) GetTableNames(ctx *gsql.Context) ([]string, error) {
	return append([]string(nil), d.order...), nil
}

// valueRowCalls counts NextValueRow calls (evidence that the value-row pipeline ran).
var valueRowCalls atomic.Int64

type vrTable struct {
	name string
	n    int
	seed uint64
	sch  gsql.Schema
}

var _ gsql.Table = (*vrTable)(nil)

func newVrDB(seed uint64) *vrDB {
	d := &vrDB{name: "v", tables: map[string]*vrTable{}}
	for _, n := range sizes {
		name := "t" + strconv.Itoa(n)
		d.tables[name] = newVrTable(name, n, seed+uint64(n))
		d.order = append(d.order, name)
	}
	return d
}

func newVrTable(name string, n int, seed uint64) *vrTable {
	col := func(cn string, t gsql.Type, nullable bool) *gsql.Column {
		return &gsql.Column{Name: cn, Type: t, Nullable: nullable, Source: name, DatabaseSource: "v"}
	}
	return &vrTable{name: name, n: n, seed: seed, sch: gsql.Schema{
		col("id", types.Int64, false),
		col("a", types.Int32, true),
		col("u", types.Uint64, true),
		col("f", types.Float64, true),
		col("s", types.MustCreateStringWithDefaults(sqltypes.VarChar, 64), true),
		col("x", types.MustCreateBinary(sqltypes.VarBinary, 32), true),
		col("dt", types.MustCreateDatetimeType(sqltypes.Datetime, 6), true),
		col("y", types.Year, true),
		col("t8", types.Int8, true),
	}}
}

func (t *vrTable) Name() string                     { return t.name }
func (t *vrTable) String() string                   { return t.name }
func (t *vrTable) Schema(*gsql.Context) gsql.Schema { return t.sch }
func (t *vrTable) Collation() gsql.CollationID      { return gsql.Collation_Default }

type vrPartition struct{}

func (vrPartition) Key() []byte { return []byte("p0") }

func (t *vrTable) Partitions(*gsql.Context) (gsql.PartitionIter, error) {
	return gsql.PartitionsToPartitionIter(vrPartition{}), nil
}

func (t *vrTable) PartitionRows(*gsql.Context, gsql.Partition) (gsql.RowIter, error) {
	return &vrIter{t: t}, nil
}

// logical row i -----------------------------------------------------------------------------

func mix(x uint64) uint64 { // splitmix64
	x += 0x9e3779b97f4a7c15
	x = (x ^ (x >> 30)) * 0xbf58476d1ce4e5b9
	x = (x ^ (x >> 27)) * 0x94d049bb133111eb
	return x ^ (x >> 31)
}

var vrStrings = []string{"", "a", "é", "日本語", "😀", "it's", "tab\there", strings.Repeat("z", 64), "NULL", " sp "}

type vrRow struct {
	id int64
	a  *int32
	u  *uint64
	f  *float64
	s  *string
	x  []byte // nil = NULL
	dt *int64 // unix micros
	y  *uint16
	t8 *int8
}

func (t *vrTable) row(i int) vrRow {
	h := mix(t.seed ^ uint64(i)*0x100000001b3)
	r := vrRow{id: int64(i)}
	pick := func(k int) uint64 { return mix(h + uint64(k)) }
	if pick(1)%7 != 0 {
		v := int32(pick(2))
		switch pick(3) % 5 {
		case 0:
			v = math.MinInt32
		case 1:
			v = math.MaxInt32
		}
		r.a = &v
	}
	if pick(4)%7 != 0 {
		v := pick(5)
		switch pick(6) % 5 {
		case 0:
			v = math.MaxUint64
		case 1:
			v = 0
		}
		r.u = &v
	}
	if pick(7)%7 != 0 {
		v := []float64{0, 0.1, -1.5e-10, 1.7976931348623157e308, 5e-324, 1.0 / 3, float64(int64(pick(8)>>12)) / 1024, -2.5}[pick(9)%8]
		r.f = &v
	}
	if pick(10)%7 != 0 {
		v := vrStrings[pick(11)%uint64(len(vrStrings))]
		if pick(12)%3 == 0 {
			v = fmt.Sprintf("row-%d-%s", i, v)
			if len(v) > 64 {
				v = v[:60]
			}
		}
		r.s = &v
	}
	if pick(13)%7 != 0 {
		n := int(pick(14) % 33)
		b := make([]byte, n)
		for j := range b {
			b[j] = byte(pick(15 + j))
		}
		r.x = b
	}
	if pick(50)%7 != 0 {
		// 1000-01-01 .. 9999-12-31, microsecond resolution
		const lo, hi = -30610224000, 253402300799
		sec := lo + int64(pick(51)%uint64(hi-lo))
		v := sec*1000000 + int64(pick(52)%1000000)
		r.dt = &v
	}
	if pick(53)%7 != 0 {
		v := uint16(1901 + pick(54)%255)
		r.y = &v
	}
	if pick(55)%7 != 0 {
		v := int8(pick(56))
		r.t8 = &v
	}
	return r
}

func (r vrRow) goRow() gsql.Row {
	row := make(gsql.Row, 9)
	row[0] = r.id
	if r.a != nil {
		row[1] = *r.a
	}
	if r.u != nil {
		row[2] = *r.u
	}
	if r.f != nil {
		row[3] = *r.f
	}
	if r.s != nil {
		row[4] = *r.s
	}
	if r.x != nil {
		row[5] = r.x
	}
	if r.dt != nil {
		row[6] = time.UnixMicro(*r.dt).UTC()
	}
	if r.y != nil {
		row[7] = int16(*r.y)
	}
	if r.t8 != nil {
		row[8] = *r.t8
	}
	return row
}

func le(n int, v uint64) []byte {
	b := make([]byte, 8)
	binary.LittleEndian.PutUint64(b, v)
	return b[:n]
}

func (r vrRow) valueRow() gsql.ValueRow {
	vr := make(gsql.ValueRow, 9)
	vr[0] = gsql.Value{Val: le(8, uint64(r.id)), Typ: sqltypes.Int64}
	if r.a != nil {
		vr[1] = gsql.Value{Val: le(4, uint64(uint32(*r.a))), Typ: sqltypes.Int32}
	}
	if r.u != nil {
		vr[2] = gsql.Value{Val: le(8, *r.u), Typ: sqltypes.Uint64}
	}
	if r.f != nil {
		vr[3] = gsql.Value{Val: le(8, math.Float64bits(*r.f)), Typ: sqltypes.Float64}
	}
	if r.s != nil {
		vr[4] = gsql.Value{Val: append([]byte{}, *r.s...), Typ: sqltypes.VarChar}
	}
	if r.x != nil {
		vr[5] = gsql.Value{Val: append([]byte{}, r.x...), Typ: sqltypes.VarBinary}
	}
	if r.dt != nil {
		vr[6] = gsql.Value{Val: le(8, uint64(*r.dt)), Typ: sqltypes.Datetime}
	}
	if r.y != nil {
		vr[7] = gsql.Value{Val: le(2, uint64(*r.y)), Typ: sqltypes.Year}
	}
	if r.t8 != nil {
		vr[8] = gsql.Value{Val: le(1, uint64(uint8(*r.t8))), Typ: sqltypes.Int8}
	}
	return vr
}

type vrIter struct {
	t *vrTable
	i int
}

var _ gsql.RowIter = (*vrIter)(nil)
var _ gsql.ValueRowIter = (*vrIter)(nil)

func (it *vrIter) Next(*gsql.Context) (gsql.Row, error) {
	if it.i >= it.t.n {
		return nil, io.EOF
	}
	r := it.t.row(it.i)
	it.i++
	return r.goRow(), nil
}

func (it *vrIter) NextValueRow(*gsql.Context) (gsql.ValueRow, error) {
	if it.i >= it.t.n {
		return nil, io.EOF
	}
	valueRowCalls.Add(1)
	r := it.t.row(it.i)
	it.i++
	return r.valueRow(), nil
}

func (it *vrIter) IsValueRowIter(*gsql.Context) bool { return true }

func (it *vrIter) Close(*gsql.Context) error { return nil }
