package c26

// conversionSignature names the known finding whose defect explains a violation of the
// conversion clause ("" = none).
func conversionSignature(tc typeCase, r1, r2, v1, v2 any, cr, cv int) string {
	return ""
}
