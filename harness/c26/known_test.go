package c26

import (
	"encoding/json"
	"math"
	"strconv"
	"strings"
)

// Known finding of C26 (see /verif/notes/C26.md and notes/C26.findings.json).
//
// kfJSONBigFloat: JSON numbers are compared through types.compareNumbers; its int64-vs-float64
// and uint64-vs-float64 cases convert the float with int64(f) / uint64(f), which is not defined
// for |f| >= 2^63 (2^64), so an integer compares *greater* than 1.8446744073709552e19 or
// +Inf-like values ("0 < 18446744073709552000" but "-9223372036854775807 > 18446744073709552000"):
// Compare on JSON is not transitive on triples that mix integers and such floats.
const kfJSONBigFloat = "C26-json-int-vs-big-float"

// jsonBigFloatRegion is the input region of kfJSONBigFloat, decided on the JSON texts alone:
// some document holds a number whose float64 value is >= 2^63 in magnitude and that is not an
// integer fitting int64/uint64, and some document holds an integer-looking number (no '.', no
// exponent). Over-approximation: which integer texts the engine keeps as Go integers is its
// business.
func jsonBigFloatRegion(texts []string) bool {
	bigFloat, integer := false, false
	for _, t := range texts {
		dec := json.NewDecoder(strings.NewReader(t))
		dec.UseNumber()
		for {
			tok, err := dec.Token()
			if err != nil {
				break
			}
			n, ok := tok.(json.Number)
			if !ok {
				continue
			}
			s := n.String()
			looksInt := !strings.ContainsAny(s, ".eE")
			if looksInt {
				if _, err := strconv.ParseInt(s, 10, 64); err == nil {
					integer = true
					continue
				}
				if _, err := strconv.ParseUint(s, 10, 64); err == nil {
					integer = true
					continue
				}
			}
			f, _ := strconv.ParseFloat(s, 64) // +-Inf for out-of-range text such as 1e400
			if math.Abs(f) >= 9223372036854775808.0 {
				bigFloat = true
			}
		}
	}
	return bigFloat && integer
}

// lawSignature names the known finding that explains a violation of an order law on values of
// the type whose raw forms are raws ("" = none): only the JSON family, only the transitivity
// law (antisymmetry holds by construction in compareNumbers, reflexivity is unaffected), only
// inside the region.
func lawSignature(tc typeCase, law string, raws []any) string {
	if tc.family != "json" || law != "transitive" {
		return ""
	}
	if jsonBigFloatRegion(rawTexts(raws)) {
		return kfJSONBigFloat
	}
	return ""
}

func rawTexts(raws []any) []string {
	var out []string
	for _, r := range raws {
		if s, ok := r.(string); ok {
			out = append(out, s)
		}
	}
	return out
}

// conversionSignature names the known finding whose defect explains a violation of the
// conversion clause ("" = none).
func conversionSignature(tc typeCase, r1, r2, v1, v2 any, cr, cv int) string {
	return ""
}

// jsonWitness: three JSON numbers on which Compare is not transitive on the unchanged tree
// (0 < 18446744073709552000, 18446744073709552000 < -9223372036854775807, but 0 > -9223372036854775807).
var jsonWitness = []string{"0", "18446744073709552000", "-9223372036854775807"}
