package c26

import (
	"context"
	"fmt"
	"math"
	"math/big"
	"testing"
	"time"

	"github.com/cockroachdb/apd/v3"
	"github.com/dolthub/go-mysql-server/sql/types"

	"github.com/dolthub/go-mysql-server/sql"
	"github.com/dolthub/go-mysql-server/vh/internal/kf"
	"github.com/dolthub/go-mysql-server/vh/internal/stats"
	"pgregory.net/rapid"
)

func sgn(x int) int {
	switch {
	case x < 0:
		return -1
	case x > 0:
		return 1
	}
	return 0
}

// newCtx gives Type.Compare/Convert the context production callers give it (a *sql.Context).
func newCtx() *sql.Context { return sql.NewEmptyContext() }

// valueOf converts a raw value to a value of the type; ok only for in-range conversions
// without error ("values of the type" of the quantifier).
func valueOf(ctx context.Context, tc typeCase, raw any) (v any, ok bool) {
	defer func() {
		if p := recover(); p != nil {
			v, ok = nil, false
		}
	}()
	v, inRange, err := tc.typ.Convert(ctx, raw)
	if err != nil || inRange != sql.InRange || v == nil {
		return nil, false
	}
	if w, isW := v.(sql.AnyWrapper); isW {
		if _, isJSON := v.(sql.JSONWrapper); !isJSON {
			u, uerr := w.UnwrapAny(ctx)
			if uerr != nil {
				return nil, false
			}
			v = u
		}
	}
	return v, true
}

type violation struct {
	law  string
	id   string // candidate known-finding id ("" = none)
	text string
}

// compare calls Type.Compare and turns panics into errors.
func compare(ctx context.Context, t sql.Type, a, b any) (c int, err error) {
	defer func() {
		if p := recover(); p != nil {
			err = fmt.Errorf("PANIC: %v", p)
		}
	}()
	return t.Compare(ctx, a, b)
}

// checkLaws checks the order laws on values of the type (nil = NULL).
func checkLaws(ctx context.Context, tc typeCase, vals []any) *violation {
	t := tc.typ
	n := len(vals)
	m := make([][]int, n)
	for i := range vals {
		m[i] = make([]int, n)
		for j := range vals {
			c, err := compare(ctx, t, vals[i], vals[j])
			if err != nil {
				return &violation{law: "no-error", text: fmt.Sprintf("Compare(%s, %s) fails on values of the type: %v", show(vals[i]), show(vals[j]), err)}
			}
			m[i][j] = sgn(c)
		}
	}
	for i := range vals {
		if m[i][i] != 0 {
			return &violation{law: "reflexive", text: fmt.Sprintf("Compare(x, x) = %d for x = %s", m[i][i], show(vals[i]))}
		}
	}
	for i := range vals {
		for j := range vals {
			if m[i][j] != -m[j][i] {
				return &violation{law: "antisymmetric", text: fmt.Sprintf("Compare(a, b) = %d but Compare(b, a) = %d for a = %s, b = %s", m[i][j], m[j][i], show(vals[i]), show(vals[j]))}
			}
		}
	}
	// NULL: equal to NULL, and on one fixed side of every non-NULL value
	for i := range vals {
		for j := range vals {
			if vals[i] == nil && vals[j] == nil && m[i][j] != 0 {
				return &violation{law: "null", text: "Compare(NULL, NULL) != 0"}
			}
			if vals[i] == nil && vals[j] != nil && m[i][j] != nullSide {
				return &violation{law: "null", text: fmt.Sprintf("Compare(NULL, %s) = %d, expected %d (NULL on one fixed side of every value)", show(vals[j]), m[i][j], nullSide)}
			}
		}
	}
	if tc.lawsOnly == "refl" {
		return nil
	}
	// the order of the type: for the types whose values have an evident order (numbers by
	// value, temporal values by instant, binary strings by bytes, BIT/YEAR by value, ENUM by
	// index, SET by bit field) Compare must be that order; in particular Compare = 0 only for
	// identical values (antisymmetry of a *total order*, not merely of a preorder).
	for i := range vals {
		for j := range vals {
			if vals[i] == nil || vals[j] == nil {
				continue
			}
			if want, ok := refOrder(tc, vals[i], vals[j]); ok && want != m[i][j] {
				return &violation{law: "order-of-the-type", text: fmt.Sprintf("Compare(%s, %s) = %d, the order of the type gives %d", show(vals[i]), show(vals[j]), m[i][j], want)}
			}
		}
	}
	for i := range vals {
		for j := range vals {
			for k := range vals {
				if m[i][j] <= 0 && m[j][k] <= 0 && m[i][k] > 0 {
					return &violation{law: "transitive", text: fmt.Sprintf("a <= b (%d) and b <= c (%d) but Compare(a, c) = %d for a = %s, b = %s, c = %s",
						m[i][j], m[j][k], m[i][k], show(vals[i]), show(vals[j]), show(vals[k]))}
				}
			}
		}
	}
	return nil
}

// nullSide is the sign of Type.Compare(NULL, x) for non-NULL x. The engine's convention at
// this API is +1 (types.CompareNulls; the sort code handles NULL placement itself, which the
// SQL-level check asserts as "NULL first"); the law asserted here is that the side is the
// same for every type and value and antisymmetric.
const nullSide = 1

// checkConversion checks the conversion clause for two raw values that convert in range and
// without error: Compare(raw1, raw2) == Compare(Convert(raw1), Convert(raw2)).
func checkConversion(ctx context.Context, tc typeCase, r1, r2 any) (*violation, bool) {
	v1, ok1 := valueOf(ctx, tc, r1)
	v2, ok2 := valueOf(ctx, tc, r2)
	if !ok1 || !ok2 {
		return nil, false
	}
	if !lossless(tc, r1, v1) || !lossless(tc, r2, v2) {
		// A raw value that the type can only hold after rounding/truncation (1.234 for
		// DECIMAL(10,2), a float64 between two float32s, microseconds for DATETIME(0)) is
		// compared at its full precision by SQL (MySQL compares FLOAT with DOUBLE as DOUBLE,
		// DATETIME(0) with DATETIME(6) as DATETIME(6)); the clause is asserted for raw values
		// that denote a value of the type exactly, in another representation.
		return nil, false
	}
	cr, err := compare(ctx, tc.typ, r1, r2)
	if err != nil {
		return &violation{law: "conversion", text: fmt.Sprintf("Compare(%s, %s) fails although both convert in range: %v", show(r1), show(r2), err)}, true
	}
	cv, err := compare(ctx, tc.typ, v1, v2)
	if err != nil {
		return &violation{law: "no-error", text: fmt.Sprintf("Compare(%s, %s) fails on values of the type: %v", show(v1), show(v2), err)}, true
	}
	if sgn(cr) != sgn(cv) {
		return &violation{law: "conversion", id: conversionSignature(tc, r1, r2, v1, v2, sgn(cr), sgn(cv)),
			text: fmt.Sprintf("Compare(%s, %s) = %d but after Convert: Compare(%s, %s) = %d", show(r1), show(r2), sgn(cr), show(v1), show(v2), sgn(cv))}, true
	}
	return nil, true
}

// TestC26 checks the order laws of Type.Compare on generated triples of values of each type
// and the conversion clause on pairs of raw values.
func TestC26(t *testing.T) {
	st := stats.New("C26", "")
	defer st.Flush()
	rapid.Check(t, func(rt *rapid.T) {
		st.Eval()
		ctx := newCtx()
		tc := genTypeCase(rt)
		st.Class("family " + tc.family)

		// three values of the type (or NULL), built to be close to each other
		var vals, raws []any
		for i := 0; i < 3; i++ {
			l := fmt.Sprintf("v%d", i)
			if rapid.IntRange(0, 7).Draw(rt, l+"_null") == 0 {
				vals = append(vals, nil)
				raws = append(raws, nil)
				continue
			}
			if i > 0 && raws[i-1] != nil && rapid.IntRange(0, 5).Draw(rt, l+"_same") == 0 {
				vals = append(vals, vals[i-1])
				raws = append(raws, raws[i-1])
				continue
			}
			raw := tc.raw(rt, l)
			v, ok := valueOf(ctx, tc, raw)
			if !ok {
				st.Class("raw not a value of the type")
				return
			}
			vals = append(vals, v)
			raws = append(raws, raw)
		}
		fail := func(v *violation) {
			if v.id != "" && kf.Suppress(st, v.id) {
				st.Class("known " + v.id)
				return
			}
			rt.Fatalf("C26 violated (%s) for type %s\n  %s\n  values: %s, %s, %s", v.law, tc.name, v.text, show(vals[0]), show(vals[1]), show(vals[2]))
		}
		if tc.family == "json" && kf.Listed(kfJSONBigFloat) && jsonBigFloatRegion(rawTexts(raws)) {
			st.Excluded(kfJSONBigFloat) // searched again once the finding is repaired / unlisted
			return
		}
		if v := checkLaws(ctx, tc, vals); v != nil {
			if v.id == "" {
				v.id = lawSignature(tc, v.law, raws)
			}
			fail(v)
			return
		}
		if !tc.noConv {
			for i := 0; i < 3; i++ {
				for j := 0; j < 3; j++ {
					if i == j || raws[i] == nil || raws[j] == nil {
						continue
					}
					v, done := checkConversion(ctx, tc, raws[i], raws[j])
					if done {
						st.Class("conversion pairs")
					}
					if v != nil {
						fail(v)
						return
					}
				}
			}
		}
		// non-trivial: at least two distinct non-NULL values, two of which are close
		distinct, closeSeen := false, false
		for i := 0; i < 3; i++ {
			for j := i + 1; j < 3; j++ {
				if vals[i] == nil || vals[j] == nil {
					continue
				}
				c, _ := compare(ctx, tc.typ, vals[i], vals[j])
				if c != 0 || show(vals[i]) != show(vals[j]) {
					distinct = true
					if tc.close != nil && tc.close(vals[i], vals[j]) {
						closeSeen = true
					}
				}
			}
		}
		if distinct && closeSeen {
			st.NonTrivial(map[string]any{"type": tc.name, "values": []string{show(vals[0]), show(vals[1]), show(vals[2])}},
				tc.name, show(vals[0]), show(vals[1]), show(vals[2]))
		}
	})
}

// ratOf is the exact numeric value of a raw or converted number (nil if it has none).
func ratOf(v any) *big.Rat {
	switch x := v.(type) {
	case int:
		return new(big.Rat).SetInt64(int64(x))
	case int8:
		return new(big.Rat).SetInt64(int64(x))
	case int16:
		return new(big.Rat).SetInt64(int64(x))
	case int32:
		return new(big.Rat).SetInt64(int64(x))
	case int64:
		return new(big.Rat).SetInt64(x)
	case uint8:
		return new(big.Rat).SetInt64(int64(x))
	case uint16:
		return new(big.Rat).SetInt64(int64(x))
	case uint32:
		return new(big.Rat).SetInt64(int64(x))
	case uint64:
		return new(big.Rat).SetInt(new(big.Int).SetUint64(x))
	case float32:
		if math.IsInf(float64(x), 0) || math.IsNaN(float64(x)) {
			return nil
		}
		return new(big.Rat).SetFloat64(float64(x))
	case float64:
		if math.IsInf(x, 0) || math.IsNaN(x) {
			return nil
		}
		return new(big.Rat).SetFloat64(x)
	case *apd.Decimal:
		r, ok := new(big.Rat).SetString(x.Text('f'))
		if !ok {
			return nil
		}
		return r
	case string:
		r, ok := new(big.Rat).SetString(x)
		if !ok {
			return nil
		}
		return r
	}
	return nil
}

func microsOf(v any) (int64, bool) {
	switch x := v.(type) {
	case time.Time:
		return x.UnixMicro(), true
	case string:
		for _, f := range []string{"2006-01-02 15:04:05.000000", "2006-01-02"} {
			if t, err := time.Parse(f, x); err == nil {
				return t.UnixMicro(), true
			}
		}
	}
	return 0, false
}

// lossless reports whether the raw value denotes exactly the value v of the type (decided
// by the harness, independently of the engine's Convert).
func lossless(tc typeCase, raw, v any) bool {
	switch tc.family {
	case "integer", "float", "decimal", "bit":
		a, b := ratOf(raw), ratOf(v)
		return a != nil && b != nil && a.Cmp(b) == 0
	case "date", "datetime", "timestamp":
		a, oka := microsOf(raw)
		b, okb := microsOf(v)
		return oka && okb && a == b
	case "time":
		if s, ok := raw.(string); ok {
			if ts, ok := v.(types.Timespan); ok {
				return ts.String() == s
			}
			return false
		}
		return raw == v
	case "set":
		// For a SET that has '' as a member, the string '' denotes both the empty set and the
		// set {''} (both print as ''; MySQL compares SET with strings by their text): it is not
		// a representation of one value of the type.
		if s, ok := raw.(string); ok && s == "" {
			return false
		}
	}
	return true // strings, year, enum, set: Compare is defined through Convert
}

// refOrder is the harness's own order on values of the type, for the families where it is
// evident; ok=false where only the laws are asserted (collated strings, JSON, geometry).
func refOrder(tc typeCase, a, b any) (int, bool) {
	switch tc.family {
	case "integer", "float", "decimal", "bit", "year", "enum", "set":
		ra, rb := ratOf(a), ratOf(b)
		if ra == nil || rb == nil {
			return 0, false
		}
		return ra.Cmp(rb), true
	case "date", "datetime", "timestamp":
		ta, oka := a.(time.Time)
		tb, okb := b.(time.Time)
		if !oka || !okb {
			return 0, false
		}
		switch ua, ub := ta.UnixMicro(), tb.UnixMicro(); {
		case ua < ub:
			return -1, true
		case ua > ub:
			return 1, true
		}
		return 0, true
	case "time":
		ta, oka := a.(types.Timespan)
		tb, okb := b.(types.Timespan)
		if !oka || !okb {
			return 0, false
		}
		switch {
		case ta < tb:
			return -1, true
		case ta > tb:
			return 1, true
		}
		return 0, true
	case "binary", "string utf8mb4_0900_bin":
		// byte order; for valid UTF-8 this is also code point order (utf8mb4_0900_bin is NO PAD)
		sa, oka := bytesOf(a)
		sb, okb := bytesOf(b)
		if !oka || !okb {
			return 0, false
		}
		switch {
		case sa < sb:
			return -1, true
		case sa > sb:
			return 1, true
		}
		return 0, true
	}
	return 0, false
}

func bytesOf(v any) (string, bool) {
	switch x := v.(type) {
	case string:
		return x, true
	case []byte:
		return string(x), true
	}
	return "", false
}
