// Package c26 checks property C26: comparison of values is a consistent total order per type
// (see /verif/DESIGN.md section 6, C26 and /verif/notes/C26.md).
package c26

import (
	"fmt"
	"math"
	"strings"
	"time"

	"github.com/cockroachdb/apd/v3"
	"github.com/dolthub/go-mysql-server/sql"
	"github.com/dolthub/go-mysql-server/sql/types"
	"github.com/dolthub/vitess/go/sqltypes"
	"github.com/dolthub/vitess/go/vt/proto/query"
	"pgregory.net/rapid"
)

// typeCase is one SQL type with a generator of raw (convertible) values for it.
type typeCase struct {
	family   string // class label
	name     string // full description (with parameters)
	typ      sql.Type
	ddl      string                                 // column type in DDL ("" = not used through SQL)
	raw      func(rt *rapid.T, label string) any    // a raw value as callers pass it
	lit      func(rt *rapid.T, label string) string // a SQL literal for the SQL-level check (may be nil)
	close    func(a, b any) bool                    // are two distinct values of the type "close" (non-trivial rule)
	noConv   bool                                   // skip the conversion clause (no raw form other than the value itself)
	lawsOnly string                                 // "refl": only reflexivity and NULL ordering (geometry)
}

func show(v any) string {
	switch x := v.(type) {
	case nil:
		return "NULL"
	case *apd.Decimal:
		return "decimal(" + x.Text('f') + ")"
	case time.Time:
		return "time(" + x.UTC().Format("2006-01-02 15:04:05.000000") + ")"
	case []byte:
		return fmt.Sprintf("bytes(%q)", string(x))
	case string:
		return fmt.Sprintf("string(%q)", x)
	case float32:
		return fmt.Sprintf("float32(%v)", x)
	case float64:
		return fmt.Sprintf("float64(%v)", x)
	case sql.JSONWrapper:
		s, err := types.JsonToMySqlString(nil, x)
		if err != nil {
			return fmt.Sprintf("json(?%v)", err)
		}
		return "json(" + s + ")"
	}
	return fmt.Sprintf("%T(%v)", v, v)
}

// ---------------------------------------------------------------------------------------
// numeric raws

var intEdges = []int64{0, 1, -1, 2, 127, 128, -128, -129, 255, 256, 32767, 32768, -32768, -32769, 65535, 65536,
	8388607, 8388608, -8388608, -8388609, 16777215, 16777216, 2147483647, 2147483648, -2147483648, -2147483649,
	4294967295, 4294967296, math.MaxInt64, math.MaxInt64 - 1, math.MinInt64, math.MinInt64 + 1,
	1 << 53, 1<<53 + 1, 1<<53 - 1, 1 << 24, 1<<24 + 1}

func genInt64(rt *rapid.T, label string) int64 {
	switch rapid.IntRange(0, 3).Draw(rt, label+"_ih") {
	case 0:
		return rapid.SampledFrom(intEdges).Draw(rt, label+"_edge")
	case 1:
		return rapid.SampledFrom(intEdges).Draw(rt, label+"_edge") + int64(rapid.IntRange(-2, 2).Draw(rt, label+"_d"))
	case 2:
		return int64(rapid.IntRange(-5, 5).Draw(rt, label+"_small"))
	}
	return rapid.Int64().Draw(rt, label+"_any")
}

func genUint64(rt *rapid.T, label string) uint64 {
	switch rapid.IntRange(0, 3).Draw(rt, label+"_uh") {
	case 0:
		return math.MaxUint64 - uint64(rapid.IntRange(0, 2).Draw(rt, label+"_d"))
	case 1:
		return uint64(1<<63) + uint64(rapid.IntRange(-2, 2).Draw(rt, label+"_d"))
	case 2:
		v := genInt64(rt, label)
		if v < 0 {
			v = -(v + 1)
		}
		return uint64(v)
	}
	return rapid.Uint64().Draw(rt, label+"_any")
}

func genFloat64(rt *rapid.T, label string) float64 {
	switch rapid.IntRange(0, 5).Draw(rt, label+"_fh") {
	case 0: // integers and halves around the integer edges
		base := float64(rapid.SampledFrom(intEdges).Draw(rt, label+"_edge"))
		return base + rapid.SampledFrom([]float64{0, 0.5, -0.5, 0.4, 0.6, 0.25, 1}).Draw(rt, label+"_frac")
	case 1: // adjacent floats
		base := rapid.SampledFrom([]float64{0, 1, -1, 0.1, 1.5, 1e10, 16777216, 1e-10, 3.4028234663852886e38, 1.7976931348623157e308, 5e-324, 1e19, 9.223372036854775807e18}).Draw(rt, label+"_base")
		switch rapid.IntRange(0, 2).Draw(rt, label+"_adj") {
		case 0:
			return math.Nextafter(base, math.Inf(1))
		case 1:
			return math.Nextafter(base, math.Inf(-1))
		}
		return base
	case 2: // float32-adjacent values (distinguishable as float64, maybe not as float32)
		f := float32(rapid.SampledFrom([]float64{1, 0.1, 1.5, 16777216, 1e10, -2.5}).Draw(rt, label+"_base32"))
		switch rapid.IntRange(0, 3).Draw(rt, label+"_adj32") {
		case 0:
			return float64(math.Nextafter32(f, float32(math.Inf(1))))
		case 1:
			return float64(f) * (1 + 1e-12)
		case 2:
			return float64(f) * (1 - 1e-12)
		}
		return float64(f)
	case 3:
		return float64(rapid.IntRange(-40, 40).Draw(rt, label+"_q")) / 4
	case 4:
		return float64(genInt64(rt, label))
	}
	return rapid.Float64Range(-1e20, 1e20).Draw(rt, label+"_any")
}

func dec(s string) *apd.Decimal {
	d, _, err := apd.NewFromString(s)
	if err != nil {
		panic(s + ": " + err.Error())
	}
	return d
}

// genDecimalText draws decimal text with up to intDigits integer and up to fracDigits fractional digits.
func genDecimalText(rt *rapid.T, intDigits, fracDigits int, label string) string {
	var ip string
	switch rapid.IntRange(0, 4).Draw(rt, label+"_dh") {
	case 0:
		ip = strings.Repeat("9", rapid.IntRange(0, intDigits).Draw(rt, label+"_n9"))
	case 1:
		ip = fmt.Sprint(rapid.SampledFrom(intEdges).Draw(rt, label+"_edge"))
		ip = strings.TrimPrefix(ip, "-")
	case 2:
		ip = fmt.Sprint(rapid.IntRange(0, 12).Draw(rt, label+"_small"))
	default:
		ip = rapid.StringMatching(fmt.Sprintf(`[0-9]{0,%d}`, intDigits)).Draw(rt, label+"_ip")
	}
	if len(ip) > intDigits {
		ip = ip[len(ip)-intDigits:]
	}
	if ip == "" {
		ip = "0"
	}
	fp := ""
	if fracDigits > 0 {
		switch rapid.IntRange(0, 4).Draw(rt, label+"_fh") {
		case 0:
			fp = ""
		case 1:
			fp = rapid.SampledFrom([]string{"5", "4", "6", "49", "50", "51", "0", "00", "10", "499999", "500000", "000001"}).Draw(rt, label+"_tie")
		case 2:
			fp = strings.Repeat("9", rapid.IntRange(1, fracDigits).Draw(rt, label+"_f9"))
		default:
			fp = rapid.StringMatching(fmt.Sprintf(`[0-9]{0,%d}`, fracDigits)).Draw(rt, label+"_fp")
		}
		if len(fp) > fracDigits {
			fp = fp[:fracDigits]
		}
	}
	s := ip
	if fp != "" {
		s += "." + fp
	}
	if rapid.IntRange(0, 2).Draw(rt, label+"_neg") == 0 {
		s = "-" + s
	}
	return s
}

// rawNumber draws a raw numeric value of the Go types the engine passes around.
func rawNumber(rt *rapid.T, label string) any {
	switch rapid.IntRange(0, 9).Draw(rt, label+"_kind") {
	case 0, 1:
		return genInt64(rt, label)
	case 2:
		return genUint64(rt, label)
	case 3, 4:
		return genFloat64(rt, label)
	case 5:
		return float32(genFloat64(rt, label))
	case 6, 7:
		return dec(genDecimalText(rt, 20, 6, label))
	case 8:
		v := genInt64(rt, label)
		switch rapid.IntRange(0, 3).Draw(rt, label+"_w") {
		case 0:
			return int8(v)
		case 1:
			return int16(v)
		case 2:
			return int32(v)
		}
		return uint32(v)
	}
	return genDecimalText(rt, 20, 6, label) // numeric string
}

func numClose(a, b any) bool {
	fa, oka := toF(a)
	fb, okb := toF(b)
	if !oka || !okb {
		return false
	}
	d := math.Abs(fa - fb)
	return d <= 1 || d <= 1e-6*math.Max(math.Abs(fa), math.Abs(fb))
}

func toF(v any) (float64, bool) {
	switch x := v.(type) {
	case int8:
		return float64(x), true
	case int16:
		return float64(x), true
	case int32:
		return float64(x), true
	case int64:
		return float64(x), true
	case uint8:
		return float64(x), true
	case uint16:
		return float64(x), true
	case uint32:
		return float64(x), true
	case uint64:
		return float64(x), true
	case float32:
		return float64(x), true
	case float64:
		return x, true
	case *apd.Decimal:
		f, err := x.Float64()
		return f, err == nil
	}
	return 0, false
}

// ---------------------------------------------------------------------------------------
// strings

var strPieces = []string{"", "a", "A", "á", "Á", "b", "B", "ab", "aB", "a ", " a", " ", "e", "é", "E", "ss", "ß", "z", "Z", "0", "9", "10",
	"\t", "_", "ä", "ae", "o", "ö", "n", "ñ", "😀", "ǆ", "ǅ", "i", "I", "ı", "İ", "́", "á", "\x00", "~"}

func genString(rt *rapid.T, label string) string {
	n := rapid.IntRange(0, 3).Draw(rt, label+"_n")
	var sb strings.Builder
	for i := 0; i < n; i++ {
		sb.WriteString(rapid.SampledFrom(strPieces).Draw(rt, fmt.Sprintf("%s_p%d", label, i)))
	}
	return sb.String()
}

func strClose(a, b any) bool {
	sa, oka := a.(string)
	sb, okb := b.(string)
	if !oka || !okb {
		ba, oka := a.([]byte)
		bb, okb := b.([]byte)
		if !oka || !okb {
			return false
		}
		sa, sb = string(ba), string(bb)
	}
	fold := func(s string) string {
		r := strings.NewReplacer("á", "a", "Á", "a", "é", "e", "ä", "a", "ö", "o", "ñ", "n", "ß", "ss", "́", "", " ", "", "\t", "", "ı", "i", "İ", "i")
		return strings.ToLower(r.Replace(s))
	}
	return fold(sa) == fold(sb) || strings.HasPrefix(sa, sb) || strings.HasPrefix(sb, sa)
}

var collations = []sql.CollationID{
	sql.Collation_utf8mb4_0900_bin, sql.Collation_utf8mb4_general_ci, sql.Collation_utf8mb4_0900_ai_ci,
	sql.Collation_latin1_swedish_ci, sql.Collation_utf8mb4_bin, sql.Collation_utf8mb4_unicode_ci,
}

// latin1 strings: only characters of latin1
var latin1Pieces = []string{"", "a", "A", "á", "Á", "b", "B", "ab", "a ", " ", "e", "é", "ss", "ß", "z", "0", "9", "10", "ä", "ö", "ñ", "~", "ÿ", "Æ"}

// ---------------------------------------------------------------------------------------
// temporal

var timeBases = []time.Time{
	time.Date(2020, 2, 29, 23, 59, 59, 999999000, time.UTC),
	time.Date(1000, 1, 1, 0, 0, 0, 0, time.UTC),
	time.Date(9999, 12, 31, 23, 59, 59, 999999000, time.UTC),
	time.Date(1970, 1, 1, 0, 0, 1, 0, time.UTC),
	time.Date(2038, 1, 19, 3, 14, 7, 0, time.UTC),
	time.Date(2000, 1, 1, 0, 0, 0, 0, time.UTC),
	time.Date(1999, 12, 31, 23, 59, 59, 500000000, time.UTC),
	time.Date(2024, 3, 10, 12, 0, 0, 0, time.UTC),
}

var timeDeltas = []time.Duration{0, time.Microsecond, -time.Microsecond, time.Millisecond, time.Second, -time.Second, time.Minute, time.Hour,
	24 * time.Hour, -24 * time.Hour, 499999 * time.Microsecond, 500000 * time.Microsecond}

func genTime(rt *rapid.T, lo, hi time.Time, label string) time.Time {
	var t time.Time
	if rapid.IntRange(0, 3).Draw(rt, label+"_th") == 0 {
		secs := rapid.Int64Range(lo.Unix(), hi.Unix()).Draw(rt, label+"_secs")
		t = time.Unix(secs, int64(rapid.IntRange(0, 999999).Draw(rt, label+"_us"))*1000).UTC()
	} else {
		t = rapid.SampledFrom(timeBases).Draw(rt, label+"_base").Add(rapid.SampledFrom(timeDeltas).Draw(rt, label+"_delta"))
	}
	if t.Before(lo) {
		t = lo
	}
	if t.After(hi) {
		t = hi
	}
	return t
}

func timeClose(a, b any) bool {
	ta, oka := a.(time.Time)
	tb, okb := b.(time.Time)
	if oka && okb {
		d := ta.Sub(tb)
		return d <= time.Second && d >= -time.Second
	}
	sa, oka := a.(types.Timespan)
	sb, okb := b.(types.Timespan)
	if oka && okb {
		d := int64(sa) - int64(sb)
		return d <= 1000000 && d >= -1000000
	}
	return false
}

// ---------------------------------------------------------------------------------------
// JSON

func genJSONText(rt *rapid.T, depth int, label string) string {
	k := rapid.IntRange(0, 11).Draw(rt, label+"_jk")
	if depth <= 0 && k >= 9 {
		k = k - 9
	}
	switch k {
	case 0:
		return rapid.SampledFrom([]string{"null", "true", "false"}).Draw(rt, label+"_lit")
	case 1, 2:
		return rapid.SampledFrom([]string{"0", "1", "-1", "2", "1.0", "1.5", "1e0", "-0", "0.0", "9007199254740992", "9007199254740993",
			"9007199254740992.0", "9223372036854775807", "9223372036854775808", "18446744073709551615", "18446744073709551616",
			"-9223372036854775808", "1e19", "1.0000000000000002", "1.00000000000000000001", "0.1", "1e-1", "3", "10", "9", "1e400"}).Draw(rt, label+"_num")
	case 3:
		return fmt.Sprint(genInt64(rt, label))
	case 4:
		f := genFloat64(rt, label)
		if math.IsInf(f, 0) || math.IsNaN(f) {
			f = 0
		}
		return fmt.Sprintf("%v", f)
	case 5, 6, 7, 8:
		s := rapid.SampledFrom([]string{"", "a", "A", "b", "ab", "a ", "10", "9", "á", "true", "null", "1"}).Draw(rt, label+"_str")
		return fmt.Sprintf("%q", s)
	case 9, 10:
		n := rapid.IntRange(0, 3).Draw(rt, label+"_an")
		parts := make([]string, n)
		for i := range parts {
			parts[i] = genJSONText(rt, depth-1, fmt.Sprintf("%s_a%d", label, i))
		}
		return "[" + strings.Join(parts, ",") + "]"
	}
	n := rapid.IntRange(0, 3).Draw(rt, label+"_on")
	var parts []string
	seen := map[string]bool{}
	for i := 0; i < n; i++ {
		key := rapid.SampledFrom([]string{"a", "b", "c", "aa", "A", ""}).Draw(rt, fmt.Sprintf("%s_k%d", label, i))
		if seen[key] {
			continue
		}
		seen[key] = true
		parts = append(parts, fmt.Sprintf("%q:%s", key, genJSONText(rt, depth-1, fmt.Sprintf("%s_o%d", label, i))))
	}
	return "{" + strings.Join(parts, ",") + "}"
}

// ---------------------------------------------------------------------------------------
// the pool of types

func sqlString(s string) string {
	r := strings.NewReplacer("\\", "\\\\", "'", "''", "\x00", "\\0", "\t", "\\t")
	return "'" + r.Replace(s) + "'"
}

func genTypeCase(rt *rapid.T) typeCase {
	switch rapid.IntRange(0, 19).Draw(rt, "family") {
	case 0, 1: // integers
		all := []struct {
			t   sql.Type
			ddl string
		}{{types.Int8, "TINYINT"}, {types.Uint8, "TINYINT UNSIGNED"}, {types.Int16, "SMALLINT"}, {types.Uint16, "SMALLINT UNSIGNED"},
			{types.Int24, "MEDIUMINT"}, {types.Uint24, "MEDIUMINT UNSIGNED"}, {types.Int32, "INT"}, {types.Uint32, "INT UNSIGNED"},
			{types.Int64, "BIGINT"}, {types.Uint64, "BIGINT UNSIGNED"}}
		c := rapid.SampledFrom(all).Draw(rt, "inttype")
		return typeCase{family: "integer", name: c.ddl, typ: c.t, ddl: c.ddl, raw: rawNumber, close: numClose,
			lit: func(rt *rapid.T, l string) string {
				if strings.Contains(c.ddl, "UNSIGNED") {
					return fmt.Sprint(genUint64(rt, l))
				}
				return fmt.Sprint(genInt64(rt, l))
			}}
	case 2:
		if rapid.Bool().Draw(rt, "f32") {
			return typeCase{family: "float", name: "FLOAT", typ: types.Float32, ddl: "FLOAT", raw: rawNumber, close: numClose,
				lit: func(rt *rapid.T, l string) string { return fmt.Sprintf("%v", float32(genFloat64(rt, l))) }}
		}
		return typeCase{family: "float", name: "DOUBLE", typ: types.Float64, ddl: "DOUBLE", raw: rawNumber, close: numClose,
			lit: func(rt *rapid.T, l string) string { return fmt.Sprintf("%v", genFloat64(rt, l)) }}
	case 3, 4:
		p := rapid.IntRange(1, 65).Draw(rt, "p")
		s := rapid.IntRange(0, min(p, 30)).Draw(rt, "s")
		if rapid.Bool().Draw(rt, "common") {
			p, s = 10, 2
		}
		name := fmt.Sprintf("DECIMAL(%d,%d)", p, s)
		return typeCase{family: "decimal", name: name, typ: types.MustCreateDecimalType(uint8(p), uint8(s)), ddl: name, close: numClose,
			raw: func(rt *rapid.T, l string) any {
				switch rapid.IntRange(0, 5).Draw(rt, l+"_dk") {
				case 0:
					return rawNumber(rt, l)
				case 1:
					return genDecimalText(rt, p-s, s+2, l)
				}
				return dec(genDecimalText(rt, p-s, s+2, l))
			},
			lit: func(rt *rapid.T, l string) string { return genDecimalText(rt, p-s, s, l) }}
	case 5, 6, 7: // character strings
		coll := rapid.SampledFrom(collations).Draw(rt, "collation")
		bt := rapid.SampledFrom([]struct {
			q   query.Type
			ddl string
		}{{sqltypes.VarChar, "VARCHAR(12)"}, {sqltypes.Char, "CHAR(12)"}, {sqltypes.Text, "TEXT"}}).Draw(rt, "strtype")
		var st sql.Type
		if bt.q == sqltypes.Text {
			st = types.CreateText(coll)
		} else {
			st = types.MustCreateString(bt.q, 12, coll)
		}
		gen := genString
		if coll == sql.Collation_latin1_swedish_ci {
			gen = func(rt *rapid.T, l string) string {
				n := rapid.IntRange(0, 3).Draw(rt, l+"_n")
				s := ""
				for i := 0; i < n; i++ {
					s += rapid.SampledFrom(latin1Pieces).Draw(rt, fmt.Sprintf("%s_p%d", l, i))
				}
				return s
			}
		}
		ddl := bt.ddl + " CHARACTER SET " + coll.CharacterSet().Name() + " COLLATE " + coll.Name()
		return typeCase{family: "string " + coll.Name(), name: ddl, typ: st, ddl: ddl, close: strClose,
			raw: func(rt *rapid.T, l string) any {
				if rapid.IntRange(0, 9).Draw(rt, l+"_sk") == 0 {
					return rawNumber(rt, l) // numbers convert to their text
				}
				return gen(rt, l)
			},
			lit: func(rt *rapid.T, l string) string { return sqlString(gen(rt, l)) }}
	case 8: // binary strings
		bt := rapid.SampledFrom([]struct {
			q   query.Type
			ddl string
		}{{sqltypes.VarBinary, "VARBINARY(16)"}, {sqltypes.Blob, "BLOB"}}).Draw(rt, "bintype")
		return typeCase{family: "binary", name: bt.ddl, typ: types.MustCreateBinary(bt.q, 16), ddl: bt.ddl, close: strClose,
			raw: func(rt *rapid.T, l string) any {
				s := genString(rt, l)
				if rapid.Bool().Draw(rt, l+"_asbytes") {
					return []byte(s)
				}
				return s
			},
			lit: func(rt *rapid.T, l string) string { return sqlString(genString(rt, l)) }}
	case 9, 10, 11: // DATE / DATETIME(n) / TIMESTAMP(n)
		prec := rapid.SampledFrom([]int{0, 3, 6}).Draw(rt, "prec")
		lo, hi := time.Date(1000, 1, 1, 0, 0, 0, 0, time.UTC), time.Date(9999, 12, 31, 23, 59, 59, 999999000, time.UTC)
		var c typeCase
		switch rapid.IntRange(0, 2).Draw(rt, "dtkind") {
		case 0:
			c = typeCase{family: "date", name: "DATE", typ: types.Date, ddl: "DATE"}
		case 1:
			c = typeCase{family: "datetime", name: fmt.Sprintf("DATETIME(%d)", prec), typ: types.MustCreateDatetimeType(sqltypes.Datetime, prec)}
			c.ddl = c.name
		default:
			c = typeCase{family: "timestamp", name: fmt.Sprintf("TIMESTAMP(%d)", prec), typ: types.MustCreateDatetimeType(sqltypes.Timestamp, prec)}
			c.ddl = c.name
			lo, hi = time.Date(1970, 1, 1, 0, 0, 1, 0, time.UTC), time.Date(2038, 1, 19, 3, 14, 7, 0, time.UTC)
		}
		c.close = timeClose
		c.raw = func(rt *rapid.T, l string) any {
			t := genTime(rt, lo, hi, l)
			switch rapid.IntRange(0, 3).Draw(rt, l+"_tk") {
			case 0:
				return t.Format("2006-01-02 15:04:05.000000")
			case 1:
				return t.Format("2006-01-02")
			}
			return t
		}
		c.lit = func(rt *rapid.T, l string) string {
			return "'" + genTime(rt, lo, hi, l).Format("2006-01-02 15:04:05.000000") + "'"
		}
		return c
	case 12: // TIME
		return typeCase{family: "time", name: "TIME(6)", typ: types.Time, ddl: "TIME(6)", close: timeClose,
			raw: func(rt *rapid.T, l string) any {
				us := genTimespanMicros(rt, l)
				switch rapid.IntRange(0, 2).Draw(rt, l+"_tk") {
				case 0:
					return types.Timespan(us).String()
				}
				return types.Timespan(us)
			},
			lit: func(rt *rapid.T, l string) string {
				return "'" + types.Timespan(genTimespanMicros(rt, l)).String() + "'"
			}}
	case 13: // YEAR
		genY := func(rt *rapid.T, l string) int {
			switch rapid.IntRange(0, 2).Draw(rt, l+"_yk") {
			case 0:
				return rapid.SampledFrom([]int{0, 1, 69, 70, 99, 1901, 1902, 2155, 2154, 2000, 1970, 1969, 2069, 2070}).Draw(rt, l+"_y")
			case 1:
				return rapid.IntRange(1901, 2155).Draw(rt, l+"_y4")
			}
			return rapid.IntRange(0, 99).Draw(rt, l+"_y2")
		}
		return typeCase{family: "year", name: "YEAR", typ: types.Year, ddl: "YEAR",
			close: func(a, b any) bool { return numClose(a, b) },
			raw: func(rt *rapid.T, l string) any {
				y := genY(rt, l)
				switch rapid.IntRange(0, 3).Draw(rt, l+"_yt") {
				case 0:
					return fmt.Sprint(y)
				case 1:
					return int64(y)
				case 2:
					return int16(y)
				}
				return y
			},
			lit: func(rt *rapid.T, l string) string { return fmt.Sprint(genY(rt, l)) }}
	case 14: // ENUM
		members := rapid.SampledFrom([][]string{{"b", "a", "c"}, {"x", "", "y", "10", "2"}, {"small", "medium", "large"}, {"a", "á", "ab", "B"}}).Draw(rt, "members")
		coll := rapid.SampledFrom([]sql.CollationID{sql.Collation_utf8mb4_0900_bin, sql.Collation_utf8mb4_0900_ai_ci}).Draw(rt, "collation")
		if coll == sql.Collation_utf8mb4_0900_ai_ci && members[1] == "á" {
			members = []string{"b", "a", "c"}
		}
		et := types.MustCreateEnumType(members, coll)
		q := make([]string, len(members))
		for i, m := range members {
			q[i] = sqlString(m)
		}
		ddl := "ENUM(" + strings.Join(q, ",") + ") COLLATE " + coll.Name()
		return typeCase{family: "enum", name: ddl, typ: et, ddl: ddl,
			close: func(a, b any) bool { return true },
			raw: func(rt *rapid.T, l string) any {
				i := rapid.IntRange(1, len(members)).Draw(rt, l+"_idx")
				switch rapid.IntRange(0, 3).Draw(rt, l+"_ek") {
				case 0:
					return members[i-1]
				case 1:
					return int64(i)
				}
				return uint16(i)
			},
			lit: func(rt *rapid.T, l string) string {
				return sqlString(members[rapid.IntRange(0, len(members)-1).Draw(rt, l+"_idx")])
			}}
	case 15: // SET
		members := rapid.SampledFrom([][]string{{"a", "b", "c", "d"}, {"x", "", "y"}, {"one", "two"}}).Draw(rt, "members")
		st := types.MustCreateSetType(members, sql.Collation_utf8mb4_0900_bin)
		q := make([]string, len(members))
		for i, m := range members {
			q[i] = sqlString(m)
		}
		ddl := "SET(" + strings.Join(q, ",") + ")"
		genBits := func(rt *rapid.T, l string) uint64 {
			return uint64(rapid.IntRange(0, 1<<len(members)-1).Draw(rt, l+"_bits"))
		}
		toStr := func(bits uint64) string {
			var parts []string
			for i, m := range members {
				if bits&(1<<uint(i)) != 0 {
					parts = append(parts, m)
				}
			}
			return strings.Join(parts, ",")
		}
		return typeCase{family: "set", name: ddl, typ: st, ddl: ddl,
			close: func(a, b any) bool { return true },
			raw: func(rt *rapid.T, l string) any {
				bits := genBits(rt, l)
				switch rapid.IntRange(0, 2).Draw(rt, l+"_sk") {
				case 0:
					return toStr(bits)
				case 1:
					return int64(bits)
				}
				return bits
			},
			lit: func(rt *rapid.T, l string) string { return sqlString(toStr(genBits(rt, l))) }}
	case 16: // BIT(n)
		n := rapid.SampledFrom([]int{1, 7, 8, 9, 31, 32, 33, 63, 64}).Draw(rt, "bits")
		name := fmt.Sprintf("BIT(%d)", n)
		genB := func(rt *rapid.T, l string) uint64 {
			v := genUint64(rt, l)
			if n < 64 {
				v &= (1 << uint(n)) - 1
			}
			return v
		}
		return typeCase{family: "bit", name: name, typ: types.MustCreateBitType(uint8(n)), ddl: name, close: numClose,
			raw: func(rt *rapid.T, l string) any {
				v := genB(rt, l)
				switch rapid.IntRange(0, 2).Draw(rt, l+"_bk") {
				case 0:
					if v <= math.MaxInt64 {
						return int64(v)
					}
				case 1:
					if v <= math.MaxUint32 {
						return uint32(v)
					}
				}
				return v
			},
			lit: func(rt *rapid.T, l string) string { return fmt.Sprint(genB(rt, l)) }}
	case 17, 18: // JSON
		return typeCase{family: "json", name: "JSON", typ: types.JSON, ddl: "JSON", noConv: true,
			close: func(a, b any) bool { return true },
			raw:   func(rt *rapid.T, l string) any { return genJSONText(rt, 2, l) },
			lit:   func(rt *rapid.T, l string) string { return sqlString(genJSONText(rt, 2, l)) }}
	}
	// geometry: reflexivity and NULL ordering only (MySQL defines no order on geometries)
	return typeCase{family: "geometry", name: "POINT", typ: types.PointType{}, lawsOnly: "refl", noConv: true,
		close: func(a, b any) bool { return true },
		raw: func(rt *rapid.T, l string) any {
			return types.Point{X: float64(rapid.IntRange(-2, 2).Draw(rt, l+"_x")), Y: float64(rapid.IntRange(-2, 2).Draw(rt, l+"_y"))}
		}}
}

func genTimespanMicros(rt *rapid.T, label string) int64 {
	const maxUs = (838*3600 + 59*60 + 59) * 1000000
	switch rapid.IntRange(0, 3).Draw(rt, label+"_tsk") {
	case 0:
		return rapid.SampledFrom([]int64{0, 1, -1, maxUs, -maxUs, maxUs - 1, 1000000, 999999, -999999, 3600 * 1000000, 86400 * 1000000}).Draw(rt, label+"_edge")
	case 1:
		return int64(rapid.IntRange(-5, 5).Draw(rt, label+"_s"))*1000000 + int64(rapid.IntRange(-1, 1).Draw(rt, label+"_u"))
	}
	return rapid.Int64Range(-maxUs, maxUs).Draw(rt, label+"_any")
}
