package c26

import (
	"testing"

	"github.com/dolthub/go-mysql-server/sql/types"
	"github.com/dolthub/go-mysql-server/vh/internal/kf"
	"github.com/dolthub/go-mysql-server/vh/internal/stats"
)

// TestC26Known re-confirms the witness of the known finding on every run: listed => it must
// still violate transitivity in the recorded way (otherwise it is reported as stale, not as a
// failure); not listed (repaired) => the witness must satisfy the laws.
func TestC26Known(t *testing.T) {
	st := stats.New("C26", "known")
	defer st.Flush()
	ctx := newCtx()
	tc := typeCase{family: "json", name: "JSON", typ: types.JSON, noConv: true}
	var vals, raws []any
	for _, txt := range jsonWitness {
		v, ok := valueOf(ctx, tc, txt)
		if !ok {
			t.Fatalf("witness %s is not a JSON value", txt)
		}
		vals = append(vals, v)
		raws = append(raws, txt)
	}
	// all orders of the triple, as the main test would meet them
	perms := [][3]int{{0, 1, 2}, {0, 2, 1}, {1, 0, 2}, {1, 2, 0}, {2, 0, 1}, {2, 1, 0}}
	for _, p := range perms {
		st.Eval()
		pv := []any{vals[p[0]], vals[p[1]], vals[p[2]]}
		v := checkLaws(ctx, tc, pv)
		st.NonTrivial(map[string]any{"type": "JSON", "values": jsonWitness}, "witness", p[0], p[1], p[2])
		if v == nil {
			continue
		}
		id := lawSignature(tc, v.law, raws)
		if id == "" || !kf.Suppress(st, id) {
			t.Fatalf("C26 violated (%s) for type JSON (candidate finding %s, not listed as known)\n  %s\n  values: %s, %s, %s",
				v.law, kfJSONBigFloat, v.text, show(pv[0]), show(pv[1]), show(pv[2]))
		}
		st.Class("known " + id)
		return
	}
	if kf.Listed(kfJSONBigFloat) {
		t.Logf("witness of %s no longer reproduces (stale listing?)", kfJSONBigFloat)
		st.Class("witness no longer reproduces " + kfJSONBigFloat)
	}
}
