package c26

import (
	"fmt"
	"sort"
	"strings"
	"testing"

	"github.com/dolthub/go-mysql-server/vh/internal/fx"
	"github.com/dolthub/go-mysql-server/vh/internal/kf"
	"github.com/dolthub/go-mysql-server/vh/internal/stats"
	"pgregory.net/rapid"
)

// TestC26SQL re-checks the laws through SQL on a table holding generated values of one type:
//   - ORDER BY c [DESC]: NULLs first (last for DESC), and consecutive non-NULL values are in
//     order under Type.Compare of the column's type;
//   - the matrix of a.c < b.c, a.c = b.c, a.c > b.c over all row pairs: exactly one is TRUE for
//     non-NULL pairs (NULL if a side is NULL), '=' reflexive and symmetric, '<' the converse of
//     '>', '<=' transitive, and a.c <=> b.c TRUE exactly for equal values / two NULLs;
//   - for the types whose operators and ORDER BY use the same order in MySQL (everything but
//     ENUM, SET, which order by index but compare as strings): a.c < b.c implies that row a
//     precedes row b in ORDER BY c.
func TestC26SQL(t *testing.T) {
	st := stats.New("C26", "sql")
	defer st.Flush()
	rapid.Check(t, func(rt *rapid.T) {
		st.Eval()
		var tc typeCase
		for {
			tc = genTypeCase(rt)
			if tc.ddl != "" && tc.lit != nil {
				break
			}
		}
		st.Class("family " + tc.family)
		f := fx.New(fx.Opts{})
		defer f.Close()
		s := f.NewSession("", "", "")
		s.MustExec(rt.Fatalf, "CREATE TABLE t (id INT PRIMARY KEY, c "+tc.ddl+")")
		n := rapid.IntRange(2, 5).Draw(rt, "rows")
		var lits []string
		stored := 0
		for i := 0; i < n; i++ {
			l := fmt.Sprintf("r%d", i)
			lit := "NULL"
			switch {
			case rapid.IntRange(0, 6).Draw(rt, l+"_null") == 0:
			case i > 0 && rapid.IntRange(0, 4).Draw(rt, l+"_same") == 0:
				lit = lits[i-1]
			default:
				lit = tc.lit(rt, l)
			}
			lits = append(lits, lit)
			r := s.Exec(fmt.Sprintf("INSERT INTO t VALUES (%d, %s)", i, lit))
			if r.Panic != nil {
				rt.Fatalf("panic inserting %s into %s: %v\n%s", lit, tc.ddl, r.Panic, r.Stack)
			}
			if r.OK() {
				stored++
			} else {
				st.Class("insert rejected (not judged here)")
			}
		}
		if stored < 2 {
			return
		}
		if tc.family == "json" && kf.Listed(kfJSONBigFloat) {
			var texts []string
			for _, l := range lits {
				if l != "NULL" {
					texts = append(texts, sqlUnquote(l))
				}
			}
			if jsonBigFloatRegion(texts) {
				st.Excluded(kfJSONBigFloat)
				return
			}
		}
		desc := func() string {
			return fmt.Sprintf("CREATE TABLE t (id INT PRIMARY KEY, c %s); inserted (id, c): %s", tc.ddl, strings.Join(func() []string {
				var o []string
				for i, l := range lits {
					o = append(o, fmt.Sprintf("(%d, %s)", i, l))
				}
				return o
			}(), ", "))
		}
		ctx := newCtx()

		// ---- ORDER BY
		pos := map[string]int{}
		valOf := map[string]any{}
		for _, dir := range []string{"", " DESC"} {
			q := "SELECT id, c FROM t ORDER BY c" + dir + ", id"
			r := s.Exec(q)
			if !r.OK() {
				rt.Fatalf("%s\n  %s fails: %s\n%s", desc(), q, r, r.Stack)
			}
			if len(r.Rows) != stored {
				rt.Fatalf("%s\n  %s returns %d rows, %d were stored", desc(), q, len(r.Rows), stored)
			}
			ct := r.Schema[1].Type
			seenNonNull, seenNull := false, false
			for i, row := range r.Rows {
				if dir == "" {
					pos[fx.Norm(row[0], nil)] = i
					valOf[fx.Norm(row[0], nil)] = row[1]
				}
				if row[1] == nil {
					seenNull = true
					if dir == "" && seenNonNull {
						rt.Fatalf("%s\n  %s: NULL after a non-NULL value: %s", desc(), q, r)
					}
					continue
				}
				seenNonNull = true
				if dir != "" && seenNull {
					rt.Fatalf("%s\n  %s: non-NULL value after NULL: %s", desc(), q, r)
				}
				if i > 0 && r.Rows[i-1][1] != nil {
					c, err := compare(ctx, ct, r.Rows[i-1][1], row[1])
					if err != nil {
						rt.Fatalf("%s\n  Compare of stored values %s, %s fails: %v", desc(), show(r.Rows[i-1][1]), show(row[1]), err)
					}
					if want, ok := refOrder(tc, r.Rows[i-1][1], row[1]); ok && ((dir == "" && want > 0) || (dir != "" && want < 0)) {
						rt.Fatalf("%s\n  %s is not sorted in the order of the type: %s before %s\n  result: %s",
							desc(), q, show(r.Rows[i-1][1]), show(row[1]), r)
					}
					if (dir == "" && c > 0) || (dir != "" && c < 0) {
						rt.Fatalf("%s\n  %s is not sorted under %s.Compare: %s before %s (Compare = %d)\n  result: %s",
							desc(), q, ct, show(r.Rows[i-1][1]), show(row[1]), c, r)
					}
				}
			}
		}

		// ---- comparison operators over all pairs
		q := "SELECT a.id, b.id, a.c < b.c, a.c = b.c, a.c > b.c, a.c <=> b.c, a.c IS NULL, b.c IS NULL FROM t a, t b ORDER BY 1, 2"
		r := s.Exec(q)
		if !r.OK() {
			rt.Fatalf("%s\n  %s fails: %s\n%s", desc(), q, r, r.Stack)
		}
		type pair struct{ a, b string }
		lt, eq, gt := map[pair]bool{}, map[pair]bool{}, map[pair]bool{}
		ids := map[string]bool{}
		for _, row := range fx.NormRows(r.Schema, r.Rows) {
			p := pair{row[0], row[1]}
			aNull, bNull := row[6] == "n:1", row[7] == "n:1"
			bit := func(s string) (bool, bool) { return s == "n:1", s == "n:1" || s == "n:0" }
			l, lok := bit(row[2])
			e, eok := bit(row[3])
			g, gok := bit(row[4])
			ns, nsok := bit(row[5])
			if !nsok {
				rt.Fatalf("%s\n  rows %s: a.c <=> b.c is %s, must be 0 or 1", desc(), p, row[5])
			}
			if aNull || bNull {
				if row[2] != "N" || row[3] != "N" || row[4] != "N" {
					rt.Fatalf("%s\n  rows %s with a NULL side: <, =, > give %s, %s, %s; all must be NULL", desc(), p, row[2], row[3], row[4])
				}
				if ns != (aNull && bNull) {
					rt.Fatalf("%s\n  rows %s: <=> is %v for NULL sides (%v, %v)", desc(), p, ns, aNull, bNull)
				}
				continue
			}
			if !lok || !eok || !gok {
				rt.Fatalf("%s\n  rows %s, both non-NULL: <, =, > give %s, %s, %s", desc(), p, row[2], row[3], row[4])
			}
			cnt := 0
			for _, x := range []bool{l, e, g} {
				if x {
					cnt++
				}
			}
			if cnt != 1 {
				rt.Fatalf("%s\n  rows %s: a.c < b.c = %v, a.c = b.c = %v, a.c > b.c = %v; exactly one must be TRUE", desc(), p, l, e, g)
			}
			if ns != e {
				rt.Fatalf("%s\n  rows %s: a.c <=> b.c = %v but a.c = b.c = %v", desc(), p, ns, e)
			}
			lt[p], eq[p], gt[p] = l, e, g
			ids[row[0]] = true
		}
		var idList []string
		for a := range ids {
			idList = append(idList, a)
		}
		sort.Strings(idList) // deterministic order of checks and messages
		for _, a := range idList {
			if !eq[pair{a, a}] {
				rt.Fatalf("%s\n  row %s: c = c is not TRUE", desc(), a)
			}
			for _, b := range idList {
				if lt[pair{a, b}] != gt[pair{b, a}] || eq[pair{a, b}] != eq[pair{b, a}] {
					rt.Fatalf("%s\n  rows %s, %s: a<b = %v but b>a = %v; a=b = %v but b=a = %v", desc(), a, b,
						lt[pair{a, b}], gt[pair{b, a}], eq[pair{a, b}], eq[pair{b, a}])
				}
				for _, c := range idList {
					le := func(x, y string) bool { return lt[pair{x, y}] || eq[pair{x, y}] }
					if le(a, b) && le(b, c) && !le(a, c) {
						rt.Fatalf("%s\n  rows %s <= %s and %s <= %s but not %s <= %s", desc(), a, b, b, c, a, c)
					}
				}
				if want, ok := refOrder(tc, valOf[a], valOf[b]); ok && tc.family != "enum" && tc.family != "set" {
					if lt[pair{a, b}] != (want < 0) || eq[pair{a, b}] != (want == 0) {
						rt.Fatalf("%s\n  rows %s, %s hold %s, %s: a.c < b.c = %v, a.c = b.c = %v, the order of the type gives %d", desc(), a, b,
							show(valOf[a]), show(valOf[b]), lt[pair{a, b}], eq[pair{a, b}], want)
					}
				}
				if tc.family != "enum" && tc.family != "set" && lt[pair{a, b}] && pos[a] > pos[b] {
					rt.Fatalf("%s\n  row %s < row %s by the operator, but ORDER BY c places %s first", desc(), a, b, b)
				}
			}
		}
		if len(ids) >= 2 {
			distinct := false
			for _, a := range idList {
				for _, b := range idList {
					if lt[pair{a, b}] {
						distinct = true
					}
				}
			}
			if distinct {
				st.NonTrivial(map[string]any{"type": tc.ddl, "values": lits}, tc.ddl, strings.Join(lits, "|"))
			}
		}
	})
}

// sqlUnquote undoes sqlString for the JSON literals of this package.
func sqlUnquote(l string) string {
	l = strings.TrimSuffix(strings.TrimPrefix(l, "'"), "'")
	return strings.NewReplacer("\\\\", "\\", "''", "'", "\\0", "\x00", "\\t", "\t").Replace(l)
}
