package c28

import (
	"context"
	dsql "database/sql"
	"fmt"
	"io"
	"log"
	"net"
	"strings"
	"testing"
	"time"

	sqle "github.com/dolthub/go-mysql-server"
	"github.com/dolthub/go-mysql-server/memory"
	"github.com/dolthub/go-mysql-server/server"
	"github.com/dolthub/go-mysql-server/sql"
	"github.com/dolthub/go-mysql-server/sql/analyzer"
	"github.com/dolthub/go-mysql-server/vh/internal/kf"
	"github.com/dolthub/go-mysql-server/vh/internal/stats"
	vmysql "github.com/dolthub/vitess/go/mysql"
	gomysql "github.com/go-sql-driver/mysql"
	"github.com/sirupsen/logrus"
	"pgregory.net/rapid"
)

// wireFixture is one server on a loopback port with its provider, plus three clients:
// go-sql-driver (text and binary protocol) and the vitess client (field metadata).
type wireFixture struct {
	db     *memory.Database
	pro    *memory.DbProvider
	engine *sqle.Engine
	srv    *server.Server
	done   chan error
	sqlDB  *dsql.DB
	vconn  *vmysql.Conn
	sess   *memory.Session
	nextID int
}

func newWireFixture(t *testing.T) *wireFixture {
	w := &wireFixture{}
	logrus.SetOutput(io.Discard)
	_ = gomysql.SetLogger(log.New(io.Discard, "", 0))
	w.db = memory.NewDatabase("d")
	w.pro = memory.NewDBProvider(w.db)
	w.engine = sqle.New(analyzer.NewDefault(w.pro), &sqle.Config{})
	l, err := net.Listen("tcp", "127.0.0.1:0")
	if err != nil {
		t.Fatalf("listen: %v", err)
	}
	port := l.Addr().(*net.TCPAddr).Port
	w.srv, err = server.NewServer(server.Config{Protocol: "tcp", Address: l.Addr().String(), Listener: l}, w.engine, sql.NewContext, memory.NewSessionBuilder(w.pro), nil)
	if err != nil {
		t.Fatalf("NewServer: %v", err)
	}
	w.done = make(chan error, 1)
	go func() { w.done <- w.srv.Start() }()
	dsn := fmt.Sprintf("root@tcp(127.0.0.1:%d)/d?interpolateParams=false", port)
	w.sqlDB, err = dsql.Open("mysql", dsn)
	if err != nil {
		t.Fatalf("open: %v", err)
	}
	w.sqlDB.SetMaxOpenConns(1)
	deadline := time.Now().Add(20 * time.Second)
	for {
		if err = w.sqlDB.Ping(); err == nil {
			break
		}
		if time.Now().After(deadline) {
			t.Fatalf("server does not accept connections: %v", err)
		}
		time.Sleep(20 * time.Millisecond)
	}
	w.vconn, err = vmysql.Connect(context.Background(), &vmysql.ConnParams{Host: "127.0.0.1", Port: port, Uname: "root", DbName: "d"})
	if err != nil {
		t.Fatalf("vitess client: %v", err)
	}
	w.sess = memory.NewSession(sql.NewBaseSession(), w.pro)
	w.sess.SetCurrentDatabase("d")
	return w
}

func (w *wireFixture) close() {
	w.vconn.Close()
	w.sqlDB.Close()
	w.srv.Close()
	select {
	case <-w.done:
	case <-time.After(20 * time.Second):
	}
}

func (w *wireFixture) ctx() *sql.Context {
	return sql.NewContext(context.Background(), sql.WithSession(w.sess))
}

// exec runs a statement in process (set-up only).
func (w *wireFixture) exec(q string) error {
	ctx := w.ctx()
	_, iter, _, err := w.engine.Query(ctx, q)
	if err != nil {
		return err
	}
	for {
		if _, err := iter.Next(ctx); err != nil {
			break
		}
	}
	return iter.Close(ctx)
}

func TestC28Wire(t *testing.T) {
	st := stats.New("C28", "wire")
	defer st.Flush()
	pool := loadTypes(t.Fatalf)
	w := newWireFixture(t)
	defer w.close()
	apiCtx := sql.NewContext(context.Background())

	rapid.Check(t, func(rt *rapid.T) {
		st.Eval()
		spec := rapid.IntRange(0, len(pool)-1).Draw(rt, "type")
		c := pool[spec]
		raws := rapid.SliceOfN(c.gen, 1, 6).Draw(rt, "values")
		w.nextID++
		name := fmt.Sprintf("w%d", w.nextID)
		if err := w.exec(fmt.Sprintf("CREATE TABLE %s (id INT PRIMARY KEY, c %s)", name, c.ddl)); err != nil {
			rt.Fatalf("create table with %s: %v", c.ddl, err)
		}
		defer w.exec("DROP TABLE " + name)
		ctx := w.ctx()
		tbl, ok, err := w.db.GetTableInsensitive(ctx, name)
		if err != nil || !ok {
			rt.Fatalf("table %s: %v", name, err)
		}
		mt, ok := tbl.(*memory.Table)
		if !ok {
			rt.Fatalf("table %s is a %T", name, tbl)
		}
		// the column type of *this* table (equal to the pool's type; taken from the table so
		// that ENUM/SET values are resolved against it)
		col := colType{ddl: c.ddl, typ: tbl.Schema(ctx)[1].Type, kind: c.kind, gen: c.gen}
		var stored []any
		for _, raw := range raws {
			v, ok := storable(ctx, col, raw)
			if !ok {
				st.Class("not-storable:" + c.kind)
				continue
			}
			if err := mt.Insert(ctx, sql.NewRow(int32(len(stored)), v)); err != nil {
				rt.Fatalf("%s: insert %s through the table API: %v", c.ddl, show(v), err)
			}
			stored = append(stored, v)
		}
		if len(stored) == 0 {
			return
		}
		st.Class("kind:" + c.kind)
		query := fmt.Sprintf("SELECT c FROM %s ORDER BY id", name)

		checkText := func(proto string, i int, text []byte, announced int64) {
			v := stored[i]
			if announced >= 0 && int64(len(text)) > announced {
				if !(lengthKnown(col, v, text) && kf.Suppress(st, lengthFinding(col, text))) {
					rt.Fatalf("%s over %s: text %q of stored %s has %d bytes, the field packet announces column length %d", c.ddl, proto, text, show(v), len(text), announced)
				}
			}
			if id := roundTripFinding(col, v, text); id != "" && kf.Suppress(st, id) {
				return
			}
			if sv, err := col.typ.SQL(apiCtx, nil, v); err == nil {
				if id := wireFinding(col, proto, sv.Raw(), text); id != "" && kf.Suppress(st, id) {
					return
				}
			}
			v2, err := col.back(apiCtx, text)
			if err != nil {
				rt.Fatalf("%s over %s: received %q for stored %s; it does not convert back: %v", c.ddl, proto, text, show(v), err)
			}
			if same, err := col.same(apiCtx, v, v2); !same {
				rt.Fatalf("%s over %s: stored %s, received %q, converted back %s (compare error: %v)", c.ddl, proto, show(v), text, show(v2), err)
			}
			if nonTrivial(text) {
				st.NonTrivial(map[string]any{"type": c.ddl, "protocol": proto, "text": fmt.Sprintf("%.60q", text)}, c.ddl, proto, string(text))
			}
		}

		// (1) vitess client, text protocol, with the field packet
		res, err := w.vconn.ExecuteFetch(query, 1000, true)
		if err != nil {
			if id := queryFinding(col, stored, err); id != "" && kf.Suppress(st, id) {
				return
			}
			rt.Fatalf("%s: %s over the text protocol (vitess client) fails: %v; stored %s", c.ddl, query, err, showAll(stored))
		}
		if len(res.Rows) != len(stored) || len(res.Fields) != 1 {
			rt.Fatalf("%s: %d rows / %d fields for %d stored values", c.ddl, len(res.Rows), len(res.Fields), len(stored))
		}
		announced := int64(res.Fields[0].ColumnLength)
		for i, row := range res.Rows {
			if row[0].IsNull() {
				rt.Fatalf("%s: stored %s, received NULL", c.ddl, show(stored[i]))
			}
			checkText("text/vitess", i, row[0].Raw(), announced)
		}

		// (2) go-sql-driver, text protocol (COM_QUERY); rows are read completely and the
		// cursor closed before anything is checked, so a failing case cannot leak the connection
		texts, _, err := fetch(w.sqlDB, query)
		if err != nil {
			rt.Fatalf("%s: %s over the text protocol fails: %v; stored %s", c.ddl, query, err, showAll(stored))
		}
		if len(texts) != len(stored) {
			rt.Fatalf("%s: text protocol delivered %d of %d rows", c.ddl, len(texts), len(stored))
		}
		for i, tx := range texts {
			if tx == nil {
				rt.Fatalf("%s: stored %s, received NULL", c.ddl, show(stored[i]))
			}
			checkText("text/go-sql-driver", i, tx, -1)
		}

		// (3) go-sql-driver, binary protocol (prepared statement with an argument)
		_, typed, err := fetch(w.sqlDB, fmt.Sprintf("SELECT c FROM %s WHERE id >= ? ORDER BY id", name), 0)
		if err != nil {
			if id := queryFinding(col, stored, err); id != "" && kf.Suppress(st, id) {
				return
			}
			rt.Fatalf("%s: prepared SELECT fails: %v; stored %s", c.ddl, err, showAll(stored))
		}
		if len(typed) != len(stored) {
			rt.Fatalf("%s: binary protocol delivered %d of %d rows; stored %s", c.ddl, len(typed), len(stored), showAll(stored))
		}
		for i, got := range typed {
			v := stored[i]
			switch x := got.(type) {
			case nil:
				rt.Fatalf("%s over the binary protocol: stored %s, received NULL", c.ddl, show(v))
			case []byte:
				checkText("binary/go-sql-driver", i, x, -1)
			default:
				// a typed value (integer, float): convert it with the column type
				v2, _, err := col.typ.Convert(apiCtx, x)
				if err != nil {
					rt.Fatalf("%s over the binary protocol: stored %s, received %s; it does not convert back: %v", c.ddl, show(v), show(x), err)
				}
				if same, err := col.same(apiCtx, v, v2); !same {
					rt.Fatalf("%s over the binary protocol: stored %s, received %s, converted back %s (compare error: %v)", c.ddl, show(v), show(x), show(v2), err)
				}
				if t := fmt.Sprint(x); nonTrivial([]byte(t)) {
					st.NonTrivial(nil, c.ddl, "binary-typed", t)
				}
			}
		}
	})
}

// fetch runs a one-column query and returns every value both as raw text (args == nil:
// text protocol) and as the driver's typed value (with args: binary protocol). The cursor
// is closed before it returns.
func fetch(db *dsql.DB, q string, args ...any) (texts [][]byte, typed []any, err error) {
	ctx, cancel := context.WithTimeout(context.Background(), 30*time.Second)
	defer cancel()
	rows, err := db.QueryContext(ctx, q, args...)
	if err != nil {
		return nil, nil, err
	}
	defer rows.Close()
	for rows.Next() {
		if len(args) == 0 {
			var rb dsql.RawBytes
			if err := rows.Scan(&rb); err != nil {
				return nil, nil, err
			}
			if rb == nil {
				texts = append(texts, nil)
			} else {
				texts = append(texts, append([]byte{}, rb...))
			}
		} else {
			var got any
			if err := rows.Scan(&got); err != nil {
				return nil, nil, err
			}
			if b, ok := got.([]byte); ok {
				got = append([]byte{}, b...)
			}
			typed = append(typed, got)
		}
	}
	return texts, typed, rows.Err()
}

func showAll(vs []any) string {
	parts := make([]string, len(vs))
	for i, v := range vs {
		parts[i] = show(v)
	}
	return "[" + strings.Join(parts, ", ") + "]"
}
