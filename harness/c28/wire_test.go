package c28

import (
	"context"
	dsql "database/sql"
	"errors"
	"fmt"
	"runtime"
	"strings"
	"testing"
	"time"

	sqle "github.com/dolthub/go-mysql-server"
	"github.com/dolthub/go-mysql-server/memory"
	"github.com/dolthub/go-mysql-server/sql"
	"github.com/dolthub/go-mysql-server/sql/analyzer"
	"github.com/dolthub/go-mysql-server/vh/internal/kf"
	"github.com/dolthub/go-mysql-server/vh/internal/srvfx"
	"github.com/dolthub/go-mysql-server/vh/internal/stats"
	vmysql "github.com/dolthub/vitess/go/mysql"
	"github.com/dolthub/vitess/go/sqltypes"
	"pgregory.net/rapid"
)

// wireFixture is one server on a loopback port (srvfx: server.NewServer on 127.0.0.1:0) with
// its provider, plus three clients: go-sql-driver (text and binary protocol) and the vitess
// client (field metadata).
type wireFixture struct {
	db     *memory.Database
	pro    *memory.DbProvider
	engine *sqle.Engine
	srv    *srvfx.Server
	sqlDB  *dsql.DB
	vconn  *vmysql.Conn
	sess   *memory.Session
	nextID int
	base   int // goroutines before the fixture was started
}

// clientTimeout is a liveness guard for one client call (never an oracle): a call that does
// not return in time makes the run inconclusive.
const clientTimeout = 180 * time.Second

func newWireFixture() *wireFixture {
	w := &wireFixture{base: runtime.NumGoroutine()}
	w.db = memory.NewDatabase("d")
	w.pro = memory.NewDBProvider(w.db)
	w.engine = sqle.New(analyzer.NewDefault(w.pro), &sqle.Config{})
	var err error
	w.srv, err = srvfx.Start(w.engine, w.pro, srvfx.Opts{TeardownTimeout: 60 * time.Second})
	if err != nil {
		srvfx.Inconclusive(fmt.Errorf("start server: %w", err))
	}
	w.sqlDB, err = w.srv.Open("d", map[string]string{"interpolateParams": "false"})
	if err != nil {
		srvfx.Inconclusive(fmt.Errorf("open client: %w", err))
	}
	// one connection, kept between the cases
	w.sqlDB.SetMaxOpenConns(1)
	w.sqlDB.SetMaxIdleConns(1)
	ctx, cancel := context.WithTimeout(context.Background(), clientTimeout)
	defer cancel()
	if err = w.sqlDB.PingContext(ctx); err != nil {
		srvfx.Inconclusive(fmt.Errorf("server does not accept connections: %w", err))
	}
	w.vconn, err = vmysql.Connect(ctx, &vmysql.ConnParams{Host: w.srv.Host, Port: w.srv.Port, Uname: "root", DbName: "d"})
	if err != nil {
		srvfx.Inconclusive(fmt.Errorf("vitess client: %w", err))
	}
	w.sess = memory.NewSession(sql.NewBaseSession(), w.pro)
	w.sess.SetCurrentDatabase("d")
	return w
}

// close tears the fixture down and makes sure that nothing of it stays behind: the clients
// are closed, the listener is closed, the accept loop and every connection handler have
// returned (srvfx.Close awaits SessionManager.WaitForClosedConnections), the port no longer
// accepts connections and the number of goroutines is back to what it was before the
// fixture was started. A teardown that does not get there is a liveness problem of the
// harness (inconclusive), never a verdict about the property.
func (w *wireFixture) close() {
	w.vconn.Close()
	if err := w.srv.Close(); err != nil {
		srvfx.Inconclusive(err)
	}
	// The listener's accept goroutine (server/listener.go NewListener) only returns once the
	// socket is closed, so the goroutine count below also proves that the listener is gone.
	// (Not probed by dialling the port: another process may have been given it meanwhile.)
	deadline := time.Now().Add(30 * time.Second)
	for runtime.NumGoroutine() > w.base {
		if time.Now().After(deadline) {
			buf := make([]byte, 1<<16)
			buf = buf[:runtime.Stack(buf, true)]
			srvfx.Inconclusive(fmt.Errorf("%d goroutines before the server fixture, %d after its teardown:\n%s", w.base, runtime.NumGoroutine(), buf))
		}
		time.Sleep(10 * time.Millisecond)
	}
}

func (w *wireFixture) ctx() *sql.Context {
	return sql.NewContext(context.Background(), sql.WithSession(w.sess))
}

// exec runs a statement in process (set-up only).
func (w *wireFixture) exec(q string) error {
	ctx := w.ctx()
	_, iter, _, err := w.engine.Query(ctx, q)
	if err != nil {
		return err
	}
	for {
		if _, err := iter.Next(ctx); err != nil {
			break
		}
	}
	return iter.Close(ctx)
}

// table is one freshly created table of the wire fixture with the values stored in it.
type table struct {
	name   string
	col    colType
	stored []any
}

// store creates a table with one column of type c (DDL in process) and stores the storable
// ones of the raw inputs through the table API, so that the stored Go value is known
// exactly. fail reports a harness problem; skipped is called for every input that is not
// storable. The caller drops the table.
func (w *wireFixture) store(c colType, notNull bool, raws []any, fail func(string, ...any), skipped func()) *table {
	w.nextID++
	name := fmt.Sprintf("w%d", w.nextID)
	ddl := c.ddl
	if notNull {
		// changes the flags of the field packet (NOT_NULL_FLAG next to UNSIGNED_FLAG etc.; vitess
		// derives default flags from the type only when the handler sends none at all)
		ddl += " NOT NULL"
	}
	if err := w.exec(fmt.Sprintf("CREATE TABLE %s (id INT PRIMARY KEY, c %s)", name, ddl)); err != nil {
		fail("create table with %s: %v", c.ddl, err)
	}
	ctx := w.ctx()
	tbl, ok, err := w.db.GetTableInsensitive(ctx, name)
	if err != nil || !ok {
		fail("table %s: %v", name, err)
	}
	mt, ok := tbl.(*memory.Table)
	if !ok {
		fail("table %s is a %T", name, tbl)
	}
	// the column type of *this* table (equal to the pool's type; taken from the table so
	// that ENUM/SET values are resolved against it)
	tb := &table{name: name, col: colType{ddl: c.ddl, typ: tbl.Schema(ctx)[1].Type, kind: c.kind, gen: c.gen}}
	for _, raw := range raws {
		v, ok := storable(ctx, tb.col, raw)
		if !ok {
			skipped()
			continue
		}
		if err := mt.Insert(ctx, sql.NewRow(int32(len(tb.stored)), v)); err != nil {
			fail("%s: insert %s through the table API: %v", c.ddl, show(v), err)
		}
		tb.stored = append(tb.stored, v)
	}
	return tb
}

func (w *wireFixture) drop(tb *table) { _ = w.exec("DROP TABLE " + tb.name) }

// viol is one deviation from the property; id is the known finding whose signature it
// matches ("" = none).
type viol struct {
	id  string
	msg string
}

// seen is one received value that converted back to the stored one.
type seen struct {
	proto string
	text  string
}

// readBack reads the table over the three routes and returns every deviation from the
// property (the first one per received value; a failing query ends its route).
func (w *wireFixture) readBack(apiCtx *sql.Context, tb *table) (vs []viol, good []seen) {
	col, stored := tb.col, tb.stored
	query := fmt.Sprintf("SELECT c FROM %s ORDER BY id", tb.name)
	add := func(id, format string, args ...any) { vs = append(vs, viol{id, fmt.Sprintf(format, args...)}) }

	checkText := func(proto string, i int, text []byte, announced int64) {
		v := stored[i]
		if announced >= 0 && int64(len(text)) > announced {
			add(lengthFinding(col, text), "%s over %s: text %q of stored %s has %d bytes, the field packet announces column length %d", col.ddl, proto, text, show(v), len(text), announced)
		}
		// which finding explains a wrong value: a known text form of the API, or what a known
		// finding makes a client receive over this protocol
		id := roundTripFinding(col, v, text)
		if id == "" {
			if sv, err := col.typ.SQL(apiCtx, nil, v); err == nil {
				id = wireFinding(col, proto, sv.Raw(), text)
			}
		}
		v2, err := col.back(apiCtx, text)
		if err != nil {
			add(id, "%s over %s: received %q for stored %s; it does not convert back: %v", col.ddl, proto, text, show(v), err)
			return
		}
		if same, err := col.same(apiCtx, v, v2); !same {
			add(id, "%s over %s: stored %s, received %q, converted back %s (compare error: %v)", col.ddl, proto, show(v), text, show(v2), err)
			return
		}
		good = append(good, seen{proto, string(text)})
	}

	// (1) vitess client, text protocol, with the field packet
	res, err := w.vitessFetch(query)
	switch {
	case err != nil:
		add(queryFinding(col, stored, err), "%s: %s over the text protocol (vitess client) fails: %v; stored %s", col.ddl, query, err, showAll(stored))
	case len(res.Rows) != len(stored) || len(res.Fields) != 1:
		add("", "%s: %d rows / %d fields for %d stored values", col.ddl, len(res.Rows), len(res.Fields), len(stored))
	default:
		announced := int64(res.Fields[0].ColumnLength)
		for i, row := range res.Rows {
			if row[0].IsNull() {
				add("", "%s: stored %s, received NULL", col.ddl, show(stored[i]))
				continue
			}
			checkText("text/vitess", i, row[0].Raw(), announced)
		}
	}

	// what go-sql-driver hands over: bytes (the text form, or the driver's formatting of a
	// binary temporal value), or a Go number for numeric columns (the driver parses the text
	// of integer, YEAR and floating columns itself; re-printing such a number would judge
	// the client's formatting, not the server's: YEAR '0000' arrives as int64(0))
	checkDriver := func(proto string, i int, got any) {
		v := stored[i]
		switch x := got.(type) {
		case nil:
			add("", "%s over %s: stored %s, received NULL", col.ddl, proto, show(v))
		case []byte:
			checkText(proto, i, x, -1)
		default:
			// (a number outside the column type's range cannot denote a stored value; Convert
			// would wrap it, e.g. a BIGINT UNSIGNED above 2^63 delivered as a negative int64)
			v2, inRange, err := col.typ.Convert(apiCtx, x)
			if err != nil || inRange != sql.InRange {
				add("", "%s over %s: stored %s, received %s; it does not convert back into the column type (in range: %v, error: %v)", col.ddl, proto, show(v), show(x), inRange == sql.InRange, err)
				return
			}
			if same, err := col.same(apiCtx, v, v2); !same {
				add("", "%s over %s: stored %s, received %s, converted back %s (compare error: %v)", col.ddl, proto, show(v), show(x), show(v2), err)
				return
			}
			good = append(good, seen{proto + "-typed", fmt.Sprint(x)})
		}
	}

	// (2) go-sql-driver, text protocol (COM_QUERY); rows are read completely and the
	// cursor closed before anything is checked, so a failing case cannot leak the connection
	got, err := fetch(w.sqlDB, query)
	switch {
	case err != nil:
		add(queryFinding(col, stored, err), "%s: %s over the text protocol fails: %v; stored %s", col.ddl, query, err, showAll(stored))
	case len(got) != len(stored):
		add("", "%s: text protocol delivered %d of %d rows", col.ddl, len(got), len(stored))
	default:
		for i, x := range got {
			checkDriver("text/go-sql-driver", i, x)
		}
	}

	// (3) go-sql-driver, binary protocol (prepared statement with an argument)
	got, err = fetch(w.sqlDB, fmt.Sprintf("SELECT c FROM %s WHERE id >= ? ORDER BY id", tb.name), 0)
	switch {
	case err != nil:
		add(queryFinding(col, stored, err), "%s: prepared SELECT fails: %v; stored %s", col.ddl, err, showAll(stored))
	case len(got) != len(stored):
		add("", "%s: binary protocol delivered %d of %d rows; stored %s", col.ddl, len(got), len(stored), showAll(stored))
	default:
		for i, x := range got {
			checkDriver("binary/go-sql-driver", i, x)
		}
	}
	return vs, good
}

func TestC28Wire(t *testing.T) {
	st := stats.New("C28", "wire")
	defer st.Flush()
	pool := loadTypes(t.Fatalf)
	w := newWireFixture()
	defer w.close()
	apiCtx := sql.NewContext(context.Background())

	rapid.Check(t, func(rt *rapid.T) {
		st.Eval()
		c := pool[rapid.IntRange(0, len(pool)-1).Draw(rt, "type")]
		raws := rapid.SliceOfN(c.gen, 1, 6).Draw(rt, "values")
		notNull := rapid.Bool().Draw(rt, "notNull")
		tb := w.store(c, notNull, raws, rt.Fatalf, func() { st.Class("not-storable:" + c.kind) })
		defer w.drop(tb)
		if len(tb.stored) == 0 {
			return
		}
		st.Class("kind:" + c.kind)
		vs, good := w.readBack(apiCtx, tb)
		for _, v := range vs {
			if v.id != "" && kf.Suppress(st, v.id) {
				continue
			}
			rt.Fatalf("%s", v.msg)
		}
		for _, g := range good {
			if nonTrivial([]byte(g.text)) {
				st.NonTrivial(map[string]any{"type": c.ddl, "protocol": g.proto, "text": fmt.Sprintf("%.60q", g.text)}, c.ddl, g.proto, g.text)
			}
		}
	})
}

// vitessFetch runs a query with the vitess client under the liveness guard.
func (w *wireFixture) vitessFetch(q string) (res *sqltypes.Result, err error) {
	done := make(chan struct{})
	go func() {
		defer close(done)
		res, err = w.vconn.ExecuteFetch(q, 1000, true)
	}()
	select {
	case <-done:
	case <-time.After(clientTimeout):
		srvfx.Inconclusive(fmt.Errorf("vitess client call exceeded the liveness guard of %v: %s", clientTimeout, q))
	}
	return res, err
}

// fetch runs a one-column query with go-sql-driver (args == nil: text protocol; with args:
// prepared statement, binary protocol) and returns the values as the driver delivers them
// (bytes are copied). The cursor is closed before it returns.
func fetch(db *dsql.DB, q string, args ...any) (vals []any, err error) {
	ctx, cancel := context.WithTimeout(context.Background(), clientTimeout)
	defer cancel()
	defer func() {
		if ctx.Err() != nil || errors.Is(err, context.DeadlineExceeded) {
			srvfx.Inconclusive(fmt.Errorf("client call exceeded the liveness guard of %v: %s", clientTimeout, q))
		}
	}()
	rows, err := db.QueryContext(ctx, q, args...)
	if err != nil {
		return nil, err
	}
	defer rows.Close()
	for rows.Next() {
		var got any
		if err := rows.Scan(&got); err != nil {
			return nil, err
		}
		if b, ok := got.([]byte); ok {
			got = append([]byte{}, b...)
		}
		vals = append(vals, got)
	}
	return vals, rows.Err()
}

func showAll(vs []any) string {
	parts := make([]string, len(vs))
	for i, v := range vs {
		parts[i] = show(v)
	}
	return "[" + strings.Join(parts, ", ") + "]"
}
