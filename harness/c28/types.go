// Package c28 checks property C28: the representation a client receives for a stored value
// (text protocol and binary prepared-statement protocol) denotes that value — converting
// it back into the column type yields an equal value — and the text form never exceeds the
// length the engine announces for the column.
//
//	TestC28      API level: v -> Type.SQL -> text -> Type.Convert -> v', Type.Compare(v, v') = 0,
//	             len(text) <= Type.MaxTextResponseByteLength.
//	TestC28Wire  a real server (server.NewServer on 127.0.0.1:0), values stored through the
//	             table API, read back with go-sql-driver/mysql over the text protocol and the
//	             binary (prepared statement) protocol and with the vitess client (for the
//	             announced ColumnLength of the field packet).
package c28

import (
	"context"
	"fmt"
	"math"
	"math/big"
	"regexp"
	"strings"
	"time"
	"unicode/utf8"

	"github.com/dolthub/go-mysql-server/sql"
	"github.com/dolthub/go-mysql-server/vh/internal/fx"
	"pgregory.net/rapid"
)

// colType is one column type of the pool: its DDL text, the sql.Type the engine builds for
// it (taken from a table created through SQL) and a generator of raw inputs for Convert.
type colType struct {
	ddl  string
	typ  sql.Type
	kind string
	gen  *rapid.Generator[any]
}

func intGen(lo, hi int64) *rapid.Generator[any] {
	return rapid.Custom(func(rt *rapid.T) any {
		switch rapid.IntRange(0, 3).Draw(rt, "k") {
		case 0:
			return rapid.SampledFrom([]int64{lo, hi, lo + 1, hi - 1, 0, -1, 1, 9, 10, -10, 99, 100}).Draw(rt, "b")
		case 1:
			return rapid.Int64Range(-130, 130).Draw(rt, "s")
		default:
			return rapid.Int64Range(lo, hi).Draw(rt, "v")
		}
	})
}

func uintGen(hi uint64) *rapid.Generator[any] {
	return rapid.Custom(func(rt *rapid.T) any {
		switch rapid.IntRange(0, 3).Draw(rt, "k") {
		case 0:
			return rapid.SampledFrom([]uint64{0, 1, hi, hi - 1, hi/2 + 1, hi / 2, 9, 10, 255, 256}).Draw(rt, "b")
		default:
			return rapid.Uint64Range(0, hi).Draw(rt, "v")
		}
	})
}

func floatGen(bits int) *rapid.Generator[any] {
	return rapid.Custom(func(rt *rapid.T) any {
		var f float64
		switch rapid.IntRange(0, 5).Draw(rt, "k") {
		case 0:
			f = rapid.SampledFrom([]float64{0, math.Copysign(0, -1), 1, -1, 0.1, -0.1, 1e308, -1e308, math.MaxFloat64, 5e-324, -5e-324,
				2.2250738585072014e-308, math.MaxFloat32, -math.MaxFloat32, 1e-45, 1.17549435e-38, 1e15, 1e16, 1e17, 123456789012345678, 1e21, 1e22,
				0.000001, 0.0000001, 1.5, 2.5, 1e-7, 9007199254740993, 16777217, 3.4028235e38, 0.3, 1.0 / 3}).Draw(rt, "b")
		case 1:
			f = float64(rapid.Int64Range(-1000000, 1000000).Draw(rt, "i")) / math.Pow10(rapid.IntRange(0, 9).Draw(rt, "s"))
		case 2:
			f = float64(rapid.Float32().Draw(rt, "f32"))
		default:
			f = rapid.Float64().Draw(rt, "f64")
		}
		if math.IsNaN(f) || math.IsInf(f, 0) {
			f = 0
		}
		if bits == 32 {
			if math.Abs(f) > math.MaxFloat32 {
				f = math.Copysign(math.MaxFloat32, f)
			}
			return float32(f)
		}
		return f
	})
}

func decimalGen(prec, scale int) *rapid.Generator[any] {
	return rapid.Custom(func(rt *rapid.T) any {
		intDigits := rapid.IntRange(0, prec-scale).Draw(rt, "id")
		fracDigits := rapid.IntRange(0, scale).Draw(rt, "fd")
		digs := func(n int, label string) string {
			var sb strings.Builder
			mode := rapid.IntRange(0, 3).Draw(rt, label+"m")
			for i := 0; i < n; i++ {
				switch mode {
				case 0:
					sb.WriteByte('9')
				case 1:
					sb.WriteByte('0')
				default:
					sb.WriteByte(byte('0' + rapid.IntRange(0, 9).Draw(rt, label)))
				}
			}
			return sb.String()
		}
		s := digs(intDigits, "i")
		if s == "" {
			s = "0"
		}
		if fracDigits > 0 {
			s += "." + digs(fracDigits, "f")
		}
		if rapid.Bool().Draw(rt, "neg") {
			s = "-" + s
		}
		return s
	})
}

func timeGen() *rapid.Generator[any] {
	return rapid.Custom(func(rt *rapid.T) any {
		var t time.Time
		switch rapid.IntRange(0, 3).Draw(rt, "k") {
		case 0:
			t = rapid.SampledFrom([]time.Time{
				time.Date(1000, 1, 1, 0, 0, 0, 0, time.UTC), time.Date(9999, 12, 31, 23, 59, 59, 999999000, time.UTC),
				time.Date(1970, 1, 1, 0, 0, 1, 0, time.UTC), time.Date(2038, 1, 19, 3, 14, 7, 0, time.UTC), time.Date(2038, 1, 19, 3, 14, 8, 0, time.UTC),
				time.Date(2000, 2, 29, 12, 0, 0, 500000000, time.UTC), time.Date(1999, 12, 31, 23, 59, 59, 999999000, time.UTC),
				time.Date(2020, 1, 1, 0, 0, 0, 10000, time.UTC), time.Date(2020, 1, 1, 0, 0, 0, 100000000, time.UTC), time.Date(1, 1, 1, 0, 0, 0, 0, time.UTC), time.Date(999, 12, 31, 23, 59, 59, 0, time.UTC),
				time.Date(2024, 12, 31, 23, 59, 59, 999999900, time.UTC), time.Date(1969, 12, 31, 23, 59, 59, 0, time.UTC),
			}).Draw(rt, "b")
		default:
			sec := rapid.Int64Range(-30610224000, 253402300799).Draw(rt, "sec") // 1000-01-01 .. 9999-12-31
			us := int64(0)
			switch rapid.IntRange(0, 3).Draw(rt, "usk") {
			case 0:
			case 1:
				us = int64(rapid.IntRange(0, 999).Draw(rt, "ms")) * 1000
			case 2:
				us = int64(rapid.IntRange(0, 9).Draw(rt, "d")) * 100000
			default:
				us = int64(rapid.IntRange(0, 999999).Draw(rt, "us"))
			}
			t = time.Unix(sec, us*1000).UTC()
		}
		return t
	})
}

func timespanGen() *rapid.Generator[any] {
	return rapid.Custom(func(rt *rapid.T) any {
		const max = (838*3600+59*60+59)*1000000 + 999999
		var us int64
		switch rapid.IntRange(0, 3).Draw(rt, "k") {
		case 0:
			us = rapid.SampledFrom([]int64{0, 1, -1, max, -max, 999999, -999999, 1000000, -1000000, 59 * 60 * 1000000, -59*60*1000000 - 500000, 3600 * 1000000, -3600 * 1000000,
				100 * 3600 * 1000000, -100 * 3600 * 1000000, 500000, -500000, 10, -100000}).Draw(rt, "b")
		case 1:
			us = rapid.Int64Range(-3599, 3599).Draw(rt, "s") * 1000000
		default:
			us = rapid.Int64Range(-max, max).Draw(rt, "us")
		}
		// rendered as the literal a client would send: values enter a TIME column as text
		neg := us < 0
		if neg {
			us = -us
		}
		out := fmt.Sprintf("%02d:%02d:%02d", us/3600000000, us/60000000%60, us/1000000%60)
		if f := us % 1000000; f != 0 || rapid.Bool().Draw(rt, "frac0") {
			out += fmt.Sprintf(".%06d", f)
		}
		if neg {
			out = "-" + out
		}
		return out
	})
}

var interestingRunes = []rune{0, 1, 9, 10, 13, 0x1A, ' ', '"', '\'', '\\', '%', '_', 'a', 'Z', '0', 0x7F, 0x80, 0xE9, 0xDF, 0x100, 0x3A9, 0x7FF, 0x800, 0x20AC, 0xFFFD, 0xFFFF, 0x10000, 0x1F600, 0x10FFFF}

func textGen(maxRunes int) *rapid.Generator[any] {
	return rapid.Custom(func(rt *rapid.T) any {
		n := rapid.IntRange(0, maxRunes).Draw(rt, "n")
		var sb strings.Builder
		for i := 0; i < n; i++ {
			switch rapid.IntRange(0, 3).Draw(rt, "k") {
			case 0:
				sb.WriteRune(rapid.SampledFrom(interestingRunes).Draw(rt, "ir"))
			case 1:
				sb.WriteRune(rune(rapid.IntRange(0x20, 0x7E).Draw(rt, "a")))
			default:
				r := rune(rapid.IntRange(0, 0x10FFFF).Draw(rt, "r"))
				if r >= 0xD800 && r <= 0xDFFF {
					r = 0xFFFD
				}
				sb.WriteRune(r)
			}
		}
		return sb.String()
	})
}

func bytesGen(min, max int) *rapid.Generator[any] {
	return rapid.Custom(func(rt *rapid.T) any {
		if rapid.IntRange(0, 9).Draw(rt, "all") == 0 && max >= 256 {
			b := make([]byte, 256)
			for i := range b {
				b[i] = byte(i)
			}
			return b
		}
		return rapid.SliceOfN(rapid.Byte(), min, max).Draw(rt, "b")
	})
}

func jsonGen() *rapid.Generator[any] {
	var val func(rt *rapid.T, depth int) string
	str := func(rt *rapid.T) string {
		n := rapid.IntRange(0, 4).Draw(rt, "n")
		var sb strings.Builder
		sb.WriteByte('"')
		for i := 0; i < n; i++ {
			switch rapid.IntRange(0, 4).Draw(rt, "k") {
			case 0:
				sb.WriteString(rapid.SampledFrom([]string{`é`, `€`, `😀`, `\n`, `\"`, `\\`, `\/`, `\u0000`, `\t`, `\u001f`, `é`, `€`, `😀`, `'`, `<`, `&`}).Draw(rt, "esc"))
			default:
				sb.WriteByte(byte(rapid.IntRange('a', 'z').Draw(rt, "c")))
			}
		}
		sb.WriteByte('"')
		return sb.String()
	}
	val = func(rt *rapid.T, depth int) string {
		k := rapid.IntRange(0, 7).Draw(rt, "jk")
		if depth >= 2 && k >= 6 {
			k = 0
		}
		switch k {
		case 0:
			return rapid.SampledFrom([]string{"null", "true", "false", "0", "-0", "1", "-1", "1.5", "-2.25", "1e308", "5e-324", "1e2", "123456789012", "9007199254740993",
				"18446744073709551615", "-9223372036854775808", "9.223372036854776e18", "1.2345678901234567e19", "4.611686018427388e18", "-9.3e18", "1.8446744073709552e19", "0.1", "1.0", "100000000000000000000", "3.0e0"}).Draw(rt, "lit")
		case 1, 2:
			return str(rt)
		case 3:
			return fmt.Sprint(rapid.Int64().Draw(rt, "i"))
		case 4:
			f := rapid.Float64().Draw(rt, "f")
			if math.IsNaN(f) || math.IsInf(f, 0) {
				f = 0.5
			}
			return fmt.Sprintf("%v", f)
		case 5:
			return str(rt)
		case 6:
			n := rapid.IntRange(0, 3).Draw(rt, "an")
			parts := make([]string, n)
			for i := range parts {
				parts[i] = val(rt, depth+1)
			}
			return "[" + strings.Join(parts, ",") + "]"
		default:
			n := rapid.IntRange(0, 3).Draw(rt, "on")
			parts := make([]string, n)
			for i := range parts {
				parts[i] = str(rt) + ":" + val(rt, depth+1)
			}
			return "{" + strings.Join(parts, ", ") + "}"
		}
	}
	return rapid.Custom(func(rt *rapid.T) any { return val(rt, 0) })
}

func sampledGen(vals ...any) *rapid.Generator[any] { return rapid.SampledFrom(vals) }

func setGen(members []string) *rapid.Generator[any] {
	return rapid.Custom(func(rt *rapid.T) any {
		var picked []string
		for _, m := range members {
			if rapid.Bool().Draw(rt, "in") {
				picked = append(picked, m)
			}
		}
		return strings.Join(picked, ",")
	})
}

type typeSpec struct {
	ddl  string
	kind string
	gen  *rapid.Generator[any]
}

func typeSpecs() []typeSpec {
	return []typeSpec{
		{"TINYINT", "int", intGen(math.MinInt8, math.MaxInt8)},
		{"TINYINT UNSIGNED", "int", uintGen(math.MaxUint8)},
		{"SMALLINT", "int", intGen(math.MinInt16, math.MaxInt16)},
		{"SMALLINT UNSIGNED", "int", uintGen(math.MaxUint16)},
		{"MEDIUMINT", "int", intGen(-8388608, 8388607)},
		{"MEDIUMINT UNSIGNED", "int", uintGen(16777215)},
		{"INT", "int", intGen(math.MinInt32, math.MaxInt32)},
		{"INT UNSIGNED", "int", uintGen(math.MaxUint32)},
		{"BIGINT", "int", intGen(math.MinInt64, math.MaxInt64)},
		{"BIGINT UNSIGNED", "int", uintGen(math.MaxUint64)},
		{"BOOLEAN", "int", intGen(-128, 127)},
		{"FLOAT", "float32", floatGen(32)},
		{"DOUBLE", "float64", floatGen(64)},
		{"DECIMAL(65,30)", "decimal", decimalGen(65, 30)},
		{"DECIMAL(10,2)", "decimal", decimalGen(10, 2)},
		{"DECIMAL(5,5)", "decimal", decimalGen(5, 5)},
		{"DECIMAL(1,0)", "decimal", decimalGen(1, 0)},
		{"DECIMAL(65,0)", "decimal", decimalGen(65, 0)},
		{"DECIMAL(30,15)", "decimal", decimalGen(30, 15)},
		{"YEAR", "year", rapid.Custom(func(rt *rapid.T) any {
			if rapid.IntRange(0, 3).Draw(rt, "k") == 0 {
				return rapid.SampledFrom([]int64{0, 1901, 2155, 1970, 2000, 1999}).Draw(rt, "b")
			}
			return rapid.Int64Range(1901, 2155).Draw(rt, "y")
		})},
		{"BIT(1)", "bit", uintGen(1)},
		{"BIT(8)", "bit", uintGen(255)},
		{"BIT(17)", "bit", uintGen(1<<17 - 1)},
		{"BIT(64)", "bit", uintGen(math.MaxUint64)},
		{"DATE", "time", timeGen()},
		{"DATETIME", "time", timeGen()},
		{"DATETIME(3)", "time", timeGen()},
		{"DATETIME(6)", "time", timeGen()},
		{"TIMESTAMP", "time", timeGen()},
		{"TIMESTAMP(6)", "time", timeGen()},
		{"TIME", "timespan", timespanGen()},
		{"TIME(6)", "timespan", timespanGen()},
		{"CHAR(10)", "text", textGen(10)},
		{"VARCHAR(40)", "text", textGen(40)},
		{"VARCHAR(40) CHARACTER SET utf8mb3", "text", textGen(40)},
		{"TINYTEXT", "text", textGen(40)},
		{"TEXT", "text", textGen(60)},
		{"LONGTEXT", "text", textGen(300)},
		{"BINARY(8)", "binary", bytesGen(8, 8)},
		{"VARBINARY(40)", "binary", bytesGen(0, 40)},
		{"BLOB", "binary", bytesGen(0, 300)},
		{"LONGBLOB", "binary", bytesGen(0, 300)},
		{"ENUM('a','b','','é','x y','NULL','1')", "enum", sampledGen("a", "b", "", "é", "x y", "NULL", "1")},
		{"SET('a','b','c','é','1')", "set", setGen([]string{"a", "b", "c", "é", "1"})},
		{"JSON", "json", jsonGen()},
	}
}

// loadTypes builds the pool: the sql.Type of every spec is read from a table created
// through SQL, so it is exactly the type the engine gives such a column.
func loadTypes(fail func(format string, args ...any)) []colType {
	f := fx.New(fx.Opts{})
	defer f.Close()
	s := f.NewSession("", "", "")
	var out []colType
	for i, sp := range typeSpecs() {
		name := fmt.Sprintf("ty%d", i)
		s.MustExec(fail, fmt.Sprintf("CREATE TABLE %s (id INT PRIMARY KEY, c %s)", name, sp.ddl))
		tbl, ok, err := f.DBs[0].GetTableInsensitive(s.Ctx(context.Background()), name)
		if err != nil || !ok {
			fail("table %s not found: %v", name, err)
		}
		out = append(out, colType{ddl: sp.ddl, typ: tbl.Schema(s.Ctx(context.Background()))[1].Type, kind: sp.kind, gen: sp.gen})
	}
	// rapid's integer draws favour small numbers: interleave the kinds so that every kind
	// has a type near the front of the pool
	var order []colType
	used := make([]bool, len(out))
	for len(order) < len(out) {
		seen := map[string]bool{}
		for i, c := range out {
			if !used[i] && !seen[c.kind] {
				used[i], seen[c.kind] = true, true
				order = append(order, c)
			}
		}
	}
	return order
}

// back converts what a client received as text back into the column type.
func (c colType) back(ctx *sql.Context, text []byte) (any, error) {
	switch c.kind {
	case "binary":
		v, _, err := c.typ.Convert(ctx, append([]byte(nil), text...))
		return v, err
	case "bit":
		// BIT values travel as big-endian bytes
		if len(text) > 8 {
			return nil, fmt.Errorf("bit value of %d bytes", len(text))
		}
		var u uint64
		for _, b := range text {
			u = u<<8 | uint64(b)
		}
		v, _, err := c.typ.Convert(ctx, u)
		return v, err
	}
	v, _, err := c.typ.Convert(ctx, string(text))
	return v, err
}

// same decides whether the value that came back denotes the stored value.
func (c colType) same(ctx *sql.Context, stored, got any) (bool, error) {
	if stored == nil || got == nil {
		return stored == nil && got == nil, nil
	}
	stored, _ = unwrap(ctx, stored)
	got, _ = unwrap(ctx, got)
	switch c.kind {
	case "float64":
		a, ok1 := stored.(float64)
		b, ok2 := got.(float64)
		return ok1 && ok2 && (a == b), nil // -0 and +0 are equal
	case "float32":
		a, ok1 := stored.(float32)
		b, ok2 := got.(float32)
		return ok1 && ok2 && (a == b), nil
	}
	cmp, err := c.typ.Compare(ctx, stored, got)
	return err == nil && cmp == 0, err
}

func unwrap(ctx *sql.Context, v any) (any, error) {
	if w, ok := v.(sql.AnyWrapper); ok {
		if _, isJSON := v.(sql.JSONWrapper); !isJSON {
			return w.UnwrapAny(ctx)
		}
	}
	return v, nil
}

var plainText = regexp.MustCompile(`^([0-9]{1,4}|[a-z]{0,8})$`)

// nonTrivial: the textual form is not a small plain integer or a short ASCII word.
func nonTrivial(text []byte) bool { return !plainText.Match(text) }

func show(v any) string {
	switch x := v.(type) {
	case []byte:
		return fmt.Sprintf("%T(%q)", x, x)
	case string:
		if !utf8.ValidString(x) || len(x) > 80 {
			return fmt.Sprintf("string(%q)", x)
		}
		return fmt.Sprintf("%q", x)
	case float32:
		return fmt.Sprintf("float32(%v = %s)", x, new(big.Float).SetFloat64(float64(x)).Text('g', 20))
	case float64:
		return fmt.Sprintf("float64(%v)", x)
	case time.Time:
		return "time(" + x.Format("2006-01-02 15:04:05.999999999") + ")"
	}
	return fmt.Sprintf("%T(%v)", v, v)
}
