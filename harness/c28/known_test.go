package c28

import (
	"context"
	"testing"
	"time"

	"github.com/dolthub/go-mysql-server/sql"
	"github.com/dolthub/go-mysql-server/vh/internal/kf"
	"github.com/dolthub/go-mysql-server/vh/internal/stats"
)

// witness is the minimal input of one finding: a column type and a raw value; wire says
// that the misbehaviour only shows over the wire (else it already shows at the API).
type witness struct {
	id   string
	ddl  string
	raw  any
	wire bool
}

func witnesses() []witness {
	return []witness{
		{kfFloatLen, "FLOAT", float32(1000000.5), false},                                                     // "1.0000005e+06": 13 > 12
		{kfFloatLen, "DOUBLE", -2.2250738585072014e-308, false},                                              // 24 > 22
		{kfDecimalPP, "DECIMAL(5,5)", "-0.12345", false},                                                     // 8 > 7
		{kfDateYearPad, "DATE", time.Date(999, 12, 31, 0, 0, 0, 0, time.UTC), false},                         // "999-12-31" does not convert back
		{kfDateYearPad, "DATETIME(6)", time.Date(1, 1, 1, 0, 0, 0, 0, time.UTC), false},                      // "1-01-01 00:00:00"
		{kfDateYearPad, "DATETIME", time.Date(999, 12, 31, 23, 59, 59, 0, time.UTC), true},                   // the prepared SELECT aborts
		{kfYearZero, "YEAR", int64(0), false},                                                                // "0" denotes 2000
		{kfJSONBigDouble, "JSON", "9.223372036854776e18", false},                                             // "9223372036854776000"
		{kfJSONBigDouble, "JSON", `{"a": [1.2345678901234567e19]}`, false},                                   // inside a document
		{kfTimestampBinaryFrac, "TIMESTAMP(6)", time.Date(1970, 1, 1, 0, 0, 1, 1000000, time.UTC), true},     // binary: "1970-01-01 00:00:01"
		{kfTimestampBinaryFrac, "TIMESTAMP(6)", time.Date(2038, 1, 19, 3, 14, 7, 999999000, time.UTC), true}, //
		{kfTimeBinaryFrac, "TIME(6)", "00:00:00.000001", true},                                               // binary: "00:00:00"
		{kfTimeBinaryFrac, "TIME", "-838:59:58.999999", true},                                                //
	}
}

// TestC28Known re-confirms the witness of every finding of this property, in both states
// of the finding: while its id is listed as known the witness must still misbehave in the
// recorded way (otherwise the entry is reported as stale, which is not a failure) and must
// not deviate in any other way; once the id is not listed (not yet triaged, or repaired in
// /repo) the witness must satisfy the property like every other value.
func TestC28Known(t *testing.T) {
	st := stats.New("C28", "known")
	defer st.Flush()
	pool := loadTypes(t.Fatalf)
	byDDL := map[string]colType{}
	for _, c := range pool {
		byDDL[c.ddl] = c
	}
	w := newWireFixture()
	defer w.close()
	ctx := sql.NewContext(context.Background())

	for _, wit := range witnesses() {
		st.Eval()
		c, ok := byDDL[wit.ddl]
		if !ok {
			t.Fatalf("witness type %s is not in the pool", wit.ddl)
		}
		v, ok := storable(ctx, c, wit.raw)
		if !ok {
			t.Fatalf("%s: witness %s of %s is not storable", c.ddl, show(wit.raw), wit.id)
		}
		_, vs := apiCheck(ctx, c, v)
		if wit.wire {
			tb := w.store(c, false, []any{wit.raw}, t.Fatalf, func() {})
			if len(tb.stored) != 1 {
				t.Fatalf("%s: witness %s of %s was not stored", c.ddl, show(wit.raw), wit.id)
			}
			wv, _ := w.readBack(ctx, tb)
			w.drop(tb)
			vs = append(vs, wv...)
		}
		recorded := 0
		for _, x := range vs {
			if x.id == wit.id && kf.Listed(wit.id) {
				recorded++
				continue
			}
			if x.id != "" && x.id != wit.id && kf.Suppress(st, x.id) {
				continue // another listed finding shows on this witness as well
			}
			t.Errorf("witness of %s (%s, %s): %s", wit.id, c.ddl, show(wit.raw), x.msg)
		}
		switch {
		case recorded > 0:
			kf.Suppress(st, wit.id) // counts the hit
			st.NonTrivial(nil, wit.id, c.ddl, show(wit.raw), "still-misbehaves")
		case kf.Listed(wit.id):
			t.Logf("STALE known finding %s: the witness (%s, %s) now satisfies the property", wit.id, c.ddl, show(wit.raw))
			st.Class("stale:" + wit.id)
		default:
			st.NonTrivial(nil, wit.id, c.ddl, show(wit.raw), "satisfies")
		}
	}
}
