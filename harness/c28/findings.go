package c28

import (
	"math/big"
	"regexp"
	"strconv"
	"strings"
	"time"

	"github.com/dolthub/go-mysql-server/sql"
)

// Known-finding signatures of this check (see notes/C28.md). Every predicate is narrow:
// type + shape of the value.

const (
	// DECIMAL(p,p): a negative value prints as "-0.ddd" = p+3 bytes, the announced maximum
	// is p+2 (sign and point, but no room for the leading zero).
	kfDecimalPP = "C28-decimal-pp-length"
	// FLOAT / DOUBLE: the text form is the shortest round-tripping representation
	// (strconv 'g', -1), up to 15 / 24 bytes; the announced maxima are 12 / 22.
	kfFloatLen = "C28-float-length"
	// DATE/DATETIME/TIMESTAMP with a year below 1000: the year is printed unpadded.
	kfDateYearPad = "C28-date-year-pad"
	// YEAR 0000: printed as "0".
	kfYearZero = "C28-year-zero"
	// TIMESTAMP(n) with fractional seconds over the binary protocol: the field packet
	// announces decimals = 0 (schemaToFields sets Decimals for DATETIME only).
	kfTimestampBinaryFrac = "C28-binary-timestamp-decimals"
	// TIME with fractional seconds over the binary protocol: same mechanism; TimespanType
	// has no precision to announce.
	kfTimeBinaryFrac = "C28-binary-time-decimals"
	// JSON doubles in [2^63, 2^64): printed in integer syntax with the shortest digits padded
	// by zeros ("9223372036854776000" for 2^63), which reads back as a different integer.
	kfJSONBigDouble = "C28-json-double-2p63"
)

// roundTripFinding recognises the text forms that known findings produce for a stored value.
func roundTripFinding(c colType, v any, text []byte) string {
	if c.kind == "time" {
		// years 1..999 are printed without zero padding ("999-12-31"), which does not parse
		if t, ok := v.(time.Time); ok && t.Year() >= 1 && t.Year() <= 999 {
			if strings.HasPrefix(string(text), strconv.Itoa(t.Year())+"-") {
				return kfDateYearPad
			}
		}
	}
	if c.kind == "json" && jsonBigDouble(text) {
		return kfJSONBigDouble
	}
	if c.kind == "year" && string(text) == "0" {
		// YEAR 0000 is printed as "0", and the string '0' denotes the year 2000
		if y, ok := v.(int16); ok && y == 0 {
			return kfYearZero
		}
	}
	return ""
}

// wireFinding recognises what known findings make a client receive over one protocol.
// fullText is the text form the API produces for the stored value.
func wireFinding(c colType, proto string, fullText, received []byte) string {
	id := ""
	switch {
	case c.kind == "timespan":
		id = kfTimeBinaryFrac
	case strings.HasPrefix(c.ddl, "TIMESTAMP"):
		id = kfTimestampBinaryFrac
	}
	if id != "" && strings.HasPrefix(proto, "binary") {
		// the field packet announces decimals = 0 for TIME and TIMESTAMP(n) columns, so a
		// client that formats the binary value by the announced decimals (go-sql-driver
		// does) drops the fractional seconds
		if i := strings.IndexByte(string(fullText), '.'); i >= 0 && string(received) == string(fullText[:i]) &&
			strings.Trim(string(fullText[i+1:]), "0") != "" {
			return id
		}
	}
	return ""
}

var bigIntToken = regexp.MustCompile(`[0-9]{19,20}`)

// jsonBigDouble reports whether a JSON text holds an integer token in [2^63, 2^64) that is not
// exactly representable as a double although its digits are the shortest representation of
// one: the print of a stored double, not of a stored integer.
func jsonBigDouble(text []byte) bool {
	for _, tok := range bigIntToken.FindAll(text, -1) {
		u, err := strconv.ParseUint(string(tok), 10, 64)
		if err != nil || u < 1<<63 {
			continue
		}
		f := float64(u)
		if strconv.FormatFloat(f, 'f', -1, 64) == string(tok) && new(big.Float).SetUint64(u).Cmp(big.NewFloat(f)) != 0 {
			return true
		}
	}
	return false
}

func lengthFinding(c colType, text []byte) string {
	if dt, ok := c.typ.(sql.DecimalType); ok && dt.Precision() == dt.Scale() && len(text) > 0 && text[0] == '-' &&
		len(text) == int(dt.Precision())+3 {
		return kfDecimalPP
	}
	switch c.kind {
	case "float32":
		if f, err := strconv.ParseFloat(string(text), 32); err == nil && len(text) > 12 && len(text) <= 15 &&
			strconv.FormatFloat(f, 'g', -1, 32) == string(text) {
			return kfFloatLen
		}
	case "float64":
		if f, err := strconv.ParseFloat(string(text), 64); err == nil && len(text) > 22 && len(text) <= 24 &&
			strconv.FormatFloat(f, 'g', -1, 64) == string(text) {
			return kfFloatLen
		}
	}
	return ""
}

// queryFinding recognises a failing SELECT that a known finding explains.
func queryFinding(c colType, stored []any, err error) string {
	if c.kind == "time" {
		// the binary row encoder parses the text form at fixed offsets; an unpadded year
		// (finding C28-date-year-pad) makes it fail in the middle of the result stream
		for _, v := range stored {
			if t, ok := v.(time.Time); ok && t.Year() >= 1 && t.Year() <= 999 {
				return kfDateYearPad
			}
		}
	}
	return ""
}
