package c28

import (
	"context"
	"fmt"
	"testing"

	"github.com/dolthub/go-mysql-server/sql"
	"github.com/dolthub/go-mysql-server/vh/internal/kf"
	"github.com/dolthub/go-mysql-server/vh/internal/stats"
	"pgregory.net/rapid"
)

// guard runs f and returns a recovered panic.
func guard(f func()) (p any) {
	defer func() { p = recover() }()
	f()
	return nil
}

// storable converts a raw input into the value a column of the type holds; ok is false
// when the input is not storable (error or out of range).
func storable(ctx *sql.Context, c colType, raw any) (v any, ok bool) {
	var err error
	var inRange sql.ConvertInRange
	if p := guard(func() { v, inRange, err = c.typ.Convert(ctx, raw) }); p != nil {
		return nil, false
	}
	if err != nil || inRange != sql.InRange || v == nil {
		return nil, false
	}
	return v, true
}

// apiCheck decides the property for one stored value at the API: the text form, and every
// deviation (announced length, conversion back).
func apiCheck(ctx *sql.Context, c colType, v any) (text []byte, vs []viol) {
	add := func(id, format string, args ...any) { vs = append(vs, viol{id, fmt.Sprintf(format, args...)}) }
	var err error
	if p := guard(func() {
		sv, e := c.typ.SQL(ctx, nil, v)
		err = e
		if e == nil {
			text = sv.Raw()
		}
	}); p != nil {
		add("", "%s: SQL(%s) panics: %v", c.ddl, show(v), p)
		return nil, vs
	}
	if err != nil {
		add("", "%s: SQL(%s) fails for a stored value: %v", c.ddl, show(v), err)
		return nil, vs
	}
	if max := c.typ.MaxTextResponseByteLength(ctx); uint64(len(text)) > uint64(max) {
		add(lengthFinding(c, text), "%s: text form %q of %s has %d bytes, the announced maximum is %d", c.ddl, text, show(v), len(text), max)
	}
	v2, err := c.back(ctx, text)
	if err != nil {
		add(roundTripFinding(c, v, text), "%s: text form %q of %s does not convert back: %v", c.ddl, text, show(v), err)
		return text, vs
	}
	if same, err := c.same(ctx, v, v2); !same {
		add(roundTripFinding(c, v, text), "%s: stored %s, text form %q, converted back %s (compare error: %v)", c.ddl, show(v), text, show(v2), err)
	}
	return text, vs
}

func TestC28(t *testing.T) {
	st := stats.New("C28", "api")
	defer st.Flush()
	pool := loadTypes(t.Fatalf)
	st.Set("column_types", len(pool))
	ctx := sql.NewContext(context.Background())
	rapid.Check(t, func(rt *rapid.T) {
		st.Eval()
		c := pool[rapid.IntRange(0, len(pool)-1).Draw(rt, "type")]
		raw := c.gen.Draw(rt, "raw")
		v, ok := storable(ctx, c, raw)
		if !ok {
			st.Class("not-storable:" + c.kind)
			return
		}
		st.Class("kind:" + c.kind)
		text, vs := apiCheck(ctx, c, v)
		for _, x := range vs {
			if x.id != "" && kf.Suppress(st, x.id) {
				continue
			}
			rt.Fatalf("%s", x.msg)
		}
		if len(vs) == 0 && nonTrivial(text) {
			st.NonTrivial(map[string]any{"type": c.ddl, "text": fmt.Sprintf("%.60q", text)}, c.ddl, string(text))
		}
	})
}
