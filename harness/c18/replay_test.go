package c18

import (
	"testing"

	"github.com/dolthub/go-mysql-server/vh/internal/fx"
	"github.com/dolthub/go-mysql-server/vh/internal/stats"
)

// TestReplayC18 runs the SQL witness scripts of /verif/replays/C18 (one per finding). A script
// states what the property demands, so it passes once the defect is repaired; while the
// finding is listed as known a deviation is counted as a known hit.
func TestReplayC18(t *testing.T) {
	st := stats.New("C18", "replay")
	defer st.Flush()
	fx.ReplayDir(t, st)
}
