// Package c18 checks property C18 (foreign keys keep referential integrity) with a rapid
// state machine over generated foreign-key graphs and a reference model of the prescribed
// referential actions.
package c18

import (
	"fmt"
	"math"
	"sort"
	"strconv"
	"strings"
)

// null is the model's representation of SQL NULL (all columns are INT; the value domain
// never contains MinInt64).
const null = math.MinInt64

type action int

const (
	actDefault action = iota // no clause: RESTRICT
	actRestrict
	actNoAction
	actCascade
	actSetNull
)

func (a action) restrictLike() bool { return a == actDefault || a == actRestrict || a == actNoAction }

func (a action) sql(kw string) string {
	switch a {
	case actRestrict:
		return " ON " + kw + " RESTRICT"
	case actNoAction:
		return " ON " + kw + " NO ACTION"
	case actCascade:
		return " ON " + kw + " CASCADE"
	case actSetNull:
		return " ON " + kw + " SET NULL"
	}
	return ""
}

func (a action) String() string {
	return [...]string{"default", "restrict", "noaction", "cascade", "setnull"}[a]
}

type colDef struct {
	name    string
	notNull bool
}

type tableDef struct {
	name    string
	cols    []colDef // cols[0] is `id INT PRIMARY KEY`
	uniques [][]int  // UNIQUE keys (column positions); the primary key is not listed
}

type fkDef struct {
	name     string
	child    int
	cols     []int
	parent   int
	pcols    []int
	onDelete action
	onUpdate action
	active   bool // false while dropped / not yet added
	viaAlter bool // declared by ALTER TABLE after both tables exist
	late     bool // not part of the initial schema: added later (ALTER TABLE) on populated tables
	hasIndex bool // an index on the child columns exists in the engine (implicit or explicit)
}

func (f *fkDef) self() bool { return f.child == f.parent }

type schema struct {
	tables []tableDef
	fks    []*fkDef
}

type row struct {
	rid int
	v   []int64
}

// state is the contents of all tables.
type state struct {
	rows    [][]row
	nextRid int
}

func newState(n int) *state { return &state{rows: make([][]row, n), nextRid: 1} }

func (s *state) clone() *state {
	c := &state{rows: make([][]row, len(s.rows)), nextRid: s.nextRid}
	for t, rs := range s.rows {
		c.rows[t] = make([]row, len(rs))
		for i, r := range rs {
			c.rows[t][i] = row{rid: r.rid, v: append([]int64(nil), r.v...)}
		}
	}
	return c
}

func (s *state) find(t, rid int) *row {
	for i := range s.rows[t] {
		if s.rows[t][i].rid == rid {
			return &s.rows[t][i]
		}
	}
	return nil
}

func (s *state) remove(t, rid int) {
	rs := s.rows[t]
	for i := range rs {
		if rs[i].rid == rid {
			s.rows[t] = append(rs[:i:i], rs[i+1:]...)
			return
		}
	}
}

func (s *state) add(t int, v []int64) int {
	rid := s.nextRid
	s.nextRid++
	s.rows[t] = append(s.rows[t], row{rid: rid, v: append([]int64(nil), v...)})
	return rid
}

// canon renders the rows of table t in the canonical form of fx.NormRows.
func (s *state) canon(t int) [][]string {
	out := make([][]string, len(s.rows[t]))
	for i, r := range s.rows[t] {
		out[i] = make([]string, len(r.v))
		for j, x := range r.v {
			if x == null {
				out[i][j] = "N"
			} else {
				out[i][j] = "n:" + strconv.FormatInt(x, 10)
			}
		}
	}
	return out
}

func key(v []int64, cols []int) ([]int64, bool) {
	k := make([]int64, len(cols))
	for i, c := range cols {
		if v[c] == null {
			return nil, false
		}
		k[i] = v[c]
	}
	return k, true
}

func keyEq(a, b []int64) bool {
	for i := range a {
		if a[i] != b[i] {
			return false
		}
	}
	return true
}

func valsEq(a, b []int64, cols []int) bool {
	for _, c := range cols {
		if a[c] != b[c] {
			return false
		}
	}
	return true
}

// uniqueKeys returns all unique keys of table t including the primary key.
func (sc *schema) uniqueKeys(t int) [][]int {
	return append([][]int{{0}}, sc.tables[t].uniques...)
}

// dupIn reports whether the rows of table t contain two rows that agree on a (fully
// non-NULL) unique key.
func (sc *schema) dupIn(s *state, t int) bool {
	for _, uk := range sc.uniqueKeys(t) {
		rs := s.rows[t]
		for i := range rs {
			ki, ok := key(rs[i].v, uk)
			if !ok {
				continue
			}
			for j := i + 1; j < len(rs); j++ {
				if kj, ok := key(rs[j].v, uk); ok && keyEq(ki, kj) {
					return true
				}
			}
		}
	}
	return false
}

// conflicts returns the rids of rows of t that collide with candidate v on some unique key.
func (sc *schema) conflicts(s *state, t int, v []int64) []int {
	var out []int
	seen := map[int]bool{}
	for _, uk := range sc.uniqueKeys(t) {
		kv, ok := key(v, uk)
		if !ok {
			continue
		}
		for _, r := range s.rows[t] {
			if kr, ok := key(r.v, uk); ok && keyEq(kv, kr) && !seen[r.rid] {
				seen[r.rid] = true
				out = append(out, r.rid)
			}
		}
	}
	return out
}

// hasParent reports whether candidate child values v (of table f.child) have a parent row
// for f in s: some NULL part (MATCH SIMPLE exempts), an existing parent key, or - for a
// self reference - the row itself.
func (sc *schema) hasParent(s *state, f *fkDef, v []int64) bool {
	k, ok := key(v, f.cols)
	if !ok {
		return true
	}
	for _, p := range s.rows[f.parent] {
		if pk, ok := key(p.v, f.pcols); ok && keyEq(k, pk) {
			return true
		}
	}
	if f.self() {
		if pk, ok := key(v, f.pcols); ok && keyEq(k, pk) {
			return true
		}
	}
	return false
}

// orphans lists, per active foreign key, the child rows without a parent.
func (sc *schema) orphans(s *state) map[*fkDef][]int {
	out := map[*fkDef][]int{}
	for _, f := range sc.fks {
		if !f.active {
			continue
		}
		for _, c := range s.rows[f.child] {
			if !sc.hasParent(s, f, c.v) {
				out[f] = append(out[f], c.rid)
			}
		}
	}
	return out
}

type class int

const (
	mustSucceed class = iota
	mustFail
	either
)

func (c class) String() string { return [...]string{"must-succeed", "must-fail", "either"}[c] }

// outcome is the model's verdict about one statement executed with foreign_key_checks on.
type outcome struct {
	class    class
	final    *state // contents if the statement succeeds
	reasons  []string
	depth    int  // deepest level of referential actions reached (root statement = 0)
	selfRows bool // a self-referencing foreign key acted on some row
	fkReject bool // the (possible) rejection is caused by a foreign key
	// actionRows[t]: rows of table t deleted / rewritten by the statement and its referential actions
	actionRows map[int]int
	// orderDep: some row is both deleted and has a referenced key rewritten by the statement
	// (two constraints, or two parent rows, act on it): whether the grandchildren see the
	// ON DELETE or the ON UPDATE action depends on the visiting order
	orderDep bool
}

// exec runs one statement in "lenient" mode: referential actions are applied, RESTRICT /
// NO ACTION never stop it. The final contents do not depend on the order in which rows
// and constraints are visited (deletion closure; every foreign key of a child owns its
// columns exclusively, so a column group is rewritten by one constraint only). Whether the
// statement must fail is then decided from the pre-statement contents (judge).
type exec struct {
	sc       *schema
	pre      *state
	cur      *state
	deleted  map[int]bool
	changed  map[int]map[int]bool // rid -> columns that were rewritten at some point
	inserted map[int]bool
	definite []string
	ambig    []string
	depth    int
	selfRows bool
	fkReject bool
	actRows  map[int]int
	orderDep bool
}

// propagates reports whether rewriting the columns of a row of table t has referential
// actions of its own (the columns belong to a key that an active constraint references).
func (e *exec) propagates(t int, cols map[int]bool) bool {
	for _, f := range e.sc.fks {
		if !f.active || f.parent != t {
			continue
		}
		for _, c := range f.pcols {
			if cols[c] {
				return true
			}
		}
	}
	return false
}

func newExec(sc *schema, pre *state) *exec {
	return &exec{sc: sc, pre: pre, cur: pre.clone(), deleted: map[int]bool{}, changed: map[int]map[int]bool{}, inserted: map[int]bool{}, actRows: map[int]int{}}
}

func (e *exec) note(depth int) {
	if depth > e.depth {
		e.depth = depth
	}
}

func (e *exec) children(f *fkDef, k []int64) []int {
	var out []int
	for _, c := range e.cur.rows[f.child] {
		if ck, ok := key(c.v, f.cols); ok && keyEq(ck, k) {
			out = append(out, c.rid)
		}
	}
	return out
}

func (e *exec) deleteRow(t, rid, depth int) {
	r := e.cur.find(t, rid)
	if r == nil {
		return
	}
	if e.propagates(t, e.changed[rid]) {
		e.orderDep = true
	}
	old := append([]int64(nil), r.v...)
	e.cur.remove(t, rid)
	e.deleted[rid] = true
	e.note(depth)
	e.actRows[t]++
	for _, f := range e.sc.fks {
		if !f.active || f.parent != t {
			continue
		}
		k, ok := key(old, f.pcols)
		if !ok {
			continue
		}
		for _, cid := range e.children(f, k) {
			if f.self() {
				e.selfRows = true
			}
			switch f.onDelete {
			case actCascade:
				e.deleteRow(f.child, cid, depth+1)
			case actSetNull:
				set := map[int]int64{}
				for _, c := range f.cols {
					set[c] = null
				}
				e.updateRow(f.child, cid, set, f, depth+1)
			}
		}
	}
}

func (e *exec) updateRow(t, rid int, set map[int]int64, via *fkDef, depth int) {
	r := e.cur.find(t, rid)
	if r == nil {
		if e.deleted[rid] {
			cols := map[int]bool{}
			for c := range set {
				cols[c] = true
			}
			if e.propagates(t, cols) {
				e.orderDep = true
			}
		}
		return
	}
	old := append([]int64(nil), r.v...)
	var chg []int
	for c, v := range set {
		if r.v[c] != v {
			chg = append(chg, c)
		}
	}
	if len(chg) == 0 {
		return
	}
	sort.Ints(chg)
	for _, c := range chg {
		if set[c] == null && e.sc.tables[t].cols[c].notNull {
			// e.g. ON UPDATE CASCADE of a parent key that becomes NULL into a NOT NULL child column
			e.definite = append(e.definite, fmt.Sprintf("NULL written to NOT NULL column %s.%s", e.sc.tables[t].name, e.sc.tables[t].cols[c].name))
		}
		r.v[c] = set[c]
		if e.changed[rid] == nil {
			e.changed[rid] = map[int]bool{}
		}
		e.changed[rid][c] = true
	}
	nw := append([]int64(nil), r.v...)
	e.note(depth)
	e.actRows[t]++
	isChanged := func(cols []int) bool {
		for _, c := range cols {
			for _, d := range chg {
				if c == d {
					return true
				}
			}
		}
		return false
	}
	// child side: the new key must have a parent (not re-checked for the constraint that
	// propagated the change; the parent row carries the new key by construction).
	for _, g := range e.sc.fks {
		if !g.active || g.child != t || g == via || !isChanged(g.cols) {
			continue
		}
		if !e.sc.hasParent(e.cur, g, nw) {
			// keys of the parent table are not rewritten by the statements that reach here
			// (see the generator), so this holds in every visiting order
			e.definite = append(e.definite, fmt.Sprintf("%s: new child key %v of %s has no parent", g.name, nw, e.sc.tables[t].name))
			e.fkReject = true
		}
	}
	// parent side
	for _, f := range e.sc.fks {
		if !f.active || f.parent != t || !isChanged(f.pcols) {
			continue
		}
		k, ok := key(old, f.pcols)
		if !ok {
			continue
		}
		for _, cid := range e.children(f, k) {
			if f.self() {
				e.selfRows = true
			}
			switch f.onUpdate {
			case actCascade:
				s2 := map[int]int64{}
				for i, c := range f.cols {
					s2[c] = nw[f.pcols[i]]
				}
				e.updateRow(f.child, cid, s2, f, depth+1)
			case actSetNull:
				s2 := map[int]int64{}
				for _, c := range f.cols {
					s2[c] = null
				}
				e.updateRow(f.child, cid, s2, f, depth+1)
			}
		}
	}
}

// judge decides the class of the statement from the pre-statement contents:
//
//   - a parent row that the statement removes (or whose referenced key it rewrites) while a
//     RESTRICT / NO ACTION child references that key in the pre-state is a *definite*
//     violation when the statement never touches that child (the child references the key
//     whenever the parent is visited), and an *order-dependent* one when the statement also
//     deletes / re-keys the child (InnoDB-style immediate checking fails or not depending on
//     the visiting order; both outcomes are accepted);
//   - duplicate unique keys in the final contents are a definite failure.
func (e *exec) judge() outcome {
	for t := range e.sc.tables {
		for _, r := range e.pre.rows[t] {
			gone := e.deleted[r.rid]
			for _, f := range e.sc.fks {
				if !f.active || f.parent != t {
					continue
				}
				k, ok := key(r.v, f.pcols)
				if !ok {
					continue
				}
				rekeyed := false
				for _, c := range f.pcols {
					if e.changed[r.rid][c] {
						rekeyed = true
					}
				}
				hit := (gone && f.onDelete.restrictLike()) || (rekeyed && f.onUpdate.restrictLike())
				if !hit {
					continue
				}
				for _, c := range e.pre.rows[f.child] {
					ck, ok := key(c.v, f.cols)
					if !ok || !keyEq(ck, k) {
						continue
					}
					touched := e.deleted[c.rid]
					for _, col := range f.cols {
						if e.changed[c.rid][col] {
							touched = true
						}
					}
					msg := fmt.Sprintf("%s: parent %s%v is removed/re-keyed while child %s%v references it", f.name, e.sc.tables[t].name, r.v, e.sc.tables[f.child].name, c.v)
					e.fkReject = true
					if f.self() {
						e.selfRows = true
					}
					if touched {
						e.ambig = append(e.ambig, msg+" (child also touched: order-dependent)")
					} else {
						e.definite = append(e.definite, msg)
					}
				}
			}
		}
	}
	for t := range e.sc.tables {
		if e.sc.dupIn(e.cur, t) {
			e.definite = append(e.definite, "duplicate unique key in "+e.sc.tables[t].name)
		}
	}
	o := outcome{final: e.cur, depth: e.depth, selfRows: e.selfRows, fkReject: e.fkReject, actionRows: e.actRows, orderDep: e.orderDep}
	switch {
	case len(e.definite) > 0:
		o.class = mustFail
		o.reasons = e.definite
	case len(e.ambig) > 0:
		o.class = either
		o.reasons = e.ambig
	default:
		o.class = mustSucceed
	}
	return o
}

type insMode int

const (
	insPlain insMode = iota
	insIgnore
	insReplace
)

// modelInsert: rows are processed in VALUES order, each against the contents left by the
// previous ones (so a row may reference a row inserted earlier in the same statement).
func modelInsert(sc *schema, pre *state, t int, rows [][]int64, mode insMode) outcome {
	e := newExec(sc, pre)
	for _, v := range rows {
		switch mode {
		case insPlain, insIgnore:
			bad := ""
			if len(sc.conflicts(e.cur, t, v)) > 0 {
				bad = "duplicate key"
			} else {
				for _, f := range sc.fks {
					if f.active && f.child == t && !sc.hasParent(e.cur, f, v) {
						bad = f.name + ": no parent for " + fmt.Sprint(v)
						e.fkReject = true
					}
				}
			}
			if bad != "" {
				if mode == insIgnore {
					continue
				}
				return outcome{class: mustFail, final: pre, reasons: []string{bad}, fkReject: e.fkReject}
			}
			e.inserted[e.cur.add(t, v)] = true
		case insReplace:
			for _, rid := range sc.conflicts(e.cur, t, v) {
				e.deleteRow(t, rid, 0)
			}
			for _, f := range sc.fks {
				if f.active && f.child == t && !sc.hasParent(e.cur, f, v) {
					e.definite = append(e.definite, f.name+": no parent for "+fmt.Sprint(v))
					e.fkReject = true
				}
			}
			e.inserted[e.cur.add(t, v)] = true
		}
	}
	return e.judge()
}

func modelDelete(sc *schema, pre *state, t int, rids []int) outcome {
	e := newExec(sc, pre)
	for _, rid := range rids {
		e.deleteRow(t, rid, 0)
	}
	return e.judge()
}

// modelUpdate applies, to every listed row, the assignments computed by setOf from the row's
// pre-statement values.
func modelUpdate(sc *schema, pre *state, t int, rids []int, setOf func(v []int64) map[int]int64) outcome {
	e := newExec(sc, pre)
	newKeys := map[string]int{}
	for _, rid := range rids {
		r := pre.find(t, rid)
		set := setOf(r.v)
		e.updateRow(t, rid, set, nil, 0)
		nr := e.cur.find(t, rid)
		if nr != nil {
			for _, uk := range sc.uniqueKeys(t) {
				if k, ok := key(nr.v, uk); ok && !valsEq(nr.v, r.v, uk) {
					newKeys[fmt.Sprint(uk, k)] = rid
				}
			}
		}
	}
	// a new unique key value equal to the *old* key of another updated row collides or not
	// depending on the visiting order
	for _, rid := range rids {
		r := pre.find(t, rid)
		for _, uk := range sc.uniqueKeys(t) {
			if k, ok := key(r.v, uk); ok {
				if other, hit := newKeys[fmt.Sprint(uk, k)]; hit && other != rid {
					e.ambig = append(e.ambig, "multi-row key update passes through the old key of another updated row")
				}
			}
		}
	}
	return e.judge()
}

func describe(sc *schema, s *state) string {
	var sb strings.Builder
	for t := range sc.tables {
		fmt.Fprintf(&sb, "  %s: ", sc.tables[t].name)
		for _, r := range s.rows[t] {
			sb.WriteString("(")
			for j, x := range r.v {
				if j > 0 {
					sb.WriteString(",")
				}
				if x == null {
					sb.WriteString("NULL")
				} else {
					sb.WriteString(strconv.FormatInt(x, 10))
				}
			}
			sb.WriteString(") ")
		}
		sb.WriteString("\n")
	}
	return sb.String()
}
