package c18

import (
	"fmt"
	"os"
	"strings"
	"testing"

	"github.com/dolthub/go-mysql-server/vh/internal/fx"
)

// TestProbe runs the statements of $PROBE_SQL (one per line; '--' comments; a line "----" starts a fresh fixture).
func TestProbe(t *testing.T) {
	p := os.Getenv("PROBE_SQL")
	if p == "" {
		t.Skip()
	}
	b, _ := os.ReadFile(p)
	f := fx.New(fx.Opts{})
	s := f.NewSession("", "", "")
	for _, line := range strings.Split(string(b), "\n") {
		line = strings.TrimSpace(line)
		if line == "" || strings.HasPrefix(line, "--") && line != "----" {
			continue
		}
		if line == "----" {
			f.Close()
			f = fx.New(fx.Opts{})
			s = f.NewSession("", "", "")
			fmt.Println("---- fresh")
			continue
		}
		r := s.Exec(line)
		w := ""
		for _, x := range r.Warnings {
			w += fmt.Sprintf(" [W%d %s]", x.Code, x.Message)
		}
		fmt.Printf("%s\n   => %s%s\n", line, r, w)
		if r.Panic != nil {
			fmt.Println(r.Stack)
		}
	}
}
