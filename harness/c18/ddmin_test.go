package c18

import (
	"fmt"
	"os"
	"strings"
	"testing"

	"github.com/dolthub/go-mysql-server/vh/internal/fx"
)

// TestDDMin: $DD_SQL file of statements, last line "-- CHECK: <query>" must return $DD_WANT (fx string form)
func TestDDMin(t *testing.T) {
	p := os.Getenv("DD_SQL")
	if p == "" {
		t.Skip()
	}
	b, _ := os.ReadFile(p)
	var stmts []string
	for _, l := range strings.Split(string(b), "\n") {
		l = strings.TrimSpace(l)
		if l != "" {
			stmts = append(stmts, l)
		}
	}
	check := os.Getenv("DD_CHECK")
	want := os.Getenv("DD_WANT")
	bad := func(ss []string) bool {
		f := fx.New(fx.Opts{})
		defer f.Close()
		s := f.NewSession("", "", "")
		for i, q := range ss {
			if i == len(ss)-1 && os.Getenv("DD_PRE") != "" {
				r := s.Exec(os.Getenv("DD_PRE"))
				if !r.OK() || r.String() != os.Getenv("DD_PREWANT") {
					return false
				}
			}
			r := s.Exec(q)
			if r.Panic != nil {
				return false
			}
		}
		r := s.Exec(check)
		if os.Getenv("DD_DEBUG") != "" {
			fmt.Println(r.String())
		}
		return r.OK() && r.String() == want
	}
	if !bad(stmts) {
		t.Fatalf("full script does not show the condition")
	}
	changed := true
	for changed {
		changed = false
		for i := 0; i < len(stmts)-1; i++ {
			c := append(append([]string{}, stmts[:i]...), stmts[i+1:]...)
			if bad(c) {
				stmts = c
				changed = true
				i--
			}
		}
	}
	fmt.Println(strings.Join(stmts, "\n"))
}
