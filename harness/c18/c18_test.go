package c18

import (
	"fmt"
	"os"
	"sort"
	"strconv"
	"strings"
	"testing"

	"github.com/dolthub/go-mysql-server/vh/internal/fx"
	"github.com/dolthub/go-mysql-server/vh/internal/kf"
	"github.com/dolthub/go-mysql-server/vh/internal/stats"
	"pgregory.net/rapid"
)

// ---------------------------------------------------------------------------------------
// schema generator

func genSchema(rt *rapid.T) *schema {
	sc := &schema{}
	n := rapid.IntRange(2, 4).Draw(rt, "ntables")
	cascadeHeavy := rapid.Bool().Draw(rt, "cascadeHeavy")
	hasU := make([]int, n)  // column position of u or 0
	hasAB := make([]int, n) // column position of a (b = a+1) or 0
	uIsChild := make([]bool, n)
	for i := 0; i < n; i++ {
		td := tableDef{name: fmt.Sprintf("t%d", i), cols: []colDef{{name: "id", notNull: true}}}
		if rapid.IntRange(0, 3).Draw(rt, "hasU") > 0 {
			hasU[i] = len(td.cols)
			td.cols = append(td.cols, colDef{name: "u"})
			td.uniques = append(td.uniques, []int{hasU[i]})
		}
		if rapid.IntRange(0, 3).Draw(rt, "hasAB") == 0 {
			hasAB[i] = len(td.cols)
			nn := rapid.Bool().Draw(rt, "abNotNull")
			td.cols = append(td.cols, colDef{name: "a", notNull: nn}, colDef{name: "b", notNull: nn})
			td.uniques = append(td.uniques, []int{hasAB[i], hasAB[i] + 1})
		}
		sc.tables = append(sc.tables, td)
	}
	addFK := func(child, parent int) {
		td := &sc.tables[child]
		var keys [][]int
		keys = append(keys, []int{0}, []int{0}) // id twice: the most common parent key
		if hasU[parent] > 0 {
			keys = append(keys, []int{hasU[parent]})
		}
		if hasAB[parent] > 0 {
			keys = append(keys, []int{hasAB[parent], hasAB[parent] + 1})
		}
		pcols := rapid.SampledFrom(keys).Draw(rt, "pkey")
		f := &fkDef{name: fmt.Sprintf("fk%d", len(sc.fks)), child: child, parent: parent, pcols: pcols, active: true}
		notNull := false
		if len(pcols) == 1 && child != parent && hasU[child] > 0 && !uIsChild[child] && rapid.IntRange(0, 2).Draw(rt, "chainU") == 0 {
			// the child's own unique column is the child key: key changes propagate further down
			f.cols = []int{hasU[child]}
			uIsChild[child] = true
		} else {
			notNull = rapid.IntRange(0, 3).Draw(rt, "fkNotNull") == 0
			for k := range pcols {
				nm := fmt.Sprintf("f%d", len(sc.fks))
				if len(pcols) == 2 {
					nm += string(rune('x' + k))
				}
				f.cols = append(f.cols, len(td.cols))
				td.cols = append(td.cols, colDef{name: nm, notNull: notNull})
			}
		}
		acts := []action{actDefault, actRestrict, actNoAction, actCascade, actCascade, actSetNull, actSetNull}
		if notNull {
			acts = []action{actDefault, actRestrict, actNoAction, actCascade, actCascade}
		}
		if cascadeHeavy {
			// schemas in which most constraints propagate, so that multi-level effects occur
			acts = []action{actCascade, actCascade, actCascade, actSetNull, actSetNull, actRestrict}
			if notNull {
				acts = []action{actCascade, actCascade, actCascade, actRestrict}
			}
		}
		f.onDelete = rapid.SampledFrom(acts).Draw(rt, "onDelete")
		if child == parent {
			// ON UPDATE CASCADE / SET NULL on a self reference is excluded (DESIGN.md C18)
			f.onUpdate = rapid.SampledFrom([]action{actDefault, actRestrict, actNoAction}).Draw(rt, "onUpdate")
		} else {
			f.onUpdate = rapid.SampledFrom(acts).Draw(rt, "onUpdate")
		}
		f.viaAlter = rapid.IntRange(0, 3).Draw(rt, "viaAlter") == 0
		if rapid.IntRange(0, 5).Draw(rt, "late") == 0 {
			f.late, f.active = true, false
		}
		sc.fks = append(sc.fks, f)
	}
	for i := 0; i < n; i++ {
		if i > 0 {
			nf := rapid.IntRange(1, 2).Draw(rt, "nfk")
			for k := 0; k < nf; k++ {
				// bias to the previous table (chains) but allow any earlier one (diamonds)
				p := i - 1
				if rapid.Bool().Draw(rt, "anyParent") {
					p = rapid.IntRange(0, i-1).Draw(rt, "parent")
				}
				addFK(i, p)
			}
		}
		if rapid.IntRange(0, 2).Draw(rt, "self") == 0 {
			addFK(i, i)
		}
	}
	return sc
}

func (sc *schema) colNames(t int, cols []int) string {
	ns := make([]string, len(cols))
	for i, c := range cols {
		ns[i] = sc.tables[t].cols[c].name
	}
	return strings.Join(ns, ",")
}

func (sc *schema) fkClause(f *fkDef) string {
	return fmt.Sprintf("CONSTRAINT %s FOREIGN KEY (%s) REFERENCES %s (%s)%s%s", f.name, sc.colNames(f.child, f.cols),
		sc.tables[f.parent].name, sc.colNames(f.parent, f.pcols), f.onDelete.sql("DELETE"), f.onUpdate.sql("UPDATE"))
}

// ddl renders the schema in its current state (constraints that are not active are left out).
func (sc *schema) ddl() []string {
	var out, alters []string
	for t, td := range sc.tables {
		var parts []string
		for i, c := range td.cols {
			s := c.name + " INT"
			if i == 0 {
				s += " PRIMARY KEY"
			} else if c.notNull {
				s += " NOT NULL"
			}
			parts = append(parts, s)
		}
		for k, uk := range td.uniques {
			parts = append(parts, fmt.Sprintf("UNIQUE KEY uk%d (%s)", k, sc.colNames(t, uk)))
		}
		for _, f := range sc.fks {
			if f.child != t {
				continue
			}
			if !f.active {
				// a constraint that is added later: MySQL/the engine create the index on the child
				// columns implicitly at that time, unless one exists. hasIndex: the index exists
				// already (constraint was dropped, which keeps the index; or the index is declared
				// explicitly because finding C18-fk-index-not-built is listed).
				if f.hasIndex && !(len(f.cols) == 1 && td.cols[f.cols[0]].name == "u") {
					parts = append(parts, fmt.Sprintf("KEY %s (%s)", f.name, sc.colNames(t, f.cols)))
				}
				continue
			}
			if f.viaAlter {
				alters = append(alters, fmt.Sprintf("ALTER TABLE %s ADD %s", td.name, sc.fkClause(f)))
			} else {
				parts = append(parts, sc.fkClause(f))
			}
		}
		out = append(out, fmt.Sprintf("CREATE TABLE %s (%s)", td.name, strings.Join(parts, ", ")))
	}
	return append(out, alters...)
}

// shape labels for the class histogram
func (sc *schema) shapes() []string {
	var out []string
	depth := make([]int, len(sc.tables))
	parents := make([]map[int]bool, len(sc.tables))
	self, two, chainU := false, false, false
	for _, f := range sc.fks {
		if f.self() {
			self = true
			continue
		}
		if parents[f.child] == nil {
			parents[f.child] = map[int]bool{}
		}
		parents[f.child][f.parent] = true
		if len(f.cols) == 2 {
			two = true
		}
		if sc.tables[f.child].cols[f.cols[0]].name == "u" {
			chainU = true
		}
	}
	maxd := 0
	diamond := false
	anc := make([]map[int]int, len(sc.tables)) // ancestor -> number of distinct paths
	for t := range sc.tables {
		anc[t] = map[int]int{}
		for p := range parents[t] {
			if depth[p]+1 > depth[t] {
				depth[t] = depth[p] + 1
			}
			anc[t][p]++
			for a, k := range anc[p] {
				anc[t][a] += k
			}
		}
		for _, k := range anc[t] {
			if k >= 2 {
				diamond = true
			}
		}
		if depth[t] > maxd {
			maxd = depth[t]
		}
	}
	out = append(out, fmt.Sprintf("shape:depth%d", maxd))
	if diamond {
		out = append(out, "shape:diamond")
	}
	if self {
		out = append(out, "shape:self")
	}
	if two {
		out = append(out, "shape:two-column-key")
	}
	if chainU {
		out = append(out, "shape:key-chain")
	}
	return out
}

// ---------------------------------------------------------------------------------------
// the state machine

type machine struct {
	st       *stats.Collector
	sc       *schema
	f        *fx.Fixture
	s        *fx.Sess
	m        *state
	checksOn bool
	ddl0     []string // the initial schema statements
	dirty    bool     // a statement ran since the last invariant evaluation
	log      []string
	// rebuildAfterFailure: finding C18-stale-index-after-failed-stmt is listed as known; the region "history
	// continues on the same engine after a failed statement" is excluded by construction:
	// the contents are moved to a fresh engine after every failed statement.
	rebuildAfterFailure bool

	sawDeep, sawSelf, sawReject bool
}

func lit(v int64) string {
	if v == null {
		return "NULL"
	}
	return strconv.FormatInt(v, 10)
}

func (mc *machine) history() string {
	return "schema:\n  " + strings.Join(mc.ddl0, ";\n  ") + ";\nhistory:\n  " + strings.Join(mc.log, ";\n  ") + ";\n"
}

func (mc *machine) exec(rt *rapid.T, q string) *fx.Result {
	mc.log = append(mc.log, q)
	mc.dirty = true
	r := mc.s.Exec(q)
	if r.Panic != nil {
		rt.Fatalf("PANIC in %q: %v\n%s\n%s", q, r.Panic, r.Stack, mc.history())
	}
	if r.TimedOut {
		rt.Fatalf("timeout in %q\n%s", q, mc.history())
	}
	return r
}

func (mc *machine) read(rt *rapid.T, t int) [][]string {
	r := mc.s.Exec("SELECT * FROM " + mc.sc.tables[t].name)
	if !r.OK() {
		rt.Fatalf("cannot read %s: %s\n%s", mc.sc.tables[t].name, r, mc.history())
	}
	return fx.NormRows(r.Schema, r.Rows)
}

func (mc *machine) compare(rt *rapid.T, what string) {
	for t := range mc.sc.tables {
		got := mc.read(rt, t)
		want := mc.m.canon(t)
		if !fx.MultisetEqual(got, want) {
			rt.Fatalf("%s: table %s holds %s, the model of the prescribed actions gives %s\n%s", what, mc.sc.tables[t].name, fx.Show(got), fx.Show(want), mc.history())
		}
	}
}

// resync replaces the model contents by what the engine holds (used while foreign_key_checks
// is off, where the property asserts nothing).
func (mc *machine) resync(rt *rapid.T) {
	ns := newState(len(mc.sc.tables))
	for t := range mc.sc.tables {
		for _, r := range mc.read(rt, t) {
			v := make([]int64, len(r))
			for i, x := range r {
				if x == "N" {
					v[i] = null
				} else {
					n, err := strconv.ParseInt(strings.TrimPrefix(x, "n:"), 10, 64)
					if err != nil {
						rt.Fatalf("unexpected value %q in %s\n%s", x, mc.sc.tables[t].name, mc.history())
					}
					v[i] = n
				}
			}
			ns.add(t, v)
		}
	}
	mc.m = ns
}

// run executes one statement under foreign_key_checks = 1 and decides it against the model.
func (mc *machine) run(rt *rapid.T, q string, o outcome) {
	if !mc.checksOn {
		r := mc.exec(rt, q)
		mc.resync(rt)
		mc.st.Class("stmt:checks-off")
		if !r.OK() && mc.rebuildAfterFailure {
			mc.rebuild(rt)
		}
		return
	}
	if o.orderDep {
		// a row is deleted by one referential action and has a referenced key rewritten by
		// another: the effect on its own children depends on the order of the two - outside
		// the deterministic domain, not executed
		mc.st.Class("skipped:order-dependent-actions")
		rt.Skip()
	}
	if kf.Listed(findingSelfScan) {
		// region of finding C18-selfref-scan-skips-rows, excluded while it is listed: statements
		// that delete or rewrite two or more rows of a table with a self-referencing constraint
		// (directly or through referential actions). While such rows are visited (by the
		// statement's own scan or by the scan of a cascading action), the nested child lookup on
		// the same table applies the pending edits and the open scan skips rows.
		for _, f := range mc.sc.fks {
			if f.active && f.self() && o.actionRows[f.child] >= 2 {
				mc.st.Excluded(findingSelfScan)
				rt.Skip()
			}
		}
	}
	r := mc.exec(rt, q)
	mc.st.Class("model:" + o.class.String())
	switch {
	case r.OK():
		mc.st.Class("engine:ok")
		if o.class == mustFail {
			hint := ""
			if strings.HasPrefix(q, "UPDATE") && len(o.reasons) > 0 && strings.HasPrefix(o.reasons[0], "duplicate unique key") {
				hint = "\n  (a multi-row UPDATE that ends in a duplicate UNIQUE value is finding " + findingUniqueBypass + " of property C14; list it with \"also\": [\"C18\"] to keep C18 out of that region)"
			}
			rt.Fatalf("statement succeeded but must fail (%s)%s\n  statement: %s\n  before:\n%s%s", strings.Join(o.reasons, "; "), hint, q, describe(mc.sc, mc.m), mc.history())
		}
		mc.m = o.final
		if o.depth >= 2 {
			mc.sawDeep = true
			mc.st.Class("effect:depth>=2")
		} else if o.depth == 1 {
			mc.st.Class("effect:depth1")
		}
		if o.selfRows {
			mc.sawSelf = true
			mc.st.Class("effect:self-reference")
		}
	default:
		mc.st.Class("engine:failed")
		if o.class == mustSucceed {
			rt.Fatalf("statement failed (%v) but no constraint forbids it\n  statement: %s\n  before:\n%s%s", r.Err, q, describe(mc.sc, mc.m), mc.history())
		}
		if o.fkReject {
			mc.sawReject = true
			mc.st.Class("effect:fk-rejected")
		}
		mc.compare(rt, "after failed "+q)
		if mc.rebuildAfterFailure {
			mc.rebuild(rt)
		}
		return
	}
	mc.compare(rt, "after "+q)
}

// rebuild moves the (verified) contents to a fresh engine.
func (mc *machine) rebuild(rt *rapid.T) {
	mc.st.Excluded(findingSharedIdx + ":after-failed-stmt")
	mc.f.Close()
	mc.f = fx.New(fx.Opts{})
	mc.s = mc.f.NewSession("", "", "")
	mc.log = append(mc.log, "-- FRESH ENGINE: contents moved ("+findingSharedIdx+" listed), the statements above no longer matter")
	stmts := append([]string{}, mc.sc.ddl()...)
	stmts = append(stmts, "SET foreign_key_checks = 0")
	for t, td := range mc.sc.tables {
		if len(mc.m.rows[t]) == 0 {
			continue
		}
		var tuples []string
		for _, r := range mc.m.rows[t] {
			ls := make([]string, len(r.v))
			for j, x := range r.v {
				ls[j] = lit(x)
			}
			tuples = append(tuples, "("+strings.Join(ls, ",")+")")
		}
		stmts = append(stmts, fmt.Sprintf("INSERT INTO %s VALUES %s", td.name, strings.Join(tuples, ",")))
	}
	if mc.checksOn {
		stmts = append(stmts, "SET foreign_key_checks = 1")
	}
	for _, q := range stmts {
		mc.log = append(mc.log, q)
		if r := mc.s.Exec(q); !r.OK() {
			rt.Fatalf("harness: rebuild statement failed: %s -> %s\n%s", q, r, mc.history())
		}
	}
}

func (mc *machine) pickTable(rt *rapid.T) int {
	return rapid.IntRange(0, len(mc.sc.tables)-1).Draw(rt, "table")
}

// existing values of a column group, as candidates
func (mc *machine) existingKeys(t int, cols []int) [][]int64 {
	var out [][]int64
	for _, r := range mc.m.rows[t] {
		if k, ok := key(r.v, cols); ok {
			out = append(out, k)
		}
	}
	return out
}

func smallVal(rt *rapid.T, label string) int64 {
	return int64(rapid.IntRange(1, 8).Draw(rt, label))
}

// genRow draws the values of a new row of table t: foreign key columns mostly reference
// existing parent keys, sometimes NULL, sometimes an arbitrary (possibly missing) key.
func (mc *machine) genRow(rt *rapid.T, t int, pending [][]int64) []int64 {
	td := mc.sc.tables[t]
	v := make([]int64, len(td.cols))
	// values already taken (table contents and the rows drawn earlier for this statement)
	taken := func(col int, x int64) bool {
		for _, r := range mc.m.rows[t] {
			if r.v[col] == x {
				return true
			}
		}
		for _, r := range pending {
			if r[col] == x {
				return true
			}
		}
		return false
	}
	// mostly fresh values for unique columns (a duplicate fails the whole plain INSERT)
	fresh := func(col int, label string) int64 {
		x := smallVal(rt, label)
		if rapid.IntRange(0, 9).Draw(rt, label+"MayCollide") > 0 {
			for k := int64(0); k < 8 && taken(col, x); k++ {
				x = x%8 + 1
			}
		}
		return x
	}
	for i, c := range td.cols {
		switch c.name {
		case "id":
			v[i] = fresh(i, "id")
		case "u":
			v[i] = fresh(i, "u")
			if rapid.IntRange(0, 4).Draw(rt, "uNull") == 0 {
				v[i] = null
			}
		case "a", "b":
			v[i] = int64(rapid.IntRange(1, 3).Draw(rt, c.name))
			if !c.notNull && rapid.IntRange(0, 5).Draw(rt, "abNull") == 0 {
				v[i] = null
			}
		}
	}
	// avoid most (a,b) collisions
	for _, uk := range td.uniques {
		if len(uk) == 2 && rapid.IntRange(0, 9).Draw(rt, "abMayCollide") > 0 {
			for k := 0; k < 9; k++ {
				hit := false
				for _, r := range mc.m.rows[t] {
					hit = hit || (r.v[uk[0]] == v[uk[0]] && r.v[uk[1]] == v[uk[1]] && v[uk[0]] != null && v[uk[1]] != null)
				}
				for _, r := range pending {
					hit = hit || (r[uk[0]] == v[uk[0]] && r[uk[1]] == v[uk[1]] && v[uk[0]] != null && v[uk[1]] != null)
				}
				if !hit {
					break
				}
				v[uk[0]] = int64(k/3 + 1)
				v[uk[1]] = int64(k%3 + 1)
			}
		}
	}
	for _, f := range mc.sc.fks {
		if f.child != t {
			continue
		}
		mc.genChildKey(rt, f, v)
		if len(f.cols) == 1 && td.cols[f.cols[0]].name == "u" && v[f.cols[0]] != null && taken(f.cols[0], v[f.cols[0]]) && rapid.IntRange(0, 9).Draw(rt, "chainMayCollide") > 0 {
			// key-chain column (unique and a child key): prefer NULL to a duplicate
			v[f.cols[0]] = null
		}
	}
	return v
}

// genChildKey fills the child columns of f in v.
func (mc *machine) genChildKey(rt *rapid.T, f *fkDef, v []int64) {
	td := mc.sc.tables[f.child]
	ex := mc.existingKeys(f.parent, f.pcols)
	kind := rapid.IntRange(0, 9).Draw(rt, "fkKind")
	switch {
	case kind <= 7 && len(ex) > 0:
		k := rapid.SampledFrom(ex).Draw(rt, "parentKey")
		for i, c := range f.cols {
			v[c] = k[i]
		}
	case kind == 8 && !td.cols[f.cols[0]].notNull:
		// NULL in one or all parts
		which := rapid.IntRange(0, len(f.cols)).Draw(rt, "nullPart")
		for i, c := range f.cols {
			if which == len(f.cols) || which == i {
				v[c] = null
			} else {
				v[c] = smallVal(rt, "fkv")
			}
		}
	default:
		for _, c := range f.cols {
			if f.self() && len(f.pcols) == 1 && f.pcols[0] == 0 && rapid.Bool().Draw(rt, "selfRow") {
				v[c] = v[0] // a row that references itself
			} else if len(f.pcols) == 2 {
				v[c] = int64(rapid.IntRange(1, 3).Draw(rt, "fkv"))
			} else {
				v[c] = smallVal(rt, "fkv")
			}
		}
	}
}

func (mc *machine) insert(rt *rapid.T) {
	t := mc.pickTable(rt)
	mc.insertInto(rt, t, rapid.IntRange(1, 3).Draw(rt, "nrows"))
}

func (mc *machine) insertInto(rt *rapid.T, t, nrows int) {
	mode := insPlain
	switch rapid.IntRange(0, 9).Draw(rt, "mode") {
	case 0, 1:
		mode = insIgnore
	case 2, 3:
		mode = insReplace
		nrows = 1
	}
	var rows [][]int64
	var tuples []string
	for i := 0; i < nrows; i++ {
		v := mc.genRow(rt, t, rows)
		if i > 0 && rapid.IntRange(0, 3).Draw(rt, "refPrev") == 0 {
			// reference a row inserted earlier in the same statement (self reference by id)
			for _, f := range mc.sc.fks {
				if f.child == t && f.self() && len(f.pcols) == 1 && rows[i-1][f.pcols[0]] != null {
					v[f.cols[0]] = rows[i-1][f.pcols[0]]
				}
			}
		}
		rows = append(rows, v)
		ls := make([]string, len(v))
		for j, x := range v {
			ls[j] = lit(x)
		}
		tuples = append(tuples, "("+strings.Join(ls, ",")+")")
	}
	verb := map[insMode]string{insPlain: "INSERT INTO", insIgnore: "INSERT IGNORE INTO", insReplace: "REPLACE INTO"}[mode]
	q := fmt.Sprintf("%s %s VALUES %s", verb, mc.sc.tables[t].name, strings.Join(tuples, ","))
	var o outcome
	if mc.checksOn {
		o = modelInsert(mc.sc, mc.m, t, rows, mode)
		mc.st.Class("op:" + strings.ToLower(strings.Fields(verb)[0]+map[bool]string{true: "-ignore", false: ""}[mode == insIgnore]))
	}
	mc.run(rt, q, o)
}

// pred is a generated WHERE clause with its Go evaluation.
type pred struct {
	sql   string
	match func(v []int64) bool
}

func (mc *machine) genPred(rt *rapid.T, t int) pred {
	td := mc.sc.tables[t]
	ids := mc.existingKeys(t, []int{0})
	if ref := mc.referencedIDs(t); len(ref) > 0 && rapid.IntRange(0, 2).Draw(rt, "preferReferenced") > 0 {
		ids = ref
	}
	pickID := func(label string) int64 {
		if len(ids) > 0 && rapid.IntRange(0, 4).Draw(rt, label+"Existing") > 0 {
			return rapid.SampledFrom(ids).Draw(rt, label)[0]
		}
		return smallVal(rt, label)
	}
	switch rapid.IntRange(0, 9).Draw(rt, "predKind") {
	case 0, 1, 2, 3:
		k := pickID("k")
		return pred{fmt.Sprintf(" WHERE id = %d", k), func(v []int64) bool { return v[0] == k }}
	case 4, 5:
		n := rapid.IntRange(2, 3).Draw(rt, "nIn")
		ks := make([]int64, n)
		ss := make([]string, n)
		for i := range ks {
			ks[i] = pickID("k")
			ss[i] = lit(ks[i])
		}
		return pred{" WHERE id IN (" + strings.Join(ss, ",") + ")", func(v []int64) bool {
			for _, k := range ks {
				if v[0] == k {
					return true
				}
			}
			return false
		}}
	case 6:
		k := pickID("k")
		if rapid.Bool().Draw(rt, "ge") {
			return pred{fmt.Sprintf(" WHERE id >= %d", k), func(v []int64) bool { return v[0] >= k }}
		}
		return pred{fmt.Sprintf(" WHERE id <= %d", k), func(v []int64) bool { return v[0] <= k }}
	case 7:
		if len(td.cols) > 1 {
			c := rapid.IntRange(1, len(td.cols)-1).Draw(rt, "col")
			if !td.cols[c].notNull && rapid.IntRange(0, 2).Draw(rt, "isNull") == 0 {
				return pred{fmt.Sprintf(" WHERE %s IS NULL", td.cols[c].name), func(v []int64) bool { return v[c] == null }}
			}
			k := smallVal(rt, "k")
			return pred{fmt.Sprintf(" WHERE %s = %d", td.cols[c].name, k), func(v []int64) bool { return v[c] == k }}
		}
	}
	return pred{"", func(v []int64) bool { return true }}
}

// referencedIDs lists the ids of the rows of t that some child row references through an
// active foreign key (these are the rows on which referential actions have work to do).
func (mc *machine) referencedIDs(t int) [][]int64 {
	var out [][]int64
	for _, r := range mc.m.rows[t] {
		hit := false
		for _, f := range mc.sc.fks {
			if !f.active || f.parent != t || hit {
				continue
			}
			k, ok := key(r.v, f.pcols)
			if !ok {
				continue
			}
			for _, c := range mc.m.rows[f.child] {
				if ck, ok := key(c.v, f.cols); ok && keyEq(ck, k) {
					hit = true
					break
				}
			}
		}
		if hit {
			out = append(out, []int64{r.v[0]})
		}
	}
	return out
}

// pickParentTable prefers tables that are referenced by an active foreign key.
func (mc *machine) pickParentTable(rt *rapid.T) int {
	var ps []int
	for t := range mc.sc.tables {
		for _, f := range mc.sc.fks {
			if f.active && f.parent == t {
				ps = append(ps, t)
				break
			}
		}
	}
	if len(ps) > 0 && rapid.IntRange(0, 3).Draw(rt, "preferParent") > 0 {
		return rapid.SampledFrom(ps).Draw(rt, "parentTable")
	}
	return mc.pickTable(rt)
}

func (mc *machine) matching(t int, p pred) []int {
	var rids []int
	for _, r := range mc.m.rows[t] {
		if p.match(r.v) {
			rids = append(rids, r.rid)
		}
	}
	return rids
}

func (mc *machine) delete(rt *rapid.T) {
	t := mc.pickParentTable(rt)
	p := mc.genPred(rt, t)
	q := "DELETE FROM " + mc.sc.tables[t].name + p.sql
	var o outcome
	if mc.checksOn {
		rids := mc.matching(t, p)
		o = modelDelete(mc.sc, mc.m, t, rids)
		mc.st.Class("op:delete")
		if len(rids) > 1 {
			mc.st.Class("op:delete-multirow")
		}
	}
	mc.run(rt, q, o)
}

// deepAction looks (with the model) for a single-row DELETE or key UPDATE whose referential
// actions reach two or more levels, and runs one of them; generation bias only.
func (mc *machine) deepAction(rt *rapid.T) {
	if !mc.checksOn {
		rt.Skip()
	}
	type cand struct {
		q string
		o outcome
	}
	var cands []cand
	for t, td := range mc.sc.tables {
		used := map[int64]bool{}
		for _, r := range mc.m.rows[t] {
			used[r.v[0]] = true
		}
		nid := int64(1)
		for used[nid] {
			nid++
		}
		for _, r := range mc.m.rows[t] {
			if o := modelDelete(mc.sc, mc.m, t, []int{r.rid}); o.depth >= 2 {
				cands = append(cands, cand{fmt.Sprintf("DELETE FROM %s WHERE id = %d", td.name, r.v[0]), o})
			}
			for _, g := range mc.keyGroups(t) {
				if len(g) != 1 {
					continue
				}
				c := g[0]
				nv := nid
				if c != 0 {
					nv = 0
					for x := int64(1); x <= 9; x++ {
						free := true
						for _, r2 := range mc.m.rows[t] {
							if r2.v[c] == x {
								free = false
							}
						}
						if free {
							nv = x
							break
						}
					}
					if nv == 0 {
						continue
					}
				}
				o := modelUpdate(mc.sc, mc.m, t, []int{r.rid}, func([]int64) map[int]int64 { return map[int]int64{c: nv} })
				if o.depth >= 2 {
					cands = append(cands, cand{fmt.Sprintf("UPDATE %s SET %s = %d WHERE id = %d", td.name, td.cols[c].name, nv, r.v[0]), o})
				}
			}
		}
	}
	if len(cands) == 0 {
		rt.Skip()
	}
	c := cands[rapid.IntRange(0, len(cands)-1).Draw(rt, "deepCandidate")]
	mc.st.Class("op:deep-" + strings.ToLower(strings.Fields(c.q)[0]))
	mc.run(rt, c.q, c.o)
}

// parentKeyGroups lists the column groups of t that some foreign key references (plus id).
func (mc *machine) keyGroups(t int) [][]int {
	groups := [][]int{{0}}
	seen := map[string]bool{"[0]": true}
	for _, f := range mc.sc.fks {
		if f.parent == t && !seen[fmt.Sprint(f.pcols)] {
			seen[fmt.Sprint(f.pcols)] = true
			groups = append(groups, f.pcols)
		}
	}
	for _, uk := range mc.sc.tables[t].uniques {
		if !seen[fmt.Sprint(uk)] {
			seen[fmt.Sprint(uk)] = true
			groups = append(groups, uk)
		}
	}
	return groups
}

// updateKey rewrites a (possibly referenced) key of one row.
func (mc *machine) updateKey(rt *rapid.T) {
	t := mc.pickParentTable(rt)
	td := mc.sc.tables[t]
	g := rapid.SampledFrom(mc.keyGroups(t)).Draw(rt, "group")
	set := map[int]int64{}
	var asg []string
	only := -1 // for a two-column key: rewrite both parts or only one
	if len(g) == 2 {
		only = rapid.IntRange(-1, 1).Draw(rt, "onlyPart")
	}
	for i, c := range g {
		if only >= 0 && only != i {
			continue
		}
		var v int64
		switch td.cols[c].name {
		case "a", "b":
			v = int64(rapid.IntRange(1, 3).Draw(rt, "nv"))
		default:
			v = smallVal(rt, "nv")
		}
		if c != 0 && !td.cols[c].notNull && rapid.IntRange(0, 5).Draw(rt, "toNull") == 0 {
			v = null
		}
		set[c] = v
		asg = append(asg, td.cols[c].name+" = "+lit(v))
	}
	if len(asg) == 0 {
		rt.Skip()
	}
	ids := mc.existingKeys(t, []int{0})
	if ref := mc.referencedIDs(t); len(ref) > 0 && rapid.IntRange(0, 2).Draw(rt, "preferReferenced") > 0 {
		ids = ref
	}
	k := smallVal(rt, "k")
	if len(ids) > 0 && rapid.IntRange(0, 5).Draw(rt, "existing") > 0 {
		k = rapid.SampledFrom(ids).Draw(rt, "id")[0]
	}
	p := pred{fmt.Sprintf(" WHERE id = %d", k), func(v []int64) bool { return v[0] == k }}
	q := "UPDATE " + td.name + " SET " + strings.Join(asg, ", ") + p.sql
	var o outcome
	if mc.checksOn {
		o = modelUpdate(mc.sc, mc.m, t, mc.matching(t, p), func([]int64) map[int]int64 { return set })
		mc.st.Class("op:update-key")
	}
	mc.run(rt, q, o)
}

// shiftKeys rewrites the primary key of several rows at once (id = id + d).
func (mc *machine) shiftKeys(rt *rapid.T) {
	t := mc.pickParentTable(rt)
	p := mc.genPred(rt, t)
	d := int64(rapid.SampledFrom([]int{10, 10, -10, 1, -1, 2}).Draw(rt, "delta"))
	q := fmt.Sprintf("UPDATE %s SET id = id + %d%s", mc.sc.tables[t].name, d, p.sql)
	if d < 0 {
		q = fmt.Sprintf("UPDATE %s SET id = id - %d%s", mc.sc.tables[t].name, -d, p.sql)
	}
	// A shift in which the new key of one row is the old key of another updated row has an
	// order-dependent result (cascades re-key children twice or once; duplicate or not):
	// outside the deterministic domain, not generated.
	{
		old := map[int64]bool{}
		for _, rid := range mc.matching(t, p) {
			old[mc.m.find(t, rid).v[0]] = true
		}
		for k := range old {
			if old[k+d] {
				mc.st.Class("skipped:order-dependent-shift")
				rt.Skip()
			}
		}
	}
	var o outcome
	if mc.checksOn {
		rids := mc.matching(t, p)
		o = modelUpdate(mc.sc, mc.m, t, rids, func(v []int64) map[int]int64 { return map[int]int64{0: v[0] + d} })
		mc.st.Class("op:update-key-multirow")
	}
	mc.run(rt, q, o)
}

// updateChild points the child columns of one foreign key of several rows to one key.
func (mc *machine) updateChild(rt *rapid.T) {
	var cands []*fkDef
	for _, f := range mc.sc.fks {
		cands = append(cands, f)
	}
	if len(cands) == 0 {
		rt.Skip()
	}
	f := rapid.SampledFrom(cands).Draw(rt, "fk")
	t := f.child
	td := mc.sc.tables[t]
	v := make([]int64, len(td.cols))
	mc.genChildKey(rt, f, v)
	set := map[int]int64{}
	var asg []string
	for _, c := range f.cols {
		set[c] = v[c]
		asg = append(asg, td.cols[c].name+" = "+lit(v[c]))
	}
	p := mc.genPred(rt, t)
	q := "UPDATE " + td.name + " SET " + strings.Join(asg, ", ") + p.sql
	if kf.Listed(findingUniqueBypass) && len(f.cols) == 1 && td.cols[f.cols[0]].name == "u" && v[f.cols[0]] != null && len(mc.matching(t, p)) >= 2 {
		// A multi-row UPDATE that gives several rows the same UNIQUE value is not reliably
		// rejected by the engine (unique-key enforcement is property C14's subject: finding
		// C14-deleted-unique, see notes/C18.md). Not a foreign-key matter: the statement is
		// not executed while that finding is listed for C18 (entry with "also": ["C18"]).
		mc.st.Excluded(findingUniqueBypass)
		rt.Skip()
	}
	var o outcome
	if mc.checksOn {
		o = modelUpdate(mc.sc, mc.m, t, mc.matching(t, p), func(old []int64) map[int]int64 {
			// a row that references itself: value "v[0]" was drawn for id 0, keep the literal
			return set
		})
		mc.st.Class("op:update-child")
	}
	mc.run(rt, q, o)
}

// checksOffEpisode: SET foreign_key_checks = 0, one to three unconstrained statements (the
// property asserts nothing about them), integrity re-established by construction, checks on.
func (mc *machine) checksOffEpisode(rt *rapid.T) {
	if !mc.checksOn {
		rt.Skip()
	}
	mc.exec(rt, "SET foreign_key_checks = 0")
	mc.checksOn = false
	mc.st.Class("op:checks-off")
	n := rapid.IntRange(1, 3).Draw(rt, "offStatements")
	for i := 0; i < n; i++ {
		switch rapid.IntRange(0, 3).Draw(rt, "offKind") {
		case 0:
			mc.insert(rt)
		case 1:
			mc.delete(rt)
		case 2:
			mc.updateKey(rt)
		default:
			mc.updateChild(rt)
		}
	}
	mc.checksBackOn(rt)
}

// checksBackOn re-establishes integrity by construction (orphans are deleted while the
// checks are still off, repeatedly, since a deleted row may have been a parent) and turns
// the checks on again.
func (mc *machine) checksBackOn(rt *rapid.T) {
	if mc.checksOn {
		rt.Skip()
	}
	mc.resync(rt)
	for round := 0; ; round++ {
		orph := mc.sc.orphans(mc.m)
		if len(orph) == 0 {
			break
		}
		if round > 50 {
			rt.Fatalf("harness: orphan repair does not terminate\n%s", mc.history())
		}
		byTable := map[int]map[int64]bool{}
		for f, rids := range orph {
			for _, rid := range rids {
				if byTable[f.child] == nil {
					byTable[f.child] = map[int64]bool{}
				}
				byTable[f.child][mc.m.find(f.child, rid).v[0]] = true
			}
		}
		var ts []int
		for t := range byTable {
			ts = append(ts, t)
		}
		sort.Ints(ts)
		for _, t := range ts {
			var ids []int64
			for id := range byTable[t] {
				ids = append(ids, id)
			}
			sort.Slice(ids, func(i, j int) bool { return ids[i] < ids[j] })
			ss := make([]string, len(ids))
			for i, id := range ids {
				ss[i] = lit(id)
			}
			r := mc.exec(rt, fmt.Sprintf("DELETE FROM %s WHERE id IN (%s)", mc.sc.tables[t].name, strings.Join(ss, ",")))
			if !r.OK() {
				rt.Fatalf("repair statement failed with foreign_key_checks = 0: %s\n%s", r, mc.history())
			}
		}
		mc.resync(rt)
		mc.st.Class("repair:orphans-deleted")
	}
	mc.exec(rt, "SET foreign_key_checks = 1")
	mc.checksOn = true
	mc.st.Class("op:checks-on")
}

// dropFK / addFK: a dropped constraint stops acting; re-adding it must fail while the data
// has orphans for it and succeed (and act again) otherwise.
func (mc *machine) dropFK(rt *rapid.T) {
	if !mc.checksOn {
		rt.Skip()
	}
	var act []*fkDef
	for _, f := range mc.sc.fks {
		if f.active {
			act = append(act, f)
		}
	}
	if len(act) == 0 {
		rt.Skip()
	}
	f := rapid.SampledFrom(act).Draw(rt, "fk")
	r := mc.exec(rt, fmt.Sprintf("ALTER TABLE %s DROP FOREIGN KEY %s", mc.sc.tables[f.child].name, f.name))
	if !r.OK() {
		rt.Fatalf("DROP FOREIGN KEY failed: %s\n%s", r, mc.history())
	}
	f.active = false
	mc.st.Class("op:drop-fk")
	mc.compare(rt, "after DROP FOREIGN KEY")
}

func (mc *machine) addFK(rt *rapid.T) {
	if !mc.checksOn {
		rt.Skip()
	}
	var in []*fkDef
	for _, f := range mc.sc.fks {
		if !f.active {
			in = append(in, f)
		}
	}
	if len(in) == 0 {
		rt.Skip()
	}
	f := rapid.SampledFrom(in).Draw(rt, "fk")
	f.active = true
	orph := len(mc.sc.orphans(mc.m)[f]) > 0
	f.active = false
	r := mc.exec(rt, fmt.Sprintf("ALTER TABLE %s ADD %s", mc.sc.tables[f.child].name, mc.sc.fkClause(f)))
	switch {
	case r.OK() && orph:
		rt.Fatalf("ADD FOREIGN KEY %s succeeded although child rows without a parent exist\n%s%s", f.name, describe(mc.sc, mc.m), mc.history())
	case !r.OK() && !orph:
		rt.Fatalf("ADD FOREIGN KEY %s failed (%v) although every child key has a parent\n%s%s", f.name, r.Err, describe(mc.sc, mc.m), mc.history())
	case r.OK():
		f.active = true
		f.hasIndex = true
		mc.st.Class("op:add-fk-ok")
	default:
		mc.sawReject = true
		mc.st.Class("op:add-fk-rejected")
	}
	mc.compare(rt, "after ADD FOREIGN KEY")
}

// orphanQuery is the referential check query of DESIGN.md C18.
func (sc *schema) orphanQuery(f *fkDef) string {
	var on, nn []string
	for i, c := range f.cols {
		cn := sc.tables[f.child].cols[c].name
		on = append(on, fmt.Sprintf("c.%s = p.%s", cn, sc.tables[f.parent].cols[f.pcols[i]].name))
		nn = append(nn, fmt.Sprintf("c.%s IS NOT NULL", cn))
	}
	return fmt.Sprintf("SELECT COUNT(*) FROM %s c LEFT JOIN %s p ON %s WHERE %s AND p.id IS NULL",
		sc.tables[f.child].name, sc.tables[f.parent].name, strings.Join(on, " AND "), strings.Join(nn, " AND "))
}

// invariant: with the checks on, no active foreign key has an orphan - decided on the
// contents read back from the engine, and cross-checked with the engine's own join query.
func (mc *machine) invariant(rt *rapid.T) {
	if !mc.checksOn || !mc.dirty {
		return
	}
	mc.dirty = false
	if orph := mc.sc.orphans(mc.m); len(orph) > 0 {
		for f, rids := range orph {
			rt.Fatalf("orphans: %d row(s) of %s hold a non-NULL key of %s without parent row\n%s%s", len(rids), mc.sc.tables[f.child].name, f.name, describe(mc.sc, mc.m), mc.history())
		}
	}
	for _, f := range mc.sc.fks {
		if !f.active {
			continue
		}
		q := mc.sc.orphanQuery(f)
		r := mc.s.Exec(q)
		if !r.OK() {
			rt.Fatalf("orphan query failed: %s: %s\n%s", q, r, mc.history())
		}
		if got := fx.NormRows(r.Schema, r.Rows); len(got) != 1 || got[0][0] != "n:0" {
			rt.Fatalf("orphan query %s returns %s although the contents read back have no orphan\n%s%s", q, fx.Show(got), describe(mc.sc, mc.m), mc.history())
		}
	}
}

// findingSharedIdx: a statement that fails after some of its row edits were applied leaves
// the secondary indexes of the restored table contents corrupted (memory.TableData.copy
// shares the index rows with the working copy, which rewrites them in place); later
// referential actions, which find children through these indexes, then miss rows.
const findingSharedIdx = "C18-stale-index-after-failed-stmt"

// findingFKIndex: ALTER TABLE ... ADD FOREIGN KEY on a populated child table without an index
// on the child columns registers the implicit index but never fills it with the existing
// rows (memory.Table.CreateIndexForForeignKey); referential actions and RESTRICT checks
// find children through that index and miss every pre-existing child row.
const findingFKIndex = "C18-fk-index-not-built"

// findingSelfScan: while the rows of a table with a self-referencing foreign key are visited
// (by the statement's own scan or by the child scan of a cascading action), the referential
// action's lookup of the children (same table) goes through tableEditor.IndexedAccess, which
// applies the pending edits to the table: the storage under the open scan shrinks / is
// re-sorted and the scan skips rows - the statement silently processes only part of its rows.
const findingSelfScan = "C18-selfref-scan-skips-rows"

// findingUniqueBypass is C14's finding (not a foreign-key defect): a multi-row UPDATE that
// gives several rows the same UNIQUE value succeeds, because the unique check of the
// in-memory table editor gives up as soon as a row deleted earlier in the statement has the
// value (pkTableEditAccumulator.GetByCols). C18's model needs UNIQUE keys to hold (they are
// the referenced keys), so the statement form is skipped while the finding is listed.
const findingUniqueBypass = "C14-deleted-unique"

func TestC18(t *testing.T) {
	st := stats.New("C18", "")
	defer st.Flush()
	rapid.Check(t, func(rt *rapid.T) {
		st.Eval()
		sc := genSchema(rt)
		mc := &machine{st: st, sc: sc, f: fx.New(fx.Opts{}), m: newState(len(sc.tables)), checksOn: true, rebuildAfterFailure: kf.Listed(findingSharedIdx)}
		mc.s = mc.f.NewSession("", "", "")
		defer func() { mc.f.Close() }()
		for _, fk := range sc.fks {
			fk.hasIndex = !fk.late
			if fk.late && kf.Listed(findingFKIndex) {
				// excluded by construction: the index that ADD FOREIGN KEY would have to build on
				// a populated table is declared explicitly in CREATE TABLE
				fk.hasIndex = true
				st.Excluded(findingFKIndex)
			}
		}
		mc.ddl0 = sc.ddl()
		for _, q := range mc.ddl0 {
			r := mc.s.Exec(q)
			if !r.OK() {
				rt.Fatalf("schema statement failed: %s -> %s\n%s", q, r, mc.history())
			}
		}
		for _, l := range sc.shapes() {
			st.Class(l)
		}
		for _, fk := range sc.fks {
			st.Class("fk-on-delete:" + fk.onDelete.String())
			st.Class("fk-on-update:" + fk.onUpdate.String())
		}
		// initial population, parents first
		for t := range sc.tables {
			mc.insertInto(rt, t, rapid.IntRange(3, 5).Draw(rt, "initRows"))
		}
		rt.Repeat(map[string]func(*rapid.T){
			"insert":      mc.insert,
			"insert2":     mc.insert,
			"insert3":     mc.insert,
			"insert4":     mc.insert,
			"delete":      mc.delete,
			"delete2":     mc.delete,
			"updateKey":   mc.updateKey,
			"updateKey2":  mc.updateKey,
			"shiftKeys":   mc.shiftKeys,
			"updateChild": mc.updateChild,
			"checksOff":   mc.checksOffEpisode,
			"delete3":     mc.delete,
			"deep":        mc.deepAction,
			"deep2":       mc.deepAction,
			"updateKey3":  mc.updateKey,
			"dropFK":      mc.dropFK,
			"addFK":       mc.addFK,
			"addFK2":      mc.addFK,
			"":            mc.invariant,
		})
		if os.Getenv("C18_DUMP") != "" {
			fmt.Println(mc.history())
		}
		if mc.sawDeep || mc.sawSelf || mc.sawReject {
			n := len(mc.log)
			if n > 12 {
				n = 12
			}
			st.NonTrivial(map[string]any{"schema": mc.ddl0, "first_statements": mc.log[:n], "deep": mc.sawDeep, "self": mc.sawSelf, "rejected": mc.sawReject},
				strings.Join(mc.ddl0, ";"), strings.Join(mc.log, ";"))
		}
	})
}
