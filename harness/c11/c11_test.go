// Package c11 checks property C11: repeated queries reflect the current data; no stale results.
//
// One rapid case is a history (rapid state machine) on one long-lived engine with two
// sessions: generated DML (INSERT / UPDATE / DELETE / TRUNCATE), DDL (CREATE / DROP INDEX,
// ALTER TABLE ADD / DROP COLUMN) and transaction control (BEGIN / COMMIT / ROLLBACK in
// session 0) are interleaved with re-executions of a fixed pool of generated queries (joins,
// correlated and uncorrelated subqueries, IN-subqueries, grouping, set operations; plain,
// through a view, through a CTE, through a CTE read twice, under window functions), run as
// plain text, through SQL PREPARE / EXECUTE and through the API's prepared-statement cache.
//
// Oracle: every execution must equal a fresh evaluation on the data visible to that session
// at that moment, where the visible data is kept by a model (single-table deterministic DML
// interpreted with the reference evaluator) and the fresh evaluation is (a) the same statement
// on a brand-new engine loaded with the model's rows and (b) the reference evaluator
// internal/ref. A result is a violation only if it differs from both (a result equal to either
// fresh evaluation is by definition not stale; whether the engine's fresh answer is the right
// one is the subject of C02, not of this property). The same query run twice in a row on
// unchanged data must return the same result.
package c11

import (
	"context"
	"fmt"
	"hash/fnv"
	"strings"

	"github.com/dolthub/go-mysql-server/sql"
	"github.com/dolthub/go-mysql-server/sql/memo"
	"github.com/dolthub/go-mysql-server/vh/internal/fx"
	"github.com/dolthub/go-mysql-server/vh/internal/gen"
	"github.com/dolthub/go-mysql-server/vh/internal/ref"
	"github.com/dolthub/go-mysql-server/vh/internal/stats"
	"pgregory.net/rapid"
)

// Finding ids of this property (see notes/C11.md, notes/C11.findings.json).
const (
	// a session's uncommitted changes become visible to other sessions' reads through a
	// secondary index and survive ROLLBACK (index rows shared between table copies)
	idIndexLeak = "C11-shared-index-rows"
	// SELECT from a view inside an explicit transaction commits the transaction (binding the
	// stored CREATE VIEW statement marks the whole query as DDL)
	idViewCommit = "C11-view-select-commits"
)

// hashCoster makes the optimizer pick pseudo-random physical plans (as in C01); the same
// coster is installed in the long-lived engine and in the fresh twin.
type hashCoster struct{ salt uint64 }

func (c hashCoster) EstimateCost(ctx *sql.Context, r memo.RelExpr, _ sql.StatsProvider) (float64, error) {
	h := fnv.New64a()
	fmt.Fprintf(h, "%d|%T|%s", c.salt, r, r)
	return 1 + float64(h.Sum64()%9973), nil
}

const (
	formPlain  = "plain"
	formView   = "view"
	formCTE    = "cte"
	formCTE2   = "cte2"
	formWindow = "window"
)

const (
	modeText = "text"
	modeSQL  = "sql-prepare"
	modeAPI  = "api-prepare"
)

type poolQuery struct {
	idx     int
	q       gen.Query
	form    string
	text    string // the statement that is re-executed
	view    string // CREATE VIEW statement the text depends on ("" = none)
	ordered bool   // compare as a sequence
	approx  []bool // per output column of text: AVG tolerance applies
	part    bool   // window form: has the PARTITION BY column
	labels  []string

	lastBase string // rendering of the reference result at the previous execution
	execs    int
	changed  int // executions whose reference result differs from the previous execution's
}

// transform maps the reference rows of q to the rows the statement text must return.
func (p *poolQuery) transform(base [][]string) [][]string {
	n := fmt.Sprintf("n:%d", len(base))
	out := make([][]string, len(base))
	switch p.form {
	case formCTE2:
		for i, r := range base {
			out[i] = append([]string{n}, r...)
		}
	case formWindow:
		cnt := map[string]int{}
		for _, r := range base {
			cnt[r[0]]++
		}
		for i, r := range base {
			row := append(append([]string{}, r...), n)
			if p.part {
				row = append(row, fmt.Sprintf("n:%d", cnt[r[0]]))
			}
			out[i] = row
		}
	default:
		return base
	}
	return out
}

type sessState struct {
	s      *fx.Sess
	id     int
	sqlPre map[int]bool
	apiPre map[int]bool
}

type twin struct {
	f *fx.Fixture
	s *fx.Sess
}

type machine struct {
	st      *stats.Collector
	schema  *gen.Schema
	coster  memo.Coster
	f       *fx.Fixture
	sess    []*sessState
	pool    []*poolQuery
	maxRows int

	committed map[string][][]gen.Val
	tx        map[string][][]gen.Val // session 0's view while its transaction is open
	txDirty   bool                   // the open transaction holds uncommitted changes
	noIndex   bool                   // history without secondary indexes (region of a listed finding)
	idxNames  map[string][]string    // parallel to Table.Indexes
	extra     map[string][]string    // columns added by ALTER TABLE (not read by any query)
	shifted   map[string]bool        // extra columns that were added FIRST
	nameSeq   int

	version int
	twins   map[string]*twin

	hist []string

	// evidence
	nDML, nDDL, nQueries, nChanged, nTxQueries, nOtherDuringTx, nPrepAfterChange int
	dead                                                                         bool
}

func (m *machine) log(sid int, q string) { m.hist = append(m.hist, fmt.Sprintf("s%d: %s", sid, q)) }

func (m *machine) history() string { return "  " + strings.Join(m.hist, ";\n  ") + ";" }

func (m *machine) bump() {
	m.version++
	for k, t := range m.twins {
		t.f.Close()
		delete(m.twins, k)
	}
}

func (m *machine) closeAll() {
	for _, t := range m.twins {
		t.f.Close()
	}
	m.f.Close()
}

// show makes the rows visible to (session 0 inside its transaction | everybody else) the
// rows the reference evaluator and Table.DDL read.
func (m *machine) show(inTx bool) {
	for _, tb := range m.schema.Tables {
		if inTx && m.tx != nil {
			tb.Rows = m.tx[tb.Name]
		} else {
			tb.Rows = m.committed[tb.Name]
		}
	}
}

func (m *machine) inTx(ss *sessState) bool { return ss.id == 0 && m.tx != nil }

// twinFor returns a brand-new engine loaded with the rows visible in the given view, the
// current indexes and the views of the pool. It lives until the next change of any kind.
func (m *machine) twinFor(rt *rapid.T, inTx bool) *twin {
	key := fmt.Sprintf("%v", inTx)
	if t := m.twins[key]; t != nil {
		return t
	}
	m.show(inTx)
	f := fx.New(fx.Opts{Coster: m.coster})
	s := f.NewSession("", "", "")
	s.MustExec(rt.Fatalf, m.schema.DDL(true)...)
	for _, p := range m.pool {
		if p.view != "" {
			s.MustExec(rt.Fatalf, p.view)
		}
	}
	t := &twin{f: f, s: s}
	m.twins[key] = t
	return t
}

// ---------------------------------------------------------------------------------------
// pool

func (m *machine) genPool(rt *rapid.T) {
	n := rapid.IntRange(2, 4).Draw(rt, "npool")
	s0 := m.sess[0].s
	for i := 0; i < n; i++ {
		var q gen.Query
		var labels gen.Labels
		for try := 0; ; try++ {
			g := gen.NewG(rt, m.schema)
			if rapid.IntRange(0, 2).Draw(rt, "minjoin2") == 0 {
				g.MinJoin = 2
			}
			q = g.Query()
			labels = g.L
			for k, c := range g.Excl {
				for j := 0; j < c; j++ {
					m.st.Excluded(k)
				}
			}
			// bias to shapes that carry caches / hash tables: the first query of the pool has a
			// subquery (EXISTS / IN / NOT IN / scalar), the others at least a join, grouping,
			// set operation or subquery (bounded number of re-draws)
			sub := labels["exists"] || labels["insub"] || labels["notinsub"] || labels["scalarsub"]
			if i == 0 && (sub || try >= 7) {
				break
			}
			if i > 0 && (try >= 2 || sub || labels["join"] || labels["setop"] || labels["group"]) {
				break
			}
		}
		p := &poolQuery{idx: i, q: q, labels: labels.Sorted()}
		base := approxCols(q)
		form := rapid.SampledFrom([]string{formPlain, formPlain, formView, formCTE, formCTE2, formWindow}).Draw(rt, "form")
		body := q.SQL()
		switch form {
		case formView:
			name := fmt.Sprintf("v%d", i)
			p.view = "CREATE VIEW " + name + " AS " + body
			p.text = "SELECT * FROM " + name
			p.approx = base
			r := s0.Exec(p.view)
			if !r.OK() {
				// the engine rejects this statement as a view definition: not this property's
				// subject; the query is used in its plain form
				m.st.Class("view-rejected")
				p.view, form = "", formPlain
			} else {
				m.log(0, p.view)
			}
		case formCTE:
			p.text = "WITH c AS (" + body + ") SELECT * FROM c"
			p.approx = base
		case formCTE2:
			p.text = "WITH c AS (" + body + ") SELECT (SELECT COUNT(*) FROM c) AS n, c.* FROM c"
			p.approx = append([]bool{false}, base...)
		case formWindow:
			p.part = !base[0]
			p.text = "SELECT dt.*, COUNT(*) OVER () AS w0"
			p.approx = append(append([]bool{}, base...), false)
			if p.part {
				p.text += ", COUNT(*) OVER (PARTITION BY dt.o0) AS w1"
				p.approx = append(p.approx, false)
			}
			p.text += " FROM (" + body + ") dt"
		}
		if form == formPlain {
			p.text = body
			p.approx = base
			if sel, ok := q.(*gen.Select); ok && len(sel.OrderBy) > 0 {
				p.ordered = true
			}
		}
		p.form = form
		m.pool = append(m.pool, p)
	}
}

// ---------------------------------------------------------------------------------------
// running a pool query

func (m *machine) run(rt *rapid.T, ss *sessState, p *poolQuery, mode string) *fx.Result {
	switch mode {
	case modeSQL:
		name := fmt.Sprintf("q%d", p.idx)
		if !ss.sqlPre[p.idx] {
			prep := "PREPARE " + name + " FROM " + gen.QuoteStr(p.text)
			m.log(ss.id, prep)
			if r := ss.s.Exec(prep); !r.OK() {
				rt.Fatalf("PREPARE failed: %s\n%s\nhistory:\n%s", r, r.Stack, m.history())
			}
			ss.sqlPre[p.idx] = true
		}
		m.log(ss.id, "EXECUTE "+name)
		return ss.s.Exec("EXECUTE " + name)
	case modeAPI:
		// Engine.PrepareQuery caches the parsed statement in the session under its text; the
		// following QueryWithBindings of the same text runs from that cache (this is what the
		// server does for COM_STMT_PREPARE / COM_STMT_EXECUTE). The comment keeps the text
		// different from the plain-text executions of the same query.
		text := "/* api */ " + p.text
		if !ss.apiPre[p.idx] {
			m.log(ss.id, "-- Engine.PrepareQuery: "+text)
			var err error
			func() {
				defer func() {
					if r := recover(); r != nil {
						err = fmt.Errorf("panic: %v", r)
					}
				}()
				_, err = m.f.Engine.PrepareQuery(ss.s.Ctx(context.Background()), text)
			}()
			if err != nil {
				rt.Fatalf("Engine.PrepareQuery failed: %v\nstatement: %s\nhistory:\n%s", err, text, m.history())
			}
			ss.apiPre[p.idx] = true
		}
		m.log(ss.id, text)
		return ss.s.Exec(text)
	}
	m.log(ss.id, p.text)
	return ss.s.Exec(p.text)
}

func sameRows(a, b [][]string, ordered bool) bool {
	if ordered {
		return fx.SeqEqual(a, b)
	}
	return fx.MultisetEqual(a, b)
}

func show(rows [][]string, ordered bool) string {
	if ordered {
		return fx.ShowSeq(rows)
	}
	return fx.Show(rows)
}

// checkQuery executes pool query p in session ss and decides the result.
func (m *machine) checkQuery(rt *rapid.T, ss *sessState, p *poolQuery, mode string, twice bool) {
	if m.dead {
		return
	}
	inTx := m.inTx(ss)
	m.show(inTx)
	ev := &ref.Evaluator{}
	base := ref.Norm(ev.Rows(p.q))
	want := p.transform(base)

	res := m.run(rt, ss, p, mode)
	tw := m.twinFor(rt, inTx)
	tres := tw.s.Exec(p.text)
	m.nQueries++
	m.st.Class("form:" + p.form)
	m.st.Class("mode:" + mode)

	describe := func() string {
		m.show(inTx)
		return fmt.Sprintf("session %d (in transaction: %v), mode %s, form %s\nstatement: %s\nvisible data: %s\nhistory:\n%s",
			ss.id, inTx, mode, p.form, p.text, m.schema.Describe(), m.history())
	}
	if res.Panic != nil || res.TimedOut {
		if tres.Panic != nil || tres.TimedOut {
			// crashes on a fresh engine as well: the subject of C10, nothing can be said here
			m.st.Class("crash-on-fresh-engine-too")
			m.dead = true
			return
		}
		rt.Fatalf("re-executed query crashes on the long-lived engine, but not on a fresh engine with the same data: %s\n%s\n%s", res, res.Stack, describe())
	}
	if !res.OK() {
		if !tres.OK() {
			m.st.Class("error-on-fresh-engine-too")
			return
		}
		rt.Fatalf("re-executed query fails on the long-lived engine (%v), but succeeds on a fresh engine with the same data (%s)\n%s", res.Err, tres, describe())
	}
	if !tres.OK() {
		// the fresh engine cannot evaluate the statement on this data (a planning / execution
		// defect that has nothing to do with earlier state): no fresh evaluation to compare with
		m.st.Class("fresh-engine-fails:undecided")
		return
	}
	gotRows := mkGot(res.Schema, res.Rows)
	got := gotVals(gotRows)
	freshOK := sameRows(got, fx.NormRows(tres.Schema, tres.Rows), p.ordered)
	refOK := false
	if p.ordered {
		refOK = refSeqEq(gotRows, want, p.approx)
	} else {
		refOK = refMultisetEq(gotRows, want, p.approx)
	}
	switch {
	case freshOK && refOK:
	case freshOK:
		m.st.Class("agrees-with-fresh-engine-only") // engine vs. SQL definition: C02's subject
	case refOK:
		m.st.Class("agrees-with-reference-only") // fresh engine deviates: plan choice, C01's subject
	default:
		fresh := show(fx.NormRows(tres.Schema, tres.Rows), p.ordered)
		rt.Fatalf("stale result: the query does not reflect the data visible to the session\nresult:        %s\nfresh engine:  %s\nreference:     %s\n%s\nplan:\n%s",
			show(got, p.ordered), fresh, show(want, p.ordered), describe(), ss.s.Plan(p.text))
	}

	if twice {
		res2 := m.run(rt, ss, p, mode)
		if !res2.OK() {
			rt.Fatalf("the same query run twice on unchanged data: second run failed: %s\n%s\n%s", res2, res2.Stack, describe())
		}
		got2 := fx.NormRows(res2.Schema, res2.Rows)
		if !sameRows(got, got2, p.ordered) {
			rt.Fatalf("the same query run twice on unchanged data returned different results\nfirst:  %s\nsecond: %s\n%s",
				show(got, p.ordered), show(got2, p.ordered), describe())
		}
		m.st.Class("run-twice")
	}

	// bookkeeping for the non-trivial rule
	b := fx.ShowSeq(base)
	if !p.ordered {
		b = fx.Show(base)
	}
	if p.execs > 0 && b != p.lastBase {
		p.changed++
		m.nChanged++
		m.st.Class("result-changed-since-last-execution")
		if mode != modeText {
			m.nPrepAfterChange++
			m.st.Class("prepared-after-change")
		}
	}
	p.lastBase = b
	p.execs++
	if inTx && m.txDirty {
		m.nTxQueries++
		m.st.Class("query-sees-own-uncommitted")
	}
	if !inTx && m.tx != nil && m.txDirty {
		m.nOtherDuringTx++
		m.st.Class("query-beside-foreign-uncommitted")
	}
}
