package c11

import (
	"testing"

	"github.com/dolthub/go-mysql-server/vh/internal/fx"
)

func TestProbe(t *testing.T) {
	f := fx.New(fx.Opts{})
	defer f.Close()
	s := []*fx.Sess{f.NewSession("", "", ""), f.NewSession("", "", "")}
	for _, st := range []struct {
		s int
		q string
	}{
		{0, "CREATE TABLE t1 (c0 INT NOT NULL, c1 INT NOT NULL, c2 INT, PRIMARY KEY (c0,c1))"},
		{0, "INSERT INTO t1 VALUES (0,0,NULL),(1,0,0)"},
		{0, "START TRANSACTION"},
		{0, "UPDATE t1 SET c2 = 5 WHERE c0 = 1"},
		{1, "SELECT * FROM t1"},
		{0, "ROLLBACK"},
		{1, "SELECT * FROM t1"},
		{0, "SELECT * FROM t1"},
	} {
		r := s[st.s].Exec(st.q)
		t.Logf("s%d: %s\n   -> %s", st.s, st.q, r)
	}
}
