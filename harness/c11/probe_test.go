package c11

import (
	"strings"
	"testing"

	"github.com/dolthub/go-mysql-server/vh/internal/fx"
)

type pstep struct {
	s int
	q string
}

func runProbe(steps []pstep) string {
	f := fx.New(fx.Opts{})
	defer f.Close()
	s := []*fx.Sess{f.NewSession("", "", ""), f.NewSession("", "", "")}
	last := ""
	for _, st := range steps {
		r := s[st.s].Exec(st.q)
		last = r.String()
	}
	return last
}

func TestProbe(t *testing.T) {
	steps := []pstep{
		{0, "CREATE TABLE t0 (c0 INT, c1 VARCHAR(8))"},
		{0, "INSERT INTO t0 VALUES (1,NULL),(NULL,'aB')"},
		{1, "INSERT INTO t0 (c0, c1) VALUES (0,'')"},
		{1, "ALTER TABLE t0 ADD COLUMN e1 INT"},
		{0, "INSERT INTO t0 (c0, c1) VALUES (0,NULL)"},
		{0, "CREATE INDEX ix4 ON t0 (c1,c0)"},
		{1, "UPDATE t0 SET c1 = NULL WHERE (t0.c0 = 1)"},
		{1, "UPDATE t0 SET c1 = NULL WHERE (COALESCE(3,t0.c0,t0.c0) NOT IN (-2,2))"},
		{0, "INSERT INTO t0 (c0, c1) VALUES (NULL,'a ')"},
		{1, "UPDATE t0 SET c1 = ''"},
		{1, "UPDATE t0 SET c0 = c0 + (-1)"},
		{0, "UPDATE t0 SET c0 = c0 + (1) WHERE (t0.c0 <> 1)"},
		{0, "SELECT c0, c1 FROM t0"},
	}
	bad := func(st []pstep) bool { return strings.Count(runProbe(st), "|") == 5 }
	t.Logf("full: %s", runProbe(steps))
	if !bad(steps) {
		t.Fatal("does not reproduce")
	}
	for changed := true; changed; {
		changed = false
		for i := 1; i < len(steps)-1; i++ {
			cand := append(append([]pstep{}, steps[:i]...), steps[i+1:]...)
			if bad(cand) {
				steps = cand
				changed = true
				break
			}
		}
	}
	for _, st := range steps {
		t.Logf("s%d: %s", st.s, st.q)
	}
	t.Logf("-> %s", runProbe(steps))
}
