package c11

import (
	"testing"

	"github.com/dolthub/go-mysql-server/vh/internal/fx"
	"github.com/dolthub/go-mysql-server/vh/internal/kf"
	"github.com/dolthub/go-mysql-server/vh/internal/stats"
)

type wstep struct {
	sess int
	sql  string
	rows [][]string // expected result (nil: statement must only succeed)
}

// TestC11Known re-confirms the minimal witnesses of the findings of this property. While
// a finding is listed as known its witness must still misbehave (otherwise the entry is
// stale, which is logged, not failed); when it is not listed the witness must satisfy the
// property.
func TestC11Known(t *testing.T) {
	st := stats.New("C11", "known")
	defer st.Flush()
	cases := []struct {
		id, what string
		steps    []wstep
	}{
		{idViewCommit, "a SELECT from a view inside a transaction makes the transaction's changes permanent: ROLLBACK does not discard them and other sessions see them", []wstep{
			{0, "CREATE TABLE t0 (c0 INT PRIMARY KEY)", nil},
			{0, "CREATE TABLE t1 (c0 INT PRIMARY KEY, c2 INT)", nil},
			{0, "INSERT INTO t1 VALUES (1,0)", nil},
			{0, "CREATE VIEW v1 AS SELECT c0 FROM t0", nil},
			{0, "START TRANSACTION", nil},
			{0, "UPDATE t1 SET c2 = 5", nil},
			{0, "SELECT c0, c2 FROM t1", [][]string{{"n:1", "n:5"}}},
			{0, "SELECT * FROM v1", [][]string{}},
			{1, "SELECT c0, c2 FROM t1", [][]string{{"n:1", "n:0"}}},
			{0, "ROLLBACK", nil},
			{0, "SELECT c0, c2 FROM t1", [][]string{{"n:1", "n:0"}}},
			{1, "SELECT c0, c2 FROM t1", [][]string{{"n:1", "n:0"}}},
		}},
		{idIndexLeak, "an uncommitted UPDATE of an indexed column changes what another session reads through the index", []wstep{
			{0, "CREATE TABLE t0 (c0 INT, c1 INT, KEY k0 (c0))", nil},
			{0, "INSERT INTO t0 VALUES (NULL,NULL),(0,0),(NULL,0),(-2,-2)", nil},
			{1, "SELECT x1.c1 FROM t0 x1 WHERE x1.c0 > -100", [][]string{{"n:0"}, {"n:-2"}}},
			{0, "BEGIN", nil},
			{0, "UPDATE t0 SET c0 = NULL", nil},
			{1, "SELECT x1.c1 FROM t0 x1 WHERE x1.c0 > -100", [][]string{{"n:0"}, {"n:-2"}}},
			{1, "SELECT x1.c0, x2.c1 FROM t0 x1 INNER JOIN t0 x2 ON x1.c0 = x2.c0", [][]string{{"n:0", "n:0"}, {"n:-2", "n:-2"}}},
			{0, "ROLLBACK", nil},
			{1, "SELECT x1.c1 FROM t0 x1 WHERE x1.c0 > -100", [][]string{{"n:0"}, {"n:-2"}}},
			{0, "SELECT x1.c1 FROM t0 x1 WHERE x1.c0 > -100", [][]string{{"n:0"}, {"n:-2"}}},
		}},
	}
	for _, c := range cases {
		st.Eval()
		f := fx.New(fx.Opts{})
		ss := []*fx.Sess{f.NewSession("", "", ""), f.NewSession("", "", "")}
		bad := ""
		for _, sp := range c.steps {
			r := ss[sp.sess].Exec(sp.sql)
			if !r.OK() {
				bad = sp.sql + ": " + r.String()
				break
			}
			if sp.rows != nil {
				got := fx.NormRows(r.Schema, r.Rows)
				if !fx.MultisetEqual(got, sp.rows) {
					bad = "s" + string(rune('0'+sp.sess)) + ": " + sp.sql + " returned " + fx.Show(got) + ", the visible data gives " + fx.Show(sp.rows)
					break
				}
			}
		}
		f.Close()
		if bad == "" {
			if kf.Listed(c.id) {
				t.Logf("finding %s is listed as known but its witness no longer reproduces (stale entry)", c.id)
				st.Class("witness-no-longer-reproduces:" + c.id)
			} else {
				st.Class("witness-holds:" + c.id)
			}
			continue
		}
		st.NonTrivial(map[string]string{"finding": c.id, "observed": bad}, c.id, c.what)
		if !kf.Suppress(st, c.id) {
			t.Errorf("finding %s (%s) reproduces and is not listed as known:\n  %s", c.id, c.what, bad)
		}
	}
}

// TestReplayC11 runs the library-free witness scripts of /verif/replays/C11.
func TestReplayC11(t *testing.T) {
	st := stats.New("C11", "replay")
	defer st.Flush()
	fx.ReplayDir(t, st)
}
