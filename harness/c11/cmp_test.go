package c11

import (
	"math"
	"math/big"
	"strings"

	"github.com/cockroachdb/apd/v3"
	"github.com/dolthub/go-mysql-server/sql"
	"github.com/dolthub/go-mysql-server/vh/internal/fx"
	"github.com/dolthub/go-mysql-server/vh/internal/gen"
)

// The comparison of an engine result with the reference evaluator is the one of C02 (copied:
// c02 is a test package and cannot be imported): exact, except AVG columns, which MySQL
// defines as a DECIMAL rounded to scale+4 and which are therefore compared with the
// tolerance max(1e-9 relative, half a unit of the scale of the decimal the engine returned).

// approxCols returns, per output column of q, whether it is an AVG.
func approxCols(q gen.Query) []bool {
	switch x := q.(type) {
	case *gen.Select:
		out := make([]bool, len(x.Items))
		for i, it := range x.Items {
			if a, ok := it.E.(*gen.Agg); ok && a.Approx() {
				out[i] = true
			}
		}
		return out
	case *gen.SetOp:
		return approxCols(x.L)
	}
	return nil
}

func parseNum(s string) (*big.Rat, bool) {
	if strings.HasPrefix(s, "n:") || strings.HasPrefix(s, "f:") {
		r, ok := new(big.Rat).SetString(s[2:])
		return r, ok
	}
	return nil, false
}

type gotRow struct {
	vals []string
	tol  []float64
}

func mkGot(sch sql.Schema, rows []sql.Row) []gotRow {
	out := make([]gotRow, len(rows))
	for i, r := range rows {
		out[i].vals = fx.NormRow(sch, r)
		out[i].tol = make([]float64, len(r))
		for j, v := range r {
			if d, ok := v.(*apd.Decimal); ok && d != nil && d.Exponent < 0 {
				out[i].tol[j] = 0.5 * math.Pow(10, float64(d.Exponent)) * (1 + 1e-9)
			}
		}
	}
	return out
}

func gotVals(g []gotRow) [][]string {
	out := make([][]string, len(g))
	for i := range g {
		out[i] = g[i].vals
	}
	return out
}

func valEq(got, want string, approx bool, decTol float64) bool {
	if fx.ValEq(got, want) {
		return true
	}
	// a number delivered as its decimal text is the same observable value (see C02)
	if strings.HasPrefix(got, "s:") && !strings.HasPrefix(want, "s:") && want != "N" {
		if r, ok := new(big.Rat).SetString(strings.TrimSpace(got[2:])); ok {
			return valEq("n:"+r.RatString(), want, approx, decTol)
		}
	}
	if !approx {
		return false
	}
	g, ok1 := parseNum(got)
	w, ok2 := parseNum(want)
	if !ok1 || !ok2 {
		return false
	}
	d := new(big.Rat).Sub(g, w)
	d.Abs(d)
	df, _ := d.Float64()
	wf, _ := w.Float64()
	tol := math.Max(1e-9*math.Max(1, math.Abs(wf)), decTol)
	return df <= tol
}

func rowEq(got gotRow, want []string, approx []bool) bool {
	if len(got.vals) != len(want) {
		return false
	}
	for i := range want {
		a := i < len(approx) && approx[i]
		if !valEq(got.vals[i], want[i], a, got.tol[i]) {
			return false
		}
	}
	return true
}

func refMultisetEq(got []gotRow, want [][]string, approx []bool) bool {
	if len(got) != len(want) {
		return false
	}
	used := make([]bool, len(want))
outer:
	for _, g := range got {
		for j, w := range want {
			if !used[j] && rowEq(g, w, approx) {
				used[j] = true
				continue outer
			}
		}
		return false
	}
	return true
}

func refSeqEq(got []gotRow, want [][]string, approx []bool) bool {
	if len(got) != len(want) {
		return false
	}
	for i := range got {
		if !rowEq(got[i], want[i], approx) {
			return false
		}
	}
	return true
}
