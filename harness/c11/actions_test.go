package c11

import (
	"fmt"
	"math/big"
	"os"
	"strings"
	"testing"

	"github.com/dolthub/go-mysql-server/vh/internal/fx"
	"github.com/dolthub/go-mysql-server/vh/internal/gen"
	"github.com/dolthub/go-mysql-server/vh/internal/kf"
	"github.com/dolthub/go-mysql-server/vh/internal/ref"
	"github.com/dolthub/go-mysql-server/vh/internal/stats"
	"pgregory.net/rapid"
)

// ---------------------------------------------------------------------------------------
// model of the data

func (m *machine) writerRows(tb *gen.Table) [][]gen.Val {
	if m.tx != nil {
		return m.tx[tb.Name]
	}
	return m.committed[tb.Name]
}

func (m *machine) setWriterRows(tb *gen.Table, rows [][]gen.Val) {
	if m.tx != nil {
		m.tx[tb.Name] = rows
		m.txDirty = true
	} else {
		m.committed[tb.Name] = rows
	}
	m.bump()
}

// writer draws the session that performs a change: session 0 while its transaction is
// open (other sessions only read then: the in-memory backend documents no isolation between
// overlapping writers, which is C17's subject), else any session.
func (m *machine) writer(rt *rapid.T) *sessState {
	if m.tx != nil {
		return m.sess[0]
	}
	return m.sess[rapid.IntRange(0, len(m.sess)-1).Draw(rt, "writer")]
}

func colNames(tb *gen.Table) string {
	ns := make([]string, len(tb.Cols))
	for i, c := range tb.Cols {
		ns[i] = c.Name
	}
	return strings.Join(ns, ", ")
}

func pkKey(tb *gen.Table, row []gen.Val) string {
	k := ""
	for _, c := range tb.PK {
		k += row[c].Norm() + "\x00"
	}
	return k
}

func normModel(rows [][]gen.Val) [][]string { return ref.Norm(rows) }

// verifyTable compares the table contents the writing session sees with the model.
func (m *machine) verifyTable(rt *rapid.T, ss *sessState, tb *gen.Table, after string) {
	r := ss.s.Exec("SELECT " + colNames(tb) + " FROM " + tb.Name)
	if !r.OK() {
		rt.Fatalf("reading %s failed after %q: %s\n%s\nhistory:\n%s", tb.Name, after, r, r.Stack, m.history())
	}
	got := fx.NormRows(r.Schema, r.Rows)
	want := normModel(m.writerRows(tb))
	if !fx.MultisetEqual(got, want) {
		rt.Fatalf("table %s does not hold what the statement must leave (model of the DML)\nstatement: s%d: %s\ntable:  %s\nmodel:  %s\nhistory:\n%s",
			tb.Name, ss.id, after, fx.Show(got), fx.Show(want), m.history())
	}
}

// predicate draws a WHERE clause over table tb with the shared generator and returns its
// SQL (column references qualified by the table name) and its truth value per visible row.
func (m *machine) predicate(rt *rapid.T, tb *gen.Table) (string, []bool) {
	g := gen.NewG(rt, &gen.Schema{Tables: []*gen.Table{tb}})
	g.NoSubquery, g.NoGroup, g.NoOrder, g.NoSetOp, g.MaxJoin = true, true, true, true, 1
	sel := g.Select()
	for k, c := range g.Excl {
		for j := 0; j < c; j++ {
			m.st.Excluded(k)
		}
	}
	rows := m.writerRows(tb)
	truth := make([]bool, len(rows))
	if sel.Where == nil {
		for i := range truth {
			truth[i] = true
		}
		return "", truth
	}
	saved := tb.Rows
	tb.Rows = rows
	probe := &gen.Select{Items: []gen.Item{{E: sel.Where, Alias: "o0"}}, From: sel.From, Limit: -1, Offset: -1}
	ev := &ref.Evaluator{}
	vals := ev.Rows(probe)
	tb.Rows = saved
	for i, v := range vals {
		truth[i] = !v[0].Null && v[0].R.Sign() != 0
	}
	text := strings.ReplaceAll(sel.Where.SQL(), sel.From[0].Alias+".", tb.Name+".")
	return text, truth
}

func (m *machine) execDML(rt *rapid.T, ss *sessState, tb *gen.Table, q string, expectErr bool, newRows [][]gen.Val) {
	m.log(ss.id, q)
	r := ss.s.Exec(q)
	if r.Panic != nil || r.TimedOut {
		rt.Fatalf("statement crashed: %s\n%s\nhistory:\n%s", r, r.Stack, m.history())
	}
	if expectErr {
		if r.OK() {
			rt.Fatalf("statement must fail (duplicate primary key) but succeeded: %s\nhistory:\n%s", q, m.history())
		}
		m.st.Class("dml:rejected")
	} else {
		if !r.OK() {
			rt.Fatalf("statement failed: %s -> %s\nhistory:\n%s", q, r, m.history())
		}
		m.setWriterRows(tb, newRows)
		m.nDML++
	}
	m.verifyTable(rt, ss, tb, q)
}

func (m *machine) actInsert(rt *rapid.T) {
	if m.dead {
		return
	}
	tb := m.schema.Tables[rapid.IntRange(0, len(m.schema.Tables)-1).Draw(rt, "table")]
	rows := m.writerRows(tb)
	if len(rows) >= m.maxRows {
		rt.Skip("table full")
	}
	ss := m.writer(rt)
	n := rapid.IntRange(1, 3).Draw(rt, "nrows")
	have := map[string]bool{}
	for _, r := range rows {
		have[pkKey(tb, r)] = true
	}
	var ins [][]gen.Val
	expectErr := false
	for i := 0; i < n; i++ {
		row := make([]gen.Val, len(tb.Cols))
		for ci, c := range tb.Cols {
			row[ci] = gen.GenVal(rt, c.Kind, c.Nullable, "v")
		}
		if len(tb.PK) > 0 {
			k := pkKey(tb, row)
			if have[k] {
				if n == 1 {
					expectErr = true // single-row statement with a duplicate key: must fail, no effect
				} else {
					continue // multi-row statements are kept free of collisions (partial effects are C15's subject)
				}
			}
			have[k] = true
		}
		ins = append(ins, row)
	}
	if len(ins) == 0 {
		rt.Skip("all rows collide")
	}
	var tuples []string
	for _, r := range ins {
		vs := make([]string, len(r))
		for i, v := range r {
			vs[i] = v.Lit(tb.Cols[i].Kind)
		}
		tuples = append(tuples, "("+strings.Join(vs, ",")+")")
	}
	q := "INSERT INTO " + tb.Name + " (" + colNames(tb) + ") VALUES " + strings.Join(tuples, ",")
	newRows := append(append([][]gen.Val{}, rows...), ins...)
	m.st.Class("dml:insert")
	m.execDML(rt, ss, tb, q, expectErr, newRows)
}

func (m *machine) actUpdate(rt *rapid.T) {
	if m.dead {
		return
	}
	tb := m.schema.Tables[rapid.IntRange(0, len(m.schema.Tables)-1).Draw(rt, "table")]
	inPK := map[int]bool{}
	for _, c := range tb.PK {
		inPK[c] = true
	}
	var free []int
	for i := range tb.Cols {
		if !inPK[i] {
			free = append(free, i)
		}
	}
	if len(free) == 0 {
		rt.Skip("only key columns")
	}
	if len(tb.PK) == 0 {
		// Observed at thorough scale (subject of C13, not of this property): UPDATE on a key-less
		// table leaves rows the statement cannot produce (a row updated twice / an extra row) in
		// histories with ALTER TABLE ADD COLUMN and duplicate rows; the DML model cannot follow
		// that, so key-less tables are changed by INSERT / DELETE / TRUNCATE only.
		m.st.Class("update-skipped:keyless-table")
		rt.Skip("key-less table")
	}
	ss := m.writer(rt)
	rows := m.writerRows(tb)
	c := free[rapid.IntRange(0, len(free)-1).Draw(rt, "col")]
	col := tb.Cols[c]
	where, truth := m.predicate(rt, tb)
	var set string
	apply := func(v gen.Val) gen.Val { return v }
	if col.Kind == gen.KInt && rapid.IntRange(0, 2).Draw(rt, "incr") == 0 {
		d := int64(rapid.SampledFrom([]int{-1, 1, 2}).Draw(rt, "delta"))
		ok := true
		for i, r := range rows {
			if truth[i] && !r[c].Null {
				z := new(big.Rat).Add(r[c].R, new(big.Rat).SetInt64(d))
				if z.Cmp(big.NewRat(20, 1)) > 0 || z.Cmp(big.NewRat(-20, 1)) < 0 {
					ok = false
				}
			}
		}
		if ok {
			set = fmt.Sprintf("%s = %s + (%d)", col.Name, col.Name, d)
			apply = func(v gen.Val) gen.Val {
				if v.Null {
					return v
				}
				return gen.Rat(new(big.Rat).Add(v.R, new(big.Rat).SetInt64(d)))
			}
		}
	}
	if set == "" {
		nv := gen.GenVal(rt, col.Kind, col.Nullable, "newv")
		set = col.Name + " = " + nv.Lit(col.Kind)
		apply = func(gen.Val) gen.Val { return nv }
	}
	q := "UPDATE " + tb.Name + " SET " + set
	if where != "" {
		q += " WHERE " + where
	}
	newRows := make([][]gen.Val, len(rows))
	for i, r := range rows {
		if truth[i] {
			nr := append([]gen.Val{}, r...)
			nr[c] = apply(r[c])
			newRows[i] = nr
		} else {
			newRows[i] = r
		}
	}
	m.st.Class("dml:update")
	m.execDML(rt, ss, tb, q, false, newRows)
}

func (m *machine) actDelete(rt *rapid.T) {
	if m.dead {
		return
	}
	tb := m.schema.Tables[rapid.IntRange(0, len(m.schema.Tables)-1).Draw(rt, "table")]
	ss := m.writer(rt)
	rows := m.writerRows(tb)
	if m.tx == nil && rapid.IntRange(0, 7).Draw(rt, "truncate") == 0 {
		m.st.Class("dml:truncate")
		m.execDML(rt, ss, tb, "TRUNCATE TABLE "+tb.Name, false, nil)
		return
	}
	where, truth := m.predicate(rt, tb)
	q := "DELETE FROM " + tb.Name
	if where != "" {
		q += " WHERE " + where
	}
	var newRows [][]gen.Val
	for i, r := range rows {
		if !truth[i] {
			newRows = append(newRows, r)
		}
	}
	m.st.Class("dml:delete")
	m.execDML(rt, ss, tb, q, false, newRows)
}

// execDDL runs a schema change. A schema change that fails or crashes is the subject of C21
// (schema changes preserve data), not of this property: the history ends there and is
// counted (observed: ALTER TABLE .. DROP COLUMN fails with "unable to find field with index"
// after ADD COLUMN .. FIRST + CREATE INDEX on a table with a composite primary key).
func (m *machine) execDDL(rt *rapid.T, ss *sessState, q string) bool {
	m.log(ss.id, q)
	r := ss.s.Exec(q)
	if !r.OK() {
		m.st.Class("ddl-failed:out-of-scope(C21)")
		m.dead = true
		return false
	}
	m.nDDL++
	m.bump()
	return true
}

func (m *machine) actIndex(rt *rapid.T) {
	if m.dead {
		return
	}
	if m.tx != nil {
		rt.Skip("DDL inside a transaction commits implicitly")
	}
	tb := m.schema.Tables[rapid.IntRange(0, len(m.schema.Tables)-1).Draw(rt, "table")]
	for _, e := range m.extra[tb.Name] {
		if m.shifted[e] {
			rt.Skip("table has a column added FIRST")
		}
	}
	ss := m.writer(rt)
	names := m.idxNames[tb.Name]
	if len(names) > 0 && (len(names) >= 3 || rapid.Bool().Draw(rt, "drop")) {
		i := rapid.IntRange(0, len(names)-1).Draw(rt, "which")
		m.st.Class("ddl:drop-index")
		if !m.execDDL(rt, ss, "DROP INDEX "+names[i]+" ON "+tb.Name) {
			return
		}
		m.idxNames[tb.Name] = append(append([]string{}, names[:i]...), names[i+1:]...)
		tb.Indexes = append(append([][]int{}, tb.Indexes[:i]...), tb.Indexes[i+1:]...)
		return
	}
	a := rapid.IntRange(0, len(tb.Cols)-1).Draw(rt, "idxcol")
	idx := []int{a}
	if rapid.IntRange(0, 2).Draw(rt, "idx2") == 0 {
		if b := rapid.IntRange(0, len(tb.Cols)-1).Draw(rt, "idxcol2"); b != a {
			idx = append(idx, b)
		}
	}
	m.nameSeq++
	name := fmt.Sprintf("ix%d", m.nameSeq)
	cols := make([]string, len(idx))
	for i, c := range idx {
		cols[i] = tb.Cols[c].Name
	}
	m.st.Class("ddl:create-index")
	if !m.execDDL(rt, ss, "CREATE INDEX "+name+" ON "+tb.Name+" ("+strings.Join(cols, ",")+")") {
		return
	}
	m.idxNames[tb.Name] = append(m.idxNames[tb.Name], name)
	tb.Indexes = append(tb.Indexes, idx)
}

func (m *machine) actColumn(rt *rapid.T) {
	if m.dead {
		return
	}
	if m.tx != nil {
		rt.Skip("DDL inside a transaction commits implicitly")
	}
	tb := m.schema.Tables[rapid.IntRange(0, len(m.schema.Tables)-1).Draw(rt, "table")]
	ss := m.writer(rt)
	ex := m.extra[tb.Name]
	if len(ex) > 0 && (len(ex) >= 2 || rapid.Bool().Draw(rt, "dropcol")) {
		i := rapid.IntRange(0, len(ex)-1).Draw(rt, "which")
		m.st.Class("ddl:drop-column")
		if !m.execDDL(rt, ss, "ALTER TABLE "+tb.Name+" DROP COLUMN "+ex[i]) {
			return
		}
		m.extra[tb.Name] = append(append([]string{}, ex[:i]...), ex[i+1:]...)
	} else {
		m.nameSeq++
		name := fmt.Sprintf("e%d", m.nameSeq)
		def := rapid.SampledFrom([]string{"INT DEFAULT 7", "VARCHAR(8) DEFAULT 'x'", "INT"}).Draw(rt, "coldef")
		pos := ""
		// FIRST shifts the positions of the columns the queries read. Observed (subject of
		// C21 / C16, not of this property): on a table with a primary key or a secondary index a
		// column added FIRST leaves the index definitions pointing at the old positions (UPDATE
		// panics in sortSecondaryIndexes, DROP COLUMN fails with "unable to find field"); FIRST
		// is therefore drawn only for tables without keys, which then get no index while the
		// column exists.
		if len(tb.PK) == 0 && len(tb.Indexes) == 0 && rapid.IntRange(0, 1).Draw(rt, "first") == 0 {
			pos = " FIRST"
		}
		m.st.Class("ddl:add-column")
		if !m.execDDL(rt, ss, "ALTER TABLE "+tb.Name+" ADD COLUMN "+name+" "+def+pos) {
			return
		}
		m.extra[tb.Name] = append(m.extra[tb.Name], name)
		if pos != "" {
			m.shifted[name] = true
			m.st.Class("ddl:add-column-first")
		}
	}
	m.verifyTable(rt, ss, tb, "ALTER TABLE")
}

func (m *machine) actBegin(rt *rapid.T) {
	if m.dead {
		return
	}
	if m.tx != nil {
		rt.Skip("transaction open")
	}
	m.txControl(rt, rapid.SampledFrom([]string{"BEGIN", "START TRANSACTION"}).Draw(rt, "begin"))
	m.tx = map[string][][]gen.Val{}
	for k, v := range m.committed {
		m.tx[k] = v
	}
	m.txDirty = false
	m.bump()
}

func (m *machine) txControl(rt *rapid.T, q string) {
	m.log(0, q)
	if r := m.sess[0].s.Exec(q); !r.OK() {
		rt.Fatalf("%s failed: %s\n%s\nhistory:\n%s", q, r, r.Stack, m.history())
	}
	m.st.Class("tx:" + strings.ToLower(strings.Fields(q)[0]))
}

func (m *machine) actEnd(rt *rapid.T) {
	if m.dead {
		return
	}
	if m.tx == nil {
		rt.Skip("no transaction")
	}
	m.endTx(rt, rapid.Bool().Draw(rt, "commit"))
}

func (m *machine) endTx(rt *rapid.T, commit bool) {
	if commit {
		m.txControl(rt, "COMMIT")
		m.committed = m.tx
	} else {
		m.txControl(rt, "ROLLBACK")
	}
	m.tx = nil
	m.txDirty = false
	m.bump()
}

func (m *machine) actQuery(twice bool) func(rt *rapid.T) {
	return func(rt *rapid.T) {
		if m.dead {
			return
		}
		ss := m.sess[rapid.IntRange(0, len(m.sess)-1).Draw(rt, "session")]
		p := m.pool[rapid.IntRange(0, len(m.pool)-1).Draw(rt, "query")]
		mode := rapid.SampledFrom([]string{modeText, modeText, modeSQL, modeAPI}).Draw(rt, "mode")
		if p.form == formView && m.inTx(ss) && kf.Listed(idViewCommit) {
			// region of finding C11-view-select-commits: the view is read by the other session
			m.st.Excluded(idViewCommit)
			ss = m.sess[1]
		}
		m.checkQuery(rt, ss, p, mode, twice)
	}
}

// ---------------------------------------------------------------------------------------

func TestC11(t *testing.T) {
	st := stats.New("C11", "")
	defer st.Flush()
	maxRows, initRows := 8, 5
	if os.Getenv("VERIF_TIER") == "thorough" {
		maxRows, initRows = 12, 7
	}
	rapid.Check(t, func(rt *rapid.T) {
		st.Eval()
		schema := gen.GenSchema(rt, gen.SchemaOpts{MinTables: 1, MaxTables: 3, MaxRows: initRows, Keys: true})
		// Region of finding C11-shared-index-rows (uncommitted changes of a transaction reach other
		// sessions through a secondary index): while it is listed, a history has either no
		// secondary index or no transaction, so that both are searched, only not together.
		noIndex, noTx := false, false
		if kf.Listed(idIndexLeak) {
			if rapid.Bool().Draw(rt, "noindex") {
				noIndex = true
				for _, tb := range schema.Tables {
					tb.Indexes = nil
				}
				st.Excluded(idIndexLeak + ":history-without-secondary-index")
			} else {
				noTx = true
				st.Excluded(idIndexLeak + ":history-without-transaction")
			}
		}
		m := &machine{st: st, schema: schema, maxRows: maxRows,
			committed: map[string][][]gen.Val{}, idxNames: map[string][]string{}, extra: map[string][]string{}, shifted: map[string]bool{}, twins: map[string]*twin{}}
		if rapid.Bool().Draw(rt, "coster") {
			m.coster = hashCoster{rapid.Uint64().Draw(rt, "salt")}
		}
		m.noIndex = noIndex
		m.f = fx.New(fx.Opts{Coster: m.coster})
		defer m.closeAll()
		for i := 0; i < 2; i++ {
			m.sess = append(m.sess, &sessState{s: m.f.NewSession("", "", ""), id: i, sqlPre: map[int]bool{}, apiPre: map[int]bool{}})
		}
		for _, tb := range schema.Tables {
			m.committed[tb.Name] = tb.Rows
			for i := range tb.Indexes {
				m.idxNames[tb.Name] = append(m.idxNames[tb.Name], fmt.Sprintf("k%d", i))
			}
		}
		for _, q := range schema.DDL(true) {
			m.log(0, q)
			if r := m.sess[0].s.Exec(q); !r.OK() {
				rt.Fatalf("set-up failed: %s -> %s\n%s", q, r, r.Stack)
			}
		}
		m.genPool(rt)

		index, begin := m.actIndex, m.actBegin
		if noIndex {
			index = func(rt *rapid.T) { rt.Skip("no secondary indexes in this history") }
		}
		if noTx {
			begin = func(rt *rapid.T) { rt.Skip("no transactions in this history") }
		}
		rt.Repeat(map[string]func(*rapid.T){
			"insert-a": m.actInsert, "insert-b": m.actInsert,
			"update-a": m.actUpdate, "update-b": m.actUpdate,
			"delete":     m.actDelete,
			"index":      index,
			"column":     m.actColumn,
			"begin":      begin,
			"end":        m.actEnd,
			"query-a":    m.actQuery(false),
			"query-b":    m.actQuery(false),
			"query-c":    m.actQuery(false),
			"query-d":    m.actQuery(false),
			"query-e":    m.actQuery(false),
			"query-2x-a": m.actQuery(true),
		})
		if m.dead {
			return
		}
		// end of the history: close the transaction, then every query of the pool is run once more
		if m.tx != nil {
			m.endTx(rt, rapid.Bool().Draw(rt, "final-commit"))
		}
		for _, p := range m.pool {
			ss := m.sess[rapid.IntRange(0, len(m.sess)-1).Draw(rt, "final-session")]
			mode := rapid.SampledFrom([]string{modeText, modeSQL, modeAPI}).Draw(rt, "final-mode")
			m.checkQuery(rt, ss, p, mode, false)
			if m.dead {
				return
			}
		}

		labels := map[string]bool{}
		for _, p := range m.pool {
			for _, l := range p.labels {
				labels[l] = true
			}
		}
		for l := range labels {
			st.Class("pool-has:" + l)
		}
		st.ClassN("steps:dml", m.nDML)
		st.ClassN("steps:ddl", m.nDDL)
		st.ClassN("steps:query", m.nQueries)
		if m.nChanged > 0 {
			var sample any
			if len(m.hist) <= 24 {
				sample = m.hist
			}
			st.NonTrivial(sample, strings.Join(m.hist, ";"))
			st.Class("history:nontrivial")
		}
		if m.nPrepAfterChange > 0 {
			st.Class("history:prepared-reexecuted-after-change")
		}
		if m.nTxQueries > 0 {
			st.Class("history:query-inside-transaction-after-own-dml")
		}
		if m.nOtherDuringTx > 0 {
			st.Class("history:other-session-queries-during-transaction")
		}
	})
}
