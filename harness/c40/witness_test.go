package c40

import (
	"fmt"
	"strings"
	"testing"
	"time"

	"github.com/dolthub/go-mysql-server/vh/internal/kf"
	"github.com/dolthub/go-mysql-server/vh/internal/stats"
)

// TestC40Known re-confirms the witness of every candidate finding; a witness that still shows
// the defect is tolerated only while the finding is listed as known.
func TestC40Known(t *testing.T) {
	st := stats.New("C40", "witness")
	defer st.Flush()
	type attempt struct {
		user, pw string
		extend   bool // raw client: right scramble followed by one extra byte
		accept   bool // required outcome
	}
	for _, w := range []struct {
		id, what string
		setup    []string
		attempts []attempt
	}{
		{kfLock, "CREATE USER ... ACCOUNT LOCK creates an account that can log in",
			[]string{"CREATE USER 'l'@'localhost' IDENTIFIED BY 'pw' ACCOUNT LOCK"},
			[]attempt{{user: "l", pw: "pw", accept: false}}},
		{kfLong, "a mysql_native_password response of 21 bytes whose first 20 bytes are the right scramble is accepted",
			[]string{"CREATE USER 'a'@'localhost' IDENTIFIED BY 'pw'"},
			[]attempt{{user: "a", pw: "pw", extend: true, accept: false}}},
		{kfWrongAcct, "DROP USER 'b'@'127.0.0.1' drops 'b'@'localhost' and keeps 'b'@'127.0.0.1'",
			[]string{"CREATE USER 'b'@'localhost' IDENTIFIED BY 'one'", "CREATE USER 'b'@'127.0.0.1' IDENTIFIED BY 'two'", "DROP USER 'b'@'127.0.0.1'"},
			[]attempt{{user: "b", pw: "one", accept: true}, {user: "b", pw: "two", accept: false}}},
	} {
		st.Eval()
		ts, err := startServer()
		if err != nil {
			t.Fatal(err)
		}
		var log []string
		for _, q := range w.setup {
			r := ts.root.Exec(q)
			log = append(log, fmt.Sprintf("%s -> %s", q, r))
			if !r.OK() {
				t.Fatalf("%s: set-up failed\n%s", w.id, strings.Join(log, "\n"))
			}
		}
		bad := false
		for _, a := range w.attempts {
			var ok bool
			if a.extend {
				cl, err := dialRaw(ts.addr, 15*time.Second)
				if err != nil {
					t.Fatal(err)
				}
				res := cl.login(a.user, "mysql_native_password", true, func(salt []byte) []byte { return append(nativeScramble(salt, a.pw), 7) })
				cl.Close()
				ok = res.OK
				log = append(log, fmt.Sprintf("raw login %q with scramble(%q)+1 byte -> %s", a.user, a.pw, res))
			} else {
				var cu string
				ok, cu, _, err = driverLogin(ts.addr, a.user, a.pw)
				log = append(log, fmt.Sprintf("login %q/%q -> ok=%v current_user=%q err=%v", a.user, a.pw, ok, cu, err))
			}
			if ok != a.accept {
				bad = true
			}
		}
		if err := ts.Close(); err != nil {
			t.Fatal(err)
		}
		if !bad {
			t.Logf("%s: not reproduced", w.id)
			continue
		}
		st.NonTrivial(map[string]any{"finding": w.id, "witness": log}, w.id)
		if kf.Suppress(st, w.id) {
			t.Logf("KNOWN %s: %s", w.id, w.what)
			continue
		}
		t.Errorf("%s: %s\n%s", w.id, w.what, strings.Join(log, "\n"))
	}
}
