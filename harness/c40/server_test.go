package c40

import (
	"context"
	"database/sql/driver"
	"errors"
	"io"
	"net"
	"time"

	gomysql "github.com/go-sql-driver/mysql"

	"github.com/dolthub/go-mysql-server/memory"
	"github.com/dolthub/go-mysql-server/server"
	"github.com/dolthub/go-mysql-server/sql"
	"github.com/dolthub/go-mysql-server/sql/mysql_db"
	"github.com/dolthub/go-mysql-server/vh/internal/fx"
)

// testServer is a fresh engine with accounts enabled, served on a loopback TCP port.
type testServer struct {
	f    *fx.Fixture
	root *fx.Sess
	srv  *server.Server
	addr string
	done chan struct{}
}

func startServer() (*testServer, error) {
	f := fx.New(fx.Opts{Root: true})
	f.Engine.Analyzer.Catalog.MySQLDb.SetPersister(&mysql_db.NoopPersister{})
	l, err := net.Listen("tcp", "127.0.0.1:0")
	if err != nil {
		return nil, err
	}
	cfg := server.Config{Protocol: "tcp", Address: l.Addr().String(), Listener: l, DisableConnectionWatcher: true}
	s, err := server.NewServer(cfg, f.Engine, sql.NewContext, memory.NewSessionBuilder(f.Pro), nil)
	if err != nil {
		l.Close()
		return nil, err
	}
	ts := &testServer{f: f, root: f.NewSession("root", "localhost", ""), srv: s, addr: l.Addr().String(), done: make(chan struct{})}
	go func() {
		defer close(ts.done)
		_ = s.Start()
	}()
	return ts, nil
}

func (ts *testServer) Close() error {
	_ = ts.srv.Close()
	select {
	case <-ts.done:
	case <-time.After(10 * time.Second):
		return errors.New("server accept loop did not stop")
	}
	ts.f.Close()
	return nil
}

type nopLogger struct{}

func (nopLogger) Print(v ...any) {}

// driverLogin logs in through go-sql-driver/mysql. On success it returns CURRENT_USER().
func driverLogin(addr, user, pw string) (ok bool, currentUser string, errNum uint16, err error) {
	cfg := gomysql.NewConfig()
	cfg.User, cfg.Passwd, cfg.Net, cfg.Addr = user, pw, "tcp", addr
	cfg.AllowNativePasswords = true
	cfg.Timeout, cfg.ReadTimeout, cfg.WriteTimeout = 10*time.Second, 10*time.Second, 10*time.Second
	cfg.Logger = nopLogger{}
	conn, cerr := gomysql.NewConnector(cfg)
	if cerr != nil {
		return false, "", 0, cerr
	}
	ctx, cancel := context.WithTimeout(context.Background(), 15*time.Second)
	defer cancel()
	c, cerr := conn.Connect(ctx)
	if cerr != nil {
		var me *gomysql.MySQLError
		if errors.As(cerr, &me) {
			return false, "", me.Number, cerr
		}
		return false, "", 0, cerr
	}
	defer c.Close()
	rows, qerr := c.(driver.QueryerContext).QueryContext(ctx, "SELECT CURRENT_USER()", nil)
	if qerr != nil {
		return true, "", 0, qerr
	}
	defer rows.Close()
	dest := make([]driver.Value, 1)
	if nerr := rows.Next(dest); nerr != nil && nerr != io.EOF {
		return true, "", 0, nerr
	}
	switch v := dest[0].(type) {
	case []byte:
		currentUser = string(v)
	case string:
		currentUser = v
	}
	return true, currentUser, 0, nil
}
