package c40

import (
	"bytes"
	"fmt"
	"os"
	"strings"
	"testing"
	"time"

	"github.com/sirupsen/logrus"
	"pgregory.net/rapid"

	"github.com/dolthub/go-mysql-server/vh/internal/kf"
	"github.com/dolthub/go-mysql-server/vh/internal/stats"
)

// Candidate findings (notes/C40.md).
const (
	kfLock = "C40-account-lock-ignored"              // CREATE USER ... ACCOUNT LOCK creates an unlocked account
	kfLong = "C40-overlong-native-response-accepted" // a mysql_native_password response longer than 20 bytes is accepted if its first 20 bytes are right
	// DROP USER 'u'@'127.0.0.1' drops another account of user u that matches logins from localhost
	// ('u'@'localhost', 'u'@'%', ...) when one exists: the statement's account name goes through
	// the login matching of MySQLDb.GetUser (rowexec buildDropUser). ALTER USER looks the account
	// up exactly and is not affected (it is generated in the same situation and must be right).
	kfWrongAcct = "C40-drop-user-hits-other-account"
)

func TestMain(m *testing.M) {
	logrus.SetLevel(logrus.PanicLevel) // the server logs every connection
	os.Exit(m.Run())
}

var (
	userNames = []string{"a", "a", "b", "A", "", "r"}
	tryNames  = []string{"a", "a", "b", "A", "", "r", "nouser"}
	// every connection of the check comes from 127.0.0.1, which the server also knows as localhost
	hostPool = []string{"localhost", "127.0.0.1", "%", "127.0.0.%", "%.0.0.1", "local%", "127.%.1", // match
		"10.%", "otherhost", "27.0.0.%", "ocalhos%", "127.0.0.2", "127.0.0.1%0", // do not match
		// text after the last % that occurs inside the client host but not at its end, and text before the first %
		// that occurs inside but not at its start (the pattern is anchored on both sides)
		"127.%.0", "%.0.0", "%ocalhos", "%127.0.0", "l%calh", "0.%.1"}
	pwPool = []string{"", "p", "pw", "Pw", "pw ", "pässwörd✓", `it's "q"`, `p\w`, strings.Repeat("x", 70), "0"}
)

// hostMatches: does an account host pattern match a client connecting from 127.0.0.1
// (host name localhost)? Literal hosts match by equality, '%' matches any run of characters;
// the pattern is anchored on both sides.
func hostMatches(pattern string) bool {
	for _, h := range []string{"localhost", "127.0.0.1"} {
		if wild(pattern, h) {
			return true
		}
	}
	return false
}

func wild(p, s string) bool {
	if p == "" {
		return s == ""
	}
	if p[0] == '%' {
		for i := 0; i <= len(s); i++ {
			if wild(p[1:], s[i:]) {
				return true
			}
		}
		return false
	}
	return s != "" && p[0] == s[0] && wild(p[1:], s[1:])
}

type account struct {
	user, host string
	pw         string // "" = no password
	locked     bool
	role       bool
}

func (a account) name() string { return a.user + "@" + a.host }

func lit(s string) string {
	s = strings.ReplaceAll(s, `\`, `\\`)
	return "'" + strings.ReplaceAll(s, "'", "''") + "'"
}

func (a account) sqlName() string { return lit(a.user) + "@" + lit(a.host) }

type world struct {
	rt      *rapid.T
	st      *stats.Collector
	ts      *testServer
	accts   []account
	history []string
	nontriv bool
	tainted map[string]bool // user names for which an in-region DROP USER ran (kfWrongAcct)
}

// hitsOther: region of kfWrongAcct — DROP USER names accts[i] with a loopback address as
// host; the engine's lookup rewrites that to localhost, misses the exact entry and then takes
// whichever account of that user name matches a login from localhost first (possibly another).
func (w *world) hitsOther(i int) bool {
	a := w.accts[i]
	if a.host != "127.0.0.1" && a.host != "::1" {
		return false
	}
	for j, b := range w.accts {
		if j != i && b.user == a.user && hostMatches(b.host) {
			return true
		}
	}
	return false
}

// regionDrop reports whether the DROP USER of accts[i] must be skipped (finding listed) and
// records the taint otherwise.
func (w *world) regionDrop(i int) bool {
	if !w.hitsOther(i) {
		return false
	}
	if kf.Listed(kfWrongAcct) {
		w.st.Excluded(kfWrongAcct)
		return true
	}
	w.tainted[w.accts[i].user] = true
	return false
}

func (w *world) fail(format string, args ...any) {
	w.rt.Helper()
	w.rt.Fatalf("%s\nhistory:\n  %s", fmt.Sprintf(format, args...), strings.Join(w.history, "\n  "))
}

func (w *world) find(user, host string) int {
	for i, a := range w.accts {
		if a.user == user && a.host == host {
			return i
		}
	}
	return -1
}

func (w *world) root(q string) {
	w.history = append(w.history, q)
	r := w.ts.root.Exec(q)
	if !r.OK() {
		w.fail("account statement failed as root: %s -> %s\n%s", q, r, r.Stack)
	}
}

// accountOp creates, alters or drops an account through SQL.
func (w *world) accountOp() {
	rt := w.rt
	kinds := []string{"create", "create", "create"}
	if len(w.accts) > 0 {
		kinds = append(kinds, "alter", "alter", "drop")
	}
	switch rapid.SampledFrom(kinds).Draw(rt, "acctop") {
	case "create":
		a := account{user: rapid.SampledFrom(userNames).Draw(rt, "user"), host: rapid.SampledFrom(hostPool).Draw(rt, "host")}
		if a.user == "r" {
			// the role name: roles are locked accounts without password at host '%'
			a.host, a.role, a.locked = "%", true, true
		}
		if w.find(a.user, a.host) >= 0 {
			return
		}
		if a.role {
			w.root("CREATE ROLE " + lit(a.user))
			w.st.Class("account:role")
		} else {
			a.pw = rapid.SampledFrom(pwPool).Draw(rt, "pw")
			q := "CREATE USER " + a.sqlName()
			switch form := rapid.IntRange(0, 2).Draw(rt, "authform"); {
			case a.pw == "" && form == 0:
			case form == 2:
				q += " IDENTIFIED WITH mysql_native_password BY " + lit(a.pw)
			default:
				q += " IDENTIFIED BY " + lit(a.pw)
			}
			if rapid.IntRange(0, 5).Draw(rt, "lock") == 0 {
				if kf.Listed(kfLock) {
					w.st.Excluded(kfLock)
				} else {
					q += " ACCOUNT LOCK"
					a.locked = true
				}
			}
			w.root(q)
			w.st.Class("account:user")
		}
		w.accts = append(w.accts, a)
	case "alter":
		i := rapid.IntRange(0, len(w.accts)-1).Draw(rt, "which")
		if w.accts[i].role {
			return
		}
		w.accts[i].pw = rapid.SampledFrom(pwPool).Draw(rt, "newpw")
		w.root("ALTER USER " + w.accts[i].sqlName() + " IDENTIFIED BY " + lit(w.accts[i].pw))
		w.st.Class("account:alter-password")
	case "drop":
		i := rapid.IntRange(0, len(w.accts)-1).Draw(rt, "which")
		if !w.accts[i].role && w.regionDrop(i) {
			return
		}
		if w.accts[i].role {
			w.root("DROP ROLE " + lit(w.accts[i].user))
		} else {
			w.root("DROP USER " + w.accts[i].sqlName())
		}
		w.accts = append(w.accts[:i:i], w.accts[i+1:]...)
		w.st.Class("account:drop")
	}
}

// candidates are the accounts that match a login as user from this client. An account
// with an empty user name matches every user name. Which of several matching accounts is
// used is unspecified in the engine (MySQL: most specific host first), so every candidate
// is an acceptable choice.
func (w *world) candidates(user string) (out []account) {
	for _, a := range w.accts {
		if (a.user == user || a.user == "") && hostMatches(a.host) {
			out = append(out, a)
		}
	}
	return
}

// judge compares an observed outcome with the model. valid(a) says whether the presented
// credentials are right for account a.
func (w *world) judge(desc string, user string, accepted bool, currentUser string, valid func(a account) bool) (cands []account, mixed bool) {
	cands = w.candidates(user)
	var good, bad []account
	for _, a := range cands {
		if !a.locked && valid(a) {
			good = append(good, a)
		} else {
			bad = append(bad, a)
		}
	}
	if accepted {
		for _, a := range good {
			if a.name() == currentUser {
				return cands, len(bad) > 0
			}
		}
		// signatures of the candidate findings
		for _, a := range cands {
			if a.name() == currentUser && a.locked && !a.role && valid(a) && kf.Suppress(w.st, kfLock) {
				return cands, false
			}
		}
		if w.wrongAcct(user) {
			return cands, false
		}
		w.fail("%s: ACCEPTED as %q, but no matching unlocked account has these credentials (matching accounts: %v, of which valid: %v)", desc, currentUser, names(cands), names(good))
	}
	if len(cands) > 0 && len(bad) == 0 {
		if w.wrongAcct(user) {
			return cands, false
		}
		w.fail("%s: REJECTED, but every matching account is unlocked and has exactly these credentials (%v)", desc, names(good))
	}
	return cands, len(good) > 0
}

// wrongAcct is the signature of kfWrongAcct: the login uses a user name (or the anonymous
// fallback) for which an in-region DROP USER was executed earlier in the history.
func (w *world) wrongAcct(user string) bool {
	return (w.tainted[user] || w.tainted[""]) && kf.Suppress(w.st, kfWrongAcct)
}

func names(as []account) []string {
	out := []string{}
	for _, a := range as {
		s := a.name()
		if a.locked {
			s += "(locked)"
		}
		out = append(out, s)
	}
	return out
}

func (w *world) pickPassword(user string) string {
	rt := w.rt
	cands := w.candidates(user)
	if len(cands) > 0 && rapid.IntRange(0, 9).Draw(rt, "rightpw") < 6 {
		return rapid.SampledFrom(cands).Draw(rt, "of").pw
	}
	return rapid.SampledFrom(pwPool).Draw(rt, "trypw")
}

func (w *world) pickUser() string {
	rt := w.rt
	if len(w.accts) > 0 && rapid.IntRange(0, 9).Draw(rt, "known") < 7 {
		return rapid.SampledFrom(w.accts).Draw(rt, "acct").user
	}
	return rapid.SampledFrom(tryNames).Draw(rt, "name")
}

// driverAttempt logs in with go-sql-driver/mysql.
func (w *world) driverAttempt() {
	user := w.pickUser()
	pw := w.pickPassword(user)
	ok, cu, num, err := driverLogin(w.ts.addr, user, pw)
	desc := fmt.Sprintf("driver login user=%q password=%q", user, pw)
	w.history = append(w.history, fmt.Sprintf("-- %s -> ok=%v current_user=%q errno=%d err=%v", desc, ok, cu, num, err))
	if ok && err != nil {
		w.fail("%s: logged in but SELECT CURRENT_USER() failed: %v", desc, err)
	}
	cands, mixed := w.judge(desc, user, ok, cu, func(a account) bool { return a.pw == pw })
	w.classify("driver", ok, cands, mixed, false)
}

type rawKind struct {
	name      string
	malformed bool
}

// rawAttempt logs in with the raw protocol client and a possibly malformed auth response.
func (w *world) rawAttempt() {
	rt := w.rt
	user := w.pickUser()
	pw := w.pickPassword(user)
	kind := rapid.SampledFrom([]string{"correct", "correct", "empty", "random", "random", "truncated", "truncated", "extended", "extended", "bitflip", "nul"}).Draw(rt, "respkind")
	if pw == "" && (kind == "truncated" || kind == "extended" || kind == "bitflip") {
		kind = "random"
	}
	if kind == "extended" && kf.Listed(kfLong) {
		w.st.Excluded(kfLong)
		kind = "truncated"
	}
	plugin := rapid.SampledFrom([]string{"mysql_native_password", "mysql_native_password", "mysql_native_password", "caching_sha2_password", "mysql_clear_password", "bogus", ""}).Draw(rt, "plugin")
	lenenc := rapid.Bool().Draw(rt, "lenenc")
	// everything random about the response is drawn up front; the salt is only known later
	cut := rapid.IntRange(1, 19).Draw(rt, "cut")
	extra := rapid.SliceOfN(rapid.Byte(), 1, 20).Draw(rt, "extra")
	junk := rapid.SliceOfN(rapid.Byte(), 1, 40).Draw(rt, "junk")
	bit := rapid.IntRange(0, 159).Draw(rt, "bit")
	var lastSalt, lastResp []byte
	resp := func(salt []byte) []byte {
		var out []byte
		full := nativeScramble(salt, pw)
		switch kind {
		case "correct":
			out = full
		case "empty":
		case "random":
			out = junk
		case "truncated":
			out = full[:cut]
		case "extended":
			out = append(append([]byte{}, full...), extra...)
		case "bitflip":
			out = append([]byte{}, full...)
			out[bit/8] ^= 1 << (bit % 8)
		case "nul":
			out = []byte{0}
		}
		lastSalt, lastResp = salt, out
		return out
	}
	cl, err := dialRaw(w.ts.addr, 15*time.Second)
	if err != nil {
		w.fail("raw client cannot connect / read the handshake: %v", err)
	}
	defer cl.Close()
	res := cl.login(user, plugin, lenenc, resp)
	desc := fmt.Sprintf("raw login user=%q plugin=%q response=%s(password %q, %d bytes)", user, plugin, kind, pw, len(lastResp))
	cu := ""
	if res.OK {
		cu, err = cl.queryOne("SELECT CURRENT_USER()")
		if err != nil {
			w.history = append(w.history, "-- "+desc+" -> "+res.String())
			w.fail("%s: logged in but SELECT CURRENT_USER() failed: %v", desc, err)
		}
	}
	w.history = append(w.history, fmt.Sprintf("-- %s -> %s current_user=%q", desc, res, cu))
	if !res.OK && res.ErrCode == 0 && !res.Closed {
		w.fail("%s: neither OK, ERR nor a closed connection: %s", desc, res)
	}
	valid := func(a account) bool {
		if a.pw == "" {
			return len(lastResp) == 0
		}
		return bytes.Equal(lastResp, nativeScramble(lastSalt, a.pw))
	}
	if res.OK && len(lastResp) > 20 {
		// signature of kfLong: the first 20 bytes are the right scramble for the account used
		for _, a := range w.candidates(user) {
			if a.name() == cu && !a.locked && a.pw != "" && bytes.Equal(lastResp[:20], nativeScramble(lastSalt, a.pw)) && kf.Suppress(w.st, kfLong) {
				w.classify("raw:"+kind, true, nil, false, true)
				return
			}
		}
	}
	cands, mixed := w.judge(desc, user, res.OK, cu, valid)
	malformed := kind != "correct" && kind != "empty"
	w.classify("raw:"+kind, res.OK, cands, mixed, malformed)
	if res.Closed {
		w.st.Class("reject:connection-closed-without-ERR")
	}
	if !res.OK && malformed {
		w.stillServing("after " + desc)
	}
}

func (w *world) classify(how string, accepted bool, cands []account, mixed, malformed bool) {
	w.st.Class("attempt:" + how)
	if accepted {
		w.st.Class("outcome:accept")
	} else {
		w.st.Class("outcome:reject")
	}
	if mixed {
		w.st.Class("outcome:either-allowed")
	}
	if len(cands) >= 2 {
		w.st.Class("candidates:>=2")
	}
	if len(cands) >= 2 || malformed {
		w.nontriv = true
	}
}

// stillServing: a fresh valid login succeeds.
func (w *world) stillServing(when string) {
	ok, cu, num, err := driverLogin(w.ts.addr, "root", "")
	if !ok || cu != "root@localhost" {
		w.fail("server no longer serves valid logins %s: root login ok=%v current_user=%q errno=%d err=%v", when, ok, cu, num, err)
	}
}

func TestC40(t *testing.T) {
	st := stats.New("C40", "")
	defer st.Flush()
	maxSteps := 16
	if os.Getenv("VERIF_TIER") == "thorough" {
		maxSteps = 30
	}
	attempts := 0
	rapid.Check(t, func(rt *rapid.T) {
		st.Eval()
		ts, err := startServer()
		if err != nil {
			rt.Fatalf("cannot start server: %v", err)
		}
		w := &world{rt: rt, st: st, ts: ts, tainted: map[string]bool{}}
		defer func() {
			if err := ts.Close(); err != nil {
				rt.Fatalf("TEARDOWN: %v", err)
			}
		}()
		for i, n := 0, rapid.IntRange(1, 4).Draw(rt, "initial"); i < n; i++ {
			w.accountOp()
		}
		n := rapid.IntRange(6, maxSteps).Draw(rt, "steps")
		for i := 0; i < n; i++ {
			switch rapid.IntRange(0, 9).Draw(rt, "what") {
			case 0, 1:
				w.accountOp()
			case 2, 3, 4, 5:
				w.driverAttempt()
				attempts++
			default:
				w.rawAttempt()
				attempts++
			}
		}
		w.stillServing("at the end of the case")
		if w.nontriv {
			st.NonTrivial(map[string]any{"history": w.history}, strings.Join(w.history, "\n"))
		}
	})
	st.Set("attempts", attempts)
}
