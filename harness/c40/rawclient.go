// Package c40 checks property C40 (authentication accepts exactly the valid credentials).
package c40

import (
	"bufio"
	"bytes"
	"crypto/sha1"
	"encoding/binary"
	"errors"
	"fmt"
	"io"
	"net"
	"time"
)

// rawClient is a minimal MySQL protocol client for the connection phase: it reads the
// HandshakeV10 packet, sends a HandshakeResponse41 with arbitrary auth-response bytes and an
// arbitrary plugin name, follows one AuthSwitchRequest, and can run one text query.
type rawClient struct {
	conn net.Conn
	r    *bufio.Reader
	seq  byte

	Salt       []byte // 20 bytes from the handshake
	Plugin     string // plugin announced by the server
	ServerCaps uint32
}

const (
	capLongPassword   = 1 << 0
	capProtocol41     = 1 << 9
	capTransactions   = 1 << 13
	capSecureConn     = 1 << 15
	capPluginAuth     = 1 << 19
	capPluginAuthLenc = 1 << 21
)

func dialRaw(addr string, timeout time.Duration) (*rawClient, error) {
	c, err := net.DialTimeout("tcp", addr, timeout)
	if err != nil {
		return nil, err
	}
	_ = c.SetDeadline(time.Now().Add(timeout))
	rc := &rawClient{conn: c, r: bufio.NewReader(c)}
	if err := rc.readHandshake(); err != nil {
		c.Close()
		return nil, err
	}
	return rc, nil
}

func (c *rawClient) Close() { c.conn.Close() }

func (c *rawClient) readPacket() ([]byte, error) {
	var hdr [4]byte
	if _, err := io.ReadFull(c.r, hdr[:]); err != nil {
		return nil, err
	}
	n := int(hdr[0]) | int(hdr[1])<<8 | int(hdr[2])<<16
	c.seq = hdr[3] + 1
	buf := make([]byte, n)
	if _, err := io.ReadFull(c.r, buf); err != nil {
		return nil, err
	}
	return buf, nil
}

func (c *rawClient) writePacket(payload []byte) error {
	hdr := []byte{byte(len(payload)), byte(len(payload) >> 8), byte(len(payload) >> 16), c.seq}
	c.seq++
	_, err := c.conn.Write(append(hdr, payload...))
	return err
}

func readNul(b []byte) (string, []byte, error) {
	i := bytes.IndexByte(b, 0)
	if i < 0 {
		return "", nil, errors.New("missing NUL")
	}
	return string(b[:i]), b[i+1:], nil
}

func (c *rawClient) readHandshake() error {
	p, err := c.readPacket()
	if err != nil {
		return err
	}
	if len(p) < 1 || p[0] != 10 {
		return fmt.Errorf("unexpected first packet % x", p)
	}
	_, rest, err := readNul(p[1:])
	if err != nil {
		return err
	}
	if len(rest) < 4+8+1+2+1+2+2+1+10 {
		return errors.New("short handshake")
	}
	rest = rest[4:]
	salt := append([]byte{}, rest[:8]...)
	rest = rest[9:]
	caps := uint32(binary.LittleEndian.Uint16(rest))
	rest = rest[2+1+2:]
	caps |= uint32(binary.LittleEndian.Uint16(rest)) << 16
	rest = rest[2:]
	alen := int(rest[0])
	rest = rest[1+10:]
	n := alen - 8
	if n < 13 {
		n = 13
	}
	if len(rest) < n {
		return errors.New("short handshake (salt part 2)")
	}
	salt = append(salt, rest[:n-1]...) // drop the trailing NUL
	rest = rest[n:]
	c.Salt = salt
	c.ServerCaps = caps
	if caps&capPluginAuth != 0 {
		c.Plugin, _, _ = readNul(rest)
	}
	return nil
}

// nativeScramble computes SHA1(pw) XOR SHA1(salt ∥ SHA1(SHA1(pw))).
func nativeScramble(salt []byte, pw string) []byte {
	if pw == "" {
		return nil
	}
	s1 := sha1.Sum([]byte(pw))
	s2 := sha1.Sum(s1[:])
	h := sha1.New()
	h.Write(salt)
	h.Write(s2[:])
	m := h.Sum(nil)
	for i := range m {
		m[i] ^= s1[i]
	}
	return m
}

// authResult of the connection phase.
type authResult struct {
	OK       bool   // server sent an OK packet
	ErrCode  uint16 // ERR packet code (0 if none)
	ErrMsg   string
	Closed   bool // connection closed / reset without OK or ERR
	Switched bool // an AuthSwitchRequest was answered
	SwitchTo string
	Other    string // anything else (protocol surprise)
}

func (r authResult) String() string {
	switch {
	case r.OK:
		return fmt.Sprintf("OK(switched=%v)", r.Switched)
	case r.ErrCode != 0:
		return fmt.Sprintf("ERR %d %q (switched=%v)", r.ErrCode, r.ErrMsg, r.Switched)
	case r.Closed:
		return fmt.Sprintf("CLOSED (switched=%v)", r.Switched)
	}
	return "OTHER " + r.Other
}

// login sends the handshake response. resp(salt) yields the auth-response bytes for the
// initial response and, if the server asks to switch, again for the new salt.
func (c *rawClient) login(user, plugin string, lenenc bool, resp func(salt []byte) []byte) authResult {
	caps := uint32(capLongPassword | capProtocol41 | capTransactions | capSecureConn | capPluginAuth)
	if lenenc {
		caps |= capPluginAuthLenc
	}
	var b bytes.Buffer
	var u32 [4]byte
	binary.LittleEndian.PutUint32(u32[:], caps)
	b.Write(u32[:])
	binary.LittleEndian.PutUint32(u32[:], 1<<24-1)
	b.Write(u32[:])
	b.WriteByte(45) // utf8mb4_general_ci
	b.Write(make([]byte, 23))
	b.WriteString(user)
	b.WriteByte(0)
	a := resp(c.Salt)
	if len(a) > 250 {
		a = a[:250]
	}
	b.WriteByte(byte(len(a))) // 1-byte length == lenenc for < 251
	b.Write(a)
	b.WriteString(plugin)
	b.WriteByte(0)
	if err := c.writePacket(b.Bytes()); err != nil {
		return authResult{Closed: true}
	}
	res := authResult{}
	for round := 0; round < 3; round++ {
		p, err := c.readPacket()
		if err != nil {
			res.Closed = true
			return res
		}
		if len(p) == 0 {
			res.Other = "empty packet"
			return res
		}
		switch p[0] {
		case 0x00:
			res.OK = true
			return res
		case 0xff:
			if len(p) >= 3 {
				res.ErrCode = binary.LittleEndian.Uint16(p[1:3])
				msg := p[3:]
				if len(msg) >= 6 && msg[0] == '#' {
					msg = msg[6:]
				}
				res.ErrMsg = string(msg)
			} else {
				res.Other = "short ERR"
			}
			return res
		case 0xfe:
			name, data, err := readNul(p[1:])
			if err != nil {
				res.Other = "bad auth switch"
				return res
			}
			res.Switched, res.SwitchTo = true, name
			salt := bytes.TrimRight(data, "\x00")
			if err := c.writePacket(resp(salt)); err != nil {
				res.Closed = true
				return res
			}
		default:
			res.Other = fmt.Sprintf("packet % x", p)
			return res
		}
	}
	res.Other = "too many rounds"
	return res
}

func lenencInt(b []byte) (uint64, []byte, bool) {
	if len(b) == 0 {
		return 0, nil, false
	}
	switch {
	case b[0] < 0xfb:
		return uint64(b[0]), b[1:], true
	case b[0] == 0xfc && len(b) >= 3:
		return uint64(binary.LittleEndian.Uint16(b[1:])), b[3:], true
	case b[0] == 0xfd && len(b) >= 4:
		return uint64(b[1]) | uint64(b[2])<<8 | uint64(b[3])<<16, b[4:], true
	case b[0] == 0xfe && len(b) >= 9:
		return binary.LittleEndian.Uint64(b[1:]), b[9:], true
	}
	return 0, nil, false
}

// queryOne runs a text query returning one row with one column and returns its text.
func (c *rawClient) queryOne(q string) (string, error) {
	c.seq = 0
	if err := c.writePacket(append([]byte{0x03}, q...)); err != nil {
		return "", err
	}
	p, err := c.readPacket()
	if err != nil {
		return "", err
	}
	if p[0] == 0xff {
		return "", fmt.Errorf("ERR %s", p[3:])
	}
	ncol, _, ok := lenencInt(p)
	if !ok || ncol != 1 {
		return "", fmt.Errorf("unexpected column count packet % x", p)
	}
	// column definition, EOF
	for {
		p, err = c.readPacket()
		if err != nil {
			return "", err
		}
		if p[0] == 0xfe && len(p) < 9 {
			break
		}
	}
	p, err = c.readPacket()
	if err != nil {
		return "", err
	}
	if p[0] == 0xfb {
		return "NULL", nil
	}
	n, rest, ok := lenencInt(p)
	if !ok || uint64(len(rest)) < n {
		return "", fmt.Errorf("bad row packet % x", p)
	}
	return string(rest[:n]), nil
}
