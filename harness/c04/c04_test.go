package c04

import (
	"fmt"
	"os"
	"strings"
	"testing"

	"github.com/dolthub/go-mysql-server/vh/internal/fx"
	"github.com/dolthub/go-mysql-server/vh/internal/kf"
	"github.com/dolthub/go-mysql-server/vh/internal/stats"
	"pgregory.net/rapid"
)

func maxRows() int {
	if os.Getenv("VERIF_TIER") == "thorough" {
		return 24
	}
	return 12
}

// TestC04: generated tables (indexed and index-free), generated ORDER BY queries (single table,
// join, DISTINCT, GROUP BY, UNION) with generated LIMIT / OFFSET. Oracle: (1) the output is
// sorted under an own comparator of the keys; (2) it is a valid slice of the base result (the
// same query without ORDER BY / LIMIT): a permutation without LIMIT, otherwise every class of
// tied rows contributes exactly the rows its positions in the window demand.
func TestC04(t *testing.T) {
	st := stats.New("C04", "")
	defer st.Flush()
	mr := maxRows()
	rapid.Check(t, func(rt *rapid.T) {
		st.Eval()
		runCase(rt, st, mr)
	})
}

type tcase struct {
	script []string
}

func (c *tcase) String() string { return strings.Join(c.script, ";\n") + ";" }

func runCase(rt *rapid.T, st *stats.Collector, maxRows int) {
	c := &tcase{}
	noCI := rapid.Bool().Draw(rt, "noci")
	ta := genTable(rt, "t0", maxRows, noCI)
	tb := genTable(rt, "t1", min(maxRows, 8), noCI)
	f := fx.New(fx.Opts{Stats: rapid.IntRange(0, 3).Draw(rt, "stats") == 0})
	defer f.Close()
	s := f.NewSession("", "", "")
	c.script = append(c.script, ta.ddl()...)
	c.script = append(c.script, tb.ddl()...)
	s.MustExec(rt.Fatalf, c.script...)

	g := &qgen{rt: rt}
	// DISTINCT, GROUP BY and UNION de-duplicate rows: they are generated only over tables without
	// case-insensitive columns, so that the representative of a class of equal strings cannot
	// differ between the ordered query and the base query
	modes := []string{"single", "single", "single", "join", "join"}
	if noCI {
		modes = []string{"single", "single", "join", "distinct", "group", "union"}
	}
	nq := rapid.IntRange(1, 3).Draw(rt, "nqueries")
	for i := 0; i < nq; i++ {
		var q *query
		switch rapid.SampledFrom(modes).Draw(rt, "mode") {
		case "single":
			q = g.single(ta)
		case "join":
			q = g.join(ta, tb)
		case "distinct":
			q = g.distinctQ(ta)
		case "group":
			q = g.groupQ(ta)
		default:
			q = g.unionQ(ta)
		}
		if !checkQuery(rt, st, c, s, q) {
			return
		}
	}
}

// toRows attaches the sort key to every row of a result.
func toRows(q *query, rows [][]string, lookup map[string][]string) ([]orow, error) {
	out := make([]orow, len(rows))
	for i, r := range rows {
		out[i].vals = r
		var keyNorms []string
		if q.hidden {
			var id []string
			for _, p := range q.idItems {
				id = append(id, r[p])
			}
			kn, ok := lookup[strings.Join(id, "\x1f")]
			if !ok {
				return nil, fmt.Errorf("row %v: no row with these ids in the base result", r)
			}
			keyNorms = kn
		} else {
			for _, k := range q.keys {
				keyNorms = append(keyNorms, r[k.item])
			}
		}
		for j, k := range q.keys {
			kv, err := parseKey(keyNorms[j], k.spec.cls)
			if err != nil {
				return nil, fmt.Errorf("key %d (%s) of row %v: %v", j+1, k.expr, r, err)
			}
			out[i].key = append(out[i].key, kv)
		}
	}
	return out, nil
}

func planLabel(plan string) string {
	switch {
	case plan == "":
		return "plan:none"
	case strings.Contains(plan, "TopN"):
		return "plan:topn"
	case strings.Contains(plan, "Sort"):
		return "plan:sort"
	case strings.Contains(plan, "sortFields"):
		return "plan:setop-sort"
	case strings.Contains(plan, "IndexedTableAccess"):
		return "plan:index-order"
	}
	return "plan:no-sort-node"
}

// checkQuery runs one query and applies the oracle. It returns false when the fixture must not
// be used any further.
func checkQuery(rt *rapid.T, st *stats.Collector, c *tcase, s *fx.Sess, q *query) bool {
	st.Class("queries")
	st.Class("mode:" + q.mode)
	baseSQL := q.base()
	rb := s.Exec(baseSQL)
	if !rb.OK() {
		rt.Fatalf("the query without ORDER BY failed (generator or engine defect outside C04)\n%s\n%s;\n-> %s\n%s", c, baseSQL, rb, rb.Stack)
	}
	baseRows := fx.NormRows(rb.Schema, rb.Rows)
	total := len(baseRows)

	// LIMIT / OFFSET around the size of the base result: 0, 1, inside, n-1, n, n+1, far beyond
	if rapid.IntRange(0, 3).Draw(rt, "limit") > 0 {
		cands := []int{0, 1, 1, 2, 2, 3, total / 2, total/2 + 1, total - 1, total - 1, total, total + 1, 1000}
		q.limit = max(0, rapid.SampledFrom(cands).Draw(rt, "limitn"))
		if rapid.Bool().Draw(rt, "offset") {
			q.offset = max(0, rapid.SampledFrom(cands).Draw(rt, "offsetn"))
			q.comma = rapid.IntRange(0, 3).Draw(rt, "comma") == 0
		}
	}
	steerAround(st, q)
	ordSQL := q.ordered()
	plan := s.Plan(ordSQL)
	if skipByPlan(st, q, plan) {
		return true
	}
	pl := planLabel(plan)
	st.Class(pl)
	if strings.Contains(plan, "MergeJoin") {
		st.Class("plan:merge-join")
	}
	ro := s.Exec(ordSQL)

	fail := func(what string) {
		if suppressed(st, q, plan, ro) {
			return
		}
		rt.Fatalf("C04 violated: %s\n-- set-up\n%s\n-- query\n%s;\n-> %s\n-- the same query without ORDER BY / LIMIT\n%s;\n-> %s\n-- plan\n%s%s",
			what, c, ordSQL, ro, baseSQL, rb, plan, ro.Stack)
	}
	if ro.TimedOut {
		rt.Fatalf("statement timed out: %s\n%s", c, ordSQL)
	}
	if ro.Panic != nil {
		fail("panic")
		return false
	}
	if ro.Err != nil {
		fail("the query with ORDER BY failed, the query without it returned rows")
		return true
	}
	outRows := fx.NormRows(ro.Schema, ro.Rows)

	var lookup map[string][]string
	if q.hidden {
		rk := s.Exec(q.keysQuery())
		if !rk.OK() {
			rt.Fatalf("the key query failed\n%s\n%s;\n-> %s\n%s", c, q.keysQuery(), rk, rk.Stack)
		}
		lookup = map[string][]string{}
		nid := len(q.idItems)
		for _, r := range fx.NormRows(rk.Schema, rk.Rows) {
			lookup[strings.Join(r[:nid], "\x1f")] = r[nid:]
		}
	}
	base, err := toRows(q, baseRows, lookup)
	if err != nil {
		rt.Fatalf("harness: %v\n%s\n%s", err, c, ordSQL)
	}
	out, err := toRows(q, outRows, lookup)
	if err != nil {
		fail(err.Error())
		return true
	}
	ks := q.specs()
	if msg := checkSorted(out, ks); msg != "" {
		fail(msg)
		return true
	}
	msg, info := checkSlice(base, out, ks, q.limit, q.offset)
	if msg != "" {
		fail(msg)
		return true
	}

	// statistics and the non-trivial rule
	for _, l := range q.labels {
		st.Class(l)
	}
	st.Class(fmt.Sprintf("nkeys:%d", len(q.keys)))
	if q.hidden {
		st.Class("keys:hidden")
	}
	special := false
	for _, k := range q.keys {
		if k.spec.desc {
			st.Class("key:desc")
			special = true
		}
		if k.spec.coll == collAI || k.spec.coll == collGen {
			st.Class("key:ci")
			special = true
		}
	}
	nullKey := false
	for _, r := range out {
		for _, kv := range r.key {
			nullKey = nullKey || kv.null
		}
	}
	if nullKey {
		st.Class("key:null-in-output")
		special = true
	}
	switch {
	case q.limit < 0:
		st.Class("limit:none")
	case q.limit == 0:
		st.Class("limit:zero")
	case info.cutsInside:
		st.Class("limit:cuts-inside")
	default:
		st.Class("limit:covers-all-or-nothing")
	}
	if q.offset > 0 {
		st.Class("offset:>0")
	}
	if info.cutsTie {
		st.Class("limit:cuts-a-tie")
	}
	if info.outClasses >= 2 && (info.cutsInside || special) {
		st.Class("nontrivial")
		st.Class("nontrivial:" + pl)
		st.NonTrivial(map[string]any{"query": ordSQL, "rows": len(out), "of": total, "classes": info.outClasses}, c.String(), ordSQL)
	}
	return true
}

// TestC04Known re-runs the minimal witness of every known finding through the same oracle: a
// witness that still violates the property must be listed as known (else the test fails); one
// that satisfies it is reported (the defect was repaired and the id can be retired).
func TestC04Known(t *testing.T) {
	st := stats.New("C04", "known")
	defer st.Flush()
	for i := range findings {
		fd := &findings[i]
		w := fd.witness
		st.Eval()
		f := fx.New(fx.Opts{})
		s := f.NewSession("", "", "")
		s.MustExec(t.Fatalf, w.setup...)
		rb := s.Exec(w.base)
		ro := s.Exec(w.query)
		f.Close()
		if !rb.OK() {
			t.Fatalf("%s: base query of the witness failed: %s", fd.id, rb)
		}
		verdict := ""
		if !ro.OK() {
			verdict = "the query failed: " + ro.String()
		} else {
			conv := func(rows [][]string) []orow {
				out := make([]orow, len(rows))
				for i, r := range rows {
					out[i].vals = r
					for j, p := range w.keyPos {
						kv, err := parseKey(r[p], w.keys[j].cls)
						if err != nil {
							t.Fatalf("%s: %v", fd.id, err)
						}
						out[i].key = append(out[i].key, kv)
					}
				}
				return out
			}
			base, out := conv(fx.NormRows(rb.Schema, rb.Rows)), conv(fx.NormRows(ro.Schema, ro.Rows))
			verdict = checkSorted(out, w.keys)
			if verdict == "" {
				verdict, _ = checkSlice(base, out, w.keys, w.limit, w.offset)
			}
		}
		switch {
		case verdict == "":
			st.Class("witness-no-longer-reproduces:" + fd.id)
			t.Logf("%s: witness no longer reproduces: %s -> %s", fd.id, w.query, ro)
		case kf.Suppress(st, fd.id):
			st.NonTrivial(map[string]any{"finding": fd.id, "query": w.query, "result": ro.String(), "verdict": verdict}, fd.id)
			t.Logf("%s reproduces: %s -> %s: %s", fd.id, w.query, ro, verdict)
		default:
			t.Errorf("C04 violated (witness of %s, not listed as known): %s\n%s;\n-> %s\n%s", fd.id, strings.Join(w.setup, ";\n"), w.query, ro, verdict)
		}
	}
}
