package c04

import (
	"fmt"
	"os"
	"strings"
	"testing"

	"github.com/dolthub/go-mysql-server/vh/internal/fx"
	"github.com/dolthub/go-mysql-server/vh/internal/stats"
	"pgregory.net/rapid"
)

func maxRows() int {
	if os.Getenv("VERIF_TIER") == "thorough" {
		return 24
	}
	return 12
}

// TestC04: generated tables (indexed and index-free), generated ORDER BY queries (single table,
// join, DISTINCT, GROUP BY, UNION) with generated LIMIT / OFFSET. Oracle: (1) the output is
// sorted under an own comparator of the keys; (2) it is a valid slice of the base result (the
// same query without ORDER BY / LIMIT): a permutation without LIMIT, otherwise every class of
// tied rows contributes exactly the rows its positions in the window demand.
func TestC04(t *testing.T) {
	st := stats.New("C04", "")
	defer st.Flush()
	mr := maxRows()
	rapid.Check(t, func(rt *rapid.T) {
		st.Eval()
		runCase(rt, st, mr)
	})
}

type tcase struct {
	script []string
}

func (c *tcase) String() string { return strings.Join(c.script, ";\n") + ";" }

func runCase(rt *rapid.T, st *stats.Collector, maxRows int) {
	c := &tcase{}
	noCI := rapid.IntRange(0, 2).Draw(rt, "noci") == 0
	ta := genTable(rt, "t0", maxRows, noCI)
	tb := genTable(rt, "t1", min(maxRows, 8), noCI)
	f := fx.New(fx.Opts{Stats: rapid.IntRange(0, 3).Draw(rt, "stats") == 0})
	defer f.Close()
	s := f.NewSession("", "", "")
	c.script = append(c.script, ta.ddl()...)
	c.script = append(c.script, tb.ddl()...)
	s.MustExec(rt.Fatalf, c.script...)

	g := &qgen{rt: rt}
	nq := rapid.IntRange(1, 3).Draw(rt, "nqueries")
	for i := 0; i < nq; i++ {
		var q *query
		hi := 1
		if noCI {
			hi = 4
		}
		switch m := rapid.IntRange(0, hi+2).Draw(rt, "mode"); {
		case m <= 2:
			q = g.single(ta)
		case m == 3:
			q = g.join(ta, tb)
		case m == 4:
			q = g.distinctQ(ta)
		case m == 5:
			q = g.groupQ(ta)
		default:
			q = g.unionQ(ta)
		}
		if !checkQuery(rt, st, c, s, q) {
			return
		}
	}
}

// toRows attaches the sort key to every row of a result.
func toRows(q *query, rows [][]string, lookup map[string][]string) ([]orow, error) {
	out := make([]orow, len(rows))
	for i, r := range rows {
		out[i].vals = r
		var keyNorms []string
		if q.hidden {
			var id []string
			for _, p := range q.idItems {
				id = append(id, r[p])
			}
			kn, ok := lookup[strings.Join(id, "\x1f")]
			if !ok {
				return nil, fmt.Errorf("row %v: no row with these ids in the base result", r)
			}
			keyNorms = kn
		} else {
			for _, k := range q.keys {
				keyNorms = append(keyNorms, r[k.item])
			}
		}
		for j, k := range q.keys {
			kv, err := parseKey(keyNorms[j], k.spec.cls)
			if err != nil {
				return nil, fmt.Errorf("key %d (%s) of row %v: %v", j+1, k.expr, r, err)
			}
			out[i].key = append(out[i].key, kv)
		}
	}
	return out, nil
}

func planLabel(plan string) string {
	switch {
	case plan == "":
		return "plan:none"
	case strings.Contains(plan, "TopN"):
		return "plan:topn"
	case strings.Contains(plan, "Sort"):
		return "plan:sort"
	case strings.Contains(plan, "IndexedTableAccess"):
		return "plan:index-order"
	}
	return "plan:no-sort-node"
}

// checkQuery runs one query and applies the oracle. It returns false when the fixture must not
// be used any further.
func checkQuery(rt *rapid.T, st *stats.Collector, c *tcase, s *fx.Sess, q *query) bool {
	st.Class("queries")
	st.Class("mode:" + q.mode)
	baseSQL := q.base()
	rb := s.Exec(baseSQL)
	if !rb.OK() {
		rt.Fatalf("the query without ORDER BY failed (generator or engine defect outside C04)\n%s\n%s;\n-> %s\n%s", c, baseSQL, rb, rb.Stack)
	}
	baseRows := fx.NormRows(rb.Schema, rb.Rows)
	total := len(baseRows)

	// LIMIT / OFFSET around the size of the base result: 0, 1, inside, n, n+1, far beyond
	if rapid.IntRange(0, 3).Draw(rt, "limit") > 0 {
		q.limit = rapid.SampledFrom([]int{0, 1, 1, 2, 3, total - 1, total, total + 1, 1000}).Draw(rt, "limitn")
		if q.limit < 0 {
			q.limit = 0
		}
		if rapid.Bool().Draw(rt, "offset") {
			q.offset = rapid.SampledFrom([]int{0, 1, 1, 2, 3, total - 1, total, total + 1, 1000}).Draw(rt, "offsetn")
			if q.offset < 0 {
				q.offset = 0
			}
			q.comma = rapid.IntRange(0, 3).Draw(rt, "comma") == 0
		}
	}
	ordSQL := q.ordered()
	pl := planLabel(s.Plan(ordSQL))
	st.Class(pl)
	ro := s.Exec(ordSQL)

	fail := func(what string) {
		rt.Fatalf("C04 violated: %s\n-- set-up\n%s\n-- query\n%s;\n-> %s\n-- the same query without ORDER BY / LIMIT\n%s;\n-> %s\n-- plan\n%s%s",
			what, c, ordSQL, ro, baseSQL, rb, s.Plan(ordSQL), ro.Stack)
	}
	if ro.TimedOut {
		rt.Fatalf("statement timed out: %s\n%s", c, ordSQL)
	}
	if ro.Panic != nil {
		fail("panic")
		return false
	}
	if ro.Err != nil {
		fail("the query with ORDER BY failed, the query without it returned rows")
		return true
	}
	outRows := fx.NormRows(ro.Schema, ro.Rows)

	var lookup map[string][]string
	if q.hidden {
		rk := s.Exec(q.keysQuery())
		if !rk.OK() {
			rt.Fatalf("the key query failed\n%s\n%s;\n-> %s\n%s", c, q.keysQuery(), rk, rk.Stack)
		}
		lookup = map[string][]string{}
		nid := len(q.idItems)
		for _, r := range fx.NormRows(rk.Schema, rk.Rows) {
			lookup[strings.Join(r[:nid], "\x1f")] = r[nid:]
		}
	}
	base, err := toRows(q, baseRows, lookup)
	if err != nil {
		rt.Fatalf("harness: %v\n%s\n%s", err, c, ordSQL)
	}
	out, err := toRows(q, outRows, lookup)
	if err != nil {
		fail(err.Error())
		return true
	}
	ks := q.specs()
	if msg := checkSorted(out, ks); msg != "" {
		fail(msg)
		return true
	}
	msg, info := checkSlice(base, out, ks, q.limit, q.offset)
	if msg != "" {
		fail(msg)
		return true
	}

	// statistics and the non-trivial rule
	for _, l := range q.labels {
		st.Class(l)
	}
	st.Class(fmt.Sprintf("nkeys:%d", len(q.keys)))
	if q.hidden {
		st.Class("keys:hidden")
	}
	special := false
	for _, k := range q.keys {
		if k.spec.desc {
			st.Class("key:desc")
			special = true
		}
		if k.spec.coll == collAI || k.spec.coll == collGen {
			st.Class("key:ci")
			special = true
		}
	}
	nullKey := false
	for _, r := range out {
		for _, kv := range r.key {
			nullKey = nullKey || kv.null
		}
	}
	if nullKey {
		st.Class("key:null-in-output")
		special = true
	}
	switch {
	case q.limit < 0:
		st.Class("limit:none")
	case q.limit == 0:
		st.Class("limit:zero")
	case info.cutsInside:
		st.Class("limit:cuts-inside")
	default:
		st.Class("limit:covers-all-or-nothing")
	}
	if q.offset > 0 {
		st.Class("offset:>0")
	}
	if info.cutsTie {
		st.Class("limit:cuts-a-tie")
	}
	if info.outClasses >= 2 && (info.cutsInside || special) {
		st.Class("nontrivial")
		st.Class("nontrivial:" + pl)
		st.NonTrivial(map[string]any{"query": ordSQL, "rows": len(out), "of": total, "classes": info.outClasses}, c.String(), ordSQL)
	}
	return true
}
