package c04

import (
	"fmt"
	"strings"

	"github.com/dolthub/go-mysql-server/vh/internal/fx"
	"github.com/dolthub/go-mysql-server/vh/internal/kf"
	"github.com/dolthub/go-mysql-server/vh/internal/stats"
)

// Known findings of C04 (proposed ids; analysis in /verif/notes/C04.md and
// /verif/notes/C04.findings.json). Every finding has a narrow signature over the generated
// query, a rewrite that moves a query out of the region while the id is listed (counted as
// excluded_known), and a witness that TestC04Known re-confirms.

type finding struct {
	id string
	// sig recognises the region from the query alone; steer moves a query out of it
	sig   func(q *query) bool
	steer func(q *query)
	// planSig recognises a region that depends on the plan the analyzer chose (a query in such a
	// region is skipped while the id is listed)
	planSig func(q *query, plan string) bool
	outcome func(ro *fx.Result) bool
	witness witness
}

type witness struct {
	setup []string
	query string
	// the witness query's keys, for the oracle
	keys   []keySpec
	keyPos []int
	base   string
	limit  int
	offset int
}

const (
	kfSetOpOffset      = "C04-setop-offset-before-sort"
	kfDistinctPosition = "C04-distinct-alias-order-by-position"
	kfReverseMerge     = "C04-reverse-merge-join-null-key"
	kfLeftMergeRight   = "C04-left-merge-join-order-by-right-key"
)

func okResult(ro *fx.Result) bool { return ro.OK() }

var joinTables = []string{
	"CREATE TABLE a (id INT NOT NULL, k INT, KEY ka (k))", "INSERT INTO a VALUES (1, NULL), (2, 5), (3, 5), (4, 7)",
	"CREATE TABLE b (id INT NOT NULL, k INT NOT NULL, PRIMARY KEY (k, id))", "INSERT INTO b VALUES (7, 5), (1, 9)",
}

// positionKeys calls f for every key of a SELECT DISTINCT query that the ORDER BY clause refers to
// by its position in the select list.
func positionKeys(q *query, f func(k *sortKey)) {
	if q.mode != "distinct" {
		return
	}
	for i := range q.keys {
		k := &q.keys[i]
		if k.item >= 0 && k.ref == fmt.Sprint(k.item+1) {
			f(k)
		}
	}
}

var findings = []finding{
	{
		// SELECT DISTINCT e AS a .. ORDER BY <position of a>: planbuilder.analyzeOrderBy resolves the
		// ordinal to the aliased *expression* over the table's columns (for an alias referenced by
		// name it takes a reference to the projected column instead), but for DISTINCT the sort runs
		// above Distinct(Project), whose rows only hold the projected columns: the sort either fails
		// ("unable to sort: unable to find field with index 2 in row of 1 columns") or, in the top-N
		// heap, silently orders by nothing (LIMIT 1 returns an arbitrary row).
		id: kfDistinctPosition,
		sig: func(q *query) bool {
			hit := false
			positionKeys(q, func(*sortKey) { hit = true })
			return hit
		},
		outcome: func(ro *fx.Result) bool {
			return ro.OK() || (ro.Failed() && strings.Contains(ro.Err.Error(), "unable to sort"))
		},
		steer: func(q *query) {
			positionKeys(q, func(k *sortKey) { k.ref = q.items[k.item].alias })
		},
		witness: witness{
			setup: []string{"CREATE TABLE t0 (id INT NOT NULL, c0 INT)", "INSERT INTO t0 VALUES (1, 5), (2, 4), (3, 4)"},
			query: "SELECT DISTINCT c0 AS o0 FROM t0 ORDER BY 1 LIMIT 1",
			base:  "SELECT DISTINCT c0 AS o0 FROM t0",
			keys:  []keySpec{{cls: clsNum}}, keyPos: []int{0}, limit: 1, offset: -1,
		},
	},
	{
		// (A) UNION [ALL] (B) ORDER BY k LIMIT n OFFSET m with m > 0: rowexec.buildSetOp wraps the
		// union iterator in the offset iterator *before* the sort / top-N iterator, so m arbitrary
		// rows are dropped from the unsorted union and the first n rows of the ordering of the rest
		// are returned, instead of positions m+1..m+n of the ordering.
		id:      kfSetOpOffset,
		sig:     func(q *query) bool { return q.mode == "union" && q.limit >= 0 && q.offset > 0 },
		outcome: okResult,
		steer:   func(q *query) { q.offset = 0 },
		witness: witness{
			setup: []string{"CREATE TABLE t0 (id INT NOT NULL, c0 INT)", "INSERT INTO t0 VALUES (1, 0), (2, 0), (3, 1)"},
			query: "(SELECT id AS o0 FROM t0 WHERE c0 = 0) UNION ALL (SELECT id AS o0 FROM t0) ORDER BY o0 DESC LIMIT 10 OFFSET 1",
			base:  "(SELECT id AS o0 FROM t0 WHERE c0 = 0) UNION ALL (SELECT id AS o0 FROM t0)",
			keys:  []keySpec{{cls: clsNum, desc: true}}, keyPos: []int{0}, limit: 10, offset: 1,
		},
	},
	{
		// A join planned as a merge join whose ORDER BY <join key> DESC was replaced by reverse
		// iteration of both indexes: NULL keys then come last, and mergeJoinIter.peekMatch treats a
		// NULL key in the look-ahead row as a match (Compare returns 0 together with ErrNilOperand),
		// so rows are duplicated and lost: a(k) = NULL,5,5,7, b(k) = 5,9: a JOIN b ON a.k = b.k ORDER
		// BY a.k DESC returns three rows instead of two.
		id:  kfReverseMerge,
		sig: func(q *query) bool { return false },
		planSig: func(q *query, plan string) bool {
			return strings.Contains(plan, "MergeJoin") && strings.Contains(plan, "reverse: true")
		},
		outcome: okResult,
		witness: witness{
			setup: joinTables,
			query: "SELECT a.id, b.id, a.k FROM a JOIN b ON a.k = b.k ORDER BY a.k DESC",
			base:  "SELECT a.id, b.id, a.k FROM a JOIN b ON a.k = b.k",
			keys:  []keySpec{{cls: clsNum, desc: true}}, keyPos: []int{2}, limit: -1, offset: -1,
		},
	},
	{
		// LEFT JOIN planned as a (left outer) merge join, ORDER BY a join key column of the RIGHT
		// table: replaceIdxSort drops the Sort because the right child is read in index order, but
		// the join's rows come in the order of the left child and the right columns are NULL for
		// unmatched left rows: a LEFT JOIN b ON a.k = b.k ORDER BY b.k returns b.k = NULL,5,5,NULL.
		id:  kfLeftMergeRight,
		sig: func(q *query) bool { return false },
		planSig: func(q *query, plan string) bool {
			return strings.Contains(plan, "LeftOuterMergeJoin") && !strings.Contains(plan, "Sort(") && !strings.Contains(plan, "TopN(") &&
				len(q.keys) > 0 && strings.HasPrefix(q.keys[0].expr, "y.")
		},
		outcome: okResult,
		witness: witness{
			setup: joinTables,
			query: "SELECT a.id, b.id, b.k FROM a LEFT JOIN b ON a.k = b.k ORDER BY b.k",
			base:  "SELECT a.id, b.id, b.k FROM a LEFT JOIN b ON a.k = b.k",
			keys:  []keySpec{{cls: clsNum}}, keyPos: []int{2}, limit: -1, offset: -1,
		},
	},
}

// steerAround moves a query that lies in the region of a *listed* known finding out of it.
func steerAround(st *stats.Collector, q *query) {
	for i := range findings {
		f := &findings[i]
		if kf.Listed(f.id) && f.sig(q) {
			st.Excluded(f.id)
			f.steer(q)
		}
	}
}

// skipByPlan reports whether the query, given the plan chosen for it, lies in the region of a
// listed known finding (it is then not executed).
func skipByPlan(st *stats.Collector, q *query, plan string) bool {
	for i := range findings {
		f := &findings[i]
		if f.planSig != nil && kf.Listed(f.id) && f.planSig(q, plan) {
			st.Excluded(f.id)
			return true
		}
	}
	return false
}

// suppressed reports whether an observed violation matches a listed known finding.
func suppressed(st *stats.Collector, q *query, plan string, ro *fx.Result) bool {
	for i := range findings {
		f := &findings[i]
		if (f.sig(q) || (f.planSig != nil && f.planSig(q, plan))) && f.outcome(ro) && kf.Suppress(st, f.id) {
			return true
		}
	}
	return false
}
