package c04

import (
	"fmt"
	"strings"

	"github.com/dolthub/go-mysql-server/vh/internal/fx"
	"github.com/dolthub/go-mysql-server/vh/internal/kf"
	"github.com/dolthub/go-mysql-server/vh/internal/stats"
)

// Known findings of C04 (proposed ids; analysis in /verif/notes/C04.md and
// /verif/notes/C04.findings.json). Every finding has a narrow signature over the generated
// query, a rewrite that moves a query out of the region while the id is listed (counted as
// excluded_known), and a witness that TestC04Known re-confirms.

type finding struct {
	id      string
	sig     func(q *query) bool
	outcome func(ro *fx.Result) bool
	steer   func(q *query)
	witness witness
}

type witness struct {
	setup []string
	query string
	// the witness query's keys, for the oracle
	keys   []keySpec
	keyPos []int
	base   string
	limit  int
	offset int
}

const (
	kfSetOpOffset      = "C04-setop-offset-before-sort"
	kfDistinctPosition = "C04-distinct-alias-order-by-position"
)

// positionKeys calls f for every key of a SELECT DISTINCT query that the ORDER BY clause refers to
// by its position in the select list.
func positionKeys(q *query, f func(k *sortKey)) {
	if q.mode != "distinct" {
		return
	}
	for i := range q.keys {
		k := &q.keys[i]
		if k.item >= 0 && k.ref == fmt.Sprint(k.item+1) {
			f(k)
		}
	}
}

var findings = []finding{
	{
		// SELECT DISTINCT e AS a .. ORDER BY <position of a>: planbuilder.analyzeOrderBy resolves the
		// ordinal to the aliased *expression* over the table's columns (for an alias referenced by
		// name it takes a reference to the projected column instead), but for DISTINCT the sort runs
		// above Distinct(Project), whose rows only hold the projected columns: the sort either fails
		// ("unable to sort: unable to find field with index 2 in row of 1 columns") or, in the top-N
		// heap, silently orders by nothing (LIMIT 1 returns an arbitrary row).
		id: kfDistinctPosition,
		sig: func(q *query) bool {
			hit := false
			positionKeys(q, func(*sortKey) { hit = true })
			return hit
		},
		outcome: func(ro *fx.Result) bool {
			return ro.OK() || (ro.Failed() && strings.Contains(ro.Err.Error(), "unable to sort"))
		},
		steer: func(q *query) {
			positionKeys(q, func(k *sortKey) { k.ref = q.items[k.item].alias })
		},
		witness: witness{
			setup: []string{"CREATE TABLE t0 (id INT NOT NULL, c0 INT)", "INSERT INTO t0 VALUES (1, 5), (2, 4), (3, 4)"},
			query: "SELECT DISTINCT c0 AS o0 FROM t0 ORDER BY 1 LIMIT 1",
			base:  "SELECT DISTINCT c0 AS o0 FROM t0",
			keys:  []keySpec{{cls: clsNum}}, keyPos: []int{0}, limit: 1, offset: -1,
		},
	},
	{
		// (A) UNION [ALL] (B) ORDER BY k LIMIT n OFFSET m with m > 0: rowexec.buildSetOp wraps the
		// union iterator in the offset iterator *before* the sort / top-N iterator, so m arbitrary
		// rows are dropped from the unsorted union and the first n rows of the ordering of the rest
		// are returned, instead of positions m+1..m+n of the ordering.
		id:      kfSetOpOffset,
		sig:     func(q *query) bool { return q.mode == "union" && q.limit >= 0 && q.offset > 0 },
		outcome: func(ro *fx.Result) bool { return ro.OK() },
		steer:   func(q *query) { q.offset = 0 },
		witness: witness{
			setup: []string{"CREATE TABLE t0 (id INT NOT NULL, c0 INT)", "INSERT INTO t0 VALUES (1, 0), (2, 0), (3, 1)"},
			query: "(SELECT id AS o0 FROM t0 WHERE c0 = 0) UNION ALL (SELECT id AS o0 FROM t0) ORDER BY o0 DESC LIMIT 10 OFFSET 1",
			base:  "(SELECT id AS o0 FROM t0 WHERE c0 = 0) UNION ALL (SELECT id AS o0 FROM t0)",
			keys:  []keySpec{{cls: clsNum, desc: true}}, keyPos: []int{0}, limit: 10, offset: 1,
		},
	},
}

// steerAround moves a query that lies in the region of a *listed* known finding out of it.
func steerAround(st *stats.Collector, q *query) {
	for i := range findings {
		f := &findings[i]
		if kf.Listed(f.id) && f.sig(q) {
			st.Excluded(f.id)
			f.steer(q)
		}
	}
}

// suppressed reports whether an observed violation matches a listed known finding.
func suppressed(st *stats.Collector, q *query, ro *fx.Result) bool {
	for i := range findings {
		f := &findings[i]
		if f.sig(q) && f.outcome(ro) && kf.Suppress(st, f.id) {
			return true
		}
	}
	return false
}
