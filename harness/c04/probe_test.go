package c04

import (
	"fmt"
	"os"
	"strings"
	"testing"

	"github.com/dolthub/go-mysql-server/vh/internal/fx"
)

// TestProbe (scratch; removed before hand-over) runs the statements of $PROBE_SQL.
func TestProbe(t *testing.T) {
	p := os.Getenv("PROBE_SQL")
	if p == "" {
		t.Skip()
	}
	b, err := os.ReadFile(p)
	if err != nil {
		t.Fatal(err)
	}
	f := fx.New(fx.Opts{Stats: os.Getenv("PROBE_STATS") != ""})
	defer f.Close()
	s := f.NewSession("", "", "")
	for _, line := range strings.Split(string(b), "\n") {
		line = strings.TrimSpace(line)
		if line == "" || strings.HasPrefix(line, "#") {
			continue
		}
		if strings.HasPrefix(line, "plan ") {
			fmt.Printf("PLAN %s\n%s\n", line[5:], s.Plan(line[5:]))
			continue
		}
		r := s.Exec(line)
		fmt.Printf("%s\n   -> %s\n", line, r)
		if r.Panic != nil {
			fmt.Println(r.Stack)
			f = fx.New(fx.Opts{})
			s = f.NewSession("", "", "")
		}
	}
}
