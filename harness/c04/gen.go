package c04

// gen.go: generators for tables (columns, key layout, rows). Everything is drawn from rapid
// generators so that failing cases shrink and replay.

import (
	"fmt"
	"strings"

	"pgregory.net/rapid"
)

type kind int

const (
	kInt kind = iota
	kDec
	kDbl
	kStrBin
	kStrAI
	kStrGen
	kDate
)

var kindDDL = [...]string{
	kInt:    "INT",
	kDec:    "DECIMAL(10,2)",
	kDbl:    "DOUBLE",
	kStrBin: "VARCHAR(8)",
	kStrAI:  "VARCHAR(8) COLLATE utf8mb4_0900_ai_ci",
	kStrGen: "VARCHAR(8) COLLATE utf8mb4_general_ci",
	kDate:   "DATE",
}

func (k kind) isStr() bool { return k == kStrBin || k == kStrAI || k == kStrGen }
func (k kind) isCI() bool  { return k == kStrAI || k == kStrGen }
func (k kind) isNum() bool { return k == kInt || k == kDec || k == kDbl }

func (k kind) class() class {
	switch {
	case k.isStr():
		return clsStr
	case k == kDate:
		return clsTime
	}
	return clsNum
}

func (k kind) coll() coll {
	switch k {
	case kStrBin:
		return collBin
	case kStrAI:
		return collAI
	case kStrGen:
		return collGen
	}
	return collNone
}

// value domains: small and built to collide (ties), with the values whose order differs between
// collations ('A' < 'a' < 'á' binary, all equal under the ci collations; "10" < "9" as strings)
var domain = [...][]string{
	kInt:    {"-2147483648", "-3", "-2", "-1", "0", "1", "2", "3", "4", "10", "2147483647"},
	kDec:    {"-1.50", "-0.25", "0.00", "0.25", "1.00", "1.25", "1.50", "2.00", "10.00"},
	kDbl:    {"-1.5", "-0.25", "0", "0.25", "1", "1.5", "2", "10", "1e10"},
	kStrBin: {"", "a", "A", "á", "ab", "aB", "Ab", "b", "B", "a ", "10", "9", "z"},
	kStrAI:  {"", "a", "A", "á", "ab", "aB", "Ab", "b", "B", "a ", "10", "9", "z"},
	kStrGen: {"", "a", "A", "á", "ab", "aB", "Ab", "b", "B", "10", "9", "z"}, // no trailing space: see cmpStr
	kDate:   {"1000-01-01", "2019-12-31", "2020-01-01", "2020-01-02", "2020-02-29", "9999-12-31"},
}

func quote(s string) string { return "'" + strings.ReplaceAll(s, "'", "''") + "'" }

// litSQL renders a domain value as a SQL literal for a column of kind k.
func litSQL(k kind, v string) string {
	if k.isNum() {
		return v
	}
	return quote(v)
}

type column struct {
	name    string
	k       kind
	notNull bool
}

type index struct {
	name   string
	cols   []int
	prefix int // prefix length on the first column (VARCHAR only), 0 = none
}

type table struct {
	name    string
	cols    []column // cols[0] is the row identifier "id" (INT, unique, NOT NULL)
	pk      []int    // column positions; empty = no primary key
	indexes []index
	rows    [][]string // domain text per cell, "" with null[i][j] for NULL
	null    [][]bool
}

func (t *table) ddl() []string {
	var parts []string
	for _, c := range t.cols {
		d := c.name + " " + kindDDL[c.k]
		if c.notNull {
			d += " NOT NULL"
		}
		parts = append(parts, d)
	}
	if len(t.pk) > 0 {
		parts = append(parts, "PRIMARY KEY ("+t.colList(t.pk, 0)+")")
	}
	for _, ix := range t.indexes {
		parts = append(parts, fmt.Sprintf("KEY %s (%s)", ix.name, t.colList(ix.cols, ix.prefix)))
	}
	out := []string{"CREATE TABLE " + t.name + " (" + strings.Join(parts, ", ") + ")"}
	if len(t.rows) > 0 {
		var rows []string
		for i, r := range t.rows {
			vs := make([]string, len(r))
			for j, v := range r {
				if t.null[i][j] {
					vs[j] = "NULL"
				} else {
					vs[j] = litSQL(t.cols[j].k, v)
				}
			}
			rows = append(rows, "("+strings.Join(vs, ", ")+")")
		}
		out = append(out, "INSERT INTO "+t.name+" VALUES "+strings.Join(rows, ", "))
	}
	return out
}

func (t *table) colList(cols []int, prefix int) string {
	names := make([]string, len(cols))
	for i, c := range cols {
		names[i] = t.cols[c].name
		if i == 0 && prefix > 0 {
			names[i] += fmt.Sprintf("(%d)", prefix)
		}
	}
	return strings.Join(names, ", ")
}

// orderedIndexes returns the column lists whose index order an ORDER BY can use: the primary
// key and every secondary index without a prefix length.
func (t *table) orderedIndexes() [][]int {
	var out [][]int
	if len(t.pk) > 0 {
		out = append(out, t.pk)
	}
	for _, ix := range t.indexes {
		if ix.prefix == 0 {
			out = append(out, ix.cols)
		}
	}
	return out
}

var kindPool = []kind{kInt, kInt, kInt, kDec, kDbl, kStrBin, kStrBin, kStrAI, kStrAI, kStrGen, kStrGen, kDate}

func distinctInts(rt *rapid.T, n, k int, label string) []int {
	s := make([]int, n)
	for i := range s {
		s[i] = i
	}
	return rapid.Permutation(s).Draw(rt, label)[:k]
}

// genTable draws a table. noCI restricts the columns to kinds without a case-insensitive
// collation (used where rows are de-duplicated: DISTINCT, GROUP BY, UNION).
func genTable(rt *rapid.T, name string, maxRows int, noCI bool) *table {
	t := &table{name: name}
	t.cols = append(t.cols, column{name: "id", k: kInt, notNull: true})
	nc := rapid.IntRange(1, 4).Draw(rt, "ncols")
	for i := 0; i < nc; i++ {
		k := rapid.SampledFrom(kindPool).Draw(rt, "kind")
		if noCI && k.isCI() {
			k = kStrBin
		}
		t.cols = append(t.cols, column{name: fmt.Sprintf("c%d", i), k: k})
	}
	// key layout
	uniqueCol := -1 // column (besides id) whose values must be pairwise distinct
	switch rapid.IntRange(0, 9).Draw(rt, "layout") {
	case 0, 1: // no key at all
	case 2, 3, 4, 5: // PRIMARY KEY (id) + secondary indexes
		t.pk = []int{0}
	case 6, 7: // PRIMARY KEY (cX, id): ORDER BY cX can use a prefix of the primary key
		c := rapid.IntRange(1, nc).Draw(rt, "pkcol")
		t.pk = []int{c, 0}
	default: // PRIMARY KEY (cX) with pairwise distinct values
		c := rapid.IntRange(1, nc).Draw(rt, "pkcol")
		t.pk = []int{c}
		uniqueCol = c
	}
	for _, c := range t.pk {
		t.cols[c].notNull = true
	}
	for i := 1; i <= nc; i++ {
		if !t.cols[i].notNull && rapid.IntRange(0, 5).Draw(rt, "notnull") == 0 {
			t.cols[i].notNull = true
		}
	}
	if len(t.pk) > 0 || rapid.Bool().Draw(rt, "keyless-with-index") {
		nidx := rapid.IntRange(0, 2).Draw(rt, "nidx")
		for i := 0; i < nidx; i++ {
			w := 1
			if nc >= 2 && rapid.IntRange(0, 2).Draw(rt, "wide") == 0 {
				w = 2
			}
			cols := distinctInts(rt, nc, w, "idxcols")
			for j := range cols {
				cols[j]++ // skip id
			}
			ix := index{name: fmt.Sprintf("k%d", i), cols: cols}
			if t.cols[cols[0]].k.isStr() && rapid.IntRange(0, 5).Draw(rt, "prefix") == 0 {
				ix.prefix = rapid.IntRange(1, 2).Draw(rt, "plen")
			}
			t.indexes = append(t.indexes, ix)
		}
	}
	// rows
	n := rapid.IntRange(0, maxRows).Draw(rt, "nrows")
	ids := rapid.Permutation(seq(1, maxRows)).Draw(rt, "ids") // ids are not in insertion order
	seen := map[string]bool{}
	for i := 0; i < n; i++ {
		r := make([]string, len(t.cols))
		nl := make([]bool, len(t.cols))
		r[0] = fmt.Sprint(ids[i])
		for j := 1; j < len(t.cols); j++ {
			c := t.cols[j]
			if !c.notNull && rapid.IntRange(0, 3).Draw(rt, "null") == 0 {
				nl[j] = true
				continue
			}
			r[j] = rapid.SampledFrom(domain[c.k]).Draw(rt, "v")
		}
		if uniqueCol >= 0 {
			// distinct under every collation and under padding (key enforcement is C14's subject)
			k := strings.TrimRight(fold(r[uniqueCol]), " ")
			if seen[k] {
				continue
			}
			seen[k] = true
		}
		t.rows = append(t.rows, r)
		t.null = append(t.null, nl)
	}
	return t
}

func seq(lo, hi int) []int {
	s := make([]int, 0, hi-lo+1)
	for i := lo; i <= hi; i++ {
		s = append(s, i)
	}
	return s
}
