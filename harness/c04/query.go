package c04

// query.go: generator for the ORDER BY queries and their renderings.

import (
	"fmt"
	"strings"

	"pgregory.net/rapid"
)

// sortKey is one ORDER BY key.
type sortKey struct {
	expr string // SQL text of the key expression
	spec keySpec
	item int    // position of the key among the select items, -1 if it is not selected
	ref  string // how the ORDER BY clause refers to it (expression, alias or position)
	dir  string // "", " ASC" or " DESC"
}

type item struct {
	expr  string
	alias string // "" = none
}

// query is one generated ORDER BY query. base() is the same query without ORDER BY / LIMIT.
type query struct {
	mode     string // single | join | distinct | group | union
	distinct bool
	items    []item
	tail     string // " FROM ... [WHERE ...] [GROUP BY ...]"
	union    string // union mode: the whole parenthesised body instead of items+tail
	keys     []sortKey
	idItems  []int // positions of the row identifier columns among the items (single / join)
	hidden   bool  // some key is not a select item: key values are fetched through idItems
	limit    int   // -1 = none
	offset   int   // -1 = none
	comma    bool  // render LIMIT m, n instead of LIMIT n OFFSET m
	labels   []string
}

func (q *query) selectList() string {
	parts := make([]string, len(q.items))
	for i, it := range q.items {
		parts[i] = it.expr
		if it.alias != "" {
			parts[i] += " AS " + it.alias
		}
	}
	return strings.Join(parts, ", ")
}

func (q *query) base() string {
	if q.union != "" {
		return q.union
	}
	d := ""
	if q.distinct {
		d = "DISTINCT "
	}
	return "SELECT " + d + q.selectList() + q.tail
}

func (q *query) orderBy() string {
	parts := make([]string, len(q.keys))
	for i, k := range q.keys {
		parts[i] = k.ref + k.dir
	}
	return " ORDER BY " + strings.Join(parts, ", ")
}

func (q *query) ordered() string {
	s := q.base() + q.orderBy()
	if q.limit >= 0 {
		switch {
		case q.offset < 0:
			s += fmt.Sprintf(" LIMIT %d", q.limit)
		case q.comma:
			s += fmt.Sprintf(" LIMIT %d, %d", q.offset, q.limit)
		default:
			s += fmt.Sprintf(" LIMIT %d OFFSET %d", q.limit, q.offset)
		}
	}
	return s
}

// keysQuery returns, for the hidden mode, a query that yields (ids..., key values...) for every
// row of the base result.
func (q *query) keysQuery() string {
	var parts []string
	for _, p := range q.idItems {
		parts = append(parts, q.items[p].expr)
	}
	for _, k := range q.keys {
		parts = append(parts, k.expr)
	}
	return "SELECT " + strings.Join(parts, ", ") + q.tail
}

func (q *query) specs() []keySpec {
	out := make([]keySpec, len(q.keys))
	for i, k := range q.keys {
		out[i] = k.spec
	}
	return out
}

// ---------------------------------------------------------------------------------------------

type qgen struct {
	rt *rapid.T
}

func (g *qgen) intn(lo, hi int, label string) int { return rapid.IntRange(lo, hi).Draw(g.rt, label) }
func (g *qgen) chance(n int, label string) bool   { return g.intn(0, n-1, label) == 0 }

// colsOf returns the positions (>= 1, the id column excluded) of the columns satisfying want.
func colsOf(t *table, want func(kind) bool) []int {
	var out []int
	for i := 1; i < len(t.cols); i++ {
		if want == nil || want(t.cols[i].k) {
			out = append(out, i)
		}
	}
	return out
}

func (g *qgen) pick(xs []int, label string) int { return rapid.SampledFrom(xs).Draw(g.rt, label) }

// keyExpr draws a sort key expression over table t (columns prefixed with qual, "" or "x.").
func (g *qgen) keyExpr(t *table, qual string) (string, class, coll, string) {
	c := g.intn(0, len(t.cols)-1, "keycol") // the id column is a legal key too
	col := t.cols[c]
	name := qual + col.name
	if g.intn(0, 9, "keyshape") < 6 {
		return name, col.k.class(), col.k.coll(), "key:column"
	}
	sameKind := colsOf(t, func(k kind) bool { return k == col.k })
	switch {
	case col.k == kInt:
		switch g.intn(0, 7, "intexpr") {
		case 0:
			return "-" + name, clsNum, collNone, "key:neg"
		case 1:
			return "ABS(" + name + ")", clsNum, collNone, "key:func"
		case 2:
			o := qual + t.cols[g.pick(append(sameKind, 0), "c2")].name
			return name + " + " + o, clsNum, collNone, "key:arith"
		case 3:
			o := qual + t.cols[g.pick(append(sameKind, 0), "c2")].name
			return name + " * " + o, clsNum, collNone, "key:arith"
		case 4:
			o := qual + t.cols[g.pick(append(sameKind, 0), "c2")].name
			return "COALESCE(" + name + ", " + o + ")", clsNum, collNone, "key:coalesce"
		case 5:
			return "COALESCE(" + name + ", 0)", clsNum, collNone, "key:coalesce"
		case 6:
			return name + " % 3", clsNum, collNone, "key:arith"
		default:
			return name + " IS NULL", clsNum, collNone, "key:isnull"
		}
	case col.k == kDec || col.k == kDbl:
		switch g.intn(0, 3, "numexpr") {
		case 0:
			return "-" + name, clsNum, collNone, "key:neg"
		case 1:
			return "ABS(" + name + ")", clsNum, collNone, "key:func"
		case 2:
			o := qual + t.cols[g.pick(sameKind, "c2")].name
			return "COALESCE(" + name + ", " + o + ")", clsNum, collNone, "key:coalesce"
		default:
			return name + " IS NULL", clsNum, collNone, "key:isnull"
		}
	case col.k.isStr():
		switch g.intn(0, 4, "strexpr") {
		case 0:
			return "LENGTH(" + name + ")", clsNum, collNone, "key:func"
		case 1:
			return "CHAR_LENGTH(" + name + ")", clsNum, collNone, "key:func"
		case 2:
			return name + " IS NULL", clsNum, collNone, "key:isnull"
		default:
			// an explicit collation overrides the column's (general_ci only where no value has a
			// trailing space: see cmpStr)
			hi := collAI
			if col.k == kStrGen {
				hi = collGen
			}
			c := coll(g.intn(int(collBin), int(hi), "collate"))
			return name + " COLLATE " + collName[c], clsStr, c, "key:collate"
		}
	default: // DATE
		if g.chance(2, "dateexpr") {
			return "YEAR(" + name + ")", clsNum, collNone, "key:func"
		}
		return name + " IS NULL", clsNum, collNone, "key:isnull"
	}
}

// pred draws a simple in-domain WHERE predicate over table t (same-class comparisons with
// values of the column's own domain only: what the filter selects is C02/C03's subject).
func (g *qgen) pred(t *table, qual string, depth int) string {
	if depth > 0 && g.chance(3, "logic") {
		op := " AND "
		if g.chance(2, "or") {
			op = " OR "
		}
		return "(" + g.pred(t, qual, depth-1) + op + g.pred(t, qual, depth-1) + ")"
	}
	c := g.intn(0, len(t.cols)-1, "predcol")
	col := t.cols[c]
	name := qual + col.name
	lit := func() string {
		if c == 0 {
			return fmt.Sprint(g.intn(0, 13, "idlit"))
		}
		return litSQL(col.k, rapid.SampledFrom(domain[col.k]).Draw(g.rt, "lit"))
	}
	switch x := g.intn(0, 9, "predkind"); {
	case x < 5:
		op := rapid.SampledFrom([]string{"=", "<", "<=", ">", ">=", "<>"}).Draw(g.rt, "op")
		return name + " " + op + " " + lit()
	case x < 6:
		return name + " BETWEEN " + lit() + " AND " + lit()
	case x < 7 && !col.k.isCI() && col.k != kDbl:
		return name + " IN (" + lit() + ", " + lit() + ")"
	case x < 8:
		return name + " IS NOT NULL"
	case x < 9:
		return name + " IS NULL"
	default:
		op := rapid.SampledFrom([]string{"<", ">="}).Draw(g.rt, "op2")
		return name + " " + op + " " + lit()
	}
}

func (g *qgen) where(t *table, qual string) string {
	if g.chance(2, "nowhere") {
		return ""
	}
	return " WHERE " + g.pred(t, qual, 1)
}

// drawDir draws the direction of a key.
func (g *qgen) drawDir() (bool, string) {
	switch g.intn(0, 4, "dir") {
	case 0, 1:
		return true, " DESC"
	case 2:
		return false, " ASC"
	}
	return false, ""
}

// refStyle decides how ORDER BY refers to a key that is select item number pos.
func (g *qgen) refStyle(k *sortKey, it item, pos int) {
	switch g.intn(0, 2, "ref") {
	case 0:
		k.ref = k.expr
	case 1:
		if it.alias != "" {
			k.ref = it.alias
		} else {
			k.ref = k.expr
		}
	default:
		k.ref = fmt.Sprint(pos + 1)
	}
}

// indexKeys draws, when the table has a usable index, a key list that is a prefix of it with one
// common direction (the shape for which the analyzer replaces the sort by index order).
func (g *qgen) indexKeys(t *table, qual string) []sortKey {
	ixs := t.orderedIndexes()
	if len(ixs) == 0 {
		return nil
	}
	ix := ixs[g.intn(0, len(ixs)-1, "ordidx")]
	n := g.intn(1, len(ix), "ordprefix")
	desc, dir := g.drawDir()
	var keys []sortKey
	for _, c := range ix[:n] {
		col := t.cols[c]
		keys = append(keys, sortKey{expr: qual + col.name, spec: keySpec{cls: col.k.class(), coll: col.k.coll(), desc: desc}, item: -1, dir: dir})
	}
	return keys
}

func (g *qgen) freeKeys(t *table, qual string, labels *[]string) []sortKey {
	n := g.intn(1, 3, "nkeys")
	var keys []sortKey
	for i := 0; i < n; i++ {
		e, cls, cl, label := g.keyExpr(t, qual)
		*labels = append(*labels, label)
		desc, dir := g.drawDir()
		keys = append(keys, sortKey{expr: e, spec: keySpec{cls: cls, coll: cl, desc: desc}, item: -1, dir: dir})
	}
	return keys
}

// finishRowMode completes a single / join query: ids first, a subset of the columns, and some of
// the keys as select items.
func (g *qgen) finishRowMode(q *query, cols []string) {
	for _, c := range cols {
		if g.chance(2, "selcol") {
			q.items = append(q.items, item{expr: c})
		}
	}
	for i := range q.keys {
		k := &q.keys[i]
		k.ref = k.expr
		if g.chance(2, "keyvisible") {
			it := item{expr: k.expr, alias: fmt.Sprintf("o%d", len(q.items))}
			q.items = append(q.items, it)
			k.item = len(q.items) - 1
			g.refStyle(k, it, k.item)
		} else {
			q.hidden = true
		}
	}
}

// single: one table.
func (g *qgen) single(t *table) *query {
	q := &query{mode: "single", limit: -1, offset: -1}
	if g.chance(2, "byindex") {
		q.keys = g.indexKeys(t, "")
		if q.keys != nil {
			q.labels = append(q.labels, "keys:index-prefix")
			if g.chance(4, "extra") { // an index prefix followed by a free key
				q.keys = append(q.keys, g.freeKeys(t, "", &q.labels)[0])
			}
		}
	}
	if q.keys == nil {
		q.keys = g.freeKeys(t, "", &q.labels)
	}
	q.items = []item{{expr: "id"}}
	q.idItems = []int{0}
	var cols []string
	for _, c := range t.cols[1:] {
		cols = append(cols, c.name)
	}
	q.tail = " FROM " + t.name + g.where(t, "")
	g.finishRowMode(q, cols)
	return q
}

// join: two tables.
func (g *qgen) join(a, b *table) *query {
	q := &query{mode: "join", limit: -1, offset: -1}
	var on string
	// an equality between columns of the same kind, else between the ids
	var pairs [][2]int
	for i := 0; i < len(a.cols); i++ {
		for j := 0; j < len(b.cols); j++ {
			if a.cols[i].k == b.cols[j].k && (i > 0) == (j > 0) {
				pairs = append(pairs, [2]int{i, j})
			}
		}
	}
	// pairs whose two columns both lead an index: the shape the analyzer plans as a merge join
	leads := func(t *table, c int) bool {
		for _, ix := range t.orderedIndexes() {
			if ix[0] == c {
				return true
			}
		}
		return false
	}
	var idxPairs [][2]int
	for _, p := range pairs {
		if leads(a, p[0]) && leads(b, p[1]) {
			idxPairs = append(idxPairs, p)
		}
	}
	if len(idxPairs) > 0 && g.chance(2, "onindexed") {
		pairs = idxPairs
		q.labels = append(q.labels, "join:on-indexed-columns")
	}
	if len(pairs) > 0 && !g.chance(4, "onid") {
		p := pairs[g.intn(0, len(pairs)-1, "onpair")]
		on = "x." + a.cols[p[0]].name + " = y." + b.cols[p[1]].name
	} else {
		on = "x.id = y.id"
	}
	jt := rapid.SampledFrom([]string{"INNER JOIN", "INNER JOIN", "LEFT JOIN", "CROSS JOIN"}).Draw(g.rt, "jointype")
	q.labels = append(q.labels, "join:"+strings.Fields(jt)[0])
	q.tail = " FROM " + a.name + " x " + jt + " " + b.name + " y"
	if jt != "CROSS JOIN" {
		q.tail += " ON " + on
	}
	if !g.chance(2, "nowhere") {
		if g.chance(2, "wherex") {
			q.tail += " WHERE " + g.pred(a, "x.", 0)
		} else {
			q.tail += " WHERE " + g.pred(b, "y.", 0)
		}
	}
	// keys from either side
	if g.chance(2, "byindex") {
		side, qual := a, "x."
		if g.chance(2, "idxside") {
			side, qual = b, "y."
		}
		q.keys = g.indexKeys(side, qual)
		if q.keys != nil {
			q.labels = append(q.labels, "keys:index-prefix")
		}
	}
	n := g.intn(0, 2, "nfree")
	if q.keys == nil && n == 0 {
		n = 1
	}
	for i := 0; i < n; i++ {
		side, qual := a, "x."
		if g.chance(2, "keyside") {
			side, qual = b, "y."
		}
		e, cls, cl, label := g.keyExpr(side, qual)
		q.labels = append(q.labels, label)
		desc, dir := g.drawDir()
		q.keys = append(q.keys, sortKey{expr: e, spec: keySpec{cls: cls, coll: cl, desc: desc}, item: -1, dir: dir})
	}
	q.items = []item{{expr: "x.id", alias: "xid"}, {expr: "y.id", alias: "yid"}}
	q.idItems = []int{0, 1}
	var cols []string
	for _, c := range a.cols[1:] {
		cols = append(cols, "x."+c.name)
	}
	for _, c := range b.cols[1:] {
		cols = append(cols, "y."+c.name)
	}
	g.finishRowMode(q, cols)
	return q
}

// visibleKeys draws 1..n keys among the select items (all items given with class and collation).
func (g *qgen) visibleKeys(q *query, cls []class, colls []coll) {
	n := g.intn(1, min(3, len(q.items)), "nkeys")
	for _, p := range distinctInts(g.rt, len(q.items), n, "keyitems") {
		desc, dir := g.drawDir()
		k := sortKey{expr: q.items[p].expr, spec: keySpec{cls: cls[p], coll: colls[p], desc: desc}, item: p, dir: dir}
		g.refStyle(&k, q.items[p], p)
		q.keys = append(q.keys, k)
	}
}

// distinctQ: SELECT DISTINCT over a table without ci columns; the keys are select items.
func (g *qgen) distinctQ(t *table) *query {
	q := &query{mode: "distinct", distinct: true, limit: -1, offset: -1}
	n := g.intn(1, 3, "nitems")
	var cls []class
	var colls []coll
	for i := 0; i < n; i++ {
		e, c, cl, label := g.keyExpr(t, "")
		if label == "key:collate" { // would de-duplicate under a ci collation
			col := t.cols[g.intn(0, len(t.cols)-1, "dcol")]
			e, c, cl, label = col.name, col.k.class(), col.k.coll(), "key:column"
		}
		q.labels = append(q.labels, label)
		q.items = append(q.items, item{expr: e, alias: fmt.Sprintf("o%d", i)})
		cls, colls = append(cls, c), append(colls, cl)
	}
	q.tail = " FROM " + t.name + g.where(t, "")
	g.visibleKeys(q, cls, colls)
	return q
}

// groupQ: GROUP BY over a table without ci columns; the keys are grouping columns or aggregates.
func (g *qgen) groupQ(t *table) *query {
	q := &query{mode: "group", limit: -1, offset: -1}
	ng := g.intn(1, min(2, len(t.cols)-1), "ngroup")
	var cls []class
	var colls []coll
	var gcols []string
	for _, c := range distinctInts(g.rt, len(t.cols)-1, ng, "gcols") {
		col := t.cols[c+1]
		gcols = append(gcols, col.name)
		q.items = append(q.items, item{expr: col.name, alias: fmt.Sprintf("o%d", len(q.items))})
		cls, colls = append(cls, col.k.class()), append(colls, col.k.coll())
	}
	na := g.intn(1, 2, "naggs")
	for i := 0; i < na; i++ {
		c := g.intn(0, len(t.cols)-1, "aggcol")
		col := t.cols[c]
		var e string
		cl, co := clsNum, collNone
		switch x := g.intn(0, 4, "agg"); {
		case x == 0:
			e = "COUNT(*)"
		case x == 1:
			e = "COUNT(" + col.name + ")"
		case x == 2 && (col.k == kInt || col.k == kDec):
			e = "SUM(" + col.name + ")"
		case x == 3:
			e, cl, co = "MIN("+col.name+")", col.k.class(), col.k.coll()
		default:
			e, cl, co = "MAX("+col.name+")", col.k.class(), col.k.coll()
		}
		q.items = append(q.items, item{expr: e, alias: fmt.Sprintf("o%d", len(q.items))})
		cls, colls = append(cls, cl), append(colls, co)
	}
	q.tail = " FROM " + t.name + g.where(t, "") + " GROUP BY " + strings.Join(gcols, ", ")
	g.visibleKeys(q, cls, colls)
	return q
}

// unionQ: (SELECT cols FROM t WHERE p) UNION [ALL] (SELECT cols FROM t WHERE p') over a table
// without ci columns; the keys are output columns, referred to by alias or position.
func (g *qgen) unionQ(t *table) *query {
	q := &query{mode: "union", limit: -1, offset: -1}
	n := g.intn(1, min(3, len(t.cols)), "nitems")
	var cls []class
	var colls []coll
	var sel []string
	for i, c := range distinctInts(g.rt, len(t.cols), n, "ucols") {
		col := t.cols[c]
		q.items = append(q.items, item{expr: col.name, alias: fmt.Sprintf("o%d", i)})
		sel = append(sel, col.name+" AS "+fmt.Sprintf("o%d", i))
		cls, colls = append(cls, col.k.class()), append(colls, col.k.coll())
	}
	op := "UNION"
	if g.chance(2, "all") {
		op = "UNION ALL"
	}
	q.labels = append(q.labels, "setop:"+op)
	br := func() string { return "SELECT " + strings.Join(sel, ", ") + " FROM " + t.name + g.where(t, "") }
	q.union = "(" + br() + ") " + op + " (" + br() + ")"
	g.visibleKeys(q, cls, colls)
	for i := range q.keys { // an expression is not a legal reference to a union column: alias or position
		k := &q.keys[i]
		if k.ref == k.expr {
			k.ref = q.items[k.item].alias
		}
	}
	return q
}
