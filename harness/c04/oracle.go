// Package c04 checks property C04: ORDER BY output is ordered under each key's type and
// collation (NULLs first for ASC, last for DESC) and LIMIT n OFFSET m returns exactly the rows
// at positions m+1..m+n of such an ordering.
//
// oracle.go holds the executable oracle: an own comparator for sort keys (numbers exact,
// strings under an own model of the three collations used, NULL smallest) and the validity
// predicate "the output is a correct slice of some correct ordering of the base result".
package c04

import (
	"fmt"
	"math/big"
	"sort"
	"strings"
)

// class of a sort key value, as found in fx's canonical forms.
type class int

const (
	clsNum  class = iota // n:<rat>, f:<float>
	clsStr               // s:<text>
	clsTime              // t:<micros>
)

// coll is the collation a string key is ordered under.
type coll int

const (
	collNone coll = iota
	collBin       // utf8mb4_0900_bin: byte (= code point) order, NO PAD
	collAI        // utf8mb4_0900_ai_ci: accent and case insensitive, NO PAD
	collGen       // utf8mb4_general_ci: case insensitive, á = a (PAD SPACE in MySQL: see cmpStr)
)

var collName = [...]string{"", "utf8mb4_0900_bin", "utf8mb4_0900_ai_ci", "utf8mb4_general_ci"}

// keySpec says how one ORDER BY key is compared.
type keySpec struct {
	cls  class
	coll coll
	desc bool
}

// fold maps a string to the representative of its equality class under the two
// case-insensitive collations, restricted to the alphabet the generator uses (space, digits,
// ASCII letters, 'á'/'Á'): lower case, accent stripped. Comparing the folded strings byte-wise
// gives the collation order on that alphabet: space < digits < letters in both the UCA weights
// of utf8mb4_0900_ai_ci and the weight table of utf8mb4_general_ci.
func fold(s string) string {
	s = strings.ToLower(s) // also maps Á to á
	return strings.ReplaceAll(s, "á", "a")
}

// cmpStr compares two strings under a collation.
//
// utf8mb4_general_ci is PAD SPACE in MySQL ('a ' = 'a') while the engine compares every
// collation without padding ('a' < 'a '); the property statement does not speak about padding
// (C29 excludes it as well), so values with trailing spaces are never stored in, or collated
// as, general_ci (gen.go), and the two readings coincide on everything that is generated.
func cmpStr(a, b string, c coll) int {
	if c == collAI || c == collGen {
		return strings.Compare(fold(a), fold(b))
	}
	return strings.Compare(a, b)
}

// kval is one parsed sort key value.
type kval struct {
	null bool
	r    *big.Rat
	s    string
}

// parseKey parses fx's canonical form of a value into a key value of the expected class.
func parseKey(norm string, cls class) (kval, error) {
	if norm == "N" {
		return kval{null: true}, nil
	}
	if len(norm) < 2 || norm[1] != ':' {
		return kval{}, fmt.Errorf("unexpected value form %q", norm)
	}
	tag, body := norm[0], norm[2:]
	switch cls {
	case clsStr:
		if tag != 's' {
			return kval{}, fmt.Errorf("string key expected, got %q", norm)
		}
		return kval{s: body}, nil
	case clsTime:
		if tag != 't' {
			return kval{}, fmt.Errorf("temporal key expected, got %q", norm)
		}
	default:
		if tag != 'n' && tag != 'f' {
			return kval{}, fmt.Errorf("numeric key expected, got %q", norm)
		}
	}
	r, ok := new(big.Rat).SetString(body)
	if !ok {
		return kval{}, fmt.Errorf("cannot parse number in %q", norm)
	}
	return kval{r: r}, nil
}

// cmpKey compares two key values ascending: NULL is smaller than every value.
func cmpKey(a, b kval, k keySpec) int {
	switch {
	case a.null && b.null:
		return 0
	case a.null:
		return -1
	case b.null:
		return 1
	}
	if k.cls == clsStr {
		return cmpStr(a.s, b.s, k.coll)
	}
	return a.r.Cmp(b.r)
}

// cmpKeys compares two key tuples in ORDER BY order (DESC reverses a key, which also puts
// NULLs last for that key).
func cmpKeys(a, b []kval, ks []keySpec) int {
	for i, k := range ks {
		c := cmpKey(a[i], b[i], k)
		if k.desc {
			c = -c
		}
		if c != 0 {
			return c
		}
	}
	return 0
}

// orow is one result row together with its sort key.
type orow struct {
	vals []string // canonical values of the row
	key  []kval
}

func (r orow) String() string { return "(" + strings.Join(r.vals, ",") + ")" }

// checkSorted verifies direction (1) of the oracle: the output sequence is non-decreasing under
// the key comparator. It returns "" or a description of the first inversion.
func checkSorted(out []orow, ks []keySpec) string {
	for i := 1; i < len(out); i++ {
		if cmpKeys(out[i-1].key, out[i].key, ks) > 0 {
			return fmt.Sprintf("rows %d and %d of the output are out of order: %s before %s", i, i+1, out[i-1], out[i])
		}
	}
	return ""
}

// sliceInfo is what checkSlice learned about the case (for the non-trivial rule and statistics).
type sliceInfo struct {
	classes      int  // distinct key classes in the base result
	outClasses   int  // distinct key classes in the output
	cutsInside   bool // the window starts or ends strictly inside the base result
	cutsTie      bool // a window edge falls inside a class of tied rows
	expectedRows int
}

// checkSlice verifies direction (2): with limit < 0 (no LIMIT) the output is a permutation of the
// base multiset; otherwise, writing the base result sorted by the key comparator as a sequence of
// classes of tied rows, the output has clamp(total-offset, 0, limit) rows, and every class
// contributes exactly as many rows as it has positions inside the window [offset,
// offset+limit), all of them rows of that class (ties may be resolved either way).
func checkSlice(base, out []orow, ks []keySpec, limit, offset int) (string, sliceInfo) {
	var info sliceInfo
	sorted := append([]orow(nil), base...)
	sort.SliceStable(sorted, func(i, j int) bool { return cmpKeys(sorted[i].key, sorted[j].key, ks) < 0 })
	total := len(sorted)
	lo, hi := 0, total
	if limit >= 0 {
		if offset > 0 {
			lo = min(offset, total)
		}
		hi = min(lo+limit, total)
	}
	info.expectedRows = hi - lo
	info.cutsInside = limit >= 0 && hi-lo > 0 && hi-lo < total
	if len(out) != hi-lo {
		return fmt.Sprintf("the output has %d rows; the base result has %d rows, so LIMIT %d OFFSET %d must return %d", len(out), total, limit, offset, hi-lo), info
	}
	// classes of the sorted base result: [start, end)
	type cl struct {
		start, end int
		avail      map[string]int // multiset of the rows of the class
	}
	var classes []*cl
	for i := 0; i < total; i++ {
		if i == 0 || cmpKeys(sorted[i-1].key, sorted[i].key, ks) != 0 {
			classes = append(classes, &cl{start: i, avail: map[string]int{}})
		}
		c := classes[len(classes)-1]
		c.end = i + 1
		c.avail[strings.Join(sorted[i].vals, "\x1f")]++
	}
	info.classes = len(classes)
	got := make([]int, len(classes))
	for _, r := range out {
		// find the class of the row by binary search on the key
		ci := sort.Search(len(classes), func(i int) bool { return cmpKeys(sorted[classes[i].start].key, r.key, ks) >= 0 })
		if ci == len(classes) || cmpKeys(sorted[classes[ci].start].key, r.key, ks) != 0 {
			return fmt.Sprintf("output row %s has a sort key that no row of the base result has", r), info
		}
		c := classes[ci]
		k := strings.Join(r.vals, "\x1f")
		if c.avail[k] == 0 {
			return fmt.Sprintf("output row %s is not (or not that often) in the base result", r), info
		}
		c.avail[k]--
		got[ci]++
	}
	for i, c := range classes {
		need := max(0, min(c.end, hi)-max(c.start, lo))
		if got[i] != need {
			return fmt.Sprintf("the rows with sort key of %s occupy positions %d..%d of the ordering; the window %d..%d must contain %d of them, the output has %d",
				sorted[c.start], c.start+1, c.end, lo+1, hi, need, got[i]), info
		}
		if got[i] > 0 {
			info.outClasses++
		}
		if (lo > c.start && lo < c.end) || (hi > c.start && hi < c.end) {
			info.cutsTie = true
		}
	}
	return "", info
}
