package c50

import (
	"fmt"
	"os"
	"path/filepath"
	"strconv"
	"strings"
	"testing"

	"github.com/dolthub/go-mysql-server/sql"
	"github.com/dolthub/go-mysql-server/vh/internal/fx"
	"github.com/dolthub/go-mysql-server/vh/internal/kf"
	"github.com/dolthub/go-mysql-server/vh/internal/stats"
	"pgregory.net/rapid"
)

// ------------------------------------------------------------------------------------------
// Export/import options. A nil pointer means "clause absent" (the documented default applies).

type options struct {
	Term   *string // FIELDS TERMINATED BY   (default "\t")
	Enc    *string // FIELDS [OPTIONALLY] ENCLOSED BY (default "")
	OptEnc bool
	Esc    *string // FIELDS ESCAPED BY      (default "\\")
	LTerm  *string // LINES TERMINATED BY    (default "\n")
	LStart *string // LINES STARTING BY      (default "")
}

func val(p *string, def string) string {
	if p == nil {
		return def
	}
	return *p
}

func (o options) term() string   { return val(o.Term, "\t") }
func (o options) enc() string    { return val(o.Enc, "") }
func (o options) esc() string    { return val(o.Esc, "\\") }
func (o options) lterm() string  { return val(o.LTerm, "\n") }
func (o options) lstart() string { return val(o.LStart, "") }
func (o options) isDefault() bool {
	return o.Term == nil && o.Enc == nil && o.Esc == nil && o.LTerm == nil && o.LStart == nil
}

// sqlString renders s as a MySQL string literal (default sql_mode: backslash escapes on).
func sqlString(s string) string {
	var sb strings.Builder
	sb.WriteByte('\'')
	for i := 0; i < len(s); i++ {
		switch c := s[i]; c {
		case '\'':
			sb.WriteString("''")
		case '\\':
			sb.WriteString("\\\\")
		case '\n':
			sb.WriteString("\\n")
		case '\r':
			sb.WriteString("\\r")
		case '\t':
			sb.WriteString("\\t")
		case 0:
			sb.WriteString("\\0")
		case 26:
			sb.WriteString("\\Z")
		default:
			sb.WriteByte(c)
		}
	}
	sb.WriteByte('\'')
	return sb.String()
}

func (o options) clause() string {
	var f, l []string
	if o.Term != nil {
		f = append(f, "TERMINATED BY "+sqlString(*o.Term))
	}
	if o.Enc != nil {
		opt := ""
		if o.OptEnc {
			opt = "OPTIONALLY "
		}
		f = append(f, opt+"ENCLOSED BY "+sqlString(*o.Enc))
	}
	if o.Esc != nil {
		f = append(f, "ESCAPED BY "+sqlString(*o.Esc))
	}
	if o.LStart != nil {
		l = append(l, "STARTING BY "+sqlString(*o.LStart))
	}
	if o.LTerm != nil {
		l = append(l, "TERMINATED BY "+sqlString(*o.LTerm))
	}
	out := ""
	if len(f) > 0 {
		out += " FIELDS " + strings.Join(f, " ")
	}
	if len(l) > 0 {
		out += " LINES " + strings.Join(l, " ")
	}
	return out
}

func optStr(rt *rapid.T, label string, xs ...string) *string {
	i := rapid.IntRange(0, len(xs)).Draw(rt, label)
	if i == 0 {
		return nil
	}
	s := xs[i-1]
	return &s
}

// coherent: no delimiter is contained in another one (MySQL documents such option sets as
// ambiguous; e.g. FIELDS TERMINATED BY ';' with LINES TERMINATED BY ';;').
func (o options) coherent() bool {
	ds := []string{o.term(), o.lterm()}
	if o.enc() != "" {
		ds = append(ds, o.enc())
	}
	if o.esc() != "" {
		ds = append(ds, o.esc())
	}
	if o.lstart() != "" {
		ds = append(ds, o.lstart())
	}
	for i := range ds {
		for j := range ds {
			if i != j && strings.Contains(ds[i], ds[j]) {
				return false
			}
		}
	}
	return true
}

func genOptions(rt *rapid.T) options {
	if rapid.IntRange(0, 9).Draw(rt, "defaults") == 0 {
		return options{}
	}
	for {
		o := options{
			Term:   optStr(rt, "term", ",", "\t", ";", "||"),
			Enc:    optStr(rt, "enc", "\"", "'", ""),
			OptEnc: rapid.Bool().Draw(rt, "optenc"),
			Esc:    optStr(rt, "esc", "\\", "|", ""),
			LTerm:  optStr(rt, "lterm", "\n", "\r\n", ";;"),
			LStart: optStr(rt, "lstart", "", ">>"),
		}
		if o.Enc == nil {
			o.OptEnc = false
		}
		if o.coherent() {
			return o
		}
	}
}

// ------------------------------------------------------------------------------------------
// Classification of string values relative to an option set.

// active reports whether v contains a character that plays a role in the format.
func (o options) active(v string) bool {
	for _, d := range []string{o.term(), o.enc(), o.esc(), o.lterm(), "\\"} {
		if d != "" && strings.ContainsAny(v, d) {
			return true
		}
	}
	return v == "NULL" || v == "\\N"
}

// ambiguous: the format cannot represent v unambiguously (MySQL documents this): without an
// escape character nothing can be escaped, so a value that contains the terminator it is not
// protected from, the enclosure or the line terminator has no faithful representation.
func (o options) ambiguous(v string) bool {
	if o.esc() != "" {
		return false
	}
	if o.enc() == "" && strings.Contains(v, o.term()[:1]) {
		return true
	}
	if o.enc() != "" && strings.Contains(v, o.enc()) {
		return true
	}
	return o.overlapsLineTerm(v)
}

// needsEscape: v contains a character that a correct writer has to prefix with the escape
// character and that buildInto writes as it is: the escape character itself, the enclosure
// character when fields are enclosed, the first character of the field terminator when they
// are not (MySQL's rule; a value "|" before the terminator "||" otherwise shifts the field
// boundary), or a character of the line terminator that buildInto's replacement of whole
// terminators leaves ambiguous (value ";" before the terminator ";;") (finding C50-unescaped).
func (o options) needsEscape(v string) bool {
	if o.esc() == "" {
		return false
	}
	if strings.Contains(v, o.esc()) {
		return true
	}
	if o.enc() != "" && strings.Contains(v, o.enc()) {
		return true
	}
	if o.enc() == "" && strings.Contains(v, o.term()[:1]) {
		return true
	}
	return o.lineEscapeInsufficient(v)
}

// lineEscapeInsufficient: buildInto prefixes every whole line terminator inside v with the
// escape character (MySQL: every occurrence of the terminator's first character). This
// simulates that writer and a reader that honours escapes: the result is insufficient if
// the first unescaped terminator in <written value><terminator> is not the one at the end.
func (o options) lineEscapeInsufficient(v string) bool {
	if o.esc() == "" {
		return false
	}
	lt, esc := o.lterm(), o.esc()[0]
	w := strings.ReplaceAll(v, lt, o.esc()+lt) + lt
	for i := 0; i < len(w); i++ {
		if w[i] == esc {
			i++
			continue
		}
		if strings.HasPrefix(w[i:], lt) {
			return i != len(w)-len(lt)
		}
	}
	return true
}

// overlapsLineTerm: the line terminator occurs in v, or v followed by the terminator contains
// the terminator earlier than at its end (finding C50-line-term: LOAD DATA splits lines before
// looking at escapes).
func (o options) overlapsLineTerm(v string) bool {
	lt := o.lterm()
	return strings.Index(v+lt, lt) != len(v)
}

// nullUnrepresentable: the format has no representation of SQL NULL.
func (o options) nullUnrepresentable() bool { return o.esc() == "" && o.enc() == "" }

// nullWord: the string 'NULL' (finding C50-null-word: read back as SQL NULL).
func (o options) nullWord(v string) bool { return v == "NULL" }

// ------------------------------------------------------------------------------------------

type column struct {
	Name, Type string
	Text       bool
}

var colPool = []column{
	{Type: "INT"}, {Type: "DECIMAL(10,2)"}, {Type: "VARCHAR(40)", Text: true}, {Type: "DATE"}, {Type: "TEXT", Text: true}, {Type: "BIGINT"}, {Type: "VARCHAR(40)", Text: true},
}

// cell is one value: NULL, or a SQL literal plus (for strings) the Go string.
type cell struct {
	Null bool
	Lit  string
	Str  string
}

func genString(rt *rapid.T, o options) string {
	atoms := []string{"a", "b", "Z", " ", "0", "9", "é", "日本", "N", "NULL", "\\N", "\\", "\\\\", "\"", "'", ",", ";", "|", "||", "\t", "\n", "\r\n", "\r", ";;", ">>", ">", "-", "x y"}
	// the active delimiters get extra weight
	for _, d := range []string{o.term(), o.enc(), o.esc(), o.lterm(), o.lstart()} {
		if d != "" {
			atoms = append(atoms, d, d)
		}
	}
	n := rapid.IntRange(0, 5).Draw(rt, "natoms")
	var sb strings.Builder
	for i := 0; i < n; i++ {
		sb.WriteString(rapid.SampledFrom(atoms).Draw(rt, "atom"))
	}
	s := sb.String()
	if len(s) > 40 {
		s = "long"
	}
	return s
}

func genCell(rt *rapid.T, c column, o options, reject func(string) string) cell {
	// without an escape character NULL is written as the word NULL, which LOAD DATA reads as
	// NULL only when FIELDS ENCLOSED BY is not empty (MySQL documents that otherwise the word
	// is the string 'NULL'): no NULLs in that format
	if rapid.IntRange(0, 4).Draw(rt, "null") == 0 && !o.nullUnrepresentable() {
		return cell{Null: true, Lit: "NULL"}
	}
	switch {
	case c.Text:
		var s string
		for try := 0; ; try++ {
			s = genString(rt, o)
			if reject(s) == "" {
				break
			}
			if try >= 6 {
				s = rapid.SampledFrom([]string{"", "ok", "é ", " lead", "trail "}).Draw(rt, "safe")
				break
			}
		}
		return cell{Lit: sqlString(s), Str: s}
	case c.Type == "DATE":
		d := rapid.SampledFrom([]string{"2024-02-29", "1000-01-01", "9999-12-31", "1970-01-01", "2001-11-05"}).Draw(rt, "date")
		return cell{Lit: "'" + d + "'"}
	case strings.HasPrefix(c.Type, "DECIMAL"):
		d := rapid.SampledFrom([]string{"0.00", "1.50", "-0.25", "99999999.99", "-99999999.99", "10", "0.01"}).Draw(rt, "dec")
		return cell{Lit: d}
	case c.Type == "BIGINT":
		d := rapid.SampledFrom([]string{"0", "9223372036854775807", "-9223372036854775808", "42"}).Draw(rt, "big")
		return cell{Lit: d}
	default:
		return cell{Lit: strconv.Itoa(rapid.SampledFrom([]int{0, 1, -1, 7, 2147483647, -2147483648, 100}).Draw(rt, "int"))}
	}
}

// roundTrip runs export + import and returns (original rows, loaded rows, error text of a
// failing step).
type result struct {
	orig, loaded [][]string
	stepErr      string
	file         string
}

func roundTrip(fail func(string, ...any), cols []column, rows [][]cell, o options) *result {
	base := os.Getenv("VERIF_SCRATCH")
	if base == "" {
		base = os.TempDir()
	}
	dir, err := os.MkdirTemp(base, "c50-case-")
	if err != nil {
		fail("scratch dir: %v", err)
	}
	defer os.RemoveAll(dir)
	if err := sql.SystemVariables.AssignValues(map[string]interface{}{"secure_file_priv": dir}); err != nil {
		fail("secure_file_priv: %v", err)
	}
	f := fx.New(fx.Opts{})
	defer f.Close()
	s := f.NewSession("", "", "")
	var defs []string
	for i, c := range cols {
		defs = append(defs, fmt.Sprintf("c%d %s", i, c.Type))
	}
	setup := []string{"CREATE TABLE t (" + strings.Join(defs, ", ") + ")"}
	if len(rows) > 0 {
		var vs []string
		for _, r := range rows {
			var ls []string
			for _, c := range r {
				ls = append(ls, c.Lit)
			}
			vs = append(vs, "("+strings.Join(ls, ", ")+")")
		}
		setup = append(setup, "INSERT INTO t VALUES "+strings.Join(vs, ", "))
	}
	setup = append(setup, "CREATE TABLE t2 LIKE t")
	s.MustExec(fail, setup...)
	res := &result{}
	file := filepath.Join(dir, "out.txt")
	r0 := s.Exec("SELECT * FROM t")
	if !r0.OK() {
		fail("SELECT * FROM t: %s", r0)
	}
	res.orig = fx.NormRows(r0.Schema, r0.Rows)
	exp := s.Exec("SELECT * FROM t INTO OUTFILE " + sqlString(file) + o.clause())
	if !exp.OK() {
		res.stepErr = "INTO OUTFILE: " + exp.String() + "\n" + exp.Stack
		return res
	}
	if b, err := os.ReadFile(file); err == nil {
		res.file = string(b)
	}
	imp := s.Exec("LOAD DATA INFILE " + sqlString(file) + " INTO TABLE t2" + o.clause())
	if !imp.OK() {
		res.stepErr = "LOAD DATA: " + imp.String() + "\n" + imp.Stack
		return res
	}
	r1 := s.Exec("SELECT * FROM t2")
	if !r1.OK() {
		fail("SELECT * FROM t2: %s", r1)
	}
	res.loaded = fx.NormRows(r1.Schema, r1.Rows)
	return res
}

func (r *result) ok() bool { return r.stepErr == "" && fx.MultisetEqual(r.orig, r.loaded) }

func (r *result) describe() string {
	if r.stepErr != "" {
		return fmt.Sprintf("step failed: %s\n  file: %q", r.stepErr, r.file)
	}
	return fmt.Sprintf("rows differ\n  exported: %s\n  loaded:   %s\n  file: %q", fx.Show(r.orig), fx.Show(r.loaded), r.file)
}

// ------------------------------------------------------------------------------------------
// Known findings: value regions.

type finding struct {
	id     string
	region func(o options, v string) bool
	// witness
	wOpts options
	wVal  string
}

func sp(s string) *string { return &s }

var findings = []finding{
	// buildInto writes the escape character, the enclosure and the field terminator inside
	// values without escaping them (F9)
	{id: "C50-unescaped", region: func(o options, v string) bool { return o.needsEscape(v) }, wOpts: options{}, wVal: "a\\b"},
	// LOAD DATA splits the input at the line terminator before it interprets escapes, so the
	// escaped terminator that INTO OUTFILE writes inside a value ends the line
	{id: "C50-line-term", region: func(o options, v string) bool { return o.esc() != "" && o.overlapsLineTerm(v) }, wOpts: options{}, wVal: "a\nb"},
	// a field that reads NULL (the word) becomes SQL NULL even when ESCAPED BY is not empty
	{id: "C50-null-word", region: func(o options, v string) bool { return o.nullWord(v) }, wOpts: options{}, wVal: "NULL"},
}

// regionsOf returns the ids of all findings whose region contains v (a value can need more
// than one repair to survive the round trip).
func regionsOf(o options, v string) []string {
	var ids []string
	for _, f := range findings {
		if f.region(o, v) {
			ids = append(ids, f.id)
		}
	}
	return ids
}

func witness(fail func(string, ...any), f finding) *result {
	cols := []column{{Type: "INT"}, {Type: "VARCHAR(40)", Text: true}}
	rows := [][]cell{{{Lit: "1"}, {Lit: sqlString(f.wVal), Str: f.wVal}}, {{Lit: "2"}, {Lit: "'plain'", Str: "plain"}}}
	return roundTrip(fail, cols, rows, f.wOpts)
}

func TestC50(t *testing.T) {
	st := stats.New("C50", "")
	defer st.Flush()
	// a finding's region is excluded by construction only while its witness reproduces and it
	// is listed as known
	excl := map[string]bool{}
	for _, f := range findings {
		if !witness(t.Fatalf, f).ok() && kf.Listed(f.id) {
			excl[f.id] = true
		}
	}
	rapid.Check(t, func(rt *rapid.T) {
		st.Eval()
		o := genOptions(rt)
		ncols := rapid.IntRange(1, 5).Draw(rt, "ncols")
		var cols []column
		for i := 0; i < ncols; i++ {
			cols = append(cols, rapid.SampledFrom(colPool).Draw(rt, "col"))
		}
		reject := func(v string) string {
			if o.ambiguous(v) {
				st.Class("redrawn:ambiguous-format")
				return "ambiguous"
			}
			for _, id := range regionsOf(o, v) {
				if excl[id] {
					st.Excluded(id)
					return id
				}
			}
			return ""
		}
		nrows := rapid.IntRange(0, 5).Draw(rt, "nrows")
		var rows [][]cell
		hasNull, hasActive := false, false
		regions := map[string]bool{}
		for i := 0; i < nrows; i++ {
			var r []cell
			for _, c := range cols {
				v := genCell(rt, c, o, reject)
				if v.Null {
					hasNull = true
				} else if c.Text {
					if o.active(v.Str) {
						hasActive = true
					}
					for _, id := range regionsOf(o, v.Str) {
						regions[id] = true
					}
				}
				r = append(r, v)
			}
			rows = append(rows, r)
		}
		// a single empty text column with an empty string: the line consists of the
		// terminator only; nothing special, kept.
		res := roundTrip(rt.Fatalf, cols, rows, o)
		if !res.ok() {
			for id := range regions {
				if kf.Suppress(st, id) {
					return
				}
			}
			rt.Fatalf("INTO OUTFILE / LOAD DATA round trip failed\n  options:%s\n  columns: %v\n  %s", o.clause(), cols, res.describe())
		}
		st.Class(fmt.Sprintf("rows:%d", nrows))
		if o.isDefault() {
			st.Class("options:default")
		} else {
			st.Class("options:non-default")
		}
		if hasNull {
			st.Class("has-null")
		}
		if hasActive {
			st.Class("has-active-special")
		}
		for id := range regions {
			st.Class("passed-in-region:" + id)
		}
		if (hasNull || hasActive) && !o.isDefault() {
			st.NonTrivial(map[string]any{"options": o.clause(), "file": res.file}, o.clause(), res.file)
		}
	})
}

// TestC50Known re-confirms the witness of every proposed finding.
func TestC50Known(t *testing.T) {
	st := stats.New("C50", "known")
	defer st.Flush()
	for _, f := range findings {
		st.Eval()
		res := witness(t.Fatalf, f)
		if res.ok() {
			t.Logf("finding %s no longer reproduces", f.id)
			st.Class("witness-fixed:" + f.id)
			continue
		}
		st.Class("witness-reproduces:" + f.id)
		st.NonTrivial(nil, f.id)
		if !kf.Suppress(st, f.id) {
			t.Errorf("finding %s reproduces and is not listed as known: value %q with default options: %s", f.id, f.wVal, res.describe())
		}
	}
}
