package c09

import (
	"fmt"
	"strings"

	"github.com/dolthub/go-mysql-server/vh/internal/gen"
	"pgregory.net/rapid"
)

// cls is the static class of an expression as the generator knows it. It only steers
// generation towards statements that execute; the oracle never uses it.
type cls int

const (
	cInt cls = iota
	cDec
	cFlt
	cStr
	cBin
	cDate
	cDtm
	cTime
	cJSON
	cBool
	cAny
)

// node is a generated expression with its operator name, so that a violation can be
// localised to the smallest sub-expression that shows it.
type node struct {
	op   string
	sql  string
	cls  cls
	kids []*node
	agg  bool // contains an aggregate function
	win  bool // contains a window function
}

// xcol is an extra column added to a gen table (type families gen itself does not generate).
type xcol struct {
	name    string
	ddl     string
	cls     cls
	notNull bool
	lits    []string
}

type xtype struct {
	ddl  string
	cls  cls
	lits []string
}

var xtypes = []xtype{
	{"TINYINT", cInt, []string{"-128", "-1", "0", "1", "127"}},
	{"TINYINT UNSIGNED", cInt, []string{"0", "1", "200", "255"}},
	{"SMALLINT", cInt, []string{"-32768", "0", "7", "32767"}},
	{"MEDIUMINT", cInt, []string{"-8388608", "0", "8388607"}},
	{"INT UNSIGNED", cInt, []string{"0", "1", "4294967295"}},
	{"BIGINT", cInt, []string{"-9223372036854775808", "-1", "0", "3", "9223372036854775807"}},
	{"BIGINT UNSIGNED", cInt, []string{"0", "2", "9223372036854775808", "18446744073709551615"}},
	{"BOOLEAN", cBool, []string{"0", "1"}},
	{"FLOAT", cFlt, []string{"-1.5", "0", "0.1", "3.25", "1e20", "3.4e38"}},
	{"DOUBLE", cFlt, []string{"-2.5", "0", "0.1", "1e100", "1.7e308", "1e-300"}},
	{"DECIMAL(5,2)", cDec, []string{"-999.99", "-0.01", "0.00", "1.50", "999.99"}},
	{"DECIMAL(20,6)", cDec, []string{"-99999999999999.999999", "0.000001", "1.500000", "99999999999999.999999"}},
	{"DECIMAL(65,30)", cDec, []string{"-99999999999999999999999999999999999.999999999999999999999999999999", "0.000000000000000000000000000001", "2.5", "99999999999999999999999999999999999.999999999999999999999999999999"}},
	{"DECIMAL(10,0)", cDec, []string{"-9999999999", "0", "5", "9999999999"}},
	{"CHAR(3)", cStr, []string{"''", "'a'", "'abc'", "'á'", "'A '"}},
	{"VARCHAR(5) COLLATE utf8mb4_0900_ai_ci", cStr, []string{"''", "'a'", "'A'", "'ábcde'", "'10'", "'1e2'", "' 7'"}},
	{"VARCHAR(5) CHARACTER SET latin1", cStr, []string{"''", "'a'", "'é'", "'abcde'"}},
	{"VARCHAR(200)", cStr, []string{"''", "'x'", "'2020-02-29'", "'12:30:00'", "'{\"a\": 1}'", "'-3.75'", "'abc'", "'😀'"}},
	{"TEXT", cStr, []string{"''", "'t'", "'text value'", "'3'"}},
	{"BINARY(3)", cBin, []string{"0x000000", "'a'", "0xFFFEFD", "'abc'"}},
	{"VARBINARY(5)", cBin, []string{"''", "0xFF", "'ab'", "0x00E9"}},
	{"BLOB", cBin, []string{"''", "0xC328", "'blob'"}},
	{"DATE", cDate, []string{"'1000-01-01'", "'1969-12-31'", "'2020-02-29'", "'9999-12-31'"}},
	{"DATETIME", cDtm, []string{"'1000-01-01 00:00:00'", "'2020-02-29 23:59:59'", "'9999-12-31 23:59:59'"}},
	{"DATETIME(6)", cDtm, []string{"'1000-01-01 00:00:00.000001'", "'2020-02-29 12:00:00.500000'", "'9999-12-31 23:59:59.999999'"}},
	{"TIMESTAMP", cDtm, []string{"'1970-01-01 00:00:01'", "'2020-02-29 12:00:00'", "'2038-01-19 03:14:07'"}},
	{"TIMESTAMP(3)", cDtm, []string{"'1970-01-01 00:00:01.001'", "'2038-01-19 03:14:07.999'"}},
	{"TIME", cTime, []string{"'-838:59:59'", "'00:00:00'", "'12:30:00'", "'838:59:59'"}},
	{"ENUM('a','b','c')", cStr, []string{"'a'", "'b'", "'c'"}},
	{"SET('x','y','z')", cStr, []string{"''", "'x'", "'x,z'", "'x,y,z'"}},
	{"BIT(5)", cInt, []string{"b'0'", "b'101'", "b'11111'"}},
	{"BIT(64)", cInt, []string{"b'0'", "b'1111111111111111111111111111111111111111111111111111111111111111'"}},
	{"JSON", cJSON, []string{"'{}'", "'[1, 2.5, \"x\", null, true]'", "'{\"a\": {\"b\": [1, 2]}, \"c\": \"s\"}'", "'1'", "'\"str\"'", "'null'"}},
}

func kindCls(k gen.Kind) cls {
	switch k {
	case gen.KInt:
		return cInt
	case gen.KDec:
		return cDec
	}
	return cStr
}

// wschema is a gen schema whose tables carry extra columns.
type wschema struct {
	S     *gen.Schema
	Extra map[*gen.Table][]xcol
	XRows map[*gen.Table][][]string // extra column literals per row
}

func genWSchema(t *rapid.T, maxRows int) *wschema {
	s := gen.GenSchema(t, gen.SchemaOpts{MinTables: 1, MaxTables: 3, MaxRows: maxRows, Keys: true})
	w := &wschema{S: s, Extra: map[*gen.Table][]xcol{}, XRows: map[*gen.Table][][]string{}}
	for _, tb := range s.Tables {
		n := rapid.IntRange(1, 4).Draw(t, "nextra")
		for i := 0; i < n; i++ {
			xt := xtypes[rapid.IntRange(0, len(xtypes)-1).Draw(t, "xtype")]
			w.Extra[tb] = append(w.Extra[tb], xcol{name: fmt.Sprintf("e%d", i), ddl: xt.ddl, cls: xt.cls, lits: xt.lits,
				notNull: rapid.IntRange(0, 2).Draw(t, "xnn") == 0})
		}
		for range tb.Rows {
			row := make([]string, n)
			for i, xc := range w.Extra[tb] {
				if !xc.notNull && rapid.IntRange(0, 3).Draw(t, "xnull") == 0 {
					row[i] = "NULL"
				} else {
					row[i] = xc.lits[rapid.IntRange(0, len(xc.lits)-1).Draw(t, "xv")]
				}
			}
			w.XRows[tb] = append(w.XRows[tb], row)
		}
	}
	return w
}

// DDL renders the tables with their extra columns.
func (w *wschema) DDL() []string {
	var out []string
	for _, tb := range w.S.Tables {
		base := tb.DDL(tb.Name, true)
		// base[0] = CREATE TABLE name (cols..., keys...)
		create := base[0]
		var xs []string
		for _, xc := range w.Extra[tb] {
			d := xc.name + " " + xc.ddl
			if xc.notNull {
				d += " NOT NULL"
			}
			xs = append(xs, d)
		}
		// insert the extra columns after the last gen column (before the key clauses)
		lastCol := tb.Cols[len(tb.Cols)-1]
		marker := lastCol.Name + " " + lastCol.Kind.DDL()
		if !lastCol.Nullable {
			marker += " NOT NULL"
		}
		i := strings.Index(create, marker)
		create = create[:i+len(marker)] + ", " + strings.Join(xs, ", ") + create[i+len(marker):]
		out = append(out, create)
		if len(tb.Rows) > 0 {
			var rows []string
			for ri, r := range tb.Rows {
				vs := make([]string, 0, len(r)+len(xs))
				for ci, v := range r {
					vs = append(vs, v.Lit(tb.Cols[ci].Kind))
				}
				vs = append(vs, w.XRows[tb][ri]...)
				rows = append(rows, "("+strings.Join(vs, ",")+")")
			}
			out = append(out, "INSERT INTO "+tb.Name+" VALUES "+strings.Join(rows, ","))
		}
	}
	return out
}

func (w *wschema) Describe() string { return strings.Join(w.DDL(), "; ") }

// ---------------------------------------------------------------------------------------
// expression generation

type scol struct {
	ref string
	cls cls
}

type egen struct {
	t    *rapid.T
	cols []scol // columns in scope
	L    map[string]bool
}

func (g *egen) n(lo, hi int, l string) int { return rapid.IntRange(lo, hi).Draw(g.t, l) }
func (g *egen) p(n int, l string) bool     { return rapid.IntRange(0, n-1).Draw(g.t, l) == 0 }
func (g *egen) one(ss []string, l string) string {
	return ss[rapid.IntRange(0, len(ss)-1).Draw(g.t, l)]
}

var litPool = map[cls][]string{
	cInt:  {"0", "1", "-1", "2", "7", "127", "128", "255", "256", "65535", "2147483647", "2147483648", "-2147483649", "9223372036854775807", "-9223372036854775808", "18446744073709551615", "NULL"},
	cDec:  {"0.5", "-0.25", "1.50", "2.345", "99.99", "0.000001", "123456789.123456789", "-1.0", "NULL"},
	cFlt:  {"1e0", "2.5e0", "-1.5e0", "1e10", "1e-10", "3.4e38", "1e100", "NULL"},
	cStr:  {"''", "'a'", "'A'", "'abc'", "'á'", "'😀'", "' '", "'10'", "'1.5'", "'-3'", "'1e2'", "'abc12'", "'2020-02-29'", "'12:30:00'", "'x,y'", "'%a%'", "NULL"},
	cBin:  {"0x00", "0xFF", "0xC328", "x'616263'", "_binary'ab'", "NULL"},
	cDate: {"DATE '2020-02-29'", "DATE '1000-01-01'", "DATE '9999-12-31'", "'2021-12-31'", "NULL"},
	cDtm:  {"TIMESTAMP '2020-02-29 12:30:45'", "TIMESTAMP '2020-02-29 12:30:45.123456'", "'1970-01-01 00:00:01'", "'9999-12-31 23:59:59.999999'", "NULL"},
	cTime: {"TIME '12:30:00'", "TIME '-838:59:59'", "TIME '838:59:59'", "'00:00:01.5'", "NULL"},
	cJSON: {"CAST('{\"a\": 1, \"b\": [1, 2]}' AS JSON)", "CAST('[1, \"x\", null]' AS JSON)", "JSON_OBJECT('k', 1)", "JSON_ARRAY(1, 'a')", "CAST('null' AS JSON)", "NULL"},
	cBool: {"TRUE", "FALSE", "NULL", "1", "0"},
}

func (g *egen) leaf(c cls) *node {
	if c == cAny {
		c = cls(g.n(0, int(cBool), "anycls"))
	}
	var cands []scol
	for _, sc := range g.cols {
		if sc.cls == c {
			cands = append(cands, sc)
		}
	}
	if len(cands) > 0 && !g.p(3, "lit") {
		sc := cands[g.n(0, len(cands)-1, "col")]
		return &node{op: "col", sql: sc.ref, cls: c}
	}
	if len(g.cols) > 0 && g.p(4, "anycol") {
		sc := g.cols[g.n(0, len(g.cols)-1, "col2")]
		return &node{op: "col", sql: sc.ref, cls: sc.cls}
	}
	return &node{op: "lit", sql: g.one(litPool[c], "litv"), cls: c}
}

// tmpl is a function / operator template. Placeholders ({X}): N numeric, I integer, S string, B
// binary, D date, M datetime, T time, J json, L boolean, A any, i small integer literal.
type tmpl struct {
	op  string
	f   string
	out cls
}

var tmpls = []tmpl{
	{"+", "({N} + {N})", cDec}, {"-", "({N} - {N})", cDec}, {"*", "({N} * {N})", cDec}, {"/", "({N} / {N})", cDec}, {"DIV", "({N} DIV {N})", cInt}, {"%", "({N} % {N})", cDec}, {"MOD", "MOD({N}, {N})", cDec},
	{"unary-", "(-{N})", cDec}, {"+", "({I} + {I})", cInt}, {"-", "({I} - {I})", cInt}, {"*", "({I} * {I})", cInt}, {"/", "({I} / {I})", cDec}, {"+", "({S} + {N})", cFlt}, {"*", "({F} * {N})", cFlt}, {"/", "({F} / {I})", cFlt},
	{"&", "({I} & {I})", cInt}, {"|", "({I} | {I})", cInt}, {"^", "({I} ^ {I})", cInt}, {"<<", "({I} << {i})", cInt}, {">>", "({I} >> {i})", cInt}, {"~", "(~{I})", cInt}, {"BIT_COUNT", "BIT_COUNT({I})", cInt},
	{"ABS", "ABS({N})", cDec}, {"CEIL", "CEIL({N})", cInt}, {"FLOOR", "FLOOR({N})", cInt}, {"ROUND", "ROUND({N})", cDec}, {"ROUND", "ROUND({N}, {i})", cDec}, {"ROUND", "ROUND({N}, -{i})", cDec}, {"TRUNCATE", "TRUNCATE({N}, {i})", cDec},
	{"SIGN", "SIGN({N})", cInt}, {"SQRT", "SQRT({N})", cFlt}, {"POW", "POW({N}, {i})", cFlt}, {"EXP", "EXP({i})", cFlt}, {"LN", "LN({N})", cFlt}, {"LOG", "LOG({N})", cFlt}, {"LOG2", "LOG2({N})", cFlt}, {"LOG10", "LOG10({N})", cFlt},
	{"SIN", "SIN({N})", cFlt}, {"COS", "COS({N})", cFlt}, {"ATAN", "ATAN({N})", cFlt}, {"RADIANS", "RADIANS({N})", cFlt}, {"DEGREES", "DEGREES({N})", cFlt}, {"PI", "PI()", cFlt}, {"CRC32", "CRC32({S})", cInt},
	{"GREATEST", "GREATEST({A}, {A})", cAny}, {"LEAST", "LEAST({A}, {A})", cAny}, {"GREATEST", "GREATEST({N}, {N}, {N})", cDec}, {"LEAST", "LEAST({S}, {S})", cStr},
	{"CONCAT", "CONCAT({S}, {S})", cStr}, {"CONCAT", "CONCAT({A}, {A})", cStr}, {"CONCAT_WS", "CONCAT_WS({S}, {A}, {A})", cStr}, {"UPPER", "UPPER({S})", cStr}, {"LOWER", "LOWER({S})", cStr}, {"LEFT", "LEFT({S}, {i})", cStr},
	{"RIGHT", "RIGHT({S}, {i})", cStr}, {"SUBSTRING", "SUBSTRING({S}, {i})", cStr}, {"SUBSTRING", "SUBSTRING({S}, {i}, {i})", cStr}, {"SUBSTRING_INDEX", "SUBSTRING_INDEX({S}, {S}, {i})", cStr}, {"LPAD", "LPAD({S}, {i}, {S})", cStr},
	{"RPAD", "RPAD({S}, {i}, {S})", cStr}, {"REPEAT", "REPEAT({S}, {i})", cStr}, {"REPLACE", "REPLACE({S}, {S}, {S})", cStr}, {"REVERSE", "REVERSE({S})", cStr}, {"TRIM", "TRIM({S})", cStr}, {"LTRIM", "LTRIM({S})", cStr},
	{"RTRIM", "RTRIM({S})", cStr}, {"TRIM", "TRIM(BOTH {S} FROM {S})", cStr}, {"LENGTH", "LENGTH({A})", cInt}, {"CHAR_LENGTH", "CHAR_LENGTH({S})", cInt}, {"BIT_LENGTH", "BIT_LENGTH({S})", cInt}, {"HEX", "HEX({A})", cStr},
	{"UNHEX", "UNHEX({S})", cBin}, {"BIN", "BIN({I})", cStr}, {"OCT", "OCT({I})", cStr}, {"CONV", "CONV({A}, 10, 16)", cStr}, {"INSTR", "INSTR({S}, {S})", cInt}, {"LOCATE", "LOCATE({S}, {S})", cInt}, {"ASCII", "ASCII({S})", cInt},
	{"ORD", "ORD({S})", cInt}, {"SPACE", "SPACE({i})", cStr}, {"STRCMP", "STRCMP({S}, {S})", cInt}, {"FIELD", "FIELD({A}, {A}, {A})", cInt}, {"ELT", "ELT({i}, {S}, {S})", cStr}, {"FORMAT", "FORMAT({N}, {i})", cStr}, {"INSERT", "INSERT({S}, {i}, {i}, {S})", cStr},
	{"MD5", "MD5({S})", cStr}, {"SHA1", "SHA1({S})", cStr}, {"SHA2", "SHA2({S}, 256)", cStr}, {"TO_BASE64", "TO_BASE64({A})", cStr}, {"FROM_BASE64", "FROM_BASE64({S})", cBin}, {"QUOTE", "QUOTE({S})", cStr}, {"SOUNDEX", "SOUNDEX({S})", cStr},
	{"CHAR", "CHAR({I})", cBin}, {"EXPORT_SET", "EXPORT_SET({I}, 'Y', 'N', ',', 4)", cStr}, {"MAKE_SET", "MAKE_SET({I}, 'a', 'b', 'c')", cStr}, {"FIND_IN_SET", "FIND_IN_SET({S}, {S})", cInt},
	{"LIKE", "({S} LIKE {S})", cBool}, {"REGEXP", "({S} REGEXP 'a.*')", cBool}, {"REGEXP_REPLACE", "REGEXP_REPLACE({S}, 'a', 'bb')", cStr}, {"REGEXP_SUBSTR", "REGEXP_SUBSTR({S}, '[a-z]+')", cStr}, {"REGEXP_INSTR", "REGEXP_INSTR({S}, 'b')", cInt},
	{"CAST", "CAST({A} AS SIGNED)", cInt}, {"CAST", "CAST({A} AS UNSIGNED)", cInt}, {"CAST", "CAST({A} AS CHAR)", cStr}, {"CAST", "CAST({A} AS CHAR(2))", cStr}, {"CAST", "CAST({A} AS BINARY)", cBin}, {"CAST", "CAST({A} AS BINARY(2))", cBin},
	{"CAST", "CAST({A} AS DECIMAL(5,2))", cDec}, {"CAST", "CAST({A} AS DECIMAL(10))", cDec}, {"CAST", "CAST({A} AS DECIMAL(65,30))", cDec}, {"CAST", "CAST({A} AS DOUBLE)", cFlt}, {"CAST", "CAST({A} AS FLOAT)", cFlt}, {"CAST", "CAST({A} AS DATE)", cDate},
	{"CAST", "CAST({A} AS DATETIME)", cDtm}, {"CAST", "CAST({A} AS DATETIME(3))", cDtm}, {"CAST", "CAST({A} AS TIME)", cTime}, {"CAST", "CAST({S} AS JSON)", cJSON}, {"CONVERT", "CONVERT({A}, CHAR(3))", cStr},
	{"CONVERT", "CONVERT({A}, SIGNED)", cInt}, {"CONVERT_USING", "CONVERT({S} USING utf8mb4)", cStr}, {"CONVERT_USING", "CONVERT({S} USING binary)", cBin}, {"BINARY", "(BINARY {S})", cBin}, {"COLLATE", "({S} COLLATE utf8mb4_0900_ai_ci)", cStr},
	{"COALESCE", "COALESCE({A}, {A})", cAny}, {"COALESCE", "COALESCE({N}, {S})", cStr}, {"COALESCE", "COALESCE({I}, {N}, {F})", cFlt}, {"IFNULL", "IFNULL({A}, {A})", cAny}, {"NULLIF", "NULLIF({A}, {A})", cAny}, {"IF", "IF({L}, {A}, {A})", cAny},
	{"IF", "IF({L}, {I}, {S})", cStr}, {"IF", "IF({L}, {N}, {D})", cStr}, {"CASE", "CASE WHEN {L} THEN {A} ELSE {A} END", cAny}, {"CASE", "CASE WHEN {L} THEN {A} WHEN {L} THEN {A} END", cAny}, {"CASE", "CASE {A} WHEN {A} THEN {I} WHEN {A} THEN {N} ELSE {S} END", cStr},
	{"CASE", "CASE WHEN {L} THEN {I} WHEN {L} THEN {N} ELSE {F} END", cFlt}, {"ISNULL", "({A} IS NULL)", cBool}, {"ISNOTNULL", "({A} IS NOT NULL)", cBool}, {"ISTRUE", "({A} IS TRUE)", cBool}, {"=", "({A} = {A})", cBool}, {"<", "({N} < {N})", cBool},
	{"<=>", "({A} <=> {A})", cBool}, {"<>", "({S} <> {S})", cBool}, {"IN", "({A} IN ({A}, {A}))", cBool}, {"NOTIN", "({N} NOT IN ({N}, {N}))", cBool}, {"BETWEEN", "({N} BETWEEN {N} AND {N})", cBool}, {"AND", "({L} AND {L})", cBool},
	{"OR", "({L} OR {L})", cBool}, {"XOR", "({L} XOR {L})", cBool}, {"NOT", "(NOT {L})", cBool}, {"ISNULLFN", "ISNULL({A})", cBool}, {"INTERVALFN", "INTERVAL({N}, {N}, {N})", cInt},
	{"DATE", "DATE({M})", cDate}, {"YEAR", "YEAR({D})", cInt}, {"MONTH", "MONTH({D})", cInt}, {"DAY", "DAY({D})", cInt}, {"HOUR", "HOUR({M})", cInt}, {"MINUTE", "MINUTE({T})", cInt}, {"SECOND", "SECOND({M})", cInt}, {"MICROSECOND", "MICROSECOND({M})", cInt},
	{"DAYOFWEEK", "DAYOFWEEK({D})", cInt}, {"DAYOFYEAR", "DAYOFYEAR({D})", cInt}, {"WEEK", "WEEK({D})", cInt}, {"WEEKDAY", "WEEKDAY({D})", cInt}, {"YEARWEEK", "YEARWEEK({D})", cInt}, {"QUARTER", "QUARTER({D})", cInt}, {"DAYNAME", "DAYNAME({D})", cStr},
	{"MONTHNAME", "MONTHNAME({D})", cStr}, {"LAST_DAY", "LAST_DAY({D})", cDate}, {"DATE_ADD", "DATE_ADD({D}, INTERVAL {i} DAY)", cDate}, {"DATE_ADD", "DATE_ADD({M}, INTERVAL {i} SECOND)", cDtm}, {"DATE_ADD", "DATE_ADD({D}, INTERVAL {i} HOUR)", cDtm},
	{"DATE_ADD", "DATE_ADD({S}, INTERVAL {i} MONTH)", cStr}, {"DATE_SUB", "DATE_SUB({M}, INTERVAL {i} YEAR)", cDtm}, {"DATE_SUB", "DATE_SUB({D}, INTERVAL 1 MICROSECOND)", cDtm}, {"+INTERVAL", "({D} + INTERVAL {i} DAY)", cDate}, {"-INTERVAL", "({M} - INTERVAL {i} MINUTE)", cDtm},
	{"DATEDIFF", "DATEDIFF({D}, {D})", cInt}, {"TIMESTAMPDIFF", "TIMESTAMPDIFF(SECOND, {M}, {M})", cInt}, {"TIMESTAMPDIFF", "TIMESTAMPDIFF(MONTH, {D}, {D})", cInt}, {"TIMESTAMPADD", "TIMESTAMPADD(MINUTE, {i}, {M})", cDtm}, {"DATE_FORMAT", "DATE_FORMAT({M}, '%Y-%m-%d %H:%i:%s.%f')", cStr},
	{"DATE_FORMAT", "DATE_FORMAT({D}, '%W %M %e %Y')", cStr}, {"TIME_FORMAT", "TIME_FORMAT({T}, '%H:%i')", cStr}, {"STR_TO_DATE", "STR_TO_DATE({S}, '%Y-%m-%d')", cDate}, {"STR_TO_DATE", "STR_TO_DATE({S}, '%H:%i:%s')", cTime}, {"STR_TO_DATE", "STR_TO_DATE({S}, '%Y-%m-%d %H:%i:%s')", cDtm},
	{"UNIX_TIMESTAMP", "UNIX_TIMESTAMP({M})", cDec}, {"FROM_UNIXTIME", "FROM_UNIXTIME({I})", cDtm}, {"FROM_UNIXTIME", "FROM_UNIXTIME({N})", cDtm}, {"TIME", "TIME({M})", cTime}, {"TIMEDIFF", "TIMEDIFF({T}, {T})", cTime}, {"TIMEDIFF", "TIMEDIFF({M}, {M})", cTime},
	{"SEC_TO_TIME", "SEC_TO_TIME({N})", cTime}, {"TIME_TO_SEC", "TIME_TO_SEC({T})", cInt}, {"MAKEDATE", "MAKEDATE({i}, {i})", cDate}, {"MAKETIME", "MAKETIME({i}, {i}, {i})", cTime}, {"TO_DAYS", "TO_DAYS({D})", cInt}, {"FROM_DAYS", "FROM_DAYS({I})", cDate},
	{"TO_SECONDS", "TO_SECONDS({M})", cInt}, {"ADDTIME", "ADDTIME({M}, {T})", cDtm}, {"ADDTIME", "ADDTIME({T}, {T})", cTime}, {"SUBTIME", "SUBTIME({T}, {T})", cTime}, {"EXTRACT", "EXTRACT(YEAR_MONTH FROM {D})", cInt}, {"EXTRACT", "EXTRACT(DAY_MICROSECOND FROM {M})", cInt},
	{"TIMESTAMP", "TIMESTAMP({D})", cDtm}, {"TIMESTAMP", "TIMESTAMP({D}, {T})", cDtm}, {"PERIOD_ADD", "PERIOD_ADD(202001, {i})", cInt}, {"PERIOD_DIFF", "PERIOD_DIFF(202001, 201912)", cInt},
	{"JSON_EXTRACT", "JSON_EXTRACT({J}, '$.a')", cJSON}, {"JSON_EXTRACT", "JSON_EXTRACT({J}, '$[0]')", cJSON}, {"->", "({J}->'$.a')", cJSON}, {"->>", "({J}->>'$.a')", cStr}, {"JSON_UNQUOTE", "JSON_UNQUOTE({J})", cStr}, {"JSON_OBJECT", "JSON_OBJECT('k', {A})", cJSON},
	{"JSON_ARRAY", "JSON_ARRAY({A}, {A})", cJSON}, {"JSON_LENGTH", "JSON_LENGTH({J})", cInt}, {"JSON_DEPTH", "JSON_DEPTH({J})", cInt}, {"JSON_TYPE", "JSON_TYPE({J})", cStr}, {"JSON_VALID", "JSON_VALID({S})", cBool}, {"JSON_CONTAINS", "JSON_CONTAINS({J}, '1')", cBool},
	{"JSON_KEYS", "JSON_KEYS({J})", cJSON}, {"JSON_SET", "JSON_SET({J}, '$.z', {A})", cJSON}, {"JSON_REMOVE", "JSON_REMOVE({J}, '$.a')", cJSON}, {"JSON_MERGE_PATCH", "JSON_MERGE_PATCH({J}, {J})", cJSON}, {"JSON_QUOTE", "JSON_QUOTE({S})", cStr}, {"JSON_PRETTY", "JSON_PRETTY({J})", cStr},
	{"JSON_SEARCH", "JSON_SEARCH({J}, 'one', 'x')", cJSON}, {"JSON_VALUE", "JSON_VALUE({J}, '$.a')", cStr}, {"JSON_ARRAY_APPEND", "JSON_ARRAY_APPEND({J}, '$', {A})", cJSON}, {"JSON_CONTAINS_PATH", "JSON_CONTAINS_PATH({J}, 'one', '$.a')", cBool}, {"JSON_OVERLAPS", "JSON_OVERLAPS({J}, {J})", cBool},
	{"INET_ATON", "INET_ATON('1.2.3.4')", cInt}, {"INET_NTOA", "INET_NTOA({I})", cStr}, {"IS_IPV4", "IS_IPV4({S})", cBool}, {"UUID_TO_BIN", "UUID_TO_BIN('12345678-1234-1234-1234-123456789012')", cBin}, {"IS_UUID", "IS_UUID({S})", cBool},
	{"COMPRESS", "LENGTH(COMPRESS({S}))", cInt}, {"CHARSET", "CHARSET({A})", cStr}, {"COLLATION", "COLLATION({A})", cStr}, {"COERCIBILITY", "COERCIBILITY({A})", cInt}, {"WEIGHT_STRING", "HEX(WEIGHT_STRING({S}))", cStr}, {"ST_X", "ST_X(POINT({i}, {i}))", cFlt},
	{"ST_ASTEXT", "ST_ASTEXT(POINT({i}, {i}))", cStr}, {"ST_DISTANCE", "ST_DISTANCE(POINT(0, 0), POINT({i}, {i}))", cFlt}, {"ST_SRID", "ST_SRID(POINT(1, 2))", cInt}, {"ST_ASWKB", "ST_ASWKB(POINT({i}, 1))", cBin}, {"ST_ASTEXT", "ST_ASTEXT(ST_GEOMFROMTEXT('POINT(1 2)'))", cStr},
}

var aggTmpls = []tmpl{
	{"COUNT", "COUNT(*)", cInt}, {"COUNT", "COUNT({A})", cInt}, {"COUNT_DISTINCT", "COUNT(DISTINCT {A})", cInt}, {"SUM", "SUM({N})", cDec}, {"SUM", "SUM({I})", cDec}, {"SUM", "SUM({F})", cFlt}, {"SUM", "SUM({S})", cFlt}, {"SUM_DISTINCT", "SUM(DISTINCT {N})", cDec},
	{"AVG", "AVG({N})", cDec}, {"AVG", "AVG({I})", cDec}, {"AVG", "AVG({F})", cFlt}, {"AVG", "AVG({D})", cFlt}, {"MIN", "MIN({A})", cAny}, {"MAX", "MAX({A})", cAny}, {"GROUP_CONCAT", "GROUP_CONCAT({A})", cStr}, {"GROUP_CONCAT", "GROUP_CONCAT(DISTINCT {S} ORDER BY 1 SEPARATOR '|')", cStr},
	{"BIT_AND", "BIT_AND({I})", cInt}, {"BIT_OR", "BIT_OR({I})", cInt}, {"BIT_XOR", "BIT_XOR({I})", cInt}, {"STD", "STD({N})", cFlt}, {"VARIANCE", "VARIANCE({N})", cFlt}, {"VAR_SAMP", "VAR_SAMP({N})", cFlt}, {"STDDEV_SAMP", "STDDEV_SAMP({N})", cFlt},
	{"JSON_ARRAYAGG", "JSON_ARRAYAGG({A})", cJSON}, {"JSON_OBJECTAGG", "JSON_OBJECTAGG({S}, {A})", cJSON}, {"ANY_VALUE", "ANY_VALUE({A})", cAny},
}

var winTmpls = []tmpl{
	{"ROW_NUMBER", "ROW_NUMBER() OVER ({W})", cInt}, {"RANK", "RANK() OVER ({W})", cInt}, {"DENSE_RANK", "DENSE_RANK() OVER ({W})", cInt}, {"PERCENT_RANK", "PERCENT_RANK() OVER ({W})", cFlt}, {"CUME_DIST", "CUME_DIST() OVER ({W})", cFlt},
	{"NTILE", "NTILE(2) OVER ({W})", cInt}, {"LAG", "LAG({A}) OVER ({W})", cAny}, {"LAG", "LAG({A}, 1, {A}) OVER ({W})", cAny}, {"LEAD", "LEAD({A}) OVER ({W})", cAny}, {"LEAD", "LEAD({A}, 2, {A}) OVER ({W})", cAny}, {"FIRST_VALUE", "FIRST_VALUE({A}) OVER ({W})", cAny},
	{"LAST_VALUE", "LAST_VALUE({A}) OVER ({W})", cAny}, {"WSUM", "SUM({N}) OVER ({W})", cDec}, {"WAVG", "AVG({N}) OVER ({W})", cDec}, {"WCOUNT", "COUNT({A}) OVER ({W})", cInt}, {"WMAX", "MAX({A}) OVER ({W})", cAny}, {"WMIN", "MIN({A}) OVER ({W} ROWS BETWEEN 1 PRECEDING AND CURRENT ROW)", cAny},
	{"WGROUP_CONCAT", "GROUP_CONCAT({S}) OVER ({W})", cStr}, {"WJSON_ARRAYAGG", "JSON_ARRAYAGG({A}) OVER ({W})", cJSON}, {"WBIT_OR", "BIT_OR({I}) OVER ({W})", cInt},
}

func phCls(b byte) (cls, bool) {
	switch b {
	case 'N':
		return cDec, true
	case 'I':
		return cInt, true
	case 'F':
		return cFlt, true
	case 'S':
		return cStr, true
	case 'B':
		return cBin, true
	case 'D':
		return cDate, true
	case 'M':
		return cDtm, true
	case 'T':
		return cTime, true
	case 'J':
		return cJSON, true
	case 'L':
		return cBool, true
	case 'A':
		return cAny, true
	}
	return 0, false
}

// fillT instantiates a template; depth bounds the nesting of the arguments.
func (g *egen) fillT(tp tmpl, depth int) *node {
	n := &node{op: tp.op, cls: tp.out}
	var sb strings.Builder
	f := tp.f
	for i := 0; i < len(f); i++ {
		if f[i] != '{' || i+2 >= len(f) || f[i+2] != '}' {
			sb.WriteByte(f[i])
			continue
		}
		c := f[i+1]
		switch {
		case c == 'i':
			sb.WriteString(g.one([]string{"0", "1", "2", "3", "5", "10", "30", "100"}, "smallint"))
			i += 2
		case c == 'W':
			var parts []string
			if len(g.cols) > 0 && g.p(2, "wpart") {
				parts = append(parts, "PARTITION BY "+g.cols[g.n(0, len(g.cols)-1, "wpc")].ref)
			}
			if len(g.cols) > 0 {
				parts = append(parts, "ORDER BY "+g.cols[g.n(0, len(g.cols)-1, "woc")].ref+g.one([]string{"", " DESC"}, "wdir"))
			}
			sb.WriteString(strings.Join(parts, " "))
			i += 2
		default:
			if pc, ok := phCls(c); ok {
				// numeric placeholders accept any numeric class
				if c == 'N' {
					pc = []cls{cInt, cDec, cFlt, cDec, cInt}[g.n(0, 4, "numcls")]
				}
				k := g.expr(pc, depth-1)
				n.kids = append(n.kids, k)
				n.agg = n.agg || k.agg
				n.win = n.win || k.win
				sb.WriteString(k.sql)
				i += 2
			} else {
				sb.WriteByte(f[i])
			}
		}
	}
	n.sql = sb.String()
	return n
}

// expr draws a scalar expression of (roughly) class c.
func (g *egen) expr(c cls, depth int) *node {
	if depth <= 0 || g.p(3, "leaf") {
		return g.leaf(c)
	}
	// prefer templates producing the wanted class, but allow any (type chaos within what executes)
	for try := 0; try < 6; try++ {
		tp := tmpls[g.n(0, len(tmpls)-1, "tmpl")]
		if c == cAny || tp.out == c || tp.out == cAny || try == 5 {
			g.L["fn:"+tp.op] = true
			return g.fillT(tp, depth)
		}
	}
	return g.leaf(c)
}

func (g *egen) aggExpr(depth int) *node {
	tp := aggTmpls[g.n(0, len(aggTmpls)-1, "aggtmpl")]
	g.L["agg:"+tp.op] = true
	n := g.fillT(tp, depth)
	n.agg = true
	if g.p(3, "aggwrap") {
		// a scalar function over the aggregate
		w := g.one([]string{"ROUND(%s, 1)", "(%s + 1)", "COALESCE(%s, 0)", "CAST(%s AS CHAR)", "(%s / 2)", "IFNULL(%s, 'none')", "CAST(%s AS SIGNED)", "(%s IS NULL)", "CONCAT(%s, 'x')", "ABS(%s)"}, "aggwrapk")
		return &node{op: "wrap:" + strings.SplitN(w, "(", 2)[0], sql: fmt.Sprintf(w, n.sql), cls: cAny, kids: []*node{n}, agg: true}
	}
	return n
}

func (g *egen) winExpr(depth int) *node {
	tp := winTmpls[g.n(0, len(winTmpls)-1, "wintmpl")]
	g.L["win:"+tp.op] = true
	n := g.fillT(tp, depth)
	n.win = true
	return n
}
