package c09

import (
	"context"
	"fmt"
	"strings"
	"testing"

	"github.com/dolthub/go-mysql-server/vh/internal/fx"
	"github.com/dolthub/go-mysql-server/vh/internal/kf"
	"github.com/dolthub/go-mysql-server/vh/internal/stats"
)

var witnessSetup = []string{
	"CREATE TABLE t (a INT NOT NULL PRIMARY KEY, d DECIMAL(5,2) NOT NULL, s VARCHAR(5) NOT NULL, bu BIGINT UNSIGNED NOT NULL, mi MEDIUMINT NOT NULL, j JSON NOT NULL)",
	"INSERT INTO t VALUES (1, 999.99, 'abc', 18446744073709551615, -8388608, '[1, 2]'), (2, -999.99, '12:30', 1, 5, '{\"a\": 1}')",
}

// witnesses: one minimal statement per finding; col is the violating result column.
var witnesses = []struct {
	id   string
	sql  string
	kind string
}{
	{"C09-aggregate-not-nullable", "SELECT MAX(d), SUM(a), MIN(s) FROM t WHERE s = 'none'", vNull},
	{"C09-outer-join-not-null", "SELECT t2.a FROM t LEFT JOIN t t2 ON t.a = t2.a + 10", vNull},
	{"C09-variance-type", "SELECT STDDEV_SAMP(a) FROM t", vChanged},
	{"C09-arithmetic-result-type", "SELECT bu + d FROM t", vDigits},
	{"C09-arithmetic-result-type", "SELECT -mi FROM t", vRange},
	{"C09-lag-lead-default-type", "SELECT LAG(a, 1, s) OVER (ORDER BY a) FROM t", vKind},
	{"C09-time-part-not-nullable", "SELECT MINUTE(s), SECOND('abc') FROM t", vNull},
	{"C09-json-function-not-nullable", "SELECT JSON_KEYS(j) FROM t", vNull},
	{"C09-function-reports-argument-type", "SELECT SUBSTRING(a, 5) FROM t", vKind},
	{"C09-union-decimal-overflow", "SELECT 3.4e38 UNION SELECT 1.5", vDigits},
}

// TestC09Known re-confirms the witness of every listed finding; a witness of an id that is not
// listed must conform.
func TestC09Known(t *testing.T) {
	st := stats.New("C09", "known")
	defer st.Flush()
	for _, w := range witnesses {
		st.Eval()
		st.Class("witness")
		f := fx.New(fx.Opts{})
		s := f.NewSession("", "", "")
		s.MustExec(t.Fatalf, witnessSetup...)
		r := s.Exec(w.sql)
		if !r.OK() {
			f.Close()
			if kf.Listed(w.id) {
				t.Logf("STALE: witness of %s no longer executes: %s", w.id, r)
			}
			continue
		}
		vs := checkResult(s.Ctx(context.Background()), r)
		f.Close()
		var got []string
		match := false
		for _, v := range vs {
			got = append(got, fmt.Sprintf("col %d (%s): %s: %s", v.col, r.Schema[v.col].Type, v.v.Kind, v.v.Detail))
			if v.v.Kind == w.kind {
				match = true
			}
		}
		switch {
		case len(vs) == 0:
			if kf.Listed(w.id) {
				t.Logf("STALE: listed finding %s no longer reproduces: %s", w.id, w.sql)
			}
		case match && kf.Suppress(st, w.id):
			t.Logf("known finding %s still reproduces: %s -> %s", w.id, w.sql, strings.Join(got, "; "))
		case kf.Listed(w.id):
			t.Errorf("%s: witness violates the property but not in the recorded way: %s -> %s", w.id, w.sql, strings.Join(got, "; "))
		default:
			t.Errorf("%s: %s -> %s", w.id, w.sql, strings.Join(got, "; "))
		}
	}
}
