package c09

import (
	"github.com/dolthub/go-mysql-server/vh/internal/kf"
	"github.com/dolthub/go-mysql-server/vh/internal/stats"
)

func kfSuppress(st *stats.Collector, id string) bool { return kf.Suppress(st, id) }
