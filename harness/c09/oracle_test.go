package c09

import (
	"fmt"
	"math"
	"math/big"
	"strings"
	"time"
	"unicode/utf8"

	"github.com/cockroachdb/apd/v3"
	"github.com/dolthub/go-mysql-server/sql"
	"github.com/dolthub/go-mysql-server/sql/types"
	"github.com/dolthub/go-mysql-server/vh/internal/fx"
	"github.com/dolthub/vitess/go/vt/proto/query"
)

// A violation kind names which clause of the property a value breaks.
const (
	vNull    = "null-in-not-null" // Nullable == false but the value is NULL
	vConvert = "not-convertible"  // Type.Convert rejects the value
	vRange   = "out-of-range"     // Type.Convert reports Overflow / Underflow, or the value is outside the type's range
	vChanged = "changed"          // Type.Convert yields a different value (the value is not a value of the type)
	vSQL     = "sql-encode"       // Type.SQL (what the wire encoder calls) fails
	vLength  = "too-long"         // string longer than the reported length
	vDigits  = "decimal-digits"   // decimal does not fit precision/scale
	vCharset = "bad-charset"      // bytes invalid in the reported character set
	vMember  = "not-a-member"     // ENUM/SET/BIT value outside the declared members/width
	vKind    = "wrong-go-kind"    // Go value of a kind the type never holds (e.g. JSON document in a DATE column)
)

type violation struct {
	Kind   string
	Detail string
}

func unwrap(ctx *sql.Context, v any) any {
	if w, ok := v.(sql.AnyWrapper); ok {
		if _, isJSON := v.(sql.JSONWrapper); !isJSON {
			if u, err := w.UnwrapAny(ctx); err == nil {
				return u
			}
		}
	}
	return v
}

// ratOf returns the exact numeric value of a Go number (ok=false for non-numbers, NaN, Inf).
func ratOf(v any) (*big.Rat, bool) {
	switch x := v.(type) {
	case bool:
		if x {
			return big.NewRat(1, 1), true
		}
		return new(big.Rat), true
	case int:
		return new(big.Rat).SetInt64(int64(x)), true
	case int8:
		return new(big.Rat).SetInt64(int64(x)), true
	case int16:
		return new(big.Rat).SetInt64(int64(x)), true
	case int32:
		return new(big.Rat).SetInt64(int64(x)), true
	case int64:
		return new(big.Rat).SetInt64(x), true
	case uint:
		return new(big.Rat).SetUint64(uint64(x)), true
	case uint8:
		return new(big.Rat).SetUint64(uint64(x)), true
	case uint16:
		return new(big.Rat).SetUint64(uint64(x)), true
	case uint32:
		return new(big.Rat).SetUint64(uint64(x)), true
	case uint64:
		return new(big.Rat).SetUint64(x), true
	case float32:
		if math.IsNaN(float64(x)) || math.IsInf(float64(x), 0) {
			return nil, false
		}
		return new(big.Rat).SetFloat64(float64(x)), true
	case float64:
		if math.IsNaN(x) || math.IsInf(x, 0) {
			return nil, false
		}
		return new(big.Rat).SetFloat64(x), true
	case *apd.Decimal:
		if x == nil || x.Form != apd.Finite {
			return nil, false
		}
		r, ok := new(big.Rat).SetString(x.Text('f'))
		return r, ok
	case apd.Decimal:
		return ratOf(&x)
	}
	return nil, false
}

func isFloatVal(v any) bool {
	switch v.(type) {
	case float32, float64:
		return true
	}
	return false
}

func textOf(v any) (string, bool) {
	switch x := v.(type) {
	case string:
		return x, true
	case []byte:
		return string(x), true
	}
	return "", false
}

var intRange = map[query.Type][2]*big.Rat{
	query.Type_INT8:   {big.NewRat(math.MinInt8, 1), big.NewRat(math.MaxInt8, 1)},
	query.Type_INT16:  {big.NewRat(math.MinInt16, 1), big.NewRat(math.MaxInt16, 1)},
	query.Type_INT24:  {big.NewRat(-8388608, 1), big.NewRat(8388607, 1)},
	query.Type_INT32:  {big.NewRat(math.MinInt32, 1), big.NewRat(math.MaxInt32, 1)},
	query.Type_INT64:  {big.NewRat(math.MinInt64, 1), big.NewRat(math.MaxInt64, 1)},
	query.Type_UINT8:  {new(big.Rat), big.NewRat(math.MaxUint8, 1)},
	query.Type_UINT16: {new(big.Rat), big.NewRat(math.MaxUint16, 1)},
	query.Type_UINT24: {new(big.Rat), big.NewRat(16777215, 1)},
	query.Type_UINT32: {new(big.Rat), big.NewRat(math.MaxUint32, 1)},
	query.Type_UINT64: {new(big.Rat), new(big.Rat).SetUint64(math.MaxUint64)},
}

// checkValue decides one value against its reported column. It returns nil when the value
// conforms. Every clause is derived from the reported type's own parameters and API; no
// expectation about which type should have been inferred is involved.
func checkValue(ctx *sql.Context, col *sql.Column, v any) *violation {
	if v == nil {
		if !col.Nullable {
			return &violation{vNull, "column is reported NOT NULL"}
		}
		return nil
	}
	t := col.Type
	if t == nil {
		return nil
	}
	v = unwrap(ctx, v)
	if v == nil {
		if !col.Nullable {
			return &violation{vNull, "column is reported NOT NULL (wrapped NULL)"}
		}
		return nil
	}
	switch {
	case types.IsNullType(t):
		return &violation{vKind, fmt.Sprintf("non-NULL %T in a column of type NULL", v)}
	case types.IsTuple(t) || types.IsDeferredType(t):
		return nil
	}

	// (3) the wire encoder's entry point must accept the value
	if _, err := t.SQL(ctx, nil, v); err != nil {
		return &violation{vSQL, "Type.SQL: " + err.Error()}
	}

	switch {
	case types.IsInteger(t) || types.IsBoolean(t):
		r, isNum := ratOf(v)
		if !isNum {
			if s, ok := textOf(v); ok {
				// a number delivered as its decimal text is the same observable value
				if pr, ok2 := new(big.Rat).SetString(strings.TrimSpace(s)); ok2 && pr.IsInt() {
					r, isNum = pr, true
				}
			}
		}
		if !isNum {
			return &violation{vKind, fmt.Sprintf("%T value in an integer column", v)}
		}
		if !r.IsInt() {
			return &violation{vChanged, "non-integral value " + r.FloatString(6) + " in an integer column"}
		}
		if rg, ok := intRange[t.Type()]; ok && (r.Cmp(rg[0]) < 0 || r.Cmp(rg[1]) > 0) {
			return &violation{vRange, fmt.Sprintf("%s outside %s..%s", r.RatString(), rg[0].RatString(), rg[1].RatString())}
		}
		return nil
	case types.IsFloat(t):
		if _, isNum := ratOf(v); isNum {
			if t.Type() == query.Type_FLOAT32 {
				if f, ok := v.(float64); ok && math.Abs(f) > math.MaxFloat32 {
					return &violation{vRange, fmt.Sprintf("%v outside FLOAT", f)}
				}
			}
			return nil
		}
		if f, ok := v.(float64); ok && (math.IsNaN(f) || math.IsInf(f, 0)) {
			return nil // the engine's DOUBLE is an IEEE double; not decided here
		}
		if f, ok := v.(float32); ok && (math.IsNaN(float64(f)) || math.IsInf(float64(f), 0)) {
			return nil
		}
		if s, ok := textOf(v); ok {
			if _, ok2 := new(big.Rat).SetString(strings.TrimSpace(s)); ok2 {
				return nil
			}
		}
		return &violation{vKind, fmt.Sprintf("%T value in a floating point column", v)}
	case types.IsDecimal(t):
		dt := t.(sql.DecimalType)
		r, isNum := ratOf(v)
		if !isNum {
			if s, ok := textOf(v); ok {
				if pr, ok2 := new(big.Rat).SetString(strings.TrimSpace(s)); ok2 {
					r, isNum = pr, true
				}
			}
		}
		if !isNum {
			return &violation{vKind, fmt.Sprintf("%T value in a decimal column", v)}
		}
		if isFloatVal(v) {
			return nil // binary floats are converted by rounding; only exact values are decided
		}
		// integer digits <= precision - scale, fractional digits <= scale
		scale := int(dt.Scale())
		prec := int(dt.Precision())
		scaled := new(big.Rat).Mul(r, new(big.Rat).SetInt(new(big.Int).Exp(big.NewInt(10), big.NewInt(int64(scale)), nil)))
		if !scaled.IsInt() {
			return &violation{vDigits, fmt.Sprintf("%s has more than %d fractional digits (type %s)", r.FloatString(scale+6), scale, t)}
		}
		limit := new(big.Rat).SetInt(new(big.Int).Exp(big.NewInt(10), big.NewInt(int64(prec)), nil))
		if new(big.Rat).Abs(scaled).Cmp(limit) >= 0 {
			return &violation{vDigits, fmt.Sprintf("%s needs more than %d digits (type %s)", r.FloatString(scale), prec, t)}
		}
		return nil
	case types.IsEnum(t):
		et := t.(sql.EnumType)
		r, isNum := ratOf(v)
		if !isNum {
			if s, ok := textOf(v); ok {
				if et.IndexOf(s) >= 0 {
					return nil
				}
				return &violation{vMember, fmt.Sprintf("%q is not a member of %s", s, t)}
			}
			return &violation{vKind, fmt.Sprintf("%T value in an ENUM column", v)}
		}
		if !r.IsInt() || r.Sign() < 0 || r.Cmp(big.NewRat(int64(et.NumberOfElements()), 1)) > 0 {
			return &violation{vMember, fmt.Sprintf("index %s outside 0..%d", r.RatString(), et.NumberOfElements())}
		}
		return nil
	case types.IsSet(t):
		stt := t.(sql.SetType)
		r, isNum := ratOf(v)
		if !isNum {
			if s, ok := textOf(v); ok {
				if _, _, err := t.Convert(ctx, s); err == nil {
					return nil
				}
				return &violation{vMember, fmt.Sprintf("%q is not a value of %s", s, t)}
			}
			return &violation{vKind, fmt.Sprintf("%T value in a SET column", v)}
		}
		lim := new(big.Rat).SetInt(new(big.Int).Lsh(big.NewInt(1), uint(stt.NumberOfElements())))
		if !r.IsInt() || r.Sign() < 0 || r.Cmp(lim) >= 0 {
			return &violation{vMember, fmt.Sprintf("bits %s outside the %d members", r.RatString(), stt.NumberOfElements())}
		}
		return nil
	case types.IsBit(t):
		bt, _ := t.(types.BitType)
		r, isNum := ratOf(v)
		if !isNum {
			if _, ok := textOf(v); ok {
				return nil // bit values are also delivered as byte strings
			}
			return &violation{vKind, fmt.Sprintf("%T value in a BIT column", v)}
		}
		if bt != nil {
			lim := new(big.Rat).SetInt(new(big.Int).Lsh(big.NewInt(1), uint(bt.NumberOfBits())))
			if !r.IsInt() || r.Sign() < 0 || r.Cmp(lim) >= 0 {
				return &violation{vMember, fmt.Sprintf("%s does not fit BIT(%d)", r.RatString(), bt.NumberOfBits())}
			}
		}
		return nil
	case types.IsYear(t):
		r, isNum := ratOf(v)
		if !isNum {
			return &violation{vKind, fmt.Sprintf("%T value in a YEAR column", v)}
		}
		if !r.IsInt() || !(r.Sign() == 0 || (r.Cmp(big.NewRat(1901, 1)) >= 0 && r.Cmp(big.NewRat(2155, 1)) <= 0)) {
			return &violation{vRange, "year " + r.RatString() + " outside 0, 1901..2155"}
		}
		return nil
	case types.IsTimespan(t):
		switch x := v.(type) {
		case types.Timespan:
			const lim = int64(839*3600) * 1000000
			if int64(x) >= lim || int64(x) <= -lim {
				return &violation{vRange, fmt.Sprintf("time %v outside -838:59:59..838:59:59", x)}
			}
			return nil
		case string, []byte:
			if _, _, err := t.Convert(ctx, v); err != nil {
				return &violation{vConvert, err.Error()}
			}
			return nil
		}
		return &violation{vKind, fmt.Sprintf("%T value in a TIME column", v)}
	case types.IsTime(t): // DATE, DATETIME, TIMESTAMP
		dt := t.(sql.DatetimeType)
		var tm time.Time
		switch x := v.(type) {
		case time.Time:
			tm = x
		case string, []byte:
			c, rg, err := t.Convert(ctx, v)
			if err != nil {
				return &violation{vConvert, err.Error()}
			}
			if rg != sql.InRange {
				return &violation{vRange, fmt.Sprintf("%v", v)}
			}
			tm, _ = c.(time.Time)
		default:
			return &violation{vKind, fmt.Sprintf("%T value in a %s column", v, t)}
		}
		if tm.IsZero() || tm.Equal(types.ZeroTime) {
			return nil // the zero date
		}
		// MaximumTime carries no fraction (9999-12-31 23:59:59); values up to .999999 of that second are valid
		if tm.Before(dt.MinimumTime()) || !tm.Before(dt.MaximumTime().Add(time.Second)) {
			return &violation{vRange, fmt.Sprintf("%s outside %s..%s", tm.UTC().Format(time.RFC3339Nano), dt.MinimumTime().Format(time.RFC3339), dt.MaximumTime().Format(time.RFC3339))}
		}
		if types.IsDateType(t) {
			if h, m, s := tm.Clock(); h != 0 || m != 0 || s != 0 || tm.Nanosecond() != 0 {
				return &violation{vChanged, "DATE value with a time of day: " + tm.Format(time.RFC3339Nano)}
			}
			return nil
		}
		unit := int(math.Pow10(9 - dt.Precision()))
		if unit > 0 && tm.Nanosecond()%unit != 0 {
			return &violation{vChanged, fmt.Sprintf("%s has more than %d fractional digits", tm.Format(time.RFC3339Nano), dt.Precision())}
		}
		return nil
	case types.IsJSON(t):
		switch v.(type) {
		case sql.JSONWrapper:
			return nil
		}
		if _, _, err := t.Convert(ctx, v); err != nil {
			return &violation{vConvert, fmt.Sprintf("%T value in a JSON column: %v", v, err)}
		}
		return nil
	case types.IsGeometry(t):
		if _, ok := v.(types.GeometryValue); !ok {
			return &violation{vKind, fmt.Sprintf("%T value in a geometry column", v)}
		}
		if _, _, err := t.Convert(ctx, v); err != nil {
			return &violation{vConvert, err.Error()}
		}
		return nil
	case sql.IsStringType(t):
		st := t.(sql.StringType)
		var b []byte
		switch x := v.(type) {
		case string:
			b = []byte(x)
		case []byte:
			b = x
		default:
			// numbers, dates, ... delivered in a string column: their text is what is sent;
			// Convert must accept them
			c, rg, err := t.Convert(ctx, v)
			if err != nil {
				return &violation{vConvert, fmt.Sprintf("%T value in a %s column: %v", v, t, err)}
			}
			if rg != sql.InRange {
				return &violation{vRange, fmt.Sprintf("%T value in a %s column", v, t)}
			}
			s, _ := textOf(unwrap(ctx, c))
			b = []byte(s)
		}
		binary := types.IsBinaryType(t)
		if !binary && st.CharacterSet() == sql.CharacterSet_utf8mb4 && !utf8.Valid(b) {
			return &violation{vCharset, fmt.Sprintf("bytes %x are not valid utf8mb4", trunc(b, 24))}
		}
		// length: characters for CHAR/VARCHAR, bytes for BINARY/VARBINARY and the TEXT/BLOB families
		if ml := st.MaxCharacterLength(); ml > 0 && !types.IsTextBlob(t) {
			n := int64(len(b))
			if !binary && st.CharacterSet().MaxLength() > 1 {
				n = int64(utf8.RuneCount(b))
			}
			if n > ml {
				return &violation{vLength, fmt.Sprintf("%d characters in a %s column", n, t)}
			}
		} else if mb := st.MaxByteLength(); mb > 0 && int64(len(b)) > mb {
			return &violation{vLength, fmt.Sprintf("%d bytes in a %s column", len(b), t)}
		}
		return nil
	}
	// any other type (vector, extended types): the generic contract only
	c, rg, err := t.Convert(ctx, v)
	if err != nil {
		return &violation{vConvert, err.Error()}
	}
	if rg != sql.InRange {
		return &violation{vRange, fmt.Sprintf("%v", v)}
	}
	if a, b := fx.Norm(v, t), fx.Norm(c, t); !fx.ValEq(a, b) {
		return &violation{vChanged, a + " becomes " + b}
	}
	return nil
}

func trunc(b []byte, n int) []byte {
	if len(b) > n {
		return b[:n]
	}
	return b
}
