package c09

import (
	"context"
	"encoding/json"
	"fmt"
	"os"
	"strings"
	"testing"

	"github.com/dolthub/go-mysql-server/sql"
	"github.com/dolthub/go-mysql-server/vh/internal/fx"
	"github.com/dolthub/go-mysql-server/vh/internal/gen"
	"github.com/dolthub/go-mysql-server/vh/internal/stats"
	"pgregory.net/rapid"
)

// item remembers, for one select item that the check replaced by a wide expression, the
// expression tree and the SELECT block that owns it (for localisation).
type item struct {
	n   *node
	sel *gen.Select
}

type qgen struct {
	rt    *rapid.T
	w     *wschema
	eg    *egen
	items map[*gen.Raw]item
	L     map[string]bool
}

func (q *qgen) scopeOf(sel *gen.Select) []scol {
	var out []scol
	for _, f := range sel.From {
		for _, c := range f.Table.Cols {
			out = append(out, scol{f.Alias + "." + c.Name, kindCls(c.Kind)})
		}
		for _, xc := range q.w.Extra[f.Table] {
			out = append(out, scol{f.Alias + "." + xc.name, xc.cls})
		}
	}
	return out
}

// widen replaces select items of every SELECT block of the query by wide expressions (scalar
// functions, casts, arithmetic incl. division, CASE/IF/COALESCE over mixed classes; in grouped
// blocks aggregates over such expressions; in plain blocks also window functions). The
// number of items is kept, so set operations stay well-formed while their branches now have
// different column types.
func (q *qgen) widen(x gen.Query) {
	switch s := x.(type) {
	case *gen.SetOp:
		q.widen(s.L)
		q.widen(s.R)
	case *gen.Select:
		q.eg.cols = q.scopeOf(s)
		ng := len(s.GroupBy)
		for i := range s.Items {
			if s.Grouped && i < ng {
				continue // group-by columns stay
			}
			if rapid.IntRange(0, 3).Draw(q.rt, "keepitem") == 0 {
				continue
			}
			var n *node
			switch {
			case s.Grouped:
				n = q.eg.aggExpr(2)
			case !s.Distinct && rapid.IntRange(0, 5).Draw(q.rt, "window") == 0:
				n = q.eg.winExpr(2)
				q.L["window"] = true
			default:
				n = q.eg.expr(cAny, 3)
			}
			r := &gen.Raw{Text: n.sql, K: gen.KStr}
			q.items[r] = item{n, s}
			s.Items[i].E = r
			q.L["wide"] = true
		}
		// ORDER BY over arbitrary wide columns is fine; HAVING refers to its own aggregate
	}
}

// ---------------------------------------------------------------------------------------
// findings

// A finding is identified by the operator of the smallest violating sub-expression, the
// violated clause and (optionally) a fragment of the reported type.
type finding struct {
	id    string
	ops   []string // culprit operators; an entry ending in ":" is a prefix
	kinds []string // violation kinds (empty = any)
	outer bool     // only in statements with an outer join
}

var dateOps = []string{"DATE", "YEAR", "MONTH", "DAY", "HOUR", "MINUTE", "SECOND", "MICROSECOND", "DAYOFWEEK", "DAYOFYEAR", "WEEK", "WEEKDAY", "YEARWEEK", "QUARTER", "DAYNAME", "MONTHNAME", "LAST_DAY",
	"DATE_ADD", "DATE_SUB", "+INTERVAL", "-INTERVAL", "DATEDIFF", "TIMESTAMPDIFF", "TIMESTAMPADD", "DATE_FORMAT", "TIME_FORMAT", "STR_TO_DATE", "UNIX_TIMESTAMP", "FROM_UNIXTIME", "TIME", "TIMEDIFF", "SEC_TO_TIME",
	"TIME_TO_SEC", "MAKEDATE", "MAKETIME", "TO_DAYS", "FROM_DAYS", "TO_SECONDS", "ADDTIME", "SUBTIME", "EXTRACT", "TIMESTAMP", "PERIOD_ADD", "PERIOD_DIFF", "CAST", "CONVERT"}

var findings = []finding{
	// aggregates over an empty input (or only NULLs) return NULL but report NOT NULL when their argument is NOT NULL
	{id: "C09-aggregate-not-nullable", kinds: []string{vNull}, ops: []string{"SUM", "SUM_DISTINCT", "AVG", "MIN", "MAX", "gen:min", "gen:max", "gen:sum", "gen:avg", "STD", "STDDEV_SAMP", "VAR_SAMP", "VARIANCE",
		"GROUP_CONCAT", "JSON_ARRAYAGG", "JSON_OBJECTAGG", "ANY_VALUE", "BIT_AND", "BIT_OR", "BIT_XOR", "WMIN", "WMAX", "WSUM", "WAVG", "WGROUP_CONCAT", "WJSON_ARRAYAGG", "WBIT_OR", "FIRST_VALUE", "LAST_VALUE", "LAG", "LEAD", "wrap:"}},
	// NOT NULL columns of the null-supplying side of a LEFT/RIGHT JOIN (and expressions over them) stay NOT NULL
	{id: "C09-outer-join-not-null", kinds: []string{vNull}, outer: true, ops: []string{"col", "col-outer-join", "gen:", "ctx:"}},
	// STD/VARIANCE report their argument's type and return a DOUBLE
	{id: "C09-variance-type", kinds: []string{vChanged, vKind, vSQL, vRange, vDigits, vLength, vConvert}, ops: []string{"STD", "STDDEV_SAMP", "VAR_SAMP", "VARIANCE"}},
	// arithmetic / rounding result types narrower than the values they produce
	{id: "C09-arithmetic-result-type", kinds: []string{vDigits, vRange, vSQL}, ops: []string{"+", "-", "*", "/", "%", "MOD", "DIV", "unary-", "ROUND", "TRUNCATE", "ABS", "CEIL", "FLOOR", "<<", ">>", "~", "wrap:", "SUM", "AVG", "WSUM", "WAVG", "gen:arith", "gen:sum", "gen:avg"}},
	// LAG/LEAD return their default argument unconverted
	{id: "C09-lag-lead-default-type", kinds: []string{vChanged, vKind, vSQL, vRange, vDigits, vLength, vConvert, vMember, vCharset}, ops: []string{"LAG", "LEAD"}},
	// temporal functions report NOT NULL but return NULL for an argument that is not a valid date/time
	{id: "C09-time-part-not-nullable", kinds: []string{vNull}, ops: dateOps},
	// JSON functions that return NULL for a missing path / non-object report NOT NULL
	{id: "C09-json-function-not-nullable", kinds: []string{vNull}, ops: []string{"JSON_", "->", "->>"}},
	// functions that report the type of their argument although they return a string / a datetime
	{id: "C09-function-reports-argument-type", kinds: []string{vKind, vSQL, vChanged, vConvert, vDigits, vRange, vLength, vMember}, ops: []string{"SUBSTRING", "SUBSTRING_INDEX", "LEFT", "RIGHT", "UPPER", "LOWER", "TIMESTAMP", "CONVERT_USING", "REVERSE", "TRIM", "LTRIM", "RTRIM", "REPEAT", "REPLACE", "INSERT"}},
	// UNION of a FLOAT/DOUBLE branch and a DECIMAL branch is typed DECIMAL(65,30) and holds values with more than 35 integer digits
	{id: "C09-union-decimal-overflow", kinds: []string{vDigits}, ops: []string{"setop"}},
}

type located struct {
	Op    string `json:"op"`
	Kind  string `json:"kind"`
	Type  string `json:"type"`
	Expr  string `json:"expr"`
	Value string `json:"value"`
	Query string `json:"query"`
	Det   string `json:"detail"`
}

func classify(l located) *finding {
	for i := range findings {
		f := &findings[i]
		kindOK := len(f.kinds) == 0
		for _, k := range f.kinds {
			kindOK = kindOK || k == l.Kind
		}
		if !kindOK {
			continue
		}
		if f.outer && !strings.Contains(l.Query, "LEFT JOIN") && !strings.Contains(l.Query, "RIGHT JOIN") {
			continue
		}
		for _, op := range f.ops {
			if op == l.Op || ((strings.HasSuffix(op, ":") || strings.HasSuffix(op, "_")) && strings.HasPrefix(l.Op, op)) {
				return f
			}
		}
	}
	return nil
}

// ---------------------------------------------------------------------------------------

type colViol struct {
	col int
	row int
	v   *violation
	val any
}

func checkResult(ctx *sql.Context, r *fx.Result) []colViol {
	var out []colViol
	seen := map[int]bool{}
	for ri, row := range r.Rows {
		for ci, v := range row {
			if ci >= len(r.Schema) || seen[ci] {
				continue
			}
			if vi := checkValue(ctx, r.Schema[ci], v); vi != nil {
				out = append(out, colViol{ci, ri, vi, v})
				seen[ci] = true
			}
		}
	}
	return out
}

// probe runs SELECT <expr> in the shell of the owning block and reports whether the single
// result column violates the property (ok=false when the probe statement fails).
func probe(s *fx.Sess, sel *gen.Select, n *node) (viol *colViol, typ string, ok bool) {
	c := *sel
	c.Items = []gen.Item{{E: &gen.Raw{Text: n.sql, K: gen.KStr}, Alias: "o0"}}
	c.OrderBy, c.Limit, c.Offset, c.Distinct, c.Having, c.Hint = nil, -1, -1, false, nil, ""
	if !n.agg {
		c.GroupBy, c.Grouped = nil, false
	}
	r := s.Exec(c.SQL())
	if !r.OK() || len(r.Schema) != 1 {
		return nil, "", false
	}
	vs := checkResult(s.Ctx(context.Background()), r)
	if len(vs) == 0 {
		return nil, r.Schema[0].Type.String(), true
	}
	return &vs[0], r.Schema[0].Type.String(), true
}

// localise finds the smallest sub-expression of n that by itself violates the property with
// the same kind; it returns n itself when no strict sub-expression does.
func localise(s *fx.Sess, sel *gen.Select, n *node, kind string) *node {
	for _, k := range n.kids {
		if v, _, ok := probe(s, sel, k); ok && v != nil && v.v.Kind == kind {
			return localise(s, sel, k, kind)
		}
	}
	return n
}

func selects(q gen.Query, out []*gen.Select) []*gen.Select {
	switch s := q.(type) {
	case *gen.SetOp:
		return selects(s.R, selects(s.L, out))
	case *gen.Select:
		return append(out, s)
	}
	return out
}

func genOp(e gen.Expr) string {
	return strings.ToLower(strings.TrimPrefix(fmt.Sprintf("%T", e), "*gen."))
}

func collectTo(l located, schema string) bool {
	p := os.Getenv("C09_COLLECT")
	if p == "" {
		return false
	}
	f, err := os.OpenFile(p, os.O_APPEND|os.O_CREATE|os.O_WRONLY, 0o644)
	if err != nil {
		return false
	}
	defer f.Close()
	b, _ := json.Marshal(map[string]any{"loc": l, "schema": schema})
	f.Write(append(b, '\n'))
	return true
}

func TestC09(t *testing.T) {
	st := stats.New("C09", "")
	defer st.Flush()
	maxRows := 6
	if os.Getenv("VERIF_TIER") == "thorough" {
		maxRows = 10
	}
	rapid.Check(t, func(rt *rapid.T) {
		st.Eval()
		w := genWSchema(rt, maxRows)
		g := gen.NewG(rt, w.S)
		q := g.Query()
		qg := &qgen{rt: rt, w: w, items: map[*gen.Raw]item{}, L: map[string]bool{}}
		qg.eg = &egen{t: rt, L: qg.L}
		qg.widen(q)
		sqlText := q.SQL()

		f := fx.New(fx.Opts{})
		defer f.Close()
		s := f.NewSession("", "", "")
		s.MustExec(rt.Fatalf, w.DDL()...)
		r := s.Exec(sqlText)
		if r.Panic != nil {
			st.Class("panic") // C10's subject
			return
		}
		if !r.OK() {
			st.Class("error")
			return
		}
		st.Class("ok")
		ctx := s.Ctx(context.Background())
		viols := checkResult(ctx, r)
		for _, l := range g.L.Sorted() {
			st.Class(l)
		}
		for l := range qg.L {
			if !strings.HasPrefix(l, "fn:") && !strings.HasPrefix(l, "agg:") && !strings.HasPrefix(l, "win:") {
				st.Class(l)
			}
		}
		inferred := qg.L["wide"] || g.L["setop"] || g.L["outerjoin"] || g.L["group"] || g.L["case"] || g.L["coalesce"] || g.L["arith"] || g.L["scalarsub"]
		if inferred && len(r.Rows) > 0 {
			st.NonTrivial(map[string]any{"query": sqlText, "rows": len(r.Rows)}, w.Describe(), sqlText)
		}
		if len(viols) == 0 {
			return
		}
		// localise every violating column to the smallest violating sub-expression
		blocks := selects(q, nil)
		for _, cv := range viols {
			loc := located{Kind: cv.v.Kind, Type: r.Schema[cv.col].Type.String(), Det: cv.v.Detail, Query: sqlText, Value: fmt.Sprintf("%T(%v)", cv.val, fx.Norm(cv.val, nil))}
			_, isSet := q.(*gen.SetOp)
			found := false
			for _, b := range blocks {
				if cv.col >= len(b.Items) {
					continue
				}
				e := b.Items[cv.col].E
				var n *node
				if raw, ok := e.(*gen.Raw); ok {
					if it, ok2 := qg.items[raw]; ok2 {
						n = it.n
					}
				}
				if n == nil {
					n = &node{op: "gen:" + genOp(e), sql: e.SQL()}
					if a, isAgg := e.(*gen.Agg); isAgg {
						n.agg = true
						n.op = "gen:" + strings.ToLower(a.Fn)
					}
				}
				if v, _, ok := probe(s, b, n); ok && v != nil && v.v.Kind == cv.v.Kind {
					m := localise(s, b, n, cv.v.Kind)
					loc.Op, loc.Expr = m.op, m.sql
					if m.op == "col" && g.L["outerjoin"] {
						loc.Op = "col-outer-join"
					}
					found = true
					break
				}
			}
			if !found {
				switch {
				case isSet:
					loc.Op = "setop"
				case len(blocks) == 1 && cv.col < len(blocks[0].Items):
					// only violates in the context of the whole statement (join nullability, grouping, ...)
					e := blocks[0].Items[cv.col].E
					loc.Op, loc.Expr = "ctx:"+genOp(e), e.SQL()
					if raw, ok := e.(*gen.Raw); ok {
						if it, ok2 := qg.items[raw]; ok2 {
							loc.Op = "ctx:" + it.n.op
						}
					}
				default:
					loc.Op = "?"
				}
			}
			if fd := classify(loc); fd != nil && kfSuppress(st, fd.id) {
				continue
			}
			if collectTo(loc, w.Describe()) {
				continue
			}
			rt.Fatalf("result value does not conform to the reported schema\n  column %d (%s, nullable=%v) row %d: value %s\n  violation: %s: %s\n  culprit: %s  %s\n  schema: %s\n  query: %s",
				cv.col, r.Schema[cv.col].Type, r.Schema[cv.col].Nullable, cv.row, loc.Value, cv.v.Kind, cv.v.Detail, loc.Op, loc.Expr, w.Describe(), sqlText)
		}
	})
}

func TestReplayC09(t *testing.T) {
	st := stats.New("C09", "replay")
	defer st.Flush()
	fx.ReplayDir(t, st)
}
