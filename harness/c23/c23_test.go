package c23

import (
	"fmt"
	"sort"
	"strings"
	"testing"

	"github.com/dolthub/go-mysql-server/vh/internal/fx"
	"github.com/dolthub/go-mysql-server/vh/internal/kf"
	"github.com/dolthub/go-mysql-server/vh/internal/stats"
	"pgregory.net/rapid"
)

// Finding ids (see notes/C23.md). A statement that falls into the region of a listed finding
// (decided on the reference model before the engine sees it) is dropped from the history and
// counted in excluded_known; the replay witnesses re-confirm each finding.
const (
	fRollback   = "C23-trigger-effects-survive-failure"  // F8: audit/counter writes of fired triggers stay when the statement fails later
	fOdku       = "C23-odku-update-triggers"             // ODKU on an existing key: UPDATE triggers do not fire, AFTER INSERT fires with the old row
	fReplaceNew = "C23-replace-after-insert-new"         // REPLACE: AFTER INSERT sees a wrong NEW row
	fOrder      = "C23-trigger-order-clauses"            // two or more FOLLOWS/PRECEDES clauses on one event: triggers run twice / not at all / in the wrong order
	fAfterFail  = "C23-after-trigger-failure-keeps-rows" // a SIGNAL in an AFTER trigger fails the statement but its row changes on t stay
)

// ---------------------------------------------------------------------------------------
// generator

type gen struct {
	rt *rapid.T
	st *stats.Collector
}

func (g *gen) chance(pct int, name string) bool {
	return rapid.IntRange(0, 99).Draw(g.rt, name) < pct
}

func (g *gen) smallVal(name string) val {
	if g.chance(8, name+"null") {
		return nullV()
	}
	return intV(int64(rapid.IntRange(-3, 6).Draw(g.rt, name)))
}

// operand over the pseudo-rows available to a trigger
func (g *gen) trigOperand(t *trig) expr {
	var refs []expr
	for _, c := range []string{"a", "b", "id"} {
		if t.hasNew() {
			refs = append(refs, eRef{"NEW", c})
		}
		if t.hasOld() {
			refs = append(refs, eRef{"OLD", c})
		}
	}
	if g.chance(30, "lit") {
		return eLit{g.smallVal("opv")}
	}
	return refs[rapid.IntRange(0, len(refs)-1).Draw(g.rt, "ref")]
}

func (g *gen) trigExpr(t *trig) expr {
	if g.chance(50, "binary") {
		op := rapid.SampledFrom([]string{"+", "-"}).Draw(g.rt, "op")
		return eBin{op, g.trigOperand(t), g.trigOperand(t)}
	}
	return g.trigOperand(t)
}

func (g *gen) trigCond(t *trig) expr {
	if g.chance(20, "isnull") {
		return eIsNull{g.trigOperand(t), g.chance(50, "neg")}
	}
	op := rapid.SampledFrom([]string{"=", "<>", "<", "<=", ">", ">="}).Draw(g.rt, "cmp")
	c := expr(eCmp{op, g.trigOperand(t), eLit{intV(int64(rapid.IntRange(-3, 6).Draw(g.rt, "cmpv")))}})
	if g.chance(15, "and") {
		c = eLogic{rapid.SampledFrom([]string{"AND", "OR"}).Draw(g.rt, "lop"), c, eIsNull{g.trigOperand(t), g.chance(50, "neg")}}
	}
	return c
}

var trigNames = []string{"zz", "aa", "mm", "bb", "yy", "cc", "kk", "dd"}

func (g *gen) trigger(name string, existing []*trig) *trig {
	t := &trig{name: name}
	t.time = rapid.SampledFrom([]string{"BEFORE", "AFTER"}).Draw(g.rt, "time")
	t.event = rapid.SampledFrom([]string{"INSERT", "INSERT", "UPDATE", "UPDATE", "DELETE"}).Draw(g.rt, "event")
	// bias towards an event that already has triggers, so that orderings matter
	if len(existing) > 0 && g.chance(55, "sameevent") {
		o := existing[rapid.IntRange(0, len(existing)-1).Draw(g.rt, "like")]
		t.event = o.event
		if g.chance(70, "sametime") {
			t.time = o.time
		}
	}
	var same []*trig
	for _, o := range existing {
		if o.time == t.time && o.event == t.event {
			same = append(same, o)
		}
	}
	if len(same) > 0 && g.chance(55, "ordered") {
		// region of fOrder: a second FOLLOWS/PRECEDES clause among the triggers of one event
		clauses := 0
		for _, o := range existing {
			if o.event == t.event && o.ref != "" {
				clauses++
			}
		}
		if clauses >= 1 && kf.Listed(fOrder) {
			g.st.Excluded(fOrder)
		} else {
			t.ref = same[rapid.IntRange(0, len(same)-1).Draw(g.rt, "ref")].name
			t.follows = rapid.Bool().Draw(g.rt, "follows")
		}
	}
	n := rapid.IntRange(1, 3).Draw(g.rt, "nbody")
	hasAudit := false
	for i := 0; i < n; i++ {
		k := rapid.IntRange(0, 9).Draw(g.rt, "tstmt")
		switch {
		case k <= 2 && t.time == "BEFORE" && t.hasNew():
			col := rapid.SampledFrom([]string{"a", "b"}).Draw(g.rt, "setcol")
			if g.chance(30, "ifset") {
				t.body = append(t.body, tIfSetNew{g.trigCond(t), col, g.trigExpr(t)})
			} else {
				t.body = append(t.body, tSetNew{col, g.trigExpr(t)})
			}
		case k <= 6:
			t.body = append(t.body, tAudit{})
			hasAudit = true
		case k == 7:
			t.body = append(t.body, tCounter{})
		default:
			t.body = append(t.body, tSignalIf{g.trigCond(t)})
		}
	}
	if !hasAudit && g.chance(70, "addaudit") {
		t.body = append(t.body, tAudit{})
	}
	t.block = len(t.body) > 1 || g.chance(40, "block")
	switch t.body[0].(type) {
	case tIfSetNew, tSignalIf:
		// the engine's parser rejects a bare IF statement as trigger body (legal in MySQL; a
		// parser limitation outside this property, see notes) - always use BEGIN ... END
		t.block = true
	}
	return t
}

func (g *gen) where() expr {
	k := rapid.IntRange(0, 9).Draw(g.rt, "where")
	switch {
	case k <= 2:
		return eTrue{}
	case k <= 5:
		op := rapid.SampledFrom([]string{"=", "<", "<=", ">", ">=", "<>"}).Draw(g.rt, "wop")
		return eCmp{op, eRef{"", "id"}, eLit{intV(int64(rapid.IntRange(0, 6).Draw(g.rt, "wid")))}}
	case k <= 7:
		op := rapid.SampledFrom([]string{"=", "<", ">", "<>"}).Draw(g.rt, "wop")
		col := rapid.SampledFrom([]string{"a", "b"}).Draw(g.rt, "wcol")
		return eCmp{op, eRef{"", col}, eLit{intV(int64(rapid.IntRange(-3, 6).Draw(g.rt, "wv")))}}
	default:
		col := rapid.SampledFrom([]string{"a", "b"}).Draw(g.rt, "wcol")
		return eIsNull{eRef{"", col}, g.chance(50, "neg")}
	}
}

func (g *gen) colUpdate(col string) expr {
	// references only the column itself, so that the left-to-right evaluation order of
	// MySQL's multi-column SET cannot matter
	switch rapid.IntRange(0, 3).Draw(g.rt, "upd") {
	case 0:
		return eLit{g.smallVal("updv")}
	case 1:
		return eBin{"+", eRef{"", col}, eLit{intV(int64(rapid.IntRange(1, 3).Draw(g.rt, "inc")))}}
	case 2:
		return eBin{"-", eRef{"", col}, eLit{intV(int64(rapid.IntRange(1, 3).Draw(g.rt, "dec")))}}
	default:
		return eBin{"-", eLit{intV(int64(rapid.IntRange(0, 6).Draw(g.rt, "from")))}, eRef{"", col}}
	}
}

func (g *gen) order() string {
	return rapid.SampledFrom([]string{"", "", "ASC", "DESC"}).Draw(g.rt, "order")
}

func (g *gen) statement(hasDeleteTrig bool, events []string) dml {
	k := rapid.IntRange(0, 9).Draw(g.rt, "dml")
	if len(events) > 0 && g.chance(60, "triggered") {
		// prefer a statement kind whose event has triggers
		switch rapid.SampledFrom(events).Draw(g.rt, "ev") {
		case "INSERT":
			k = rapid.IntRange(0, 5).Draw(g.rt, "dmli")
		case "UPDATE":
			k = rapid.IntRange(6, 7).Draw(g.rt, "dmlu")
			if g.chance(25, "viaodku") {
				k = 0
			}
		default:
			k = 8
		}
	}
	switch {
	case k <= 4:
		d := dInsert{}
		n := rapid.IntRange(1, 4).Draw(g.rt, "nrows")
		for i := 0; i < n; i++ {
			d.rows = append(d.rows, row{id: int64(rapid.IntRange(0, 11).Draw(g.rt, "id")), a: g.smallVal("a"), b: g.smallVal("b")})
		}
		d.noB = g.chance(25, "nob")
		switch m := rapid.IntRange(0, 9).Draw(g.rt, "mode"); {
		case m <= 1:
			d.odku = true
			d.odkuCol = rapid.SampledFrom([]string{"a", "b"}).Draw(g.rt, "odkucol")
			d.odkuE = g.colUpdate(d.odkuCol)
		case m <= 3 && !hasDeleteTrig:
			// with DELETE triggers on t, MySQL runs them for replaced rows; the check keeps to
			// the case without, where only the INSERT triggers are involved
			d.replace = true
		}
		return d
	case k == 5:
		return dInsertSelect{off: int64(rapid.IntRange(0, 6).Draw(g.rt, "off")), where: g.where()}
	case k <= 7:
		d := dUpdate{where: g.where(), order: g.order()}
		cols := []string{"a", "b"}
		if !g.chance(40, "bothcols") {
			cols = []string{rapid.SampledFrom([]string{"a", "b"}).Draw(g.rt, "ucol")}
		}
		for _, c := range cols {
			d.sets = append(d.sets, tSetNew{c, g.colUpdate(c)})
		}
		return d
	default:
		return dDelete{where: g.where(), order: g.order()}
	}
}

// ---------------------------------------------------------------------------------------
// one case = initial rows, a list of steps (CREATE TRIGGER / DROP TRIGGER / DML)

type step struct {
	create *trig
	drop   string
	stmt   dml
}

func (s step) sql() string {
	switch {
	case s.create != nil:
		return s.create.createSQL()
	case s.drop != "":
		return "DROP TRIGGER " + s.drop
	}
	return s.stmt.sql()
}

type tcase struct {
	src   []row // rows of s
	init  []row
	steps []step
}

var setup = []string{
	"CREATE TABLE t(id INT PRIMARY KEY, a INT, b INT DEFAULT 5)",
	"CREATE TABLE audit(seq INT AUTO_INCREMENT PRIMARY KEY, trg VARCHAR(8), o_id INT, o_a INT, o_b INT, n_id INT, n_a INT, n_b INT)",
	"CREATE TABLE counters(k INT PRIMARY KEY, n INT)",
	"CREATE TABLE s(id INT PRIMARY KEY, a INT, b INT)",
	"INSERT INTO counters VALUES (0, 0)",
}

func (c *tcase) initSQL() []string {
	out := append([]string(nil), setup...)
	for _, r := range c.init {
		out = append(out, fmt.Sprintf("INSERT INTO t VALUES (%d, %s, %s)", r.id, r.a, r.b))
	}
	for _, r := range c.src {
		out = append(out, fmt.Sprintf("INSERT INTO s VALUES (%d, %s, %s)", r.id, r.a, r.b))
	}
	return out
}

func (c *tcase) script(upto int) string {
	var sb strings.Builder
	for _, q := range c.initSQL() {
		sb.WriteString(q + ";;\n")
	}
	for i, s := range c.steps {
		if i > upto {
			break
		}
		sb.WriteString(s.sql() + ";;\n")
	}
	sb.WriteString(readAudit + ";;\n" + readT + ";;\n" + readCounter + ";;\n")
	return sb.String()
}

const (
	readAudit   = "SELECT trg, o_id, o_a, o_b, n_id, n_a, n_b FROM audit ORDER BY seq"
	readT       = "SELECT id, a, b FROM t ORDER BY id"
	readCounter = "SELECT n FROM counters WHERE k = 0"
)

func drawCase(rt *rapid.T, st *stats.Collector) *tcase {
	g := &gen{rt: rt, st: st}
	c := &tcase{}
	used := map[int64]bool{}
	for i, n := 0, rapid.IntRange(0, 5).Draw(rt, "ninit"); i < n; i++ {
		id := int64(rapid.IntRange(0, 11).Draw(rt, "initid"))
		if used[id] {
			continue
		}
		used[id] = true
		c.init = append(c.init, row{id: id, a: g.smallVal("ia"), b: g.smallVal("ib")})
	}
	for i, n := 0, rapid.IntRange(0, 4).Draw(rt, "nsrc"); i < n; i++ {
		c.src = append(c.src, row{id: int64(i), a: g.smallVal("sa"), b: g.smallVal("sb")})
	}
	names := rapid.Permutation(trigNames).Draw(rt, "names")
	var trigs []*trig
	ntr := rapid.IntRange(0, 4).Draw(rt, "ntrig")
	nextName := 0
	for i := 0; i < ntr; i++ {
		t := g.trigger(names[nextName], trigs)
		nextName++
		trigs = append(trigs, t)
		c.steps = append(c.steps, step{create: t})
	}
	hasDel := func() bool {
		for _, t := range trigs {
			if t.event == "DELETE" {
				return true
			}
		}
		return false
	}
	nst := rapid.IntRange(1, 4).Draw(rt, "nstmts")
	for i := 0; i < nst; i++ {
		// occasionally another trigger arrives in the middle of the history
		if nextName < len(names) && len(trigs) < 6 && g.chance(15, "latetrigger") {
			t := g.trigger(names[nextName], trigs)
			nextName++
			trigs = append(trigs, t)
			c.steps = append(c.steps, step{create: t})
		}
		// ... or one is dropped (MySQL keeps the activation order of the remaining ones)
		if len(trigs) > 0 && g.chance(8, "drop") {
			i := rapid.IntRange(0, len(trigs)-1).Draw(rt, "dropidx")
			referenced := false
			for _, o := range trigs {
				if o.ref == trigs[i].name {
					referenced = true
				}
			}
			if referenced {
				// the engine refuses to drop a trigger that another one names in FOLLOWS/PRECEDES
				// (MySQL allows it); an explicit rejection, outside this property - see notes
				st.Class("skip-drop-of-referenced-trigger")
			} else {
				c.steps = append(c.steps, step{drop: trigs[i].name})
				trigs = append(trigs[:i:i], trigs[i+1:]...)
			}
		}
		var events []string
		for _, t := range trigs {
			events = append(events, t.event)
		}
		c.steps = append(c.steps, step{stmt: g.statement(hasDel(), events)})
	}
	return c
}

// ---------------------------------------------------------------------------------------
// the check

type engine struct {
	f *fx.Fixture
	s *fx.Sess
}

func (e *engine) read(q string) ([][]string, error) {
	r := e.s.Exec(q)
	if !r.OK() {
		return nil, fmt.Errorf("%s: %s", q, r)
	}
	return fx.NormRows(r.Schema, r.Rows), nil
}

func auditNorm(es []auditEntry) [][]string {
	out := make([][]string, len(es))
	for i, e := range es {
		out[i] = e.norm()
	}
	return out
}

func tNorm(st *state) [][]string {
	var out [][]string
	for _, id := range st.sortedIDs(false) {
		r := st.t[id]
		out = append(out, []string{intV(r.id).norm(), r.a.norm(), r.b.norm()})
	}
	return out
}

// groupByRow splits audit rows (normalised) by the id of the row they belong to, keeping order.
func groupByRow(rows [][]string) map[string][][]string {
	m := map[string][][]string{}
	for _, r := range rows {
		k := r[4] // n_id
		if k == "N" {
			k = r[1] // o_id
		}
		m[k] = append(m[k], r)
	}
	return m
}

// regions reports the known-finding regions a statement falls into on the reference model. A
// statement is dropped from the history when any of them is listed.
func regions(d dml, info stmtInfo, m *model) []string {
	var out []string
	if info.failed && info.failedIn == "AFTER" {
		// the statement's own row changes stay (together with whatever the triggers wrote)
		out = append(out, fAfterFail)
	}
	if info.failed && info.sideEffects > 0 {
		out = append(out, fRollback)
	}
	if ins, ok := d.(dInsert); ok {
		if ins.odku && info.dupHit {
			out = append(out, fOdku)
		}
		if ins.replace && len(m.order["AFTER INSERT"]) > 0 {
			out = append(out, fReplaceNew)
		}
	}
	return out
}

type outcome struct {
	msg     string // non-empty: violation
	nontriv int
}

func runCase(c *tcase, st *stats.Collector, fatal func(string, ...any)) {
	m := newModel()
	e := &engine{f: fx.New(fx.Opts{})}
	defer e.f.Close()
	e.s = e.f.NewSession("", "", "")
	for _, q := range c.initSQL() {
		if r := e.s.Exec(q); !r.OK() {
			fatal("set-up statement failed: %s -> %s", q, r)
		}
	}
	for _, r := range c.init {
		m.st.t[r.id] = r
	}
	m.st.s = c.src
	nontrivial := false
	var executed []string
	for si, s := range c.steps {
		if s.create != nil {
			r := e.s.Exec(s.create.createSQL())
			if r.Panic != nil {
				fatal("CREATE TRIGGER panicked: %v\n%s\n%s", r.Panic, r.Stack, c.script(si))
			}
			if !r.OK() {
				// a legal trigger the engine rejects: not this property's subject
				st.Class("discard-create-trigger-rejected")
				fatal("CREATE TRIGGER of a legal trigger rejected: %v\n%s", r.Err, c.script(si))
				return
			}
			m.addTrigger(s.create)
			executed = append(executed, s.sql())
			continue
		}
		if s.drop != "" {
			if r := e.s.Exec(s.sql()); !r.OK() {
				fatal("DROP TRIGGER failed: %s%s", r, "\n"+c.script(si))
			}
			m.dropTrigger(s.drop)
			executed = append(executed, s.sql())
			continue
		}
		// decide on a copy of the model first: known regions and ambiguous cases are skipped
		probe := &model{order: m.order, st: m.st.clone()}
		pinfo := probe.apply(s.stmt)
		if pinfo.unchanged {
			// whether MySQL runs AFTER UPDATE triggers for a row that ends up unchanged is not
			// something the manual settles for every path: not asserted
			st.Class("skip-unchanged-row")
			continue
		}
		excluded := false
		for _, reg := range regions(s.stmt, pinfo, m) {
			if kf.Listed(reg) {
				st.Excluded(reg)
				excluded = true
				break
			}
		}
		if excluded {
			continue
		}
		prevAudit := len(m.st.audit)
		info := m.apply(s.stmt)
		executed = append(executed, s.sql())
		r := e.s.Exec(s.stmt.sql())
		where := func() string {
			return fmt.Sprintf("\n--- statements so far ---\n%s\n--- full case ---\n%s", strings.Join(append(c.initSQL(), executed...), ";;\n"), c.script(si))
		}
		if r.Panic != nil {
			fatal("statement panicked: %s: %v\n%s%s", s.sql(), r.Panic, r.Stack, where())
		}
		if r.TimedOut {
			fatal("statement timed out: %s%s", s.sql(), where())
		}
		if info.failed != (r.Err != nil) {
			if info.failed {
				fatal("statement %q succeeded (%s) but must fail (%s)%s", s.sql(), r, info.failedBy, where())
			}
			fatal("statement %q failed (%v) but must succeed%s", s.sql(), r.Err, where())
		}
		gotAudit, err := e.read(readAudit)
		if err != nil {
			fatal("%v%s", err, where())
		}
		gotT, err := e.read(readT)
		if err != nil {
			fatal("%v%s", err, where())
		}
		gotC, err := e.read(readCounter)
		if err != nil {
			fatal("%v%s", err, where())
		}
		wantAudit := auditNorm(m.st.audit)
		wantT := tNorm(m.st)
		wantC := [][]string{{intV(m.st.counter).norm()}}
		what := "after"
		if info.failed {
			what = "after the FAILED"
		}
		if !fx.SeqEqual(gotT, wantT) {
			fatal("%s statement %q table t is %s, reference %s%s", what, s.sql(), fx.ShowSeq(gotT), fx.ShowSeq(wantT), where())
		}
		if !fx.SeqEqual(gotC, wantC) {
			fatal("%s statement %q the trigger counter is %s, reference %s (triggers fired per reference: %d)%s", what, s.sql(), fx.ShowSeq(gotC), fx.ShowSeq(wantC), info.fired, where())
		}
		// audit: the part written by earlier statements must be untouched; the new part is
		// compared as a sequence when the statement fixes the row order, otherwise per row
		bad := false
		if len(gotAudit) != len(wantAudit) || !fx.SeqEqual(gotAudit[:prevAudit], wantAudit[:prevAudit]) {
			bad = true
		} else if info.ordered {
			bad = !fx.SeqEqual(gotAudit[prevAudit:], wantAudit[prevAudit:])
		} else {
			gg, wg := groupByRow(gotAudit[prevAudit:]), groupByRow(wantAudit[prevAudit:])
			if len(gg) != len(wg) {
				bad = true
			}
			for k, w := range wg {
				if !fx.SeqEqual(gg[k], w) {
					bad = true
				}
			}
		}
		if bad {
			fatal("%s statement %q the audit rows (trg, OLD id/a/b, NEW id/a/b) written by it are\n  %s\nreference (row order %s)\n  %s%s", what, s.sql(),
				fx.ShowSeq(gotAudit[min(prevAudit, len(gotAudit)):]), map[bool]string{true: "fixed", false: "free, compared per row"}[info.ordered], fx.ShowSeq(wantAudit[prevAudit:]), where())
		}
		// statistics
		classify(st, s.stmt, info)
		if info.maxPerRow >= 2 && info.rowsAffected >= 2 {
			nontrivial = true
		}
		if info.failed && info.fired > 0 {
			nontrivial = true
		}
	}
	if nontrivial {
		st.NonTrivial(map[string]any{"steps": stepSQL(c)}, c.script(len(c.steps)))
	}
}

func stepSQL(c *tcase) []string {
	var out []string
	for _, s := range c.steps {
		out = append(out, s.sql())
	}
	return out
}

func classify(st *stats.Collector, d dml, info stmtInfo) {
	kind := ""
	switch x := d.(type) {
	case dInsert:
		kind = "insert"
		if x.odku {
			kind = "odku"
		}
		if x.replace {
			kind = "replace"
		}
	case dInsertSelect:
		kind = "insert-select"
	case dUpdate:
		kind = "update"
	case dDelete:
		kind = "delete"
	}
	st.Class("stmt-" + kind)
	if info.failed {
		st.Class("failed-" + info.failedBy)
		if info.fired > 0 {
			st.Class("failed-after-triggers-fired")
		}
	}
	if info.fired > 0 {
		st.Class("triggers-fired")
	}
	if info.maxPerRow >= 2 {
		st.Class(">=2-triggers-per-row")
	}
	if info.rowsAffected >= 2 {
		st.Class(">=2-rows")
	}
	if info.setNewApplied > 0 {
		st.Class("set-new-applied")
	}
	if info.dupHit {
		st.Class("dup-key-met")
	}
}

func TestC23(t *testing.T) {
	st := stats.New("C23", "")
	defer st.Flush()
	rapid.Check(t, func(rt *rapid.T) {
		st.Eval()
		c := drawCase(rt, st)
		runCase(c, st, rt.Fatalf)
	})
}

// TestReplayC23 runs the SQL witness scripts of /verif/replays/C23.
func TestReplayC23(t *testing.T) {
	st := stats.New("C23", "replay")
	defer st.Flush()
	fx.ReplayDir(t, st)
}

var _ = sort.Strings
