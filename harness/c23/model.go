// Package c23 checks property C23: every trigger body runs exactly once per affected row, in
// the prescribed order, sees the correct OLD/NEW values, BEFORE triggers' changes to NEW are
// what gets stored, and the triggers' own effects are kept or discarded together with the
// triggering statement.
//
// model.go: the abstract syntax of the generated triggers and DML statements, their
// rendering to SQL, and the reference interpreter (the oracle).
package c23

import (
	"fmt"
	"sort"
	"strconv"
	"strings"
)

// ---------------------------------------------------------------------------------------
// values, rows

type val struct {
	null bool
	n    int64
}

func nullV() val       { return val{null: true} }
func intV(n int64) val { return val{n: n} }
func (v val) String() string {
	if v.null {
		return "NULL"
	}
	return strconv.FormatInt(v.n, 10)
}
func (v val) norm() string {
	if v.null {
		return "N"
	}
	return "n:" + strconv.FormatInt(v.n, 10)
}

// row of table t(id INT PRIMARY KEY, a INT, b INT DEFAULT 5)
type row struct {
	id   int64
	a, b val
}

func (r row) String() string { return fmt.Sprintf("(%d,%s,%s)", r.id, r.a, r.b) }

func (r row) get(col string) val {
	switch col {
	case "id":
		return intV(r.id)
	case "a":
		return r.a
	case "b":
		return r.b
	}
	panic("row.get: " + col)
}

func (r *row) set(col string, v val) {
	switch col {
	case "a":
		r.a = v
	case "b":
		r.b = v
	default:
		panic("row.set: " + col)
	}
}

const defaultB = 5

// ---------------------------------------------------------------------------------------
// expressions inside trigger bodies (over OLD.x / NEW.x) and inside DML (over bare columns)

type expr interface{ sql() string }

type eLit struct{ v val }
type eRef struct {
	tbl string // "NEW", "OLD" or "" (bare column of the current row, in DML)
	col string
}
type eBin struct { // + -
	op   string
	l, r expr
}
type eCmp struct {
	op   string
	l, r expr
}
type eIsNull struct {
	e   expr
	neg bool
}
type eLogic struct {
	op   string
	l, r expr
}
type eTrue struct{}

func (e eLit) sql() string { return e.v.String() }
func (e eRef) sql() string {
	if e.tbl == "" {
		return e.col
	}
	return e.tbl + "." + e.col
}
func (e eBin) sql() string   { return "(" + e.l.sql() + " " + e.op + " " + e.r.sql() + ")" }
func (e eCmp) sql() string   { return "(" + e.l.sql() + " " + e.op + " " + e.r.sql() + ")" }
func (e eLogic) sql() string { return "(" + e.l.sql() + " " + e.op + " " + e.r.sql() + ")" }
func (e eTrue) sql() string  { return "TRUE" }
func (e eIsNull) sql() string {
	if e.neg {
		return "(" + e.e.sql() + " IS NOT NULL)"
	}
	return "(" + e.e.sql() + " IS NULL)"
}

// env gives the rows an expression can see.
type env struct {
	old, new, cur *row
}

func boolV(b bool) val {
	if b {
		return intV(1)
	}
	return intV(0)
}

func eval(e expr, en env) val {
	switch x := e.(type) {
	case eLit:
		return x.v
	case eTrue:
		return intV(1)
	case eRef:
		switch x.tbl {
		case "NEW":
			return en.new.get(x.col)
		case "OLD":
			return en.old.get(x.col)
		default:
			return en.cur.get(x.col)
		}
	case eBin:
		a, b := eval(x.l, en), eval(x.r, en)
		if a.null || b.null {
			return nullV()
		}
		if x.op == "+" {
			return intV(a.n + b.n)
		}
		return intV(a.n - b.n)
	case eCmp:
		a, b := eval(x.l, en), eval(x.r, en)
		if a.null || b.null {
			return nullV()
		}
		switch x.op {
		case "=":
			return boolV(a.n == b.n)
		case "<>":
			return boolV(a.n != b.n)
		case "<":
			return boolV(a.n < b.n)
		case "<=":
			return boolV(a.n <= b.n)
		case ">":
			return boolV(a.n > b.n)
		case ">=":
			return boolV(a.n >= b.n)
		}
	case eIsNull:
		return boolV(eval(x.e, en).null != x.neg)
	case eLogic:
		a, b := eval(x.l, en), eval(x.r, en)
		if x.op == "AND" {
			if (!a.null && a.n == 0) || (!b.null && b.n == 0) {
				return intV(0)
			}
			if a.null || b.null {
				return nullV()
			}
			return intV(1)
		}
		if (!a.null && a.n != 0) || (!b.null && b.n != 0) {
			return intV(1)
		}
		if a.null || b.null {
			return nullV()
		}
		return intV(0)
	}
	panic(fmt.Sprintf("eval: %T", e))
}

func isTrue(e expr, en env) bool {
	v := eval(e, en)
	return !v.null && v.n != 0
}

// ---------------------------------------------------------------------------------------
// triggers

type tstmt interface{}

type tSetNew struct { // SET NEW.col = e   (BEFORE INSERT / BEFORE UPDATE only)
	col string
	e   expr
}
type tIfSetNew struct { // IF cond THEN SET NEW.col = e; END IF
	cond expr
	col  string
	e    expr
}
type tAudit struct{}    // INSERT INTO audit(trg, o_*, n_*) VALUES (name, OLD.*, NEW.*)
type tCounter struct{}  // UPDATE counters SET n = n + 1 WHERE k = 0
type tSignalIf struct { // IF cond THEN SIGNAL SQLSTATE '45000'; END IF
	cond expr
}

type trig struct {
	name    string
	time    string // BEFORE | AFTER
	event   string // INSERT | UPDATE | DELETE
	follows bool   // with ref: FOLLOWS ref, else PRECEDES ref
	ref     string
	block   bool // body wrapped in BEGIN ... END
	body    []tstmt
}

func (t *trig) hasOld() bool { return t.event != "INSERT" }
func (t *trig) hasNew() bool { return t.event != "DELETE" }

func (t *trig) stmtSQL(s tstmt) string {
	switch x := s.(type) {
	case tSetNew:
		return "SET NEW." + x.col + " = " + x.e.sql()
	case tIfSetNew:
		return "IF " + x.cond.sql() + " THEN SET NEW." + x.col + " = " + x.e.sql() + "; END IF"
	case tAudit:
		o := []string{"NULL", "NULL", "NULL"}
		n := []string{"NULL", "NULL", "NULL"}
		if t.hasOld() {
			o = []string{"OLD.id", "OLD.a", "OLD.b"}
		}
		if t.hasNew() {
			n = []string{"NEW.id", "NEW.a", "NEW.b"}
		}
		return fmt.Sprintf("INSERT INTO audit(trg, o_id, o_a, o_b, n_id, n_a, n_b) VALUES ('%s', %s, %s)", t.name, strings.Join(o, ", "), strings.Join(n, ", "))
	case tCounter:
		return "UPDATE counters SET n = n + 1 WHERE k = 0"
	case tSignalIf:
		return "IF " + x.cond.sql() + " THEN SIGNAL SQLSTATE '45000'; END IF"
	}
	panic(fmt.Sprintf("stmtSQL: %T", s))
}

func (t *trig) createSQL() string {
	var sb strings.Builder
	fmt.Fprintf(&sb, "CREATE TRIGGER %s %s %s ON t FOR EACH ROW ", t.name, t.time, t.event)
	if t.ref != "" {
		if t.follows {
			sb.WriteString("FOLLOWS " + t.ref + " ")
		} else {
			sb.WriteString("PRECEDES " + t.ref + " ")
		}
	}
	if t.block {
		sb.WriteString("BEGIN ")
		for _, s := range t.body {
			sb.WriteString(t.stmtSQL(s) + "; ")
		}
		sb.WriteString("END")
	} else {
		sb.WriteString(t.stmtSQL(t.body[0]))
	}
	return sb.String()
}

// ---------------------------------------------------------------------------------------
// DML statements on t

type dml interface {
	sql() string
}

type dInsert struct {
	rows    []row
	noB     bool // column list (id, a): b takes its default
	replace bool
	odku    bool
	odkuCol string // ON DUPLICATE KEY UPDATE <col> = <odkuE over the existing row>
	odkuE   expr
}

// dInsertSelect: INSERT INTO t SELECT id + off, a, b FROM s WHERE <where>
type dInsertSelect struct {
	off   int64
	where expr
}

func (d dInsertSelect) sql() string {
	return fmt.Sprintf("INSERT INTO t SELECT id + %d, a, b FROM s WHERE %s", d.off, d.where.sql())
}

type dUpdate struct {
	sets  []tSetNew // col = expr over the same column and literals
	where expr
	order string // "", "ASC", "DESC" (ORDER BY id)
}

type dDelete struct {
	where expr
	order string
}

func (d dInsert) sql() string {
	var sb strings.Builder
	if d.replace {
		sb.WriteString("REPLACE INTO t")
	} else {
		sb.WriteString("INSERT INTO t")
	}
	if d.noB {
		sb.WriteString("(id, a)")
	}
	sb.WriteString(" VALUES ")
	for i, r := range d.rows {
		if i > 0 {
			sb.WriteString(", ")
		}
		if d.noB {
			fmt.Fprintf(&sb, "(%d, %s)", r.id, r.a)
		} else {
			fmt.Fprintf(&sb, "(%d, %s, %s)", r.id, r.a, r.b)
		}
	}
	if d.odku {
		sb.WriteString(" ON DUPLICATE KEY UPDATE " + d.odkuCol + " = " + d.odkuE.sql())
	}
	return sb.String()
}

func (d dUpdate) sql() string {
	var parts []string
	for _, s := range d.sets {
		parts = append(parts, s.col+" = "+s.e.sql())
	}
	q := "UPDATE t SET " + strings.Join(parts, ", ") + " WHERE " + d.where.sql()
	if d.order != "" {
		q += " ORDER BY id " + d.order
	}
	return q
}

func (d dDelete) sql() string {
	q := "DELETE FROM t WHERE " + d.where.sql()
	if d.order != "" {
		q += " ORDER BY id " + d.order
	}
	return q
}

// ---------------------------------------------------------------------------------------
// reference model

type auditEntry struct {
	trg  string
	o, n *row
}

func (e auditEntry) norm() []string {
	out := []string{"s:" + e.trg}
	for _, r := range []*row{e.o, e.n} {
		if r == nil {
			out = append(out, "N", "N", "N")
		} else {
			out = append(out, intV(r.id).norm(), r.a.norm(), r.b.norm())
		}
	}
	return out
}

// rowID is the id of the row an audit entry belongs to.
func (e auditEntry) rowID() int64 {
	if e.n != nil {
		return e.n.id
	}
	return e.o.id
}

type state struct {
	s       []row // source table of INSERT ... SELECT (never modified)
	t       map[int64]row
	audit   []auditEntry
	counter int64
}

func (s *state) clone() *state {
	c := &state{s: s.s, t: map[int64]row{}, audit: append([]auditEntry(nil), s.audit...), counter: s.counter}
	for k, v := range s.t {
		c.t[k] = v
	}
	return c
}

func (s *state) sortedIDs(desc bool) []int64 {
	var ids []int64
	for id := range s.t {
		ids = append(ids, id)
	}
	sort.Slice(ids, func(i, j int) bool {
		if desc {
			return ids[i] > ids[j]
		}
		return ids[i] < ids[j]
	})
	return ids
}

// model holds the triggers in their activation order per (time, event).
type model struct {
	order map[string][]*trig // key: time+" "+event
	st    *state
}

func newModel() *model {
	return &model{order: map[string][]*trig{}, st: &state{t: map[int64]row{}}}
}

// addTrigger places a new trigger: at the end of its (time, event) list, or directly
// after / before the referenced trigger (MySQL: FOLLOWS / PRECEDES).
func (m *model) addTrigger(t *trig) {
	k := t.time + " " + t.event
	l := m.order[k]
	if t.ref == "" {
		m.order[k] = append(l, t)
		return
	}
	for i, o := range l {
		if o.name == t.ref {
			pos := i
			if t.follows {
				pos = i + 1
			}
			nl := append([]*trig(nil), l[:pos]...)
			nl = append(nl, t)
			nl = append(nl, l[pos:]...)
			m.order[k] = nl
			return
		}
	}
	panic("addTrigger: reference " + t.ref + " not found (generator error)")
}

func (m *model) dropTrigger(name string) {
	for k, l := range m.order {
		for i, o := range l {
			if o.name == name {
				nl := append([]*trig(nil), l[:i]...)
				m.order[k] = append(nl, l[i+1:]...)
				return
			}
		}
	}
	panic("dropTrigger: " + name + " not found (generator error)")
}

// what happened during one statement (for region predicates and the class histogram)
type stmtInfo struct {
	failed        bool
	failedBy      string // "signal" | "dupkey"
	failedIn      string // for "signal": time of the trigger that raised it (BEFORE | AFTER)
	rowsAffected  int
	fired         int  // trigger activations
	sideEffects   int  // audit rows + counter increments produced (before a failure, if any)
	dupHit        bool // INSERT/REPLACE/ODKU met an existing key
	unchanged     bool // an UPDATE (or ODKU update) left a row exactly as it was
	maxPerRow     int  // max number of triggers fired for one row
	setNewApplied int
	ordered       bool // the order in which rows are processed is fixed by the statement
	newAudit      []auditEntry
}

type signalErr struct{}

// fire runs the triggers of (time, event) for one row. It returns false when a SIGNAL ended
// the statement.
func (m *model) fire(time, event string, o, n *row, info *stmtInfo) bool {
	perRow := 0
	for _, t := range m.order[time+" "+event] {
		info.fired++
		perRow++
		en := env{old: o, new: n}
		for _, s := range t.body {
			switch x := s.(type) {
			case tSetNew:
				n.set(x.col, eval(x.e, en))
				info.setNewApplied++
			case tIfSetNew:
				if isTrue(x.cond, en) {
					n.set(x.col, eval(x.e, en))
					info.setNewApplied++
				}
			case tAudit:
				e := auditEntry{trg: t.name}
				if o != nil {
					c := *o
					e.o = &c
				}
				if n != nil {
					c := *n
					e.n = &c
				}
				m.st.audit = append(m.st.audit, e)
				info.sideEffects++
			case tCounter:
				m.st.counter++
				info.sideEffects++
			case tSignalIf:
				if isTrue(x.cond, en) {
					info.failedBy = "signal"
					info.failedIn = time
					return false
				}
			}
		}
	}
	if perRow > info.maxPerRow {
		info.maxPerRow = perRow
	}
	return true
}

// apply runs one DML statement on the model. On failure the state is restored completely.
func (m *model) apply(d dml) stmtInfo {
	snap := m.st.clone()
	info := stmtInfo{}
	nAudit := len(m.st.audit)
	ok := m.run(d, &info)
	if !ok {
		info.failed = true
		m.st = snap
		return info
	}
	info.newAudit = append([]auditEntry(nil), m.st.audit[nAudit:]...)
	return info
}

func (m *model) run(d dml, info *stmtInfo) bool {
	st := m.st
	switch x := d.(type) {
	case dInsert:
		info.ordered = true
		for _, r := range x.rows {
			nr := r
			if x.noB {
				nr.b = intV(defaultB)
			}
			perRowBefore := info.fired
			if !m.fire("BEFORE", "INSERT", nil, &nr, info) {
				return false
			}
			existing, dup := st.t[nr.id]
			switch {
			case dup && x.odku:
				info.dupHit = true
				o := existing
				n := existing
				n.set(x.odkuCol, eval(x.odkuE, env{cur: &existing}))
				if !m.fire("BEFORE", "UPDATE", &o, &n, info) {
					return false
				}
				if n == o {
					info.unchanged = true
				}
				st.t[n.id] = n
				if !m.fire("AFTER", "UPDATE", &o, &n, info) {
					return false
				}
				info.rowsAffected++
			case dup && x.replace:
				info.dupHit = true
				// (only generated while t has no DELETE triggers)
				st.t[nr.id] = nr
				if !m.fire("AFTER", "INSERT", nil, &nr, info) {
					return false
				}
				info.rowsAffected++
			case dup:
				info.dupHit = true
				info.failedBy = "dupkey"
				return false
			default:
				st.t[nr.id] = nr
				if !m.fire("AFTER", "INSERT", nil, &nr, info) {
					return false
				}
				info.rowsAffected++
			}
			if n := info.fired - perRowBefore; n > info.maxPerRow {
				info.maxPerRow = n
			}
		}
	case dInsertSelect:
		info.ordered = false
		for _, r := range st.s {
			if !isTrue(x.where, env{cur: &r}) {
				continue
			}
			nr := row{id: r.id + x.off, a: r.a, b: r.b}
			before := info.fired
			if !m.fire("BEFORE", "INSERT", nil, &nr, info) {
				return false
			}
			if _, dup := st.t[nr.id]; dup {
				info.dupHit = true
				info.failedBy = "dupkey"
				return false
			}
			st.t[nr.id] = nr
			if !m.fire("AFTER", "INSERT", nil, &nr, info) {
				return false
			}
			info.rowsAffected++
			if k := info.fired - before; k > info.maxPerRow {
				info.maxPerRow = k
			}
		}
	case dUpdate:
		info.ordered = x.order != ""
		for _, id := range st.sortedIDs(x.order == "DESC") {
			o := st.t[id]
			if !isTrue(x.where, env{cur: &o}) {
				continue
			}
			n := o
			for _, s := range x.sets {
				n.set(s.col, eval(s.e, env{cur: &o}))
			}
			before := info.fired
			if !m.fire("BEFORE", "UPDATE", &o, &n, info) {
				return false
			}
			if n == o {
				info.unchanged = true
			}
			st.t[id] = n
			if !m.fire("AFTER", "UPDATE", &o, &n, info) {
				return false
			}
			info.rowsAffected++
			if k := info.fired - before; k > info.maxPerRow {
				info.maxPerRow = k
			}
		}
	case dDelete:
		info.ordered = x.order != ""
		for _, id := range st.sortedIDs(x.order == "DESC") {
			o := st.t[id]
			if !isTrue(x.where, env{cur: &o}) {
				continue
			}
			before := info.fired
			if !m.fire("BEFORE", "DELETE", &o, nil, info) {
				return false
			}
			delete(st.t, id)
			if !m.fire("AFTER", "DELETE", &o, nil, info) {
				return false
			}
			info.rowsAffected++
			if k := info.fired - before; k > info.maxPerRow {
				info.maxPerRow = k
			}
		}
	default:
		panic(fmt.Sprintf("run: %T", d))
	}
	return true
}
