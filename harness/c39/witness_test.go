package c39

import (
	"fmt"
	"strings"
	"testing"

	"github.com/dolthub/go-mysql-server/vh/internal/fx"
	"github.com/dolthub/go-mysql-server/vh/internal/kf"
	"github.com/dolthub/go-mysql-server/vh/internal/stats"
)

// Two more candidate findings that are confirmed here only (the main search never produces
// their inputs: it issues valid account statements and renames inside the current database).
const (
	kfRename = "C39-rename-ignores-db-qualifier"
	kfFuzzy  = "C39-grant-fuzzy-account-match"
)

type wstep struct {
	who string // "root" or "user@addr"
	sql string
	// mustFail: the statement is invalid (MySQL rejects it); if the engine rejects it too the
	// witness is not reproduced
	mustFail bool
}

type witness struct {
	id     string
	what   string
	steps  []wstep
	expect string // "allowed" | "denied" outcome required of the last step
	// sameDB: additionally, this database must look the same before and after the last step
	sameDB string
}

var witnesses = []witness{
	{id: kfDBRevoke, what: "a database-level REVOKE that empties the database level also drops the account's table grants in that database",
		steps: []wstep{
			{who: "root", sql: "CREATE USER w@localhost"}, {who: "root", sql: "GRANT SELECT ON d1.t1 TO w@localhost"}, {who: "root", sql: "GRANT INSERT ON d1.* TO w@localhost"},
			{who: "root", sql: "REVOKE INSERT ON d1.* FROM w@localhost"}, {who: "w@localhost", sql: "SELECT a FROM d1.t1"}},
		expect: "allowed"},
	{id: kfSuper, what: "an account holding SUPER passes every static privilege check, also for privileges revoked from it",
		steps: []wstep{
			{who: "root", sql: "CREATE USER w@localhost"}, {who: "root", sql: "GRANT ALL ON *.* TO w@localhost"}, {who: "root", sql: "REVOKE SELECT ON *.* FROM w@localhost"},
			{who: "w@localhost", sql: "SELECT a FROM d1.t1"}},
		expect: "denied"},
	{id: kfRevokeEvery, what: "REVOKE ALL PRIVILEGES, GRANT OPTION FROM user clears only the global level",
		steps: []wstep{
			{who: "root", sql: "CREATE USER w@localhost"}, {who: "root", sql: "GRANT SELECT ON d1.* TO w@localhost"}, {who: "root", sql: "REVOKE ALL PRIVILEGES, GRANT OPTION FROM w@localhost"},
			{who: "w@localhost", sql: "SELECT a FROM d1.t1"}},
		expect: "denied"},
	{id: kfCurDB, what: "DELETE FROM db.t also resolves the session's current database and is denied when that database is no longer accessible to the user",
		steps: []wstep{
			{who: "root", sql: "CREATE USER w@localhost"}, {who: "root", sql: "GRANT DELETE ON d1.* TO w@localhost"}, {who: "root", sql: "GRANT SELECT ON d2.* TO w@localhost"},
			{who: "w@localhost", sql: "USE d2"}, {who: "root", sql: "REVOKE SELECT ON d2.* FROM w@localhost"}, {who: "w@localhost", sql: "DELETE FROM d1.t1"}},
		expect: "allowed"},
	{id: kfCreateTbl, what: "CREATE TABLE is authorised at the database level only; a table-level CREATE grant is not honoured",
		steps: []wstep{
			{who: "root", sql: "CREATE USER w@localhost"}, {who: "root", sql: "GRANT CREATE ON d1.x TO w@localhost"}, {who: "root", sql: "DROP TABLE d1.x"},
			{who: "w@localhost", sql: "CREATE TABLE d1.x (a INT PRIMARY KEY, b INT)"}},
		expect: "allowed"},
	{id: kfRename, what: "RENAME TABLE db.t TO db.u checks privileges on db but renames inside the session's current database",
		steps: []wstep{
			{who: "root", sql: "CREATE USER w@localhost"}, {who: "root", sql: "GRANT ALL ON d1.* TO w@localhost"}, {who: "root", sql: "GRANT SELECT ON d2.* TO w@localhost"},
			{who: "w@localhost", sql: "USE d2"}, {who: "w@localhost", sql: "RENAME TABLE d1.t2 TO d1.y"}},
		expect: "allowed", sameDB: "d2"},
	{id: kfFuzzy, what: "GRANT ... TO an account that does not exist is applied to another account with the same user name instead of failing",
		steps: []wstep{
			{who: "root", sql: "CREATE USER 'w'@'%'"}, {who: "root", sql: "GRANT SELECT ON d1.* TO 'w'@'localhost'", mustFail: true},
			{who: "w@10.1.2.3", sql: "SELECT a FROM d1.t1"}},
		expect: "denied"},
}

// kfNilPersister belongs to property C10 (no statement crashes the engine) but was found while
// building this check and can only be re-confirmed here: on an engine built the documented way
// (sqle.New with IncludeRootAccount, no SetPersister call) every account statement panics in
// MySQLDb.Persist (nil persister) after it has taken effect.
const kfNilPersister = "C10-create-user-nil-persister"

func nilPersisterWitness(t *testing.T, st *stats.Collector) {
	st.Eval()
	f := fx.New(fx.Opts{Root: true, NoPersister: true, DBs: dbs})
	root := f.NewSession("root", "localhost", dbs[0])
	r := root.Exec("CREATE USER np@localhost")
	if r.Panic == nil {
		// success or an ordinary error both satisfy "returns a result or an error"
		t.Logf("%s: not reproduced (CREATE USER without a persister -> %s)", kfNilPersister, r)
		f.Close()
		return
	}
	// a recovered panic poisons the fixture: it is not used again
	st.NonTrivial(map[string]any{"finding": kfNilPersister, "witness": "CREATE USER np@localhost -> " + r.String()}, kfNilPersister)
	if kf.Suppress(st, kfNilPersister) {
		t.Logf("KNOWN %s: account statements panic when no persister was installed", kfNilPersister)
		return
	}
	t.Errorf("%s: sqle.New(.., IncludeRootAccount) without SetPersister, then CREATE USER np@localhost as root: panic %v\n%s", kfNilPersister, r.Panic, r.Stack)
}

// TestC39Known re-confirms the witness of every candidate finding. A witness that still
// shows the defect is tolerated only if the finding is listed as known.
func TestC39Known(t *testing.T) {
	st := stats.New("C39", "witness")
	defer st.Flush()
	nilPersisterWitness(t, st)
	for _, w := range witnesses {
		st.Eval()
		e := newEnv(t.Fatalf)
		sess := map[string]*fx.Sess{"root": e.root}
		var log []string
		var last *fx.Result
		before := ""
		rejected := false
		for i, s := range w.steps {
			ss := sess[s.who]
			if ss == nil {
				ua := strings.SplitN(s.who, "@", 2)
				ss = e.f.NewSession(ua[0], ua[1], dbs[0])
				ss.S.SetCurrentDatabase("")
				sess[s.who] = ss
			}
			if i == len(w.steps)-1 && w.sameDB != "" {
				before = e.snapDB(t.Fatalf, w.sameDB, true)
			}
			last = ss.Exec(s.sql)
			log = append(log, fmt.Sprintf("[%s] %s -> %s", s.who, s.sql, last))
			if last.Panic != nil {
				t.Fatalf("%s: panic\n%s\n%s", w.id, strings.Join(log, "\n"), last.Stack)
			}
			if i < len(w.steps)-1 && !last.OK() {
				if s.mustFail {
					rejected = true
					break
				}
				t.Fatalf("%s: witness set-up step failed\n%s", w.id, strings.Join(log, "\n"))
			}
		}
		if rejected {
			t.Logf("%s: not reproduced (the invalid statement is rejected: %s)", w.id, log[len(log)-1])
			e.f.Close()
			continue
		}
		got := "other"
		if last.OK() {
			got = "allowed"
		} else if deniedClass(last.Err) {
			got = "denied"
		}
		bad := got != w.expect
		detail := ""
		if !bad && w.sameDB != "" {
			if after := e.snapDB(t.Fatalf, w.sameDB, true); after != before {
				bad = true
				detail = fmt.Sprintf("\ndatabase %s changed:\nbefore:\n%safter:\n%s", w.sameDB, before, after)
			}
		}
		e.f.Close()
		if !bad {
			t.Logf("%s: not reproduced (required outcome %q observed)", w.id, w.expect)
			continue
		}
		st.NonTrivial(map[string]any{"finding": w.id, "witness": log}, w.id)
		if kf.Suppress(st, w.id) {
			t.Logf("KNOWN %s: %s", w.id, w.what)
			continue
		}
		t.Errorf("%s: %s\nrequired outcome of the last statement: %s, observed: %s%s\n%s", w.id, w.what, w.expect, got, detail, strings.Join(log, "\n"))
	}
}
