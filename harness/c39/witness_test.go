package c39

import (
	"fmt"
	"strings"
	"testing"

	"github.com/dolthub/go-mysql-server/vh/internal/fx"
	"github.com/dolthub/go-mysql-server/vh/internal/kf"
	"github.com/dolthub/go-mysql-server/vh/internal/stats"
)

// Two more candidate findings that are confirmed here only (the main search never produces
// their inputs: it issues valid account statements and renames inside the current database).
const (
	kfRename = "C39-rename-ignores-db-qualifier"
	kfFuzzy  = "C39-grant-fuzzy-account-match"
)

type wstep struct {
	who string // "root" or "user@addr"
	sql string
}

type witness struct {
	id     string
	what   string
	steps  []wstep
	expect string // "allowed" | "denied" outcome required of the last step
	// sameDB: additionally, this database must look the same before and after the last step
	sameDB string
}

var witnesses = []witness{
	{id: kfDBRevoke, what: "a database-level REVOKE that empties the database level also drops the account's table grants in that database",
		steps: []wstep{
			{"root", "CREATE USER w@localhost"}, {"root", "GRANT SELECT ON d1.t1 TO w@localhost"}, {"root", "GRANT INSERT ON d1.* TO w@localhost"},
			{"root", "REVOKE INSERT ON d1.* FROM w@localhost"}, {"w@localhost", "SELECT a FROM d1.t1"}},
		expect: "allowed"},
	{id: kfSuper, what: "an account holding SUPER passes every static privilege check, also for privileges revoked from it",
		steps: []wstep{
			{"root", "CREATE USER w@localhost"}, {"root", "GRANT ALL ON *.* TO w@localhost"}, {"root", "REVOKE SELECT ON *.* FROM w@localhost"},
			{"w@localhost", "SELECT a FROM d1.t1"}},
		expect: "denied"},
	{id: kfRevokeEvery, what: "REVOKE ALL PRIVILEGES, GRANT OPTION FROM user clears only the global level",
		steps: []wstep{
			{"root", "CREATE USER w@localhost"}, {"root", "GRANT SELECT ON d1.* TO w@localhost"}, {"root", "REVOKE ALL PRIVILEGES, GRANT OPTION FROM w@localhost"},
			{"w@localhost", "SELECT a FROM d1.t1"}},
		expect: "denied"},
	{id: kfCurDB, what: "DELETE FROM db.t also resolves the session's current database and is denied when that database is no longer accessible to the user",
		steps: []wstep{
			{"root", "CREATE USER w@localhost"}, {"root", "GRANT DELETE ON d1.* TO w@localhost"}, {"root", "GRANT SELECT ON d2.* TO w@localhost"},
			{"w@localhost", "USE d2"}, {"root", "REVOKE SELECT ON d2.* FROM w@localhost"}, {"w@localhost", "DELETE FROM d1.t1"}},
		expect: "allowed"},
	{id: kfCreateTbl, what: "CREATE TABLE is authorised at the database level only; a table-level CREATE grant is not honoured",
		steps: []wstep{
			{"root", "CREATE USER w@localhost"}, {"root", "GRANT CREATE ON d1.x TO w@localhost"}, {"root", "DROP TABLE d1.x"},
			{"w@localhost", "CREATE TABLE d1.x (a INT PRIMARY KEY, b INT)"}},
		expect: "allowed"},
	{id: kfRename, what: "RENAME TABLE db.t TO db.u checks privileges on db but renames inside the session's current database",
		steps: []wstep{
			{"root", "CREATE USER w@localhost"}, {"root", "GRANT ALL ON d1.* TO w@localhost"}, {"root", "GRANT SELECT ON d2.* TO w@localhost"},
			{"w@localhost", "USE d2"}, {"w@localhost", "RENAME TABLE d1.t2 TO d1.y"}},
		expect: "allowed", sameDB: "d2"},
	{id: kfFuzzy, what: "GRANT ... TO an account that does not exist is applied to another account with the same user name instead of failing",
		steps: []wstep{
			{"root", "CREATE USER 'w'@'%'"}, {"root", "GRANT SELECT ON d1.* TO 'w'@'localhost'"}, {"w@10.1.2.3", "SELECT a FROM d1.t1"}},
		expect: "denied"},
}

// TestC39Known re-confirms the witness of every candidate finding. A witness that still
// shows the defect is tolerated only if the finding is listed as known.
func TestC39Known(t *testing.T) {
	st := stats.New("C39", "witness")
	defer st.Flush()
	for _, w := range witnesses {
		st.Eval()
		e := newEnv(t.Fatalf)
		sess := map[string]*fx.Sess{"root": e.root}
		var log []string
		var last *fx.Result
		before := ""
		for i, s := range w.steps {
			ss := sess[s.who]
			if ss == nil {
				ua := strings.SplitN(s.who, "@", 2)
				ss = e.f.NewSession(ua[0], ua[1], dbs[0])
				ss.S.SetCurrentDatabase("")
				sess[s.who] = ss
			}
			if i == len(w.steps)-1 && w.sameDB != "" {
				before = e.snapDB(t.Fatalf, w.sameDB, true)
			}
			last = ss.Exec(s.sql)
			log = append(log, fmt.Sprintf("[%s] %s -> %s", s.who, s.sql, last))
			if last.Panic != nil {
				t.Fatalf("%s: panic\n%s\n%s", w.id, strings.Join(log, "\n"), last.Stack)
			}
			if i < len(w.steps)-1 && !last.OK() {
				t.Fatalf("%s: witness set-up step failed\n%s", w.id, strings.Join(log, "\n"))
			}
		}
		got := "other"
		if last.OK() {
			got = "allowed"
		} else if deniedClass(last.Err) {
			got = "denied"
		}
		bad := got != w.expect
		if w.id == kfFuzzy {
			// the GRANT itself may instead be rejected (MySQL does): then the probe is denied, fine
			bad = got == "allowed"
		}
		detail := ""
		if !bad && w.sameDB != "" {
			if after := e.snapDB(t.Fatalf, w.sameDB, true); after != before {
				bad = true
				detail = fmt.Sprintf("\ndatabase %s changed:\nbefore:\n%safter:\n%s", w.sameDB, before, after)
			}
		}
		e.f.Close()
		if !bad {
			t.Logf("%s: not reproduced (required outcome %q observed)", w.id, w.expect)
			continue
		}
		st.NonTrivial(map[string]any{"finding": w.id, "witness": log}, w.id)
		if kf.Suppress(st, w.id) {
			t.Logf("KNOWN %s: %s", w.id, w.what)
			continue
		}
		t.Errorf("%s: %s\nrequired outcome of the last statement: %s, observed: %s%s\n%s", w.id, w.what, w.expect, got, detail, strings.Join(log, "\n"))
	}
}
