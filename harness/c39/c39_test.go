// Package c39 checks property C39: with user accounts enabled, a statement is allowed for a
// user exactly when the privileges granted to that user and its active roles at the global,
// database, table or routine level include what the statement requires; a denied statement
// has no effect.
//
// Histories of account-management statements (internal/privmodel) are executed as root on a
// fresh engine; interleaved probe statements run on long-lived sessions whose client is the
// user under test. The oracle is the privilege model; the observable is "statement succeeded"
// versus "error of the privilege-denied class".
package c39

import (
	"errors"
	"fmt"
	"os"
	"strings"
	"testing"

	"github.com/dolthub/vitess/go/mysql"
	"pgregory.net/rapid"

	"github.com/dolthub/go-mysql-server/sql"
	"github.com/dolthub/go-mysql-server/sql/mysql_db"
	"github.com/dolthub/go-mysql-server/vh/internal/fx"
	"github.com/dolthub/go-mysql-server/vh/internal/kf"
	pm "github.com/dolthub/go-mysql-server/vh/internal/privmodel"
	"github.com/dolthub/go-mysql-server/vh/internal/stats"
)

// Candidate findings (see notes/C39.md). Their regions are excluded from the generator only
// while the lead lists them as known; otherwise the search runs into them and fails.
const (
	kfDBRevoke    = "C39-dbrevoke-drops-object-grants"
	kfSuper       = "C39-super-implies-all"
	kfRevokeEvery = "C39-revoke-everything-global-only"
	kfCurDB       = "C39-delete-resolves-current-db"
	kfCreateTbl   = "C39-create-table-ignores-table-grant"
)

var (
	dbs    = []string{"d1", "d2"}
	tables = []string{"t1", "t2", "x"}
	procs  = []string{"p1", "p2"}
	// probed privileges + two unprobed ones for variety
	privPool = []pm.Priv{pm.Select, pm.Insert, pm.Update, pm.Delete, pm.Create, pm.Drop, pm.Alter, pm.Index, pm.Execute,
		pm.Select, pm.Insert, pm.Update, pm.Delete, pm.CreateView, pm.References}
	userPool = []pm.Acct{{User: "u1", Host: "localhost"}, {User: "u1", Host: "%"}, {User: "u2", Host: "localhost"}, {User: "u3", Host: "%"}}
	rolePool = []pm.Acct{{User: "r1", Host: "%"}, {User: "r2", Host: "%"}}
	names    = []string{"u1", "u2", "u3"}
	addrs    = []string{"localhost", "localhost", "127.0.0.1", "10.1.2.3"}
)

const xDDL = "(a INT PRIMARY KEY, b INT)"

type env struct {
	f        *fx.Fixture
	root     *fx.Sess
	baseline map[string]string // per target database
}

func newEnv(fail func(string, ...any)) *env {
	f := fx.New(fx.Opts{Root: true, DBs: dbs})
	// integrators must install a persister before account statements run (enginetest does the same)
	f.Engine.Analyzer.Catalog.MySQLDb.SetPersister(&mysql_db.NoopPersister{})
	e := &env{f: f, root: f.NewSession("root", "localhost", "d1")}
	for _, d := range dbs {
		e.root.MustExec(fail,
			"CREATE TABLE "+d+".t1 "+xDDL, "CREATE TABLE "+d+".t2 "+xDDL, "CREATE TABLE "+d+".x "+xDDL,
			"INSERT INTO "+d+".t1 VALUES (1,10),(2,20)", "INSERT INTO "+d+".t2 VALUES (1,10),(2,20)",
			"CREATE PROCEDURE "+d+".p1() SELECT 1", "CREATE PROCEDURE "+d+".p2() SELECT 2")
	}
	e.baseline = map[string]string{}
	for _, d := range dbs {
		e.baseline[d] = e.snapshot(fail, d)
	}
	return e
}

// snapDB renders, as root, the tables of one database with rows and definitions.
func (e *env) snapDB(fail func(string, ...any), d string, deep bool) string {
	var sb strings.Builder
	r := e.root.Exec("SHOW TABLES FROM " + d)
	if !r.OK() {
		fail("snapshot: %s -> %s", r.SQL, r)
	}
	fmt.Fprintf(&sb, "%s: %s\n", d, r)
	if !deep {
		return sb.String()
	}
	for _, row := range r.Rows {
		t := fmt.Sprint(row[0])
		for _, q := range []string{"SELECT * FROM " + d + "." + t + " ORDER BY 1", "SHOW CREATE TABLE " + d + "." + t} {
			r := e.root.Exec(q)
			if !r.OK() {
				fail("snapshot: %s -> %s", q, r)
			}
			fmt.Fprintf(&sb, "  %s: %s\n", q, r)
		}
	}
	return sb.String()
}

// snapshot renders everything a probe aimed at database target could have changed: table
// lists of every database, rows and definitions of the tables of target ("" = all).
func (e *env) snapshot(fail func(string, ...any), target string) string {
	var sb strings.Builder
	for _, d := range dbs {
		sb.WriteString(e.snapDB(fail, d, target == "" || target == d))
	}
	return sb.String()
}

type need struct {
	p       pm.Priv
	db, obj string
	routine bool
}

func (n need) String() string {
	k := "table"
	if n.routine {
		k = "procedure"
	}
	return fmt.Sprintf("%s on %s %s.%s", n.p, k, n.db, n.obj)
}

type probe struct {
	kind    string
	db      string // database holding the object the statement writes
	sql     string
	setup   []string // root, before
	undo    []string // root, after a successful probe
	cleanup []string // root, always
	needs   []need
	maybe   []need // additionally required under the stricter reading of the manual (outcome unconstrained if only these are missing)
}

const rows = " VALUES (1,10),(2,20)"

// drawProbe builds a probe statement. curDB is the session's current database: objects in it
// may be named without qualifier.
func drawProbe(rt *rapid.T, curDB string, hint *need, excluded func(id string)) probe {
	kinds := []string{"select", "select", "insert", "update", "delete", "create", "drop", "alter", "index", "call", "call", "join", "subquery", "insert-select", "replace", "truncate", "rename"}
	db := rapid.SampledFrom(dbs).Draw(rt, "pdb")
	tbl := rapid.SampledFrom([]string{"t1", "t2"}).Draw(rt, "ptbl")
	proc := rapid.SampledFrom(procs).Draw(rt, "pproc")
	kind := rapid.SampledFrom(kinds).Draw(rt, "pkind")
	if hint != nil {
		// aim at (or next to) something the account holds
		db = hint.db
		if hint.routine {
			proc, kind = hint.obj, "call"
		} else {
			if hint.obj == "t1" || hint.obj == "t2" {
				tbl = hint.obj
			}
			byPriv := map[pm.Priv][]string{
				pm.Select: {"select", "join", "subquery", "insert-select"}, pm.Insert: {"insert", "insert-select", "replace", "rename"},
				pm.Update: {"update"}, pm.Delete: {"delete", "replace"}, pm.Create: {"create", "rename", "alter"},
				pm.Drop: {"drop", "truncate", "rename"}, pm.Alter: {"alter", "rename"}, pm.Index: {"index"}, pm.Execute: {"call"},
			}
			if ks := byPriv[hint.p]; len(ks) > 0 {
				kind = rapid.SampledFrom(ks).Draw(rt, "hkind")
			}
		}
	}
	if curDB == "" && kind == "delete" && kf.Listed(kfCurDB) || curDB != db && kind == "rename" && kf.Listed(kfRename) {
		// Regions of two findings (excluded only while they are listed, searched again after a fix):
		// kfCurDB — DELETE FROM db.t resolves the session's current database, so without a selected
		// database it fails with "database not found: " for every user including root;
		// kfRename — RENAME TABLE db.t TO db.x acts on the *current* database whatever the qualifiers
		// say (and fails with "no database selected" without one).
		// While listed, DELETE is probed with a database selected and RENAME only inside the current
		// database.
		if kind == "delete" {
			excluded(kfCurDB)
		} else {
			excluded(kfRename)
		}
		kind = map[string]string{"delete": "replace", "rename": "truncate"}[kind]
	}
	odb := rapid.SampledFrom(dbs).Draw(rt, "odb") // database of the second table of two-table probes
	otbl := rapid.SampledFrom([]string{"t1", "t2"}).Draw(rt, "otbl")
	if odb == db && otbl == tbl {
		otbl = map[string]string{"t1": "t2", "t2": "t1"}[tbl]
	}
	unq := rapid.Bool().Draw(rt, "unqualified")
	name := func(d, o string) string {
		if unq && d == curDB {
			return o
		}
		return d + "." + o
	}
	T, O, X := name(db, tbl), name(odb, otbl), name(db, "x")
	rT, rX := db+"."+tbl, db+".x" // root always qualifies
	recreateX := []string{"DROP TABLE IF EXISTS " + rX, "CREATE TABLE " + rX + " " + xDDL}
	p := probe{kind: kind, db: db}
	switch kind {
	case "select":
		p.sql = rapid.SampledFrom([]string{"SELECT a FROM " + T, "SELECT * FROM " + T, "SELECT COUNT(*) FROM " + T + " WHERE b > 0"}).Draw(rt, "form")
		p.needs = []need{{pm.Select, db, tbl, false}}
	case "insert":
		p.sql = rapid.SampledFrom([]string{"INSERT INTO " + T + " VALUES (100, 0)", "INSERT INTO " + T + " (a, b) VALUES (100, 0)"}).Draw(rt, "form")
		p.needs = []need{{pm.Insert, db, tbl, false}}
		p.undo = []string{"DELETE FROM " + rT + " WHERE a >= 100"}
	case "update":
		p.sql = "UPDATE " + T + " SET b = 7"
		p.needs = []need{{pm.Update, db, tbl, false}}
		p.undo = []string{"UPDATE " + rT + " SET b = a * 10"}
	case "delete":
		p.sql = "DELETE FROM " + T
		p.needs = []need{{pm.Delete, db, tbl, false}}
		p.undo = []string{"INSERT INTO " + rT + rows}
	case "truncate":
		p.sql = "TRUNCATE TABLE " + T
		p.needs = []need{{pm.Drop, db, tbl, false}}
		p.undo = []string{"INSERT INTO " + rT + rows}
	case "replace":
		p.sql = "REPLACE INTO " + T + " VALUES (1, 10)"
		p.needs = []need{{pm.Insert, db, tbl, false}, {pm.Delete, db, tbl, false}}
	case "create":
		p.setup = []string{"DROP TABLE " + rX}
		p.sql = "CREATE TABLE " + X + " " + xDDL
		p.needs = []need{{pm.Create, db, "x", false}}
		p.cleanup = recreateX
	case "drop":
		p.sql = "DROP TABLE " + X
		p.needs = []need{{pm.Drop, db, "x", false}}
		p.cleanup = recreateX
	case "rename":
		p.setup = []string{"DROP TABLE " + rX}
		p.sql = "RENAME TABLE " + T + " TO " + X
		p.needs = []need{{pm.Alter, db, tbl, false}, {pm.Drop, db, tbl, false}, {pm.Create, db, "x", false}, {pm.Insert, db, "x", false}}
		p.undo = []string{"USE " + db, "RENAME TABLE " + rX + " TO " + rT}
		p.cleanup = recreateX
	case "alter":
		p.sql = "ALTER TABLE " + T + " ADD COLUMN c INT"
		p.needs = []need{{pm.Alter, db, tbl, false}}
		// the manual's ALTER TABLE page additionally asks for CREATE and INSERT on the table, the
		// server itself only checks ALTER for ADD COLUMN: both readings are accepted
		p.maybe = []need{{pm.Create, db, tbl, false}, {pm.Insert, db, tbl, false}}
		p.undo = []string{"ALTER TABLE " + rT + " DROP COLUMN c"}
	case "index":
		p.sql = "CREATE INDEX ix ON " + T + " (b)"
		p.needs = []need{{pm.Index, db, tbl, false}}
		p.undo = []string{"DROP INDEX ix ON " + rT}
	case "call":
		p.sql = "CALL " + name(db, proc) + "()"
		p.needs = []need{{pm.Execute, db, proc, true}}
	case "join":
		p.sql = "SELECT l.a FROM " + T + " l JOIN " + O + " r ON l.a = r.a"
		p.needs = []need{{pm.Select, db, tbl, false}, {pm.Select, odb, otbl, false}}
	case "subquery":
		p.sql = "SELECT a FROM " + T + " WHERE a IN (SELECT a FROM " + O + ")"
		p.needs = []need{{pm.Select, db, tbl, false}, {pm.Select, odb, otbl, false}}
	case "insert-select":
		p.sql = "INSERT INTO " + T + " SELECT a + 100, b FROM " + O
		p.needs = []need{{pm.Insert, db, tbl, false}, {pm.Select, odb, otbl, false}}
		p.undo = []string{"DELETE FROM " + rT + " WHERE a >= 100"}
	}
	return p
}

func deniedClass(err error) bool {
	if err == nil {
		return false
	}
	if sql.ErrPrivilegeCheckFailed.Is(err) || sql.ErrDatabaseAccessDeniedForUser.Is(err) || sql.ErrTableAccessDeniedForUser.Is(err) {
		return true
	}
	var se *mysql.SQLError
	if errors.As(err, &se) && se.Num == mysql.ERAccessDeniedError {
		return true
	}
	return false
}

type sessKey struct{ user, addr string }

// userSess is a client session of a user; cur is its current database ("" = none selected),
// which only ever changes through a USE statement issued by the user.
type userSess struct {
	s   *fx.Sess
	cur string
}

type caseState struct {
	rt        *rapid.T
	st        *stats.Collector
	e         *env
	m         *pm.Model
	sess      map[sessKey]*userSess
	history   []string
	allowed   int
	denied    int
	roleMed   bool // an allowed probe whose privilege was held only through a role
	crossLvl  bool // a REVOKE hit a level different from the one where the privilege is (still) held
	levelsHit map[pm.Level]bool
}

func (c *caseState) fail(format string, args ...any) {
	c.rt.Helper()
	msg := fmt.Sprintf(format, args...)
	c.rt.Fatalf("%s\nhistory:\n  %s\nmodel:\n%s", msg, strings.Join(c.history, ";\n  "), c.m.Describe())
}

func (c *caseState) rootExec(qs ...string) {
	for _, q := range qs {
		r := c.e.root.Exec(q)
		if !r.OK() {
			c.fail("root statement failed (harness): %s -> %s\n%s", q, r, r.Stack)
		}
	}
}

// admin draws and applies one account-management statement.
func (c *caseState) admin(cfg *pm.Config) {
	op, ok := pm.Draw(c.rt, c.m, cfg)
	if ok {
		c.apply(op)
	}
}

func (c *caseState) adminKind(cfg *pm.Config, k pm.Kind) {
	op, ok := pm.DrawKind(c.rt, c.m, cfg, k)
	if ok {
		c.apply(op)
	}
}

func (c *caseState) apply(op pm.Op) {
	if op.Kind == pm.KRevoke {
		// "grant at one level, revoke at another": the revoked privilege is held by the target at
		// a different level
		if a := c.m.Get(op.Target); a != nil {
			for _, p := range op.Privs {
				if p == pm.All {
					continue
				}
				for l, held := range map[pm.Level]bool{
					pm.LGlobal: a.Global[p], pm.LDB: anyDB(a, p), pm.LTable: anyObj(a.Tbl, p), pm.LRoutine: anyObj(a.Rtn, p)} {
					if held && l != op.Level {
						c.crossLvl = true
					}
				}
			}
		}
	}
	q := op.SQL()
	c.history = append(c.history, q)
	r := c.e.root.Exec(q)
	if !r.OK() {
		c.fail("valid account statement failed as root: %s -> %s\n%s", q, r, r.Stack)
	}
	c.m.Apply(op)
	c.st.Class("op:" + op.Kind.String())
	if op.Kind == pm.KGrant || op.Kind == pm.KRevoke {
		c.st.Class("op-level:" + op.Level.String())
	}
}

func anyDB(a *pm.Account, p pm.Priv) bool {
	for _, s := range a.DB {
		if s[p] {
			return true
		}
	}
	return false
}

func anyObj(m map[pm.Obj]pm.Set, p pm.Priv) bool {
	for _, s := range m {
		if s[p] {
			return true
		}
	}
	return false
}

// hintFor picks something the account (or one of its roles) holds, as a target for a probe.
func hintFor(rt *rapid.T, m *pm.Model, a *pm.Account) *need {
	var cands []need
	for _, src := range append([]*pm.Account{a}, m.RolesOf(a.Acct)...) {
		for _, d := range dbs {
			for _, p := range privPool[:9] {
				if src.Global[p] || src.DB[d][p] {
					cands = append(cands, need{p, d, "", false})
				}
				for _, t := range tables {
					if src.Tbl[pm.Obj{DB: d, Name: t}][p] {
						cands = append(cands, need{p, d, t, false})
					}
				}
			}
			for _, pr := range procs {
				if src.Rtn[pm.Obj{DB: d, Name: pr}][pm.Execute] {
					cands = append(cands, need{pm.Execute, d, pr, true})
				}
			}
		}
	}
	if len(cands) == 0 {
		return nil
	}
	h := rapid.SampledFrom(cands).Draw(rt, "hint")
	if h.p == pm.Execute && !h.routine {
		h.routine, h.obj = true, rapid.SampledFrom(procs).Draw(rt, "hproc")
	} else if h.obj == "" {
		h.obj = rapid.SampledFrom(tables).Draw(rt, "htbl")
	}
	return &h
}

func (c *caseState) holds(a *pm.Account, n need) []pm.Holding {
	if n.routine {
		return c.m.RoutineHoldings(a, n.p, n.db, n.obj)
	}
	return c.m.TableHoldings(a, n.p, n.db, n.obj)
}

// probe runs one probe statement on a user session and compares with the model.
func (c *caseState) probe() {
	rt := c.rt
	user := rapid.SampledFrom(names).Draw(rt, "suser")
	addr := rapid.SampledFrom(addrs).Draw(rt, "saddr")
	if rapid.IntRange(0, 9).Draw(rt, "privileged") < 7 {
		// prefer a session whose account holds something (own or through a role)
		var cands []sessKey
		for _, n := range names {
			for _, ad := range []string{"localhost", "127.0.0.1", "10.1.2.3"} {
				if a := c.m.Resolve(n, ad); a != nil && (c.m.Accessible(a, dbs[0]) || c.m.Accessible(a, dbs[1])) {
					cands = append(cands, sessKey{n, ad})
				}
			}
		}
		if len(cands) > 0 {
			k := rapid.SampledFrom(cands).Draw(rt, "psess")
			user, addr = k.user, k.addr
		}
	}
	k := sessKey{user, addr}
	us := c.sess[k]
	if us == nil || rapid.IntRange(0, 7).Draw(rt, "fresh") == 0 {
		// mostly long-lived sessions (they cache the privilege set), sometimes a fresh one
		us = c.newSess(user, addr)
		c.sess[k] = us
	}
	acct := c.m.Resolve(user, addr)
	if rapid.IntRange(0, 3).Draw(rt, "use") == 0 {
		c.use(us, acct, user, addr)
	}
	// region of kfCurDB: DELETE while the session's current database is no longer accessible
	curLost := us.cur != "" && acct != nil && !c.m.Accessible(acct, us.cur)
	s, cur := us.s, us.cur
	var hint *need
	if acct != nil && rapid.IntRange(0, 9).Draw(rt, "aim") < 7 {
		hint = hintFor(rt, c.m, acct)
	}
	p := drawProbe(rt, cur, hint, c.st.Excluded)

	// expectation
	expAllowed, strict := acct != nil, true
	var why []string
	onlyRole := false
	if acct != nil {
		for _, n := range p.needs {
			hs := c.holds(acct, n)
			if len(hs) == 0 {
				expAllowed = false
				why = append(why, "lacks "+n.String())
				continue
			}
			all := true
			for _, h := range hs {
				all = all && h.Role
				c.levelsHit[h.Level] = true
			}
			onlyRole = onlyRole || all
		}
		if expAllowed {
			for _, n := range p.maybe {
				if len(c.holds(acct, n)) == 0 {
					strict = false // either outcome conforms to a documented reading
				}
			}
		}
	} else {
		why = append(why, "no account matches the session")
	}

	// region of kfCreateTbl: CREATE on the new table is held at the table level only
	createOnlyTable := false
	if acct != nil {
		for _, n := range p.needs {
			if hs := c.holds(acct, n); n.p == pm.Create && len(hs) > 0 {
				only := true
				for _, h := range hs {
					only = only && h.Level == pm.LTable
				}
				createOnlyTable = createOnlyTable || only
			}
		}
	}
	if createOnlyTable && expAllowed && kf.Listed(kfCreateTbl) {
		c.st.Excluded(kfCreateTbl)
		return
	}
	curLost = curLost && p.kind == "delete"
	if curLost && expAllowed && kf.Listed(kfCurDB) {
		c.st.Excluded(kfCurDB)
		return
	}

	c.rootExec(p.setup...)
	base := c.e.baseline[p.db]
	pre := base
	if len(p.setup) > 0 {
		pre = c.e.snapshot(c.fail, p.db)
	}
	r := s.Exec(p.sql)
	desc := fmt.Sprintf("probe [%s@%s db=%s as %v] %s", user, addr, cur, acctName(acct), p.sql)
	c.history = append(c.history, "-- "+desc+" -> "+r.String())
	if r.Panic != nil || r.TimedOut {
		c.fail("%s: %s\n%s", desc, r, r.Stack)
	}
	obsDenied := deniedClass(r.Err)
	verified := false // state already known to equal the baseline
	switch {
	case obsDenied:
		c.denied++
		post := c.e.snapshot(c.fail, p.db)
		if post != pre {
			c.fail("%s was denied but had an effect:\nbefore:\n%s\nafter:\n%s", desc, pre, post)
		}
		verified = len(p.setup) == 0 && len(p.cleanup) == 0
		if expAllowed && strict {
			if c.knownDBRevoke(acct, p) && kf.Suppress(c.st, kfDBRevoke) {
				break
			}
			if curLost && kf.Suppress(c.st, kfCurDB) {
				break
			}
			if createOnlyTable && kf.Suppress(c.st, kfCreateTbl) {
				break
			}
			c.fail("%s: DENIED (%v) but the model allows it: every required privilege is held (%v)", desc, r.Err, p.needs)
		}
	case r.OK():
		c.allowed++
		if !expAllowed {
			if acct != nil && c.m.HasSuper(acct) && kf.Suppress(c.st, kfSuper) {
				break
			}
			if acct != nil && c.taintedRevokeEverything(acct) && kf.Suppress(c.st, kfRevokeEvery) {
				break
			}
			c.fail("%s: ALLOWED but the model denies it: %s", desc, strings.Join(why, "; "))
		}
		if onlyRole {
			c.roleMed = true
		}
		c.rootExec(p.undo...)
	default:
		// neither a privilege error nor success: the probes are built to succeed when permitted
		if expAllowed {
			c.fail("%s: permitted statement failed with a non-privilege error: %v", desc, r.Err)
		}
		c.fail("%s: statement that must be denied failed with a non-privilege error instead: %v (%s)", desc, r.Err, strings.Join(why, "; "))
	}
	c.rootExec(p.cleanup...)
	if !verified {
		if now := c.e.snapshot(c.fail, p.db); now != base {
			c.fail("%s: state not restored after the probe (harness) :\nbaseline:\n%s\nnow:\n%s", desc, base, now)
		}
	}
	c.st.Class("probe:" + p.kind)
	switch {
	case obsDenied:
		c.st.Class("outcome:denied")
	default:
		c.st.Class("outcome:allowed")
	}
	if !strict {
		c.st.Class("outcome:either-reading")
	}
}

func (c *caseState) newSess(user, addr string) *userSess {
	s := c.e.f.NewSession(user, addr, dbs[0])
	s.S.SetCurrentDatabase("") // a new connection has no database selected
	return &userSess{s: s}
}

// use issues USE <db> on the session: permitted iff the account has some privilege for the
// database or for an object within it.
func (c *caseState) use(us *userSess, acct *pm.Account, user, addr string) {
	d := rapid.SampledFrom(dbs).Draw(c.rt, "usedb")
	r := us.s.Exec("USE " + d)
	desc := fmt.Sprintf("probe [%s@%s db=%s as %v] USE %s", user, addr, us.cur, acctName(acct), d)
	c.history = append(c.history, "-- "+desc+" -> "+r.String())
	if r.Panic != nil || r.TimedOut {
		c.fail("%s: %s\n%s", desc, r, r.Stack)
	}
	exp := acct != nil && c.m.Accessible(acct, d)
	certain := acct == nil || exp || !c.m.UsedGrantOption(acct)
	switch {
	case r.OK():
		us.cur = d
		if !exp && certain {
			c.fail("%s: ALLOWED but the account has no privilege for the database or any object in it", desc)
		}
	case deniedClass(r.Err):
		if exp {
			if c.accessOnlyViaTainted(acct, d) && kf.Suppress(c.st, kfDBRevoke) {
				break
			}
			c.fail("%s: DENIED (%v) but the account holds a privilege for the database or an object in it", desc, r.Err)
		}
	default:
		c.fail("%s: unexpected error %v", desc, r.Err)
	}
	c.st.Class("probe:use")
}

// accessOnlyViaTainted: signature of kfDBRevoke for USE — the database is accessible only
// through table/routine grants of a holder whose database level was emptied by a REVOKE.
func (c *caseState) accessOnlyViaTainted(a *pm.Account, db string) bool {
	tainted := false
	for _, src := range append([]*pm.Account{a}, c.m.RolesOf(a.Acct)...) {
		if len(src.Global) > 0 || len(src.DB[db]) > 0 {
			return false
		}
		if src.HasObjGrants(db) {
			if !src.TaintDB[db] {
				return false
			}
			tainted = true
		}
	}
	return tainted
}

func acctName(a *pm.Account) string {
	if a == nil {
		return "<none>"
	}
	return a.Acct.String()
}

// knownDBRevoke is the signature of kfDBRevoke: every privilege the engine lost is one that
// the model holds only at table/routine level inside a database on which a database-level
// REVOKE emptied the database level of the holder.
func (c *caseState) knownDBRevoke(a *pm.Account, p probe) bool {
	explained := false
	for _, n := range p.needs {
		viaTainted, viaOther := false, false
		for _, h := range c.holds(a, n) {
			src := c.m.Get(h.Via)
			if (h.Level == pm.LTable || h.Level == pm.LRoutine) && src.TaintDB[n.db] {
				viaTainted = true
			} else {
				viaOther = true
			}
		}
		if viaTainted && !viaOther {
			explained = true
		}
	}
	return explained
}

func (c *caseState) taintedRevokeEverything(a *pm.Account) bool {
	for _, src := range append([]*pm.Account{a}, c.m.RolesOf(a.Acct)...) {
		if src.TaintRevAll {
			return true
		}
	}
	return false
}

func newConfig(st *stats.Collector) *pm.Config {
	return &pm.Config{
		Users: userPool, Roles: rolePool, DBs: dbs, Tables: tables, Procs: procs, Privs: privPool, Options: true,
		Exclude: func(m *pm.Model, o pm.Op) string {
			switch {
			case kf.Listed(kfDBRevoke) && m.DBRevokeEmptiesWithObjGrants(o):
				return kfDBRevoke
			case kf.Listed(kfSuper) && m.PartialGlobalRevokeUnderSuper(o):
				return kfSuper
			case kf.Listed(kfRevokeEvery) && m.RevokeEverythingWithNonGlobal(o):
				return kfRevokeEvery
			}
			return ""
		},
		Excluded: func(id string) { st.Excluded(id) },
	}
}

func TestC39(t *testing.T) {
	st := stats.New("C39", "")
	defer st.Flush()
	cfg := newConfig(st)
	maxOps := 40
	if os.Getenv("VERIF_TIER") == "thorough" {
		maxOps = 70
	}
	rapid.Check(t, func(rt *rapid.T) {
		st.Eval()
		c := &caseState{rt: rt, st: st, m: pm.New(), sess: map[sessKey]*userSess{}, levelsHit: map[pm.Level]bool{}}
		c.e = newEnv(rt.Fatalf)
		defer c.e.f.Close()
		// prelude: some accounts to work with (the main loop creates and drops more)
		for _, k := range []pm.Kind{pm.KCreateUser, pm.KCreateUser, pm.KCreateRole, pm.KGrantRole} {
			if rapid.IntRange(0, 3).Draw(rt, "prelude") > 0 && pm.Applicable(c.m, cfg, k) {
				c.adminKind(cfg, k)
			}
		}
		n := rapid.IntRange(8, maxOps).Draw(rt, "steps")
		for i := 0; i < n; i++ {
			if len(c.m.Users()) > 0 && rapid.IntRange(0, 9).Draw(rt, "what") < 3 {
				c.probe()
			} else {
				c.admin(cfg)
			}
		}
		// closing battery: every history ends with probes against the final state
		if len(c.m.Accts) > 0 {
			for i := 0; i < 4; i++ {
				c.probe()
			}
		}
		if c.allowed > 0 {
			st.Class("case:has-allowed")
		}
		if c.roleMed {
			st.Class("case:role-mediated-allow")
		}
		if c.crossLvl {
			st.Class("case:cross-level-revoke")
		}
		if c.allowed > 0 && c.denied > 0 && c.roleMed && c.crossLvl {
			st.NonTrivial(map[string]any{"history": c.history}, strings.Join(c.history, "\n"))
		}
	})
}
