package c01

import (
	"fmt"
	"hash/fnv"
	"os"
	"regexp"
	"sort"
	"strings"
	"testing"

	"github.com/dolthub/go-mysql-server/sql"
	"github.com/dolthub/go-mysql-server/sql/memo"
	"github.com/dolthub/go-mysql-server/vh/internal/fx"
	"github.com/dolthub/go-mysql-server/vh/internal/gen"
	"github.com/dolthub/go-mysql-server/vh/internal/ref"
	"github.com/dolthub/go-mysql-server/vh/internal/stats"
	"pgregory.net/rapid"
)

// hashCoster assigns every physical alternative a pseudo-random but deterministic cost
// derived from (salt, operator type, operands), so that across salts every alternative the
// optimizer itself considers executable becomes the chosen plan for some salt.
type hashCoster struct{ salt uint64 }

func (c hashCoster) EstimateCost(ctx *sql.Context, r memo.RelExpr, _ sql.StatsProvider) (float64, error) {
	h := fnv.New64a()
	fmt.Fprintf(h, "%d|%T|%s", c.salt, r, r)
	return 1 + float64(h.Sum64()%9973), nil
}

var (
	reIDs  = regexp.MustCompile(`(tableId|colSet): [^\n]*\n`)
	reOps  = regexp.MustCompile(`\b(LeftOuterHashJoinExcludeNulls|LeftOuterJoinExcludingNulls|LeftOuterHashJoin|LeftOuterMergeJoin|LeftOuterLookupJoin|LeftOuterRangeHeapJoin|LeftOuterJoin|AntiJoinIncludingNulls|AntiHashJoinIncludingNulls|AntiLookupJoinIncludingNulls|AntiMergeJoinIncludingNulls|AntiHashJoin|AntiLookupJoin|AntiMergeJoin|AntiJoin|SemiHashJoin|SemiLookupJoin|SemiMergeJoin|SemiJoin|CrossHashJoin|CrossJoin|RangeHeapJoin|LookupJoin|HashJoin|MergeJoin|InnerJoin|FullOuterJoin|LateralCrossJoin|LateralInnerJoin|LateralLeftJoin)\b`)
	reLine = regexp.MustCompile(`(?m)^[ │├└─]*`)
)

func planShape(p string) string { return reIDs.ReplaceAllString(p, "") }

func planOps(p string) []string {
	seen := map[string]bool{}
	for _, l := range strings.Split(p, "\n") {
		l = reLine.ReplaceAllString(l, "")
		if m := reOps.FindString(l); m != "" && strings.HasPrefix(l, m) {
			seen[m] = true
		}
	}
	out := make([]string, 0, len(seen))
	for k := range seen {
		out = append(out, k)
	}
	sort.Strings(out)
	return out
}

type config struct {
	name    string
	coster  memo.Coster
	hint    string
	noKeys  bool
	noMerge bool
}

func hints(rt *rapid.T, q *gen.Select) string {
	var al []string
	for _, f := range q.From {
		al = append(al, f.Alias)
	}
	var hs []string
	n := rapid.IntRange(1, 2).Draw(rt, "nhints")
	for i := 0; i < n; i++ {
		switch rapid.IntRange(0, 7).Draw(rt, "hint") {
		case 0:
			p := rapid.Permutation(al).Draw(rt, "jo")
			hs = append(hs, "JOIN_ORDER("+strings.Join(p, ",")+")")
		case 1, 2, 3, 4:
			if len(al) < 2 {
				continue
			}
			a := rapid.IntRange(0, len(al)-1).Draw(rt, "ha")
			b := rapid.IntRange(0, len(al)-2).Draw(rt, "hb")
			if b >= a {
				b++
			}
			op := rapid.SampledFrom([]string{"HASH_JOIN", "MERGE_JOIN", "LOOKUP_JOIN", "INNER_JOIN"}).Draw(rt, "hop")
			hs = append(hs, fmt.Sprintf("%s(%s,%s)", op, al[a], al[b]))
		case 5:
			hs = append(hs, "NO_MERGE_JOIN")
		case 6:
			hs = append(hs, "LEFT_DEEP")
		case 7:
			hs = append(hs, "JOIN_FIXED_ORDER")
		}
	}
	if len(hs) == 0 {
		return ""
	}
	return "/*+ " + strings.Join(hs, " ") + " */"
}

func TestC01(t *testing.T) {
	st := stats.New("C01", "")
	defer st.Flush()
	thorough := os.Getenv("VERIF_TIER") == "thorough"
	maxRows, nCfg := 8, 6
	if thorough {
		maxRows, nCfg = 16, 14
	}
	rapid.Check(t, func(rt *rapid.T) {
		st.Eval()
		schema := gen.GenSchema(rt, gen.SchemaOpts{MinTables: 2, MaxTables: 3, MaxRows: maxRows, Keys: true, ForcePK: true})
		g := gen.NewG(rt, schema)
		g.MinJoin, g.MaxJoin, g.RangeJoins, g.NoSetOp = 2, 3, true, true
		if thorough {
			g.MaxJoin = 4
		}
		q := g.Select()

		cfgs := []config{{name: "default"}}
		for i := 1; i < nCfg; i++ {
			switch sel := rapid.IntRange(0, 9).Draw(rt, "cfgkind"); {
			case sel <= 5:
				salt := rapid.Uint64().Draw(rt, "salt")
				cfgs = append(cfgs, config{name: fmt.Sprintf("coster(%d)", salt), coster: hashCoster{salt}})
			case sel <= 7:
				h := hints(rt, q)
				cfgs = append(cfgs, config{name: "hint " + h, hint: h})
			case sel == 8:
				cfgs = append(cfgs, config{name: "disable_merge_join", noMerge: true})
			default:
				cfgs = append(cfgs, config{name: "index-free twin", noKeys: true})
			}
		}

		type outcome struct {
			cfg  config
			res  *fx.Result
			rows [][]string
			plan string
			sql  string
		}
		var outs []outcome
		for _, c := range cfgs {
			f := fx.New(fx.Opts{Coster: c.coster})
			s := f.NewSession("", "", "")
			s.MustExec(rt.Fatalf, schema.DDL(!c.noKeys)...)
			if c.noMerge {
				s.MustExec(rt.Fatalf, "SET @@disable_merge_join = 1")
			}
			q.Hint = c.hint
			text := q.SQL()
			q.Hint = ""
			r := s.Exec(text)
			o := outcome{cfg: c, res: r, sql: text, plan: s.Plan(text)}
			if r.OK() {
				o.rows = fx.NormRows(r.Schema, r.Rows)
			}
			outs = append(outs, o)
			f.Close()
		}
		base := outs[0]
		ordered := len(q.OrderBy) > 0
		same := func(a, b outcome) bool {
			if a.res.OK() != b.res.OK() {
				return false
			}
			if !a.res.OK() {
				return a.res.Panic == nil && b.res.Panic == nil && !a.res.TimedOut && !b.res.TimedOut
			}
			if ordered {
				return fx.SeqEqual(a.rows, b.rows)
			}
			return fx.MultisetEqual(a.rows, b.rows)
		}
		for _, o := range outs[1:] {
			if same(base, o) {
				continue
			}
			// name the side that disagrees with the SQL definition (report only)
			ev := &ref.Evaluator{}
			want := ref.Norm(ev.Rows(q))
			rt.Fatalf("results depend on the physical plan\nschema: %s\nquery: %s\n[%s] -> %s\n[%s] -> %s\nreference evaluator: %s\nplan A:\n%s\nplan B:\n%s",
				schema.Describe(), o.sql, base.cfg.name, base.res, o.cfg.name, o.res, fx.ShowSeq(want), base.plan, o.plan)
		}
		shapes := map[string]bool{}
		for _, o := range outs {
			if o.plan != "" {
				shapes[planShape(o.plan)] = true
				for _, op := range planOps(o.plan) {
					st.Class("op:" + op)
				}
			}
		}
		st.Class(fmt.Sprintf("distinct-plans:%d", len(shapes)))
		for _, l := range g.L.Sorted() {
			st.Class(l)
		}
		for k, n := range g.Excl {
			st.ClassN("excluded:"+k, n)
			for i := 0; i < n; i++ {
				st.Excluded(k)
			}
		}
		if !base.res.OK() {
			st.Class("all-error")
			return
		}
		if len(shapes) >= 2 && len(base.rows) > 0 {
			st.NonTrivial(map[string]any{"schema": schema.Describe(), "query": base.sql, "plans": len(shapes), "rows": len(base.rows)}, schema.Describe(), base.sql)
		}
	})
}

func TestReplayC01(t *testing.T) {
	st := stats.New("C01", "replay")
	defer st.Flush()
	fx.ReplayDir(t, st)
}
