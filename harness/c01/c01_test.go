// Package c01 checks property C01: the rows a read-only query returns do not depend on the
// physical plan the optimizer picks.
//
// One generated statement is executed under K configurations that steer the memo to different
// alternatives (seeded hash coster through the public analyzer.Analyzer.Coster field, optimizer
// hint comments, @@disable_merge_join, an index-free copy of the schema); all executions must
// return the same normalised multiset (the same sequence under the generated, total ORDER BY).
package c01

import (
	"fmt"
	"hash/fnv"
	"os"
	"regexp"
	"sort"
	"strings"
	"testing"

	"github.com/dolthub/go-mysql-server/sql"
	"github.com/dolthub/go-mysql-server/sql/memo"
	"github.com/dolthub/go-mysql-server/sql/plan"
	"github.com/dolthub/go-mysql-server/vh/internal/fx"
	"github.com/dolthub/go-mysql-server/vh/internal/gen"
	"github.com/dolthub/go-mysql-server/vh/internal/kf"
	"github.com/dolthub/go-mysql-server/vh/internal/ref"
	"github.com/dolthub/go-mysql-server/vh/internal/stats"
	"pgregory.net/rapid"
)

// finding ids used by this check (the first four are shared with C02, whose generator
// already excludes their regions)
const (
	idReorder  = "C01-join-reorder-drops-conjunct"
	idRound    = "C01-lookup-key-rounding"
	idInterm   = "C02-reorder-join-intermediate-expr"
	idOuterSub = "C02-outer-join-false-on-subquery"
	idRHFilter = "C01-rangeheap-drops-index-filter"
	idRHType   = "C01-rangeheap-mixed-type-compare"
	idHashDec  = "C01-hashjoin-decimal-scale-key"
	idNestSort = "C01-nested-sort-drops-order-by"
)

// hashCoster assigns every physical alternative a pseudo-random but deterministic cost
// derived from (salt, operator type, operands), so that across salts every alternative the
// optimizer itself considers executable becomes the chosen plan for some salt. Costs are
// finite and positive, which is all the memo assumes.
type hashCoster struct{ salt uint64 }

func (c hashCoster) EstimateCost(ctx *sql.Context, r memo.RelExpr, _ sql.StatsProvider) (float64, error) {
	h := fnv.New64a()
	fmt.Fprintf(h, "%d|%T|%s", c.salt, r, r)
	return 1 + float64(h.Sum64()%9973), nil
}

var (
	reIDs  = regexp.MustCompile(`(tableId|colSet): [^\n]*\n`)
	reLine = regexp.MustCompile(`^[ │├└─]*`)
	// joinNames is the set of names a plan.JoinNode prints for its operator
	joinNames = func() map[string]bool {
		m := map[string]bool{}
		for i := plan.JoinTypeUnknown + 1; i <= plan.JoinTypeLateralRight; i++ {
			m[i.String()] = true
		}
		return m
	}()
)

// requiredOps are the join operators the optimizer can produce for the generated statements
// (sql/analyzer/indexed_joins.go: lookup joins for inner/left/semi, hash and range-heap joins
// for inner/left, merge joins for inner/left, cross-hash joins over derived tables, the
// anti-join forms and their left-join rewrites). The enum values SemiHashJoin, SemiMergeJoin,
// AntiHashJoin*, AntiLookup*, AntiMerge* are never constructed by the optimizer.
var requiredOps = []string{
	"InnerJoin", "CrossJoin", "CrossHashJoin", "HashJoin", "LookupJoin", "MergeJoin", "RangeHeapJoin",
	"LeftOuterJoin", "LeftOuterHashJoin", "LeftOuterLookupJoin", "LeftOuterMergeJoin", "LeftOuterRangeHeapJoin",
	"SemiJoin", "SemiLookupJoin", "AntiJoin", "AntiJoinIncludingNulls",
	"LeftOuterJoinExcludingNulls", "LeftOuterHashJoinExcludingNulls",
}

func planShape(p string) string { return reIDs.ReplaceAllString(p, "") }

func planOps(p string) []string {
	seen := map[string]bool{}
	for _, l := range strings.Split(p, "\n") {
		l = strings.TrimSpace(reLine.ReplaceAllString(l, ""))
		if joinNames[l] {
			seen[l] = true
		}
	}
	out := make([]string, 0, len(seen))
	for k := range seen {
		out = append(out, k)
	}
	sort.Strings(out)
	return out
}

type config struct {
	name    string
	coster  memo.Coster
	hint    string
	noKeys  bool
	noMerge bool
}

func hints(rt *rapid.T, q *gen.Select) string {
	var al []string
	for _, f := range q.From {
		al = append(al, f.Alias)
	}
	var hs []string
	n := rapid.IntRange(1, 2).Draw(rt, "nhints")
	for i := 0; i < n; i++ {
		switch rapid.IntRange(0, 7).Draw(rt, "hint") {
		case 0:
			p := rapid.Permutation(al).Draw(rt, "jo")
			hs = append(hs, "JOIN_ORDER("+strings.Join(p, ",")+")")
		case 1, 2, 3, 4:
			if len(al) < 2 {
				continue
			}
			a := rapid.IntRange(0, len(al)-1).Draw(rt, "ha")
			b := rapid.IntRange(0, len(al)-2).Draw(rt, "hb")
			if b >= a {
				b++
			}
			op := rapid.SampledFrom([]string{"HASH_JOIN", "MERGE_JOIN", "LOOKUP_JOIN", "INNER_JOIN"}).Draw(rt, "hop")
			hs = append(hs, fmt.Sprintf("%s(%s,%s)", op, al[a], al[b]))
		case 5:
			hs = append(hs, "NO_MERGE_JOIN")
		case 6:
			hs = append(hs, "LEFT_DEEP")
		case 7:
			hs = append(hs, "JOIN_FIXED_ORDER")
		}
	}
	if len(hs) == 0 {
		return ""
	}
	return "/*+ " + strings.Join(hs, " ") + " */"
}

// outcome is one execution of the statement.
type outcome struct {
	cfg  config
	res  *fx.Result
	rows [][]string
	plan string
	ops  []string
	sql  string
}

func runConfig(fail func(string, ...any), ddl func(withKeys bool) []string, c config, q *gen.Select) outcome {
	f := fx.New(fx.Opts{Coster: c.coster})
	defer f.Close()
	s := f.NewSession("", "", "")
	s.MustExec(fail, ddl(!c.noKeys)...)
	if c.noMerge {
		s.MustExec(fail, "SET @@disable_merge_join = 1")
	}
	q.Hint = c.hint
	text := q.SQL()
	q.Hint = ""
	r := s.Exec(text)
	o := outcome{cfg: c, res: r, sql: text, plan: s.Plan(text)}
	o.ops = planOps(o.plan)
	if r.OK() {
		o.rows = fx.NormRows(r.Schema, r.Rows)
	}
	return o
}

func sameOutcome(a, b outcome, ordered bool) bool {
	if a.res.OK() != b.res.OK() {
		return false
	}
	if !a.res.OK() {
		// both failed (error or recovered panic): the outcome does not depend on the plan. A
		// crash under every plan is a matter of property C10, not of this one; it is counted.
		return true
	}
	if ordered {
		return fx.SeqEqual(a.rows, b.rows)
	}
	return fx.MultisetEqual(a.rows, b.rows)
}

func hasOp(o outcome, sub string) bool {
	for _, op := range o.ops {
		if strings.Contains(op, sub) {
			return true
		}
	}
	return false
}

func TestC01(t *testing.T) {
	st := stats.New("C01", "")
	defer st.Flush()
	thorough := os.Getenv("VERIF_TIER") == "thorough"
	maxRows, nCfg := 8, 6
	if thorough {
		maxRows, nCfg = 14, 10
	}
	for _, op := range requiredOps {
		st.ClassN("op:"+op, 0) // so that an operator that never occurred shows up as 0 in the evidence
	}
	rapid.Check(t, func(rt *rapid.T) {
		st.Eval()
		schema := gen.GenSchema(rt, gen.SchemaOpts{MinTables: 2, MaxTables: 3, MaxRows: maxRows, Keys: true, ForcePK: true})
		g := gen.NewG(rt, schema)
		g.MinJoin, g.MaxJoin, g.RangeJoins, g.NoSetOp = 2, 3, true, true
		if thorough {
			g.MaxJoin = 4
		}
		q := g.Select()
		a := &aug{rt: rt, s: schema, q: q, excl: map[string]int{}, labels: map[string]bool{}}
		a.run()

		cfgs := []config{{name: "default"}}
		for i := 1; i < nCfg; i++ {
			switch sel := rapid.IntRange(0, 9).Draw(rt, "cfgkind"); {
			case sel <= 5:
				salt := rapid.Uint64().Draw(rt, "salt")
				cfgs = append(cfgs, config{name: fmt.Sprintf("coster(%d)", salt), coster: hashCoster{salt}})
			case sel <= 7:
				h := hints(rt, q)
				cfgs = append(cfgs, config{name: "hint " + h, hint: h})
			case sel == 8:
				cfgs = append(cfgs, config{name: "disable_merge_join", noMerge: true})
			default:
				cfgs = append(cfgs, config{name: "index-free twin", noKeys: true})
			}
		}

		var outs []outcome
		for _, c := range cfgs {
			o := runConfig(rt.Fatalf, schema.DDL, c, q)
			// known findings whose symptom is a planning error (shared with C02, same signatures)
			if o.res.Failed() {
				msg := o.res.Err.Error()
				if strings.Contains(msg, "failed to reorder join, unexpected intermediate expression") &&
					(g.L["exists"] || a.labels["exists"]) && kf.Suppress(st, idInterm) {
					return
				}
				if strings.Contains(msg, "unable to find field with index") && a.constConjunctInOn() &&
					(g.L["insub"] || g.L["notinsub"] || g.L["exists"] || a.labels["insub"] || a.labels["notinsub"] || a.labels["exists"]) &&
					kf.Suppress(st, idOuterSub) {
					return
				}
			}
			// region of C01-rangeheap-drops-index-filter (while listed): a range heap join over a
			// table that also carries a single-table conjunct; such executions are not compared
			if kf.Listed(idRHFilter) && hasOp(o, "RangeHeap") && a.singleTableConjunct() {
				st.Excluded(idRHFilter)
				continue
			}
			// region of C01-rangeheap-mixed-type-compare (while listed): a range heap join whose
			// range predicate compares columns of different numeric types
			if kf.Listed(idRHType) && hasOp(o, "RangeHeap") && a.mixedKindRange() {
				st.Excluded(idRHType)
				continue
			}
			// region of C01-nested-sort-drops-order-by (while listed): ORDER BY over a range heap
			// join that sorts a derived table
			if kf.Listed(idNestSort) && hasOp(o, "RangeHeap") && a.labels["derived"] && len(q.OrderBy) > 0 {
				st.Excluded(idNestSort)
				continue
			}
			if o.res.TimedOut {
				rt.Skip("timeout") // never a violation
			}
			outs = append(outs, o)
		}
		if len(outs) == 0 {
			return
		}
		base := outs[0]
		ordered := len(q.OrderBy) > 0
		for _, o := range outs[1:] {
			if sameOutcome(base, o, ordered) {
				continue
			}
			// name the side that disagrees with the SQL definition (report only)
			ev := &ref.Evaluator{}
			want := ref.Norm(ev.Rows(q))
			rt.Fatalf("results depend on the physical plan\nschema: %s\nquery: %s\n[%s] -> %s\n[%s] -> %s\nreference evaluator: %s\nplan A:\n%s\nplan B:\n%s",
				schema.Describe(), o.sql, base.cfg.name, base.res, o.cfg.name, o.res, fx.ShowSeq(want), base.plan, o.plan)
		}
		shapes := map[string]bool{}
		ops := map[string]bool{}
		for _, o := range outs {
			if o.plan != "" {
				shapes[planShape(o.plan)] = true
				for _, op := range o.ops {
					ops[op] = true
				}
			}
		}
		for op := range ops {
			st.Class("op:" + op) // counted once per case: some executed plan contained the operator
		}
		st.Class(fmt.Sprintf("distinct-plans:%d", len(shapes)))
		for _, l := range g.L.Sorted() {
			st.Class(l)
		}
		for l := range a.labels {
			st.Class("aug:" + l)
		}
		for _, m := range []map[string]int{g.Excl, a.excl} {
			for k, n := range m {
				for i := 0; i < n; i++ {
					st.Excluded(k)
				}
			}
		}
		if !base.res.OK() {
			if base.res.Panic != nil {
				st.Class("all-panic")
			} else {
				st.Class("all-error")
			}
			return
		}
		if len(base.rows) > 0 {
			st.Class("nonempty")
		}
		if len(shapes) >= 2 && len(base.rows) > 0 {
			st.NonTrivial(map[string]any{"schema": schema.Describe(), "query": base.sql, "plans": len(shapes), "rows": len(base.rows)}, schema.Describe(), base.sql)
		}
	})
}

func TestReplayC01(t *testing.T) {
	st := stats.New("C01", "replay")
	defer st.Flush()
	fx.ReplayDir(t, st)
}
