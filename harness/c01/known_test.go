package c01

import (
	"fmt"
	"testing"

	"github.com/dolthub/go-mysql-server/vh/internal/fx"
	"github.com/dolthub/go-mysql-server/vh/internal/kf"
	"github.com/dolthub/go-mysql-server/vh/internal/stats"
)

// witness is a minimised statement of a finding: executed under the default cost model and
// under witnessSalts hash costers, every execution must return want.
type witness struct {
	id    string
	ddl   []string
	query string
	want  [][]string
	seq   bool // the statement has a total ORDER BY: compare as a sequence
}

const witnessSalts = 40

var witnesses = []witness{
	{idReorder,
		[]string{"CREATE TABLE t1 (c0 INT NOT NULL, c1 DECIMAL(10,2), PRIMARY KEY (c0))",
			"INSERT INTO t1 VALUES (2,NULL),(1,NULL),(-2,0.50),(-3,-0.75),(0,-0.50)",
			"CREATE TABLE t2 (c0 INT NOT NULL, c1 DECIMAL(10,2) NOT NULL, c2 DECIMAL(10,2), c3 VARCHAR(8), PRIMARY KEY (c0,c1))",
			"INSERT INTO t2 VALUES (-1,-0.25,1.75,'A')"},
		"SELECT DISTINCT x1.c1 AS o0 FROM t2 x1 LEFT JOIN t1 x2 ON (x1.c1 = x2.c1) INNER JOIN t2 x3 ON (x3.c0 BETWEEN x1.c0 AND x2.c0)",
		nil, false},
	{idReorder,
		[]string{"CREATE TABLE t0 (c0 INT, c1 INT, c2 INT, c3 INT)",
			"INSERT INTO t0 VALUES (NULL,NULL,NULL,NULL),(NULL,NULL,NULL,NULL),(NULL,NULL,NULL,NULL),(NULL,NULL,NULL,NULL),(NULL,NULL,NULL,NULL),(NULL,NULL,NULL,NULL),(NULL,NULL,0,NULL),(0,NULL,NULL,NULL)"},
		"SELECT x1.c0 AS o0 FROM t0 x1 RIGHT JOIN t0 x2 ON (x1.c0 = x2.c0) INNER JOIN t0 x3 ON ((x2.c0 = x3.c0) AND (x1.c0 = x1.c1))",
		nil, false},
	{idReorder,
		[]string{"CREATE TABLE t1 (c0 INT, c1 VARCHAR(8), c2 INT, KEY k0 (c0))",
			"INSERT INTO t1 VALUES (NULL,NULL,NULL),(NULL,NULL,NULL),(NULL,'',NULL),(0,NULL,NULL),(NULL,'',NULL)"},
		"SELECT COUNT(*) AS o0 FROM t1 x1 LEFT JOIN t1 x2 ON (x1.c0 = x2.c0) INNER JOIN t1 x3 ON ((x1.c0 = x3.c0) AND (NULL = NULL))",
		[][]string{{"n:0"}}, false},
	{idRHFilter,
		[]string{"CREATE TABLE t0 (c0 INT NOT NULL, c1 INT, c2 INT, c3 INT, PRIMARY KEY (c0), KEY k0 (c3))",
			"INSERT INTO t0 VALUES (2,-2,NULL,-1),(1,NULL,NULL,NULL),(4,1,NULL,NULL),(-2,NULL,-3,-3),(-3,-2,NULL,NULL)",
			"CREATE TABLE t1 (c0 INT NOT NULL, c1 DECIMAL(10,2), PRIMARY KEY (c0))",
			"INSERT INTO t1 VALUES (1,NULL),(0,-0.75),(-2,1.75),(4,NULL)"},
		"SELECT COUNT(*) AS o0 FROM t1 x1 INNER JOIN t0 x2 ON ((x2.c3 BETWEEN x1.c0 AND x1.c1) AND (x2.c0 IN (-1,0,-1)))",
		[][]string{{"n:0"}}, false},
	{idRHFilter,
		[]string{"CREATE TABLE t0 (c0 INT NOT NULL, c1 INT, c2 DECIMAL(10,2), PRIMARY KEY (c0), KEY k0 (c2))",
			"INSERT INTO t0 VALUES (4,-2,1.25)",
			"CREATE TABLE t1 (c0 INT NOT NULL, c1 DECIMAL(10,2), c2 VARCHAR(8), c3 VARCHAR(8), PRIMARY KEY (c0), KEY k0 (c1,c0))",
			"INSERT INTO t1 VALUES (-2,NULL,NULL,''),(-3,1.75,'b','a'),(0,2.25,'',NULL),(1,2.50,'a',NULL)"},
		"SELECT x1.c1 AS o0 FROM t1 x1 RIGHT JOIN t0 x2 ON (x2.c2 BETWEEN x1.c1 AND x1.c0) WHERE (x2.c0 IN (0,2,-2))",
		nil, false},
	{idRHFilter,
		[]string{"CREATE TABLE t0 (c0 INT NOT NULL, c1 INT, c2 INT, c3 VARCHAR(8), PRIMARY KEY (c0), KEY k0 (c2), KEY k1 (c0))",
			"INSERT INTO t0 VALUES (-3,NULL,NULL,''),(4,NULL,-1,NULL),(1,-3,2,'á')"},
		"SELECT 1.50 AS o0, -1.25 AS o1 FROM t0 x1 INNER JOIN t0 x2 ON ((x2.c2 BETWEEN x1.c1 AND x1.c0) AND (x2.c0 IS NULL))",
		nil, false},
	{idRHType,
		[]string{"CREATE TABLE t1 (c0 INT NOT NULL, c1 DECIMAL(10,2), c2 INT, PRIMARY KEY (c0))",
			"INSERT INTO t1 VALUES (2,-1.00,NULL),(-2,NULL,-3),(0,-0.75,-2),(1,NULL,NULL),(-3,NULL,-3),(3,0.75,1),(-1,NULL,NULL)"},
		"SELECT x1.c2 AS o0 FROM t1 x1 INNER JOIN t1 x2 ON ((x1.c1 < x2.c0) AND (x2.c0 < x1.c0))",
		[][]string{{"N"}, {"N"}, {"n:1"}, {"n:1"}}, false},
	{idHashDec,
		[]string{"CREATE TABLE t0 (c0 INT, c1 VARCHAR(8), c2 INT, KEY k0 (c1))",
			"INSERT INTO t0 VALUES (NULL,NULL,NULL),(-3,NULL,NULL),(NULL,'a',1),(NULL,NULL,2),(2,'a',4)",
			"CREATE TABLE t1 (c0 INT NOT NULL, c1 DECIMAL(10,2), c2 INT, PRIMARY KEY (c0), KEY k0 (c0))",
			"INSERT INTO t1 VALUES (-1,1.50,NULL),(0,NULL,NULL),(2,0.25,NULL),(-2,NULL,NULL),(-3,-1.00,-2),(3,0.50,NULL)"},
		"SELECT x3.c1 AS o0, x1.c1 AS o1, x2.c2 AS o3 FROM t0 x1 LEFT JOIN t0 x2 ON ((x1.c0 = x2.c0) AND (x2.c0 = 2.00)) INNER JOIN t1 x3 ON (x1.c0 = x3.c0)",
		[][]string{{"n:-1", "N", "N"}, {"n:1/4", "s:a", "n:4"}}, false},
	{idNestSort,
		[]string{"CREATE TABLE t0 (c0 INT NOT NULL, c1 INT, c2 INT, PRIMARY KEY (c0), KEY k0 (c0), KEY k1 (c0))",
			"INSERT INTO t0 VALUES (1,NULL,2)",
			"CREATE TABLE t1 (c0 INT NOT NULL, c1 INT NOT NULL, c2 INT, PRIMARY KEY (c0,c1), KEY k0 (c1,c0), KEY k1 (c0))",
			"INSERT INTO t1 VALUES (-2,-2,NULL),(-3,-2,NULL),(-2,1,NULL),(-2,2,-2),(-3,-3,NULL),(-1,-3,-2)"},
		"SELECT x1.c2 AS o0 FROM t1 x1 INNER JOIN (SELECT * FROM t1 LIMIT 50) x2 ON ((x1.c1 <= x2.c0) AND (x2.c0 <= x1.c1)) CROSS JOIN t0 x3 ORDER BY o0 DESC",
		[][]string{{"n:-2"}, {"n:-2"}, {"N"}, {"N"}, {"N"}, {"N"}, {"N"}, {"N"}, {"N"}, {"N"}}, true},
	{idOuterSub,
		[]string{"CREATE TABLE t0 (c0 INT NOT NULL, c1 INT, PRIMARY KEY (c0))",
			"INSERT INTO t0 VALUES (0,NULL)",
			"CREATE TABLE t1 (c0 INT NOT NULL, c1 VARCHAR(8) NOT NULL, c2 INT, PRIMARY KEY (c0,c1))",
			"INSERT INTO t1 VALUES (1,'a',NULL),(3,'a',NULL)",
			"CREATE TABLE t2 (c0 INT NOT NULL, c1 DECIMAL(10,2), c2 DECIMAL(10,2), c3 DECIMAL(10,2), PRIMARY KEY (c0), KEY k0 (c1,c0), KEY k1 (c0))",
			"INSERT INTO t2 VALUES (-3,-1.00,0.75,NULL),(-1,-0.75,0.25,-0.50)"},
		"SELECT x2.c0 AS o0, COUNT(DISTINCT x1.c2) AS o1 FROM t1 x1 LEFT JOIN t1 x2 ON ((x1.c2 = x2.c0) AND (-1.50 < -2)) CROSS JOIN t2 x3 WHERE (NOT EXISTS (SELECT y1.c0 FROM t0 y1 WHERE (y1.c0 = x1.c0))) GROUP BY x2.c0",
		[][]string{{"N", "n:0"}}, false},
	{idRound,
		[]string{"CREATE TABLE t1 (c0 INT NOT NULL, c1 DECIMAL(10,2), c2 INT, PRIMARY KEY (c0))",
			"INSERT INTO t1 VALUES (0,NULL,NULL),(-2,0.25,NULL),(-3,NULL,NULL),(3,0.75,1),(-1,NULL,NULL)"},
		"SELECT COUNT(x1.c1) AS o0 FROM t1 x1 INNER JOIN t1 x2 ON (x2.c0 BETWEEN x1.c1 AND x1.c1)",
		[][]string{{"n:0"}}, false},
	{idRound,
		[]string{"CREATE TABLE t0 (c0 INT NOT NULL, c1 DECIMAL(10,2), PRIMARY KEY (c0))",
			"INSERT INTO t0 VALUES (0,NULL),(1,0.25),(-1,NULL)"},
		"SELECT x1.c0, x1.c1, x2.c0 FROM t0 x1 INNER JOIN t0 x2 ON (x1.c1 = x2.c0)",
		nil, false},
	{idRound,
		[]string{"CREATE TABLE t0 (c0 INT NOT NULL, c1 INT, c2 DECIMAL(10,2), PRIMARY KEY (c0), KEY k0 (c0))",
			"INSERT INTO t0 VALUES (4,-3,NULL),(-3,-1,2.50),(3,-2,-1.50),(-1,-3,0.25)"},
		"SELECT SUM(x1.c1) AS o0 FROM t0 x1 CROSS JOIN t0 x2 WHERE ((x1.c1 IN (NULL,4,-1,3)) AND (NOT (x1.c2 <> x2.c0)))",
		[][]string{{"N"}}, false},
	{idOuterSub,
		[]string{"CREATE TABLE t0 (c0 INT, c1 DECIMAL(10,2), KEY k0 (c0))",
			"INSERT INTO t0 VALUES (NULL,0.25)",
			"CREATE TABLE t1 (c0 INT, c1 VARCHAR(8), c2 INT, c3 VARCHAR(8))",
			"INSERT INTO t1 VALUES (0,'',NULL,NULL)",
			"CREATE TABLE t2 (c0 INT, c1 VARCHAR(8), KEY k0 (c0))"},
		"SELECT x1.c1 AS o0, x3.c3 AS o1 FROM t0 x1 LEFT JOIN t1 x3 ON ((x1.c0 = x3.c0) AND (1 = 0)) WHERE ('A' NOT IN (SELECT x4.c1 FROM t2 x4))",
		[][]string{{"n:1/4", "N"}}, false},
}

// run executes the witness under every configuration and returns the descriptions of the
// executions that do not return want.
func (w witness) run(t *testing.T) (bad []string) {
	for salt := 0; salt <= witnessSalts; salt++ {
		var o fx.Opts
		name := "default"
		if salt > 0 {
			o.Coster = hashCoster{uint64(salt)}
			name = fmt.Sprintf("coster(%d)", salt)
		}
		f := fx.New(o)
		s := f.NewSession("", "", "")
		s.MustExec(t.Fatalf, w.ddl...)
		r := s.Exec(w.query)
		eq := fx.MultisetEqual
		if w.seq {
			eq = fx.SeqEqual
		}
		if !r.OK() || !eq(fx.NormRows(r.Schema, r.Rows), w.want) {
			bad = append(bad, name+" -> "+r.String())
		}
		f.Close()
	}
	return bad
}

// TestC01Known re-confirms the witnesses of the findings this check knows. A finding that is
// listed must still misbehave (otherwise it is reported as stale, which is not a failure); a
// finding that is not listed (never listed, or repaired) must satisfy the property.
func TestC01Known(t *testing.T) {
	st := stats.New("C01", "known")
	defer st.Flush()
	for i, w := range witnesses {
		st.Eval()
		bad := w.run(t)
		switch {
		case len(bad) == 0 && kf.Listed(w.id):
			t.Logf("witness %d of listed finding %s no longer reproduces (stale listing?)", i, w.id)
		case len(bad) == 0:
			st.NonTrivial(nil, "witness", i)
		case kf.Suppress(st, w.id):
			st.NonTrivial(nil, "witness", i)
			t.Logf("known finding %s reproduces: %d of %d executions differ, e.g. %s", w.id, len(bad), witnessSalts+1, bad[0])
		default:
			t.Errorf("finding %s (not listed as known): %s\n%v\nmust return %s under every plan; %d of %d executions differ, e.g. %s",
				w.id, w.query, w.ddl, fx.ShowSeq(w.want), len(bad), witnessSalts+1, bad[0])
		}
	}
}
