package c01

import (
	"fmt"
	"os"
	"strings"
	"testing"

	"github.com/dolthub/go-mysql-server/vh/internal/fx"
)

// TestDevScript: DEV_SQL="stmt;stmt;...;query" runs the last statement under 300 coster salts.
func TestDevScript(t *testing.T) {
	src := os.Getenv("DEV_SQL")
	if src == "" {
		t.Skip()
	}
	stmts := strings.Split(src, ";")
	q := strings.TrimSpace(stmts[len(stmts)-1])
	res := map[string][]string{}
	plans := map[string]string{}
	for salt := 0; salt < 300; salt++ {
		var o fx.Opts
		name := "default"
		if salt > 0 {
			o.Coster = hashCoster{uint64(salt)}
			name = fmt.Sprintf("coster(%d)", salt)
		}
		f := fx.New(o)
		s := f.NewSession("", "", "")
		for _, st := range stmts[:len(stmts)-1] {
			if strings.TrimSpace(st) == "" {
				continue
			}
			s.MustExec(t.Fatalf, st)
		}
		r := s.Exec(q)
		k := r.String()
		if r.OK() {
			k = fx.Show(fx.NormRows(r.Schema, r.Rows))
		}
		if _, ok := res[k]; !ok {
			plans[k] = s.Plan(q)
		}
		res[k] = append(res[k], name)
		f.Close()
	}
	for k, v := range res {
		n := len(v)
		if len(v) > 5 {
			v = v[:5]
		}
		t.Logf("%d x %s  e.g. %v\n%s", n, k, v, plans[k])
	}
}
