package c01

import (
	"fmt"

	"github.com/dolthub/go-mysql-server/vh/internal/gen"
	"github.com/dolthub/go-mysql-server/vh/internal/kf"
	"pgregory.net/rapid"
)

// aug post-processes a statement drawn by the shared generator (internal/gen is lead-owned
// and excludes the regions of the C02 findings unconditionally): it raises the share of the
// join operators that gen alone reaches rarely (range-heap, semi/anti, cross-hash joins), and it
// handles the regions of the findings of this property conditionally on kf.Listed, so that a
// region is searched again once its finding is repaired.
type aug struct {
	rt     *rapid.T
	s      *gen.Schema
	q      *gen.Select
	excl   map[string]int
	labels map[string]bool
	nAlias int
}

func (a *aug) chance(n int, label string) bool {
	return rapid.IntRange(0, n-1).Draw(a.rt, label) == 0
}

func (a *aug) intn(lo, hi int, label string) int { return rapid.IntRange(lo, hi).Draw(a.rt, label) }

type tabRef struct {
	alias string
	tb    *gen.Table
}

func colsOf(tabs []tabRef, want func(gen.Kind) bool) []*gen.ColRef {
	var out []*gen.ColRef
	for _, t := range tabs {
		for ci, c := range t.tb.Cols {
			if want(c.Kind) {
				out = append(out, &gen.ColRef{Alias: t.alias, Col: ci, Name: c.Name, K: c.Kind})
			}
		}
	}
	return out
}

func numeric(k gen.Kind) bool { return k.Numeric() }
func anyKind(gen.Kind) bool   { return true }
func exactly(k gen.Kind) func(gen.Kind) bool {
	return func(x gen.Kind) bool { return x == k }
}

func (a *aug) pick(cs []*gen.ColRef, label string) *gen.ColRef {
	return cs[a.intn(0, len(cs)-1, label)]
}

// simplePred draws a predicate over the given tables that compares values of exactly one
// kind (no implicit conversion of any sort).
func (a *aug) simplePred(tabs []tabRef) gen.Expr {
	l := a.pick(colsOf(tabs, anyKind), "spl")
	switch a.intn(0, 5, "spkind") {
	case 0:
		return &gen.IsNull{E: l, Not: a.chance(2, "spnot")}
	case 1, 2:
		op := rapid.SampledFrom([]string{"=", "<>", "<", "<=", ">", ">="}).Draw(a.rt, "spop")
		return &gen.CmpE{Op: op, L: l, R: &gen.Lit{V: gen.GenVal(a.rt, l.K, false, "split"), K: l.K}}
	default:
		op := rapid.SampledFrom([]string{"=", "=", "<>", "<", "<=", ">", ">=", "<=>"}).Draw(a.rt, "spop2")
		return &gen.CmpE{Op: op, L: l, R: a.pick(colsOf(tabs, exactly(l.K)), "spr")}
	}
}

func and(l, r gen.Expr) gen.Expr {
	if l == nil {
		return r
	}
	return &gen.Logic{Op: "AND", L: l, R: r}
}

func (a *aug) run() {
	q := a.q
	listedReorder := kf.Listed(idReorder)

	// (1) range joins: value column of the new table between two columns of earlier tables
	var prev []tabRef
	afterOuter := false
	for i := range q.From {
		f := &q.From[i]
		cur := tabRef{f.Alias, f.Table}
		if i > 0 && (f.Join == "INNER" || f.Join == "LEFT") && a.chance(6, "rangejoin") {
			v := a.pick(colsOf([]tabRef{cur}, numeric), "rjv")
			lo := a.pick(colsOf(prev, numeric), "rjlo")
			var hi *gen.ColRef
			if a.chance(3, "rjsame") || (listedReorder && afterOuter) {
				// bounds from one table; (while the reorder finding is listed this is forced after
				// an outer join, see fixReorderRegion)
				for _, p := range prev {
					if p.alias == lo.Alias {
						hi = a.pick(colsOf([]tabRef{p}, numeric), "rjhi")
					}
				}
			} else {
				hi = a.pick(colsOf(prev, numeric), "rjhi2")
			}
			if a.chance(2, "rjbetween") {
				f.On = &gen.Between{E: v, Lo: lo, Hi: hi}
			} else {
				lop := rapid.SampledFrom([]string{"<=", "<"}).Draw(a.rt, "rjlop")
				hop := rapid.SampledFrom([]string{"<=", "<"}).Draw(a.rt, "rjhop")
				f.On = and(&gen.CmpE{Op: lop, L: lo, R: v}, &gen.CmpE{Op: hop, L: v, R: hi})
			}
			a.labels["rangejoin"] = true
		}
		// (2) the region gen leaves out after an outer join is searched when the finding is not listed
		if i > 0 && f.On != nil && afterOuter && !listedReorder && a.chance(3, "onextra") {
			f.On = and(f.On, a.simplePred(append(append([]tabRef{}, prev...), cur)))
			a.labels["on-extra-after-outer"] = true
		}
		if f.Join == "LEFT" || f.Join == "RIGHT" {
			afterOuter = true
		}
		prev = append(prev, cur)
	}
	if listedReorder {
		a.fixReorderRegion()
	}

	// (3) semi / anti joins: [NOT] IN (subquery) and [NOT] EXISTS (correlated subquery) conjuncts
	if a.chance(3, "semianti") {
		q.Where = and(q.Where, a.subPred(prev))
	}

	// (4) cross-hash joins need a derived table under a cross join
	if a.chance(5, "derived") {
		i := a.intn(0, len(q.From)-1, "derivedidx")
		f := &q.From[i]
		f.Name = "(SELECT * FROM " + f.Table.Name + " LIMIT 50)"
		if i+1 < len(q.From) && a.chance(2, "derivedcross") {
			q.From[i+1].Join, q.From[i+1].On = "CROSS", nil
		}
		a.labels["derived"] = true
	}

	// region of C01-hashjoin-decimal-scale-key (while listed): an INT expression equated with a
	// DECIMAL literal of integral value (2.00); the literal is written as an integer
	if kf.Listed(idHashDec) {
		fix := func(x, other gen.Expr) {
			if l, ok := x.(*gen.Lit); ok && l.K == gen.KDec && !l.V.Null && l.V.R.IsInt() && other.Kind() == gen.KInt {
				l.K = gen.KInt
				a.excl[idHashDec]++
			}
		}
		a.eachExpr(func(e gen.Expr) {
			if c, ok := e.(*gen.CmpE); ok && (c.Op == "=" || c.Op == "<=>") {
				fix(c.L, c.R)
				fix(c.R, c.L)
			}
		})
	}

	// region of C02-outer-join-false-on-subquery (while listed): a join whose ON has a column-free
	// conjunct (the join, or its right side, is replaced by a column-less EmptyTable when the
	// conjunct folds to FALSE), in a statement with a subquery (whose semi/anti join is planned
	// from column sets). Besides the planning error recorded for C02 the same statements return
	// values of the wrong column under some plans, and the constant may also sit in an INNER join
	// under an outer join; the column-free conjuncts are removed.
	if kf.Listed(idOuterSub) && a.hasSubquery() {
		for i := range q.From {
			f := &q.From[i]
			if f.On != nil {
				var on gen.Expr
				for _, c := range gen.Conjuncts(f.On) {
					if gen.HasColumn(c) {
						on = and(on, c)
					} else {
						a.excl[idOuterSub]++
					}
				}
				if on != nil {
					f.On = on
				}
			}
		}
	}

	// region of C01-lookup-key-rounding (while listed): gen replaces INT column = DECIMAL column;
	// NOT (a <> b) is turned into a = b by the analyzer and reaches the same lookup
	if kf.Listed(idRound) {
		a.eachExpr(func(e gen.Expr) {
			// x BETWEEN a AND a is simplified to x = a
			if b, ok := e.(*gen.Between); ok && b.Lo.SQL() == b.Hi.SQL() {
				x, xok := b.E.(*gen.ColRef)
				lo, lok := b.Lo.(*gen.ColRef)
				if xok && lok && x.K != lo.K {
					l := &gen.Lit{V: gen.GenVal(a.rt, x.K, false, "roundlit2"), K: x.K}
					b.Lo, b.Hi = l, l
					a.excl[idRound]++
				}
			}
			if c, ok := e.(*gen.CmpE); ok && c.Op == "<>" {
				l, lok := c.L.(*gen.ColRef)
				r, rok := c.R.(*gen.ColRef)
				if lok && rok && l.K != r.K {
					c.R = &gen.Lit{V: gen.GenVal(a.rt, r.K, false, "roundlit"), K: r.K}
					a.excl[idRound]++
				}
			}
		})
	}
}

// subPred draws x.c [NOT] IN (SELECT y.c FROM t y [WHERE ..]) or [NOT] EXISTS (SELECT y.c0 FROM
// t y WHERE y.c = x.c [AND ..]); compared columns have exactly the same kind.
func (a *aug) subPred(outer []tabRef) gen.Expr {
	for try := 0; try < 4; try++ {
		tb := a.s.Tables[a.intn(0, len(a.s.Tables)-1, "subtab")]
		a.nAlias++
		in := tabRef{fmt.Sprintf("y%d", a.nAlias), tb}
		oc := a.pick(colsOf(outer, anyKind), "suboc")
		ics := colsOf([]tabRef{in}, exactly(oc.K))
		if len(ics) == 0 {
			continue
		}
		ic := a.pick(ics, "subic")
		sub := &gen.Select{Limit: -1, Offset: -1, From: []gen.From{{Table: tb, Name: tb.Name, Alias: in.alias}}}
		not := a.chance(2, "subnot")
		if a.chance(2, "subexists") {
			sub.Items = []gen.Item{{E: &gen.ColRef{Alias: in.alias, Col: 0, Name: tb.Cols[0].Name, K: tb.Cols[0].Kind}}}
			op := rapid.SampledFrom([]string{"=", "=", "=", "<", ">="}).Draw(a.rt, "subcorrop")
			sub.Where = &gen.CmpE{Op: op, L: ic, R: oc}
			if a.chance(3, "subextra") {
				sub.Where = and(sub.Where, a.simplePred([]tabRef{in}))
			}
			a.labels["exists"] = true
			return &gen.Exists{Q: sub, Not: not}
		}
		sub.Items = []gen.Item{{E: ic}}
		if a.chance(2, "subwhere") {
			sub.Where = a.simplePred([]tabRef{in})
		}
		if not {
			a.labels["notinsub"] = true
		} else {
			a.labels["insub"] = true
		}
		return &gen.InSub{E: oc, Q: sub, Not: not}
	}
	return &gen.Lit{V: gen.Int(1), K: gen.KInt}
}

// fixReorderRegion keeps the statement out of the region of C01-join-reorder-drops-conjunct:
// an INNER join after an outer join whose ON conjuncts do not all read the same set of tables
// (one conjunct then lets the memo join early and the other is lost above the outer join).
// gen adds no extra conjunct there, but its BETWEEN range predicate may take its two bounds
// from different tables; the upper bound is moved to the table of the lower bound.
func (a *aug) fixReorderRegion() {
	afterOuter := false
	var prev []tabRef
	for i := range a.q.From {
		f := &a.q.From[i]
		if i > 0 && afterOuter && f.Join == "INNER" && f.On != nil {
			for _, c := range gen.Conjuncts(f.On) {
				b, ok := c.(*gen.Between)
				if !ok {
					continue
				}
				lo, ok1 := b.Lo.(*gen.ColRef)
				hi, ok2 := b.Hi.(*gen.ColRef)
				if ok1 && ok2 && lo.Alias != hi.Alias {
					for _, p := range prev {
						if p.alias == lo.Alias {
							b.Hi = a.pick(colsOf([]tabRef{p}, numeric), "reorderhi")
							a.excl[idReorder]++
						}
					}
				}
			}
		}
		if f.Join == "LEFT" || f.Join == "RIGHT" {
			afterOuter = true
		}
		prev = append(prev, tabRef{f.Alias, f.Table})
	}
}

// eachExpr visits every expression of the statement, including those of its subqueries.
func (a *aug) eachExpr(fn func(gen.Expr)) { eachSelect(a.q, fn) }

func eachSelect(q *gen.Select, fn func(gen.Expr)) {
	for _, it := range q.Items {
		walk(it.E, fn)
	}
	for _, f := range q.From {
		walk(f.On, fn)
	}
	walk(q.Where, fn)
	for _, g := range q.GroupBy {
		walk(g, fn)
	}
	walk(q.Having, fn)
}

func walk(e gen.Expr, fn func(gen.Expr)) {
	if e == nil {
		return
	}
	fn(e)
	switch x := e.(type) {
	case *gen.CmpE:
		walk(x.L, fn)
		walk(x.R, fn)
	case *gen.IsNull:
		walk(x.E, fn)
	case *gen.Logic:
		walk(x.L, fn)
		walk(x.R, fn)
	case *gen.Not:
		walk(x.E, fn)
	case *gen.Between:
		walk(x.E, fn)
		walk(x.Lo, fn)
		walk(x.Hi, fn)
	case *gen.InList:
		walk(x.E, fn)
		for _, l := range x.List {
			walk(l, fn)
		}
	case *gen.Case:
		for i := range x.Whens {
			walk(x.Whens[i], fn)
			walk(x.Thens[i], fn)
		}
		if x.Else != nil {
			walk(x.Else, fn)
		}
	case *gen.Coalesce:
		for _, y := range x.Args {
			walk(y, fn)
		}
	case *gen.Arith:
		walk(x.L, fn)
		walk(x.R, fn)
	case *gen.InSub:
		walk(x.E, fn)
		eachSelect(x.Q, fn)
	case *gen.Exists:
		eachSelect(x.Q, fn)
	case *gen.ScalarSub:
		eachSelect(x.Q, fn)
	case *gen.Agg:
		if x.Arg != nil {
			walk(x.Arg, fn)
		}
	}
}

// aliases returns the set of table aliases an expression reads (inner aliases of subqueries
// included).
func aliases(e gen.Expr) map[string]bool {
	m := map[string]bool{}
	walk(e, func(x gen.Expr) {
		if c, ok := x.(*gen.ColRef); ok {
			m[c.Alias] = true
		}
	})
	return m
}

// singleTableConjunct reports whether some WHERE or ON conjunct of the top-level statement
// reads exactly one table (such a conjunct can be absorbed into a static index scan).
func (a *aug) singleTableConjunct() bool {
	var all []gen.Expr
	if a.q.Where != nil {
		all = append(all, gen.Conjuncts(a.q.Where)...)
	}
	for _, f := range a.q.From {
		if f.On != nil {
			all = append(all, gen.Conjuncts(f.On)...)
		}
	}
	for _, c := range all {
		if len(aliases(c)) == 1 {
			return true
		}
	}
	return false
}

// mixedKindRange reports whether the statement has an order comparison or BETWEEN between
// columns of different numeric kinds (INT with DECIMAL).
func (a *aug) mixedKindRange() bool {
	found := false
	diff := func(x, y gen.Expr) bool {
		l, lok := x.(*gen.ColRef)
		r, rok := y.(*gen.ColRef)
		return lok && rok && l.K != r.K
	}
	a.eachExpr(func(e gen.Expr) {
		switch x := e.(type) {
		case *gen.CmpE:
			if (x.Op == "<" || x.Op == "<=" || x.Op == ">" || x.Op == ">=") && diff(x.L, x.R) {
				found = true
			}
		case *gen.Between:
			if diff(x.E, x.Lo) || diff(x.E, x.Hi) || diff(x.Lo, x.Hi) {
				found = true
			}
		}
	})
	return found
}

func (a *aug) hasSubquery() bool {
	found := false
	a.eachExpr(func(e gen.Expr) {
		switch e.(type) {
		case *gen.InSub, *gen.Exists, *gen.ScalarSub:
			found = true
		}
	})
	return found
}

// constConjunctInOn reports whether some ON clause has a conjunct that reads no column.
func (a *aug) constConjunctInOn() bool {
	for _, f := range a.q.From {
		if f.On != nil {
			for _, c := range gen.Conjuncts(f.On) {
				if !gen.HasColumn(c) {
					return true
				}
			}
		}
	}
	return false
}
