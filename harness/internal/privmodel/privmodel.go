// Package privmodel is the reference model of MySQL access control shared by the checks
// C39 (privilege checks) and C41 (persistence round trip): accounts, roles, role edges and
// static privileges at the global / database / table / routine level, plus a generator of
// valid account-management statements (CREATE USER/ROLE, GRANT, REVOKE, GRANT/REVOKE role,
// DROP USER/ROLE) that is driven by the current model state so that every generated
// statement names existing accounts only.
//
// Semantics implemented (MySQL 8 reference manual, "Privileges Provided by MySQL" and
// "GRANT Statement"):
//   - a statement needing privilege P on object db.obj is permitted iff P is held at the
//     global level, or at the database level for db, or at the table (routine) level for
//     db.obj, by the account or by one of the roles granted directly to it (the engine
//     documents that every granted role is active; nested roles are not generated);
//   - GRANT adds, REVOKE removes privileges at exactly the named level; levels are
//     independent of each other; ALL expands to the level's list of static privileges;
//   - DROP USER/ROLE removes the account and every role edge from or to it; a re-created
//     account starts empty;
//   - REVOKE ALL PRIVILEGES, GRANT OPTION FROM a removes the privileges of a at every level.
//
// GRANT OPTION is tracked only as an element of the level sets (it is never probed).
package privmodel

import (
	"fmt"
	"sort"
	"strings"
)

// Priv is a static privilege name as written in GRANT statements.
type Priv string

const (
	Select      Priv = "SELECT"
	Insert      Priv = "INSERT"
	Update      Priv = "UPDATE"
	Delete      Priv = "DELETE"
	Create      Priv = "CREATE"
	Drop        Priv = "DROP"
	Alter       Priv = "ALTER"
	Index       Priv = "INDEX"
	CreateView  Priv = "CREATE VIEW"
	Execute     Priv = "EXECUTE"
	References  Priv = "REFERENCES"
	Trigger     Priv = "TRIGGER"
	ShowView    Priv = "SHOW VIEW"
	AlterRtn    Priv = "ALTER ROUTINE"
	CreateRtn   Priv = "CREATE ROUTINE"
	CreateTemp  Priv = "CREATE TEMPORARY TABLES"
	Event       Priv = "EVENT"
	LockTables  Priv = "LOCK TABLES"
	Super       Priv = "SUPER"
	GrantOption Priv = "GRANT OPTION"
	All         Priv = "ALL" // only inside Op.Privs
)

// TableAll, DBAll and GlobalAll are the expansions of ALL [PRIVILEGES] at each level
// (GRANT OPTION is never part of ALL).
var (
	TableAll  = []Priv{Alter, Create, CreateView, Delete, Drop, Index, Insert, References, Select, ShowView, Trigger, Update}
	DBAll     = []Priv{Alter, AlterRtn, Create, CreateRtn, CreateTemp, CreateView, Delete, Drop, Event, Execute, Index, Insert, LockTables, References, Select, ShowView, Trigger, Update}
	GlobalAll = append(append([]Priv{}, DBAll...), Super, "RELOAD", "SHUTDOWN", "PROCESS", "FILE", "SHOW DATABASES",
		"REPLICATION SLAVE", "REPLICATION CLIENT", "CREATE USER", "CREATE TABLESPACE", "CREATE ROLE", "DROP ROLE")
)

// Level of a grant.
type Level int

const (
	LGlobal Level = iota
	LDB
	LTable
	LRoutine
)

func (l Level) String() string { return [...]string{"global", "db", "table", "routine"}[l] }

// Acct names an account or role.
type Acct struct{ User, Host string }

func quote(s string) string { return "'" + strings.ReplaceAll(s, "'", "''") + "'" }

// SQL renders the account name as 'user'@'host'.
func (a Acct) SQL() string { return quote(a.User) + "@" + quote(a.Host) }

func (a Acct) String() string { return a.User + "@" + a.Host }

// Obj is a table or routine inside a database.
type Obj struct{ DB, Name string }

// Set is a set of privileges.
type Set map[Priv]bool

func (s Set) sorted() []Priv {
	var out []Priv
	for p := range s {
		out = append(out, p)
	}
	sort.Slice(out, func(i, j int) bool { return out[i] < out[j] })
	return out
}

// Account is one account or role with its own grants.
type Account struct {
	Acct
	IsRole       bool
	Password     string // "" = none
	Global       Set
	DB           map[string]Set
	Tbl          map[Obj]Set
	Rtn          map[Obj]Set
	Generation   int             // number of accounts created before this one (distinguishes re-created accounts)
	TaintDB      map[string]bool // a database-level REVOKE that emptied the database level was applied while table/routine grants existed
	TaintRevAll  bool            // REVOKE ALL PRIVILEGES, GRANT OPTION was applied while non-global grants existed
	EverGrantOpt bool            // some GRANT ... WITH GRANT OPTION named this account
}

func newAccount(a Acct, role bool, pw string, gen int) *Account {
	return &Account{Acct: a, IsRole: role, Password: pw, Global: Set{}, DB: map[string]Set{}, Tbl: map[Obj]Set{}, Rtn: map[Obj]Set{},
		Generation: gen, TaintDB: map[string]bool{}}
}

// Edge is a granted role.
type Edge struct {
	Role, To  Acct
	WithAdmin bool
}

// Model is the access-control state.
type Model struct {
	Accts   []*Account // in creation order
	Edges   []Edge
	created int
}

// New returns the empty model (the engine's root account is not modelled).
func New() *Model { return &Model{} }

// Get returns the account with exactly this name.
func (m *Model) Get(a Acct) *Account {
	for _, x := range m.Accts {
		if x.Acct == a {
			return x
		}
	}
	return nil
}

// Users returns the non-role accounts, Roles the roles.
func (m *Model) Users() (out []*Account) {
	for _, x := range m.Accts {
		if !x.IsRole {
			out = append(out, x)
		}
	}
	return
}

func (m *Model) Roles() (out []*Account) {
	for _, x := range m.Accts {
		if x.IsRole {
			out = append(out, x)
		}
	}
	return
}

// RolesOf returns the roles granted directly to a (in edge order).
func (m *Model) RolesOf(a Acct) (out []*Account) {
	for _, e := range m.Edges {
		if e.To == a {
			if r := m.Get(e.Role); r != nil {
				out = append(out, r)
			}
		}
	}
	return
}

// Resolve maps a session (user name, client address) to the account it runs as: the
// account with that user name whose host equals the address (loopback addresses count as
// localhost), otherwise the one with host '%'. Only the host forms {literal, '%'} are
// resolved here, for which MySQL's most-specific-first rule is unambiguous.
func (m *Model) Resolve(user, addr string) *Account {
	if addr == "127.0.0.1" || addr == "::1" {
		addr = "localhost"
	}
	if a := m.Get(Acct{user, addr}); a != nil && !a.IsRole {
		return a
	}
	if a := m.Get(Acct{user, "%"}); a != nil && !a.IsRole {
		return a
	}
	return nil
}

// Holding describes one place where a privilege is held.
type Holding struct {
	Via   Acct // the account itself or a role
	Role  bool
	Level Level
}

// TableHoldings lists where account a (and its direct roles) hold p for table db.tbl.
func (m *Model) TableHoldings(a *Account, p Priv, db, tbl string) (out []Holding) {
	for i, src := range append([]*Account{a}, m.RolesOf(a.Acct)...) {
		if src.Global[p] {
			out = append(out, Holding{src.Acct, i > 0, LGlobal})
		}
		if src.DB[db][p] {
			out = append(out, Holding{src.Acct, i > 0, LDB})
		}
		if src.Tbl[Obj{db, tbl}][p] {
			out = append(out, Holding{src.Acct, i > 0, LTable})
		}
	}
	return
}

// RoutineHoldings lists where account a (and its direct roles) hold p for routine db.name.
func (m *Model) RoutineHoldings(a *Account, p Priv, db, name string) (out []Holding) {
	for i, src := range append([]*Account{a}, m.RolesOf(a.Acct)...) {
		if src.Global[p] {
			out = append(out, Holding{src.Acct, i > 0, LGlobal})
		}
		if src.DB[db][p] {
			out = append(out, Holding{src.Acct, i > 0, LDB})
		}
		if src.Rtn[Obj{db, name}][p] {
			out = append(out, Holding{src.Acct, i > 0, LRoutine})
		}
	}
	return
}

// HasSuper reports whether a or one of its roles holds SUPER globally.
func (m *Model) HasSuper(a *Account) bool {
	for _, src := range append([]*Account{a}, m.RolesOf(a.Acct)...) {
		if src.Global[Super] {
			return true
		}
	}
	return false
}

// Accessible reports whether account a (with its direct roles) holds anything that makes
// database db usable: a global privilege, a database-level privilege on db, or a privilege
// on an object inside db (MySQL: "USE requires some privilege for the database or some
// object within it").
func (m *Model) Accessible(a *Account, db string) bool {
	for _, src := range append([]*Account{a}, m.RolesOf(a.Acct)...) {
		if len(src.Global) > 0 || len(src.DB[db]) > 0 || src.HasObjGrants(db) {
			return true
		}
	}
	return false
}

// UsedGrantOption reports whether WITH GRANT OPTION was ever applied to a or its direct
// roles. After REVOKE ALL ON <level> MySQL keeps GRANT OPTION while the model (following
// the engine) drops it, so "has no privilege at all" is only certain without it.
func (m *Model) UsedGrantOption(a *Account) bool {
	for _, src := range append([]*Account{a}, m.RolesOf(a.Acct)...) {
		if src.EverGrantOpt {
			return true
		}
	}
	return false
}

// HasNonGlobal reports whether the account has any grant below the global level.
func (a *Account) HasNonGlobal() bool {
	for _, s := range a.DB {
		if len(s) > 0 {
			return true
		}
	}
	return a.HasObjGrants("")
}

// HasObjGrants reports table/routine grants in database db ("" = any database).
func (a *Account) HasObjGrants(db string) bool {
	for o, s := range a.Tbl {
		if (db == "" || o.DB == db) && len(s) > 0 {
			return true
		}
	}
	for o, s := range a.Rtn {
		if (db == "" || o.DB == db) && len(s) > 0 {
			return true
		}
	}
	return false
}

// Levels returns how many distinct levels carry at least one grant of the account.
func (a *Account) Levels() int {
	n := 0
	if len(a.Global) > 0 {
		n++
	}
	for _, s := range a.DB {
		if len(s) > 0 {
			n++
			break
		}
	}
	for _, s := range a.Tbl {
		if len(s) > 0 {
			n++
			break
		}
	}
	for _, s := range a.Rtn {
		if len(s) > 0 {
			n++
			break
		}
	}
	return n
}

// Kind of an operation.
type Kind int

const (
	KCreateUser Kind = iota
	KCreateRole
	KDropUser
	KDropRole
	KGrant
	KRevoke
	KGrantRole
	KRevokeRole
	KRevokeEverything
)

func (k Kind) String() string {
	return [...]string{"create-user", "create-role", "drop-user", "drop-role", "grant", "revoke", "grant-role", "revoke-role", "revoke-everything"}[k]
}

// Op is one account-management statement.
type Op struct {
	Kind        Kind
	Target      Acct // account acted on (grantee / revokee / created / dropped)
	Role        Acct // for role grants
	Level       Level
	DB, Obj     string
	Privs       []Priv // {All} for ALL
	GrantOption bool   // WITH GRANT OPTION / WITH ADMIN OPTION
	Password    string // CREATE USER ... IDENTIFIED BY
	HasPassword bool
}

func ident(s string) string { return "`" + strings.ReplaceAll(s, "`", "``") + "`" }

func (o Op) levelSQL() string {
	switch o.Level {
	case LGlobal:
		return "*.*"
	case LDB:
		return ident(o.DB) + ".*"
	case LTable:
		return ident(o.DB) + "." + ident(o.Obj)
	default:
		return "PROCEDURE " + ident(o.DB) + "." + ident(o.Obj)
	}
}

func privList(ps []Priv) string {
	s := make([]string, len(ps))
	for i, p := range ps {
		s[i] = string(p)
	}
	return strings.Join(s, ", ")
}

// SQL renders the statement.
func (o Op) SQL() string {
	switch o.Kind {
	case KCreateUser:
		if o.HasPassword {
			return "CREATE USER " + o.Target.SQL() + " IDENTIFIED BY " + quote(o.Password)
		}
		return "CREATE USER " + o.Target.SQL()
	case KCreateRole:
		return "CREATE ROLE " + o.Target.SQL()
	case KDropUser:
		return "DROP USER " + o.Target.SQL()
	case KDropRole:
		return "DROP ROLE " + o.Target.SQL()
	case KGrant:
		s := "GRANT " + privList(o.Privs) + " ON " + o.levelSQL() + " TO " + o.Target.SQL()
		if o.GrantOption {
			s += " WITH GRANT OPTION"
		}
		return s
	case KRevoke:
		return "REVOKE " + privList(o.Privs) + " ON " + o.levelSQL() + " FROM " + o.Target.SQL()
	case KGrantRole:
		s := "GRANT " + o.Role.SQL() + " TO " + o.Target.SQL()
		if o.GrantOption {
			s += " WITH ADMIN OPTION"
		}
		return s
	case KRevokeRole:
		return "REVOKE " + o.Role.SQL() + " FROM " + o.Target.SQL()
	case KRevokeEverything:
		return "REVOKE ALL PRIVILEGES, GRANT OPTION FROM " + o.Target.SQL()
	}
	panic("unknown op kind")
}

func (o Op) String() string { return o.SQL() }

func expand(l Level, ps []Priv) []Priv {
	if len(ps) == 1 && ps[0] == All {
		switch l {
		case LGlobal:
			return GlobalAll
		case LDB:
			return DBAll
		case LTable:
			return TableAll
		}
		panic("ALL is not generated at the routine level")
	}
	return ps
}

func isAll(ps []Priv) bool { return len(ps) == 1 && ps[0] == All }

func (a *Account) set(l Level, db, obj string, create bool) Set {
	switch l {
	case LGlobal:
		return a.Global
	case LDB:
		if a.DB[db] == nil && create {
			a.DB[db] = Set{}
		}
		return a.DB[db]
	case LTable:
		k := Obj{db, obj}
		if a.Tbl[k] == nil && create {
			a.Tbl[k] = Set{}
		}
		return a.Tbl[k]
	default:
		k := Obj{db, obj}
		if a.Rtn[k] == nil && create {
			a.Rtn[k] = Set{}
		}
		return a.Rtn[k]
	}
}

// DBRevokeEmptiesWithObjGrants is the region predicate of candidate finding
// "C39-dbrevoke-drops-object-grants": a database-level REVOKE that leaves the database
// level of the account empty (or REVOKE ALL ON db.*) while the account holds table or
// routine grants inside that database.
func (m *Model) DBRevokeEmptiesWithObjGrants(o Op) bool {
	if o.Kind != KRevoke || o.Level != LDB {
		return false
	}
	a := m.Get(o.Target)
	if a == nil || !a.HasObjGrants(o.DB) {
		return false
	}
	if isAll(o.Privs) {
		return true
	}
	rest := 0
	for p := range a.DB[o.DB] {
		keep := true
		for _, q := range o.Privs {
			if p == q {
				keep = false
			}
		}
		if keep {
			rest++
		}
	}
	return rest == 0
}

// PartialGlobalRevokeUnderSuper is the region predicate of candidate finding
// "C39-super-implies-all": a global REVOKE of individual privileges from an account
// that holds SUPER (it keeps SUPER but loses the named privileges).
func (m *Model) PartialGlobalRevokeUnderSuper(o Op) bool {
	if o.Kind != KRevoke || o.Level != LGlobal || isAll(o.Privs) {
		return false
	}
	a := m.Get(o.Target)
	return a != nil && a.Global[Super]
}

// RevokeEverythingWithNonGlobal is the region predicate of candidate finding
// "C39-revoke-everything-global-only".
func (m *Model) RevokeEverythingWithNonGlobal(o Op) bool {
	if o.Kind != KRevokeEverything {
		return false
	}
	a := m.Get(o.Target)
	return a != nil && a.HasNonGlobal()
}

// Apply executes the operation on the model. The operation must be valid for the state
// (the generator guarantees it).
func (m *Model) Apply(o Op) {
	switch o.Kind {
	case KCreateUser, KCreateRole:
		if m.Get(o.Target) != nil {
			panic("privmodel: account exists: " + o.Target.String())
		}
		pw := ""
		if o.HasPassword {
			pw = o.Password
		}
		m.Accts = append(m.Accts, newAccount(o.Target, o.Kind == KCreateRole, pw, m.created))
		m.created++
	case KDropUser, KDropRole:
		for i, x := range m.Accts {
			if x.Acct == o.Target {
				m.Accts = append(m.Accts[:i:i], m.Accts[i+1:]...)
				break
			}
		}
		var keep []Edge
		for _, e := range m.Edges {
			if e.Role != o.Target && e.To != o.Target {
				keep = append(keep, e)
			}
		}
		m.Edges = keep
	case KGrant:
		a := m.Get(o.Target)
		s := a.set(o.Level, o.DB, o.Obj, true)
		for _, p := range expand(o.Level, o.Privs) {
			s[p] = true
		}
		if o.GrantOption {
			s[GrantOption] = true
			a.EverGrantOpt = true
		}
	case KRevoke:
		a := m.Get(o.Target)
		if m.DBRevokeEmptiesWithObjGrants(o) {
			a.TaintDB[o.DB] = true
		}
		s := a.set(o.Level, o.DB, o.Obj, false)
		if isAll(o.Privs) {
			// GRANT OPTION is cleared as well: MySQL keeps it on REVOKE ALL ON <level>, the engine
			// drops it; it is never probed, and following the engine here keeps the emptiness
			// prediction of DBRevokeEmptiesWithObjGrants exact.
			for p := range s {
				delete(s, p)
			}
		} else {
			for _, p := range o.Privs {
				delete(s, p)
			}
		}
	case KGrantRole:
		for i, e := range m.Edges {
			if e.Role == o.Role && e.To == o.Target {
				m.Edges[i].WithAdmin = o.GrantOption
				return
			}
		}
		m.Edges = append(m.Edges, Edge{o.Role, o.Target, o.GrantOption})
	case KRevokeRole:
		var keep []Edge
		for _, e := range m.Edges {
			if !(e.Role == o.Role && e.To == o.Target) {
				keep = append(keep, e)
			}
		}
		m.Edges = keep
	case KRevokeEverything:
		a := m.Get(o.Target)
		if a.HasNonGlobal() {
			a.TaintRevAll = true
		}
		a.Global, a.DB, a.Tbl, a.Rtn = Set{}, map[string]Set{}, map[Obj]Set{}, map[Obj]Set{}
	}
}

// Describe renders the grants of an account (for failure messages).
func (a *Account) Describe() string {
	var sb strings.Builder
	fmt.Fprintf(&sb, "%s", a.Acct)
	if a.IsRole {
		sb.WriteString(" (role)")
	}
	if len(a.Global) > 0 {
		fmt.Fprintf(&sb, " global=%v", a.Global.sorted())
	}
	var dbs []string
	for d := range a.DB {
		dbs = append(dbs, d)
	}
	sort.Strings(dbs)
	for _, d := range dbs {
		if len(a.DB[d]) > 0 {
			fmt.Fprintf(&sb, " %s.*=%v", d, a.DB[d].sorted())
		}
	}
	for _, mm := range []map[Obj]Set{a.Tbl, a.Rtn} {
		var objs []Obj
		for o := range mm {
			objs = append(objs, o)
		}
		sort.Slice(objs, func(i, j int) bool {
			if objs[i].DB != objs[j].DB {
				return objs[i].DB < objs[j].DB
			}
			return objs[i].Name < objs[j].Name
		})
		for _, o := range objs {
			if len(mm[o]) > 0 {
				fmt.Fprintf(&sb, " %s.%s=%v", o.DB, o.Name, mm[o].sorted())
			}
		}
	}
	return sb.String()
}

// Describe renders the whole model.
func (m *Model) Describe() string {
	var sb strings.Builder
	for _, a := range m.Accts {
		sb.WriteString("  " + a.Describe() + "\n")
	}
	for _, e := range m.Edges {
		fmt.Fprintf(&sb, "  edge %s -> %s\n", e.Role, e.To)
	}
	return sb.String()
}
