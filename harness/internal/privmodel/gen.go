package privmodel

import (
	"sort"

	"pgregory.net/rapid"
)

// Config is the domain of the history generator.
type Config struct {
	Users     []Acct   // pool of user accounts that may be created
	Roles     []Acct   // pool of roles (host '%')
	DBs       []string // database names used in grants
	Tables    []string // table names used in table-level grants
	Procs     []string // procedure names used in routine-level grants
	Privs     []Priv   // pool for global and database level grants (table level: intersected with TableAll)
	Options   bool     // generate WITH GRANT OPTION / WITH ADMIN OPTION
	Passwords []string // if non-empty, CREATE USER draws IDENTIFIED BY from this pool ("" = no clause)
	// Exclude is asked for every drawn operation; a non-empty answer (a finding id) makes the
	// generator drop the operation and report it through Excluded.
	Exclude  func(m *Model, o Op) string
	Excluded func(id string)
}

func (c *Config) free(m *Model, pool []Acct) (out []Acct) {
	for _, a := range pool {
		if m.Get(a) == nil {
			out = append(out, a)
		}
	}
	return
}

func tablePrivs(pool []Priv) (out []Priv) {
	ok := map[Priv]bool{}
	for _, p := range TableAll {
		ok[p] = true
	}
	for _, p := range pool {
		if ok[p] {
			out = append(out, p)
		}
	}
	return
}

func routinePrivs() []Priv { return []Priv{Execute, Execute, AlterRtn} }

type held struct {
	l       Level
	db, obj string
	p       Priv
}

// holdings lists every (level, object, privilege) of the account in a deterministic order.
func holdings(a *Account) (out []held) {
	for _, p := range a.Global.sorted() {
		out = append(out, held{LGlobal, "", "", p})
	}
	var dbs []string
	for d := range a.DB {
		dbs = append(dbs, d)
	}
	sort.Strings(dbs)
	for _, d := range dbs {
		for _, p := range a.DB[d].sorted() {
			out = append(out, held{LDB, d, "", p})
		}
	}
	for li, mm := range []map[Obj]Set{a.Tbl, a.Rtn} {
		var objs []Obj
		for o := range mm {
			objs = append(objs, o)
		}
		sort.Slice(objs, func(i, j int) bool {
			if objs[i].DB != objs[j].DB {
				return objs[i].DB < objs[j].DB
			}
			return objs[i].Name < objs[j].Name
		})
		for _, o := range objs {
			for _, p := range mm[o].sorted() {
				out = append(out, held{LTable + Level(li), o.DB, o.Name, p})
			}
		}
	}
	return
}

func validAt(l Level, p Priv) bool {
	switch l {
	case LGlobal, LDB:
		return true
	case LTable:
		for _, q := range TableAll {
			if p == q {
				return true
			}
		}
		return false
	default:
		return p == Execute || p == AlterRtn
	}
}

// Draw draws one valid operation for the current state. ok=false means the drawn
// operation fell into an excluded region (already reported) and nothing is to be done.
func Draw(rt *rapid.T, m *Model, c *Config) (op Op, ok bool) {
	users, roles := m.Users(), m.Roles()
	freeU, freeR := c.free(m, c.Users), c.free(m, c.Roles)

	var kinds []Kind
	add := func(k Kind, w int) {
		for i := 0; i < w; i++ {
			kinds = append(kinds, k)
		}
	}
	if len(freeU) > 0 {
		w := 1
		if len(users) == 0 {
			w = 30
		}
		add(KCreateUser, w)
	}
	if len(freeR) > 0 {
		w := 1
		if len(roles) == 0 && len(users) > 0 {
			w = 6
		}
		add(KCreateRole, w)
	}
	if len(m.Accts) > 0 {
		add(KGrant, 14)
		add(KRevoke, 10)
		add(KRevokeEverything, 1)
	}
	if len(users) > 0 && len(roles) > 0 {
		add(KGrantRole, 5)
	}
	if len(m.Edges) > 0 {
		add(KRevokeRole, 2)
	}
	if len(users) > 0 {
		add(KDropUser, 1)
	}
	if len(roles) > 0 {
		add(KDropRole, 1)
	}
	return DrawKind(rt, m, c, rapid.SampledFrom(kinds).Draw(rt, "kind"))
}

// Applicable reports whether an operation of kind k can be generated in the current state.
func Applicable(m *Model, c *Config, k Kind) bool {
	switch k {
	case KCreateUser:
		return len(c.free(m, c.Users)) > 0
	case KCreateRole:
		return len(c.free(m, c.Roles)) > 0
	case KDropUser:
		return len(m.Users()) > 0
	case KDropRole:
		return len(m.Roles()) > 0
	case KGrantRole:
		return len(m.Users()) > 0 && len(m.Roles()) > 0
	case KRevokeRole:
		return len(m.Edges) > 0
	}
	return len(m.Accts) > 0
}

// DrawKind draws one valid operation of the given kind (which must be Applicable).
func DrawKind(rt *rapid.T, m *Model, c *Config, k Kind) (op Op, ok bool) {
	users, roles := m.Users(), m.Roles()
	freeU, freeR := c.free(m, c.Users), c.free(m, c.Roles)
	op.Kind = k
	anyAcct := func() *Account { return rapid.SampledFrom(m.Accts).Draw(rt, "acct") }
	switch k {
	case KCreateUser:
		op.Target = rapid.SampledFrom(freeU).Draw(rt, "newuser")
		if len(c.Passwords) > 0 {
			op.Password = rapid.SampledFrom(c.Passwords).Draw(rt, "password")
			op.HasPassword = op.Password != "" || rapid.Bool().Draw(rt, "emptypw")
		}
	case KCreateRole:
		op.Target = rapid.SampledFrom(freeR).Draw(rt, "newrole")
	case KDropUser:
		op.Target = rapid.SampledFrom(users).Draw(rt, "dropuser").Acct
	case KDropRole:
		op.Target = rapid.SampledFrom(roles).Draw(rt, "droprole").Acct
	case KGrantRole:
		op.Role = rapid.SampledFrom(roles).Draw(rt, "role").Acct
		op.Target = rapid.SampledFrom(users).Draw(rt, "to").Acct
		op.GrantOption = c.Options && rapid.IntRange(0, 3).Draw(rt, "admin") == 0
	case KRevokeRole:
		e := rapid.SampledFrom(m.Edges).Draw(rt, "edge")
		op.Role, op.Target = e.Role, e.To
	case KRevokeEverything:
		op.Target = anyAcct().Acct
	case KGrant:
		a := anyAcct()
		op.Target = a.Acct
		op.Level = Level(rapid.SampledFrom([]int{0, 0, 1, 1, 1, 1, 2, 2, 2, 2, 2, 3, 3}).Draw(rt, "level"))
		c.drawObject(rt, &op)
		op.Privs = c.drawPrivs(rt, op.Level, true)
		op.GrantOption = c.Options && op.Level != LRoutine && rapid.IntRange(0, 5).Draw(rt, "grantopt") == 0
	case KRevoke:
		a := anyAcct()
		op.Target = a.Acct
		hs := holdings(a)
		mode := rapid.IntRange(0, 9).Draw(rt, "revmode")
		if len(hs) > 0 && mode < 8 {
			h := rapid.SampledFrom(hs).Draw(rt, "held")
			p := h.p
			if p == GrantOption || !inPool(c, p) {
				// pick a revocable named privilege instead of the bookkeeping ones of ALL
				p = rapid.SampledFrom(c.Privs).Draw(rt, "altpriv")
			}
			if mode < 4 {
				// revoke exactly what is held, where it is held
				op.Level, op.DB, op.Obj = h.l, h.db, h.obj
			} else {
				// revoke the same privilege at a *different* level of the same hierarchy path:
				// levels are independent, so the holding must survive
				op.Level = Level((int(h.l) + rapid.IntRange(1, 3).Draw(rt, "otherlevel")) % 4)
				op.DB, op.Obj = h.db, h.obj
				if op.DB == "" && op.Level != LGlobal {
					op.DB = rapid.SampledFrom(c.DBs).Draw(rt, "db")
				}
				switch op.Level {
				case LGlobal:
					op.DB, op.Obj = "", ""
				case LDB:
					op.Obj = ""
				case LTable:
					if h.l != LTable {
						op.Obj = rapid.SampledFrom(c.Tables).Draw(rt, "tbl")
					}
				case LRoutine:
					if h.l != LRoutine {
						op.Obj = rapid.SampledFrom(c.Procs).Draw(rt, "proc")
					}
				}
			}
			if !validAt(op.Level, p) {
				ps := c.drawPrivs(rt, op.Level, false)
				op.Privs = ps
			} else if rapid.IntRange(0, 7).Draw(rt, "revall") == 0 && op.Level != LRoutine {
				op.Privs = []Priv{All}
			} else {
				op.Privs = []Priv{p}
			}
		} else {
			op.Level = Level(rapid.IntRange(0, 3).Draw(rt, "level"))
			c.drawObject(rt, &op)
			op.Privs = c.drawPrivs(rt, op.Level, true)
		}
	}
	if c.Exclude != nil {
		if id := c.Exclude(m, op); id != "" {
			if c.Excluded != nil {
				c.Excluded(id)
			}
			return op, false
		}
	}
	return op, true
}

func inPool(c *Config, p Priv) bool {
	for _, q := range c.Privs {
		if p == q {
			return true
		}
	}
	return p == AlterRtn
}

func (c *Config) drawObject(rt *rapid.T, op *Op) {
	switch op.Level {
	case LGlobal:
	case LDB:
		op.DB = rapid.SampledFrom(c.DBs).Draw(rt, "db")
	case LTable:
		op.DB = rapid.SampledFrom(c.DBs).Draw(rt, "db")
		op.Obj = rapid.SampledFrom(c.Tables).Draw(rt, "tbl")
	case LRoutine:
		op.DB = rapid.SampledFrom(c.DBs).Draw(rt, "db")
		op.Obj = rapid.SampledFrom(c.Procs).Draw(rt, "proc")
	}
}

func (c *Config) drawPrivs(rt *rapid.T, l Level, allowAll bool) []Priv {
	var pool []Priv
	switch l {
	case LGlobal, LDB:
		pool = c.Privs
	case LTable:
		pool = tablePrivs(c.Privs)
	default:
		return []Priv{rapid.SampledFrom(routinePrivs()).Draw(rt, "rpriv")}
	}
	if allowAll && rapid.IntRange(0, 9).Draw(rt, "all") == 0 {
		return []Priv{All}
	}
	n := rapid.SampledFrom([]int{1, 1, 1, 2, 2, 3}).Draw(rt, "npriv")
	seen := map[Priv]bool{}
	var out []Priv
	for i := 0; i < n; i++ {
		p := rapid.SampledFrom(pool).Draw(rt, "priv")
		if !seen[p] {
			seen[p] = true
			out = append(out, p)
		}
	}
	return out
}
