// Package gen holds the rapid generators shared by the query-level checks: small schemas
// with colliding data, a typed expression/predicate AST and a query AST, each with SQL
// rendering. The same AST is interpreted by package ref (the reference evaluator).
//
// Soundness discipline: constructors only build same-type-class comparisons
// (number with number, string with string under the binary collation); integers stay
// small so that arithmetic never leaves the exact range; no division; no
// non-deterministic functions.
package gen

import (
	"fmt"
	"math/big"
	"sort"
	"strings"

	"pgregory.net/rapid"
)

// ---------------------------------------------------------------------------------------
// values and types

type Kind int

const (
	KInt Kind = iota // INT
	KDec             // DECIMAL(10,2)
	KStr             // VARCHAR(8), utf8mb4_0900_bin
)

func (k Kind) DDL() string {
	switch k {
	case KInt:
		return "INT"
	case KDec:
		return "DECIMAL(10,2)"
	default:
		return "VARCHAR(8)"
	}
}

// Numeric reports whether the kind is a number.
func (k Kind) Numeric() bool { return k != KStr }

// Val is a SQL value of the fragment: NULL, an exact number or a string.
type Val struct {
	Null bool
	Str  bool
	R    *big.Rat
	S    string
}

var Null = Val{Null: true}

func Int(i int64) Val    { return Val{R: new(big.Rat).SetInt64(i)} }
func Rat(r *big.Rat) Val { return Val{R: r} }
func Str(s string) Val   { return Val{Str: true, S: s} }
func Bool(b bool) Val {
	if b {
		return Int(1)
	}
	return Int(0)
}

// Norm renders the value in fx's canonical form.
func (v Val) Norm() string {
	switch {
	case v.Null:
		return "N"
	case v.Str:
		return "s:" + v.S
	default:
		return "n:" + v.R.RatString()
	}
}

// Lit renders the value as a SQL literal of kind k.
func (v Val) Lit(k Kind) string {
	if v.Null {
		return "NULL"
	}
	if v.Str {
		return QuoteStr(v.S)
	}
	if k == KDec {
		return v.R.FloatString(2)
	}
	if v.R.IsInt() {
		return v.R.Num().String()
	}
	return v.R.FloatString(2)
}

// QuoteStr renders a SQL string literal.
func QuoteStr(s string) string {
	s = strings.ReplaceAll(s, `\`, `\\`)
	s = strings.ReplaceAll(s, `'`, `''`)
	return "'" + s + "'"
}

// Cmp compares two non-NULL values of the same class.
func Cmp(a, b Val) int {
	if a.Str != b.Str {
		panic("gen.Cmp: mixed classes")
	}
	if a.Str {
		return strings.Compare(a.S, b.S)
	}
	return a.R.Cmp(b.R)
}

// ---------------------------------------------------------------------------------------
// schema and data

type Col struct {
	Name     string
	Kind     Kind
	Nullable bool
}

type Table struct {
	Name    string
	Cols    []Col
	PK      []int   // column indexes, empty = keyless
	Indexes [][]int // secondary (non-unique) indexes
	Rows    [][]Val
}

type Schema struct{ Tables []*Table }

var strPool = []string{"", "a", "A", "á", "ab", "aB", "b", "a ", "10", "9"}

// GenVal draws a value of kind k from the small colliding domain.
func GenVal(t *rapid.T, k Kind, nullable bool, label string) Val {
	if nullable && rapid.IntRange(0, 3).Draw(t, label+"null") == 0 {
		return Null
	}
	switch k {
	case KInt:
		return Int(int64(rapid.IntRange(-3, 4).Draw(t, label)))
	case KDec:
		return Rat(big.NewRat(int64(rapid.IntRange(-6, 10).Draw(t, label)), 4))
	default:
		return Str(rapid.SampledFrom(strPool).Draw(t, label))
	}
}

// SchemaOpts bounds schema generation.
type SchemaOpts struct {
	MinTables, MaxTables int
	MaxRows              int
	Keys                 bool // draw primary keys and secondary indexes
	ForcePK              bool
}

// GenSchema draws tables t0..tn with 2–4 columns each and 0..MaxRows rows.
func GenSchema(t *rapid.T, o SchemaOpts) *Schema {
	if o.MaxTables == 0 {
		o.MinTables, o.MaxTables = 1, 3
	}
	if o.MaxRows == 0 {
		o.MaxRows = 10
	}
	s := &Schema{}
	nt := rapid.IntRange(o.MinTables, o.MaxTables).Draw(t, "ntables")
	for ti := 0; ti < nt; ti++ {
		tb := &Table{Name: fmt.Sprintf("t%d", ti)}
		nc := rapid.IntRange(2, 4).Draw(t, "ncols")
		for ci := 0; ci < nc; ci++ {
			k := Kind(rapid.IntRange(0, 2).Draw(t, "kind"))
			if ci == 0 {
				k = KInt // every table has an INT column to join on
			}
			tb.Cols = append(tb.Cols, Col{Name: fmt.Sprintf("c%d", ci), Kind: k, Nullable: true})
		}
		if o.Keys {
			switch sel := rapid.IntRange(0, 3).Draw(t, "pk"); {
			case sel == 1 || (o.ForcePK && sel == 0):
				tb.PK = []int{0}
			case sel == 2 && nc >= 2:
				tb.PK = []int{0, 1}
			}
			for _, c := range tb.PK {
				tb.Cols[c].Nullable = false
			}
			nidx := rapid.IntRange(0, 2).Draw(t, "nidx")
			for i := 0; i < nidx; i++ {
				a := rapid.IntRange(0, nc-1).Draw(t, "idxcol")
				idx := []int{a}
				if rapid.IntRange(0, 2).Draw(t, "idx2") == 0 {
					b := rapid.IntRange(0, nc-1).Draw(t, "idxcol2")
					if b != a {
						idx = append(idx, b)
					}
				}
				tb.Indexes = append(tb.Indexes, idx)
			}
		}
		nr := rapid.IntRange(0, o.MaxRows).Draw(t, "nrows")
		seen := map[string]bool{}
		for ri := 0; ri < nr; ri++ {
			row := make([]Val, nc)
			for ci, c := range tb.Cols {
				row[ci] = GenVal(t, c.Kind, c.Nullable, "v")
			}
			if len(tb.PK) > 0 {
				key := ""
				for _, c := range tb.PK {
					key += row[c].Norm() + "\x00"
				}
				if seen[key] {
					continue
				}
				seen[key] = true
			}
			tb.Rows = append(tb.Rows, row)
		}
		s.Tables = append(s.Tables, tb)
	}
	return s
}

// DDL renders CREATE TABLE (+ INSERT) statements. withKeys=false gives the index-free twin.
func (tb *Table) DDL(name string, withKeys bool) []string {
	var parts []string
	for _, c := range tb.Cols {
		d := c.Name + " " + c.Kind.DDL()
		if !c.Nullable {
			d += " NOT NULL"
		}
		parts = append(parts, d)
	}
	if withKeys {
		if len(tb.PK) > 0 {
			parts = append(parts, "PRIMARY KEY ("+tb.colList(tb.PK)+")")
		}
		for i, idx := range tb.Indexes {
			parts = append(parts, fmt.Sprintf("KEY k%d (%s)", i, tb.colList(idx)))
		}
	}
	out := []string{"CREATE TABLE " + name + " (" + strings.Join(parts, ", ") + ")"}
	if len(tb.Rows) > 0 {
		var rows []string
		for _, r := range tb.Rows {
			vs := make([]string, len(r))
			for i, v := range r {
				vs[i] = v.Lit(tb.Cols[i].Kind)
			}
			rows = append(rows, "("+strings.Join(vs, ",")+")")
		}
		out = append(out, "INSERT INTO "+name+" VALUES "+strings.Join(rows, ","))
	}
	return out
}

func (tb *Table) colList(idx []int) string {
	ns := make([]string, len(idx))
	for i, c := range idx {
		ns[i] = tb.Cols[c].Name
	}
	return strings.Join(ns, ",")
}

// DDL renders all tables.
func (s *Schema) DDL(withKeys bool) []string {
	var out []string
	for _, tb := range s.Tables {
		out = append(out, tb.DDL(tb.Name, withKeys)...)
	}
	return out
}

// Describe renders schema and data compactly for failure messages and samples.
func (s *Schema) Describe() string {
	return strings.Join(s.DDL(true), "; ")
}

// ---------------------------------------------------------------------------------------
// expressions

// Expr is a typed scalar expression. Boolean expressions have kind KInt (0/1/NULL).
type Expr interface {
	SQL() string
	Kind() Kind
}

type ColRef struct {
	Alias string
	Col   int
	Name  string
	K     Kind
}

func (e *ColRef) SQL() string { return e.Alias + "." + e.Name }
func (e *ColRef) Kind() Kind  { return e.K }

type Lit struct {
	V Val
	K Kind
}

func (e *Lit) SQL() string { return e.V.Lit(e.K) }
func (e *Lit) Kind() Kind  { return e.K }

// Cmp is a binary comparison: = <> < <= > >= <=>
type CmpE struct {
	Op   string
	L, R Expr
}

func (e *CmpE) SQL() string { return "(" + e.L.SQL() + " " + e.Op + " " + e.R.SQL() + ")" }
func (e *CmpE) Kind() Kind  { return KInt }

type IsNull struct {
	E   Expr
	Not bool
}

func (e *IsNull) SQL() string {
	if e.Not {
		return "(" + e.E.SQL() + " IS NOT NULL)"
	}
	return "(" + e.E.SQL() + " IS NULL)"
}
func (e *IsNull) Kind() Kind { return KInt }

// Logic is AND / OR.
type Logic struct {
	Op   string
	L, R Expr
}

func (e *Logic) SQL() string { return "(" + e.L.SQL() + " " + e.Op + " " + e.R.SQL() + ")" }
func (e *Logic) Kind() Kind  { return KInt }

type Not struct{ E Expr }

func (e *Not) SQL() string { return "(NOT " + e.E.SQL() + ")" }
func (e *Not) Kind() Kind  { return KInt }

type Between struct {
	E, Lo, Hi Expr
	Not       bool
}

func (e *Between) SQL() string {
	n := ""
	if e.Not {
		n = "NOT "
	}
	return "(" + e.E.SQL() + " " + n + "BETWEEN " + e.Lo.SQL() + " AND " + e.Hi.SQL() + ")"
}
func (e *Between) Kind() Kind { return KInt }

type InList struct {
	E    Expr
	List []Expr
	Not  bool
}

func (e *InList) SQL() string {
	n := ""
	if e.Not {
		n = "NOT "
	}
	ls := make([]string, len(e.List))
	for i, x := range e.List {
		ls[i] = x.SQL()
	}
	return "(" + e.E.SQL() + " " + n + "IN (" + strings.Join(ls, ",") + "))"
}
func (e *InList) Kind() Kind { return KInt }

type Case struct {
	Whens []Expr
	Thens []Expr
	Else  Expr // may be nil
	K     Kind
}

func (e *Case) SQL() string {
	var sb strings.Builder
	sb.WriteString("(CASE")
	for i := range e.Whens {
		sb.WriteString(" WHEN " + e.Whens[i].SQL() + " THEN " + e.Thens[i].SQL())
	}
	if e.Else != nil {
		sb.WriteString(" ELSE " + e.Else.SQL())
	}
	sb.WriteString(" END)")
	return sb.String()
}
func (e *Case) Kind() Kind { return e.K }

type Coalesce struct {
	Args []Expr
	K    Kind
}

func (e *Coalesce) SQL() string {
	ls := make([]string, len(e.Args))
	for i, x := range e.Args {
		ls[i] = x.SQL()
	}
	return "COALESCE(" + strings.Join(ls, ",") + ")"
}
func (e *Coalesce) Kind() Kind { return e.K }

// Arith is + - * on integers.
type Arith struct {
	Op   string
	L, R Expr
}

func (e *Arith) SQL() string { return "(" + e.L.SQL() + " " + e.Op + " " + e.R.SQL() + ")" }
func (e *Arith) Kind() Kind  { return KInt }

// InSub is e [NOT] IN (single-column subquery).
type InSub struct {
	E   Expr
	Q   *Select
	Not bool
}

func (e *InSub) SQL() string {
	n := ""
	if e.Not {
		n = "NOT "
	}
	return "(" + e.E.SQL() + " " + n + "IN (" + e.Q.SQL() + "))"
}
func (e *InSub) Kind() Kind { return KInt }

type Exists struct {
	Q   *Select
	Not bool
}

func (e *Exists) SQL() string {
	n := ""
	if e.Not {
		n = "NOT "
	}
	return "(" + n + "EXISTS (" + e.Q.SQL() + "))"
}
func (e *Exists) Kind() Kind { return KInt }

// ScalarSub is a scalar subquery; Q is always an ungrouped single-aggregate query.
type ScalarSub struct {
	Q *Select
	K Kind
}

func (e *ScalarSub) SQL() string { return "(" + e.Q.SQL() + ")" }
func (e *ScalarSub) Kind() Kind  { return e.K }

// Agg is an aggregate call; Arg is nil for COUNT(*).
type Agg struct {
	Fn       string // COUNT, SUM, MIN, MAX, AVG
	Arg      Expr
	Distinct bool
	K        Kind
}

func (e *Agg) SQL() string {
	if e.Arg == nil {
		return "COUNT(*)"
	}
	d := ""
	if e.Distinct {
		d = "DISTINCT "
	}
	return e.Fn + "(" + d + e.Arg.SQL() + ")"
}
func (e *Agg) Kind() Kind { return e.K }

// Approx reports whether the aggregate's value is compared with a tolerance (AVG).
func (e *Agg) Approx() bool { return e.Fn == "AVG" }

// Raw is an opaque SQL fragment of a known kind (used by checks that need no reference
// evaluation: functions, wide grammar).
type Raw struct {
	Text string
	K    Kind
}

func (e *Raw) SQL() string { return e.Text }
func (e *Raw) Kind() Kind  { return e.K }

// ---------------------------------------------------------------------------------------
// queries

type Item struct {
	E     Expr
	Alias string
}

type From struct {
	Join  string // "" for the first item; INNER, LEFT, RIGHT, CROSS
	Table *Table
	Name  string // table name as rendered (twin tables use another name)
	Alias string
	On    Expr // nil for first item and CROSS
}

type Order struct {
	Item int // index into Items
	Desc bool
}

// Select is one SELECT block.
type Select struct {
	Hint     string // optimizer hint comment, "" for none
	Distinct bool
	Items    []Item
	From     []From
	Where    Expr
	GroupBy  []Expr
	Grouped  bool // aggregate query (GroupBy may still be empty)
	Having   Expr
	OrderBy  []Order
	Limit    int // -1 = none
	Offset   int // -1 = none
}

func (q *Select) SQL() string {
	var sb strings.Builder
	sb.WriteString("SELECT ")
	if q.Hint != "" {
		sb.WriteString(q.Hint + " ")
	}
	if q.Distinct {
		sb.WriteString("DISTINCT ")
	}
	for i, it := range q.Items {
		if i > 0 {
			sb.WriteString(", ")
		}
		sb.WriteString(it.E.SQL())
		if it.Alias != "" {
			sb.WriteString(" AS " + it.Alias)
		}
	}
	sb.WriteString(" FROM ")
	for i, f := range q.From {
		if i > 0 {
			sb.WriteString(" " + f.Join + " JOIN ")
		}
		sb.WriteString(f.Name + " " + f.Alias)
		if f.On != nil {
			sb.WriteString(" ON " + f.On.SQL())
		}
	}
	if q.Where != nil {
		sb.WriteString(" WHERE " + q.Where.SQL())
	}
	if len(q.GroupBy) > 0 {
		sb.WriteString(" GROUP BY ")
		for i, g := range q.GroupBy {
			if i > 0 {
				sb.WriteString(", ")
			}
			sb.WriteString(g.SQL())
		}
	}
	if q.Having != nil {
		sb.WriteString(" HAVING " + q.Having.SQL())
	}
	if len(q.OrderBy) > 0 {
		sb.WriteString(" ORDER BY ")
		for i, o := range q.OrderBy {
			if i > 0 {
				sb.WriteString(", ")
			}
			sb.WriteString(q.Items[o.Item].Alias)
			if o.Desc {
				sb.WriteString(" DESC")
			}
		}
	}
	if q.Limit >= 0 {
		sb.WriteString(fmt.Sprintf(" LIMIT %d", q.Limit))
		if q.Offset >= 0 {
			sb.WriteString(fmt.Sprintf(" OFFSET %d", q.Offset))
		}
	}
	return sb.String()
}

// SetOp combines two query nodes.
type SetOp struct {
	Op   string // UNION, INTERSECT, EXCEPT
	All  bool
	L, R Query
}

// Query is a Select or a SetOp.
type Query interface {
	SQL() string
	Arity() int
}

func (q *Select) Arity() int { return len(q.Items) }
func (q *SetOp) Arity() int  { return q.L.Arity() }
func (q *SetOp) SQL() string {
	op := q.Op
	if q.All {
		op += " ALL"
	}
	return "(" + q.L.SQL() + ") " + op + " (" + q.R.SQL() + ")"
}

// ---------------------------------------------------------------------------------------
// generation

// Labels collects the feature labels of a generated query (for distribution statistics
// and for the non-trivial rules of the checks).
type Labels map[string]bool

func (l Labels) Sorted() []string {
	out := make([]string, 0, len(l))
	for k := range l {
		out = append(out, k)
	}
	sort.Strings(out)
	return out
}

type scopeTab struct {
	alias string
	tb    *Table
}

type scope struct {
	tabs   []scopeTab
	parent *scope
}

// G is a query generator over one schema.
type G struct {
	T      *rapid.T
	S      *Schema
	L      Labels
	nAlias int
	// options
	NoSubquery bool
	NoSetOp    bool
	NoGroup    bool
	NoOrder    bool
	// Excl counts generator choices that were narrowed because the wider choice lies in the
	// region of a known finding (transferred to stats.Excluded by the checks).
	Excl map[string]int
	// AllowKnown re-enables regions excluded because of known findings (used by witness tests).
	AllowKnown bool
	MaxJoin    int  // max number of FROM items (default 3)
	MinJoin    int  // min number of FROM items (default 1)
	RangeJoins bool // also generate range / BETWEEN ON predicates
}

func NewG(t *rapid.T, s *Schema) *G {
	return &G{T: t, S: s, L: Labels{}, Excl: map[string]int{}, MaxJoin: 3, MinJoin: 1}
}

func (g *G) alias() string {
	g.nAlias++
	return fmt.Sprintf("x%d", g.nAlias)
}

func (g *G) intn(lo, hi int, label string) int { return rapid.IntRange(lo, hi).Draw(g.T, label) }
func (g *G) chance(n int, label string) bool   { return rapid.IntRange(0, n-1).Draw(g.T, label) == 0 }

// colsOf returns the column references of kind class matching `numeric`/string in scope.
func (sc *scope) cols(wantNum bool, outer bool) []*ColRef {
	var out []*ColRef
	for _, st := range sc.tabs {
		for ci, c := range st.tb.Cols {
			if c.Kind.Numeric() == wantNum {
				out = append(out, &ColRef{Alias: st.alias, Col: ci, Name: c.Name, K: c.Kind})
			}
		}
	}
	if outer && sc.parent != nil {
		out = append(out, sc.parent.cols(wantNum, true)...)
	}
	return out
}

func (sc *scope) colsKind(k Kind) []*ColRef {
	var out []*ColRef
	for _, c := range sc.cols(k.Numeric(), false) {
		if c.K == k {
			out = append(out, c)
		}
	}
	return out
}

// leaf draws a column reference or literal of the class of kind k. For KInt with
// exactInt the result is an INT (no decimal columns), so arithmetic stays integral.
func (g *G) leaf(sc *scope, k Kind, exactKind bool) Expr {
	var cands []*ColRef
	if exactKind {
		for _, c := range sc.cols(k.Numeric(), true) {
			if c.K == k {
				cands = append(cands, c)
			}
		}
	} else {
		cands = sc.cols(k.Numeric(), true)
	}
	if len(cands) > 0 && !g.chance(3, "lit") {
		c := cands[g.intn(0, len(cands)-1, "col")]
		return c
	}
	kk := k
	if !exactKind && k.Numeric() && g.chance(3, "declit") {
		kk = KDec
	}
	return &Lit{V: GenVal(g.T, kk, g.chance(8, "nulllit"), "litv"), K: kk}
}

// Scalar draws a scalar expression of kind k (KInt → integer-valued, KDec → numeric, KStr).
func (g *G) Scalar(sc *scope, k Kind, depth int) Expr {
	// branches of CASE / COALESCE always have exactly kind k: mixing INT and DECIMAL branches
	// is an implicit conversion, which the fragment excludes (and where the engine returns
	// unconverted branch values - recorded as an observation for C07/C09)
	if depth <= 0 || g.chance(2, "leaf") {
		return g.leaf(sc, k, true)
	}
	switch g.intn(0, 3, "scalar") {
	case 0:
		if k == KInt {
			g.L["arith"] = true
			return &Arith{Op: rapid.SampledFrom([]string{"+", "-", "*"}).Draw(g.T, "aop"),
				L: g.Scalar(sc, KInt, depth-1), R: g.Scalar(sc, KInt, depth-1)}
		}
		return g.leaf(sc, k, true)
	case 1:
		g.L["case"] = true
		n := g.intn(1, 2, "nwhen")
		c := &Case{K: k}
		for i := 0; i < n; i++ {
			c.Whens = append(c.Whens, g.Pred(sc, depth-1))
			c.Thens = append(c.Thens, g.Scalar(sc, k, depth-1))
		}
		if g.chance(2, "else") {
			c.Else = g.Scalar(sc, k, depth-1)
		}
		return c
	case 2:
		g.L["coalesce"] = true
		n := g.intn(2, 3, "ncoal")
		c := &Coalesce{K: k}
		for i := 0; i < n; i++ {
			c.Args = append(c.Args, g.Scalar(sc, k, depth-1))
		}
		return c
	default:
		if !g.NoSubquery && depth >= 2 && g.chance(2, "ssub") {
			if e := g.scalarSub(sc, k); e != nil {
				return e
			}
		}
		return g.leaf(sc, k, true)
	}
}

// operand draws a comparison operand of the class of k; numeric operands may be INT or DECIMAL.
func (g *G) operand(sc *scope, numeric bool, depth int) Expr {
	if !numeric {
		return g.Scalar(sc, KStr, depth)
	}
	if g.chance(3, "decop") {
		return g.leaf(sc, KDec, false)
	}
	return g.Scalar(sc, KInt, depth)
}

// cmp builds a comparison. Column = column between an INT and a DECIMAL column is the
// region of known finding C01-lookup-key-rounding (such an equality can become the key of a
// lookup join); the right side is replaced by a literal there.
func (g *G) cmp(op string, l, r Expr) Expr {
	l, r = g.intLit(l, r), g.intLit(r, l)
	if (op == "=" || op == "<=>") && !g.AllowKnown {
		lc, lok := l.(*ColRef)
		rc, rok := r.(*ColRef)
		if lok && rok && lc.K != rc.K {
			g.Excl["C01-lookup-key-rounding"]++
			r = &Lit{V: GenVal(g.T, rc.K, false, "exclv"), K: rc.K}
		}
	}
	return &CmpE{Op: op, L: l, R: r}
}

// intLit returns x unchanged unless x is a non-integral DECIMAL literal compared with an INT
// column: that is the region of known finding C03-index-bound-rounding (an index range
// bound on an INT column is rounded: c0 > -0.25 becomes c0 > 0); the literal is replaced by
// an integer there.
func (g *G) intLit(x, other Expr) Expr {
	lit, ok := x.(*Lit)
	if !ok || g.AllowKnown || lit.V.Null || lit.V.Str || lit.V.R.IsInt() {
		return x
	}
	if c, ok := other.(*ColRef); ok && c.K == KInt {
		g.Excl["C03-index-bound-rounding"]++
		return &Lit{V: GenVal(g.T, KInt, false, "exclint"), K: KInt}
	}
	return x
}

// Pred draws a boolean expression.
func (g *G) Pred(sc *scope, depth int) Expr {
	if depth > 0 && g.chance(3, "logic") {
		switch g.intn(0, 2, "lop") {
		case 0:
			return &Logic{Op: "AND", L: g.Pred(sc, depth-1), R: g.Pred(sc, depth-1)}
		case 1:
			return &Logic{Op: "OR", L: g.Pred(sc, depth-1), R: g.Pred(sc, depth-1)}
		default:
			return &Not{E: g.Pred(sc, depth-1)}
		}
	}
	numeric := !g.chance(4, "strpred") || len(sc.cols(false, true)) == 0
	switch g.intn(0, 7, "pred") {
	case 0, 1, 2:
		op := rapid.SampledFrom([]string{"=", "=", "<>", "<", "<=", ">", ">=", "<=>"}).Draw(g.T, "cmp")
		return g.cmp(op, g.operand(sc, numeric, depth-1), g.operand(sc, numeric, depth-1))
	case 3:
		g.L["isnull"] = true
		return &IsNull{E: g.operand(sc, numeric, depth-1), Not: g.chance(2, "notnull")}
	case 4:
		g.L["between"] = true
		e := g.operand(sc, numeric, depth-1)
		lo, hi := g.operand(sc, numeric, 0), g.operand(sc, numeric, 0)
		lo, hi = g.intLit(lo, e), g.intLit(hi, e)
		e = g.intLit(g.intLit(e, lo), hi)
		return &Between{E: e, Lo: lo, Hi: hi, Not: g.chance(4, "nbetween")}
	case 5:
		g.L["inlist"] = true
		n := g.intn(1, 4, "nin")
		e := &InList{E: g.operand(sc, numeric, depth-1), Not: g.chance(3, "notin")}
		k := KInt
		if !numeric {
			k = KStr
		}
		for i := 0; i < n; i++ {
			e.List = append(e.List, &Lit{V: GenVal(g.T, k, g.chance(6, "innull"), "inv"), K: k})
		}
		return e
	case 6:
		if !g.NoSubquery && depth >= 1 {
			if g.chance(2, "exists") {
				if q := g.subSelect(sc, false, KInt); q != nil {
					g.L["exists"] = true
					return &Exists{Q: q, Not: g.chance(2, "nexists")}
				}
			} else {
				k := KInt
				if !numeric {
					k = KStr
				}
				if q := g.subSelect(sc, true, k); q != nil {
					not := g.chance(2, "notinsub")
					if not {
						g.L["notinsub"] = true
					} else {
						g.L["insub"] = true
					}
					return &InSub{E: g.Scalar(sc, k, 0), Q: q, Not: not}
				}
			}
		}
		fallthrough
	default:
		op := rapid.SampledFrom([]string{"=", "<>", "<", ">="}).Draw(g.T, "cmp2")
		return g.cmp(op, g.operand(sc, numeric, 0), g.operand(sc, numeric, 0))
	}
}

// subSelect draws a subquery over one table, possibly correlated with the enclosing
// scopes. With oneCol it returns exactly one column of kind k (for IN); otherwise SELECT 1-like.
func (g *G) subSelect(outer *scope, oneCol bool, k Kind) *Select {
	tb := g.S.Tables[g.intn(0, len(g.S.Tables)-1, "subtab")]
	al := g.alias()
	sc := &scope{tabs: []scopeTab{{al, tb}}, parent: outer}
	q := &Select{Limit: -1, Offset: -1, From: []From{{Table: tb, Name: tb.Name, Alias: al}}}
	if oneCol {
		cands := sc.colsKind(k)
		if len(cands) == 0 {
			return nil
		}
		q.Items = []Item{{E: cands[g.intn(0, len(cands)-1, "subcol")]}}
	} else {
		q.Items = []Item{{E: &ColRef{Alias: al, Col: 0, Name: tb.Cols[0].Name, K: tb.Cols[0].Kind}}}
	}
	if !g.chance(4, "subnowhere") {
		// correlation: compare an inner column with an outer column of the same class
		if g.chance(2, "corr") && outer != nil {
			inner := sc.cols(true, false)
			outs := outer.cols(true, true)
			if len(inner) > 0 && len(outs) > 0 {
				g.L["correlated"] = true
				c := g.cmp(rapid.SampledFrom([]string{"=", "=", "<", ">=", "<>"}).Draw(g.T, "corrop"),
					inner[g.intn(0, len(inner)-1, "ic")], outs[g.intn(0, len(outs)-1, "oc")])
				if g.chance(2, "corrand") {
					q.Where = &Logic{Op: "AND", L: c, R: g.Pred(&scope{tabs: sc.tabs}, 0)}
				} else {
					q.Where = c
				}
				return q
			}
		}
		q.Where = g.Pred(&scope{tabs: sc.tabs}, 1)
	}
	return q
}

// scalarSub draws (SELECT AGG(col) FROM t [WHERE corr]) of kind class k.
func (g *G) scalarSub(outer *scope, k Kind) Expr {
	tb := g.S.Tables[g.intn(0, len(g.S.Tables)-1, "sstab")]
	al := g.alias()
	sc := &scope{tabs: []scopeTab{{al, tb}}, parent: outer}
	var agg *Agg
	if k == KInt {
		// integer-valued: COUNT
		if g.chance(2, "sscountstar") {
			agg = &Agg{Fn: "COUNT", K: KInt}
		} else {
			c := sc.cols(true, false)
			agg = &Agg{Fn: "COUNT", Arg: c[g.intn(0, len(c)-1, "ssc")], K: KInt}
		}
	} else {
		cands := sc.colsKind(k)
		if len(cands) == 0 {
			return nil
		}
		agg = &Agg{Fn: rapid.SampledFrom([]string{"MIN", "MAX"}).Draw(g.T, "ssfn"), Arg: cands[g.intn(0, len(cands)-1, "ssc")], K: k}
	}
	q := &Select{Limit: -1, Offset: -1, Grouped: true, Items: []Item{{E: agg}}, From: []From{{Table: tb, Name: tb.Name, Alias: al}}}
	if !g.chance(3, "ssnowhere") {
		inner := sc.cols(true, false)
		outs := outer.cols(true, true)
		if len(outs) > 0 && g.chance(2, "sscorr") {
			g.L["correlated"] = true
			q.Where = g.cmp(rapid.SampledFrom([]string{"=", "<", ">="}).Draw(g.T, "sscop"),
				inner[g.intn(0, len(inner)-1, "ic")], outs[g.intn(0, len(outs)-1, "oc")])
		} else {
			q.Where = g.Pred(&scope{tabs: sc.tabs}, 0)
		}
	}
	g.L["scalarsub"] = true
	return &ScalarSub{Q: q, K: k}
}

// joinOn draws an ON predicate between the new table and the tables already in scope.
func (g *G) joinOn(prev *scope, newTab scopeTab, afterOuter bool) Expr {
	nsc := &scope{tabs: []scopeTab{newTab}}
	newNum := nsc.cols(true, false)
	prevNum := prev.cols(true, false)
	l := newNum[g.intn(0, len(newNum)-1, "onl")]
	r := prevNum[g.intn(0, len(prevNum)-1, "onr")]
	if l.K != r.K && !g.AllowKnown {
		// known finding C01-lookup-key-rounding: an INT index probed with a DECIMAL key rounds
		// the key (0.25 finds 0). Equalities between columns of different numeric kinds are
		// replaced by INT = INT (column 0 of every table is an INT).
		g.Excl["C01-lookup-key-rounding"]++
		l = newNum[0]
		for _, c := range prevNum {
			if c.K == l.K {
				r = c
				break
			}
		}
	}
	var on Expr
	switch sel := g.intn(0, 9, "onkind"); {
	case sel <= 5:
		on = &CmpE{Op: "=", L: r, R: l}
	case sel == 6 && g.RangeJoins:
		g.L["rangejoin"] = true
		r2 := prevNum[g.intn(0, len(prevNum)-1, "onr2")]
		on = &Between{E: l, Lo: r, Hi: r2}
	case sel == 7:
		on = &CmpE{Op: rapid.SampledFrom([]string{"<", "<=", ">", ">=", "<>", "<=>"}).Draw(g.T, "onop"), L: r, R: l}
	default:
		on = &CmpE{Op: "=", L: r, R: l}
	}
	if g.chance(3, "onand") {
		all := &scope{tabs: append(append([]scopeTab{}, prev.tabs...), newTab)}
		if afterOuter && !g.AllowKnown {
			// known finding C01-join-reorder-drops-conjunct: an ON conjunct of a later join that
			// does not relate its two sides (it reads only the null-supplying side of an earlier
			// outer join, or no column at all) can be lost when the joins are reordered; no
			// extra conjunct is generated after an outer join.
			g.Excl["C01-join-reorder-drops-conjunct"]++
			return on
		}
		on = &Logic{Op: "AND", L: on, R: g.Pred(all, 0)}
	}
	return on
}

// Select draws a SELECT block over the schema.
func (g *G) Select() *Select {
	q := &Select{Limit: -1, Offset: -1}
	sc := &scope{}
	nf := g.intn(g.MinJoin, g.MaxJoin, "nfrom")
	afterOuter := false
	for i := 0; i < nf; i++ {
		tb := g.S.Tables[g.intn(0, len(g.S.Tables)-1, "fromtab")]
		st := scopeTab{g.alias(), tb}
		f := From{Table: tb, Name: tb.Name, Alias: st.alias}
		if i > 0 {
			f.Join = rapid.SampledFrom([]string{"INNER", "INNER", "LEFT", "LEFT", "RIGHT", "CROSS"}).Draw(g.T, "join")
			if f.Join != "CROSS" {
				f.On = g.joinOn(sc, st, afterOuter)
			}
			g.L["join"] = true
			if f.Join == "LEFT" || f.Join == "RIGHT" {
				g.L["outerjoin"] = true
				afterOuter = true
			}
		}
		sc.tabs = append(sc.tabs, st)
		q.From = append(q.From, f)
	}
	if !g.chance(4, "nowhere") {
		q.Where = g.Pred(sc, 2)
	}
	grouped := !g.NoGroup && g.chance(3, "grouped")
	if grouped {
		g.L["group"] = true
		q.Grouped = true
		ng := g.intn(0, 2, "ngroup")
		all := append(sc.cols(true, false), sc.cols(false, false)...)
		for i := 0; i < ng; i++ {
			c := all[g.intn(0, len(all)-1, "gcol")]
			dup := false
			for _, e := range q.GroupBy {
				if e.SQL() == c.SQL() {
					dup = true
				}
			}
			if !dup {
				q.GroupBy = append(q.GroupBy, c)
			}
		}
		for _, e := range q.GroupBy {
			q.Items = append(q.Items, Item{E: e})
		}
		na := g.intn(1, 3, "nagg")
		for i := 0; i < na; i++ {
			q.Items = append(q.Items, Item{E: g.agg(sc)})
		}
		if g.chance(3, "having") {
			g.L["having"] = true
			a := g.agg(sc)
			for a.Approx() || a.K == KStr {
				a = &Agg{Fn: "COUNT", K: KInt}
			}
			q.Having = &CmpE{Op: rapid.SampledFrom([]string{">", ">=", "<", "=", "<>"}).Draw(g.T, "hop"), L: a,
				R: &Lit{V: Int(int64(g.intn(-1, 4, "hv"))), K: KInt}}
		}
	} else {
		ni := g.intn(1, 4, "nitems")
		for i := 0; i < ni; i++ {
			k := Kind(g.intn(0, 2, "itemkind"))
			q.Items = append(q.Items, Item{E: g.Scalar(sc, k, 2)})
		}
		if g.chance(5, "distinct") {
			g.L["distinct"] = true
			q.Distinct = true
		}
	}
	for i := range q.Items {
		q.Items[i].Alias = fmt.Sprintf("o%d", i)
	}
	if !g.NoOrder && g.chance(3, "order") {
		g.L["order"] = true
		perm := rapid.Permutation(seq(len(q.Items))).Draw(g.T, "operm")
		for _, it := range perm {
			q.OrderBy = append(q.OrderBy, Order{Item: it, Desc: g.chance(3, "desc")})
		}
		if g.chance(2, "limit") {
			g.L["limit"] = true
			q.Limit = g.intn(0, 6, "limitn")
			if g.chance(2, "offset") {
				q.Offset = g.intn(0, 4, "offsetn")
			}
		}
	}
	return q
}

func seq(n int) []int {
	s := make([]int, n)
	for i := range s {
		s[i] = i
	}
	return s
}

func (g *G) agg(sc *scope) *Agg {
	num := sc.cols(true, false)
	str := sc.cols(false, false)
	switch g.intn(0, 6, "aggfn") {
	case 0:
		return &Agg{Fn: "COUNT", K: KInt}
	case 1:
		all := append(append([]*ColRef{}, num...), str...)
		return &Agg{Fn: "COUNT", Arg: all[g.intn(0, len(all)-1, "aggc")], Distinct: g.chance(2, "cd"), K: KInt}
	case 2:
		c := num[g.intn(0, len(num)-1, "aggc")]
		return &Agg{Fn: "SUM", Arg: c, K: KDec}
	case 3:
		c := num[g.intn(0, len(num)-1, "aggc")]
		return &Agg{Fn: "AVG", Arg: c, K: KDec}
	default:
		all := append(append([]*ColRef{}, num...), str...)
		c := all[g.intn(0, len(all)-1, "aggc")]
		return &Agg{Fn: rapid.SampledFrom([]string{"MIN", "MAX"}).Draw(g.T, "mm"), Arg: c, K: c.K}
	}
}

// Query draws a full query: a SELECT, or a set operation of 2–3 SELECT blocks with equal
// column kinds.
func (g *G) Query() Query {
	if g.NoSetOp || !g.chance(5, "setop") {
		return g.Select()
	}
	g.L["setop"] = true
	saveOrder, saveGroup := g.NoOrder, g.NoGroup
	g.NoOrder, g.NoGroup = true, true
	defer func() { g.NoOrder, g.NoGroup = saveOrder, saveGroup }()
	first := g.Select()
	var q Query = first
	n := g.intn(1, 2, "nsetops")
	for i := 0; i < n; i++ {
		br := g.branchLike(first)
		op := rapid.SampledFrom([]string{"UNION", "UNION", "INTERSECT", "EXCEPT"}).Draw(g.T, "setopkind")
		q = &SetOp{Op: op, All: g.chance(2, "setall"), L: q, R: br}
	}
	return q
}

// branchLike draws a SELECT whose item kinds equal those of model.
func (g *G) branchLike(model *Select) *Select {
	q := &Select{Limit: -1, Offset: -1}
	sc := &scope{}
	tb := g.S.Tables[g.intn(0, len(g.S.Tables)-1, "brtab")]
	st := scopeTab{g.alias(), tb}
	sc.tabs = append(sc.tabs, st)
	q.From = []From{{Table: tb, Name: tb.Name, Alias: st.alias}}
	if g.chance(2, "brwhere") {
		q.Where = g.Pred(sc, 1)
	}
	for i, it := range model.Items {
		k := it.E.Kind()
		var e Expr
		if k == KDec {
			e = g.leaf(sc, KDec, true)
		} else {
			e = g.Scalar(sc, k, 1)
		}
		q.Items = append(q.Items, Item{E: e, Alias: fmt.Sprintf("o%d", i)})
	}
	q.Distinct = g.chance(6, "brdistinct")
	return q
}

// HasColumn reports whether the expression reads any column.
func HasColumn(e Expr) bool {
	switch x := e.(type) {
	case nil:
		return false
	case *ColRef:
		return true
	case *Lit, *Raw:
		return false
	case *CmpE:
		return HasColumn(x.L) || HasColumn(x.R)
	case *IsNull:
		return HasColumn(x.E)
	case *Logic:
		return HasColumn(x.L) || HasColumn(x.R)
	case *Not:
		return HasColumn(x.E)
	case *Between:
		return HasColumn(x.E) || HasColumn(x.Lo) || HasColumn(x.Hi)
	case *InList:
		if HasColumn(x.E) {
			return true
		}
		for _, l := range x.List {
			if HasColumn(l) {
				return true
			}
		}
		return false
	case *Arith:
		return HasColumn(x.L) || HasColumn(x.R)
	case *Case:
		for i := range x.Whens {
			if HasColumn(x.Whens[i]) || HasColumn(x.Thens[i]) {
				return true
			}
		}
		return x.Else != nil && HasColumn(x.Else)
	case *Coalesce:
		for _, a := range x.Args {
			if HasColumn(a) {
				return true
			}
		}
		return false
	}
	return true // subqueries, aggregates
}

// Conjuncts splits a predicate at its top-level ANDs.
func Conjuncts(e Expr) []Expr {
	if l, ok := e.(*Logic); ok && l.Op == "AND" {
		return append(Conjuncts(l.L), Conjuncts(l.R)...)
	}
	return []Expr{e}
}

// ConstConjunctInOuterOn reports whether some LEFT/RIGHT join of a top-level SELECT block of
// q has an ON conjunct that reads no column (e.g. "... AND 1 = 0").
func ConstConjunctInOuterOn(q Query) bool {
	switch x := q.(type) {
	case *Select:
		for _, f := range x.From {
			if (f.Join == "LEFT" || f.Join == "RIGHT") && f.On != nil {
				for _, c := range Conjuncts(f.On) {
					if !HasColumn(c) {
						return true
					}
				}
			}
		}
	case *SetOp:
		return ConstConjunctInOuterOn(x.L) || ConstConjunctInOuterOn(x.R)
	}
	return false
}
