// Package kf is the Go side of the known-findings protocol (DESIGN.md section 5).
//
// /verif/known_findings.json is the only place where findings are listed; the driver
// passes the ids with status "known" for the property being checked in $VERIF_KNOWN
// (comma separated). A check that observes a violation evaluates the *signature
// predicate* of a finding (written in the check's own code, next to the oracle) and
// then asks kf.Suppress(id): only if the id is listed is the violation counted as a
// known hit instead of failing. Entries with status "fixed" are never passed, so a
// returned defect is reported again. Nothing here ever writes the findings file.
package kf

import (
	"os"
	"strings"

	"github.com/dolthub/go-mysql-server/vh/internal/stats"
)

var enabled = func() map[string]bool {
	m := map[string]bool{}
	for _, id := range strings.Split(os.Getenv("VERIF_KNOWN"), ",") {
		id = strings.TrimSpace(id)
		if id != "" {
			m[id] = true
		}
	}
	return m
}()

// Listed reports whether finding id is listed with status "known".
func Listed(id string) bool { return enabled[id] }

// Suppress reports whether a violation matching the signature of finding id must be
// treated as a known finding; it counts the hit.
func Suppress(st *stats.Collector, id string) bool {
	if !enabled[id] {
		return false
	}
	if st != nil {
		st.KnownHit(id)
	}
	return true
}
