// Package ref is the reference evaluator: a deliberately naive interpreter of gen's query
// AST over in-memory rows (nested loops everywhere, no indexes, no hashing, no rewriting),
// written from the SQL definition of each construct: three-valued logic, joins by
// definition, subqueries by re-evaluation per outer row, grouping by '='-classes,
// aggregates over exact rationals, set operations on multisets, ORDER BY with NULLs first.
package ref

import (
	"fmt"
	"math/big"
	"sort"
	"strings"

	"github.com/dolthub/go-mysql-server/vh/internal/gen"
)

type Val = gen.Val

// Env binds table aliases to rows. A nil row is the NULL-padded side of an outer join.
type Env struct {
	rows   map[string][]Val
	parent *Env
	group  []*Env // non-nil while evaluating the select list / HAVING of a grouped query
}

func (e *Env) lookup(alias string) ([]Val, bool) {
	for c := e; c != nil; c = c.parent {
		if r, ok := c.rows[alias]; ok {
			return r, true
		}
	}
	return nil, false
}

// Trace records which semantically interesting situations occurred (for the non-trivial
// rule of C02).
type Trace struct {
	NullDecided  bool // a predicate evaluated to NULL at a WHERE/ON/HAVING decision point
	OuterPadded  bool // an outer join produced a NULL-padded row
	BigGroup     bool // a group with >= 2 rows
	SetOverlap   bool // a set operation whose sides share a row
	SubqueryEval int
}

type Evaluator struct {
	Tr Trace
}

var (
	vTrue  = gen.Int(1)
	vFalse = gen.Int(0)
)

func truth(v Val) (isTrue, isNull bool) {
	if v.Null {
		return false, true
	}
	return v.R.Sign() != 0, false
}

func fromBool(b bool) Val {
	if b {
		return vTrue
	}
	return vFalse
}

func eq(a, b Val) bool { return gen.Cmp(a, b) == 0 }

// Eval evaluates a scalar expression.
func (ev *Evaluator) Eval(x gen.Expr, env *Env) Val {
	switch e := x.(type) {
	case *gen.ColRef:
		row, ok := env.lookup(e.Alias)
		if !ok {
			panic("ref: unbound alias " + e.Alias)
		}
		if row == nil {
			return gen.Null
		}
		return row[e.Col]
	case *gen.Lit:
		return e.V
	case *gen.CmpE:
		l, r := ev.Eval(e.L, env), ev.Eval(e.R, env)
		if e.Op == "<=>" {
			if l.Null || r.Null {
				return fromBool(l.Null && r.Null)
			}
			return fromBool(eq(l, r))
		}
		if l.Null || r.Null {
			return gen.Null
		}
		c := gen.Cmp(l, r)
		switch e.Op {
		case "=":
			return fromBool(c == 0)
		case "<>":
			return fromBool(c != 0)
		case "<":
			return fromBool(c < 0)
		case "<=":
			return fromBool(c <= 0)
		case ">":
			return fromBool(c > 0)
		case ">=":
			return fromBool(c >= 0)
		}
		panic("ref: op " + e.Op)
	case *gen.IsNull:
		v := ev.Eval(e.E, env)
		return fromBool(v.Null != e.Not)
	case *gen.Logic:
		l, r := ev.Eval(e.L, env), ev.Eval(e.R, env)
		lt, ln := truth(l)
		rt, rn := truth(r)
		if e.Op == "AND" {
			if (!ln && !lt) || (!rn && !rt) {
				return vFalse
			}
			if ln || rn {
				return gen.Null
			}
			return vTrue
		}
		if lt || rt {
			return vTrue
		}
		if ln || rn {
			return gen.Null
		}
		return vFalse
	case *gen.Not:
		v := ev.Eval(e.E, env)
		t, n := truth(v)
		if n {
			return gen.Null
		}
		return fromBool(!t)
	case *gen.Between:
		v, lo, hi := ev.Eval(e.E, env), ev.Eval(e.Lo, env), ev.Eval(e.Hi, env)
		// v >= lo AND v <= hi in three-valued logic
		ge, le := gen.Null, gen.Null
		if !v.Null && !lo.Null {
			ge = fromBool(gen.Cmp(v, lo) >= 0)
		}
		if !v.Null && !hi.Null {
			le = fromBool(gen.Cmp(v, hi) <= 0)
		}
		res := and3(ge, le)
		if e.Not {
			return not3(res)
		}
		return res
	case *gen.InList:
		v := ev.Eval(e.E, env)
		vals := make([]Val, len(e.List))
		for i, l := range e.List {
			vals[i] = ev.Eval(l, env)
		}
		res := in3(v, vals)
		if e.Not {
			return not3(res)
		}
		return res
	case *gen.Case:
		for i, w := range e.Whens {
			if t, _ := truth(ev.Eval(w, env)); t {
				return ev.Eval(e.Thens[i], env)
			}
		}
		if e.Else != nil {
			return ev.Eval(e.Else, env)
		}
		return gen.Null
	case *gen.Coalesce:
		for _, a := range e.Args {
			if v := ev.Eval(a, env); !v.Null {
				return v
			}
		}
		return gen.Null
	case *gen.Arith:
		l, r := ev.Eval(e.L, env), ev.Eval(e.R, env)
		if l.Null || r.Null {
			return gen.Null
		}
		z := new(big.Rat)
		switch e.Op {
		case "+":
			z.Add(l.R, r.R)
		case "-":
			z.Sub(l.R, r.R)
		case "*":
			z.Mul(l.R, r.R)
		}
		return gen.Rat(z)
	case *gen.InSub:
		v := ev.Eval(e.E, env)
		rows := ev.selectRows(e.Q, env)
		ev.Tr.SubqueryEval++
		vals := make([]Val, len(rows))
		for i, r := range rows {
			vals[i] = r[0]
		}
		res := in3(v, vals)
		if e.Not {
			return not3(res)
		}
		return res
	case *gen.Exists:
		rows := ev.selectRows(e.Q, env)
		ev.Tr.SubqueryEval++
		return fromBool((len(rows) > 0) != e.Not)
	case *gen.ScalarSub:
		rows := ev.selectRows(e.Q, env)
		ev.Tr.SubqueryEval++
		if len(rows) != 1 {
			panic(fmt.Sprintf("ref: scalar subquery returned %d rows", len(rows)))
		}
		return rows[0][0]
	case *gen.Agg:
		if env.group == nil {
			panic("ref: aggregate outside of a grouped query")
		}
		return ev.agg(e, env.group)
	}
	panic(fmt.Sprintf("ref: unsupported expression %T", x))
}

func and3(a, b Val) Val {
	at, an := truth(a)
	bt, bn := truth(b)
	if (!an && !at) || (!bn && !bt) {
		return vFalse
	}
	if an || bn {
		return gen.Null
	}
	return vTrue
}

func not3(a Val) Val {
	t, n := truth(a)
	if n {
		return gen.Null
	}
	return fromBool(!t)
}

// in3 is v IN (vals): TRUE if some element equals v; otherwise NULL if v is NULL (and the
// list is non-empty) or some element is NULL; otherwise FALSE. Empty list: FALSE.
func in3(v Val, vals []Val) Val {
	if len(vals) == 0 {
		return vFalse
	}
	if v.Null {
		return gen.Null
	}
	sawNull := false
	for _, x := range vals {
		if x.Null {
			sawNull = true
			continue
		}
		if eq(v, x) {
			return vTrue
		}
	}
	if sawNull {
		return gen.Null
	}
	return vFalse
}

func (ev *Evaluator) agg(a *gen.Agg, group []*Env) Val {
	if a.Arg == nil {
		return gen.Int(int64(len(group)))
	}
	var vals []Val
	for _, g := range group {
		ge := &Env{rows: g.rows, parent: g.parent}
		if v := ev.Eval(a.Arg, ge); !v.Null {
			vals = append(vals, v)
		}
	}
	if a.Distinct {
		var d []Val
	outer:
		for _, v := range vals {
			for _, x := range d {
				if eq(v, x) {
					continue outer
				}
			}
			d = append(d, v)
		}
		vals = d
	}
	switch a.Fn {
	case "COUNT":
		return gen.Int(int64(len(vals)))
	case "SUM", "AVG":
		if len(vals) == 0 {
			return gen.Null
		}
		s := new(big.Rat)
		for _, v := range vals {
			s.Add(s, v.R)
		}
		if a.Fn == "AVG" {
			s.Quo(s, new(big.Rat).SetInt64(int64(len(vals))))
		}
		return gen.Rat(s)
	case "MIN", "MAX":
		if len(vals) == 0 {
			return gen.Null
		}
		best := vals[0]
		for _, v := range vals[1:] {
			c := gen.Cmp(v, best)
			if (a.Fn == "MIN" && c < 0) || (a.Fn == "MAX" && c > 0) {
				best = v
			}
		}
		return best
	}
	panic("ref: aggregate " + a.Fn)
}

func (ev *Evaluator) decide(p gen.Expr, env *Env) bool {
	t, n := truth(ev.Eval(p, env))
	if n {
		ev.Tr.NullDecided = true
	}
	return t
}

// rowKey identifies a row up to '=' on every column (NULLs equal each other).
func rowKey(r []Val) string {
	ps := make([]string, len(r))
	for i, v := range r {
		ps[i] = v.Norm()
	}
	return strings.Join(ps, "\x1f")
}

// selectRows evaluates one SELECT block under an outer environment.
func (ev *Evaluator) selectRows(q *gen.Select, outer *Env) [][]Val {
	// FROM: left-deep join chain
	var envs []*Env
	var aliases []string
	for i, f := range q.From {
		if i == 0 {
			for _, r := range f.Table.Rows {
				envs = append(envs, &Env{rows: map[string][]Val{f.Alias: r}, parent: outer})
			}
			aliases = append(aliases, f.Alias)
			continue
		}
		var next []*Env
		rightMatched := make([]bool, len(f.Table.Rows))
		for _, le := range envs {
			matched := false
			for ri, r := range f.Table.Rows {
				ne := extend(le, f.Alias, r)
				if f.On == nil || ev.decide(f.On, ne) {
					next = append(next, ne)
					matched = true
					rightMatched[ri] = true
				}
			}
			if !matched && f.Join == "LEFT" {
				ev.Tr.OuterPadded = true
				next = append(next, extend(le, f.Alias, nil))
			}
		}
		if f.Join == "RIGHT" {
			for ri, r := range f.Table.Rows {
				if !rightMatched[ri] {
					ev.Tr.OuterPadded = true
					m := map[string][]Val{f.Alias: r}
					for _, a := range aliases {
						m[a] = nil
					}
					next = append(next, &Env{rows: m, parent: outer})
				}
			}
		}
		envs = next
		aliases = append(aliases, f.Alias)
	}
	// WHERE
	if q.Where != nil {
		var kept []*Env
		for _, e := range envs {
			if ev.decide(q.Where, e) {
				kept = append(kept, e)
			}
		}
		envs = kept
	}
	var out [][]Val
	if q.Grouped {
		var groups [][]*Env
		if len(q.GroupBy) == 0 {
			groups = [][]*Env{envs} // one group, even when empty
		} else {
			idx := map[string]int{}
			for _, e := range envs {
				key := make([]Val, len(q.GroupBy))
				for i, g := range q.GroupBy {
					key[i] = ev.Eval(g, e)
				}
				k := rowKey(key)
				gi, ok := idx[k]
				if !ok {
					gi = len(groups)
					idx[k] = gi
					groups = append(groups, nil)
				}
				groups[gi] = append(groups[gi], e)
			}
		}
		for _, grp := range groups {
			if len(grp) >= 2 {
				ev.Tr.BigGroup = true
			}
			var rep *Env
			if len(grp) > 0 {
				rep = &Env{rows: grp[0].rows, parent: grp[0].parent, group: grp}
			} else {
				rep = &Env{rows: map[string][]Val{}, parent: outer, group: []*Env{}}
			}
			if q.Having != nil && !ev.decide(q.Having, rep) {
				continue
			}
			row := make([]Val, len(q.Items))
			for i, it := range q.Items {
				row[i] = ev.Eval(it.E, rep)
			}
			out = append(out, row)
		}
	} else {
		for _, e := range envs {
			row := make([]Val, len(q.Items))
			for i, it := range q.Items {
				row[i] = ev.Eval(it.E, e)
			}
			out = append(out, row)
		}
	}
	if q.Distinct {
		out = distinct(out)
	}
	if len(q.OrderBy) > 0 {
		sort.SliceStable(out, func(i, j int) bool { return CmpRows(out[i], out[j], q.OrderBy) < 0 })
	}
	if q.Limit >= 0 {
		off := 0
		if q.Offset > 0 {
			off = q.Offset
		}
		if off > len(out) {
			off = len(out)
		}
		out = out[off:]
		if q.Limit < len(out) {
			out = out[:q.Limit]
		}
	}
	return out
}

// CmpRows compares two output rows under an ORDER BY list: NULL sorts before every value
// ascending (after, descending); numbers by value; strings by bytes (binary collation).
func CmpRows(a, b []Val, ob []gen.Order) int {
	for _, o := range ob {
		x, y := a[o.Item], b[o.Item]
		c := 0
		switch {
		case x.Null && y.Null:
			c = 0
		case x.Null:
			c = -1
		case y.Null:
			c = 1
		default:
			c = gen.Cmp(x, y)
		}
		if o.Desc {
			c = -c
		}
		if c != 0 {
			return c
		}
	}
	return 0
}

func extend(e *Env, alias string, row []Val) *Env {
	m := make(map[string][]Val, len(e.rows)+1)
	for k, v := range e.rows {
		m[k] = v
	}
	m[alias] = row
	return &Env{rows: m, parent: e.parent}
}

func distinct(rows [][]Val) [][]Val {
	seen := map[string]bool{}
	var out [][]Val
	for _, r := range rows {
		k := rowKey(r)
		if !seen[k] {
			seen[k] = true
			out = append(out, r)
		}
	}
	return out
}

// Rows evaluates a query (SELECT or set operation).
func (ev *Evaluator) Rows(q gen.Query) [][]Val {
	switch x := q.(type) {
	case *gen.Select:
		return ev.selectRows(x, nil)
	case *gen.SetOp:
		l, r := ev.Rows(x.L), ev.Rows(x.R)
		rc := map[string]int{}
		for _, row := range r {
			rc[rowKey(row)]++
		}
		for _, row := range l {
			if rc[rowKey(row)] > 0 {
				ev.Tr.SetOverlap = true
				break
			}
		}
		switch x.Op {
		case "UNION":
			all := append(append([][]Val{}, l...), r...)
			if x.All {
				return all
			}
			return distinct(all)
		case "INTERSECT":
			var out [][]Val
			if x.All {
				for _, row := range l {
					k := rowKey(row)
					if rc[k] > 0 {
						rc[k]--
						out = append(out, row)
					}
				}
				return out
			}
			for _, row := range distinct(l) {
				if rc[rowKey(row)] > 0 {
					out = append(out, row)
				}
			}
			return out
		case "EXCEPT":
			var out [][]Val
			if x.All {
				for _, row := range l {
					k := rowKey(row)
					if rc[k] > 0 {
						rc[k]--
						continue
					}
					out = append(out, row)
				}
				return out
			}
			for _, row := range distinct(l) {
				if rc[rowKey(row)] == 0 {
					out = append(out, row)
				}
			}
			return out
		}
	}
	panic("ref: unsupported query")
}

// Norm renders reference rows in fx's canonical form.
func Norm(rows [][]Val) [][]string {
	out := make([][]string, len(rows))
	for i, r := range rows {
		out[i] = make([]string, len(r))
		for j, v := range r {
			out[i][j] = v.Norm()
		}
	}
	return out
}
