// Package srvfx is the server fixture shared by the checks that talk to go-mysql-server
// over the MySQL wire protocol: it starts a real server.NewServer on 127.0.0.1:0 over an
// existing engine + in-memory provider, hands out go-sql-driver clients (database/sql
// handles, pinned connections), and tears everything down at the end of a case: clients
// closed, listener closed, accept loop joined, SessionManager.WaitForClosedConnections
// awaited under a deadline.
//
// Typical use (one server per rapid case):
//
//	f := fx.New(fx.Opts{})
//	defer f.Close()
//	srv, err := srvfx.Start(f.Engine, f.Pro, srvfx.Opts{})
//	if err != nil { ... harness problem ... }
//	defer func() {
//		if err := srv.Close(); err != nil { srvfx.Inconclusive(err) }
//	}()
//	c, err := srv.Conn("d", nil)      // pinned *sql.Conn = one server session
//	rows, err := c.QueryContext(ctx, "SELECT 1")
package srvfx

import (
	"context"
	"database/sql"
	"errors"
	"fmt"
	"io"
	stdlog "log"
	"net"
	"os"
	"sort"
	"strconv"
	"strings"
	"sync"
	"time"

	"github.com/go-sql-driver/mysql"
	"github.com/sirupsen/logrus"

	sqle "github.com/dolthub/go-mysql-server"
	"github.com/dolthub/go-mysql-server/memory"
	"github.com/dolthub/go-mysql-server/server"
	gsql "github.com/dolthub/go-mysql-server/sql"
)

// Opts configures a server fixture.
type Opts struct {
	// DisableConnectionWatcher turns off the client-disconnect watcher of the server
	// (server.Config.DisableConnectionWatcher).
	DisableConnectionWatcher bool
	// DisableClientMultiStatements is passed to server.Config.
	DisableClientMultiStatements bool
	// User the clients log in as. Default "root". (Without Engine authentication enabled any
	// user is accepted.)
	User string
	// Password of User, if the engine has authentication enabled.
	Password string
	// TeardownTimeout bounds Close(). Default 20 s. It is a liveness guard only (a case whose
	// teardown does not finish is inconclusive), never an oracle.
	TeardownTimeout time.Duration
	// Builder overrides the session builder (default memory.NewSessionBuilder(pro)).
	Builder server.SessionBuilder
	// KeepLogs leaves logrus / std log / driver logging untouched. By default the fixture
	// silences them once per process (the server logs every connection at Info level and
	// vitess logs protocol errors through the std logger).
	KeepLogs bool
}

// Server is one running server plus the clients opened through it.
type Server struct {
	S    *server.Server
	Host string
	Port int
	opts Opts

	acceptDone chan struct{}

	mu      sync.Mutex
	dbs     []*sql.DB
	conns   []*sql.Conn
	closed  bool
	closeEr error
}

var quietOnce sync.Once

type nopLogger struct{}

func (nopLogger) Print(v ...any) {}

func quiet() {
	quietOnce.Do(func() {
		logrus.SetOutput(io.Discard)
		logrus.SetLevel(logrus.ErrorLevel)
		stdlog.SetOutput(io.Discard)
		_ = mysql.SetLogger(nopLogger{})
	})
}

// Start creates the server on a free loopback port and starts its accept loop.
func Start(e *sqle.Engine, pro *memory.DbProvider, o Opts) (*Server, error) {
	if !o.KeepLogs {
		quiet()
	}
	if o.User == "" {
		o.User = "root"
	}
	if o.TeardownTimeout == 0 {
		o.TeardownTimeout = 20 * time.Second
	}
	sb := o.Builder
	if sb == nil {
		sb = memory.NewSessionBuilder(pro)
	}
	cfg := server.Config{
		Protocol:                     "tcp",
		Address:                      "127.0.0.1:0",
		DisableConnectionWatcher:     o.DisableConnectionWatcher,
		DisableClientMultiStatements: o.DisableClientMultiStatements,
	}
	s, err := server.NewServer(cfg, e, gsql.NewContext, sb, nil)
	if err != nil {
		return nil, fmt.Errorf("srvfx: NewServer: %w", err)
	}
	host, portS, err := net.SplitHostPort(s.Listener.Addr().String())
	if err != nil {
		s.Close()
		return nil, fmt.Errorf("srvfx: listener address: %w", err)
	}
	port, _ := strconv.Atoi(portS)
	srv := &Server{S: s, Host: host, Port: port, opts: o, acceptDone: make(chan struct{})}
	go func() {
		defer close(srv.acceptDone)
		_ = s.Start() // returns when the listener is closed
	}()
	return srv, nil
}

// Addr returns "host:port".
func (s *Server) Addr() string { return net.JoinHostPort(s.Host, strconv.Itoa(s.Port)) }

// Config returns a go-sql-driver configuration for database db. params are DSN-style
// options applied on top ("multiStatements", "clientFoundRows", "parseTime",
// "interpolateParams", "columnsWithAlias" = "true"/"false"; anything else goes into
// Params and is sent as a session variable).
func (s *Server) Config(db string, params map[string]string) *mysql.Config {
	c := mysql.NewConfig()
	c.User = s.opts.User
	c.Passwd = s.opts.Password
	c.Net = "tcp"
	c.Addr = s.Addr()
	c.DBName = db
	c.AllowNativePasswords = true
	c.Timeout = 20 * time.Second // dial only
	keys := make([]string, 0, len(params))
	for k := range params {
		keys = append(keys, k)
	}
	sort.Strings(keys)
	for _, k := range keys {
		v := params[k]
		b := v == "true"
		switch k {
		case "multiStatements":
			c.MultiStatements = b
		case "clientFoundRows":
			c.ClientFoundRows = b
		case "parseTime":
			c.ParseTime = b
		case "interpolateParams":
			c.InterpolateParams = b
		case "columnsWithAlias":
			c.ColumnsWithAlias = b
		default:
			if c.Params == nil {
				c.Params = map[string]string{}
			}
			c.Params[k] = v
		}
	}
	return c
}

// DSN returns the data source name for Config(db, params).
func (s *Server) DSN(db string, params map[string]string) string {
	return s.Config(db, params).FormatDSN()
}

// Open returns a database/sql handle; it is closed by Close().
func (s *Server) Open(db string, params map[string]string) (*sql.DB, error) {
	conn, err := mysql.NewConnector(s.Config(db, params))
	if err != nil {
		return nil, err
	}
	h := sql.OpenDB(conn)
	h.SetMaxIdleConns(0) // a connection lives exactly as long as its pinned *sql.Conn
	s.mu.Lock()
	s.dbs = append(s.dbs, h)
	s.mu.Unlock()
	return h, nil
}

// Conn opens a handle and pins one connection (= one server session). The connection and
// the handle are closed by Close(); the caller may close the connection earlier.
func (s *Server) Conn(db string, params map[string]string) (*sql.Conn, error) {
	h, err := s.Open(db, params)
	if err != nil {
		return nil, err
	}
	c, err := h.Conn(context.Background())
	if err != nil {
		return nil, err
	}
	s.mu.Lock()
	s.conns = append(s.conns, c)
	s.mu.Unlock()
	return c, nil
}

// Close tears the fixture down: client connections and handles are closed, the listener
// is closed, the accept loop is joined and the session manager is awaited until every
// connection handler has run ConnectionClosed. A non-nil error means teardown did not
// finish within TeardownTimeout (the case is then inconclusive, see Inconclusive).
// Close is idempotent.
func (s *Server) Close() error {
	s.mu.Lock()
	if s.closed {
		err := s.closeEr
		s.mu.Unlock()
		return err
	}
	s.closed = true
	conns, dbs := s.conns, s.dbs
	s.conns, s.dbs = nil, nil
	s.mu.Unlock()

	done := make(chan struct{})
	var stage string
	var stageMu sync.Mutex
	set := func(x string) { stageMu.Lock(); stage = x; stageMu.Unlock() }
	go func() {
		defer close(done)
		set("closing client connections")
		for _, c := range conns {
			_ = c.Close()
		}
		for _, h := range dbs {
			_ = h.Close()
		}
		set("closing listener")
		_ = s.S.Close()
		set("joining accept loop")
		<-s.acceptDone
		set("WaitForClosedConnections")
		s.S.SessionManager().WaitForClosedConnections()
	}()
	var err error
	select {
	case <-done:
	case <-time.After(s.opts.TeardownTimeout):
		stageMu.Lock()
		err = fmt.Errorf("srvfx: teardown did not finish within %v (stuck at: %s)", s.opts.TeardownTimeout, stage)
		stageMu.Unlock()
	}
	s.mu.Lock()
	s.closeEr = err
	s.mu.Unlock()
	return err
}

// Inconclusive aborts the test process in the way the ./check driver classifies as
// "inconclusive" (exit 2 of the driver) rather than as a violation: liveness problems of
// the harness itself (teardown that does not finish, a client call that hangs) are never
// evidence about the property.
func Inconclusive(err error) {
	fmt.Fprintf(os.Stderr, "panic: test timed out (srvfx liveness guard): %v\n", err)
	os.Exit(3)
}

// ErrNumber extracts the MySQL error number and SQLSTATE of an error returned by the
// driver; ok is false when the error is not a server error packet (for example a broken
// connection).
func ErrNumber(err error) (num uint16, state string, ok bool) {
	var me *mysql.MySQLError
	if errors.As(err, &me) {
		return me.Number, string(me.SQLState[:]), true
	}
	return 0, "", false
}

// IsConnBroken reports whether err says that the connection is no longer usable (the
// server aborted the stream or closed the socket).
func IsConnBroken(err error) bool {
	if err == nil {
		return false
	}
	if _, _, ok := ErrNumber(err); ok {
		return false
	}
	if errors.Is(err, mysql.ErrInvalidConn) || errors.Is(err, io.EOF) || errors.Is(err, io.ErrUnexpectedEOF) || errors.Is(err, sql.ErrConnDone) {
		return true
	}
	msg := err.Error()
	return strings.Contains(msg, "bad connection") || strings.Contains(msg, "invalid connection") ||
		strings.Contains(msg, "broken pipe") || strings.Contains(msg, "connection reset")
}
