package tmodel

import (
	"sort"
	"strconv"
	"strings"
)

// Finding flags: regions of already identified engine defects. The interpreter sets a flag
// when the statement it executes lies in the region (narrow predicates, documented at the
// place where they are set); the runner decides what to do with them (DESIGN.md section 5).
const (
	FlagRowKeyConcat  = "rowkey-concat"   // two distinct PK tuples whose %v concatenations are equal are in play
	FlagCIKey         = "ci-key"          // a key conflict decided by the collation that byte comparison does not see (or vice versa)
	FlagPrefixBytes   = "prefix-bytes"    // a prefix key compared on a value whose first n bytes and first n characters differ
	FlagDeletedUnique = "deleted-unique"  // a row whose unique-key values equal those of a row version deleted earlier in the same statement (PK tables)
	FlagReplaceMulti  = "replace-multi"   // a REPLACE row displaced two or more rows (affected-rows count)
	FlagCINoopUpdate  = "ci-noop-update"  // an UPDATE/ODKU changes a row only within collation-equal strings
	FlagAddUniqueLeft = "add-unique-left" // ALTER TABLE ADD UNIQUE must fail on prefix-duplicates only (the engine's pre-check compares full values, the index is created and the later failure does not remove it)
	FlagAddUniqueType = "add-unique-type" // ALTER TABLE ADD UNIQUE: the engine's duplicate pre-check hashes the i-th key value with the type of the table's i-th column
	FlagKeylessCI     = "keyless-ci-rows" // table without primary key: two rows in play differ only within collation-equal strings
	FlagOdkuKeyless   = "odku-keyless"    // INSERT .. ON DUPLICATE KEY UPDATE updates a row of a table without primary key (the stored row version shares memory with later row versions)
)

// Env holds what the interpreter needs beyond the tables.
type Env struct {
	// StrEq decides string equality under a collation ("" = default binary). nil: bytes.
	StrEq func(coll, a, b string) bool
	// LaxCIChange: an update whose only changes are between collation-equal strings may be
	// applied or skipped (both outcomes are admissible). Used by C14, whose statement does
	// not speak about such updates; C13 pins them.
	LaxCIChange bool
	// MaxPaths bounds the enumeration of nondeterministic choices.
	MaxPaths int
}

func (e *Env) strEq(coll, a, b string) bool {
	if a == b {
		return true
	}
	if e.StrEq == nil || coll == "" {
		return false
	}
	return e.StrEq(coll, a, b)
}

// ---- nondeterminism -----------------------------------------------------------------------

// ND replays a script of choices and records the width of every choice point.
type ND struct {
	script []int
	widths []int
	pos    int
}

// Choose returns a number in [0,n).
func (nd *ND) Choose(n int) int {
	if n <= 1 {
		return 0
	}
	v := 0
	if nd.pos < len(nd.script) {
		v = nd.script[nd.pos]
	} else {
		nd.script = append(nd.script, 0)
	}
	if nd.pos < len(nd.widths) {
		nd.widths[nd.pos] = n
	} else {
		nd.widths = append(nd.widths, n)
	}
	nd.pos++
	return v
}

// Enumerate runs f under every choice sequence (depth-first). It returns false if more than
// max paths exist (the outcomes collected so far are then incomplete).
func Enumerate(max int, f func(nd *ND)) bool {
	var script []int
	for n := 0; ; n++ {
		if n >= max {
			return false
		}
		nd := &ND{script: script}
		f(nd)
		// next script: increment the last choice that can be incremented
		s := nd.script[:nd.pos]
		w := nd.widths[:nd.pos]
		i := len(s) - 1
		for i >= 0 && s[i]+1 >= w[i] {
			i--
		}
		if i < 0 {
			return true
		}
		script = append([]int(nil), s[:i+1]...)
		script[i]++
	}
}

// ---- outcome ------------------------------------------------------------------------------

// Outcome is one admissible result of a statement.
type Outcome struct {
	Err          bool  // the statement fails (duplicate key); no effect
	Rows         []Row // contents of the target table afterwards
	AffLo, AffHi int   // admissible RowsAffected
	AltAff       int   // RowsAffected as the known replace-multi defect computes it (-1: n/a)
	Matched      int   // UPDATE: rows matched (after LIMIT)
	Flags        map[string]bool
	Collisions   int  // key collisions handled (rejected / ignored / replaced / updated)
	KeyMoved     bool // an UPDATE changed a key column of a row
	NearAccepted int  // rows stored while a near-duplicate (not key-equal) row was present
	Keys         []Key
}

func (o *Outcome) flag(f string) {
	if o.Flags == nil {
		o.Flags = map[string]bool{}
	}
	o.Flags[f] = true
}

func (o *Outcome) sig() string {
	var sb strings.Builder
	if o.Err {
		sb.WriteString("E")
	}
	rs := make([]string, len(o.Rows))
	for i, r := range o.Rows {
		rs[i] = r.String()
	}
	sort.Strings(rs)
	sb.WriteString(strings.Join(rs, ""))
	sb.WriteString("|")
	sb.WriteString(strings.Join([]string{itoa(o.AffLo), itoa(o.AffHi), itoa(o.AltAff), itoa(o.Matched)}, ","))
	return sb.String()
}

func itoa(i int) string { return strconv.Itoa(i) }

// ---- key equality -------------------------------------------------------------------------

// keyEq decides whether rows a and b are equal on key k (NULL in any key column: never).
// buggyEq is the decision of a byte-wise comparison with byte prefixes (the engine's
// columnsMatch); it is used only to recognise the regions of known findings: when the two
// decisions differ, ciDiff / prefixDiff say whether a collation or a multi-byte prefix is
// the reason.
func (e *Env) keyEq(t *Table, k *Key, a, b Row) (eq, buggyEq, ciDiff, prefixDiff bool) {
	eq, buggyEq = true, true
	for i, c := range k.Cols {
		va, vb := a[c], b[c]
		if va.Null || vb.Null {
			return false, false, false, false
		}
		if va.K != KStr {
			if va.I != vb.I {
				return false, false, false, false
			}
			continue
		}
		p := 0
		if i < len(k.Prefix) {
			p = k.Prefix[i]
		}
		ca, cb := charPrefix(va.S, p), charPrefix(vb.S, p)
		colEq := e.strEq(t.Cols[c].Coll, ca, cb)
		bugEq := bytePrefix(va.S, p) == bytePrefix(vb.S, p)
		eq = eq && colEq
		buggyEq = buggyEq && bugEq
		if colEq != bugEq {
			if colEq != (ca == cb) {
				ciDiff = true
			}
		}
		// region of the prefix-bytes finding: a multi-byte character reaches into the first p
		// bytes of either value, i.e. cutting by bytes and cutting by characters differ. (Wider
		// than "the byte-wise decisions differ": once key strings are compared under their
		// collation but still cut by bytes, the half character takes part in that comparison.)
		if p > 0 && (bytePrefix(va.S, p) != ca || bytePrefix(vb.S, p) != cb) {
			prefixDiff = true
		}
	}
	return eq, buggyEq, ciDiff, prefixDiff
}

// near reports a "near duplicate" on key k: not key-equal, but confusable — the printed
// concatenations of the key parts are equal, or the strings differ only in case / accent /
// trailing space, or (prefix keys) they share the first character.
func (e *Env) near(t *Table, k *Key, a, b Row) bool {
	var pa, pb strings.Builder
	loose := true
	anyStr := false
	for i, c := range k.Cols {
		va, vb := a[c], b[c]
		if va.Null || vb.Null {
			return false
		}
		pa.WriteString(va.Printed())
		pb.WriteString(vb.Printed())
		if va.K == KStr {
			anyStr = true
			p := 0
			if i < len(k.Prefix) {
				p = k.Prefix[i]
			}
			if p > 0 {
				if charPrefix(va.S, 1) != charPrefix(vb.S, 1) || va.S == "" {
					loose = false
				}
			} else if looseFold(va.S) != looseFold(vb.S) {
				loose = false
			}
		} else if va.I != vb.I {
			loose = false
		}
	}
	if len(k.Cols) > 1 && pa.String() == pb.String() {
		return true
	}
	return anyStr && loose
}

func looseFold(s string) string {
	s = strings.ToLower(strings.TrimRight(s, " "))
	r := strings.NewReplacer("á", "a", "é", "e", "à", "a", "Á", "a", "É", "e")
	return r.Replace(s)
}

// conflict describes a stored row that is key-equal to a candidate row.
type conflict struct {
	row int
	key int
}

// delRec is a row version deleted (or replaced by an update) earlier in the statement;
// stored: the version was in the table when the statement began.
type delRec struct {
	row    Row
	stored bool
}

func pkPrinted(t *Table, r Row) string {
	var sb strings.Builder
	for _, c := range t.PK().Cols {
		sb.WriteString(r[c].Printed())
	}
	return sb.String()
}

// conflicts returns the rows of w that are key-equal to cand on a primary/unique key, in
// key order (primary key first), skipping row index skip, and whether some other row is a
// near duplicate of cand. It sets finding flags on o.
func (e *Env) conflicts(t *Table, keys []Key, w []Row, cand Row, skip int, deleted []delRec, o *Outcome) (out []conflict, near bool) {
	for ki := range keys {
		k := &keys[ki]
		if !k.Primary && !k.Unique {
			continue
		}
		found := false
		for ri, r := range w {
			if ri == skip {
				continue
			}
			eq, bug, ci, pre := e.keyEq(t, k, r, cand)
			if eq != bug && ci {
				o.flag(FlagCIKey)
			}
			if pre {
				o.flag(FlagPrefixBytes)
			}
			if eq {
				found = true
				out = append(out, conflict{ri, ki})
			} else if e.near(t, k, r, cand) {
				near = true
			}
		}
		if !k.Primary && t.PK() != nil && len(deleted) > 0 {
			// Region of the deleted-unique defect. memory's pkTableEditAccumulator.GetByCols
			// (a) answers "no conflict" as soon as a row in its pending-deletes map matches the
			// candidate on these columns, although a row added later in the statement may hold
			// the value again; (b) the map is keyed by the printed primary key and keeps only
			// the *last* row deleted under a key, so a stored row that was deleted and whose
			// successor under the same key was deleted again is no longer recognised as
			// deleted and is reported as a conflict (and then "deleted" once more, which drops
			// the pending insert with that primary key).
			last := map[string]Row{}
			for _, d := range deleted {
				last[pkPrinted(t, d.row)] = d.row
			}
			bail := false
			for _, d := range last {
				if _, bug, _, _ := e.keyEq(t, k, d, cand); bug {
					bail = true
				}
			}
			if bail && found {
				o.flag(FlagDeletedUnique)
			}
			if !bail && !found {
				for _, d := range deleted {
					if _, bug, _, _ := e.keyEq(t, k, d.row, cand); bug && d.stored {
						o.flag(FlagDeletedUnique)
					}
				}
			}
			// (c) The engine handles the conflicts of one row one after the other (REPLACE: delete
			// the reported row, try again), so its pending-deletes map changes between the checks
			// of the keys of a single row - e.g. the spurious conflict of (b) re-deletes the stored
			// row, which then is the "last deleted" version again and makes later rows bail. The
			// model evaluates all keys of a row against one `deleted` list and does not follow
			// that. Whatever the path, the defect can only influence a row whose unique-key values
			// equal (byte-wise) those of *some* row version deleted earlier in the statement: that
			// is the region. The candidate's own previous version (UPDATE / ODKU: the last element,
			// see the callers) is left to the two narrower predicates above, otherwise every
			// UPDATE that keeps a unique column would be in the region.
			others := deleted
			if skip >= 0 {
				others = deleted[:len(deleted)-1]
			}
			for _, d := range others {
				if _, bug, _, _ := e.keyEq(t, k, d.row, cand); bug {
					o.flag(FlagDeletedUnique)
				}
			}
		}
	}
	return out, near
}

// ---- predicate and expression evaluation --------------------------------------------------

type tri int8

const (
	tF tri = iota
	tT
	tU
)

func (e *Env) cmpVals(coll string, a, b Val) (int, bool) { // (cmp, equal-under-collation)
	if a.K == KStr {
		if e.strEq(coll, a.S, b.S) {
			return 0, true
		}
		return strings.Compare(a.S, b.S), false
	}
	switch {
	case a.I < b.I:
		return -1, false
	case a.I > b.I:
		return 1, false
	}
	return 0, true
}

func (e *Env) evalPred(t *Table, p *Pred, r Row) tri {
	if p == nil {
		return tT
	}
	switch p.Kind {
	case PTrue:
		return tT
	case PCmp:
		v := r[p.C]
		if v.Null || p.V.Null {
			return tU
		}
		c, eq := e.cmpVals(t.Cols[p.C].Coll, v, p.V)
		var b bool
		switch p.Op {
		case "=":
			b = eq
		case "<>":
			b = !eq
		case "<":
			b = c < 0
		case "<=":
			b = c <= 0
		case ">":
			b = c > 0
		default:
			b = c >= 0
		}
		if b {
			return tT
		}
		return tF
	case PNull:
		if r[p.C].Null != p.Neg {
			return tT
		}
		return tF
	case PIn:
		v := r[p.C]
		if v.Null {
			return tU
		}
		res := tF
		for _, x := range p.Vs {
			if x.Null {
				if res == tF {
					res = tU
				}
				continue
			}
			if _, eq := e.cmpVals(t.Cols[p.C].Coll, v, x); eq {
				res = tT
				break
			}
		}
		if p.Neg {
			switch res {
			case tT:
				return tF
			case tF:
				return tT
			}
		}
		return res
	case PAnd:
		a, b := e.evalPred(t, p.A, r), e.evalPred(t, p.B, r)
		if a == tF || b == tF {
			return tF
		}
		if a == tT && b == tT {
			return tT
		}
		return tU
	case POr:
		a, b := e.evalPred(t, p.A, r), e.evalPred(t, p.B, r)
		if a == tT || b == tT {
			return tT
		}
		if a == tF && b == tF {
			return tF
		}
		return tU
	default:
		switch e.evalPred(t, p.A, r) {
		case tT:
			return tF
		case tF:
			return tT
		}
		return tU
	}
}

func evalExpr(x Expr, cur Row, newRow Row) Val {
	switch x.Kind {
	case EConst:
		return x.V
	case ECol:
		return cur[x.C]
	case EColPlus:
		v := cur[x.C]
		if v.Null {
			return v
		}
		v.I += x.V.I
		return v
	case EValues:
		return newRow[x.C]
	default:
		v := newRow[x.C]
		if v.Null {
			return v
		}
		v.I += x.V.I
		return v
	}
}

// applyAssigns evaluates assignments left to right on a copy of old (later assignments see
// the values set by earlier ones, as MySQL's single-table UPDATE does).
func applyAssigns(as []Assign, old Row, newRow Row) Row {
	cur := old.Copy()
	for _, a := range as {
		cur[a.C] = evalExpr(a.E, cur, newRow)
	}
	return cur
}

// sortRows orders row indices by the ORDER BY terms (NULLs first ascending), stable.
func sortIdx(rows []Row, idx []int, ord []OrdTerm) {
	sort.SliceStable(idx, func(x, y int) bool {
		a, b := rows[idx[x]], rows[idx[y]]
		for _, o := range ord {
			va, vb := a[o.C], b[o.C]
			c := 0
			switch {
			case va.Null && vb.Null:
			case va.Null:
				c = -1
			case vb.Null:
				c = 1
			case va.K == KStr:
				c = strings.Compare(va.S, vb.S)
			case va.I < vb.I:
				c = -1
			case va.I > vb.I:
				c = 1
			}
			if o.Desc {
				c = -c
			}
			if c != 0 {
				return c < 0
			}
		}
		return false
	})
}

// permute lets nd choose an order of idx.
func permute(nd *ND, idx []int, take int) []int {
	rest := append([]int(nil), idx...)
	var out []int
	for len(rest) > 0 && (take < 0 || len(out) < take) {
		i := nd.Choose(len(rest))
		out = append(out, rest[i])
		rest = append(rest[:i], rest[i+1:]...)
	}
	return out
}

// ciOnlyChange: nw differs from old, but only between strings that are equal under their
// column's collation.
func (e *Env) ciOnlyChange(t *Table, old, nw Row) bool {
	diff := false
	for i := range old {
		if old[i].Same(nw[i]) {
			continue
		}
		if old[i].Null || nw[i].Null || old[i].K != KStr || !e.strEq(t.Cols[i].Coll, old[i].S, nw[i].S) {
			return false
		}
		diff = true
	}
	return diff
}

// ---- the interpreter ----------------------------------------------------------------------

// OrderSensitive reports how many rows a statement visits without a specified order in a
// way that can influence the outcome (0: the outcome does not depend on the order).
func (e *Env) OrderSensitive(db []*Table, s *Stmt) int {
	t := db[s.Table]
	switch s.Kind {
	case SUpdate, SDelete:
		if len(s.Order) > 0 {
			return 0
		}
		n := 0
		for _, r := range t.Rows {
			if e.evalPred(t, s.Where, r) == tT {
				n++
			}
		}
		if s.Limit >= 0 && s.Limit < n {
			return n
		}
		if s.Kind == SUpdate && n > 1 && setsKeyCol(t, s.Set) {
			return n
		}
	case SInsert:
		if s.Sel == nil || len(s.Sel.Order) > 0 {
			return 0
		}
		src := db[s.Sel.Src]
		n := 0
		for _, r := range src.Rows {
			if e.evalPred(src, s.Sel.Where, r) == tT {
				n++
			}
		}
		if s.Sel.Limit >= 0 && s.Sel.Limit < n {
			return n
		}
		if n > 1 && s.Mode != MPlain && hasConstraint(t) {
			return n
		}
	}
	return 0
}

func hasConstraint(t *Table) bool {
	for _, k := range t.Keys {
		if k.Primary || k.Unique {
			return true
		}
	}
	return false
}

func setsKeyCol(t *Table, as []Assign) bool {
	for _, a := range as {
		for _, k := range t.Keys {
			if !k.Primary && !k.Unique {
				continue
			}
			for _, c := range k.Cols {
				if c == a.C {
					return true
				}
			}
		}
	}
	return false
}

// rowKeyFlag sets FlagRowKeyConcat if two distinct PK tuples among rows print alike, and
// FlagKeylessCI if the table has no primary key and two of the rows differ, but only between
// strings that their column's collation equates (memory's keylessTableEditAccumulator pairs
// pending inserts and deletes with Row.Equals, i.e. under the collation).
func (e *Env) rowKeyFlag(t *Table, rows []Row, o *Outcome) {
	pk := t.PK()
	if pk == nil {
		ci := false
		for _, c := range t.Cols {
			ci = ci || (c.K == KStr && c.Coll != "")
		}
		if ci {
			for i := range rows {
				for j := i + 1; j < len(rows); j++ {
					if e.ciOnlyChange(t, rows[i], rows[j]) {
						o.flag(FlagKeylessCI)
						return
					}
				}
			}
		}
	}
	if pk == nil || len(pk.Cols) < 2 {
		return
	}
	seen := map[string]string{}
	for _, r := range rows {
		var concat, exact strings.Builder
		for _, c := range pk.Cols {
			concat.WriteString(r[c].Printed())
			exact.WriteString(r[c].Printed())
			exact.WriteByte(0)
		}
		if prev, ok := seen[concat.String()]; ok && prev != exact.String() {
			o.flag(FlagRowKeyConcat)
			return
		}
		seen[concat.String()] = exact.String()
	}
}

// Exec interprets one statement on db under the choices of nd. db is not modified.
func (e *Env) Exec(db []*Table, s *Stmt, nd *ND) *Outcome {
	t := db[s.Table]
	o := &Outcome{AltAff: -1, Keys: t.Keys}
	w := make([]Row, len(t.Rows))
	copy(w, t.Rows)
	inPlay := append([]Row(nil), t.Rows...) // every row version seen, for the rowkey flag
	fail := func() *Outcome {
		o.Err = true
		o.Rows = t.Rows
		o.AffLo, o.AffHi, o.AltAff, o.Matched = 0, 0, -1, 0
		e.rowKeyFlag(t, inPlay, o)
		return o
	}
	switch s.Kind {
	case STruncate:
		o.Rows = nil
		o.AffLo, o.AffHi = 0, 1<<30 // not asserted (the statement does not list TRUNCATE counts)
		return o

	case SAddUnique:
		k := s.NewKey
		fullDup := false
		for i := range w {
			for j := i + 1; j < len(w); j++ {
				eq, bug, ci, pre := e.keyEq(t, &k, w[i], w[j])
				if pre {
					o.flag(FlagPrefixBytes)
				}
				if eq != bug && (ci || !pre) {
					o.flag(FlagCIKey)
				}
				if eq {
					o.Collisions++
					o.Err = true
				}
				full := Key{Cols: k.Cols, Unique: true}
				if _, bug, _, _ := e.keyEq(t, &full, w[i], w[j]); bug {
					fullDup = true
				}
			}
		}
		if o.Err && !fullDup {
			o.flag(FlagAddUniqueLeft)
		}
		for i, c := range k.Cols {
			// memory.TableData.errIfDuplicateEntryExist: hash.HashOf(ctx, td.schema.Schema, projectedKey)
			if t.Cols[i].K != t.Cols[c].K || t.Cols[i].Coll != t.Cols[c].Coll {
				o.flag(FlagAddUniqueType)
			}
		}
		o.Rows = t.Rows
		o.AffHi = 1 << 30
		if !o.Err {
			o.Keys = append(append([]Key(nil), t.Keys...), k)
		}
		return o

	case SDropUnique:
		o.Rows = t.Rows
		o.AffHi = 1 << 30
		var ks []Key
		for _, k := range t.Keys {
			if k.Name != s.NewKey.Name {
				ks = append(ks, k)
			}
		}
		o.Keys = ks
		return o

	case SDelete:
		var m []int
		for i, r := range w {
			if e.evalPred(t, s.Where, r) == tT {
				m = append(m, i)
			}
		}
		switch {
		case len(s.Order) > 0:
			sortIdx(w, m, s.Order)
			if s.Limit >= 0 && s.Limit < len(m) {
				m = m[:s.Limit]
			}
		case s.Limit >= 0 && s.Limit < len(m):
			m = permute(nd, m, s.Limit)
		}
		del := map[int]bool{}
		for _, i := range m {
			del[i] = true
		}
		for i, r := range w {
			if !del[i] {
				o.Rows = append(o.Rows, r)
			}
		}
		o.AffLo, o.AffHi = len(m), len(m)
		e.rowKeyFlag(t, inPlay, o)
		return o

	case SUpdate:
		var m []int
		for i, r := range w {
			if e.evalPred(t, s.Where, r) == tT {
				m = append(m, i)
			}
		}
		switch {
		case len(s.Order) > 0:
			sortIdx(w, m, s.Order)
			if s.Limit >= 0 && s.Limit < len(m) {
				m = m[:s.Limit]
			}
		case s.Limit >= 0 && s.Limit < len(m):
			m = permute(nd, m, s.Limit)
		case len(m) > 1 && setsKeyCol(t, s.Set):
			m = permute(nd, m, -1)
		}
		var deleted []delRec
		changed := 0
		for _, i := range m {
			old := w[i]
			nw := applyAssigns(s.Set, old, nil)
			o.Matched++
			if nw.Same(old) {
				continue
			}
			if e.ciOnlyChange(t, old, nw) {
				o.flag(FlagCINoopUpdate)
				if e.LaxCIChange && nd.Choose(2) == 1 {
					continue
				}
			}
			inPlay = append(inPlay, nw)
			// the engine has already put the old version of this row among its pending deletes
			cs, near := e.conflicts(t, t.Keys, w, nw, i, append(deleted[:len(deleted):len(deleted)], delRec{old, true}), o)
			if len(cs) > 0 {
				o.Collisions++
				return fail()
			}
			if near {
				o.NearAccepted++
			}
			for _, k := range t.Keys {
				if !k.Primary && !k.Unique {
					continue
				}
				for _, c := range k.Cols {
					if !old[c].Same(nw[c]) {
						o.KeyMoved = true
					}
				}
			}
			deleted = append(deleted, delRec{old, true})
			w[i] = nw
			changed++
		}
		o.Rows = w
		o.AffLo, o.AffHi = changed, changed
		e.rowKeyFlag(t, inPlay, o)
		return o
	}

	// ---- INSERT family ----
	var src []Row
	if s.Sel != nil {
		st := db[s.Sel.Src]
		var m []int
		for i, r := range st.Rows {
			if e.evalPred(st, s.Sel.Where, r) == tT {
				m = append(m, i)
			}
		}
		lim := s.Sel.Limit
		switch {
		case len(s.Sel.Order) > 0:
			sortIdx(st.Rows, m, s.Sel.Order)
			if lim >= 0 && lim < len(m) {
				m = m[:lim]
			}
		case lim >= 0 && lim < len(m):
			m = permute(nd, m, lim)
		case len(m) > 1 && s.Mode != MPlain && hasConstraint(t):
			m = permute(nd, m, -1)
		}
		for _, i := range m {
			r := make(Row, len(t.Cols))
			for c := range t.Cols {
				r[c] = evalExpr(s.Sel.Exprs[c], st.Rows[i], nil)
			}
			src = append(src, r)
		}
	} else {
		src = s.Rows
	}
	var deleted []delRec
	stored := make([]bool, len(w)) // parallel to w: the row was in the table when the statement began
	for i := range stored {
		stored[i] = true
	}
	aff, affHi, alt := 0, 0, 0
	for _, n := range src {
		inPlay = append(inPlay, n)
		cs, nearNow := e.conflicts(t, t.Keys, w, n, -1, deleted, o)
		if len(cs) > 0 {
			o.Collisions++
		}
		switch {
		case len(cs) == 0:
			w = append(w, n)
			stored = append(stored, false)
			aff, affHi, alt = aff+1, affHi+1, alt+1
			if nearNow {
				o.NearAccepted++
			}
		case s.Mode == MPlain:
			return fail()
		case s.Mode == MIgnore:
			// skipped, counted 0
		case s.Mode == MReplace:
			rm := map[int]bool{}
			for _, c := range cs {
				rm[c.row] = true
			}
			var nwRows []Row
			var nwStored []bool
			identical := false
			for i, r := range w {
				if rm[i] {
					deleted = append(deleted, delRec{r, stored[i]})
					if len(rm) == 1 && r.Same(n) {
						identical = true
					}
					continue
				}
				nwRows = append(nwRows, r)
				nwStored = append(nwStored, stored[i])
			}
			w = append(nwRows, n)
			stored = append(nwStored, false)
			affHi += 1 + len(rm)
			if identical {
				aff++ // MySQL reports 1 when the replaced row is identical (no delete counted)
			} else {
				aff += 1 + len(rm)
			}
			alt += 2
			if len(rm) >= 2 {
				o.flag(FlagReplaceMulti)
			}
		default: // ODKU
			var cand []int
			seen := map[int]bool{}
			for _, c := range cs {
				if !seen[c.row] {
					seen[c.row] = true
					cand = append(cand, c.row)
				}
			}
			i := cand[nd.Choose(len(cand))]
			old := w[i]
			nw := applyAssigns(s.Odku, old, n)
			if t.PK() == nil {
				// The engine stores the updated row as a slice with spare capacity
				// (insertIter.handleOnDuplicateKeyUpdate: updateAcc[:len(oldRow)]); rows that later
				// UPDATEs build from it live in that spare capacity, and on a keyless table both can
				// stay stored: a later statement then overwrites one stored row with another.
				o.flag(FlagOdkuKeyless)
			}
			// the engine's ODKU path issues Update(old, new) (= delete + insert in the edit
			// accumulator) even when nothing changes, so the old row counts as "deleted in
			// this statement" for the region of the deleted-unique finding
			deleted = append(deleted, delRec{old, stored[i]})
			if nw.Same(old) {
				stored[i] = false // re-inserted through the accumulator
				break             // 0 affected
			}
			if e.ciOnlyChange(t, old, nw) {
				o.flag(FlagCINoopUpdate)
				if e.LaxCIChange && nd.Choose(2) == 1 {
					break
				}
			}
			inPlay = append(inPlay, nw)
			if cs2, _ := e.conflicts(t, t.Keys, w, nw, i, deleted, o); len(cs2) > 0 {
				return fail()
			}
			w[i] = nw
			stored[i] = false
			aff, affHi, alt = aff+2, affHi+2, alt+2
		}
	}
	o.Rows = w
	o.AffLo, o.AffHi = aff, affHi
	if o.Flags[FlagReplaceMulti] {
		o.AltAff = alt
	}
	e.rowKeyFlag(t, inPlay, o)
	return o
}

// Outcomes enumerates the admissible outcomes of a statement. complete is false when the
// enumeration was cut off at MaxPaths.
func (e *Env) Outcomes(db []*Table, s *Stmt) (outs []*Outcome, complete bool) {
	max := e.MaxPaths
	if max <= 0 {
		max = 400
	}
	seen := map[string]bool{}
	complete = Enumerate(max, func(nd *ND) {
		o := e.Exec(db, s, nd)
		k := o.sig()
		if !seen[k] {
			seen[k] = true
			outs = append(outs, o)
		} else if len(o.Flags) > 0 {
			// keep flags of equal outcomes
			for _, p := range outs {
				if p.sig() == k {
					for f := range o.Flags {
						p.flag(f)
					}
				}
			}
		}
	})
	return outs, complete
}
