package tmodel

import (
	"fmt"

	"pgregory.net/rapid"
)

// Profile parameterises the schema / statement generators. The value domains are small on
// purpose: that is what makes key collisions, matching WHERE clauses and duplicates likely.
type Profile struct {
	Ints  []int64  // INT domain
	Strs  []string // VARCHAR domain
	Decs  []int64  // DECIMAL(10,2) domain, hundredths
	Colls []string // collations drawn for VARCHAR columns ("" = table default utf8mb4_0900_bin)

	CollsNonKeyOnly bool // collations other than the default only on columns outside every key
	DecKeys         bool // first column may be DECIMAL
	PrefixKeys      bool // unique keys with a prefix length on a VARCHAR column
	AltLits         bool // alternative spellings of literals (1.5 / 1.50, -0)
	AlterKeys       bool // ALTER TABLE ADD UNIQUE / DROP INDEX actions
	TwoTables       bool
	MaxRows         int
	// NoValuesInSelect: do not draw VALUES(col) in the ON DUPLICATE KEY UPDATE clause of an
	// INSERT ... SELECT (region of the finding odku-values-select).
	NoValuesInSelect bool
}

func (p *Profile) maxRows() int {
	if p.MaxRows > 0 {
		return p.MaxRows
	}
	return 20
}

// GenSchema draws 1-2 tables with a common column layout (kinds), so that INSERT ... SELECT
// between them is type-correct, but independent nullability, collations and keys.
func GenSchema(rt *rapid.T, p *Profile) []*Table {
	ncols := rapid.IntRange(3, 5).Draw(rt, "ncols")
	kinds := make([]Kind, ncols)
	firstKinds := []Kind{KInt, KInt, KStr}
	if p.DecKeys {
		firstKinds = append(firstKinds, KDec)
	}
	kinds[0] = rapid.SampledFrom(firstKinds).Draw(rt, "kind0")
	for i := 1; i < ncols; i++ {
		kinds[i] = rapid.SampledFrom([]Kind{KInt, KInt, KStr, KStr, KDec}).Draw(rt, "kind")
	}
	nt := 1
	if p.TwoTables && rapid.IntRange(0, 2).Draw(rt, "two") == 0 {
		nt = 2
	}
	var db []*Table
	for ti := 0; ti < nt; ti++ {
		t := &Table{Name: fmt.Sprintf("t%d", ti)}
		for i, k := range kinds {
			c := Col{Name: fmt.Sprintf("c%d", i), K: k}
			if k == KStr && len(p.Colls) > 0 {
				c.Coll = rapid.SampledFrom(p.Colls).Draw(rt, "coll")
			}
			c.Nullable = rapid.IntRange(0, 2).Draw(rt, "nullable") > 0
			t.Cols = append(t.Cols, c)
		}
		// primary key shape
		switch rapid.SampledFrom([]string{"none", "pk1", "pk1", "pk2", "pk2"}).Draw(rt, "pkshape") {
		case "pk1":
			t.Keys = append(t.Keys, Key{Primary: true, Cols: []int{0}})
		case "pk2":
			t.Keys = append(t.Keys, Key{Primary: true, Cols: []int{0, 1}})
		}
		inPK := map[int]bool{}
		if pk := t.PK(); pk != nil {
			for _, c := range pk.Cols {
				t.Cols[c].Nullable = false
				inPK[c] = true
			}
		}
		// unique key on columns outside the primary key
		var free []int
		for i := range t.Cols {
			if !inPK[i] {
				free = append(free, i)
			}
		}
		if len(free) > 0 {
			switch rapid.SampledFrom([]string{"none", "none", "u1", "u1", "u2", "prefix"}).Draw(rt, "ushape") {
			case "u1":
				c := rapid.SampledFrom(free).Draw(rt, "ucol")
				t.Keys = append(t.Keys, Key{Name: "u1", Unique: true, Cols: []int{c}})
			case "u2":
				if len(free) >= 2 {
					i := rapid.IntRange(0, len(free)-2).Draw(rt, "ucol")
					t.Keys = append(t.Keys, Key{Name: "u1", Unique: true, Cols: []int{free[i], free[i+1]}})
				}
			case "prefix":
				if p.PrefixKeys {
					var strs []int
					for _, c := range free {
						if t.Cols[c].K == KStr {
							strs = append(strs, c)
						}
					}
					if len(strs) > 0 {
						c := rapid.SampledFrom(strs).Draw(rt, "ucol")
						n := rapid.IntRange(1, 2).Draw(rt, "plen")
						t.Keys = append(t.Keys, Key{Name: "u1", Unique: true, Cols: []int{c}, Prefix: []int{n}})
					}
				}
			}
			if rapid.IntRange(0, 3).Draw(rt, "seckey") == 0 {
				c := rapid.SampledFrom(free).Draw(rt, "kcol")
				t.Keys = append(t.Keys, Key{Name: "k1", Cols: []int{c}})
			}
		}
		if p.CollsNonKeyOnly {
			for i := range t.Cols {
				if isKeyCol(t, i) {
					t.Cols[i].Coll = ""
				}
			}
		}
		db = append(db, t)
	}
	return db
}

// GenVal draws a value for column c.
func GenVal(rt *rapid.T, p *Profile, c Col) Val {
	if c.Nullable && rapid.IntRange(0, 4).Draw(rt, "null") == 0 {
		return NullV(c.K)
	}
	switch c.K {
	case KInt:
		return IntV(rapid.SampledFrom(p.Ints).Draw(rt, "int"))
	case KDec:
		return DecV(rapid.SampledFrom(p.Decs).Draw(rt, "dec"))
	default:
		return StrV(rapid.SampledFrom(p.Strs).Draw(rt, "str"))
	}
}

// GenRow draws a row: fresh values, or (to provoke key collisions) an existing row with
// some columns re-drawn.
func GenRow(rt *rapid.T, p *Profile, t *Table) Row {
	if len(t.Rows) > 0 && rapid.IntRange(0, 2).Draw(rt, "fromExisting") == 0 {
		r := rapid.SampledFrom(t.Rows).Draw(rt, "base").Copy()
		for i, c := range t.Cols {
			switch rapid.IntRange(0, 5).Draw(rt, "mutate") {
			case 0, 1:
				r[i] = GenVal(rt, p, c)
			case 2:
				// a near duplicate: a string that differs only in case / accent / trailing
				// space from the existing one
				if c.K == KStr && !r[i].Null {
					var vs []string
					for _, x := range p.Strs {
						if x != r[i].S && looseFold(x) == looseFold(r[i].S) {
							vs = append(vs, x)
						}
					}
					if len(vs) > 0 {
						r[i] = StrV(rapid.SampledFrom(vs).Draw(rt, "variant"))
					}
				}
			}
		}
		return r
	}
	r := make(Row, len(t.Cols))
	for i, c := range t.Cols {
		r[i] = GenVal(rt, p, c)
	}
	return r
}

func orderable(c Col) bool { return c.K != KStr || c.Coll == "" }

// TotalOrder returns ORDER BY columns under which the statement's outcome is determined:
// the primary key if all its columns sort the way the model sorts (numbers, binary
// strings), else all columns (ties are then identical rows). nil if neither works.
func TotalOrder(t *Table) []int {
	if pk := t.PK(); pk != nil {
		ok := true
		for _, c := range pk.Cols {
			ok = ok && orderable(t.Cols[c])
		}
		if ok {
			return pk.Cols
		}
	}
	var all []int
	for i, c := range t.Cols {
		if !orderable(c) {
			return nil
		}
		all = append(all, i)
	}
	return all
}

func genOrder(rt *rapid.T, t *Table) []OrdTerm {
	cols := TotalOrder(t)
	if cols == nil {
		return nil
	}
	cols = append([]int(nil), cols...)
	if t.PK() == nil {
		// a permutation of all columns
		cols = rapid.Permutation(cols).Draw(rt, "ordperm")
	} else if rapid.Bool().Draw(rt, "ordlead") {
		// lead with some other orderable column; the key after it keeps the order total
		var cand []int
		for i, c := range t.Cols {
			if orderable(c) {
				cand = append(cand, i)
			}
		}
		lead := rapid.SampledFrom(cand).Draw(rt, "lead")
		dup := false
		for _, c := range cols {
			dup = dup || c == lead
		}
		if !dup {
			cols = append([]int{lead}, cols...)
		}
	}
	out := make([]OrdTerm, len(cols))
	for i, c := range cols {
		out[i] = OrdTerm{C: c, Desc: rapid.Bool().Draw(rt, "desc")}
	}
	return out
}

// valueNear draws a literal for a predicate on column c: usually a value that occurs in
// the table, so that predicates match.
func valueNear(rt *rapid.T, p *Profile, t *Table, c int) Val {
	if len(t.Rows) > 0 && rapid.Bool().Draw(rt, "fromRow") {
		v := rapid.SampledFrom(t.Rows).Draw(rt, "row")[c]
		if !v.Null {
			return v
		}
	}
	col := t.Cols[c]
	col.Nullable = false
	return GenVal(rt, p, col)
}

func genAtom(rt *rapid.T, p *Profile, t *Table) *Pred {
	c := rapid.IntRange(0, len(t.Cols)-1).Draw(rt, "pcol")
	col := t.Cols[c]
	switch rapid.IntRange(0, 5).Draw(rt, "patom") {
	case 0:
		if col.Nullable {
			return &Pred{Kind: PNull, C: c, Neg: rapid.Bool().Draw(rt, "neg")}
		}
		fallthrough
	case 1:
		if col.K == KStr && col.Coll != "" {
			// `s IN (...)` on a case-insensitive column compares case-sensitively in this
			// engine while `s = ...` does not (observation for C06); WHERE evaluation is not
			// the subject of the DML checks, so only `=` / `<>` are drawn for such columns
			return &Pred{Kind: PCmp, C: c, Op: rapid.SampledFrom([]string{"=", "<>"}).Draw(rt, "op"), V: valueNear(rt, p, t, c)}
		}
		n := rapid.IntRange(1, 3).Draw(rt, "nin")
		vs := make([]Val, n)
		for i := range vs {
			vs[i] = valueNear(rt, p, t, c)
		}
		return &Pred{Kind: PIn, C: c, Vs: vs, Neg: rapid.Bool().Draw(rt, "neg")}
	default:
		ops := []string{"=", "=", "<>", "<", "<=", ">", ">="}
		if col.K == KStr && col.Coll != "" {
			ops = []string{"=", "=", "<>"} // order under a non-binary collation is not modelled
		}
		if col.K == KDec {
			// `dec <> literal` (also spelled NOT dec = literal) on an *indexed* DECIMAL column
			// returns the rows equal to the literal, too, in this engine - for SELECT as well
			// (observation for C03); not the subject of the DML checks, so not drawn
			ops = []string{"=", "=", "<", "<=", ">", ">="}
		}
		return &Pred{Kind: PCmp, C: c, Op: rapid.SampledFrom(ops).Draw(rt, "op"), V: valueNear(rt, p, t, c)}
	}
}

// GenPred draws a WHERE clause (nil = none).
func GenPred(rt *rapid.T, p *Profile, t *Table) *Pred {
	switch rapid.IntRange(0, 6).Draw(rt, "pshape") {
	case 0:
		return nil
	case 1:
		return &Pred{Kind: PAnd, A: genAtom(rt, p, t), B: genAtom(rt, p, t)}
	case 2:
		return &Pred{Kind: POr, A: genAtom(rt, p, t), B: genAtom(rt, p, t)}
	case 3:
		a := genAtom(rt, p, t)
		if a.Kind == PCmp && a.Op == "=" && t.Cols[a.C].K == KDec {
			return a // see genAtom: NOT (dec = x) is the same broken index range as dec <> x
		}
		return &Pred{Kind: PNot, A: a}
	default:
		return genAtom(rt, p, t)
	}
}

func smallDelta(rt *rapid.T, k Kind) Val {
	if k == KDec {
		return DecV(rapid.SampledFrom([]int64{-100, -25, 25, 50, 100, 1000}).Draw(rt, "ddelta"))
	}
	return IntV(rapid.SampledFrom([]int64{-2, -1, 1, 1, 2, 3, 10}).Draw(rt, "idelta"))
}

// genAssign draws `col = expr` for table t. odku permits VALUES().
func genAssign(rt *rapid.T, p *Profile, t *Table, c int, odku bool) Assign {
	col := t.Cols[c]
	var choices []string
	choices = append(choices, "const", "const")
	if col.K != KStr {
		choices = append(choices, "plus", "plus")
	}
	// another column of the same kind that cannot bring a NULL into a NOT NULL column
	var same []int
	for i, o := range t.Cols {
		if i != c && o.K == col.K && (col.Nullable || !o.Nullable) {
			same = append(same, i)
		}
	}
	if len(same) > 0 {
		choices = append(choices, "col")
		if col.K != KStr {
			choices = append(choices, "colplus")
		}
	}
	if odku {
		choices = append(choices, "values", "values")
		if col.K != KStr {
			choices = append(choices, "valuesplus")
		}
	}
	switch rapid.SampledFrom(choices).Draw(rt, "rhs") {
	case "const":
		return Assign{C: c, E: Expr{Kind: EConst, V: GenVal(rt, p, col), Alt: p.AltLits && rapid.Bool().Draw(rt, "alt")}}
	case "plus":
		return Assign{C: c, E: Expr{Kind: EColPlus, C: c, V: smallDelta(rt, col.K)}}
	case "col":
		return Assign{C: c, E: Expr{Kind: ECol, C: rapid.SampledFrom(same).Draw(rt, "src")}}
	case "colplus":
		return Assign{C: c, E: Expr{Kind: EColPlus, C: rapid.SampledFrom(same).Draw(rt, "src"), V: smallDelta(rt, col.K)}}
	case "values":
		return Assign{C: c, E: Expr{Kind: EValues, C: c}}
	default:
		return Assign{C: c, E: Expr{Kind: EValuesPlus, C: c, V: smallDelta(rt, col.K)}}
	}
}

func isKeyCol(t *Table, c int) bool {
	for _, k := range t.Keys {
		if !k.Primary && !k.Unique {
			continue
		}
		for _, kc := range k.Cols {
			if kc == c {
				return true
			}
		}
	}
	return false
}

func genAssigns(rt *rapid.T, p *Profile, t *Table, odku bool) []Assign {
	n := rapid.IntRange(1, 2).Draw(rt, "nassign")
	var keyCols, valCols []int
	for i := range t.Cols {
		if isKeyCol(t, i) {
			keyCols = append(keyCols, i)
		} else {
			valCols = append(valCols, i)
		}
	}
	var out []Assign
	used := map[int]bool{}
	for i := 0; i < n; i++ {
		pool := valCols
		if len(keyCols) > 0 && (len(valCols) == 0 || rapid.IntRange(0, 2).Draw(rt, "setKey") == 0) {
			pool = keyCols
		}
		c := rapid.SampledFrom(pool).Draw(rt, "acol")
		if used[c] {
			continue
		}
		used[c] = true
		out = append(out, genAssign(rt, p, t, c, odku))
	}
	return out
}

func genLimit(rt *rapid.T) int {
	if rapid.IntRange(0, 2).Draw(rt, "hasLimit") != 0 {
		return -1
	}
	return rapid.IntRange(0, 3).Draw(rt, "limit")
}

// GenInsert draws an INSERT-family statement on table ti.
func GenInsert(rt *rapid.T, p *Profile, db []*Table, ti int) *Stmt {
	t := db[ti]
	s := &Stmt{Kind: SInsert, Table: ti, Limit: -1}
	s.Mode = rapid.SampledFrom([]InsMode{MPlain, MPlain, MIgnore, MReplace, MOdku}).Draw(rt, "mode")
	if rapid.IntRange(0, 3).Draw(rt, "collist") == 0 {
		idx := make([]int, len(t.Cols))
		for i := range idx {
			idx[i] = i
		}
		s.ColPerm = rapid.Permutation(idx).Draw(rt, "colperm")
	}
	if rapid.IntRange(0, 3).Draw(rt, "fromSelect") == 0 {
		src := rapid.IntRange(0, len(db)-1).Draw(rt, "src")
		st := db[src]
		sel := &Select{Src: src, Limit: genLimit(rt)}
		for c, col := range t.Cols {
			sc := st.Cols[c]
			var e Expr
			mustConst := sc.Nullable && !col.Nullable
			switch k := rapid.IntRange(0, 3).Draw(rt, "proj"); {
			case mustConst || k == 0:
				cc := col
				e = Expr{Kind: EConst, V: GenVal(rt, p, cc)}
			case k == 1 && col.K != KStr:
				e = Expr{Kind: EColPlus, C: c, V: smallDelta(rt, col.K)}
			default:
				e = Expr{Kind: ECol, C: c}
			}
			sel.Exprs = append(sel.Exprs, e)
		}
		sel.Where = GenPred(rt, p, st)
		if rapid.IntRange(0, 3).Draw(rt, "selOrdered") != 0 {
			sel.Order = genOrder(rt, st)
		}
		s.Sel = sel
	} else {
		n := rapid.IntRange(1, 4).Draw(rt, "nrows")
		for i := 0; i < n; i++ {
			if i > 0 && rapid.IntRange(0, 3).Draw(rt, "dupInStmt") == 0 {
				// a row that collides with an earlier row of the same statement
				r := s.Rows[rapid.IntRange(0, i-1).Draw(rt, "dupOf")].Copy()
				for c, col := range t.Cols {
					if !isKeyCol(t, c) && rapid.Bool().Draw(rt, "mut") {
						r[c] = GenVal(rt, p, col)
					}
				}
				s.Rows = append(s.Rows, r)
			} else {
				s.Rows = append(s.Rows, GenRow(rt, p, t))
			}
			s.Alt = append(s.Alt, p.AltLits && rapid.Bool().Draw(rt, "alt"))
		}
	}
	if s.Mode == MOdku {
		s.Odku = genAssigns(rt, p, t, !(s.Sel != nil && p.NoValuesInSelect))
	}
	return s
}

// GenUpdate draws an UPDATE on table ti.
func GenUpdate(rt *rapid.T, p *Profile, db []*Table, ti int) *Stmt {
	t := db[ti]
	s := &Stmt{Kind: SUpdate, Table: ti}
	s.Set = genAssigns(rt, p, t, false)
	s.Where = GenPred(rt, p, t)
	if rapid.Bool().Draw(rt, "ordered") {
		s.Order = genOrder(rt, t)
	}
	s.Limit = genLimit(rt)
	return s
}

// GenDelete draws a DELETE on table ti.
func GenDelete(rt *rapid.T, p *Profile, db []*Table, ti int) *Stmt {
	t := db[ti]
	s := &Stmt{Kind: SDelete, Table: ti}
	s.Where = GenPred(rt, p, t)
	if s.Where == nil && rapid.IntRange(0, 2).Draw(rt, "forceWhere") != 0 {
		s.Where = genAtom(rt, p, t)
	}
	if rapid.Bool().Draw(rt, "ordered") {
		s.Order = genOrder(rt, t)
	}
	s.Limit = genLimit(rt)
	return s
}

// GenAddUnique draws ALTER TABLE ADD UNIQUE KEY on 1-2 columns (optionally a prefix).
func GenAddUnique(rt *rapid.T, p *Profile, db []*Table, ti int, name string) *Stmt {
	t := db[ti]
	c := rapid.IntRange(0, len(t.Cols)-1).Draw(rt, "ucol")
	k := Key{Name: name, Unique: true, Cols: []int{c}}
	if p.PrefixKeys && t.Cols[c].K == KStr && rapid.Bool().Draw(rt, "prefix") {
		k.Prefix = []int{rapid.IntRange(1, 2).Draw(rt, "plen")}
	} else if rapid.IntRange(0, 2).Draw(rt, "two") == 0 {
		c2 := rapid.IntRange(0, len(t.Cols)-1).Draw(rt, "ucol2")
		if c2 != c {
			k.Cols = append(k.Cols, c2)
		}
	}
	return &Stmt{Kind: SAddUnique, Table: ti, NewKey: k, Limit: -1}
}
