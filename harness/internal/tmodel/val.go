// Package tmodel is the reference table model shared by the DML checks C13 (DML matches a
// reference model), C14 (key enforcement) and C20 (AUTO_INCREMENT): values, table schemas,
// a small DML statement AST with SQL rendering, a deliberately naive row-by-row interpreter
// of those statements over []Row ("keyed map or multiset"), rapid generators for schemas
// and statements, and the state-machine runner that compares engine and model after each
// statement.
//
// Nondeterminism. Wherever SQL leaves the outcome open (UPDATE/DELETE with LIMIT but no
// ORDER BY, UPDATE of key columns without ORDER BY, INSERT ... SELECT without a total
// order, ON DUPLICATE KEY UPDATE when several rows conflict) the interpreter asks an ND
// object for a choice; Enumerate runs it over every choice sequence and the check accepts
// the engine's outcome iff it equals one of the enumerated outcomes.
package tmodel

import (
	"fmt"
	"math/big"
	"strconv"
	"strings"
	"unicode/utf8"
)

// Kind is the type class of a column / value.
type Kind uint8

const (
	KInt Kind = iota // INT
	KStr             // VARCHAR(8)
	KDec             // DECIMAL(10,2), held as an integer number of hundredths
)

// Val is one SQL value of the model.
type Val struct {
	Null bool
	K    Kind
	I    int64  // KInt: the integer; KDec: hundredths
	S    string // KStr
}

func IntV(i int64) Val  { return Val{K: KInt, I: i} }
func StrV(s string) Val { return Val{K: KStr, S: s} }
func DecV(h int64) Val  { return Val{K: KDec, I: h} }
func NullV(k Kind) Val  { return Val{K: k, Null: true} }

// Norm is the canonical form fx.Norm produces for the same value.
func (v Val) Norm() string {
	if v.Null {
		return "N"
	}
	switch v.K {
	case KInt:
		return "n:" + strconv.FormatInt(v.I, 10)
	case KDec:
		return "n:" + big.NewRat(v.I, 100).RatString()
	default:
		return "s:" + v.S
	}
}

// Same is exact identity (NULL is the same as NULL; strings byte-wise).
func (v Val) Same(w Val) bool {
	if v.Null || w.Null {
		return v.Null && w.Null
	}
	if v.K == KStr {
		return v.S == w.S
	}
	return v.I == w.I
}

// Printed is Go's %v of the engine's in-memory value (what memory.getRowKey prints).
func (v Val) Printed() string {
	if v.Null {
		return "<nil>"
	}
	switch v.K {
	case KInt:
		return strconv.FormatInt(v.I, 10)
	case KDec:
		return decText(v.I, 2)
	default:
		return v.S
	}
}

func decText(h int64, scale int) string {
	neg := h < 0
	if neg {
		h = -h
	}
	s := fmt.Sprintf("%d.%02d", h/100, h%100)
	if scale == 1 && strings.HasSuffix(s, "0") {
		s = s[:len(s)-1]
	}
	if neg {
		s = "-" + s
	}
	return s
}

// Lit renders the value as a SQL literal. alt selects an alternative spelling of the same
// value (1.5 for 1.50, -0 for 0, -0.00 for 0.00) where one exists.
func (v Val) Lit(alt bool) string {
	if v.Null {
		return "NULL"
	}
	switch v.K {
	case KInt:
		if alt && v.I == 0 {
			return "-0"
		}
		return strconv.FormatInt(v.I, 10)
	case KDec:
		if alt && v.I == 0 {
			return "-0.00"
		}
		if alt && v.I%10 == 0 {
			return decText(v.I, 1)
		}
		return decText(v.I, 2)
	default:
		return "'" + strings.ReplaceAll(v.S, "'", "''") + "'"
	}
}

// ParseNorm converts a canonical form back to a model value of kind k.
func ParseNorm(k Kind, s string) (Val, error) {
	if s == "N" {
		return NullV(k), nil
	}
	switch k {
	case KInt:
		if strings.HasPrefix(s, "n:") {
			i, err := strconv.ParseInt(s[2:], 10, 64)
			if err == nil {
				return IntV(i), nil
			}
		}
	case KDec:
		if strings.HasPrefix(s, "n:") {
			r, ok := new(big.Rat).SetString(s[2:])
			if ok {
				r.Mul(r, big.NewRat(100, 1))
				if r.IsInt() {
					return DecV(r.Num().Int64()), nil
				}
			}
		}
	case KStr:
		if strings.HasPrefix(s, "s:") {
			return StrV(s[2:]), nil
		}
	}
	return Val{}, fmt.Errorf("cannot parse %q as kind %d", s, k)
}

// Row is one table row.
type Row []Val

func (r Row) Copy() Row { return append(Row(nil), r...) }

func (r Row) Same(o Row) bool {
	if len(r) != len(o) {
		return false
	}
	for i := range r {
		if !r[i].Same(o[i]) {
			return false
		}
	}
	return true
}

func (r Row) Norm() []string {
	out := make([]string, len(r))
	for i, v := range r {
		out[i] = v.Norm()
	}
	return out
}

func (r Row) String() string { return "(" + strings.Join(r.Norm(), ",") + ")" }

// NormRows renders rows in canonical form.
func NormRows(rows []Row) [][]string {
	out := make([][]string, len(rows))
	for i, r := range rows {
		out[i] = r.Norm()
	}
	return out
}

// Col is a column of a model table.
type Col struct {
	Name     string
	K        Kind
	Coll     string // collation of a KStr column; "" = the default utf8mb4_0900_bin
	Nullable bool
}

// Key is a primary or unique key. Prefix[i] > 0 is a prefix length in characters.
type Key struct {
	Name    string
	Cols    []int
	Prefix  []int
	Primary bool
	Unique  bool // false: plain secondary index (no constraint)
}

// Table is the model of one table: schema plus current rows (a multiset; the slice order
// has no meaning).
type Table struct {
	Name string
	Cols []Col
	Keys []Key // the primary key, if any, comes first
	Rows []Row
}

func (t *Table) PK() *Key {
	if len(t.Keys) > 0 && t.Keys[0].Primary {
		return &t.Keys[0]
	}
	return nil
}

func (t *Table) typeSQL(c Col) string {
	var s string
	switch c.K {
	case KInt:
		s = "INT"
	case KDec:
		s = "DECIMAL(10,2)"
	default:
		s = "VARCHAR(8)"
		if c.Coll != "" {
			s += " COLLATE " + c.Coll
		}
	}
	if !c.Nullable {
		s += " NOT NULL"
	}
	return s
}

func (t *Table) keyColsSQL(k *Key) string {
	parts := make([]string, len(k.Cols))
	for i, c := range k.Cols {
		parts[i] = t.Cols[c].Name
		if i < len(k.Prefix) && k.Prefix[i] > 0 {
			parts[i] += fmt.Sprintf("(%d)", k.Prefix[i])
		}
	}
	return strings.Join(parts, ", ")
}

// DDL renders CREATE TABLE.
func (t *Table) DDL() string {
	var parts []string
	for _, c := range t.Cols {
		parts = append(parts, c.Name+" "+t.typeSQL(c))
	}
	for i := range t.Keys {
		k := &t.Keys[i]
		switch {
		case k.Primary:
			parts = append(parts, "PRIMARY KEY ("+t.keyColsSQL(k)+")")
		case k.Unique:
			parts = append(parts, "UNIQUE KEY "+k.Name+" ("+t.keyColsSQL(k)+")")
		default:
			parts = append(parts, "KEY "+k.Name+" ("+t.keyColsSQL(k)+")")
		}
	}
	return "CREATE TABLE " + t.Name + " (" + strings.Join(parts, ", ") + ")"
}

// Clone copies the table (rows are copied, too).
func (t *Table) Clone() *Table {
	c := *t
	c.Keys = append([]Key(nil), t.Keys...)
	c.Rows = make([]Row, len(t.Rows))
	for i, r := range t.Rows {
		c.Rows[i] = r.Copy()
	}
	return &c
}

// charPrefix returns the first n characters of s.
func charPrefix(s string, n int) string {
	if n <= 0 {
		return s
	}
	i := 0
	for k := 0; k < n && i < len(s); k++ {
		_, w := utf8.DecodeRuneInString(s[i:])
		i += w
	}
	return s[:i]
}

// bytePrefix returns the first n bytes of s.
func bytePrefix(s string, n int) string {
	if n <= 0 || n > len(s) {
		return s
	}
	return s[:n]
}
