package tmodel

import (
	"fmt"
	"sync"

	"github.com/dolthub/go-mysql-server/vh/internal/fx"
)

// EngineEq decides string equality under a collation by asking the engine's own `=`
// (column = literal on a keyless, index-free table), once per collation and process, for
// all pairs of a closed value domain. The property statements of C13/C14 speak of
// equality "under the columns' collations"; which strings a collation equates is the
// subject of C29, not of these checks, so the engine's comparison operator is the
// reference here. The relation is verified to be an equivalence before it is used.
type EngineEq struct {
	mu     sync.Mutex
	domain []string
	tables map[string]map[[2]string]bool
}

// NewEngineEq builds the oracle for the strings of domain and their 1- and 2-character
// prefixes.
func NewEngineEq(domain []string) *EngineEq {
	seen := map[string]bool{}
	var d []string
	add := func(s string) {
		if !seen[s] {
			seen[s] = true
			d = append(d, s)
		}
	}
	for _, s := range domain {
		add(s)
		add(charPrefix(s, 1))
		add(charPrefix(s, 2))
	}
	return &EngineEq{domain: d, tables: map[string]map[[2]string]bool{}}
}

func (q *EngineEq) build(coll string) map[[2]string]bool {
	f := fx.New(fx.Opts{})
	defer f.Close()
	s := f.NewSession("", "", "")
	fail := func(format string, args ...any) {
		panic(fmt.Sprintf("tmodel.EngineEq(%s): "+format, append([]any{coll}, args...)...))
	}
	s.MustExec(fail, "CREATE TABLE e (id INT, v VARCHAR(8) COLLATE "+coll+")")
	for i, v := range q.domain {
		s.MustExec(fail, fmt.Sprintf("INSERT INTO e VALUES (%d, %s)", i, StrV(v).Lit(false)))
	}
	m := map[[2]string]bool{}
	for _, x := range q.domain {
		r := s.Exec("SELECT id FROM e WHERE v = " + StrV(x).Lit(false))
		if !r.OK() {
			fail("%s", r)
		}
		for _, row := range fx.NormRows(r.Schema, r.Rows) {
			v, err := ParseNorm(KInt, row[0])
			if err != nil {
				fail("%v", err)
			}
			m[[2]string{q.domain[v.I], x}] = true
		}
	}
	// must be an equivalence relation, else a model built on it is meaningless
	for _, a := range q.domain {
		if !m[[2]string{a, a}] {
			fail("'=' is not reflexive on %q", a)
		}
		for _, b := range q.domain {
			if m[[2]string{a, b}] != m[[2]string{b, a}] {
				fail("'=' is not symmetric on %q, %q", a, b)
			}
			for _, c := range q.domain {
				if m[[2]string{a, b}] && m[[2]string{b, c}] && !m[[2]string{a, c}] {
					fail("'=' is not transitive on %q, %q, %q", a, b, c)
				}
			}
		}
	}
	return m
}

// Eq is an Env.StrEq.
func (q *EngineEq) Eq(coll, a, b string) bool {
	if a == b {
		return true
	}
	if coll == "" {
		return false
	}
	q.mu.Lock()
	m := q.tables[coll]
	if m == nil {
		m = q.build(coll)
		q.tables[coll] = m
	}
	q.mu.Unlock()
	if !m[[2]string{a, a}] || !m[[2]string{b, b}] {
		panic(fmt.Sprintf("tmodel.EngineEq: %q or %q outside the closed string domain", a, b))
	}
	return m[[2]string{a, b}]
}
