package tmodel

import (
	"fmt"
	"strings"
)

// ---- expressions (right-hand sides of assignments and INSERT ... SELECT projections) ----

type ExprKind uint8

const (
	EConst      ExprKind = iota // literal V
	ECol                        // column C of the current row
	EColPlus                    // column C + literal V (numeric)
	EValues                     // VALUES(C)            (ON DUPLICATE KEY UPDATE only)
	EValuesPlus                 // VALUES(C) + literal V (ON DUPLICATE KEY UPDATE only, numeric)
)

type Expr struct {
	Kind ExprKind
	C    int
	V    Val
	Alt  bool // alternative literal spelling
}

func (e Expr) SQL(t *Table, q string) string {
	switch e.Kind {
	case EConst:
		return e.V.Lit(e.Alt)
	case ECol:
		return q + t.Cols[e.C].Name
	case EColPlus:
		return q + t.Cols[e.C].Name + " + " + plusLit(e.V)
	case EValues:
		return "VALUES(" + t.Cols[e.C].Name + ")"
	default:
		return "VALUES(" + t.Cols[e.C].Name + ") + " + plusLit(e.V)
	}
}

func plusLit(v Val) string {
	s := v.Lit(false)
	if strings.HasPrefix(s, "-") {
		return "(" + s + ")"
	}
	return s
}

// Assign is `col = expr`.
type Assign struct {
	C int
	E Expr
}

// ---- predicates ---------------------------------------------------------------------------

type PredKind uint8

const (
	PTrue PredKind = iota
	PCmp           // col Op literal
	PNull          // col IS [NOT] NULL
	PIn            // col [NOT] IN (literals)
	PAnd
	POr
	PNot
)

type Pred struct {
	Kind PredKind
	C    int
	Op   string // = <> < <= > >=
	V    Val
	Vs   []Val
	Neg  bool
	A, B *Pred
}

func (p *Pred) SQL(t *Table, q string) string {
	if p == nil {
		return "TRUE"
	}
	switch p.Kind {
	case PTrue:
		return "TRUE"
	case PCmp:
		return q + t.Cols[p.C].Name + " " + p.Op + " " + p.V.Lit(false)
	case PNull:
		if p.Neg {
			return q + t.Cols[p.C].Name + " IS NOT NULL"
		}
		return q + t.Cols[p.C].Name + " IS NULL"
	case PIn:
		ls := make([]string, len(p.Vs))
		for i, v := range p.Vs {
			ls[i] = v.Lit(false)
		}
		n := ""
		if p.Neg {
			n = "NOT "
		}
		return q + t.Cols[p.C].Name + " " + n + "IN (" + strings.Join(ls, ", ") + ")"
	case PAnd:
		return "(" + p.A.SQL(t, q) + " AND " + p.B.SQL(t, q) + ")"
	case POr:
		return "(" + p.A.SQL(t, q) + " OR " + p.B.SQL(t, q) + ")"
	default:
		return "(NOT " + p.A.SQL(t, q) + ")"
	}
}

// ---- statements ---------------------------------------------------------------------------

type StmtKind uint8

const (
	SInsert StmtKind = iota
	SUpdate
	SDelete
	STruncate
	SAddUnique  // ALTER TABLE ... ADD UNIQUE KEY (C14)
	SDropUnique // ALTER TABLE ... DROP INDEX (C14)
)

type InsMode uint8

const (
	MPlain InsMode = iota
	MIgnore
	MReplace
	MOdku
)

func (m InsMode) String() string {
	return [...]string{"insert", "insert-ignore", "replace", "odku"}[m]
}

type OrdTerm struct {
	C    int
	Desc bool
}

// Select is the source of INSERT ... SELECT: one expression per target column evaluated
// over the rows of table Src.
type Select struct {
	Src   int
	Exprs []Expr
	Where *Pred
	Order []OrdTerm
	Limit int // -1: none
}

type Stmt struct {
	Kind  StmtKind
	Table int

	// INSERT
	Mode    InsMode
	ColPerm []int   // nil: no column list; else the column list order
	Rows    []Row   // VALUES rows in schema order
	Alt     []bool  // per VALUES row: alternative literal spelling
	Sel     *Select // or a SELECT source
	Odku    []Assign

	// UPDATE / DELETE
	Set   []Assign
	Where *Pred
	Order []OrdTerm
	Limit int // -1: none

	// ADD / DROP UNIQUE
	NewKey Key
}

func orderSQL(t *Table, o []OrdTerm, q string) string {
	if len(o) == 0 {
		return ""
	}
	parts := make([]string, len(o))
	for i, x := range o {
		parts[i] = q + t.Cols[x.C].Name
		if x.Desc {
			parts[i] += " DESC"
		}
	}
	return " ORDER BY " + strings.Join(parts, ", ")
}

func assignsSQL(t *Table, as []Assign, q string) string {
	parts := make([]string, len(as))
	for i, a := range as {
		parts[i] = q + t.Cols[a.C].Name + " = " + a.E.SQL(t, q)
	}
	return strings.Join(parts, ", ")
}

// SQL renders the statement against the tables of db.
func (s *Stmt) SQL(db []*Table) string {
	t := db[s.Table]
	switch s.Kind {
	case STruncate:
		return "TRUNCATE TABLE " + t.Name
	case SAddUnique:
		return "ALTER TABLE " + t.Name + " ADD UNIQUE KEY " + s.NewKey.Name + " (" + t.keyColsSQL(&s.NewKey) + ")"
	case SDropUnique:
		return "ALTER TABLE " + t.Name + " DROP INDEX " + s.NewKey.Name
	case SDelete, SUpdate:
		var sb strings.Builder
		if s.Kind == SDelete {
			sb.WriteString("DELETE FROM " + t.Name)
		} else {
			sb.WriteString("UPDATE " + t.Name + " SET " + assignsSQL(t, s.Set, ""))
		}
		if s.Where != nil && s.Where.Kind != PTrue {
			sb.WriteString(" WHERE " + s.Where.SQL(t, ""))
		}
		sb.WriteString(orderSQL(t, s.Order, ""))
		if s.Limit >= 0 {
			fmt.Fprintf(&sb, " LIMIT %d", s.Limit)
		}
		return sb.String()
	}
	var sb strings.Builder
	switch s.Mode {
	case MIgnore:
		sb.WriteString("INSERT IGNORE INTO ")
	case MReplace:
		sb.WriteString("REPLACE INTO ")
	default:
		sb.WriteString("INSERT INTO ")
	}
	sb.WriteString(t.Name)
	perm := s.ColPerm
	if perm != nil {
		names := make([]string, len(perm))
		for i, c := range perm {
			names[i] = t.Cols[c].Name
		}
		sb.WriteString(" (" + strings.Join(names, ", ") + ")")
	}
	if s.Sel != nil {
		src := db[s.Sel.Src]
		es := make([]string, len(t.Cols))
		for i := range t.Cols {
			c := i
			if perm != nil {
				c = perm[i]
			}
			es[i] = s.Sel.Exprs[c].SQL(src, "src.")
		}
		sb.WriteString(" SELECT " + strings.Join(es, ", ") + " FROM " + src.Name + " AS src")
		if s.Sel.Where != nil && s.Sel.Where.Kind != PTrue {
			sb.WriteString(" WHERE " + s.Sel.Where.SQL(src, "src."))
		}
		sb.WriteString(orderSQL(src, s.Sel.Order, "src."))
		if s.Sel.Limit >= 0 {
			fmt.Fprintf(&sb, " LIMIT %d", s.Sel.Limit)
		}
	} else {
		sb.WriteString(" VALUES ")
		for ri, r := range s.Rows {
			if ri > 0 {
				sb.WriteString(", ")
			}
			alt := ri < len(s.Alt) && s.Alt[ri]
			vs := make([]string, len(r))
			for i := range r {
				c := i
				if perm != nil {
					c = perm[i]
				}
				vs[i] = r[c].Lit(alt)
			}
			sb.WriteString("(" + strings.Join(vs, ", ") + ")")
		}
	}
	if s.Mode == MOdku {
		// with a SELECT source unqualified names would be ambiguous (MySQL error 1052)
		q := ""
		if s.Sel != nil {
			q = t.Name + "."
		}
		sb.WriteString(" ON DUPLICATE KEY UPDATE " + assignsSQL(t, s.Odku, q))
	}
	return sb.String()
}

// KindLabel is the statement class used in the evidence histograms.
func (s *Stmt) KindLabel() string {
	switch s.Kind {
	case SInsert:
		l := s.Mode.String()
		if s.Sel != nil {
			l += "-select"
		}
		return l
	case SUpdate:
		return "update"
	case SDelete:
		return "delete"
	case STruncate:
		return "truncate"
	case SAddUnique:
		return "add-unique"
	default:
		return "drop-unique"
	}
}
