package tmodel

import (
	"fmt"
	"sort"
	"strings"

	"github.com/dolthub/go-mysql-server/sql"
	"github.com/dolthub/go-mysql-server/sql/plan"
	"github.com/dolthub/go-mysql-server/vh/internal/fx"
	"github.com/dolthub/go-mysql-server/vh/internal/kf"
	"github.com/dolthub/go-mysql-server/vh/internal/stats"
	"pgregory.net/rapid"
)

// Config describes one model-based DML check (C13 or C14).
type Config struct {
	Profile Profile
	Env     *Env
	// Known maps a finding flag of the interpreter to the finding id of this property.
	// A statement whose admissible outcomes carry a flag whose id is *listed* is not
	// executed (excluded by construction, counted); if the id is not listed the statement
	// runs and a mismatch is a violation.
	Known map[string]string
	// CountOnly lists flags that do not exclude the statement: only the affected-rows count
	// may deviate in the way the finding describes (Outcome.AltAff).
	CountOnly map[string]bool
	// KeyInvariant: after every step no two stored rows may be key-equal (C14, first clause).
	KeyInvariant bool
	// NoCounts: RowsAffected / matched / changed are not asserted (C14 does not speak of them).
	NoCounts bool
	// SkipFlags: statements in these regions are never executed: defects of *another*
	// property that would only make the model lose track of the table contents.
	SkipFlags map[string]bool
}

// History is what a case did; the caller derives its non-triviality rule from it.
type History struct {
	SQL          []string
	Successes    int
	Failures     int
	Collisions   int // key collisions handled (rejected, ignored, replaced, updated)
	DupRejected  int // statements that failed with a duplicate key, as the model demands
	KeyMoves     int
	NearAccepted int
	Skipped      int
	Dead         bool // model and engine diverged on a listed known finding
}

// IsDup reports whether err is a duplicate-key error.
func IsDup(err error) bool {
	if err == nil {
		return false
	}
	e := sql.UnwrapError(err)
	return sql.ErrPrimaryKeyViolation.Is(e) || sql.ErrUniqueKeyViolation.Is(e) || sql.ErrDuplicateEntry.Is(e) ||
		sql.ErrPrimaryKeyViolation.Is(err) || sql.ErrUniqueKeyViolation.Is(err) || sql.ErrDuplicateEntry.Is(err)
}

// Runner is the per-case state.
type Runner struct {
	Cfg  *Config
	St   *stats.Collector
	F    *fx.Fixture
	S    *fx.Sess
	DB   []*Table
	H    History
	nkey int
}

// NewRunner creates the engine fixture and the tables of db.
func NewRunner(rt *rapid.T, st *stats.Collector, cfg *Config, db []*Table) *Runner {
	r := &Runner{Cfg: cfg, St: st, DB: db}
	r.F = fx.New(fx.Opts{})
	r.S = r.F.NewSession("", "", "")
	for _, t := range db {
		ddl := t.DDL()
		r.H.SQL = append(r.H.SQL, ddl)
		res := r.S.Exec(ddl)
		if !res.OK() {
			rt.Fatalf("set-up failed: %s -> %s\n%s", ddl, res, res.Stack)
		}
	}
	return r
}

func (r *Runner) Close() { r.F.Close() }

func (r *Runner) history() string {
	return "  " + strings.Join(r.H.SQL, ";\n  ") + ";"
}

// ReadTable returns the engine's rows of table t as model rows.
func (r *Runner) ReadTable(rt *rapid.T, t *Table) []Row {
	res := r.S.Exec("SELECT * FROM " + t.Name)
	if !res.OK() {
		rt.Fatalf("SELECT * FROM %s failed: %s\n%s\nhistory:\n%s", t.Name, res, res.Stack, r.history())
	}
	norm := fx.NormRows(res.Schema, res.Rows)
	out := make([]Row, len(norm))
	for i, nr := range norm {
		if len(nr) != len(t.Cols) {
			rt.Fatalf("SELECT * FROM %s returned %d columns, table has %d\nhistory:\n%s", t.Name, len(nr), len(t.Cols), r.history())
		}
		row := make(Row, len(nr))
		for c, s := range nr {
			v, err := ParseNorm(t.Cols[c].K, s)
			if err != nil {
				rt.Fatalf("SELECT * FROM %s: value %q in column %s does not fit the column type (%v)\nhistory:\n%s", t.Name, s, t.Cols[c].Name, err, r.history())
			}
			row[c] = v
		}
		out[i] = row
	}
	return out
}

func sameMultiset(a, b []Row) bool {
	if len(a) != len(b) {
		return false
	}
	ka := make([]string, len(a))
	kb := make([]string, len(b))
	for i := range a {
		ka[i] = a[i].String()
		kb[i] = b[i].String()
	}
	sort.Strings(ka)
	sort.Strings(kb)
	for i := range ka {
		if ka[i] != kb[i] {
			return false
		}
	}
	return true
}

func showRows(rows []Row) string { return fx.Show(NormRows(rows)) }

func (r *Runner) describe(outs []*Outcome) string {
	var sb strings.Builder
	for i, o := range outs {
		if i >= 6 {
			fmt.Fprintf(&sb, "    ... %d more\n", len(outs)-i)
			break
		}
		if o.Err {
			sb.WriteString("    fails with a duplicate-key error, table unchanged\n")
			continue
		}
		fmt.Fprintf(&sb, "    rows=%s affected=%d", showRows(o.Rows), o.AffLo)
		if o.AffHi != o.AffLo && o.AffHi < 1<<29 {
			fmt.Fprintf(&sb, "..%d", o.AffHi)
		}
		fmt.Fprintf(&sb, " matched=%d\n", o.Matched)
	}
	return sb.String()
}

// Step runs one statement on model and engine and compares. It returns false if the
// statement was skipped.
func (r *Runner) Step(rt *rapid.T, s *Stmt) bool {
	if r.H.Dead {
		return false
	}
	cfg := r.Cfg
	t := r.DB[s.Table]
	q := s.SQL(r.DB)
	outs, complete := cfg.Env.Outcomes(r.DB, s)
	if !complete {
		r.St.Class("skipped:too-many-orders")
		r.H.Skipped++
		return false
	}
	flags := map[string]bool{}
	for _, o := range outs {
		for f := range o.Flags {
			flags[f] = true
		}
	}
	var flagList []string
	for f := range flags {
		flagList = append(flagList, f)
	}
	sort.Strings(flagList)
	for _, f := range flagList {
		if cfg.SkipFlags[f] {
			r.St.Class("skipped:" + f)
			r.H.Skipped++
			return false
		}
		if id := cfg.Known[f]; id != "" && !cfg.CountOnly[f] && kf.Listed(id) {
			r.St.Excluded(id)
			r.H.Skipped++
			return false
		}
	}

	r.H.SQL = append(r.H.SQL, q)
	res := r.S.Exec(q)
	if res.Panic != nil || res.TimedOut {
		rt.Fatalf("statement crashed: %s\n%s\nhistory:\n%s", res, res.Stack, r.history())
	}
	got := r.ReadTable(rt, t)
	engineErr := res.Err != nil
	var aff, matched, updated int64 = -1, -1, -1
	if ok, is := res.OkResult(); is {
		aff = int64(ok.RowsAffected)
		if ui, isU := ok.Info.(plan.UpdateInfo); isU {
			matched, updated = int64(ui.Matched), int64(ui.Updated)
		}
	}

	var hit *Outcome
	rowsOnly := false // some outcome agrees on the rows but not on the counts
	altHit := false
	for _, o := range outs {
		if o.Err != engineErr {
			continue
		}
		if !sameMultiset(o.Rows, got) {
			continue
		}
		if engineErr {
			hit = o
			break
		}
		countsOK := aff >= int64(o.AffLo) && aff <= int64(o.AffHi)
		if s.Kind == SUpdate {
			countsOK = countsOK && matched == int64(o.Matched) && updated == aff
		}
		if cfg.NoCounts {
			countsOK = true
		}
		if countsOK {
			hit = o
			break
		}
		rowsOnly = true
		if o.AltAff >= 0 && aff == int64(o.AltAff) {
			hit, altHit = o, true
		}
	}
	if altHit {
		id := cfg.Known[FlagReplaceMulti]
		if id == "" || !kf.Suppress(r.St, id) {
			rt.Fatalf("REPLACE reports %d affected rows; rows deleted + rows inserted is %d (a row displaced several rows) [finding %s]\nstatement: %s\nhistory:\n%s",
				aff, hit.AffLo, id, q, r.history())
		}
	}
	if hit == nil {
		// a listed known finding whose region the statement is in? (only reached for
		// findings that are not excluded by construction, i.e. never when listed; kept so
		// that the signature is evaluated in one place)
		for _, f := range flagList {
			if id := cfg.Known[f]; id != "" && kf.Suppress(r.St, id) {
				r.H.Dead = true
				return true
			}
		}
		var ids []string
		for _, f := range flagList {
			if id := cfg.Known[f]; id != "" {
				ids = append(ids, id)
			}
		}
		modelAllErr, modelAnyErr := true, false
		for _, o := range outs {
			modelAllErr = modelAllErr && o.Err
			modelAnyErr = modelAnyErr || o.Err
		}
		what := "table contents differ from every admissible outcome"
		switch {
		case engineErr && !modelAnyErr:
			what = "statement failed, but the model demands success: " + res.Err.Error()
			if !sameMultiset(t.Rows, got) {
				what += " (and the failed statement changed the table)"
			}
		case engineErr:
			what = "statement failed (admissible), but the failed statement changed the table"
		case modelAllErr:
			what = "statement succeeded, but the model demands a duplicate-key failure"
		case rowsOnly:
			what = "table contents are admissible but the reported counts are not"
		}
		rt.Fatalf("%s\nstatement: %s\nengine: err=%v affected=%d matched=%d updated=%d rows=%s\nbefore: %s\nmodel admits:\n%sregion flags: %v (finding ids %v)\nmodel schema: %s\nhistory:\n%s",
			what, q, res.Err, aff, matched, updated, showRows(got), showRows(t.Rows), r.describe(outs), flagList, ids, t.DDL(), r.history())
	}
	if s.Kind == SAddUnique && engineErr {
		// a failed ALTER TABLE .. ADD UNIQUE must not leave the index behind: the table would
		// then hold key-equal rows under a unique index
		sc := r.S.Exec("SHOW CREATE TABLE " + t.Name)
		if sc.OK() && len(sc.Rows) == 1 && len(sc.Rows[0]) == 2 && strings.Contains(fmt.Sprint(sc.Rows[0][1]), "`"+s.NewKey.Name+"`") {
			// known only inside the regions of the finding (whose statements are not executed
			// once it is listed): anywhere else a left-behind index is a new violation
			id := cfg.Known[FlagAddUniqueLeft]
			inRegion := flags[FlagAddUniqueLeft] || flags[FlagAddUniqueType]
			if id == "" || !inRegion || !kf.Suppress(r.St, id) {
				rt.Fatalf("ALTER TABLE .. ADD UNIQUE failed (%v) but the unique index %s exists afterwards, over rows that violate it [finding %s]\nstatement: %s\nrows: %s\nSHOW CREATE TABLE: %v\nhistory:\n%s",
					res.Err, s.NewKey.Name, id, q, showRows(got), sc.Rows[0][1], r.history())
			}
			r.H.Dead = true
			return true
		}
	}
	if engineErr && !IsDup(res.Err) {
		rt.Fatalf("statement failed as the model demands, but not with a duplicate-key error: %v\nstatement: %s\nhistory:\n%s", res.Err, q, r.history())
	}

	// adopt the outcome
	t.Rows = hit.Rows
	t.Keys = hit.Keys
	r.St.Class("stmt:" + s.KindLabel())
	if engineErr {
		r.H.Failures++
		r.H.DupRejected++
		r.St.Class("outcome:dup-rejected")
	} else {
		r.H.Successes++
		r.St.Class("outcome:ok")
	}
	r.H.Collisions += hit.Collisions
	if hit.Collisions > 0 && !engineErr {
		r.St.Class("collision:" + s.KindLabel())
	}
	if hit.KeyMoved {
		r.H.KeyMoves++
		r.St.Class("update-moves-key")
	}
	r.H.NearAccepted += hit.NearAccepted
	if len(outs) > 1 {
		r.St.Class("nondeterministic-admitted")
	}
	if cfg.KeyInvariant {
		r.CheckKeyInvariant(rt, t, got, q)
	}
	return true
}

// CheckKeyInvariant asserts that no two rows are equal on a primary / unique key.
func (r *Runner) CheckKeyInvariant(rt *rapid.T, t *Table, rows []Row, q string) {
	for ki := range t.Keys {
		k := &t.Keys[ki]
		if !k.Primary && !k.Unique {
			continue
		}
		for i := range rows {
			for j := i + 1; j < len(rows); j++ {
				if eq, _, _, _ := r.Cfg.Env.keyEq(t, k, rows[i], rows[j]); eq {
					rt.Fatalf("table %s holds two rows that are equal on key %q %v: %s and %s\nafter: %s\nhistory:\n%s",
						t.Name, k.Name, k.Cols, rows[i], rows[j], q, r.history())
				}
			}
		}
	}
}

// Actions returns the rapid state-machine actions over the runner.
func (r *Runner) Actions() map[string]func(*rapid.T) {
	p := &r.Cfg.Profile
	pick := func(rt *rapid.T) int { return rapid.IntRange(0, len(r.DB)-1).Draw(rt, "table") }
	insert := func(rt *rapid.T) {
		ti := pick(rt)
		s := GenInsert(rt, p, r.DB, ti)
		if len(r.DB[ti].Rows) > p.maxRows() {
			s.Mode = MPlain
			s.Sel = nil
			if len(s.Rows) == 0 {
				s.Rows = []Row{GenRow(rt, p, r.DB[ti])}
				s.Alt = []bool{false}
			}
			s.Rows = s.Rows[:1]
			s.Odku = nil
		}
		r.Step(rt, s)
	}
	update := func(rt *rapid.T) { r.Step(rt, GenUpdate(rt, p, r.DB, pick(rt))) }
	del := func(rt *rapid.T) {
		ti := pick(rt)
		if rapid.IntRange(0, 9).Draw(rt, "truncate") == 0 {
			r.Step(rt, &Stmt{Kind: STruncate, Table: ti, Limit: -1})
			return
		}
		r.Step(rt, GenDelete(rt, p, r.DB, ti))
	}
	acts := map[string]func(*rapid.T){
		"insert-a": insert, "insert-b": insert, "insert-c": insert,
		"update-a": update, "update-b": update,
		"delete": del,
	}
	if p.AlterKeys {
		acts["alter"] = func(rt *rapid.T) {
			ti := pick(rt)
			t := r.DB[ti]
			var droppable []Key
			for _, k := range t.Keys {
				if k.Unique && !k.Primary {
					droppable = append(droppable, k)
				}
			}
			if len(droppable) > 0 && rapid.Bool().Draw(rt, "drop") {
				k := rapid.SampledFrom(droppable).Draw(rt, "dropKey")
				r.Step(rt, &Stmt{Kind: SDropUnique, Table: ti, NewKey: k, Limit: -1})
				return
			}
			if len(droppable) >= 2 {
				return
			}
			r.nkey++
			r.Step(rt, GenAddUnique(rt, p, r.DB, ti, fmt.Sprintf("x%d", r.nkey)))
		}
	}
	return acts
}
