// Package stats collects, per property and per shard process, what a check actually
// explored: number of evaluations, the set of 64-bit hashes of the non-trivial cases
// (so the driver can union them across shards and report a *measured* distinct count),
// class histograms, samples, and counters for regions excluded because of known findings.
//
// A collector is flushed to the file named by $VERIF_STATS_OUT (one JSON object per
// collector, appended as one line), which the driver merges into evidence/<id>.json.
package stats

import (
	"encoding/json"
	"fmt"
	"hash/fnv"
	"os"
	"sort"
	"sync"
)

const maxHashes = 400000
const maxSamples = 8

type Collector struct {
	mu       sync.Mutex
	prop     string
	part     string
	evals    int64
	nontriv  int64
	hashes   map[uint64]struct{}
	capped   bool
	classes  map[string]int64
	excluded map[string]int64
	known    map[string]int64
	samples  []any
	extra    map[string]any
	nextSamp int64
	flushed  bool
}

// New creates a collector for property prop. part names the sub-check ("" for the main one).
func New(prop, part string) *Collector {
	return &Collector{
		prop: prop, part: part,
		hashes:   map[uint64]struct{}{},
		classes:  map[string]int64{},
		excluded: map[string]int64{},
		known:    map[string]int64{},
		extra:    map[string]any{},
		nextSamp: 1,
	}
}

// Eval counts one generated case / execution.
func (c *Collector) Eval() { c.mu.Lock(); c.evals++; c.mu.Unlock() }

// EvalN counts n executions at once.
func (c *Collector) EvalN(n int) { c.mu.Lock(); c.evals += int64(n); c.mu.Unlock() }

// Hash returns a 64-bit FNV hash of the printed parts.
func Hash(parts ...any) uint64 {
	h := fnv.New64a()
	for _, p := range parts {
		fmt.Fprintf(h, "%v\x00", p)
	}
	return h.Sum64()
}

// NonTrivial records a non-trivial case identified by the printed parts. sample, if
// non-nil, is kept when this is the 1st, 10th, 100th, ... non-trivial case.
func (c *Collector) NonTrivial(sample any, parts ...any) {
	h := Hash(parts...)
	c.mu.Lock()
	defer c.mu.Unlock()
	c.nontriv++
	if _, ok := c.hashes[h]; !ok {
		if len(c.hashes) < maxHashes {
			c.hashes[h] = struct{}{}
		} else {
			c.capped = true
		}
	}
	if c.nontriv >= c.nextSamp && len(c.samples) < maxSamples {
		if sample == nil {
			// no structured sample given: the printed identifying parts of the case are the sample
			txt := fmt.Sprint(parts...)
			if len(txt) > 600 {
				txt = txt[:600] + "…"
			}
			sample = txt
		}
		c.samples = append(c.samples, sample)
		c.nextSamp *= 7
	}
}

// Sample records a sample unconditionally (bounded).
func (c *Collector) Sample(sample any) {
	c.mu.Lock()
	if len(c.samples) < maxSamples {
		c.samples = append(c.samples, sample)
	}
	c.mu.Unlock()
}

// Class increments a label in the class histogram.
func (c *Collector) Class(label string) { c.mu.Lock(); c.classes[label]++; c.mu.Unlock() }

// ClassN adds n to a label.
func (c *Collector) ClassN(label string, n int) {
	c.mu.Lock()
	c.classes[label] += int64(n)
	c.mu.Unlock()
}

// Excluded counts a case that was re-drawn / skipped because it falls in the region of a
// known finding (excluded by construction so that search continues behind the finding).
func (c *Collector) Excluded(label string) { c.mu.Lock(); c.excluded[label]++; c.mu.Unlock() }

// KnownHit counts an observed violation that matched the signature of a listed finding.
func (c *Collector) KnownHit(id string) { c.mu.Lock(); c.known[id]++; c.mu.Unlock() }

// Set stores an extra key in the coverage object.
func (c *Collector) Set(key string, v any) { c.mu.Lock(); c.extra[key] = v; c.mu.Unlock() }

type out struct {
	Prop     string           `json:"prop"`
	Part     string           `json:"part"`
	Evals    int64            `json:"evaluations"`
	NonTriv  int64            `json:"nontrivial_total"`
	Hashes   []uint64         `json:"hashes"`
	Capped   bool             `json:"hashes_capped"`
	Classes  map[string]int64 `json:"classes"`
	Excluded map[string]int64 `json:"excluded_known"`
	Known    map[string]int64 `json:"known_hits"`
	Samples  []any            `json:"samples"`
	Extra    map[string]any   `json:"extra"`
}

// Flush appends the collector as one JSON line to $VERIF_STATS_OUT. Safe to call twice.
func (c *Collector) Flush() {
	c.mu.Lock()
	defer c.mu.Unlock()
	if c.flushed {
		return
	}
	c.flushed = true
	path := os.Getenv("VERIF_STATS_OUT")
	if path == "" {
		return
	}
	o := out{Prop: c.prop, Part: c.part, Evals: c.evals, NonTriv: c.nontriv, Capped: c.capped,
		Classes: c.classes, Excluded: c.excluded, Known: c.known, Samples: c.samples, Extra: c.extra}
	for h := range c.hashes {
		o.Hashes = append(o.Hashes, h)
	}
	sort.Slice(o.Hashes, func(i, j int) bool { return o.Hashes[i] < o.Hashes[j] })
	b, err := json.Marshal(o)
	if err != nil {
		// samples must be JSON-encodable; fall back to their printed form
		for i := range o.Samples {
			o.Samples[i] = fmt.Sprint(o.Samples[i])
		}
		b, _ = json.Marshal(o)
	}
	f, err := os.OpenFile(path, os.O_APPEND|os.O_CREATE|os.O_WRONLY, 0o644)
	if err != nil {
		fmt.Fprintf(os.Stderr, "stats: %v\n", err)
		return
	}
	defer f.Close()
	f.Write(append(b, '\n'))
}
