package fx

import (
	"context"
	"encoding/hex"
	"fmt"
	"math"
	"math/big"
	"sort"
	"strconv"
	"strings"
	"time"

	"github.com/cockroachdb/apd/v3"
	"github.com/dolthub/go-mysql-server/sql"
	"github.com/dolthub/go-mysql-server/sql/types"
)

// Canonical forms (one string per value):
//   N                 NULL
//   n:<rat>           exact number (integers, decimals, bit, year, bool)
//   f:<%.17g>         floating point number
//   s:<bytes>         string / binary
//   t:<unix micros>   date / datetime / timestamp
//   d:<micros>        time (duration)
//   j:<json>          JSON, canonical text with sorted keys
//   g:<hex>           geometry (SRID + WKB)
//   o:<aff>/<id>      OkResult
//   ?:<%T>:<%v>       anything else

// Norm converts one engine value to its canonical form. typ may be nil.
func Norm(v any, typ sql.Type) string {
	if v == nil {
		return "N"
	}
	if w, ok := v.(sql.AnyWrapper); ok {
		if _, isJSON := v.(sql.JSONWrapper); !isJSON {
			u, err := w.UnwrapAny(context.Background())
			if err != nil {
				return "?:unwrap-error:" + err.Error()
			}
			v = u
			if v == nil {
				return "N"
			}
		}
	}
	if typ != nil {
		switch t := typ.(type) {
		case sql.EnumType:
			if idx, ok := toInt64(v); ok {
				if s, ok := t.At(int(idx)); ok {
					return "s:" + s
				}
			}
		case sql.SetType:
			if bits, ok := toUint64(v); ok {
				if s, err := t.BitsToString(bits); err == nil {
					return "s:" + s
				}
			}
		}
	}
	switch x := v.(type) {
	case bool:
		if x {
			return "n:1"
		}
		return "n:0"
	case int:
		return "n:" + strconv.FormatInt(int64(x), 10)
	case int8:
		return "n:" + strconv.FormatInt(int64(x), 10)
	case int16:
		return "n:" + strconv.FormatInt(int64(x), 10)
	case int32:
		return "n:" + strconv.FormatInt(int64(x), 10)
	case int64:
		return "n:" + strconv.FormatInt(x, 10)
	case uint:
		return "n:" + strconv.FormatUint(uint64(x), 10)
	case uint8:
		return "n:" + strconv.FormatUint(uint64(x), 10)
	case uint16:
		return "n:" + strconv.FormatUint(uint64(x), 10)
	case uint32:
		return "n:" + strconv.FormatUint(uint64(x), 10)
	case uint64:
		return "n:" + strconv.FormatUint(x, 10)
	case float32:
		return "f:" + strconv.FormatFloat(float64(x), 'g', 17, 64)
	case float64:
		return "f:" + strconv.FormatFloat(x, 'g', 17, 64)
	case *apd.Decimal:
		if x == nil {
			return "N"
		}
		return "n:" + ratOfDecimal(x.Text('f'))
	case apd.Decimal:
		return "n:" + ratOfDecimal(x.Text('f'))
	case string:
		return "s:" + x
	case []byte:
		return "s:" + string(x)
	case time.Time:
		return "t:" + strconv.FormatInt(x.UTC().UnixMicro(), 10)
	case types.Timespan:
		return "d:" + strconv.FormatInt(int64(x), 10)
	case types.OkResult:
		return fmt.Sprintf("o:%d/%d", x.RowsAffected, x.InsertID)
	case sql.JSONWrapper:
		i, err := x.ToInterface(context.Background())
		if err != nil {
			return "?:json-error:" + err.Error()
		}
		return "j:" + canonJSON(i)
	case types.GeometryValue:
		return "g:" + hex.EncodeToString(x.Serialize())
	}
	return fmt.Sprintf("?:%T:%v", v, v)
}

func toInt64(v any) (int64, bool) {
	switch x := v.(type) {
	case int:
		return int64(x), true
	case int8:
		return int64(x), true
	case int16:
		return int64(x), true
	case int32:
		return int64(x), true
	case int64:
		return x, true
	case uint8:
		return int64(x), true
	case uint16:
		return int64(x), true
	case uint32:
		return int64(x), true
	case uint64:
		return int64(x), true
	}
	return 0, false
}

func toUint64(v any) (uint64, bool) {
	if i, ok := toInt64(v); ok {
		return uint64(i), true
	}
	return 0, false
}

func ratOfDecimal(s string) string {
	r, ok := new(big.Rat).SetString(s)
	if !ok {
		return "?" + s
	}
	return r.RatString()
}

func canonJSON(v any) string {
	var sb strings.Builder
	writeJSON(&sb, v)
	return sb.String()
}

func writeJSON(sb *strings.Builder, v any) {
	switch x := v.(type) {
	case nil:
		sb.WriteString("null")
	case map[string]any:
		keys := make([]string, 0, len(x))
		for k := range x {
			keys = append(keys, k)
		}
		sort.Strings(keys)
		sb.WriteByte('{')
		for i, k := range keys {
			if i > 0 {
				sb.WriteByte(',')
			}
			sb.WriteString(strconv.Quote(k))
			sb.WriteByte(':')
			writeJSON(sb, x[k])
		}
		sb.WriteByte('}')
	case []any:
		sb.WriteByte('[')
		for i, e := range x {
			if i > 0 {
				sb.WriteByte(',')
			}
			writeJSON(sb, e)
		}
		sb.WriteByte(']')
	case string:
		sb.WriteString(strconv.Quote(x))
	case bool:
		if x {
			sb.WriteString("true")
		} else {
			sb.WriteString("false")
		}
	default:
		n := Norm(v, nil)
		sb.WriteString(n)
	}
}

// NormRow normalises one row against its schema (schema may be shorter / nil).
func NormRow(sch sql.Schema, row sql.Row) []string {
	out := make([]string, len(row))
	for i, v := range row {
		var t sql.Type
		if i < len(sch) {
			t = sch[i].Type
		}
		out[i] = Norm(v, t)
	}
	return out
}

// NormRows normalises all rows.
func NormRows(sch sql.Schema, rows []sql.Row) [][]string {
	out := make([][]string, len(rows))
	for i, r := range rows {
		out[i] = NormRow(sch, r)
	}
	return out
}

// number extracts the numeric value of a canonical form.
func number(s string) (r *big.Rat, approx bool, ok bool) {
	if strings.HasPrefix(s, "n:") {
		r, ok = new(big.Rat).SetString(s[2:])
		return r, false, ok
	}
	if strings.HasPrefix(s, "f:") {
		f, err := strconv.ParseFloat(s[2:], 64)
		if err != nil || math.IsNaN(f) || math.IsInf(f, 0) {
			return nil, true, false
		}
		return new(big.Rat).SetFloat64(f), true, true
	}
	return nil, false, false
}

// RelTol is the stated tolerance for comparisons that involve a floating point value.
const RelTol = 1e-9

// ValEq compares two canonical values: exact for everything except when at least one
// side is floating point, where a relative tolerance of RelTol (absolute RelTol near 0)
// applies. Exact numbers of different Go types compare by value.
func ValEq(a, b string) bool {
	if a == b {
		return true
	}
	ra, aa, oka := number(a)
	rb, ab, okb := number(b)
	if !oka || !okb {
		return false
	}
	if !aa && !ab {
		return ra.Cmp(rb) == 0
	}
	fa, _ := ra.Float64()
	fb, _ := rb.Float64()
	d := math.Abs(fa - fb)
	m := math.Max(math.Abs(fa), math.Abs(fb))
	return d <= RelTol*math.Max(m, 1)
}

func rowEq(a, b []string) bool {
	if len(a) != len(b) {
		return false
	}
	for i := range a {
		if !ValEq(a[i], b[i]) {
			return false
		}
	}
	return true
}

// key is a coarse sort key under which ValEq-equal values (almost always) collide.
func key(v string) string {
	if r, _, ok := number(v); ok {
		f, _ := r.Float64()
		if f == 0 {
			f = 0 // -0
		}
		return "#" + strconv.FormatFloat(f, 'g', 9, 64)
	}
	return v
}

func rowKey(r []string) string {
	ks := make([]string, len(r))
	for i, v := range r {
		ks[i] = key(v)
	}
	return strings.Join(ks, "\x1f")
}

// SeqEqual compares two row sequences position by position.
func SeqEqual(a, b [][]string) bool {
	if len(a) != len(b) {
		return false
	}
	for i := range a {
		if !rowEq(a[i], b[i]) {
			return false
		}
	}
	return true
}

// MultisetEqual compares two row collections as multisets under ValEq.
func MultisetEqual(a, b [][]string) bool {
	if len(a) != len(b) {
		return false
	}
	as := sortedCopy(a)
	bs := sortedCopy(b)
	if SeqEqual(as, bs) {
		return true
	}
	// tolerant fallback: greedy matching
	used := make([]bool, len(bs))
outer:
	for _, ra := range as {
		for j, rb := range bs {
			if !used[j] && rowEq(ra, rb) {
				used[j] = true
				continue outer
			}
		}
		return false
	}
	return true
}

func sortedCopy(a [][]string) [][]string {
	type kr struct {
		k string
		r []string
	}
	tmp := make([]kr, len(a))
	for i, r := range a {
		tmp[i] = kr{rowKey(r), r}
	}
	sort.SliceStable(tmp, func(i, j int) bool {
		if tmp[i].k != tmp[j].k {
			return tmp[i].k < tmp[j].k
		}
		return strings.Join(tmp[i].r, "\x1f") < strings.Join(tmp[j].r, "\x1f")
	})
	out := make([][]string, len(a))
	for i := range tmp {
		out[i] = tmp[i].r
	}
	return out
}

// Show renders normalised rows compactly for failure messages.
func Show(rows [][]string) string {
	s := sortedCopy(rows)
	parts := make([]string, len(s))
	for i, r := range s {
		parts[i] = "(" + strings.Join(r, ",") + ")"
	}
	return "{" + strings.Join(parts, " ") + "}"
}

// ShowSeq renders rows in their order.
func ShowSeq(rows [][]string) string {
	parts := make([]string, len(rows))
	for i, r := range rows {
		parts[i] = "(" + strings.Join(r, ",") + ")"
	}
	return "[" + strings.Join(parts, " ") + "]"
}
