// Package fx is the engine fixture shared by the SQL-level checks: a fresh in-memory
// provider + engine per case, sessions that run statements exactly the way the server
// does (fresh sql.Context per statement, iterator drained and closed), a panic/hang
// guard, and normalisation of result values to a canonical comparable form.
package fx

import (
	"context"
	"fmt"
	"io"
	"runtime/debug"
	"strings"
	"sync/atomic"
	"time"

	sqle "github.com/dolthub/go-mysql-server"
	"github.com/dolthub/go-mysql-server/memory"
	"github.com/dolthub/go-mysql-server/sql"
	"github.com/dolthub/go-mysql-server/sql/analyzer"
	"github.com/dolthub/go-mysql-server/sql/memo"
	"github.com/dolthub/go-mysql-server/sql/mysql_db"
	"github.com/dolthub/go-mysql-server/sql/types"
	"github.com/dolthub/vitess/go/vt/sqlparser"
)

// Opts configures a fixture.
type Opts struct {
	DBs      []string    // database names; default {"d"}
	ReadOnly bool        // Config.IsReadOnly
	Root     bool        // IncludeRootAccount (enables authentication / privilege checks)
	Coster   memo.Coster // optional replacement for the join coster
	Stats    bool        // install memory.NewStatsProv()
	// NoPersister leaves MySQLDb without a persister even when Root is set
	NoPersister bool
}

// Fixture is one engine over one in-memory provider.
type Fixture struct {
	Pro    *memory.DbProvider
	Engine *sqle.Engine
	DBs    []*memory.Database
	nextID atomic.Uint32
	pid    atomic.Uint64
}

// New builds a fresh provider and engine.
func New(o Opts) *Fixture {
	names := o.DBs
	if len(names) == 0 {
		names = []string{"d"}
	}
	f := &Fixture{}
	var dbs []sql.Database
	for _, n := range names {
		db := memory.NewDatabase(n)
		f.DBs = append(f.DBs, db)
		dbs = append(dbs, db)
	}
	f.Pro = memory.NewDBProvider(dbs...)
	a := analyzer.NewDefault(f.Pro)
	if o.Coster != nil {
		a.Coster = o.Coster
	}
	if o.Stats {
		a.Catalog.StatsProvider = memory.NewStatsProv()
	}
	f.Engine = sqle.New(a, &sqle.Config{IsReadOnly: o.ReadOnly, IncludeRootAccount: o.Root})
	if o.Root && !o.NoPersister {
		// integrators that enable accounts install a persister (the enginetest harness uses
		// the no-op one); without it every account statement dereferences a nil persister
		a.Catalog.MySQLDb.SetPersister(&mysql_db.NoopPersister{})
	}
	return f
}

// Close releases the engine.
func (f *Fixture) Close() { _ = f.Engine.Close() }

// Sess is one client session on a fixture.
type Sess struct {
	F       *Fixture
	S       *memory.Session
	ID      uint32
	Timeout time.Duration
}

// NewSession creates a session for user@host with current database db ("" = first).
func (f *Fixture) NewSession(user, host, db string) *Sess {
	id := f.nextID.Add(1)
	if user == "" {
		user = "root"
	}
	if host == "" {
		host = "localhost"
	}
	base := sql.NewBaseSessionWithClientServer("127.0.0.1:3306", sql.Client{User: user, Address: host, Capabilities: 0}, id)
	s := memory.NewSession(base, f.Pro)
	if db == "" {
		db = f.DBs[0].Name()
	}
	s.SetCurrentDatabase(db)
	return &Sess{F: f, S: s, ID: id, Timeout: 20 * time.Second}
}

// Result is the outcome of one statement.
type Result struct {
	SQL      string
	Schema   sql.Schema
	Rows     []sql.Row
	Err      error
	Panic    any
	Stack    string
	TimedOut bool
	Warnings []*sql.Warning
}

// OK reports whether the statement returned without error, panic or timeout.
func (r *Result) OK() bool { return r.Err == nil && r.Panic == nil && !r.TimedOut }

// Failed reports an ordinary error (not a panic / timeout).
func (r *Result) Failed() bool { return r.Err != nil && r.Panic == nil && !r.TimedOut }

// OkResult returns the OkResult of a DML/DDL statement, if the result is one.
func (r *Result) OkResult() (types.OkResult, bool) {
	if len(r.Rows) == 1 && len(r.Rows[0]) == 1 {
		if ok, is := r.Rows[0][0].(types.OkResult); is {
			return ok, true
		}
	}
	return types.OkResult{}, false
}

func (r *Result) String() string {
	switch {
	case r.Panic != nil:
		return fmt.Sprintf("PANIC %v", r.Panic)
	case r.TimedOut:
		return "TIMEOUT"
	case r.Err != nil:
		return "ERR " + r.Err.Error()
	}
	var sb strings.Builder
	for i, row := range NormRows(r.Schema, r.Rows) {
		if i > 0 {
			sb.WriteString(" | ")
		}
		sb.WriteString(strings.Join(row, ","))
	}
	return "ROWS[" + sb.String() + "]"
}

// Ctx creates the per-statement context, as the server does for every command.
func (s *Sess) Ctx(parent context.Context) *sql.Context {
	pid := s.F.pid.Add(1)
	return sql.NewContext(parent, sql.WithSession(s.S), sql.WithPid(pid), sql.WithProcessList(s.F.Engine.ProcessList))
}

// Exec runs one statement and drains its result.
func (s *Sess) Exec(q string) *Result { return s.ExecB(q, nil) }

// ExecB runs one statement with bindings (nil for none).
func (s *Sess) ExecB(q string, bindings map[string]sqlparser.Expr) (res *Result) {
	res = &Result{SQL: q}
	parent, cancel := context.WithTimeout(context.Background(), s.Timeout)
	defer cancel()
	ctx := s.Ctx(parent)
	ctx.SetQueryTime(time.Now())
	done := make(chan struct{})
	go func() {
		defer close(done)
		defer func() {
			if p := recover(); p != nil {
				res.Panic = p
				res.Stack = string(debug.Stack())
			}
		}()
		sch, iter, _, err := s.F.Engine.QueryWithBindings(ctx, q, nil, bindings, nil)
		if err != nil {
			res.Err = err
			return
		}
		res.Schema = sch
		for {
			row, err := iter.Next(ctx)
			if err == io.EOF {
				break
			}
			if err != nil {
				res.Err = err
				break
			}
			res.Rows = append(res.Rows, row)
		}
		if cerr := iter.Close(ctx); cerr != nil && res.Err == nil {
			res.Err = cerr
		}
	}()
	select {
	case <-done:
	case <-time.After(s.Timeout + 5*time.Second):
		res.TimedOut = true
		return res
	}
	if res.Err != nil && parent.Err() != nil {
		res.TimedOut = true
	}
	res.Warnings = append([]*sql.Warning(nil), s.S.Warnings()...)
	return res
}

// MustExec runs statements that are part of the fixture set-up; a failure is reported
// through fail (normally rapid's Fatalf), since it means the harness is wrong.
func (s *Sess) MustExec(fail func(format string, args ...any), qs ...string) {
	for _, q := range qs {
		r := s.Exec(q)
		if !r.OK() {
			fail("setup statement failed: %s\n  -> %s\n%s", q, r, r.Stack)
		}
	}
}

// Plan returns the analysed plan of a statement as a debug string (for evidence and for
// "was an index used" questions). Returns "" on error.
func (s *Sess) Plan(q string) (out string) {
	defer func() {
		if p := recover(); p != nil {
			out = ""
		}
	}()
	ctx := s.Ctx(context.Background())
	n, err := s.F.Engine.AnalyzeQuery(ctx, q)
	if err != nil {
		return ""
	}
	return sql.DebugString(ctx, n)
}
