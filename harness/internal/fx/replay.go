package fx

import (
	"encoding/json"
	"fmt"
	"os"
	"path/filepath"
	"sort"
	"strings"
	"testing"

	"github.com/dolthub/go-mysql-server/vh/internal/kf"
	"github.com/dolthub/go-mysql-server/vh/internal/stats"
)

// Script is a library-free replay witness: a list of SQL statements with the outcome the
// *property* demands. Files live in /verif/replays/<ID>/*.json.
//
//	expect: "ok"       statement succeeds
//	        "error"    statement fails with an ordinary error (no panic)
//	        "any"      anything but a panic / hang
//	        "rows"     succeeds and returns exactly Rows (normalised, as a multiset; "seq": true for order)
type Script struct {
	Finding string       `json:"finding"` // finding id this witness belongs to ("" for plain regressions)
	What    string       `json:"what"`
	Root    bool         `json:"root"`
	Steps   []ScriptStep `json:"steps"`
}

type ScriptStep struct {
	Session int        `json:"session"`
	SQL     string     `json:"sql"`
	Expect  string     `json:"expect"`
	Rows    [][]string `json:"rows"`
	Seq     bool       `json:"seq"`
}

// RunScript executes a script on a fresh fixture and returns "" when every step met its
// expectation, otherwise a description of the first deviation.
func RunScript(sc *Script) string {
	f := New(Opts{Root: sc.Root})
	defer f.Close()
	sess := map[int]*Sess{}
	for i, st := range sc.Steps {
		s := sess[st.Session]
		if s == nil {
			s = f.NewSession("", "", "")
			sess[st.Session] = s
		}
		r := s.Exec(st.SQL)
		if r.Panic != nil {
			return fmt.Sprintf("step %d %q: panic %v", i, st.SQL, r.Panic)
		}
		if r.TimedOut {
			return fmt.Sprintf("step %d %q: timeout", i, st.SQL)
		}
		switch st.Expect {
		case "", "ok":
			if r.Err != nil {
				return fmt.Sprintf("step %d %q: unexpected error %v", i, st.SQL, r.Err)
			}
		case "error":
			if r.Err == nil {
				return fmt.Sprintf("step %d %q: expected an error, got %s", i, st.SQL, r)
			}
		case "any":
		case "rows":
			if r.Err != nil {
				return fmt.Sprintf("step %d %q: unexpected error %v", i, st.SQL, r.Err)
			}
			got := NormRows(r.Schema, r.Rows)
			ok := false
			if st.Seq {
				ok = SeqEqual(got, st.Rows)
			} else {
				ok = MultisetEqual(got, st.Rows)
			}
			if !ok {
				return fmt.Sprintf("step %d %q: rows %s, expected %s", i, st.SQL, ShowSeq(got), ShowSeq(st.Rows))
			}
		default:
			return fmt.Sprintf("step %d: unknown expectation %q", i, st.Expect)
		}
	}
	return ""
}

// ReplayDir runs every *.json script of $VERIF_REPLAYS. A deviating script whose finding is
// listed as known is counted as a known hit; any other deviation fails the test with a
// "REPLAY-FAIL <path>" line that the driver turns into a VIOLATION line.
func ReplayDir(t *testing.T, st *stats.Collector) {
	dir := os.Getenv("VERIF_REPLAYS")
	if dir == "" {
		t.Skip("no replay dir")
	}
	files, _ := filepath.Glob(filepath.Join(dir, "*.json"))
	sort.Strings(files)
	for _, p := range files {
		b, err := os.ReadFile(p)
		if err != nil {
			t.Fatalf("read %s: %v", p, err)
		}
		var sc Script
		if err := json.Unmarshal(b, &sc); err != nil {
			t.Fatalf("parse %s: %v", p, err)
		}
		st.Eval()
		st.Class("replay")
		msg := RunScript(&sc)
		if msg == "" {
			continue
		}
		if sc.Finding != "" && kf.Suppress(st, sc.Finding) {
			t.Logf("known finding %s still reproduces: %s", sc.Finding, msg)
			continue
		}
		fmt.Printf("REPLAY-FAIL %s\n", p)
		t.Errorf("replay %s (%s): %s", filepath.Base(p), strings.TrimSpace(sc.What), msg)
	}
}
