package c19

import (
	"testing"

	"github.com/dolthub/go-mysql-server/vh/internal/fx"
	"github.com/dolthub/go-mysql-server/vh/internal/stats"
)

// TestReplayC19 runs the SQL witness scripts of /verif/replays/C19 (one per finding). A script
// states what the property demands, so it passes once the defect is repaired; while the
// finding is listed as known a deviation is counted as a known hit.
func TestReplayC19(t *testing.T) {
	st := stats.New("C19", "replay")
	defer st.Flush()
	fx.ReplayDir(t, st)
}
