// Package c19 checks property C19 (CHECK, NOT NULL, defaults and generated columns hold for
// stored rows) with generated schemas and DML histories against a small reference model:
// an own three-valued evaluator of the generated expressions decides, for every statement,
// which rows may be stored, and the stored rows are re-validated after every step both by
// that evaluator and by the engine's own evaluation of the constraint expressions.
package c19

import (
	"fmt"
	"strconv"
	"strings"
)

type kind int

const (
	kInt kind = iota
	kStr
	kBool
)

// val is one SQL value of the model (INT, VARCHAR or the truth value of a predicate).
type val struct {
	null bool
	k    kind
	i    int64
	s    string
}

func intV(i int64) val  { return val{k: kInt, i: i} }
func strV(s string) val { return val{k: kStr, s: s} }
func nullV(k kind) val  { return val{k: k, null: true} }
func boolV(b bool) val {
	if b {
		return val{k: kBool, i: 1}
	}
	return val{k: kBool}
}

func (v val) same(w val) bool {
	if v.null || w.null {
		return v.null && w.null
	}
	if v.k == kStr {
		return v.s == w.s
	}
	return v.i == w.i
}

// norm is the canonical form fx.NormRows produces for the same value.
func (v val) norm() string {
	switch {
	case v.null:
		return "N"
	case v.k == kStr:
		return "s:" + v.s
	}
	return "n:" + strconv.FormatInt(v.i, 10)
}

func (v val) lit() string {
	switch {
	case v.null:
		return "NULL"
	case v.k == kStr:
		return "'" + strings.ReplaceAll(v.s, "'", "''") + "'"
	}
	return strconv.FormatInt(v.i, 10)
}

// zero is the implicit default MySQL stores when IGNORE adjusts a NULL for a NOT NULL column.
func zero(k kind) val {
	if k == kStr {
		return strV("")
	}
	return intV(0)
}

// expr is a node of the generated expression language. Only constructs whose MySQL meaning
// is unambiguous on small INT / ASCII VARCHAR values are part of it.
type expr struct {
	op   string // col int str + - * length upper lower concat coalesce < <= = <> > >= in between isnull notnull and or not
	k    kind   // kind of the result
	col  int
	v    val
	args []*expr
}

func colE(c int, k kind) *expr                { return &expr{op: "col", col: c, k: k} }
func constE(v val) *expr                      { return &expr{op: "const", v: v, k: v.k} }
func opE(op string, k kind, a ...*expr) *expr { return &expr{op: op, k: k, args: a} }

func (e *expr) sql(t *table) string {
	switch e.op {
	case "col":
		return t.cols[e.col].name
	case "const":
		return e.v.lit()
	case "+", "-", "*", "<", "<=", "=", "<>", ">", ">=":
		return "(" + e.args[0].sql(t) + " " + e.op + " " + e.args[1].sql(t) + ")"
	case "length", "upper", "lower":
		return strings.ToUpper(e.op) + "(" + e.args[0].sql(t) + ")"
	case "concat", "coalesce":
		return strings.ToUpper(e.op) + "(" + e.args[0].sql(t) + ", " + e.args[1].sql(t) + ")"
	case "in":
		ls := make([]string, len(e.args)-1)
		for i, a := range e.args[1:] {
			ls[i] = a.sql(t)
		}
		return "(" + e.args[0].sql(t) + " IN (" + strings.Join(ls, ", ") + "))"
	case "between":
		return "(" + e.args[0].sql(t) + " BETWEEN " + e.args[1].sql(t) + " AND " + e.args[2].sql(t) + ")"
	case "isnull":
		return "(" + e.args[0].sql(t) + " IS NULL)"
	case "notnull":
		return "(" + e.args[0].sql(t) + " IS NOT NULL)"
	case "and", "or":
		return "(" + e.args[0].sql(t) + " " + strings.ToUpper(e.op) + " " + e.args[1].sql(t) + ")"
	case "not":
		return "(NOT " + e.args[0].sql(t) + ")"
	}
	panic("c19: unknown op " + e.op)
}

// refs adds the columns the expression reads.
func (e *expr) refs(set map[int]bool) {
	if e.op == "col" {
		set[e.col] = true
	}
	for _, a := range e.args {
		a.refs(set)
	}
}

func cmpVals(a, b val) int {
	if a.k == kStr {
		return strings.Compare(a.s, b.s) // utf8mb4_0900_bin: byte order, no padding
	}
	switch {
	case a.i < b.i:
		return -1
	case a.i > b.i:
		return 1
	}
	return 0
}

// eval computes the expression over a row with SQL's three-valued logic.
func (e *expr) eval(row []val) val {
	switch e.op {
	case "col":
		return row[e.col]
	case "const":
		return e.v
	case "+", "-", "*":
		a, b := e.args[0].eval(row), e.args[1].eval(row)
		if a.null || b.null {
			return nullV(kInt)
		}
		switch e.op {
		case "+":
			return intV(a.i + b.i)
		case "-":
			return intV(a.i - b.i)
		}
		return intV(a.i * b.i)
	case "length":
		a := e.args[0].eval(row)
		if a.null {
			return nullV(kInt)
		}
		return intV(int64(len(a.s)))
	case "upper", "lower":
		a := e.args[0].eval(row)
		if a.null {
			return nullV(kStr)
		}
		if e.op == "upper" {
			return strV(strings.ToUpper(a.s))
		}
		return strV(strings.ToLower(a.s))
	case "concat":
		a, b := e.args[0].eval(row), e.args[1].eval(row)
		if a.null || b.null {
			return nullV(kStr)
		}
		return strV(a.s + b.s)
	case "coalesce":
		a := e.args[0].eval(row)
		if !a.null {
			return a
		}
		return e.args[1].eval(row)
	case "<", "<=", "=", "<>", ">", ">=":
		a, b := e.args[0].eval(row), e.args[1].eval(row)
		if a.null || b.null {
			return nullV(kBool)
		}
		c := cmpVals(a, b)
		switch e.op {
		case "<":
			return boolV(c < 0)
		case "<=":
			return boolV(c <= 0)
		case "=":
			return boolV(c == 0)
		case "<>":
			return boolV(c != 0)
		case ">":
			return boolV(c > 0)
		}
		return boolV(c >= 0)
	case "in":
		a := e.args[0].eval(row)
		if a.null {
			return nullV(kBool)
		}
		for _, x := range e.args[1:] {
			if cmpVals(a, x.eval(row)) == 0 { // list elements are non-NULL literals
				return boolV(true)
			}
		}
		return boolV(false)
	case "between":
		a, lo, hi := e.args[0].eval(row), e.args[1].eval(row), e.args[2].eval(row)
		if a.null {
			return nullV(kBool)
		}
		return boolV(cmpVals(a, lo) >= 0 && cmpVals(a, hi) <= 0)
	case "isnull":
		return boolV(e.args[0].eval(row).null)
	case "notnull":
		return boolV(!e.args[0].eval(row).null)
	case "not":
		a := e.args[0].eval(row)
		if a.null {
			return a
		}
		return boolV(a.i == 0)
	case "and":
		a, b := e.args[0].eval(row), e.args[1].eval(row)
		switch {
		case (!a.null && a.i == 0) || (!b.null && b.i == 0):
			return boolV(false)
		case a.null || b.null:
			return nullV(kBool)
		}
		return boolV(true)
	case "or":
		a, b := e.args[0].eval(row), e.args[1].eval(row)
		switch {
		case (!a.null && a.i != 0) || (!b.null && b.i != 0):
			return boolV(true)
		case a.null || b.null:
			return nullV(kBool)
		}
		return boolV(false)
	}
	panic("c19: unknown op " + e.op)
}

func isFalse(v val) bool { return !v.null && v.i == 0 }

// ---------------------------------------------------------------------------------------

type column struct {
	name    string
	k       kind // kInt: INT, kStr: VARCHAR(8)
	notNull bool
	def     *expr // declared DEFAULT (literal or parenthesised expression over earlier columns)
	gen     *expr // GENERATED ALWAYS AS (gen)
	stored  bool  // STORED (else VIRTUAL)
	indexed bool  // KEY on the generated column
}

type check struct {
	name     string
	e        *expr
	enforced bool
	active   bool // currently declared on the table
}

// table is the schema; cols[0] is `id INT PRIMARY KEY`, base columns precede generated ones.
type table struct {
	cols   []column
	checks []*check
}

func (t *table) typeSQL(c *column) string {
	if c.k == kStr {
		return "VARCHAR(8)"
	}
	return "INT"
}

func (t *table) checkClause(c *check) string {
	s := "CONSTRAINT " + c.name + " CHECK (" + c.e.sql(t) + ")"
	if !c.enforced {
		s += " NOT ENFORCED"
	}
	return s
}

func (t *table) ddl() string {
	var parts []string
	for i := range t.cols {
		c := &t.cols[i]
		s := c.name + " " + t.typeSQL(c)
		switch {
		case i == 0:
			s += " PRIMARY KEY"
		case c.gen != nil:
			s += " GENERATED ALWAYS AS (" + c.gen.sql(t) + ")"
			if c.stored {
				s += " STORED"
			} else {
				s += " VIRTUAL"
			}
		default:
			if c.notNull {
				s += " NOT NULL"
			}
			if c.def != nil {
				if c.def.op == "const" {
					s += " DEFAULT " + c.def.sql(t)
				} else {
					s += " DEFAULT (" + c.def.sql(t) + ")"
				}
			}
		}
		parts = append(parts, s)
	}
	for i := range t.cols {
		if t.cols[i].indexed {
			parts = append(parts, "KEY k"+t.cols[i].name+" ("+t.cols[i].name+")")
		}
	}
	for _, c := range t.checks {
		if c.active {
			parts = append(parts, t.checkClause(c))
		}
	}
	return "CREATE TABLE t (" + strings.Join(parts, ", ") + ")"
}

func (t *table) hasVirtual() bool {
	for i := range t.cols {
		if t.cols[i].gen != nil && !t.cols[i].stored {
			return true
		}
	}
	return false
}

// dependents lists the generated columns and the active enforced checks that read column c
// (directly, or through a generated column).
func (t *table) dependsOn(e *expr, c int) bool {
	set := map[int]bool{}
	e.refs(set)
	if set[c] {
		return true
	}
	for g := range set {
		if t.cols[g].gen != nil && t.dependsOn(t.cols[g].gen, c) {
			return true
		}
	}
	return false
}

// cell is what a statement supplies for one column of a new row.
type cell struct {
	given bool // an explicit value v
	dflt  bool // the keyword DEFAULT
	v     val
}

// built is the would-be row of an INSERT-like statement.
type built struct {
	row       []val
	nullViol  []int    // NOT NULL columns that would hold NULL (strict: violation; IGNORE: adjusted to the implicit default)
	noDefault []int    // NOT NULL columns without DEFAULT that were omitted (subset of nullViol)
	genViol   []int    // generated columns given an explicit value that differs from the expression
	genGiven  []int    // generated columns given an explicit value at all
	checkViol []string // enforced checks that are FALSE on the row
	defaulted []int    // omitted / DEFAULT columns that received their declared default
	// nullDefault: NOT NULL columns whose declared expression default evaluated to NULL
	// (subset of nullViol). MySQL's IGNORE adjusts them like any other NULL; the engine
	// rejects the statement - the property statement allows both.
	nullDefault []int
}

func (b *built) ok() bool {
	return len(b.nullViol) == 0 && len(b.genGiven) == 0 && len(b.checkViol) == 0
}

func (b *built) reasons(t *table) string {
	var rs []string
	for _, c := range b.nullViol {
		rs = append(rs, "NULL in NOT NULL column "+t.cols[c].name)
	}
	for _, c := range b.genGiven {
		rs = append(rs, "explicit value for generated column "+t.cols[c].name)
	}
	for _, n := range b.checkViol {
		rs = append(rs, "CHECK "+n+" is FALSE")
	}
	return strings.Join(rs, "; ")
}

// build computes the row an INSERT-like statement would store. adjust = true applies the
// IGNORE rule (NULL for a NOT NULL column becomes the implicit default) before generated
// columns and checks are evaluated.
func (t *table) build(cells []cell, adjust bool) *built {
	b := &built{row: make([]val, len(t.cols))}
	for i := range t.cols {
		c := &t.cols[i]
		if c.gen != nil {
			continue
		}
		switch {
		case cells[i].given:
			b.row[i] = cells[i].v
		case c.def != nil:
			b.row[i] = c.def.eval(b.row) // reads earlier columns only
			b.defaulted = append(b.defaulted, i)
		default:
			b.row[i] = nullV(c.k)
			if c.notNull {
				b.noDefault = append(b.noDefault, i)
			}
		}
		if c.notNull && b.row[i].null {
			b.nullViol = append(b.nullViol, i)
			if !cells[i].given && c.def != nil {
				b.nullDefault = append(b.nullDefault, i)
			}
			if adjust {
				b.row[i] = zero(c.k)
			}
		}
	}
	t.finish(b, cells)
	return b
}

// finish computes the generated columns and evaluates the checks of b.row.
func (t *table) finish(b *built, cells []cell) {
	for i := range t.cols {
		c := &t.cols[i]
		if c.gen == nil {
			continue
		}
		b.row[i] = c.gen.eval(b.row)
		if cells != nil && cells[i].given {
			b.genGiven = append(b.genGiven, i)
			if !cells[i].v.same(b.row[i]) {
				b.genViol = append(b.genViol, i)
			}
		}
	}
	b.checkViol = t.violated(b.row)
}

func (t *table) violated(row []val) []string {
	var out []string
	for _, c := range t.checks {
		if c.active && c.enforced && isFalse(c.e.eval(row)) {
			out = append(out, c.name)
		}
	}
	return out
}

// rowProblems lists what is wrong with a stored row (the three invariants of the property).
func (t *table) rowProblems(row []val) []string {
	var out []string
	for i := range t.cols {
		c := &t.cols[i]
		if c.gen != nil {
			if want := c.gen.eval(row); !want.same(row[i]) {
				out = append(out, fmt.Sprintf("generated column %s holds %s, its expression gives %s", c.name, row[i].lit(), want.lit()))
			}
		} else if (c.notNull || i == 0) && row[i].null {
			out = append(out, "NOT NULL column "+c.name+" holds NULL")
		}
	}
	for _, n := range t.violated(row) {
		out = append(out, "enforced CHECK "+n+" is FALSE")
	}
	return out
}

func rowString(row []val) string {
	ls := make([]string, len(row))
	for i, v := range row {
		ls[i] = v.lit()
	}
	return "(" + strings.Join(ls, ",") + ")"
}

func normRow(row []val) []string {
	out := make([]string, len(row))
	for i, v := range row {
		out[i] = v.norm()
	}
	return out
}

func sameRow(a, b []val) bool {
	for i := range a {
		if !a[i].same(b[i]) {
			return false
		}
	}
	return true
}
