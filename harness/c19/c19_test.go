package c19

import (
	"fmt"
	"sort"
	"strconv"
	"strings"
	"testing"

	"github.com/dolthub/go-mysql-server/vh/internal/fx"
	"github.com/dolthub/go-mysql-server/vh/internal/kf"
	"github.com/dolthub/go-mysql-server/vh/internal/stats"
	"pgregory.net/rapid"
)

// ---------------------------------------------------------------------------------------
// value domains (small, built to hit the generated constraints from both sides)

var intDomain = []int64{-2, -1, 0, 1, 2, 3, 4, 5, 7, 9}
var strDomain = []string{"", "a", "A", "ab", "Ab", "b", "abc"}

func genVal(rt *rapid.T, k kind, label string) val {
	if rapid.IntRange(0, 7).Draw(rt, label+"Null") == 0 {
		return nullV(k)
	}
	if k == kStr {
		return strV(rapid.SampledFrom(strDomain).Draw(rt, label))
	}
	return intV(rapid.SampledFrom(intDomain).Draw(rt, label))
}

func genConst(rt *rapid.T, k kind, label string) *expr {
	if k == kStr {
		return constE(strV(rapid.SampledFrom(strDomain).Draw(rt, label)))
	}
	return constE(intV(rapid.SampledFrom(intDomain).Draw(rt, label)))
}

// ---------------------------------------------------------------------------------------
// schema generator

func colsOfKind(t *table, avail []int, k kind) []int {
	var out []int
	for _, c := range avail {
		if t.cols[c].k == k {
			out = append(out, c)
		}
	}
	return out
}

// pickCol prefers columns other than id.
func pickCol(rt *rapid.T, cs []int, label string) int {
	var nonID []int
	for _, c := range cs {
		if c != 0 {
			nonID = append(nonID, c)
		}
	}
	if len(nonID) > 0 {
		return rapid.SampledFrom(nonID).Draw(rt, label)
	}
	return rapid.SampledFrom(cs).Draw(rt, label)
}

func genIntExpr(rt *rapid.T, t *table, avail []int, label string) *expr {
	ints, strs := colsOfKind(t, avail, kInt), colsOfKind(t, avail, kStr)
	c := colE(pickCol(rt, ints, label+"Col"), kInt)
	k := constE(intV(int64(rapid.IntRange(-1, 3).Draw(rt, label+"K"))))
	kindN := rapid.IntRange(0, 8).Draw(rt, label+"Kind")
	if len(strs) == 0 && (kindN == 5 || kindN == 7) {
		kindN = 0
	}
	switch kindN {
	case 0:
		return opE("+", kInt, c, k)
	case 1:
		return opE("-", kInt, c, k)
	case 2:
		return opE("*", kInt, c, k)
	case 3:
		return opE("+", kInt, c, colE(pickCol(rt, ints, label+"Col2"), kInt))
	case 4:
		return opE("*", kInt, c, colE(pickCol(rt, ints, label+"Col2"), kInt))
	case 5:
		return opE("length", kInt, colE(pickCol(rt, strs, label+"Str"), kStr))
	case 6:
		return opE("coalesce", kInt, c, k)
	case 7:
		return opE("+", kInt, opE("length", kInt, colE(pickCol(rt, strs, label+"Str"), kStr)), c)
	}
	return c
}

func genStrExpr(rt *rapid.T, t *table, avail []int, label string) *expr {
	s := colE(pickCol(rt, colsOfKind(t, avail, kStr), label+"Col"), kStr)
	switch rapid.IntRange(0, 4).Draw(rt, label+"Kind") {
	case 0:
		return opE("upper", kStr, s)
	case 1:
		return opE("lower", kStr, s)
	case 2:
		return opE("concat", kStr, s, constE(strV("x")))
	case 3:
		return opE("coalesce", kStr, s, constE(strV("z")))
	}
	return opE("concat", kStr, constE(strV("p")), s)
}

func genAtom(rt *rapid.T, t *table, avail []int, label string) *expr {
	ints, strs := colsOfKind(t, avail, kInt), colsOfKind(t, avail, kStr)
	cmp := rapid.SampledFrom([]string{"<", "<=", "=", "<>", ">", ">="}).Draw(rt, label+"Op")
	kindN := rapid.IntRange(0, 7).Draw(rt, label+"Kind")
	if len(strs) == 0 && kindN == 4 {
		kindN = 0
	}
	if len(ints) == 0 {
		kindN = 4
	}
	switch kindN {
	case 0, 6:
		return opE(cmp, kBool, colE(pickCol(rt, ints, label+"Col"), kInt), genConst(rt, kInt, label+"C"))
	case 1:
		return opE(cmp, kBool, genIntExpr(rt, t, avail, label+"Term"), genConst(rt, kInt, label+"C"))
	case 2:
		return opE(cmp, kBool, colE(pickCol(rt, ints, label+"Col"), kInt), colE(pickCol(rt, ints, label+"Col2"), kInt))
	case 3:
		n := rapid.IntRange(2, 4).Draw(rt, label+"NIn")
		args := []*expr{colE(pickCol(rt, ints, label+"Col"), kInt)}
		for i := 0; i < n; i++ {
			args = append(args, genConst(rt, kInt, label+"In"))
		}
		return opE("in", kBool, args...)
	case 4:
		s := colE(pickCol(rt, strs, label+"Str"), kStr)
		switch rapid.IntRange(0, 3).Draw(rt, label+"StrKind") {
		case 0:
			return opE("=", kBool, s, genConst(rt, kStr, label+"S"))
		case 1:
			return opE("<>", kBool, s, genConst(rt, kStr, label+"S"))
		case 2:
			return opE("in", kBool, s, genConst(rt, kStr, label+"S1"), genConst(rt, kStr, label+"S2"), genConst(rt, kStr, label+"S3"))
		}
		return opE(cmp, kBool, opE("length", kInt, s), constE(intV(int64(rapid.IntRange(0, 3).Draw(rt, label+"Len")))))
	case 5:
		lo := rapid.IntRange(-2, 4).Draw(rt, label+"Lo")
		hi := lo + rapid.IntRange(0, 6).Draw(rt, label+"Span")
		return opE("between", kBool, colE(pickCol(rt, ints, label+"Col"), kInt), constE(intV(int64(lo))), constE(intV(int64(hi))))
	}
	c := pickCol(rt, avail, label+"Col")
	return opE("notnull", kBool, colE(c, t.cols[c].k))
}

func genBool(rt *rapid.T, t *table, avail []int, label string) *expr {
	a := genAtom(rt, t, avail, label+"A")
	switch rapid.IntRange(0, 9).Draw(rt, label+"Shape") {
	case 0:
		return opE("and", kBool, a, genAtom(rt, t, avail, label+"B"))
	case 1, 2:
		return opE("or", kBool, a, genAtom(rt, t, avail, label+"B"))
	case 3:
		return opE("not", kBool, a)
	}
	return a
}

// lcg is a tiny deterministic generator (seeded by a rapid draw) used only to estimate how
// often a drawn CHECK expression holds on the value domain.
type lcg uint64

func (l *lcg) next(n int) int {
	*l = *l*6364136223846793005 + 1442695040888963407
	return int((uint64(*l) >> 33) % uint64(n))
}

func (t *table) randomRow(l *lcg) []val {
	cells := make([]cell, len(t.cols))
	for i := range t.cols {
		if t.cols[i].gen != nil {
			continue
		}
		switch {
		case l.next(8) == 0:
			cells[i] = cell{given: true, v: nullV(t.cols[i].k)}
		case t.cols[i].k == kStr:
			cells[i] = cell{given: true, v: strV(strDomain[l.next(len(strDomain))])}
		default:
			cells[i] = cell{given: true, v: intV(intDomain[l.next(len(intDomain))])}
		}
	}
	return t.build(cells, true).row
}

// genCheck draws a CHECK expression that is neither (almost) always FALSE nor never FALSE on
// the value domain, so that histories contain both accepted and rejected rows.
func genCheck(rt *rapid.T, t *table, avail []int, label string) *expr {
	var e *expr
	for try := 0; try < 6; try++ {
		e = genBool(rt, t, avail, fmt.Sprintf("%s%d", label, try))
		l := lcg(rapid.Uint64().Draw(rt, label+"Seed"))
		notFalse := 0
		for i := 0; i < 64; i++ {
			if !isFalse(e.eval(t.randomRow(&l))) {
				notFalse++
			}
		}
		if notFalse >= 20 && notFalse <= 60 {
			break
		}
	}
	return e
}

func genTable(rt *rapid.T, noChecksWithVirtual bool, st *stats.Collector) *table {
	t := &table{cols: []column{{name: "id", k: kInt, notNull: true}}}
	nbase := rapid.IntRange(2, 4).Draw(rt, "nbase")
	intNames, strNames := []string{"a", "b", "c", "d"}, []string{"s", "r", "q", "p"}
	for i := 0; i < nbase; i++ {
		c := column{k: kInt}
		if rapid.IntRange(0, 2).Draw(rt, "colKind") == 0 {
			c.k = kStr
			c.name, strNames = strNames[0], strNames[1:]
		} else {
			c.name, intNames = intNames[0], intNames[1:]
		}
		c.notNull = rapid.IntRange(0, 9).Draw(rt, "notNull") < 4
		avail := make([]int, len(t.cols))
		for j := range avail {
			avail[j] = j
		}
		switch d := rapid.IntRange(0, 9).Draw(rt, "default"); {
		case d >= 8 && len(colsOfKind(t, avail, c.k)) > 0 && (c.k == kInt || len(colsOfKind(t, avail, kStr)) > 0):
			if c.k == kInt {
				c.def = genIntExpr(rt, t, avail, "defExpr")
			} else {
				c.def = genStrExpr(rt, t, avail, "defExpr")
			}
		case d >= 5:
			c.def = genConst(rt, c.k, "defLit")
		}
		t.cols = append(t.cols, c)
	}
	ngen := rapid.IntRange(0, 2).Draw(rt, "ngen")
	for g := 0; g < ngen; g++ {
		var avail []int
		for j := range t.cols {
			if t.cols[j].gen == nil || rapid.IntRange(0, 5).Draw(rt, "genOnGen") == 0 {
				avail = append(avail, j)
			}
		}
		c := column{name: fmt.Sprintf("g%d", g+1), k: kInt}
		if len(colsOfKind(t, avail, kStr)) > 0 && rapid.IntRange(0, 3).Draw(rt, "genKind") == 0 {
			c.k = kStr
			c.gen = genStrExpr(rt, t, avail, "gen")
		} else {
			c.gen = genIntExpr(rt, t, avail, "gen")
		}
		c.stored = rapid.Bool().Draw(rt, "stored")
		c.indexed = rapid.IntRange(0, 2).Draw(rt, "indexed") == 0
		t.cols = append(t.cols, c)
	}
	nchecks := rapid.IntRange(0, 3).Draw(rt, "nchecks")
	if noChecksWithVirtual && t.hasVirtual() && nchecks > 0 {
		// region of finding C19-virtual-column-no-checks (CHECK constraints on a table with a
		// VIRTUAL column), excluded while it is listed: either the checks or the VIRTUAL go
		st.Excluded(findingVirtualChecks)
		if rapid.Bool().Draw(rt, "keepChecks") {
			for i := range t.cols {
				t.cols[i].stored = t.cols[i].gen != nil
			}
		} else {
			nchecks = 0
		}
	}
	for i := 0; i < nchecks; i++ {
		t.checks = append(t.checks, genCheckDef(rt, t, len(t.checks)))
	}
	return t
}

func genCheckDef(rt *rapid.T, t *table, n int) *check {
	var avail []int
	for j := 1; j < len(t.cols); j++ {
		avail = append(avail, j)
	}
	// over 1-2 columns most of the time: restrict the pool
	if len(avail) > 2 && rapid.IntRange(0, 3).Draw(rt, "ckNarrow") > 0 {
		i := rapid.IntRange(0, len(avail)-1).Draw(rt, "ckCol1")
		j := rapid.IntRange(0, len(avail)-1).Draw(rt, "ckCol2")
		if i == j {
			avail = []int{avail[i]}
		} else {
			avail = []int{avail[i], avail[j]}
		}
	}
	return &check{
		name:     fmt.Sprintf("ck%d", n),
		e:        genCheck(rt, t, avail, "ck"),
		enforced: rapid.IntRange(0, 6).Draw(rt, "enforced") > 0,
		active:   true,
	}
}

// ---------------------------------------------------------------------------------------
// the state machine

type class int

const (
	mustSucceed class = iota
	mustFail
	either
)

func (c class) String() string { return [...]string{"must-succeed", "must-fail", "either"}[c] }

// outcome is the model's verdict about one statement.
type outcome struct {
	class   class
	reasons []string
	// alts: per id the acceptable stored rows after a successful statement (a nil row =
	// no row with that id); ids not listed must be unchanged.
	alts map[int64][][]val
	// for the known-finding signatures and the evidence classes
	constraintReject bool  // the (possible) rejection is due to NOT NULL / CHECK / generated value
	needWarning      bool  // IGNORE skipped or adjusted a row because of a constraint
	adjusted         []int // columns adjusted by IGNORE (NULL -> implicit default)
	checkOnly        bool  // every reason for must-fail is a CHECK violation
	depUpdate        bool
	defaulted        bool
	ignore           bool
	failed           bool // set by run: the engine reported an error
	predVirtual      bool // the WHERE clause reads an indexed VIRTUAL column
	dfltUnlisted     bool // a DEFAULT keyword stands for an expression default that reads a column outside the column list
	kind             string
}

type machine struct {
	st   *stats.Collector
	t    *table
	f    *fx.Fixture
	s    *fx.Sess
	rows map[int64][]val
	log  []string
	dead bool // a listed known finding left its mark on the table: nothing more is asserted
	// an ON DUPLICATE KEY UPDATE that left its row unchanged ran on a table with an indexed
	// VIRTUAL column (signature of finding C19-odku-noop-virtual-index)
	odkuNoop bool

	sawReject, sawDepUpdate, sawDefault bool
}

func (mc *machine) history() string {
	return "history:\n  " + strings.Join(mc.log, ";\n  ") + ";\n" + mc.describe()
}

func (mc *machine) describe() string {
	var sb strings.Builder
	sb.WriteString("model contents:")
	for _, id := range mc.ids() {
		sb.WriteString(" " + rowString(mc.rows[id]))
	}
	sb.WriteString("\n")
	return sb.String()
}

func (mc *machine) ids() []int64 {
	ids := make([]int64, 0, len(mc.rows))
	for id := range mc.rows {
		ids = append(ids, id)
	}
	sort.Slice(ids, func(i, j int) bool { return ids[i] < ids[j] })
	return ids
}

func (mc *machine) exec(rt *rapid.T, q string) *fx.Result {
	mc.log = append(mc.log, q)
	r := mc.s.Exec(q)
	if r.Panic != nil {
		rt.Fatalf("PANIC in %q: %v\n%s\n%s", q, r.Panic, r.Stack, mc.history())
	}
	if r.TimedOut {
		rt.Fatalf("timeout in %q\n%s", q, mc.history())
	}
	return r
}

// read returns the stored rows by id.
func (mc *machine) read(rt *rapid.T) map[int64][]val {
	r := mc.s.Exec("SELECT * FROM t")
	if !r.OK() {
		rt.Fatalf("cannot read t: %s\n%s", r, mc.history())
	}
	out := map[int64][]val{}
	for _, nr := range fx.NormRows(r.Schema, r.Rows) {
		if len(nr) != len(mc.t.cols) {
			rt.Fatalf("SELECT * returns %d columns, the table has %d\n%s", len(nr), len(mc.t.cols), mc.history())
		}
		row := make([]val, len(nr))
		for i, x := range nr {
			k := mc.t.cols[i].k
			switch {
			case x == "N":
				row[i] = nullV(k)
			case k == kStr && strings.HasPrefix(x, "s:"):
				row[i] = strV(x[2:])
			case k == kInt && strings.HasPrefix(x, "n:"):
				n, err := strconv.ParseInt(x[2:], 10, 64)
				if err != nil {
					rt.Fatalf("unexpected value %q in column %s\n%s", x, mc.t.cols[i].name, mc.history())
				}
				row[i] = intV(n)
			default:
				rt.Fatalf("unexpected value %q in column %s\n%s", x, mc.t.cols[i].name, mc.history())
			}
		}
		if row[0].null {
			rt.Fatalf("stored row with NULL primary key: %s\n%s", rowString(row), mc.history())
		}
		if _, dup := out[row[0].i]; dup {
			rt.Fatalf("two stored rows with id %d\n%s", row[0].i, mc.history())
		}
		out[row[0].i] = row
	}
	return out
}

// violation reports a deviation; a deviation that matches the signature of a listed finding
// ends the case instead (the table may now hold a row the model does not allow).
func (mc *machine) violation(rt *rapid.T, o *outcome, got map[int64][]val, format string, args ...any) {
	msg := fmt.Sprintf(format, args...)
	if id := mc.signature(o, got); id != "" && kf.Suppress(mc.st, id) {
		mc.dead = true
		return
	}
	rt.Fatalf("%s\nschema:\n  %s\n%s", msg, mc.t.ddl(), mc.history())
}

// run executes one statement and decides it against the model's outcome.
// It returns true when the engine executed the statement successfully and the result is accepted.
func (mc *machine) run(rt *rapid.T, q string, o *outcome) bool {
	r := mc.exec(rt, q)
	mc.st.Class("op:" + o.kind)
	mc.st.Class("model:" + o.class.String())
	got := mc.read(rt)
	if !r.OK() {
		o.failed = true
		mc.st.Class("engine:failed")
		if o.class == mustSucceed {
			mc.violation(rt, o, got, "statement failed (%v) but violates nothing\n  statement: %s", r.Err, q)
			return false
		}
		// a failed statement leaves the table unchanged
		for _, id := range unionIDs(got, mc.rows) {
			if g, w := got[id], mc.rows[id]; g == nil || w == nil || !sameRow(g, w) {
				mc.violation(rt, o, got, "failed statement changed the table: id %d is %s, was %s\n  statement: %s (%v)", id, showRow(g), showRow(w), q, r.Err)
				return false
			}
		}
		if o.constraintReject {
			mc.sawReject = true
			mc.st.Class("effect:constraint-rejected")
		}
		return false
	}
	mc.st.Class("engine:ok")
	if o.class == mustFail {
		mc.violation(rt, o, got, "statement succeeded but must fail (%s)\n  statement: %s", strings.Join(o.reasons, "; "), q)
		return false
	}
	for _, id := range unionIDs(got, mc.rows, o.alts) {
		allowed, listed := o.alts[id]
		if !listed {
			allowed = [][]val{mc.rows[id]}
		}
		g := got[id]
		ok := false
		for _, a := range allowed {
			if (a == nil && g == nil) || (a != nil && g != nil && sameRow(a, g)) {
				ok = true
			}
		}
		if !ok {
			var as []string
			for _, a := range allowed {
				as = append(as, showRow(a))
			}
			mc.violation(rt, o, got, "after %s\n  id %d: stored %s, allowed %s", q, id, showRow(g), strings.Join(as, " or "))
			return false
		}
	}
	if o.needWarning && len(r.Warnings) == 0 {
		mc.violation(rt, o, got, "IGNORE skipped / adjusted a row because of a constraint without a warning\n  statement: %s", q)
		return false
	}
	mc.rows = got
	if o.depUpdate {
		mc.sawDepUpdate = true
		mc.st.Class("effect:dependent-column-updated")
	}
	if o.defaulted {
		mc.sawDefault = true
		mc.st.Class("effect:defaulted-column")
	}
	if o.needWarning {
		mc.st.Class("effect:ignore-skipped-or-adjusted")
	}
	return true
}

func showRow(r []val) string {
	if r == nil {
		return "<no row>"
	}
	return rowString(r)
}

func unionIDs(ms ...any) []int64 {
	set := map[int64]bool{}
	for _, m := range ms {
		switch m := m.(type) {
		case map[int64][]val:
			for id := range m {
				set[id] = true
			}
		case map[int64][][]val:
			for id := range m {
				set[id] = true
			}
		}
	}
	ids := make([]int64, 0, len(set))
	for id := range set {
		ids = append(ids, id)
	}
	sort.Slice(ids, func(i, j int) bool { return ids[i] < ids[j] })
	return ids
}

// invariant: the three clauses of the property on the stored rows, decided by the model's
// evaluator on the rows read back and by the engine's own evaluation of the expressions.
func (mc *machine) invariant(rt *rapid.T) {
	if mc.dead {
		return
	}
	got := mc.read(rt)
	for _, id := range unionIDs(got) {
		if ps := mc.t.rowProblems(got[id]); len(ps) > 0 {
			mc.violation(rt, &outcome{kind: "invariant"}, got, "stored row %s: %s", rowString(got[id]), strings.Join(ps, "; "))
			return
		}
	}
	count := func(what, where string) {
		q := "SELECT COUNT(*) FROM t WHERE " + where
		r := mc.s.Exec(q)
		if !r.OK() {
			rt.Fatalf("invariant query failed: %s: %s\nschema:\n  %s\n%s", q, r, mc.t.ddl(), mc.history())
		}
		if n := fx.NormRows(r.Schema, r.Rows); len(n) != 1 || n[0][0] != "n:0" {
			mc.violation(rt, &outcome{kind: "invariant-query"}, got, "%s: %s returns %s although the rows read back satisfy it", what, q, fx.Show(n))
		}
	}
	for i := range mc.t.cols {
		c := &mc.t.cols[i]
		switch {
		case c.gen != nil:
			count("generated column "+c.name, "NOT ("+c.name+" <=> "+c.gen.sql(mc.t)+")")
		case c.notNull:
			count("NOT NULL column "+c.name, c.name+" IS NULL")
		}
		if mc.dead {
			return
		}
	}
	for _, c := range mc.t.checks {
		if c.active && c.enforced {
			count("CHECK "+c.name, "NOT "+c.e.sql(mc.t))
		}
		if mc.dead {
			return
		}
	}
}

// indexProbe reads through the index of an indexed generated column.
func (mc *machine) indexProbe(rt *rapid.T) {
	var idx []int
	for i := range mc.t.cols {
		if mc.t.cols[i].indexed {
			idx = append(idx, i)
		}
	}
	if len(idx) == 0 || len(mc.rows) == 0 || mc.dead {
		return
	}
	c := rapid.SampledFrom(idx).Draw(rt, "probeCol")
	ids := mc.ids()
	v := mc.rows[ids[rapid.IntRange(0, len(ids)-1).Draw(rt, "probeRow")]][c]
	if v.null {
		return
	}
	q := fmt.Sprintf("SELECT id FROM t WHERE %s = %s", mc.t.cols[c].name, v.lit())
	r := mc.s.Exec(q)
	if !r.OK() {
		rt.Fatalf("index probe failed: %s: %s\nschema:\n  %s\n%s", q, r, mc.t.ddl(), mc.history())
	}
	var want [][]string
	for _, id := range ids {
		if w := mc.rows[id][c]; !w.null && cmpVals(w, v) == 0 {
			want = append(want, []string{intV(id).norm()})
		}
	}
	if got := fx.NormRows(r.Schema, r.Rows); !fx.MultisetEqual(got, want) {
		mc.violation(rt, &outcome{kind: "index-probe"}, mc.rows, "%s returns %s, the stored rows give %s", q, fx.Show(got), fx.Show(want))
	}
	mc.st.Class("probe:generated-column-index")
}

// ---------------------------------------------------------------------------------------
// INSERT / INSERT IGNORE / REPLACE / ON DUPLICATE KEY UPDATE

func (mc *machine) freshID(rt *rapid.T, taken map[int64]bool) int64 {
	if len(mc.rows) > 0 && rapid.IntRange(0, 7).Draw(rt, "existingID") == 0 {
		ids := mc.ids()
		id := ids[rapid.IntRange(0, len(ids)-1).Draw(rt, "whichID")]
		if !taken[id] {
			return id
		}
	}
	for id := int64(1); ; id++ {
		if _, used := mc.rows[id]; !used && !taken[id] {
			return id
		}
	}
}

// insertShape is the column list of an INSERT (nil: no column list) and which listed
// columns are base columns.
type insertShape struct {
	list []int // positions of the listed columns, in list order; nil = all columns in table order
}

func (mc *machine) genShape(rt *rapid.T, withGen bool) insertShape {
	if rapid.IntRange(0, 3).Draw(rt, "noColumnList") == 0 {
		return insertShape{}
	}
	list := []int{0}
	for i := 1; i < len(mc.t.cols); i++ {
		if mc.t.cols[i].gen != nil {
			if withGen {
				list = append(list, i)
				withGen = false
			}
			continue
		}
		if rapid.IntRange(0, 9).Draw(rt, "listCol") < 6 {
			list = append(list, i)
		}
	}
	if rapid.IntRange(0, 3).Draw(rt, "reverseList") == 0 {
		for i, j := 0, len(list)-1; i < j; i, j = i+1, j-1 {
			list[i], list[j] = list[j], list[i]
		}
	}
	return insertShape{list: list}
}

func (sh insertShape) listed(n int) []bool {
	in := make([]bool, n)
	for i := range in {
		in[i] = sh.list == nil
	}
	for _, c := range sh.list {
		in[c] = true
	}
	return in
}

// genCells draws what one VALUES row supplies. explicitGen: a listed generated column gets
// an explicit value (otherwise the keyword DEFAULT).
func (mc *machine) genCells(rt *rapid.T, sh insertShape, id int64, adjust, explicitGen bool) []cell {
	t := mc.t
	in := sh.listed(len(t.cols))
	draw := func() []cell {
		cells := make([]cell, len(t.cols))
		cells[0] = cell{given: true, v: intV(id)}
		for i := 1; i < len(t.cols); i++ {
			c := &t.cols[i]
			switch {
			case !in[i]:
			case c.gen != nil:
				cells[i] = cell{dflt: true}
			case rapid.IntRange(0, 7).Draw(rt, "defaultKeyword") == 0:
				cells[i] = cell{dflt: true}
			default:
				cells[i] = cell{given: true, v: genVal(rt, c.k, "v")}
			}
		}
		return cells
	}
	cells := draw()
	if rapid.IntRange(0, 9).Draw(rt, "steerValid") < 7 {
		for try := 0; try < 5 && !t.build(cells, adjust).ok(); try++ {
			cells = draw()
		}
	}
	if explicitGen {
		for i := range t.cols {
			if t.cols[i].gen != nil && in[i] && sh.list != nil {
				want := t.build(cells, adjust).row[i]
				v := genVal(rt, t.cols[i].k, "genValue")
				if rapid.Bool().Draw(rt, "genValueRight") || v.null {
					v = want
				}
				if v.null {
					v = zero(t.cols[i].k)
				}
				cells[i] = cell{given: true, v: v}
			}
		}
	}
	return cells
}

func (mc *machine) valuesSQL(sh insertShape, rows [][]cell) string {
	var cols string
	order := sh.list
	if order == nil {
		for i := range mc.t.cols {
			order = append(order, i)
		}
	} else {
		ns := make([]string, len(order))
		for i, c := range order {
			ns[i] = mc.t.cols[c].name
		}
		cols = " (" + strings.Join(ns, ", ") + ")"
	}
	var tuples []string
	for _, cells := range rows {
		vs := make([]string, len(order))
		for i, c := range order {
			if cells[c].given {
				vs[i] = cells[c].v.lit()
			} else {
				vs[i] = "DEFAULT"
			}
		}
		tuples = append(tuples, "("+strings.Join(vs, ", ")+")")
	}
	return "t" + cols + " VALUES " + strings.Join(tuples, ", ")
}

// defaultReadsUnlisted: some VALUES row uses the keyword DEFAULT for a column whose expression
// default reads a column that the VALUES tuple cannot supply at that point: a column that is
// not in the statement's column list, or one that is listed later and is itself given as the
// keyword DEFAULT with an expression default (region of finding
// C19-default-keyword-unlisted-column: the keyword is resolved against the VALUES tuple, not
// against the destination row).
func (mc *machine) defaultReadsUnlisted(sh insertShape, rows [][]cell) bool {
	order := sh.list
	if order == nil {
		for i := range mc.t.cols {
			order = append(order, i)
		}
	}
	pos := map[int]int{}
	for i, c := range order {
		pos[c] = i
	}
	for _, cells := range rows {
		for c := range cells {
			d := mc.t.cols[c].def
			if !cells[c].dflt || d == nil || d.op == "const" {
				continue
			}
			refs := map[int]bool{}
			d.refs(refs)
			for r := range refs {
				p, listed := pos[r]
				if !listed {
					return true
				}
				if rd := mc.t.cols[r].def; p > pos[c] && cells[r].dflt && rd != nil && rd.op != "const" {
					return true
				}
			}
		}
	}
	return false
}

// defaultedDeclared reports whether the row received a declared default.
func (mc *machine) declaredDefault(b *built) bool { return len(b.defaulted) > 0 }

func (mc *machine) insert(rt *rapid.T) {
	t := mc.t
	mode := rapid.SampledFrom([]string{"insert", "insert", "insert", "insert-ignore", "insert-ignore", "replace"}).Draw(rt, "insertMode")
	ignore := mode == "insert-ignore"
	hasGen := false
	for i := range t.cols {
		hasGen = hasGen || t.cols[i].gen != nil
	}
	explicitGen := mode == "insert" && hasGen && rapid.IntRange(0, 11).Draw(rt, "explicitGen") == 0
	sh := mc.genShape(rt, explicitGen)
	nrows := rapid.IntRange(1, 3).Draw(rt, "nrows")
	if mode == "replace" || explicitGen {
		nrows = 1
	}
	taken := map[int64]bool{}
	var rows [][]cell
	for i := 0; i < nrows; i++ {
		id := mc.freshID(rt, taken)
		taken[id] = true
		rows = append(rows, mc.genCells(rt, sh, id, ignore, explicitGen))
	}
	o := &outcome{kind: mode, alts: map[int64][][]val{}, ignore: ignore, checkOnly: true}
	cur := map[int64]bool{}
	for id := range mc.rows {
		cur[id] = true
	}
	nullDefault := false
	for _, cells := range rows {
		id := cells[0].v.i
		b := t.build(cells, ignore)
		switch mode {
		case "insert":
			switch {
			case len(b.nullViol) > 0 || len(b.checkViol) > 0 || len(b.genViol) > 0:
				o.class = mustFail
				o.constraintReject = true
				o.reasons = append(o.reasons, b.reasons(t))
				if len(b.nullViol) > 0 || len(b.genViol) > 0 {
					o.checkOnly = false
				}
			case cur[id]:
				o.class = mustFail
				o.checkOnly = false
				o.reasons = append(o.reasons, fmt.Sprintf("duplicate primary key %d", id))
			case len(b.genGiven) > 0:
				// an explicit value equal to the expression: MySQL rejects it, the property does not say
				if o.class == mustSucceed {
					o.class = either
				}
				o.constraintReject = true
				o.alts[id] = [][]val{b.row}
			default:
				o.alts[id] = [][]val{b.row}
				cur[id] = true
				o.defaulted = o.defaulted || mc.declaredDefault(b)
			}
		case "insert-ignore":
			if len(b.nullDefault) > 0 {
				nullDefault = true
			}
			switch {
			case cur[id]: // duplicate: skipped
			case len(b.checkViol) > 0:
				o.alts[id] = [][]val{nil}
				o.needWarning = true
				o.adjusted = append(o.adjusted, b.nullViol...)
			case len(b.nullViol) > 0:
				o.alts[id] = [][]val{b.row, nil}
				o.needWarning = true
				o.adjusted = append(o.adjusted, b.nullViol...)
			default:
				o.alts[id] = [][]val{b.row}
				cur[id] = true
				o.defaulted = o.defaulted || mc.declaredDefault(b)
			}
		case "replace":
			if !b.ok() {
				o.class = mustFail
				o.constraintReject = true
				o.reasons = append(o.reasons, b.reasons(t))
				if len(b.nullViol) > 0 {
					o.checkOnly = false
				}
			} else {
				o.alts[id] = [][]val{b.row}
				o.defaulted = o.defaulted || mc.declaredDefault(b)
			}
		}
	}
	if o.dfltUnlisted = mc.defaultReadsUnlisted(sh, rows); o.dfltUnlisted && kf.Listed(findingDefaultUnlisted) {
		mc.st.Excluded(findingDefaultUnlisted)
		return
	}
	if nullDefault {
		// IGNORE and an expression default that evaluates to NULL for a NOT NULL column: MySQL
		// adjusts it like an explicit NULL, the engine rejects the statement ("default value
		// attempted to return null"); the property statement allows both, and what a rejected
		// INSERT IGNORE leaves behind is property C15's subject - not generated.
		mc.st.Class("skipped:ignore-null-expression-default")
		return
	}
	if ignore && mc.ignoreAmbiguous(rows, sh) {
		mc.st.Class("skipped:ignore-adjusts-input-of-omitted-default")
		return
	}
	if ignore && len(o.adjusted) > 0 && mc.staleGeneratedRegion(o.adjusted) {
		mc.st.Excluded(findingIgnoreStale)
		return
	}
	if o.class != mustFail {
		// all rows or nothing: alternatives only matter on success
	} else {
		o.alts = nil
		o.defaulted = false
	}
	verb := map[string]string{"insert": "INSERT INTO ", "insert-ignore": "INSERT IGNORE INTO ", "replace": "REPLACE INTO "}[mode]
	if explicitGen {
		o.kind = "insert-explicit-generated"
	}
	mc.run(rt, verb+mc.valuesSQL(sh, rows), o)
}

// ignoreAmbiguous: under IGNORE a NULL for a NOT NULL column is adjusted; whether an omitted
// column whose expression default reads that column sees the adjusted or the original value
// is not pinned down by the property statement - such rows are not generated.
func (mc *machine) ignoreAmbiguous(rows [][]cell, sh insertShape) bool {
	t := mc.t
	for _, cells := range rows {
		b := t.build(cells, true)
		for _, a := range b.nullViol {
			for _, d := range b.defaulted {
				if t.cols[d].def.op != "const" && t.dependsOn(t.cols[d].def, a) {
					return true
				}
			}
		}
	}
	return false
}

// staleGeneratedRegion: region of finding C19-ignore-null-stale-generated (excluded while
// listed): IGNORE adjusts a NULL of a NOT NULL column that a generated column reads.
func (mc *machine) staleGeneratedRegion(adjusted []int) bool {
	if !kf.Listed(findingIgnoreStale) {
		return false
	}
	for _, a := range adjusted {
		for i := range mc.t.cols {
			if mc.t.cols[i].gen != nil && mc.t.dependsOn(mc.t.cols[i].gen, a) {
				return true
			}
		}
	}
	return false
}

// assignment is `col = rhs` of UPDATE / ON DUPLICATE KEY UPDATE; rhs reads only the row's
// own pre-statement values (and, for ODKU, the values of the INSERT row).
type assignment struct {
	col   int
	e     *expr // over the old row; nil with dflt / values
	dflt  bool  // = DEFAULT
	value bool  // = VALUES(col)
}

func (a assignment) sql(t *table) string {
	n := t.cols[a.col].name
	switch {
	case a.dflt:
		return n + " = DEFAULT"
	case a.value:
		return n + " = VALUES(" + n + ")"
	}
	return n + " = " + a.e.sql(t)
}

func (mc *machine) genAssignments(rt *rapid.T, odku bool, listed []bool) []assignment {
	t := mc.t
	var base []int
	for i := 1; i < len(t.cols); i++ {
		if t.cols[i].gen == nil {
			base = append(base, i)
		}
	}
	n := rapid.IntRange(1, 2).Draw(rt, "nassign")
	assigned := map[int]bool{}
	var as []assignment
	for k := 0; k < n; k++ {
		c := rapid.SampledFrom(base).Draw(rt, "assignCol")
		if assigned[c] {
			continue
		}
		assigned[c] = true
		col := &t.cols[c]
		a := assignment{col: c}
		switch rapid.IntRange(0, 9).Draw(rt, "rhs") {
		case 0:
			a.e = constE(nullV(col.k))
		case 1:
			if col.def != nil {
				a.dflt = true
			} else {
				a.e = genConst(rt, col.k, "rhsConst")
			}
		case 2, 3, 4:
			if col.k == kInt {
				a.e = opE("+", kInt, colE(c, kInt), constE(intV(int64(rapid.SampledFrom([]int{-2, -1, 1, 2, 3}).Draw(rt, "delta")))))
			} else {
				a.e = opE(rapid.SampledFrom([]string{"upper", "lower"}).Draw(rt, "strFn"), kStr, colE(c, kStr))
			}
		case 5:
			if odku && listed[c] {
				a.value = true
			} else {
				a.e = genConst(rt, col.k, "rhsConst")
			}
		case 6:
			// another column of the same kind
			var others []int
			for _, o := range base {
				if o != c && t.cols[o].k == col.k {
					others = append(others, o)
				}
			}
			if len(others) > 0 {
				a.e = colE(rapid.SampledFrom(others).Draw(rt, "rhsCol"), col.k)
			} else {
				a.e = genConst(rt, col.k, "rhsConst")
			}
		default:
			a.e = genConst(rt, col.k, "rhsConst")
		}
		as = append(as, a)
	}
	// right-hand sides must not read a column assigned in the same statement (other than
	// their own target): keeps "old row" and "left to right" evaluation identical
	var out []assignment
	for _, a := range as {
		okA := true
		refs := map[int]bool{}
		if a.e != nil {
			a.e.refs(refs)
		}
		if a.dflt {
			t.cols[a.col].def.refs(refs)
		}
		for r := range refs {
			if r != a.col && assigned[r] {
				okA = false
			}
		}
		if a.dflt && refs[a.col] {
			okA = false
		}
		if okA {
			out = append(out, a)
		}
	}
	if len(out) == 0 {
		out = []assignment{{col: as[0].col, e: genConst(rt, t.cols[as[0].col].k, "rhsFallback")}}
	}
	return out
}

// apply computes the row an UPDATE of old would store. adjust: the IGNORE rule.
func (mc *machine) apply(old []val, as []assignment, insertRow []val, adjust bool) *built {
	t := mc.t
	b := &built{row: append([]val(nil), old...)}
	for _, a := range as {
		switch {
		case a.dflt:
			b.row[a.col] = t.cols[a.col].def.eval(old)
		case a.value:
			b.row[a.col] = insertRow[a.col]
		default:
			b.row[a.col] = a.e.eval(old)
		}
	}
	for i := range t.cols {
		if t.cols[i].gen == nil && t.cols[i].notNull && b.row[i].null {
			b.nullViol = append(b.nullViol, i)
			for _, a := range as {
				if a.col == i && a.dflt {
					b.nullDefault = append(b.nullDefault, i)
				}
			}
			if adjust {
				b.row[i] = zero(t.cols[i].k)
			}
		}
	}
	t.finish(b, nil)
	return b
}

// dependentChange: the change from old to nw touches a column that a generated column or an
// active enforced check reads.
func (mc *machine) dependentChange(old, nw []val) bool {
	t := mc.t
	for c := range old {
		if t.cols[c].gen != nil || old[c].same(nw[c]) {
			continue
		}
		for i := range t.cols {
			if t.cols[i].gen != nil && t.dependsOn(t.cols[i].gen, c) {
				return true
			}
		}
		for _, ck := range t.checks {
			if ck.active && ck.enforced && t.dependsOn(ck.e, c) {
				return true
			}
		}
	}
	return false
}

func (mc *machine) odku(rt *rapid.T) {
	t := mc.t
	sh := mc.genShape(rt, false)
	id := mc.freshID(rt, map[int64]bool{})
	if len(mc.rows) > 0 && rapid.IntRange(0, 3).Draw(rt, "odkuExisting") > 0 {
		ids := mc.ids()
		id = ids[rapid.IntRange(0, len(ids)-1).Draw(rt, "odkuID")]
	}
	cells := mc.genCells(rt, sh, id, false, false)
	as := mc.genAssignments(rt, true, sh.listed(len(t.cols)))
	b := t.build(cells, false)
	o := &outcome{kind: "odku", alts: map[int64][][]val{}, checkOnly: true}
	old, exists := mc.rows[id]
	switch {
	case !exists && !b.ok():
		o.class, o.constraintReject, o.reasons = mustFail, true, []string{b.reasons(t)}
		o.checkOnly = len(b.nullViol) == 0
	case !exists:
		o.alts[id] = [][]val{b.row}
		o.defaulted = mc.declaredDefault(b)
	default:
		u := mc.apply(old, as, b.row, false)
		switch {
		case !u.ok():
			o.class, o.constraintReject, o.reasons = mustFail, true, []string{"updated row: " + u.reasons(t)}
			o.checkOnly = len(u.nullViol) == 0
			o.kind = "odku-update"
		case !b.ok():
			// the INSERT row itself violates a constraint but the statement takes the update
			// path: MySQL rejects it; the property statement only rules out the stored row
			o.class, o.constraintReject = either, true
			o.alts[id] = [][]val{u.row}
			o.kind = "odku-update"
		default:
			o.alts[id] = [][]val{u.row}
			o.depUpdate = mc.dependentChange(old, u.row)
			o.kind = "odku-update"
		}
		if u.ok() && sameRow(u.row, old) && mc.indexedVirtual() {
			if kf.Listed(findingOdkuNoop) {
				mc.st.Excluded(findingOdkuNoop)
				return
			}
			mc.odkuNoop = true
		}
	}
	if o.class == mustFail {
		o.alts = nil
	}
	if o.dfltUnlisted = mc.defaultReadsUnlisted(sh, [][]cell{cells}); o.dfltUnlisted && kf.Listed(findingDefaultUnlisted) {
		mc.st.Excluded(findingDefaultUnlisted)
		return
	}
	sets := make([]string, len(as))
	for i, a := range as {
		sets[i] = a.sql(t)
	}
	mc.run(rt, "INSERT INTO "+mc.valuesSQL(sh, [][]cell{cells})+" ON DUPLICATE KEY UPDATE "+strings.Join(sets, ", "), o)
}

// ---------------------------------------------------------------------------------------
// UPDATE / UPDATE IGNORE / DELETE

type pred struct {
	sql   string
	match func(row []val) bool
	col   int // the column the predicate reads (0: id / none)
}

func (mc *machine) genPred(rt *rapid.T) pred {
	t := mc.t
	ids := mc.ids()
	pickID := func(label string) int64 {
		if len(ids) > 0 && rapid.IntRange(0, 5).Draw(rt, label+"Existing") > 0 {
			return ids[rapid.IntRange(0, len(ids)-1).Draw(rt, label)]
		}
		return int64(rapid.IntRange(1, 12).Draw(rt, label+"Any"))
	}
	switch rapid.IntRange(0, 9).Draw(rt, "predKind") {
	case 0, 1, 2:
		k := pickID("k")
		return pred{fmt.Sprintf(" WHERE id = %d", k), func(r []val) bool { return r[0].i == k }, 0}
	case 3:
		a, b := pickID("k1"), pickID("k2")
		return pred{fmt.Sprintf(" WHERE id IN (%d, %d)", a, b), func(r []val) bool { return r[0].i == a || r[0].i == b }, 0}
	case 4:
		k := pickID("k")
		return pred{fmt.Sprintf(" WHERE id >= %d", k), func(r []val) bool { return r[0].i >= k }, 0}
	case 5, 6, 7:
		// a predicate over a base or generated column (index-driven for an indexed generated column)
		c := rapid.IntRange(1, len(t.cols)-1).Draw(rt, "predCol")
		var e *expr
		if len(ids) > 0 && rapid.Bool().Draw(rt, "predStored") {
			v := mc.rows[ids[rapid.IntRange(0, len(ids)-1).Draw(rt, "predRow")]][c]
			if v.null {
				e = opE("isnull", kBool, colE(c, t.cols[c].k))
			} else {
				e = opE("=", kBool, colE(c, t.cols[c].k), constE(v))
			}
		} else if t.cols[c].k == kInt {
			e = opE(rapid.SampledFrom([]string{"<", "<=", "=", ">", ">="}).Draw(rt, "predOp"), kBool, colE(c, kInt), genConst(rt, kInt, "predC"))
		} else {
			e = opE("=", kBool, colE(c, kStr), genConst(rt, kStr, "predS"))
		}
		return pred{" WHERE " + e.sql(t), func(r []val) bool { v := e.eval(r); return !v.null && v.i != 0 }, c}
	}
	return pred{"", func([]val) bool { return true }, 0}
}

func (mc *machine) update(rt *rapid.T) {
	t := mc.t
	ignore := rapid.IntRange(0, 6).Draw(rt, "updateIgnore") == 0
	as := mc.genAssignments(rt, false, nil)
	p := mc.genPred(rt)
	if ignore && t.cols[p.col].indexed {
		// UPDATE IGNORE driven by a secondary index updates the wrong rows (its per-row
		// checkpoints rewrite the index under the open index scan): a defect of DML execution
		// (properties C13 / C16, see notes/C19.md), nothing C19 states - not generated.
		mc.st.Class("skipped:update-ignore-through-secondary-index")
		ignore = false
	}
	o := &outcome{kind: "update", alts: map[int64][][]val{}, ignore: ignore, checkOnly: true}
	if ignore {
		o.kind = "update-ignore"
	}
	if pc := &t.cols[p.col]; pc.gen != nil && !pc.stored && pc.indexed {
		o.predVirtual = true
	}
	for _, id := range mc.ids() {
		old := mc.rows[id]
		if !p.match(old) {
			continue
		}
		u := mc.apply(old, as, nil, ignore)
		if sameRow(u.row, old) && len(u.nullViol) == 0 {
			continue // unchanged rows are not re-validated
		}
		if ignore && len(u.nullDefault) > 0 {
			mc.st.Class("skipped:ignore-null-expression-default")
			return
		}
		switch {
		case !ignore && !u.ok():
			o.class, o.constraintReject = mustFail, true
			o.reasons = append(o.reasons, fmt.Sprintf("id %d: %s", id, u.reasons(t)))
			if len(u.nullViol) > 0 {
				o.checkOnly = false
			}
		case !ignore:
			o.alts[id] = [][]val{u.row}
			o.depUpdate = o.depUpdate || mc.dependentChange(old, u.row)
		case len(u.checkViol) > 0:
			o.alts[id] = [][]val{old}
			o.needWarning = true
			o.adjusted = append(o.adjusted, u.nullViol...)
		case len(u.nullViol) > 0:
			o.alts[id] = [][]val{u.row, old}
			o.needWarning = true
			o.adjusted = append(o.adjusted, u.nullViol...)
		default:
			o.alts[id] = [][]val{u.row}
			o.depUpdate = o.depUpdate || mc.dependentChange(old, u.row)
		}
	}
	if ignore && len(o.adjusted) > 0 && mc.staleGeneratedRegion(o.adjusted) {
		mc.st.Excluded(findingIgnoreStale)
		return
	}
	if ignore && len(o.adjusted) > 0 && kf.Listed(findingUpdateIgnoreCheck) && mc.checkReads(o.adjusted) {
		mc.st.Excluded(findingUpdateIgnoreCheck)
		return
	}
	if o.class == mustFail {
		o.alts, o.depUpdate = nil, false
	}
	sets := make([]string, len(as))
	for i, a := range as {
		sets[i] = a.sql(t)
	}
	verb := "UPDATE t SET "
	if ignore {
		verb = "UPDATE IGNORE t SET "
	}
	mc.run(rt, verb+strings.Join(sets, ", ")+p.sql, o)
}

// checkReads: some active enforced check reads one of the columns.
func (mc *machine) checkReads(cols []int) bool {
	for _, c := range cols {
		for _, ck := range mc.t.checks {
			if ck.active && ck.enforced && mc.t.dependsOn(ck.e, c) {
				return true
			}
		}
	}
	return false
}

// updateGenerated assigns to a generated column: must fail unless the value is the keyword
// DEFAULT (not generated) - the stored value may never differ from the expression.
func (mc *machine) updateGenerated(rt *rapid.T) {
	t := mc.t
	var gens []int
	for i := range t.cols {
		if t.cols[i].gen != nil {
			gens = append(gens, i)
		}
	}
	if len(gens) == 0 || len(mc.rows) == 0 {
		return
	}
	c := rapid.SampledFrom(gens).Draw(rt, "genCol")
	ids := mc.ids()
	id := ids[rapid.IntRange(0, len(ids)-1).Draw(rt, "genRow")]
	v := genVal(rt, t.cols[c].k, "genNew")
	if v.null {
		v = zero(t.cols[c].k)
	}
	o := &outcome{kind: "update-generated", class: mustFail, constraintReject: true, reasons: []string{"explicit value for generated column " + t.cols[c].name}}
	if v.same(mc.rows[id][c]) {
		o.class = either
		o.alts = map[int64][][]val{}
	}
	mc.run(rt, fmt.Sprintf("UPDATE t SET %s = %s WHERE id = %d", t.cols[c].name, v.lit(), id), o)
}

func (mc *machine) delete(rt *rapid.T) {
	if len(mc.rows) < 3 {
		return
	}
	ids := mc.ids()
	id := ids[rapid.IntRange(0, len(ids)-1).Draw(rt, "deleteID")]
	mc.run(rt, fmt.Sprintf("DELETE FROM t WHERE id = %d", id), &outcome{kind: "delete", alts: map[int64][][]val{id: {nil}}})
}

// ---------------------------------------------------------------------------------------
// ALTER TABLE ADD / DROP CONSTRAINT

func (mc *machine) addCheck(rt *rapid.T) {
	t := mc.t
	if kf.Listed(findingVirtualChecks) && t.hasVirtual() {
		mc.st.Excluded(findingVirtualChecks)
		return
	}
	active := 0
	for _, c := range t.checks {
		if c.active {
			active++
		}
	}
	if active >= 4 {
		return
	}
	ck := genCheckDef(rt, t, len(t.checks))
	o := &outcome{kind: "add-check", checkOnly: true}
	for _, id := range mc.ids() {
		if isFalse(ck.e.eval(mc.rows[id])) {
			if !ck.enforced {
				// MySQL does not validate a NOT ENFORCED check; the property statement speaks of
				// enforced checks only, so a rejection is accepted as well
				o.class = either
				continue
			}
			o.class, o.constraintReject = mustFail, true
			o.reasons = append(o.reasons, fmt.Sprintf("stored row %s makes the new check FALSE", rowString(mc.rows[id])))
		}
	}
	if mc.run(rt, "ALTER TABLE t ADD "+t.checkClause(ck), o) {
		t.checks = append(t.checks, ck)
		mc.st.Class("effect:check-added")
	}
}

func (mc *machine) dropCheck(rt *rapid.T) {
	var act []*check
	for _, c := range mc.t.checks {
		if c.active {
			act = append(act, c)
		}
	}
	if len(act) == 0 {
		return
	}
	ck := rapid.SampledFrom(act).Draw(rt, "dropCheck")
	form := rapid.SampledFrom([]string{"DROP CONSTRAINT ", "DROP CHECK "}).Draw(rt, "dropForm")
	if mc.run(rt, "ALTER TABLE t "+form+ck.name, &outcome{kind: "drop-check"}) {
		ck.active = false
	}
}

// ---------------------------------------------------------------------------------------
// known findings

// findingVirtualChecks: a table with a VIRTUAL generated column is handed to the planner
// wrapped in plan.VirtualColumnTable, which does not implement sql.CheckTable, so
// planbuilder.loadChecksFromTable finds no checks: INSERT / UPDATE / REPLACE never evaluate
// the table's CHECK constraints (and SHOW CREATE TABLE / DROP CONSTRAINT do not see them).
const findingVirtualChecks = "C19-virtual-column-no-checks"

// findingIgnoreStale (DESIGN.md section 7, F7): INSERT IGNORE / UPDATE IGNORE replace a NULL
// for a NOT NULL column by the implicit default after the generated columns were computed,
// so the stored generated value is the expression over the NULL, not over the stored row.
const findingIgnoreStale = "C19-ignore-null-stale-generated"

// findingUpdateIgnoreCheck: UPDATE IGNORE evaluates the CHECK constraints before it replaces
// a NULL for a NOT NULL column by the implicit default, so the adjusted row is stored even
// when it makes a check FALSE.
const findingUpdateIgnoreCheck = "C19-update-ignore-check-before-adjust"

// findingDefaultUnlisted: in `INSERT INTO t (cols) VALUES (.., DEFAULT, ..)` the keyword
// DEFAULT for a column whose default is an expression over other columns is resolved against
// the VALUES tuple instead of the destination row (planbuilder.buildInsertValues): when the
// expression reads a column that is not in the column list the statement fails with the
// internal error "unable to find field with index -1"; when it reads a column that is listed
// later and is itself DEFAULT (expression), NULL is stored instead of the declared default.
const findingDefaultUnlisted = "C19-default-keyword-unlisted-column"

// findingOdkuNoop: INSERT .. ON DUPLICATE KEY UPDATE whose assignments leave the existing row
// unchanged writes the row back without its VIRTUAL generated values (the derived updates
// that recompute them are skipped for an unchanged row), so an index on a VIRTUAL column
// gets a NULL entry for the row: lookups through that index no longer find it.
const findingOdkuNoop = "C19-odku-noop-virtual-index"

func (mc *machine) indexedVirtual() bool {
	for i := range mc.t.cols {
		if c := &mc.t.cols[i]; c.gen != nil && !c.stored && c.indexed {
			return true
		}
	}
	return false
}

// signature returns the id of the finding whose signature the deviation matches, or "".
func (mc *machine) signature(o *outcome, got map[int64][]val) string {
	t := mc.t
	if o.dfltUnlisted && o.class != mustFail {
		return findingDefaultUnlisted
	}
	if mc.odkuNoop && (o.kind == "index-probe" || o.predVirtual) {
		return findingOdkuNoop
	}
	// every stored row satisfies NOT NULL and the generated columns; only checks are ignored
	onlyChecksIgnored := func() bool {
		for _, r := range got {
			for i := range t.cols {
				c := &t.cols[i]
				if c.gen != nil && !c.gen.eval(r).same(r[i]) {
					return false
				}
				if c.gen == nil && c.notNull && r[i].null {
					return false
				}
			}
		}
		return true
	}
	if t.hasVirtual() && onlyChecksIgnored() {
		switch o.kind {
		case "insert", "insert-ignore", "replace", "odku", "odku-update", "update", "update-ignore", "invariant", "invariant-query":
			if o.kind == "invariant" || o.kind == "invariant-query" || (o.checkOnly && (o.class == mustFail || o.ignore)) {
				return findingVirtualChecks
			}
		case "drop-check":
			return findingVirtualChecks
		}
	}
	if o.ignore && len(o.adjusted) > 0 {
		// the stored rows differ from an allowed row only in generated columns that read an
		// adjusted column
		stale := false
		for id, alts := range o.alts {
			g := got[id]
			if g == nil || len(alts) == 0 || alts[0] == nil {
				continue
			}
			for i := range t.cols {
				if g[i].same(alts[0][i]) {
					continue
				}
				dep := false
				for _, a := range o.adjusted {
					dep = dep || (t.cols[i].gen != nil && t.dependsOn(t.cols[i].gen, a))
				}
				if !dep {
					return ""
				}
				stale = true
			}
		}
		if stale {
			return findingIgnoreStale
		}
	}
	if o.kind == "update-ignore" && len(o.adjusted) > 0 && mc.checkReads(o.adjusted) {
		return findingUpdateIgnoreCheck
	}
	return ""
}

// ---------------------------------------------------------------------------------------

func TestC19(t *testing.T) {
	st := stats.New("C19", "")
	defer st.Flush()
	rapid.Check(t, func(rt *rapid.T) {
		st.Eval()
		tb := genTable(rt, kf.Listed(findingVirtualChecks), st)
		mc := &machine{st: st, t: tb, f: fx.New(fx.Opts{}), rows: map[int64][]val{}}
		mc.s = mc.f.NewSession("", "", "")
		defer mc.f.Close()
		ddl := tb.ddl()
		mc.log = append(mc.log, ddl)
		if r := mc.s.Exec(ddl); !r.OK() {
			rt.Fatalf("schema statement failed: %s -> %s\n%s", ddl, r, r.Stack)
		}
		nGen, nVirtual, nExprDef, nNotNull := 0, 0, 0, 0
		for i := range tb.cols {
			c := &tb.cols[i]
			if c.gen != nil {
				nGen++
				if !c.stored {
					nVirtual++
				}
			}
			if c.def != nil && c.def.op != "const" {
				nExprDef++
			}
			if c.notNull && i > 0 {
				nNotNull++
			}
		}
		st.Class(fmt.Sprintf("schema:generated-columns=%d", nGen))
		st.Class(fmt.Sprintf("schema:checks=%d", len(tb.checks)))
		if nVirtual > 0 {
			st.Class("schema:has-virtual")
		}
		if nExprDef > 0 {
			st.Class("schema:has-expression-default")
		}
		if nNotNull > 0 {
			st.Class("schema:has-not-null")
		}
		steps := rapid.IntRange(8, 30).Draw(rt, "steps")
		for i := 0; i < steps && !mc.dead; i++ {
			switch k := rapid.IntRange(0, 29).Draw(rt, "op"); {
			case k < 8 || len(mc.rows) < 2:
				mc.insert(rt)
			case k < 11:
				mc.odku(rt)
			case k < 23:
				mc.update(rt)
			case k < 24:
				mc.updateGenerated(rt)
			case k < 26:
				mc.delete(rt)
			case k < 28:
				mc.addCheck(rt)
			default:
				mc.dropCheck(rt)
			}
			mc.invariant(rt)
			mc.indexProbe(rt)
		}
		if mc.dead {
			st.Class("case:ended-at-known-finding")
		}
		if mc.sawReject && mc.sawDepUpdate && mc.sawDefault {
			n := len(mc.log)
			if n > 12 {
				n = 12
			}
			st.NonTrivial(map[string]any{"first_statements": mc.log[:n]}, strings.Join(mc.log, ";"))
		}
	})
}
