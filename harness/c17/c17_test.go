// Package c17 checks property C17: ROLLBACK discards exactly the changes made since the
// transaction began, COMMIT makes them visible, with autocommit on every successful
// statement is committed on its own, no session observes another session's uncommitted
// changes, and non-overlapping transactions compose serially.
//
// A rapid state machine drives 2-3 sessions plus a read-only observer session on one
// fixture. The harness owns the schedule (one statement at a time). The reference model
// keeps every committed version of every table and, per session, the list of its own
// successful DML statements of the open transaction; a read inside a transaction must
// equal "some committed version of the table since the transaction began, with the
// session's own statements replayed on it"; a read outside a transaction must equal the
// current committed version exactly.
package c17

import (
	"fmt"
	"os"
	"strings"
	"testing"

	"github.com/dolthub/go-mysql-server/vh/internal/fx"
	"github.com/dolthub/go-mysql-server/vh/internal/kf"
	"github.com/dolthub/go-mysql-server/vh/internal/stats"
	"pgregory.net/rapid"
)

// ---- table model -------------------------------------------------------------------------

type row struct {
	id int
	v  *int // nullable, indexed by KEY kv(v)
	w  int
}

type table map[int]row

func (t table) clone() table {
	c := make(table, len(t))
	for k, r := range t {
		c[k] = r
	}
	return c
}

func (t table) equal(o table) bool {
	if len(t) != len(o) {
		return false
	}
	for k, r := range t {
		q, ok := o[k]
		if !ok || q.w != r.w || (q.v == nil) != (r.v == nil) || (q.v != nil && *q.v != *r.v) {
			return false
		}
	}
	return true
}

func np(v *int) string {
	if v == nil {
		return "N"
	}
	return fmt.Sprintf("n:%d", *v)
}

// norm renders the table (optionally only the rows an index range scan on v returns) in
// the canonical form of fx.NormRows.
func (t table) norm(onlyNonNullV bool) [][]string {
	var out [][]string
	for _, r := range t {
		if onlyNonNullV && r.v == nil {
			continue
		}
		out = append(out, []string{fmt.Sprintf("n:%d", r.id), np(r.v), fmt.Sprintf("n:%d", r.w)})
	}
	return out
}

// op is one DML statement of the deterministic subset: its SQL text (with %s for the table
// name) and its effect on the model. ok=false means the statement must fail and change nothing.
type op struct {
	sql   string
	apply func(t table) (table, bool)
	kind  string
}

func sqlInt(v *int) string {
	if v == nil {
		return "NULL"
	}
	return fmt.Sprint(*v)
}

func drawOp(rt *rapid.T) op {
	vdom := []int{0, 1, 2, 3}
	drawV := func(l string) *int {
		if rapid.IntRange(0, 5).Draw(rt, l+"-null") == 0 {
			return nil
		}
		x := rapid.SampledFrom(vdom).Draw(rt, l)
		return &x
	}
	switch rapid.IntRange(0, 9).Draw(rt, "opkind") {
	case 0, 1, 2:
		n := rapid.IntRange(1, 2).Draw(rt, "nrows")
		var rows []row
		var tuples []string
		for i := 0; i < n; i++ {
			r := row{id: rapid.IntRange(0, 9).Draw(rt, fmt.Sprintf("id%d", i)), v: drawV(fmt.Sprintf("v%d", i)), w: rapid.IntRange(0, 3).Draw(rt, fmt.Sprintf("w%d", i))}
			rows = append(rows, r)
			tuples = append(tuples, fmt.Sprintf("(%d,%s,%d)", r.id, sqlInt(r.v), r.w))
		}
		return op{kind: "insert", sql: "INSERT INTO %s VALUES " + strings.Join(tuples, ","), apply: func(t table) (table, bool) {
			c := t.clone()
			for _, r := range rows {
				if _, dup := c[r.id]; dup {
					return t, false
				}
				c[r.id] = r
			}
			return c, true
		}}
	case 3:
		id := rapid.IntRange(0, 9).Draw(rt, "id")
		v := drawV("v")
		return op{kind: "update-by-id", sql: fmt.Sprintf("UPDATE %%s SET v = %s WHERE id = %d", sqlInt(v), id), apply: func(t table) (table, bool) {
			c := t.clone()
			if r, ok := c[id]; ok {
				r.v = v
				c[id] = r
			}
			return c, true
		}}
	case 4:
		j := rapid.SampledFrom(vdom).Draw(rt, "j")
		return op{kind: "update-by-v", sql: fmt.Sprintf("UPDATE %%s SET w = w + 1 WHERE v = %d", j), apply: func(t table) (table, bool) {
			c := t.clone()
			for k, r := range c {
				if r.v != nil && *r.v == j {
					r.w++
					c[k] = r
				}
			}
			return c, true
		}}
	case 5:
		id := rapid.IntRange(0, 9).Draw(rt, "id")
		v := drawV("v")
		return op{kind: "update-range", sql: fmt.Sprintf("UPDATE %%s SET v = %s, w = w + 1 WHERE id >= %d", sqlInt(v), id), apply: func(t table) (table, bool) {
			c := t.clone()
			for k, r := range c {
				if r.id >= id {
					r.v = v
					r.w++
					c[k] = r
				}
			}
			return c, true
		}}
	case 6:
		id := rapid.IntRange(0, 9).Draw(rt, "id")
		return op{kind: "update-key-move", sql: fmt.Sprintf("UPDATE %%s SET id = id + 100 WHERE id = %d", id), apply: func(t table) (table, bool) {
			c := t.clone()
			if r, ok := c[id]; ok {
				if _, dup := c[id+100]; dup {
					return t, false
				}
				delete(c, id)
				r.id = id + 100
				c[r.id] = r
			}
			return c, true
		}}
	case 7:
		id := rapid.IntRange(0, 9).Draw(rt, "id")
		return op{kind: "delete-by-id", sql: fmt.Sprintf("DELETE FROM %%s WHERE id = %d", id), apply: func(t table) (table, bool) {
			c := t.clone()
			delete(c, id)
			return c, true
		}}
	case 8:
		j := rapid.SampledFrom(vdom).Draw(rt, "j")
		return op{kind: "delete-by-v", sql: fmt.Sprintf("DELETE FROM %%s WHERE v = %d", j), apply: func(t table) (table, bool) {
			c := t.clone()
			for k, r := range c {
				if r.v != nil && *r.v == j {
					delete(c, k)
				}
			}
			return c, true
		}}
	default:
		id := rapid.IntRange(0, 9).Draw(rt, "id")
		return op{kind: "delete-range", sql: fmt.Sprintf("DELETE FROM %%s WHERE id >= %d", id), apply: func(t table) (table, bool) {
			c := t.clone()
			for k := range c {
				if k >= id {
					delete(c, k)
				}
			}
			return c, true
		}}
	}
}

// ---- sessions ----------------------------------------------------------------------------

type session struct {
	name       string
	s          *fx.Sess
	autocommit bool
	inTx       bool
	beginVer   map[string]int  // per table: index of the committed version current when the transaction began
	firstTouch map[string]int  // per table: index of the committed version current at the first statement naming the table
	ops        map[string][]op // own successful DML of the open transaction
	changed    bool            // the open transaction has >= 1 successful DML
	readBy     map[string]bool // tables with own uncommitted DML that another session read meanwhile
}

type machine struct {
	st       *stats.Collector
	f        *fx.Fixture
	tables   []string
	versions map[string][]table
	sess     []*session
	obs      *fx.Sess
	serial   bool // sub-domain B: a session with an open transaction is the only one scheduled
	hist     []string
	obsHist  []string // statements of the observer since the last statement of another session
	withIdx  bool     // tables carry the secondary index kv(v) and reads also go through it
	poisoned bool     // a listed known finding was hit: the rest of the history is not evaluated

	rollbackAfterDML bool
	commitWithDML    bool
	overlap          bool
	dirtyOpportunity bool
}

func (m *machine) cur(tbl string) table { vs := m.versions[tbl]; return vs[len(vs)-1] }

func (m *machine) publish(tbl string, t table) {
	if !m.cur(tbl).equal(t) {
		m.versions[tbl] = append(m.versions[tbl], t)
	}
}

func (m *machine) history() string {
	return "  " + strings.Join(append(append([]string{}, m.hist...), m.obsHist...), "\n  ") +
		"\n  (the observer session obs reads every table after every statement; only its latest reads are shown)"
}

func (m *machine) exec(rt *rapid.T, who string, s *fx.Sess, q string) *fx.Result {
	r := s.Exec(q)
	res := r.String()
	if len(res) > 140 {
		res = res[:140] + "..."
	}
	if who == "obs" {
		m.obsHist = append(m.obsHist, fmt.Sprintf("%-3s %s   -- %s", who, q, res))
	} else {
		m.obsHist = nil
		m.hist = append(m.hist, fmt.Sprintf("%-3s %s   -- %s", who, q, res))
	}
	if r.Panic != nil || r.TimedOut {
		rt.Fatalf("statement crashed: [%s] %s\n -> %s\n%s\nhistory:\n%s", who, q, r, r.Stack, m.history())
	}
	return r
}

// begin opens the model transaction of se (explicit BEGIN, or implicitly by the first
// statement with autocommit off).
func (m *machine) begin(se *session) {
	se.inTx = true
	se.beginVer = map[string]int{}
	se.firstTouch = map[string]int{}
	se.ops = map[string][]op{}
	se.changed = false
	se.readBy = map[string]bool{}
	for _, t := range m.tables {
		se.beginVer[t] = len(m.versions[t]) - 1
	}
	for _, o := range m.sess {
		if o != se && o.inTx {
			m.overlap = true
		}
	}
}

func (m *machine) touch(se *session, tbl string) {
	if _, ok := se.firstTouch[tbl]; !ok {
		se.firstTouch[tbl] = len(m.versions[tbl]) - 1
	}
}

// candidates returns the views of tbl that se may see: own statements replayed on every
// committed version since the transaction began (outside a transaction: the current version).
func (m *machine) candidates(se *session, tbl string) []table {
	if !se.inTx {
		return []table{m.cur(tbl)}
	}
	var out []table
	vs := m.versions[tbl]
next:
	for i := se.beginVer[tbl]; i < len(vs); i++ {
		t := vs[i]
		for _, o := range se.ops[tbl] {
			var ok bool
			t, ok = o.apply(t)
			if !ok {
				continue next
			}
		}
		out = append(out, t)
	}
	return out
}

// mayCommit is rule R: se may commit only if no table it has touched (read or written)
// received a commit of another session since the first touch. The backend publishes every
// touched table as a whole at COMMIT (last commit wins per table); for transactions that
// overlap in time the property states no final-state requirement ("the in-memory backend
// documents no isolation for overlapping writers"), so such commits are not generated
// (ROLLBACK is issued instead). See notes/C17.md, observation "reader-clobber".
func (m *machine) mayCommit(se *session) bool {
	for tbl, ft := range se.firstTouch {
		if len(m.versions[tbl])-1 != ft {
			return false
		}
	}
	return true
}

func (m *machine) commitModel(se *session) {
	for tbl, ops := range se.ops {
		t := m.cur(tbl)
		for _, o := range ops {
			var ok bool
			if t, ok = o.apply(t); !ok {
				panic("harness: replay of committed statements failed")
			}
		}
		m.publish(tbl, t)
	}
	if se.changed {
		m.commitWithDML = true
	}
	se.inTx = false
}

func (m *machine) rollbackModel(se *session) {
	if se.changed {
		m.rollbackAfterDML = true
		m.st.Class("rollback-after-dml")
		for range se.readBy {
			m.dirtyOpportunity = true
		}
	}
	se.inTx = false
}

// endTx ends the open transaction of se by COMMIT (if allowed and wanted) or ROLLBACK.
func (m *machine) endTx(rt *rapid.T, se *session, wantCommit bool) {
	if m.poisoned {
		return
	}
	if wantCommit && !m.mayCommit(se) {
		m.st.Excluded("commit-after-foreign-commit-on-touched-table(overlapping-transactions)")
		wantCommit = false
	}
	if wantCommit {
		if r := m.exec(rt, se.name, se.s, "COMMIT"); !r.OK() {
			rt.Fatalf("COMMIT failed: %s\nhistory:\n%s", r, m.history())
		}
		m.commitModel(se)
		m.st.Class("commit")
	} else {
		if r := m.exec(rt, se.name, se.s, "ROLLBACK"); !r.OK() {
			rt.Fatalf("ROLLBACK failed: %s\nhistory:\n%s", r, m.history())
		}
		m.rollbackModel(se)
		m.st.Class("rollback")
	}
}

func (m *machine) pickSession(rt *rapid.T) *session {
	if m.serial {
		for _, se := range m.sess {
			if se.inTx {
				return se
			}
		}
	}
	return m.sess[rapid.IntRange(0, len(m.sess)-1).Draw(rt, "session")]
}

// implicitBegin models the engine starting a transaction for a statement of a session that
// has autocommit off and no open transaction.
func (m *machine) implicitBegin(se *session) {
	if !se.inTx && !se.autocommit {
		m.begin(se)
	}
}

// ---- actions -----------------------------------------------------------------------------

func (m *machine) actBegin(rt *rapid.T) {
	if m.poisoned {
		return
	}
	se := m.pickSession(rt)
	if se.inTx {
		// BEGIN inside a transaction commits it implicitly; only generated when rule R allows the commit
		if !m.mayCommit(se) {
			m.st.Excluded("commit-after-foreign-commit-on-touched-table(overlapping-transactions)")
			m.endTx(rt, se, false)
		} else {
			m.st.Class("begin-implicit-commit")
		}
	}
	q := rapid.SampledFrom([]string{"BEGIN", "START TRANSACTION"}).Draw(rt, "spelling")
	if r := m.exec(rt, se.name, se.s, q); !r.OK() {
		rt.Fatalf("%s failed: %s\nhistory:\n%s", q, r, m.history())
	}
	if se.inTx {
		m.commitModel(se)
	}
	m.begin(se)
	m.st.Class("begin")
}

func (m *machine) actCommit(rt *rapid.T) {
	if m.poisoned {
		return
	}
	se := m.pickSession(rt)
	if !se.inTx {
		// COMMIT without a transaction is a no-op
		if r := m.exec(rt, se.name, se.s, "COMMIT"); !r.OK() {
			rt.Fatalf("COMMIT failed: %s", r)
		}
		return
	}
	m.endTx(rt, se, true)
}

func (m *machine) actRollback(rt *rapid.T) {
	if m.poisoned {
		return
	}
	se := m.pickSession(rt)
	if !se.inTx {
		if r := m.exec(rt, se.name, se.s, "ROLLBACK"); !r.OK() {
			rt.Fatalf("ROLLBACK failed: %s", r)
		}
		return
	}
	m.endTx(rt, se, false)
}

func (m *machine) actAutocommit(rt *rapid.T) {
	if m.poisoned {
		return
	}
	se := m.pickSession(rt)
	if se.inTx {
		// the switch is only made between transactions (what SET autocommit does to an open
		// transaction is not part of the statement)
		m.endTx(rt, se, rapid.Bool().Draw(rt, "commit"))
	}
	on := rapid.Bool().Draw(rt, "on")
	q := "SET autocommit = 0"
	if on {
		q = "SET autocommit = 1"
	}
	if r := m.exec(rt, se.name, se.s, q); !r.OK() {
		rt.Fatalf("%s failed: %s", q, r)
	}
	se.autocommit = on
	m.st.Class("set-autocommit")
}

func (m *machine) actDML(rt *rapid.T) {
	if m.poisoned {
		return
	}
	se := m.pickSession(rt)
	tbl := rapid.SampledFrom(m.tables).Draw(rt, "table")
	o := drawOp(rt)
	if m.withIdx && kf.Listed(kfSharedIdx) && (o.kind == "update-by-v" || o.kind == "delete-by-v") {
		// Region of the listed finding: with the index entries shared between sessions, a DML
		// statement whose rows are found through kv may pick the wrong rows *before* any read
		// has shown the corrupted index (then the full scans are wrong as well, which the
		// narrow signature does not cover). While the id is listed such statements are only
		// run in the histories without the index (there WHERE v = j is a filtered scan).
		m.st.Excluded("index-driven-dml-in-indexed-history(" + kfSharedIdx + ")")
		return
	}
	m.implicitBegin(se)
	if se.inTx {
		m.touch(se, tbl)
	}
	// outcomes allowed by the model
	okAllowed, failAllowed := false, false
	for _, c := range m.candidates(se, tbl) {
		if _, ok := o.apply(c); ok {
			okAllowed = true
		} else {
			failAllowed = true
		}
	}
	r := m.exec(rt, se.name, se.s, fmt.Sprintf(o.sql, tbl))
	if r.OK() && !okAllowed {
		m.violation(rt, "dml-outcome", fmt.Sprintf("[%s] %s succeeded, but it must fail on every view the session may have", se.name, fmt.Sprintf(o.sql, tbl)))
		return
	}
	if !r.OK() && !failAllowed {
		m.violation(rt, "dml-outcome", fmt.Sprintf("[%s] %s failed (%v), but it must succeed", se.name, fmt.Sprintf(o.sql, tbl), r.Err))
		return
	}
	if !r.OK() {
		m.st.Class("dml-failed")
		return
	}
	m.st.Class("dml-" + o.kind)
	if se.inTx {
		se.ops[tbl] = append(se.ops[tbl], o)
		// did it change anything on the view the engine uses (first touch)?
		se.changed = true
		m.st.Class("dml-in-tx")
	} else {
		t, _ := o.apply(m.cur(tbl))
		m.publish(tbl, t)
		m.st.Class("dml-autocommit")
	}
}

func (m *machine) actRead(rt *rapid.T) {
	if m.poisoned {
		return
	}
	se := m.pickSession(rt)
	tbl := rapid.SampledFrom(m.tables).Draw(rt, "table")
	m.implicitBegin(se)
	if se.inTx {
		m.touch(se, tbl)
	}
	m.read(rt, se.name, se.s, tbl, m.candidates(se, tbl))
	for _, o := range m.sess {
		if o != se && o.inTx && len(o.ops[tbl]) > 0 {
			o.readBy[tbl] = true
			m.st.Class("read-while-other-has-uncommitted-dml")
		}
	}
	m.st.Class("read")
}

// read runs the full scan and the index-driven scan of tbl in session s; both must agree
// with one and the same candidate view.
func (m *machine) read(rt *rapid.T, who string, s *fx.Sess, tbl string, cands []table) {
	if m.poisoned {
		return
	}
	full := m.exec(rt, who, s, "SELECT id, v, w FROM "+tbl)
	// with the secondary index this is an index range scan on kv, without it a filtered table scan
	byIdx := m.exec(rt, who, s, "SELECT id, v, w FROM "+tbl+" WHERE v > -100")
	if !full.OK() {
		m.violation(rt, "read-error", fmt.Sprintf("[%s] read of %s failed: %s", who, tbl, full))
		return
	}
	if !byIdx.OK() {
		m.violation(rt, "read-error-index", fmt.Sprintf("[%s] read of %s through v > -100 failed: %s", who, tbl, byIdx))
		return
	}
	gf := fx.NormRows(full.Schema, full.Rows)
	gi := fx.NormRows(byIdx.Schema, byIdx.Rows)
	fullOK := false
	for _, c := range cands {
		if fx.MultisetEqual(gf, c.norm(false)) {
			fullOK = true
			if fx.MultisetEqual(gi, c.norm(true)) {
				return
			}
		}
	}
	var want []string
	for _, c := range cands {
		want = append(want, fx.Show(c.norm(false)))
	}
	kind := "read-full-scan"
	if fullOK {
		kind = "read-index-scan"
	}
	m.violation(rt, kind, fmt.Sprintf("[%s] %s: full scan %s, index scan (v > -100) %s; allowed views: %s",
		who, tbl, fx.Show(gf), fx.Show(gi), strings.Join(want, " or ")))
}

func (m *machine) violation(rt *rapid.T, kind, msg string) {
	for _, k := range knownFindings {
		if k.match(m, kind) && kf.Suppress(m.st, k.id) {
			m.poisoned = true // the state is corrupted from here on; the rest of the history is not evaluated
			return
		}
	}
	rt.Fatalf("C17 violated (%s): %s\nhistory:\n%s", kind, msg, m.history())
}

// kfSharedIdx is the id (owned by C18) of the finding that TableData.copy() shares the
// secondary-index entries between table copies.
const kfSharedIdx = "C18-stale-index-after-failed-stmt"

type knownFinding struct {
	id    string
	match func(m *machine, kind string) bool
}

// C18-stale-index-after-failed-stmt: TableData.copy() shares the index entries (whose last element, the
// row location, is updated in place by deleteRowFromIndexes and partitionssort.Swap) between
// the committed table and every session copy. Signature: the table has a secondary index,
// the full scan of the table agrees with an allowed view, and only the read through the
// secondary index (wrong rows or an error) does not.
var knownFindings = []knownFinding{
	{id: kfSharedIdx, match: func(m *machine, kind string) bool {
		return m.withIdx && (kind == "read-index-scan" || kind == "read-error-index")
	}},
}

// observe is the invariant run after every step: a session that is never inside a
// transaction must see exactly the committed state.
func (m *machine) observe(rt *rapid.T) {
	if m.poisoned {
		return
	}
	for _, tbl := range m.tables {
		m.read(rt, "obs", m.obs, tbl, []table{m.cur(tbl)})
	}
}

// ---- the property ------------------------------------------------------------------------

func newMachine(rt *rapid.T, st *stats.Collector) *machine {
	m := &machine{st: st, versions: map[string][]table{}}
	m.f = fx.New(fx.Opts{})
	m.obs = m.f.NewSession("", "", "")
	// While finding C18-stale-index-after-failed-stmt is listed, its region (tables with a secondary index)
	// is left out of three quarters of the histories so that the search continues behind it.
	m.withIdx = true
	if kf.Listed(kfSharedIdx) && rapid.IntRange(0, 3).Draw(rt, "withIdx") != 0 {
		m.withIdx = false
		st.Excluded("secondary-index(" + kfSharedIdx + ")")
	}
	nt := rapid.IntRange(2, 3).Draw(rt, "tables")
	m.tables = []string{"x", "y", "z"}[:nt]
	for _, t := range m.tables {
		ddl := "CREATE TABLE " + t + " (id INT PRIMARY KEY, v INT, w INT NOT NULL"
		if m.withIdx {
			ddl += ", KEY kv (v)"
		}
		m.obs.MustExec(rt.Fatalf, ddl+")")
		init := table{}
		n := rapid.IntRange(0, 5).Draw(rt, t+"-rows")
		var tuples []string
		for i := 0; i < n; i++ {
			id := rapid.IntRange(0, 9).Draw(rt, fmt.Sprintf("%s-id%d", t, i))
			if _, dup := init[id]; dup {
				continue
			}
			v := rapid.IntRange(0, 3).Draw(rt, fmt.Sprintf("%s-v%d", t, i))
			init[id] = row{id: id, v: &v, w: 0}
			tuples = append(tuples, fmt.Sprintf("(%d,%d,0)", id, v))
		}
		if len(tuples) > 0 {
			m.obs.MustExec(rt.Fatalf, "INSERT INTO "+t+" VALUES "+strings.Join(tuples, ","))
		}
		m.versions[t] = []table{init}
	}
	ns := rapid.IntRange(2, 3).Draw(rt, "sessions")
	for i := 0; i < ns; i++ {
		m.sess = append(m.sess, &session{name: fmt.Sprintf("s%d", i+1), s: m.f.NewSession("", "", ""), autocommit: true})
	}
	m.serial = rapid.IntRange(0, 3).Draw(rt, "serial") == 0
	return m
}

func TestC17(t *testing.T) {
	st := stats.New("C17", "")
	defer st.Flush()
	_ = os.Getenv("VERIF_TIER")
	rapid.Check(t, func(rt *rapid.T) {
		st.Eval()
		m := newMachine(rt, st)
		defer m.f.Close()
		if m.serial {
			st.Class("mode-serial(B)")
		} else {
			st.Class("mode-interleaved(A)")
		}
		// rapid draws the action with a bias towards the first keys in sorted order
		rt.Repeat(map[string]func(*rapid.T){
			"a-dml":        m.actDML,
			"b-read":       m.actRead,
			"c-begin":      m.actBegin,
			"d-dml":        m.actDML,
			"e-commit":     m.actCommit,
			"f-rollback":   m.actRollback,
			"g-read":       m.actRead,
			"h-autocommit": m.actAutocommit,
			"":             m.observe,
		})
		// close every transaction and compare the final committed state in every session
		for _, se := range m.sess {
			if se.inTx {
				m.endTx(rt, se, rapid.Bool().Draw(rt, "final-commit"))
			}
		}
		m.observe(rt)
		for _, se := range m.sess {
			if !se.autocommit {
				// a read with autocommit off opens a transaction at the current state
				m.begin(se)
			}
			for _, tbl := range m.tables {
				m.read(rt, se.name, se.s, tbl, []table{m.cur(tbl)})
			}
		}
		if m.poisoned {
			st.Class("history-cut-short-by-known-finding")
			return
		}
		if m.withIdx {
			st.Class("with-secondary-index")
		}
		if m.overlap {
			st.Class("has-overlapping-transactions")
		}
		if m.commitWithDML {
			st.Class("has-commit-with-dml")
		}
		if m.dirtyOpportunity {
			st.Class("rolled-back-dml-was-read-by-other-session-meanwhile")
		}
		if m.rollbackAfterDML {
			// another session (at least the observer) read every table between the DML and the ROLLBACK
			var stmts []string
			for _, h := range m.hist {
				if !strings.HasPrefix(h, "obs") {
					stmts = append(stmts, h)
				}
			}
			st.NonTrivial(map[string]any{"sessions": len(m.sess), "tables": len(m.tables), "serial": m.serial, "statements": len(stmts)},
				strings.Join(stmts, ";"))
			st.Class("nontrivial")
		}
	})
}
