package c17

import (
	"testing"

	"github.com/dolthub/go-mysql-server/vh/internal/fx"
	"github.com/dolthub/go-mysql-server/vh/internal/stats"
)

// TestReplayC17 runs the SQL witness scripts of /verif/replays/C17.
func TestReplayC17(t *testing.T) {
	st := stats.New("C17", "replay")
	defer st.Flush()
	fx.ReplayDir(t, st)
}
