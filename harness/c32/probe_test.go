package c32

import (
	"bufio"
	"fmt"
	"os"
	"testing"

	"github.com/dolthub/go-mysql-server/vh/internal/fx"
)

// TestProbe runs the statements of $PROBE_FILE (one per line) and prints the results.
func TestProbe(t *testing.T) {
	p := os.Getenv("PROBE_FILE")
	if p == "" {
		t.Skip()
	}
	f := fx.New(fx.Opts{})
	defer f.Close()
	s := f.NewSession("", "", "")
	fh, _ := os.Open(p)
	defer fh.Close()
	sc := bufio.NewScanner(fh)
	sc.Buffer(make([]byte, 1<<20), 1<<20)
	for sc.Scan() {
		q := sc.Text()
		if q == "" {
			continue
		}
		r := s.Exec(q)
		fmt.Printf("%s\n   => %s\n", q, r)
		if r.Panic != nil {
			fmt.Println(r.Stack)
			f = fx.New(fx.Opts{})
			s = f.NewSession("", "", "")
		}
	}
}
