package c32

import (
	"encoding/json"
	"fmt"
	"os"
	"strings"
	"testing"

	gmsstrings "github.com/dolthub/go-mysql-server/internal/strings"
	"github.com/dolthub/go-mysql-server/vh/internal/fx"
	"github.com/dolthub/go-mysql-server/vh/internal/kf"
	"github.com/dolthub/go-mysql-server/vh/internal/stats"
	"pgregory.net/rapid"
)

func thorough() bool { return os.Getenv("VERIF_TIER") == "thorough" }

// expr is one select expression with the check of its value ("" = law holds).
type expr struct {
	name string
	sql  string
	chk  func(v any) string
}

func wantInt(want int64) func(v any) string {
	return func(v any) string {
		if got := fx.Norm(v, nil); got != fmt.Sprintf("n:%d", want) {
			return fmt.Sprintf("got %s, want %d", got, want)
		}
		return ""
	}
}

func wantJSON(want *node) func(v any) string {
	return func(v any) string {
		if v == nil || !sameVal(v, want) {
			return fmt.Sprintf("got %s, want %s", showVal(v), want)
		}
		return ""
	}
}

func strOf(v any) (string, bool) {
	n := fx.Norm(v, nil)
	if !strings.HasPrefix(n, "s:") {
		return n, false
	}
	return n[2:], true
}

// runBatch evaluates all expressions in one SELECT on a fresh engine; if the statement
// fails or a law is violated, every expression is re-run alone (fresh engine each) so that
// the report names the single failing expression.
func runBatch(fatalf func(string, ...any), exprs []expr, ctx string) {
	if len(exprs) == 0 {
		return
	}
	cols := make([]string, len(exprs))
	for i, e := range exprs {
		cols[i] = e.sql
	}
	f := fx.New(fx.Opts{})
	r := f.NewSession("", "", "").Exec("SELECT " + strings.Join(cols, ", "))
	f.Close()
	if r.OK() && len(r.Rows) == 1 && len(r.Rows[0]) == len(exprs) {
		bad := false
		for i, e := range exprs {
			if e.chk(r.Rows[0][i]) != "" {
				bad = true
			}
		}
		if !bad {
			return
		}
	}
	for _, e := range exprs {
		f := fx.New(fx.Opts{})
		r1 := f.NewSession("", "", "").Exec("SELECT " + e.sql)
		f.Close()
		if !r1.OK() || len(r1.Rows) != 1 {
			fatalf("%s\n  law %s: SELECT %s\n  -> %s\n%s", ctx, e.name, e.sql, r1, r1.Stack)
		}
		if msg := e.chk(r1.Rows[0][0]); msg != "" {
			fatalf("%s\n  law %s: SELECT %s\n  -> %s", ctx, e.name, e.sql, msg)
		}
	}
	fatalf("%s\n  the batched SELECT deviates although every expression alone is fine:\n  %s\n  -> %s", ctx, r.SQL, r)
}

// value draws the scalar / document v of the path laws: its reference tree and its SQL spelling.
func (g *gen) value(lbl string) (*node, string, string) {
	switch rapid.IntRange(0, 7).Draw(g.rt, lbl+"vk") {
	case 0:
		return &node{kind: kNull}, "NULL", "null"
	case 1:
		b := rapid.Bool().Draw(g.rt, lbl+"b")
		if b {
			return &node{kind: kBool, b: true}, "TRUE", "bool"
		}
		return &node{kind: kBool}, "FALSE", "bool"
	case 2:
		t := rapid.SampledFrom([]string{"0", "1", "-1", "7", "9007199254740993", "9223372036854775807", "-9223372036854775808",
			"9223372036854775808", "18446744073709551615", "-9007199254740993"}).Draw(g.rt, lbl+"int")
		return &node{kind: kNum, num: t, exact: true}, t, "int"
	case 3:
		t := rapid.SampledFrom([]string{"1.5", "-0.25", "0.1", "1.50", "123456789.123456789", "0.0", "9007199254740993.5",
			"18446744073709551616", "-3.000"}).Draw(g.rt, lbl+"dec")
		return &node{kind: kNum, num: t, exact: true}, t, "decimal"
	case 4:
		t := rapid.SampledFrom([]string{"1e0", "1.5e3", "2.5E-3", "-1e19", "1e-7", "0.1e0"}).Draw(g.rt, lbl+"flt")
		return &node{kind: kNum, num: t}, t, "double"
	case 5, 6:
		s := genString(g.rt, lbl+"str")
		return &node{kind: kStr, s: s}, sqlStr(s), "string"
	default:
		n := g.doc(2, lbl+"doc")
		return n, n.asJSON(style{}), "json"
	}
}

func TestC32(t *testing.T) {
	st := stats.New("C32", "")
	defer st.Flush()
	maxDepth := 3
	if thorough() {
		maxDepth = 4
	}
	rapid.Check(t, func(rt *rapid.T) {
		st.Eval()
		g := &gen{rt: rt, excluded: st.Excluded}
		d := g.top(maxDepth, "d")
		sty := style{uesc: rapid.Bool().Draw(rt, "uesc"), ws: rapid.Bool().Draw(rt, "ws")}
		dj := d.asJSON(sty)
		darg := dj
		if rapid.Bool().Draw(rt, "argText") {
			darg = sqlStr(d.text(sty)) // JSON functions also take the document as text
		}
		ctx := fmt.Sprintf("document d = %s", d.text(sty))
		var exprs []expr
		add := func(name, sql string, chk func(v any) string) { exprs = append(exprs, expr{name, sql, chk}) }

		// (1) text round trip, canonical key order, (7) JSON_VALID
		add("parse: CAST(text AS JSON) is the document", dj, wantJSON(d))
		add("print: printed form parses to the same tree, keys canonical", "CAST("+dj+" AS CHAR)", func(v any) string {
			txt, ok := strOf(v)
			if !ok {
				return "printed form is not a string: " + txt
			}
			p, err := parseOrdered(txt)
			if err != nil {
				return fmt.Sprintf("printed form %q does not parse: %v", txt, err)
			}
			if !parsedNumbersOK(p) {
				return fmt.Sprintf("printed form %q holds a number outside the double range", txt)
			}
			if a, b, ok := keysCanonical(p); !ok {
				return fmt.Sprintf("printed form %q: key %q is printed before %q (canonical order: length, then bytes)", txt, a, b)
			}
			if !refEq(p, d) {
				return fmt.Sprintf("printed form %q parses to a different tree", txt)
			}
			return ""
		})
		add("round trip value", "CAST(CAST("+dj+" AS CHAR) AS JSON)", wantJSON(d))
		add("round trip: CAST(CAST(d AS CHAR) AS JSON) = d", "CAST(CAST("+dj+" AS CHAR) AS JSON) = "+dj, wantInt(1))
		add("JSON_VALID(CAST(d AS CHAR))", "JSON_VALID(CAST("+dj+" AS CHAR))", wantInt(1))

		maxPath := 0
		// (3) JSON_EXTRACT(JSON_SET(d,p,v),p) = v for paths whose parent exists
		{
			v, vsql, vk := g.value("sv")
			p, nodes := g.walk(d, 3, "sp")
			cur := nodes[len(nodes)-1]
			mode := "replace"
			if rapid.Bool().Draw(rt, "sNew") {
				switch cur.kind {
				case kObj:
					k := rapid.SampledFrom(keyPool).Draw(rt, "sNewKey")
					if g.legKey(k) && cur.child(k) == nil {
						p = append(p, leg{isKey: true, key: k, quote: rapid.Bool().Draw(rt, "sq")})
						mode = "new-member"
					}
				case kArr:
					p = append(p, leg{idx: len(cur.arr), n: len(cur.arr), over: rapid.IntRange(0, 3).Draw(rt, "sOver")})
					mode = "past-end"
				}
			}
			if p.usesLast() && kf.Listed(kfReadLast) {
				st.Excluded(kfReadLast) // the read side uses the resolved index instead of 'last'
			}
			ps, p2 := sqlStr(p.render(false)), sqlStr(p.renderRead())
			add("JSON_EXTRACT(JSON_SET(d,p,v),p) = v", fmt.Sprintf("JSON_EXTRACT(JSON_SET(%s, %s, %s), %s)", darg, ps, vsql, p2), wantJSON(v))
			st.Class("set:" + mode)
			st.Class("v:" + vk)
			st.Class(fmt.Sprintf("set-path-len:%d", len(p)))
			if len(p) > maxPath {
				maxPath = len(p)
			}
			ctx += fmt.Sprintf("\n  set: p = %s, v = %s", p.render(false), vsql)
		}
		// (4) JSON_REMOVE makes JSON_CONTAINS_PATH false (array cells: the cell is gone and the others stay)
		{
			p, nodes := g.walk(d, 3, "rp")
			if len(p) > 0 {
				parent := nodes[len(nodes)-2]
				last := p[len(p)-1]
				ps, p2, pp := sqlStr(p.render(false)), sqlStr(p.render(true)), sqlStr(p[:len(p)-1].render(true))
				rem := fmt.Sprintf("JSON_REMOVE(%s, %s)", darg, ps)
				if last.isKey {
					add("JSON_CONTAINS_PATH(JSON_REMOVE(d,p),'one',p) = 0", fmt.Sprintf("JSON_CONTAINS_PATH(%s, 'one', %s)", rem, p2), wantInt(0))
					add("JSON_REMOVE removes one member", fmt.Sprintf("JSON_LENGTH(%s, %s)", rem, pp), wantInt(int64(len(parent.keys)-1)))
					st.Class("remove:member")
				} else {
					want := &node{kind: kArr}
					for i, c := range parent.arr {
						if i != last.idx {
							want.arr = append(want.arr, c)
						}
					}
					add("JSON_REMOVE removes exactly the addressed cell", fmt.Sprintf("JSON_EXTRACT(%s, %s)", rem, pp), wantJSON(want))
					add("JSON_REMOVE shortens the array by one", fmt.Sprintf("JSON_LENGTH(%s, %s)", rem, pp), wantInt(int64(len(parent.arr)-1)))
					if last.idx == len(parent.arr)-1 {
						add("JSON_CONTAINS_PATH(JSON_REMOVE(d,p),'one',p) = 0 (last cell)", fmt.Sprintf("JSON_CONTAINS_PATH(%s, 'one', %s)", rem, p2), wantInt(0))
					}
					st.Class("remove:cell")
				}
				// (after a removal 'last' names another cell, so the read side always gets the
				// resolved path here; the last-forms on the read side are covered by (3) and (5))
				if len(p) > maxPath {
					maxPath = len(p)
				}
				ctx += fmt.Sprintf("\n  remove: p = %s", p.render(false))
			} else {
				st.Class("remove:none")
			}
		}
		// (5) JSON_ARRAY_APPEND adds exactly one element
		{
			v, vsql, avk := g.value("av")
			p, nodes := g.walk(d, 3, "ap")
			cur := nodes[len(nodes)-1]
			want := &node{kind: kArr}
			oldLen := int64(1)
			if cur.kind == kArr {
				want.arr = append(append(want.arr, cur.arr...), v)
				oldLen = int64(len(cur.arr))
				st.Class("append:array")
			} else {
				want.arr = []*node{cur, v}
				if cur.kind == kObj {
					oldLen = int64(len(cur.keys))
				}
				st.Class("append:non-array")
			}
			ps, p2 := sqlStr(p.render(false)), sqlStr(p.renderRead())
			app := fmt.Sprintf("JSON_ARRAY_APPEND(%s, %s, %s)", darg, ps, vsql)
			add("JSON_ARRAY_APPEND: the array at p is the old one plus v", fmt.Sprintf("JSON_EXTRACT(%s, %s)", app, p2), wantJSON(want))
			add("JSON_LENGTH after JSON_ARRAY_APPEND", fmt.Sprintf("JSON_LENGTH(%s, %s)", app, p2), wantInt(int64(len(want.arr))))
			add("JSON_LENGTH before JSON_ARRAY_APPEND", fmt.Sprintf("JSON_LENGTH(%s, %s)", darg, p2), wantInt(oldLen))
			// appending twice adds exactly two elements: the first v is then an element of the
			// document the second call works on (an SQL decimal there is the region of C32-decimal-clone)
			if avk == "decimal" && kf.Listed(kfDecimalClone) {
				st.Excluded(kfDecimalClone)
			} else {
				want2 := &node{kind: kArr, arr: append(append([]*node(nil), want.arr...), v)}
				add("JSON_ARRAY_APPEND twice: the array at p is the old one plus v, v",
					fmt.Sprintf("JSON_EXTRACT(JSON_ARRAY_APPEND(%s, %s, %s), %s)", app, ps, vsql, p2), wantJSON(want2))
				st.Class("append:twice")
			}
			if p.usesLast() && kf.Listed(kfReadLast) {
				st.Excluded(kfReadLast)
			}
			if len(p) > maxPath {
				maxPath = len(p)
			}
			ctx += fmt.Sprintf("\n  append: p = %s, v = %s", p.render(false), vsql)
		}
		// (6) JSON_UNQUOTE(JSON_QUOTE(s)) = s
		s := genString(rt, "qs")
		add("JSON_UNQUOTE(JSON_QUOTE(s)) = s", "JSON_UNQUOTE(JSON_QUOTE("+sqlStr(s)+"))", func(v any) string {
			if got, ok := strOf(v); !ok || got != s {
				return fmt.Sprintf("got %q, want %q", got, s)
			}
			return ""
		})
		// harness self check: the SQL literal spelling denotes s
		add("harness: HEX(literal)", "HEX("+sqlStr(s)+")", func(v any) string {
			if got, _ := strOf(v); !strings.EqualFold(got, fmt.Sprintf("%x", s)) {
				return fmt.Sprintf("harness error: literal %s denotes %s", sqlStr(s), got)
			}
			return ""
		})

		runBatch(rt.Fatalf, exprs, ctx)

		dep := d.depth()
		st.Class(fmt.Sprintf("doc-depth:%d", dep))
		st.Class(fmt.Sprintf("max-path-len:%d", maxPath))
		esc := d.needsEscape() || strNeedsEscape(s)
		if esc {
			st.Class("string-needing-escape")
		}
		if dep >= 2 && maxPath >= 2 || esc {
			st.NonTrivial(map[string]any{"d": d.String(), "s": s, "maxPath": maxPath}, d.String(), s, ctx)
		}
	})
}

// ---------------------------------------------------------------------------------------
// (2) comparison: total order consistent with equality, ORDER BY on a JSON column

func clone(n *node) *node {
	c := *n
	c.arr = nil
	c.vals = nil
	c.keys = append([]string(nil), n.keys...)
	for _, x := range n.arr {
		c.arr = append(c.arr, clone(x))
	}
	for _, x := range n.vals {
		c.vals = append(c.vals, clone(x))
	}
	return &c
}

// mutate edits a clone a little: equal re-spellings (key order, number spelling) and small changes.
func (g *gen) mutate(n *node, lbl string) {
	rt := g.rt
	switch n.kind {
	case kArr:
		if len(n.arr) > 0 && rapid.Bool().Draw(rt, lbl+"down") {
			g.mutate(n.arr[rapid.IntRange(0, len(n.arr)-1).Draw(rt, lbl+"i")], lbl)
			return
		}
		switch rapid.IntRange(0, 2).Draw(rt, lbl+"op") {
		case 0:
			n.arr = append(n.arr, g.scalar(lbl+"new"))
		case 1:
			if len(n.arr) > 0 {
				n.arr = n.arr[:len(n.arr)-1]
			}
		case 2:
			if len(n.arr) > 1 {
				n.arr[0], n.arr[1] = n.arr[1], n.arr[0]
			}
		}
	case kObj:
		if len(n.keys) > 0 && rapid.Bool().Draw(rt, lbl+"down") {
			g.mutate(n.vals[rapid.IntRange(0, len(n.keys)-1).Draw(rt, lbl+"i")], lbl)
			return
		}
		switch rapid.IntRange(0, 3).Draw(rt, lbl+"op") {
		case 0, 1: // same object, other key order in the text
			for i, j := 0, len(n.keys)-1; i < j; i, j = i+1, j-1 {
				n.keys[i], n.keys[j] = n.keys[j], n.keys[i]
				n.vals[i], n.vals[j] = n.vals[j], n.vals[i]
			}
		case 2:
			k := rapid.SampledFrom(keyPool).Draw(rt, lbl+"key")
			if n.child(k) == nil {
				n.keys = append(n.keys, k)
				n.vals = append(n.vals, g.scalar(lbl+"new"))
			}
		case 3:
			if len(n.keys) > 0 {
				n.keys = n.keys[:len(n.keys)-1]
				n.vals = n.vals[:len(n.vals)-1]
			}
		}
	case kNum:
		// another spelling / a neighbouring value
		r := n.rat()
		if r.IsInt() && rapid.Bool().Draw(rt, lbl+"respell") {
			t := r.Num().String()
			switch rapid.IntRange(0, 2).Draw(rt, lbl+"sp") {
			case 0:
				t += ".0"
			case 1:
				t += "e0"
			}
			if printLossy(t) && kf.Listed(kfPrintDouble) || g.noHugeDouble && hugeDouble(t) {
				return
			}
			n.num = t
			return
		}
		n.num = g.num(lbl + "num")
	default:
		*n = *g.scalar(lbl + "sc")
	}
}

func TestC32Compare(t *testing.T) {
	st := stats.New("C32", "compare")
	defer st.Flush()
	rapid.Check(t, func(rt *rapid.T) {
		st.Eval()
		g := &gen{rt: rt, excluded: st.Excluded, noHugeDouble: kf.Listed(kfCmpRange)}
		n := rapid.IntRange(3, 6).Draw(rt, "n")
		docs := []*node{g.top(2, "d0")}
		for len(docs) < n {
			if rapid.IntRange(0, 3).Draw(rt, "fresh") == 0 {
				docs = append(docs, g.doc(2, "d"))
				continue
			}
			c := clone(docs[rapid.IntRange(0, len(docs)-1).Draw(rt, "src")])
			g.mutate(c, "m")
			docs = append(docs, c)
		}
		texts := make([]string, n)
		var vals []string
		for i, d := range docs {
			texts[i] = d.text(style{uesc: rapid.Bool().Draw(rt, "uesc")})
			vals = append(vals, fmt.Sprintf("(%d, %s)", i, sqlStr(texts[i])))
		}
		show := func() string {
			var sb strings.Builder
			for i, x := range texts {
				fmt.Fprintf(&sb, "\n  doc %d: %s", i, x)
			}
			return sb.String()
		}
		f := fx.New(fx.Opts{})
		defer f.Close()
		s := f.NewSession("", "", "")
		s.MustExec(rt.Fatalf, "CREATE TABLE t (i INT PRIMARY KEY, j JSON)", "INSERT INTO t VALUES "+strings.Join(vals, ", "))
		r := s.Exec("SELECT a.i, b.i, a.j < b.j, a.j = b.j, a.j > b.j, a.j <= b.j, a.j >= b.j, a.j <> b.j FROM t a, t b")
		if !r.OK() || len(r.Rows) != n*n {
			rt.Fatalf("comparison matrix failed: %s\n%s%s", r, r.Stack, show())
		}
		type cell struct{ lt, eq, gt bool }
		m := make([][]cell, n)
		for i := range m {
			m[i] = make([]cell, n)
		}
		for _, row := range fx.NormRows(r.Schema, r.Rows) {
			var a, b int
			fmt.Sscanf(row[0], "n:%d", &a)
			fmt.Sscanf(row[1], "n:%d", &b)
			bit := func(k int) bool {
				switch row[k] {
				case "n:1":
					return true
				case "n:0":
					return false
				}
				rt.Fatalf("comparison of doc %d with doc %d yields %s (column %d), not TRUE/FALSE%s", a, b, row[k], k, show())
				return false
			}
			c := cell{bit(2), bit(3), bit(4)}
			m[a][b] = c
			cnt := 0
			for _, x := range []bool{c.lt, c.eq, c.gt} {
				if x {
					cnt++
				}
			}
			if cnt != 1 {
				rt.Fatalf("not exactly one of <, =, > holds for doc %d vs doc %d: lt=%v eq=%v gt=%v%s", a, b, c.lt, c.eq, c.gt, show())
			}
			if le, ge, ne := bit(5), bit(6), bit(7); le != (c.lt || c.eq) || ge != (c.gt || c.eq) || ne == c.eq {
				rt.Fatalf("<=, >=, <> disagree with <, =, > for doc %d vs doc %d: %v%s", a, b, row, show())
			}
		}
		le := func(a, b int) bool { return m[a][b].lt || m[a][b].eq }
		sameTypePair, eqOtherText := false, false
		for a := 0; a < n; a++ {
			for b := 0; b < n; b++ {
				if want := refEq(docs[a], docs[b]); m[a][b].eq != want {
					rt.Fatalf("doc %d = doc %d is %v, but document equality is %v%s", a, b, m[a][b].eq, want, show())
				}
				if m[a][b].lt != m[b][a].gt || m[a][b].eq != m[b][a].eq {
					rt.Fatalf("comparison not antisymmetric for docs %d, %d: %+v vs %+v%s", a, b, m[a][b], m[b][a], show())
				}
				if a != b && docs[a].kind == docs[b].kind && docs[a].kind >= kNum && !m[a][b].eq {
					sameTypePair = true
				}
				if a < b && m[a][b].eq && texts[a] != texts[b] {
					eqOtherText = true
				}
				for c := 0; c < n; c++ {
					if le(a, b) && le(b, c) && !le(a, c) {
						rt.Fatalf("comparison not transitive: doc %d <= doc %d <= doc %d but not doc %d <= doc %d%s", a, b, c, a, c, show())
					}
				}
			}
		}
		// ORDER BY on the JSON column is sorted with respect to the same comparison
		for _, dir := range []string{"", " DESC"} {
			q := "SELECT i FROM t ORDER BY j" + dir + ", i" + dir
			ro := s.Exec(q)
			if !ro.OK() || len(ro.Rows) != n {
				rt.Fatalf("%s failed: %s%s", q, ro, show())
			}
			var seq []int
			for _, row := range fx.NormRows(ro.Schema, ro.Rows) {
				var i int
				fmt.Sscanf(row[0], "n:%d", &i)
				seq = append(seq, i)
			}
			for k := 1; k < n; k++ {
				a, b := seq[k-1], seq[k]
				if dir != "" {
					a, b = b, a
				}
				if !le(a, b) || m[a][b].eq && a > b {
					rt.Fatalf("%s returns %v: doc %d is placed before doc %d against the comparison operators%s", q, seq, seq[k-1], seq[k], show())
				}
			}
		}
		// the same comparison on CAST values (not read from a table)
		a, b := rapid.IntRange(0, n-1).Draw(rt, "ca"), rapid.IntRange(0, n-1).Draw(rt, "cb")
		ja, jb := "CAST("+sqlStr(texts[a])+" AS JSON)", "CAST("+sqlStr(texts[b])+" AS JSON)"
		rc := s.Exec(fmt.Sprintf("SELECT %s < %s, %s = %s, %s > %s", ja, jb, ja, jb, ja, jb))
		want := fmt.Sprintf("ROWS[n:%d,n:%d,n:%d]", b2i(m[a][b].lt), b2i(m[a][b].eq), b2i(m[a][b].gt))
		if rc.String() != want {
			rt.Fatalf("CAST values compare differently from the stored documents %d, %d: %s, stored: %s%s", a, b, rc, want, show())
		}
		if sameTypePair {
			st.NonTrivial(map[string]any{"docs": texts}, texts)
		}
		st.Class(fmt.Sprintf("docs:%d", n))
		if eqOtherText {
			st.Class("equal-pair-with-different-text")
		}
		if sameTypePair {
			st.Class("unequal-pair-of-same-json-type")
		}
		for _, d := range docs {
			st.Class("root-kind:" + []string{"null", "bool", "number", "string", "array", "object"}[d.kind])
		}
	})
}

func b2i(b bool) int {
	if b {
		return 1
	}
	return 0
}

// ---------------------------------------------------------------------------------------
// (6) at package level: internal/strings Quote / Unquote

func TestC32Quote(t *testing.T) {
	st := stats.New("C32", "quote")
	defer st.Flush()
	rapid.Check(t, func(rt *rapid.T) {
		st.Eval()
		var s string
		switch rapid.IntRange(0, 2).Draw(rt, "src") {
		case 0:
			s = rapid.String().Draw(rt, "s") // valid UTF-8 by construction
		case 1:
			s = rapid.StringOfN(rapid.SampledFrom(strRunes), 0, 12, -1).Draw(rt, "s")
		default:
			s = genString(rt, "s")
		}
		q := gmsstrings.Quote(s)
		u, err := gmsstrings.Unquote(q)
		if err != nil || u != s {
			rt.Fatalf("Unquote(Quote(%q)) = %q, %v (Quote gives %q)", s, u, err, q)
		}
		ub, err := gmsstrings.UnquoteBytes([]byte(q))
		if err != nil || string(ub) != s {
			rt.Fatalf("UnquoteBytes(Quote(%q)) = %q, %v (Quote gives %q)", s, ub, err, q)
		}
		// the quoted form is a JSON string literal denoting s
		var back string
		if err := json.Unmarshal([]byte(q), &back); err != nil || back != s {
			rt.Fatalf("Quote(%q) = %q is not the JSON string literal of the input (parses to %q, %v)", s, q, back, err)
		}
		if strNeedsEscape(s) {
			st.NonTrivial(s, s)
		}
	})
}
