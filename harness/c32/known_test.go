package c32

import (
	"fmt"
	"testing"

	"github.com/dolthub/go-mysql-server/vh/internal/fx"
	"github.com/dolthub/go-mysql-server/vh/internal/kf"
	"github.com/dolthub/go-mysql-server/vh/internal/stats"
)

// witness is one fixed instance of a law of C32 that lies in a region the random search
// excludes by construction because of a finding. The law is evaluated as usual; a deviation is
// only tolerated when the finding is listed as known.
type witness struct {
	id   string // finding id
	what string
	sql  string // one expression
	chk  func(v any) string
	// errOK: the expression may fail with an ordinary error instead (e.g. input rejected)
	errOK bool
}

func num(text string, exact bool) *node { return &node{kind: kNum, num: text, exact: exact} }

func knownWitnesses() []witness {
	var ws []witness
	add := func(id, what, sql string, chk func(v any) string) {
		ws = append(ws, witness{id: id, what: what, sql: sql, chk: chk})
	}

	// --- numbers -----------------------------------------------------------------------------
	// (the printed form is inspected directly: JSON_VALID(<failing expression>) is 0, not an error)
	validText := func(v any) string {
		txt, ok := strOf(v)
		if !ok {
			return "printed form is not a string: " + txt
		}
		if p, err := parseOrdered(txt); err != nil {
			return fmt.Sprintf("printed form %q does not parse: %v", txt, err)
		} else if !parsedNumbersOK(p) {
			return fmt.Sprintf("printed form %q holds a number outside the double range", txt)
		}
		return ""
	}
	ws = append(ws, witness{id: kfFloatOverflow, what: "a JSON number outside the double range is rejected or prints as valid JSON",
		sql: "CAST(CAST('" + overflowNum + "' AS JSON) AS CHAR)", chk: validText, errOK: true})
	ws = append(ws, witness{id: kfFloatOverflow, what: "same inside a document",
		sql: "CAST(CAST('[1, -1e999]' AS JSON) AS CHAR)", chk: validText, errOK: true})
	for _, t := range []string{"9223372036854775808.0", "9223372036854775807.0", "1.2345678901234567e19", "9.3e18"} {
		j := "CAST('" + t + "' AS JSON)"
		add("C32-print-double-2p63", "text round trip of the double "+t, "CAST(CAST("+j+" AS CHAR) AS JSON) = "+j, wantInt(1))
		add("C32-print-double-2p63", "text round trip of the double "+t+" (value)", "CAST(CAST("+j+" AS CHAR) AS JSON)", wantJSON(num(t, false)))
	}
	add("C32-cmp-int-double-range", "2^53 (integer) < 1e19 (double)", "CAST('9007199254740992' AS JSON) < CAST('1e19' AS JSON)", wantInt(1))
	add("C32-cmp-int-double-range", "1e19 (double) > 2^53 (integer)", "CAST('1e19' AS JSON) > CAST('9007199254740992' AS JSON)", wantInt(1))
	add("C32-cmp-int-double-range", "-2^53-1 (integer) > -1e19 (double)", "CAST('-9007199254740993' AS JSON) > CAST('-1e19' AS JSON)", wantInt(1))
	add("C32-cmp-int-double-range", "2^64-1 (integer) < 2^64 (double)", "CAST('18446744073709551615' AS JSON) < CAST('18446744073709551616' AS JSON)", wantInt(1))
	add("C32-cmp-int-double-range", "7 (integer set by JSON_SET) < 1e19", "JSON_EXTRACT(JSON_SET('[0]', '$[0]', 7), '$[0]') < CAST('1e19' AS JSON)", wantInt(1))

	// --- read functions: last, auto-wrapping ------------------------------------------------------
	add("C32-read-last", "JSON_EXTRACT(JSON_SET(d,p,v),p) = v with p = $[last]", "JSON_EXTRACT(JSON_SET('[1,2,3]', '$[last]', 9), '$[last]')", wantJSON(num("9", true)))
	add("C32-read-last", "same with p = $.a[last-1]", "JSON_EXTRACT(JSON_SET('{\"a\":[1,2,3]}', '$.a[last-1]', 9), '$.a[last-1]')", wantJSON(num("9", true)))
	add("C32-read-last", "JSON_CONTAINS_PATH(JSON_REMOVE(d,p),'one',p) with p = $[last]: the new last cell exists", "JSON_CONTAINS_PATH(JSON_REMOVE('[1,2,3]', '$[last]'), 'one', '$[last]')", wantInt(1))
	add("C32-read-last", "JSON_LENGTH(JSON_ARRAY_APPEND(d,p,v),p) with p = $[last]", "JSON_LENGTH(JSON_ARRAY_APPEND('[1,[2]]', '$[last]', 3), '$[last]')", wantInt(2))
	add("C32-read-autowrap", "JSON_EXTRACT(JSON_SET(d,p,v),p) = v with p = $.a[0] on a scalar member", "JSON_EXTRACT(JSON_SET('{\"a\":1}', '$.a[0]', 9), '$.a[0]')", wantJSON(num("9", true)))
	add("C32-read-autowrap", "same at the root", "JSON_EXTRACT(JSON_SET('1', '$[0]', 9), '$[0]')", wantJSON(num("9", true)))
	add("C32-read-autowrap", "JSON_LENGTH(JSON_ARRAY_APPEND(d,p,v),p) with p = $.a[0] on a scalar member", "JSON_LENGTH(JSON_ARRAY_APPEND('{\"a\":1}', '$.a[0]', 2), '$.a[0]')", wantInt(1))

	// --- decimals are dropped when a document is cloned ----------------------------------------------
	add("C32-decimal-clone", "JSON_ARRAY_APPEND keeps the old elements (decimal element)", "JSON_EXTRACT(JSON_ARRAY_APPEND(JSON_ARRAY(1.5), '$', 2), '$[0]')", wantJSON(num("1.5", true)))
	add("C32-decimal-clone", "JSON_EXTRACT(JSON_SET(d,p,v),p) = v with d = JSON_SET(..., 1.5) and p an ancestor-free sibling",
		"JSON_EXTRACT(JSON_SET(JSON_SET('{}', '$.a', 1.5), '$.b', 1), '$.a')", wantJSON(num("1.5", true)))

	// --- member names in paths -----------------------------------------------------------------------
	for _, k := range []string{"", `a"b`, `a\b`, "a[0]", "a]", "*", "$", "a:b", "a,b", "a?b", "a.b", "a b", "é", "1a"} {
		id := "C32-path-quoted-name"
		if k == "" {
			id = "C32-path-empty-name"
		}
		d := &node{kind: kObj, keys: []string{k, "zz"}, vals: []*node{num("1", false), num("2", false)}}
		p := sqlStr(path{{isKey: true, key: k, quote: true}}.render(true))
		dj := d.asJSON(style{})
		what := fmt.Sprintf("member name %q: ", k)
		add(id, what+"JSON_EXTRACT(JSON_SET(d,p,v),p) = v (existing member)", fmt.Sprintf("JSON_EXTRACT(JSON_SET(%s, %s, 9), %s)", dj, p, p), wantJSON(num("9", true)))
		add(id, what+"JSON_SET replaces the member", fmt.Sprintf("JSON_LENGTH(JSON_SET(%s, %s, 9))", dj, p), wantInt(2))
		add(id, what+"JSON_EXTRACT(JSON_SET(d,p,v),p) = v (new member)", fmt.Sprintf("JSON_EXTRACT(JSON_SET('{\"zz\":2}', %s, 9), %s)", p, p), wantJSON(num("9", true)))
		add(id, what+"JSON_CONTAINS_PATH(JSON_REMOVE(d,p),'one',p) = 0", fmt.Sprintf("JSON_CONTAINS_PATH(JSON_REMOVE(%s, %s), 'one', %s)", dj, p, p), wantInt(0))
		add(id, what+"JSON_REMOVE removes the member", fmt.Sprintf("JSON_LENGTH(JSON_REMOVE(%s, %s))", dj, p), wantInt(1))
		add(id, what+"JSON_LENGTH(JSON_ARRAY_APPEND(d,p,v),p) = 2", fmt.Sprintf("JSON_LENGTH(JSON_ARRAY_APPEND(%s, %s, 3), %s)", dj, p, p), wantInt(2))
		// the name in second position
		d2 := &node{kind: kObj, keys: []string{"zz"}, vals: []*node{d}}
		p2 := sqlStr(path{{isKey: true, key: "zz"}, {isKey: true, key: k, quote: true}}.render(true))
		add(id, what+"JSON_EXTRACT(JSON_SET(d,p,v),p) = v (nested)", fmt.Sprintf("JSON_EXTRACT(JSON_SET(%s, %s, 9), %s)", d2.asJSON(style{}), p2, p2), wantJSON(num("9", true)))
	}
	for _, k := range []string{"é", "日本", "ß1"} {
		p := sqlStr("$." + k)
		add("C32-path-unquoted-unicode", fmt.Sprintf("unquoted identifier member name %q: JSON_EXTRACT(JSON_SET(d,p,v),p) = v", k),
			fmt.Sprintf("JSON_EXTRACT(JSON_SET('{}', %s, 9), %s)", p, p), wantJSON(num("9", true)))
	}
	return ws
}

func TestC32Known(t *testing.T) {
	st := stats.New("C32", "witness")
	defer st.Flush()
	held, deviated := map[string]int{}, map[string]int{}
	defer func() {
		for id := range held {
			if deviated[id] == 0 {
				t.Logf("STALE: finding %s is listed but all of its %d witnesses now satisfy the property", id, held[id])
			}
		}
	}()
	for _, w := range knownWitnesses() {
		st.Eval()
		f := fx.New(fx.Opts{})
		r := f.NewSession("", "", "").Exec("SELECT " + w.sql)
		f.Close()
		msg := ""
		switch {
		case r.Panic != nil || r.TimedOut:
			msg = r.String()
		case r.Err != nil:
			if !w.errOK {
				msg = r.String()
			}
		case len(r.Rows) != 1:
			msg = r.String()
		default:
			msg = w.chk(r.Rows[0][0])
		}
		if msg == "" {
			st.Class("witness-holds:" + w.id)
			if kf.Listed(w.id) {
				held[w.id]++
			}
			continue
		}
		deviated[w.id]++
		st.Class("witness-deviates:" + w.id)
		st.NonTrivial(nil, w.sql)
		if kf.Suppress(st, w.id) {
			t.Logf("known finding %s: %s\n    SELECT %s\n    -> %s", w.id, w.what, w.sql, msg)
			continue
		}
		t.Errorf("%s (region of %s): SELECT %s\n    -> %s", w.what, w.id, w.sql, msg)
	}
}

// TestReplayC32 runs the SQL witness scripts in /verif/replays/C32.
func TestReplayC32(t *testing.T) {
	st := stats.New("C32", "replay")
	defer st.Flush()
	fx.ReplayDir(t, st)
}
