// Package c32 checks property C32: JSON values round-trip and path functions obey
// their laws. This file holds the harness-side document model: generated JSON trees,
// their rendering to JSON text / SQL, the reference notion of equality, JSON paths into a
// tree and the comparison of engine values with reference trees.
package c32

import (
	"context"
	"encoding/json"
	"fmt"
	"io"
	"math"
	"math/big"
	"strconv"
	"strings"
	"unicode"
	"unicode/utf8"

	"github.com/cockroachdb/apd/v3"
	"github.com/dolthub/go-mysql-server/sql"
	"github.com/dolthub/go-mysql-server/vh/internal/kf"
	"pgregory.net/rapid"
)

type kind int

const (
	kNull kind = iota
	kBool
	kNum
	kStr
	kArr
	kObj
)

// node is a reference JSON value. Objects keep their keys in generated (text) order and
// never hold duplicate keys.
type node struct {
	kind  kind
	b     bool
	num   string // JSON / SQL number text
	exact bool   // number came from an SQL exact literal (integer/decimal): value is the text read exactly
	s     string
	arr   []*node
	keys  []string
	vals  []*node
}

func (n *node) child(key string) *node {
	for i, k := range n.keys {
		if k == key {
			return n.vals[i]
		}
	}
	return nil
}

func (n *node) depth() int {
	d := 0
	switch n.kind {
	case kArr:
		for _, c := range n.arr {
			if x := c.depth() + 1; x > d {
				d = x
			}
		}
		if d == 0 {
			d = 1
		}
	case kObj:
		for _, c := range n.vals {
			if x := c.depth() + 1; x > d {
				d = x
			}
		}
		if d == 0 {
			d = 1
		}
	}
	return d
}

// needsEscape reports whether some string (value or key) in the tree needs a JSON escape.
func (n *node) needsEscape() bool {
	switch n.kind {
	case kStr:
		return strNeedsEscape(n.s)
	case kArr:
		for _, c := range n.arr {
			if c.needsEscape() {
				return true
			}
		}
	case kObj:
		for i, c := range n.vals {
			if strNeedsEscape(n.keys[i]) || c.needsEscape() {
				return true
			}
		}
	}
	return false
}

func strNeedsEscape(s string) bool {
	for i := 0; i < len(s); i++ {
		if s[i] < 0x20 || s[i] == '"' || s[i] == '\\' {
			return true
		}
	}
	return false
}

// ---------------------------------------------------------------------------------------
// numbers

// numVal is the exact value the engine must hold for a number. For JSON text the rule is
// MySQL's: an integer literal that fits int64 or uint64 is exact, everything else is the
// nearest double. ok=false when the text overflows a double (excluded region, C32-float-overflow).
func numVal(text string, exact bool) (*big.Rat, bool) {
	if exact {
		r, ok := new(big.Rat).SetString(text)
		return r, ok
	}
	if !strings.ContainsAny(text, ".eE") {
		if i, ok := new(big.Int).SetString(text, 10); ok {
			if i.IsInt64() || i.IsUint64() {
				return new(big.Rat).SetInt(i), true
			}
		}
	}
	f, err := strconv.ParseFloat(text, 64)
	if err != nil || math.IsInf(f, 0) || math.IsNaN(f) {
		return nil, false
	}
	return new(big.Rat).SetFloat64(f), true
}

func (n *node) rat() *big.Rat {
	r, ok := numVal(n.num, n.exact)
	if !ok {
		panic("harness: number outside the generated domain: " + n.num)
	}
	return r
}

// ---------------------------------------------------------------------------------------
// reference equality (document equality: same structure, object keys as sets, numbers by value)

func refEq(a, b *node) bool {
	if a.kind != b.kind {
		return false
	}
	switch a.kind {
	case kNull:
		return true
	case kBool:
		return a.b == b.b
	case kNum:
		return a.rat().Cmp(b.rat()) == 0
	case kStr:
		return a.s == b.s
	case kArr:
		if len(a.arr) != len(b.arr) {
			return false
		}
		for i := range a.arr {
			if !refEq(a.arr[i], b.arr[i]) {
				return false
			}
		}
		return true
	case kObj:
		if len(a.keys) != len(b.keys) {
			return false
		}
		for i, k := range a.keys {
			c := b.child(k)
			if c == nil || !refEq(a.vals[i], c) {
				return false
			}
		}
		return true
	}
	return false
}

// ---------------------------------------------------------------------------------------
// rendering

type style struct {
	uesc bool // escape every non-ASCII rune (and '/') as \uXXXX
	ws   bool // insert insignificant white space
}

func renderStr(sb *strings.Builder, s string, st style) {
	sb.WriteByte('"')
	for _, r := range s {
		switch {
		case r == '"':
			sb.WriteString(`\"`)
		case r == '\\':
			sb.WriteString(`\\`)
		case r == '\n' && !st.uesc:
			sb.WriteString(`\n`)
		case r == '\t' && !st.uesc:
			sb.WriteString(`\t`)
		case r < 0x20:
			fmt.Fprintf(sb, `\u%04x`, r)
		case r == '/' && st.uesc:
			sb.WriteString(`\/`)
		case r >= 0x80 && st.uesc:
			if r >= 0x10000 {
				r -= 0x10000
				fmt.Fprintf(sb, `\u%04X\u%04x`, 0xd800+(r>>10), 0xdc00+(r&0x3ff))
			} else {
				fmt.Fprintf(sb, `\u%04x`, r)
			}
		default:
			sb.WriteRune(r)
		}
	}
	sb.WriteByte('"')
}

func (n *node) render(sb *strings.Builder, st style) {
	sp := func() {
		if st.ws {
			sb.WriteString(" ")
		}
	}
	switch n.kind {
	case kNull:
		sb.WriteString("null")
	case kBool:
		if n.b {
			sb.WriteString("true")
		} else {
			sb.WriteString("false")
		}
	case kNum:
		sb.WriteString(n.num)
	case kStr:
		renderStr(sb, n.s, st)
	case kArr:
		sb.WriteByte('[')
		for i, c := range n.arr {
			if i > 0 {
				sb.WriteByte(',')
				if st.ws {
					sb.WriteString("\n\t")
				}
			}
			c.render(sb, st)
		}
		sp()
		sb.WriteByte(']')
	case kObj:
		sb.WriteByte('{')
		for i, c := range n.vals {
			if i > 0 {
				sb.WriteByte(',')
			}
			sp()
			renderStr(sb, n.keys[i], st)
			sp()
			sb.WriteByte(':')
			sp()
			c.render(sb, st)
		}
		sb.WriteByte('}')
	}
}

func (n *node) text(st style) string {
	var sb strings.Builder
	n.render(&sb, st)
	return sb.String()
}

func (n *node) String() string { return n.text(style{}) }

// sqlStr renders a Go string as a MySQL string literal (sql_mode default: backslash escapes on).
func sqlStr(s string) string {
	var sb strings.Builder
	sb.WriteByte('\'')
	for i := 0; i < len(s); i++ {
		switch c := s[i]; c {
		case '\\':
			sb.WriteString(`\\`)
		case '\'':
			sb.WriteString(`''`)
		case 0:
			sb.WriteString(`\0`)
		case '\n':
			sb.WriteString(`\n`)
		case '\r':
			sb.WriteString(`\r`)
		case 0x1a:
			sb.WriteString(`\Z`)
		default:
			sb.WriteByte(c)
		}
	}
	sb.WriteByte('\'')
	return sb.String()
}

// asJSON renders the tree as an SQL expression of type JSON.
func (n *node) asJSON(st style) string { return "CAST(" + sqlStr(n.text(st)) + " AS JSON)" }

// ---------------------------------------------------------------------------------------
// generators

// Keys: "tame" keys may be used as path legs; the others only appear inside documents
// (regions of the path-syntax findings, see notes/C32.md).
var keyPool = []string{"a", "b", "A", "aa", "ab", "ba", "k1", "_x", "B", "a b", "é", "日本", "1a", "a-b", "a.b", "abc", "a]", "a:b", "a,b", "a?b",
	"", `a"b`, `a\b`, "a[0]", "*", "$", "a\nb"}

// tameKey: the key can be addressed by a quoted path member in every JSON function.
func tameKey(k string) bool {
	if k == "" {
		return false
	}
	for i := 0; i < len(k); i++ {
		if k[i] < 0x20 || strings.IndexByte("\"\\[*$", k[i]) >= 0 {
			return false
		}
	}
	return true
}

// legKey reports whether member name k may be used as a path leg: tame names always; the
// empty name and names holding " \ [ * $ only while the finding that covers them is not
// listed (counted as excluded otherwise); names with control characters never.
func (g *gen) legKey(k string) bool {
	if tameKey(k) {
		return true
	}
	id := kfPathQuotedName
	if k == "" {
		id = kfPathEmptyName
	}
	for i := 0; i < len(k); i++ {
		if k[i] < 0x20 {
			return false
		}
	}
	if kf.Listed(id) {
		if g.excluded != nil {
			g.excluded(id)
		}
		return false
	}
	return true
}

// identKey: the name may be written without quotes in a path. Non-ASCII identifiers are
// written unquoted only while C32-path-unquoted-unicode is not listed.
func identKey(k string) bool {
	if plainIdent(k) {
		return true
	}
	if k == "" || kf.Listed(kfPathUnicode) {
		return false
	}
	for i, r := range k {
		if r == '_' || unicode.IsLetter(r) || i > 0 && unicode.IsDigit(r) {
			continue
		}
		return false
	}
	return true
}

func plainIdent(k string) bool {
	if k == "" {
		return false
	}
	for i := 0; i < len(k); i++ {
		c := k[i]
		if c == '_' || c >= 'a' && c <= 'z' || c >= 'A' && c <= 'Z' || i > 0 && c >= '0' && c <= '9' {
			continue
		}
		return false
	}
	return true
}

var strPool = []string{"", "a", "A", "ab", "b", `a"b`, `a\b`, "é", "😀", "a\x00b", "\x01\x1f", "\n\t\r\b\f", "\x7f",
	"  ", "/", "</script>", "<>&", "a'b", "null", "1", "日本語", "�", "\U0010ffff", "  ", `A`, `"`, `\`, `\"`,
	"a\x1ab", "\\\\", `"quoted"`, "{\"a\":1}"}

var strRunes = []rune{'a', 'b', 'A', '"', '\\', '\'', '/', ' ', 0, 1, '\n', '\t', 0x1f, 0x7f, 0x80, 'é', 'ß', 0x7ff, 0x800, '日', 0xd7ff, 0xe000,
	0xfffd, 0xffff, 0x10000, '😀', 0x10ffff, 'u', '0', '{', '[', ','}

func genString(rt *rapid.T, lbl string) string {
	if rapid.IntRange(0, 2).Draw(rt, lbl+"src") == 0 {
		return rapid.StringOfN(rapid.SampledFrom(strRunes), 0, 6, -1).Draw(rt, lbl)
	}
	return rapid.SampledFrom(strPool).Draw(rt, lbl)
}

// Proposed finding ids (notes/C32.findings.json). A region is kept out of the random search
// only while its id is listed (kf.Listed); otherwise it is generated and a violation fails.
const (
	kfFloatOverflow  = "C32-float-overflow"
	kfPrintDouble    = "C32-print-double-2p63"
	kfCmpRange       = "C32-cmp-int-double-range"
	kfDecimalClone   = "C32-decimal-clone"
	kfReadLast       = "C32-read-last"
	kfReadAutowrap   = "C32-read-autowrap"
	kfPathEmptyName  = "C32-path-empty-name"
	kfPathQuotedName = "C32-path-quoted-name"
	kfPathUnicode    = "C32-path-unquoted-unicode"
)

// overflowNum is the region of finding C32-float-overflow (a JSON number outside the double range).
const overflowNum = "1e400"

var numPool = []string{"0", "1", "-1", "2", "10", "-0", "1.0", "1.5", "-1.5", "1e0", "1E2", "1.5e3", "0.1", "1e-7", "0.0", "-0.0",
	"123456789012", "9007199254740991", "9007199254740992", "9007199254740993", "9007199254740993.0", "-9007199254740993",
	"9223372036854775807", "9223372036854775808", "9223372036854775809", "9223372036854775808.0", "9223372036854775807.0",
	"-9223372036854775808", "-9223372036854775809", "-9223372036854775808.0", "18446744073709551615", "18446744073709551616",
	"18446744073709551615.0", "1e19", "1.7976931348623157e308", "5e-324", "2.5e-3", "100000000000000000000000", "1e+2", "0e0",
	overflowNum, "-1e999"}

func genNum(rt *rapid.T, lbl string, excluded func(string)) string {
	switch rapid.IntRange(0, 3).Draw(rt, lbl+"src") {
	case 0:
		return strconv.FormatInt(rapid.Int64().Draw(rt, lbl), 10)
	case 1:
		return fmt.Sprintf("%d.%d", rapid.IntRange(-50, 50).Draw(rt, lbl+"i"), rapid.IntRange(0, 999).Draw(rt, lbl+"f"))
	}
	t := rapid.SampledFrom(numPool).Draw(rt, lbl)
	if _, ok := numVal(t, false); !ok {
		// A number outside the double range never enters a generated document: the required
		// behaviour is "rejected or printed as valid JSON", so no reference tree exists. The
		// witnesses of TestC32Known cover it in both states of the finding.
		if excluded != nil && kf.Listed(kfFloatOverflow) {
			excluded(kfFloatOverflow)
		}
		return "1e300"
	}
	if printLossy(t) && kf.Listed(kfPrintDouble) {
		if excluded != nil {
			excluded(kfPrintDouble)
		}
		return "1e19"
	}
	return t
}

// printLossy is the signature of finding C32-print-double-2p63: the number is held as a
// double in [2^63, 2^64) whose shortest decimal digits (what the printer emits, zero padded)
// are not its exact value, so that the printed integer parses back as a different uint64.
func printLossy(text string) bool {
	if !strings.ContainsAny(text, ".eE") {
		if i, ok := new(big.Int).SetString(text, 10); ok && (i.IsInt64() || i.IsUint64()) {
			return false
		}
	}
	f, err := strconv.ParseFloat(text, 64)
	if err != nil || f < 9223372036854775808.0 || f >= 18446744073709551616.0 {
		return false
	}
	printed, _ := new(big.Int).SetString(strconv.FormatFloat(f, 'f', -1, 64), 10)
	exactV, _ := new(big.Float).SetFloat64(f).Int(nil)
	return printed == nil || printed.Cmp(exactV) != 0
}

type gen struct {
	rt       *rapid.T
	excluded func(string)
	// noHugeDouble keeps doubles outside the int64 range out of the documents (comparison
	// part: region of finding C32-cmp-int-double-range).
	noHugeDouble bool
}

// hugeDouble: the number is held as a double f with f >= 2^63 or f < -2^63.
func hugeDouble(text string) bool {
	if !strings.ContainsAny(text, ".eE") {
		if i, ok := new(big.Int).SetString(text, 10); ok && (i.IsInt64() || i.IsUint64()) {
			return false
		}
	}
	f, err := strconv.ParseFloat(text, 64)
	return err == nil && (f >= 9223372036854775808.0 || f < -9223372036854775808.0)
}

func (g *gen) num(lbl string) string {
	t := genNum(g.rt, lbl, g.excluded)
	if g.noHugeDouble && hugeDouble(t) {
		if g.excluded != nil {
			g.excluded(kfCmpRange)
		}
		return "9007199254740993.0"
	}
	return t
}

func (g *gen) scalar(lbl string) *node {
	switch rapid.IntRange(0, 6).Draw(g.rt, lbl+"k") {
	case 0:
		return &node{kind: kNull}
	case 1:
		return &node{kind: kBool, b: rapid.Bool().Draw(g.rt, lbl+"b")}
	case 2, 3:
		return &node{kind: kNum, num: g.num(lbl + "n")}
	default:
		return &node{kind: kStr, s: genString(g.rt, lbl+"s")}
	}
}

func (g *gen) doc(depth int, lbl string) *node {
	if depth <= 0 || rapid.IntRange(0, 9).Draw(g.rt, lbl+"c") < 3 {
		return g.scalar(lbl)
	}
	return g.container(depth, lbl)
}

// top draws a document that is a container most of the time.
func (g *gen) top(depth int, lbl string) *node {
	if rapid.IntRange(0, 9).Draw(g.rt, lbl+"top") == 0 {
		return g.scalar(lbl)
	}
	return g.container(depth, lbl)
}

func (g *gen) container(depth int, lbl string) *node {
	n := rapid.IntRange(0, 4).Draw(g.rt, lbl+"len")
	if rapid.Bool().Draw(g.rt, lbl+"arr") {
		a := &node{kind: kArr}
		for i := 0; i < n; i++ {
			a.arr = append(a.arr, g.doc(depth-1, lbl))
		}
		return a
	}
	o := &node{kind: kObj}
	for i := 0; i < n; i++ {
		k := rapid.SampledFrom(keyPool).Draw(g.rt, lbl+"key")
		if o.child(k) != nil {
			continue
		}
		o.keys = append(o.keys, k)
		o.vals = append(o.vals, g.doc(depth-1, lbl))
	}
	return o
}

// ---------------------------------------------------------------------------------------
// paths

type leg struct {
	isKey bool
	key   string
	idx   int // resolved index
	n     int // length of the array the leg indexes (for the last-forms)
	form  int // 0: plain index, 1: last / last-k
	over  int // the index as written is idx+over (an index past the end of the array)
	quote bool
}

type path []leg

// render: the path as written by the user (may use last-forms).
func (p path) render(resolved bool) string {
	var sb strings.Builder
	sb.WriteByte('$')
	for _, l := range p {
		if l.isKey {
			sb.WriteByte('.')
			if l.quote || !identKey(l.key) {
				sb.WriteByte('"')
				for i := 0; i < len(l.key); i++ {
					if l.key[i] == '"' || l.key[i] == '\\' {
						sb.WriteByte('\\')
					}
					sb.WriteByte(l.key[i])
				}
				sb.WriteByte('"')
			} else {
				sb.WriteString(l.key)
			}
			continue
		}
		if resolved {
			fmt.Fprintf(&sb, "[%d]", l.idx)
		} else if l.form == 0 {
			fmt.Fprintf(&sb, "[%d]", l.idx+l.over)
		} else if d := l.n - 1 - l.idx; d == 0 {
			sb.WriteString("[last]")
		} else {
			fmt.Fprintf(&sb, "[last-%d]", d)
		}
	}
	return sb.String()
}

// renderRead: the path as the read functions get it after a JSON_SET / JSON_ARRAY_APPEND with
// the written path p. While C32-read-last is listed it is the resolved path; otherwise the
// last-forms are kept (the arrays they index keep their length under both functions) and
// only an index past the end is resolved to the cell it created.
func (p path) renderRead() string {
	if kf.Listed(kfReadLast) {
		return p.render(true)
	}
	q := append(path(nil), p...)
	for i := range q {
		q[i].over = 0
	}
	return q.render(false)
}

func (p path) usesLast() bool {
	for _, l := range p {
		if !l.isKey && l.form == 1 {
			return true
		}
	}
	return false
}

// walk draws a path of at most maxLegs legs to an existing node of doc; nodes[i] is the
// node the first i legs lead to (nodes[0] = doc).
func (g *gen) walk(doc *node, maxLegs int, lbl string) (path, []*node) {
	var p path
	cur := doc
	nodes := []*node{doc}
	want := maxLegs - rapid.IntRange(0, 2*maxLegs).Draw(g.rt, lbl+"legs")/2 // biased towards long paths; shrinks towards them too
	for len(p) < want {
		switch cur.kind {
		case kObj:
			var tame []int
			for i, k := range cur.keys {
				if g.legKey(k) {
					tame = append(tame, i)
				}
			}
			if len(tame) == 0 {
				return p, nodes
			}
			i := tame[rapid.IntRange(0, len(tame)-1).Draw(g.rt, lbl+"ki")]
			p = append(p, leg{isKey: true, key: cur.keys[i], quote: rapid.Bool().Draw(g.rt, lbl+"q")})
			cur = cur.vals[i]
			nodes = append(nodes, cur)
		case kArr:
			if len(cur.arr) == 0 {
				return p, nodes
			}
			i := rapid.IntRange(0, len(cur.arr)-1).Draw(g.rt, lbl+"ai")
			p = append(p, leg{idx: i, n: len(cur.arr), form: rapid.IntRange(0, 2).Draw(g.rt, lbl+"form") / 2})
			cur = cur.arr[i]
			nodes = append(nodes, cur)
		default:
			// An index leg on a non-array ($.a[0] on a scalar; region of C32-read-autowrap) is not
			// generated in either state of the finding: under auto-wrapping the law (3) reads back
			// v[0] instead of v when v is an array, so the region needs its own oracle; the
			// witnesses of TestC32Known state it on fixed instances.
			return p, nodes
		}
	}
	return p, nodes
}

// ---------------------------------------------------------------------------------------
// engine values vs. reference trees

func evRat(v any) *big.Rat {
	switch x := v.(type) {
	case float64:
		if math.IsInf(x, 0) || math.IsNaN(x) {
			return nil
		}
		return new(big.Rat).SetFloat64(x)
	case float32:
		return new(big.Rat).SetFloat64(float64(x))
	case int64:
		return new(big.Rat).SetInt64(x)
	case int32:
		return new(big.Rat).SetInt64(int64(x))
	case int16:
		return new(big.Rat).SetInt64(int64(x))
	case int8:
		return new(big.Rat).SetInt64(int64(x))
	case int:
		return new(big.Rat).SetInt64(int64(x))
	case uint64:
		return new(big.Rat).SetUint64(x)
	case uint32:
		return new(big.Rat).SetUint64(uint64(x))
	case uint16:
		return new(big.Rat).SetUint64(uint64(x))
	case uint8:
		return new(big.Rat).SetUint64(uint64(x))
	case uint:
		return new(big.Rat).SetUint64(uint64(x))
	case *apd.Decimal:
		if x == nil {
			return nil
		}
		r, _ := new(big.Rat).SetString(x.Text('f'))
		return r
	case apd.Decimal:
		r, _ := new(big.Rat).SetString(x.Text('f'))
		return r
	case json.Number:
		r, ok := numVal(x.String(), false)
		if !ok {
			return nil
		}
		return r
	}
	return nil
}

// sameVal compares a value held by the engine (the Go tree behind a sql.JSONWrapper) with a
// reference tree: same structure, numbers by exact value.
func sameVal(ev any, n *node) bool {
	if w, ok := ev.(sql.JSONWrapper); ok {
		i, err := w.ToInterface(context.Background())
		if err != nil {
			return false
		}
		ev = i
	}
	switch n.kind {
	case kNull:
		return ev == nil
	case kBool:
		b, ok := ev.(bool)
		return ok && b == n.b
	case kStr:
		s, ok := ev.(string)
		return ok && s == n.s
	case kNum:
		r := evRat(ev)
		return r != nil && r.Cmp(n.rat()) == 0
	case kArr:
		a, ok := ev.([]interface{})
		if !ok || len(a) != len(n.arr) {
			return false
		}
		for i := range a {
			if !sameVal(a[i], n.arr[i]) {
				return false
			}
		}
		return true
	case kObj:
		m, ok := ev.(map[string]interface{})
		if !ok || len(m) != len(n.keys) {
			return false
		}
		for i, k := range n.keys {
			c, ok := m[k]
			if !ok || !sameVal(c, n.vals[i]) {
				return false
			}
		}
		return true
	}
	return false
}

// showVal prints an engine JSON value for failure messages.
func showVal(v any) string {
	if v == nil {
		return "SQL NULL"
	}
	if w, ok := v.(sql.JSONWrapper); ok {
		i, err := w.ToInterface(context.Background())
		if err != nil {
			return "error:" + err.Error()
		}
		return fmt.Sprintf("json %#v", i)
	}
	return fmt.Sprintf("%T %#v", v, v)
}

// parseOrdered parses JSON text keeping the order of object keys (numbers stay text).
func parseOrdered(text string) (*node, error) {
	if !utf8.ValidString(text) {
		return nil, fmt.Errorf("printed form is not valid UTF-8")
	}
	dec := json.NewDecoder(strings.NewReader(text))
	dec.UseNumber()
	n, err := parseTok(dec)
	if err != nil {
		return nil, err
	}
	if _, err := dec.Token(); err != io.EOF {
		return nil, fmt.Errorf("trailing data after the JSON value")
	}
	return n, nil
}

func parseTok(dec *json.Decoder) (*node, error) {
	t, err := dec.Token()
	if err != nil {
		return nil, err
	}
	switch x := t.(type) {
	case nil:
		return &node{kind: kNull}, nil
	case bool:
		return &node{kind: kBool, b: x}, nil
	case string:
		return &node{kind: kStr, s: x}, nil
	case json.Number:
		return &node{kind: kNum, num: x.String()}, nil
	case json.Delim:
		switch x {
		case '[':
			a := &node{kind: kArr}
			for dec.More() {
				c, err := parseTok(dec)
				if err != nil {
					return nil, err
				}
				a.arr = append(a.arr, c)
			}
			_, err := dec.Token()
			return a, err
		case '{':
			o := &node{kind: kObj}
			for dec.More() {
				kt, err := dec.Token()
				if err != nil {
					return nil, err
				}
				k, ok := kt.(string)
				if !ok {
					return nil, fmt.Errorf("object key is not a string")
				}
				c, err := parseTok(dec)
				if err != nil {
					return nil, err
				}
				o.keys = append(o.keys, k)
				o.vals = append(o.vals, c)
			}
			_, err := dec.Token()
			return o, err
		}
	}
	return nil, fmt.Errorf("unexpected token %v", t)
}

// keysCanonical checks that every object of a parsed printed form has its keys strictly
// increasing in MySQL's canonical order (byte length first, then bytes) - which also rules
// out duplicate keys. It returns the offending pair.
func keysCanonical(n *node) (string, string, bool) {
	switch n.kind {
	case kArr:
		for _, c := range n.arr {
			if a, b, ok := keysCanonical(c); !ok {
				return a, b, false
			}
		}
	case kObj:
		for i := 1; i < len(n.keys); i++ {
			a, b := n.keys[i-1], n.keys[i]
			if !(len(a) < len(b) || len(a) == len(b) && a < b) {
				return a, b, false
			}
		}
		for _, c := range n.vals {
			if a, b, ok := keysCanonical(c); !ok {
				return a, b, false
			}
		}
	}
	return "", "", true
}

// parsedNumbersOK: a tree obtained from parseOrdered only holds numbers inside the double range.
func parsedNumbersOK(n *node) bool {
	switch n.kind {
	case kNum:
		_, ok := numVal(n.num, false)
		return ok
	case kArr:
		for _, c := range n.arr {
			if !parsedNumbersOK(c) {
				return false
			}
		}
	case kObj:
		for _, c := range n.vals {
			if !parsedNumbersOK(c) {
				return false
			}
		}
	}
	return true
}
