package c02

import (
	"math"
	"math/big"
	"os"
	"strings"
	"testing"

	"github.com/cockroachdb/apd/v3"
	"github.com/dolthub/go-mysql-server/sql"
	"github.com/dolthub/go-mysql-server/vh/internal/fx"
	"github.com/dolthub/go-mysql-server/vh/internal/gen"
	"github.com/dolthub/go-mysql-server/vh/internal/kf"
	"github.com/dolthub/go-mysql-server/vh/internal/ref"
	"github.com/dolthub/go-mysql-server/vh/internal/stats"
	"pgregory.net/rapid"
)

// approxCols returns, per output column, whether it is an AVG (compared with tolerance).
func approxCols(q gen.Query) []bool {
	switch x := q.(type) {
	case *gen.Select:
		out := make([]bool, len(x.Items))
		for i, it := range x.Items {
			if a, ok := it.E.(*gen.Agg); ok && a.Approx() {
				out[i] = true
			}
		}
		return out
	case *gen.SetOp:
		return approxCols(x.L)
	}
	return nil
}

func parseNum(s string) (*big.Rat, bool) {
	if strings.HasPrefix(s, "n:") {
		r, ok := new(big.Rat).SetString(s[2:])
		return r, ok
	}
	if strings.HasPrefix(s, "f:") {
		r, ok := new(big.Rat).SetString(s[2:])
		return r, ok
	}
	return nil, false
}

// gotRow is an engine row in canonical form plus, per column, the absolute tolerance that
// applies when the column is an AVG: half a unit of the scale of the decimal value the engine
// returned (MySQL defines AVG of an exact argument as a DECIMAL rounded to scale+4), or 0.
type gotRow struct {
	vals []string
	tol  []float64
}

func mkGot(sch sql.Schema, rows []sql.Row) []gotRow {
	out := make([]gotRow, len(rows))
	for i, r := range rows {
		out[i].vals = fx.NormRow(sch, r)
		out[i].tol = make([]float64, len(r))
		for j, v := range r {
			if d, ok := v.(*apd.Decimal); ok && d != nil && d.Exponent < 0 {
				out[i].tol[j] = 0.5 * math.Pow(10, float64(d.Exponent)) * (1 + 1e-9)
			}
		}
	}
	return out
}

func gotVals(g []gotRow) [][]string {
	out := make([][]string, len(g))
	for i := range g {
		out[i] = g[i].vals
	}
	return out
}

// valEq compares an engine value with a reference value. Exact unless the column is an
// AVG: then |diff| <= max(1e-9*max(1,|v|), half a unit of the engine's decimal scale).
func valEq(got, want string, approx bool, decTol float64) bool {
	if fx.ValEq(got, want) {
		return true
	}
	// A number delivered as its decimal text (the engine sometimes types an expression such as
	// NULL + int, or a UNION column, as a string) is the same observable value on the wire:
	// the statement is about values, not about inferred column types.
	if strings.HasPrefix(got, "s:") && !strings.HasPrefix(want, "s:") && want != "N" {
		if r, ok := new(big.Rat).SetString(strings.TrimSpace(got[2:])); ok {
			return valEq("n:"+r.RatString(), want, approx, decTol)
		}
	}
	if !approx {
		return false
	}
	g, ok1 := parseNum(got)
	w, ok2 := parseNum(want)
	if !ok1 || !ok2 {
		return false
	}
	d := new(big.Rat).Sub(g, w)
	d.Abs(d)
	df, _ := d.Float64()
	wf, _ := w.Float64()
	tol := math.Max(1e-9*math.Max(1, math.Abs(wf)), decTol)
	return df <= tol
}

func rowEq(got gotRow, want []string, approx []bool) bool {
	if len(got.vals) != len(want) {
		return false
	}
	for i := range want {
		if !valEq(got.vals[i], want[i], approx[i], got.tol[i]) {
			return false
		}
	}
	return true
}

func multisetEq(got []gotRow, want [][]string, approx []bool) bool {
	if len(got) != len(want) {
		return false
	}
	used := make([]bool, len(want))
outer:
	for _, g := range got {
		for j, w := range want {
			if !used[j] && rowEq(g, w, approx) {
				used[j] = true
				continue outer
			}
		}
		return false
	}
	return true
}

func seqEq(got []gotRow, want [][]string, approx []bool) bool {
	if len(got) != len(want) {
		return false
	}
	for i := range got {
		if !rowEq(got[i], want[i], approx) {
			return false
		}
	}
	return true
}

func TestC02(t *testing.T) {
	st := stats.New("C02", "")
	defer st.Flush()
	maxRows := 8
	if os.Getenv("VERIF_TIER") == "thorough" {
		maxRows = 14
	}
	rapid.Check(t, func(rt *rapid.T) {
		st.Eval()
		schema := gen.GenSchema(rt, gen.SchemaOpts{MinTables: 1, MaxTables: 3, MaxRows: maxRows, Keys: true})
		g := gen.NewG(rt, schema)
		q := g.Query()
		sqlText := q.SQL()

		ev := &ref.Evaluator{}
		want := ref.Norm(ev.Rows(q))

		f := fx.New(fx.Opts{})
		defer f.Close()
		s := f.NewSession("", "", "")
		s.MustExec(rt.Fatalf, schema.DDL(true)...)
		r := s.Exec(sqlText)
		if r.Failed() && strings.Contains(r.Err.Error(), "failed to reorder join, unexpected intermediate expression") &&
			g.L["exists"] && kf.Suppress(st, "C02-reorder-join-intermediate-expr") {
			// known finding: memo join reordering fails on a join whose condition folds to
			// FALSE combined with an EXISTS subquery whose filter is always NULL
			return
		}
		if r.Failed() && strings.Contains(r.Err.Error(), "unable to find field with index") && gen.ConstConjunctInOuterOn(q) &&
			(g.L["insub"] || g.L["notinsub"] || g.L["exists"]) && kf.Suppress(st, "C02-outer-join-false-on-subquery") {
			// known finding: outer join whose ON has a constant conjunct, combined with an
			// IN / EXISTS subquery predicate, fails with a field index error
			return
		}
		if !r.OK() {
			rt.Fatalf("engine failed where the SQL definition gives a result\nschema: %s\nquery: %s\nengine: %s\n%s\nreference: %s",
				schema.Describe(), sqlText, r, r.Stack, fx.ShowSeq(want))
		}
		gotRows := mkGot(r.Schema, r.Rows)
		got := gotVals(gotRows)
		approx := approxCols(q)
		ordered := false
		if sel, ok := q.(*gen.Select); ok && len(sel.OrderBy) > 0 {
			ordered = true
		}
		okEq := false
		if ordered {
			okEq = seqEq(gotRows, want, approx)
		} else {
			okEq = multisetEq(gotRows, want, approx)
		}
		if !okEq {
			rt.Fatalf("result differs from the SQL definition (ordered=%v)\nschema: %s\nquery: %s\nengine:    %s\nreference: %s\nplan:\n%s",
				ordered, schema.Describe(), sqlText, fx.ShowSeq(got), fx.ShowSeq(want), s.Plan(sqlText))
		}
		for _, l := range g.L.Sorted() {
			st.Class(l)
		}
		for k, n := range g.Excl {
			for i := 0; i < n; i++ {
				st.Excluded(k)
			}
		}
		feat := 0
		for _, b := range []bool{ev.Tr.OuterPadded, ev.Tr.SubqueryEval > 0, ev.Tr.NullDecided, ev.Tr.BigGroup, ev.Tr.SetOverlap} {
			if b {
				feat++
			}
		}
		if len(want) > 0 {
			st.Class("nonempty")
		}
		if len(want) > 0 && feat >= 2 {
			st.NonTrivial(map[string]any{"schema": schema.Describe(), "query": sqlText, "rows": len(want)}, schema.Describe(), sqlText)
		}
	})
}

func TestReplayC02(t *testing.T) {
	st := stats.New("C02", "replay")
	defer st.Flush()
	fx.ReplayDir(t, st)
}
