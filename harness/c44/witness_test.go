package c44

import (
	"fmt"
	"strings"
	"testing"

	"github.com/dolthub/go-mysql-server/sql/variables"
	"github.com/dolthub/go-mysql-server/vh/internal/fx"
	"github.com/dolthub/go-mysql-server/vh/internal/kf"
	"github.com/dolthub/go-mysql-server/vh/internal/stats"
)

// Each witness runs a fixed history and classifies what it observes: "ok" (the property holds),
// "recorded" (the engine misbehaves exactly as the finding records), anything else = a different
// deviation, which always fails.
type witness struct {
	id      string
	observe func(f *fx.Fixture) (state, detail string)
}

func one(s *fx.Sess, q string) string {
	r := s.Exec(q)
	if !r.OK() || len(r.Rows) != 1 || len(r.Rows[0]) < 1 {
		return "!" + r.String()
	}
	return fx.Norm(r.Rows[0][len(r.Rows[0])-1], nil)
}

// setOutcome runs SET GLOBAL name = rhs and classifies: rejected / stored value.
func setOutcome(s *fx.Sess, name, rhs string) string {
	r := s.Exec("SET GLOBAL " + name + " = " + rhs)
	if r.Panic != nil {
		return "!panic"
	}
	if !r.OK() {
		return "rejected"
	}
	return one(s, "SELECT @@global."+name)
}

var witnesses = []witness{
	{findingGlobalOnlyCopy, func(f *fx.Fixture) (string, string) {
		s := f.NewSession("", "", "")
		before := one(s, "SELECT @@global.max_connections")
		if r := s.Exec("SET GLOBAL max_connections = 500"); !r.OK() {
			return "other", r.String()
		}
		bare, shown, glob := one(s, "SELECT @@max_connections"), one(s, "SHOW VARIABLES LIKE 'max_connections'"), one(s, "SELECT @@global.max_connections")
		detail := fmt.Sprintf("max_connections is GLOBAL-only; after SET GLOBAL max_connections = 500 in the same session: @@global.max_connections = %s, @@max_connections = %s, SHOW VARIABLES = %s (value before: %s)", glob, bare, shown, before)
		switch {
		case glob != "n:500" || before == "n:500":
			return "other", detail
		case bare == "n:500" && shown == "n:500":
			return "ok", detail
		case (bare == "n:500" || bare == before) && (shown == "n:500" || shown == before):
			return "recorded", detail
		}
		return "other", detail
	}},
	{findingSignWrap, func(f *fx.Fixture) (string, string) {
		s := f.NewSession("", "", "")
		type probe struct {
			name, rhs, recorded string
			ok                  []string
		}
		probes := []probe{
			// unsigned [0, 2^64-1]: -1 is below the minimum (MySQL: clamped to 0 with a warning)
			{"bulk_insert_buffer_size", "-1", "n:18446744073709551615", []string{"rejected", "n:0"}},
			// signed [-2^63, 2^63-1]: 2^63 is above the maximum
			{"max_execution_time", "9223372036854775808", "n:-9223372036854775808", []string{"rejected", "n:9223372036854775807"}},
			// unsigned: 1.5 is not an integer (MySQL: incorrect argument type)
			{"delayed_insert_limit", "1.5", "n:2", []string{"rejected"}},
		}
		var details []string
		recorded := false
		for _, p := range probes {
			got := setOutcome(s, p.name, p.rhs)
			details = append(details, fmt.Sprintf("SET GLOBAL %s = %s -> %s", p.name, p.rhs, got))
			isOK := false
			for _, o := range p.ok {
				isOK = isOK || got == o
			}
			switch {
			case isOK:
			case got == p.recorded:
				recorded = true
			default:
				return "other", strings.Join(details, "; ")
			}
		}
		if recorded {
			return "recorded", strings.Join(details, "; ")
		}
		return "ok", strings.Join(details, "; ")
	}},
}

// TestC44Witness re-confirms the witness of every proposed finding. Finding listed: the witness
// is expected to misbehave in the recorded way (if it now satisfies the property it is reported
// as stale, not as a failure). Finding not listed: the witness must satisfy the property.
func TestC44Witness(t *testing.T) {
	st := stats.New("C44", "witness")
	defer st.Flush()
	defer variables.InitSystemVariables()
	for _, w := range witnesses {
		st.Eval()
		variables.InitSystemVariables()
		f := fx.New(fx.Opts{})
		state, detail := w.observe(f)
		f.Close()
		st.Class("witness:" + w.id + ":" + state)
		switch {
		case state == "ok":
			if kf.Listed(w.id) {
				t.Logf("STALE known finding %s: its witness now satisfies the property (%s)", w.id, detail)
			} else {
				st.NonTrivial(nil, w.id)
			}
		case state == "recorded" && kf.Suppress(st, w.id):
			st.NonTrivial(nil, w.id)
			t.Logf("KNOWN-FINDING %s still reproduces: %s", w.id, detail)
		default:
			t.Errorf("witness of %s violates the property (%s): %s", w.id, state, detail)
		}
	}
}
