package c44

import (
	"fmt"
	"math"
	"sort"
	"strconv"
	"strings"

	"pgregory.net/rapid"
)

// Canonical value forms (the ones of fx.Norm): "n:<integer>", "f:<float %.17g>", "s:<text>", "N".

func nInt(v int64) string     { return "n:" + strconv.FormatInt(v, 10) }
func nUint(v uint64) string   { return "n:" + strconv.FormatUint(v, 10) }
func fFloat(v float64) string { return "f:" + strconv.FormatFloat(v, 'g', 17, 64) }
func sStr(v string) string    { return "s:" + v }

func sqlStr(s string) string {
	return "'" + strings.ReplaceAll(strings.ReplaceAll(s, `\`, `\\`), "'", "''") + "'"
}

// cand is one right-hand side for SET <system variable> = ... together with what the
// property demands of it, derived from the variable's declared type only.
type cand struct {
	sql   string
	class string   // valid | boundary | outside | invalid | lenient | null | expr
	must  int      // +1: must succeed; -1: must be rejected; 0: either (MySQL itself clamps or rejects, or the engine is documented to be more lenient)
	vals  []string // acceptable stored canonical values when the statement succeeded
}

func ok(sql, class string, vals ...string) cand     { return cand{sql, class, +1, vals} }
func reject(sql, class string) cand                 { return cand{sql, class, -1, nil} }
func either(sql, class string, vals ...string) cand { return cand{sql, class, 0, vals} }
func pickCand(rt *rapid.T, cs []cand, label string) cand {
	return cs[rapid.IntRange(0, len(cs)-1).Draw(rt, label)]
}

// candidates returns the value pool of a variable. off selects one extra in-range value.
func candidates(v *varInfo, off uint64) []cand {
	switch v.kind {
	case "bool":
		return []cand{
			ok("ON", "valid", "n:1"), ok("OFF", "valid", "n:0"), ok("TRUE", "valid", "n:1"), ok("FALSE", "valid", "n:0"),
			ok("1", "valid", "n:1"), ok("0", "valid", "n:0"),
			ok("'ON'", "valid", "n:1"), ok("'off'", "valid", "n:0"), ok("'True'", "valid", "n:1"), ok("'FALSE'", "valid", "n:0"),
			ok("(1 = 1)", "expr", "n:1"), ok("(2 - 2)", "expr", "n:0"),
			reject("2", "outside"), reject("-1", "outside"), reject("18446744073709551615", "outside"),
			reject("'abc'", "invalid"), reject("'yes'", "invalid"), reject("1.5", "invalid"), reject("''", "invalid"),
			either("1.0", "lenient", "n:1"), either("'1'", "lenient", "n:1"), either("'0'", "lenient", "n:0"),
			reject("NULL", "null"),
		}
	case "int":
		lo, hi := v.ilo, v.ihi
		var cs []cand
		in := func(x int64) bool { return x >= lo && x <= hi }
		lit := func(x int64) string { return strconv.FormatInt(x, 10) }
		x0 := int64(uint64(lo) + (uint64(hi)-uint64(lo))/2) // midpoint, always inside [lo, hi]
		valid := map[int64]bool{lo: true, hi: true, x0: true}
		if lo < hi {
			valid[lo+1], valid[hi-1] = true, true
		}
		for _, x := range []int64{0, 1, -1, 7, 255, 65536} {
			if in(x) {
				valid[x] = true
			}
		}
		// a generated in-range value
		if span := uint64(hi) - uint64(lo); span == math.MaxUint64 {
			valid[int64(uint64(lo)+off)] = true
		} else {
			valid[int64(uint64(lo)+off%(span+1))] = true
		}
		for _, x := range sortedKeys(valid) {
			class := "valid"
			if x == lo || x == hi {
				class = "boundary"
			}
			cs = append(cs, ok(lit(x), class, nInt(x)))
		}
		cs = append(cs, either(sqlStr(lit(x0)), "lenient", nInt(x0)))
		if x0 > -(1<<52) && x0 < 1<<52 { // exactly representable whatever numeric type the literal gets
			cs = append(cs, either(lit(x0)+".0", "lenient", nInt(x0)))
		}
		if x0 > math.MinInt64+10 && x0 < math.MaxInt64-10 {
			cs = append(cs, ok(fmt.Sprintf("(%d + 3)", x0-3), "expr", nInt(x0)))
		}
		clamp := func(x int64) []string {
			var out []string
			if x < lo {
				out = append(out, nInt(lo))
			} else {
				out = append(out, nInt(hi))
			}
			if v.negOne && x == -1 {
				out = append(out, nInt(-1))
			}
			return out
		}
		if lo > math.MinInt64 {
			cs = append(cs, either(lit(lo-1), "outside", clamp(lo-1)...))
			if lo-1 != -1 && lo > math.MinInt64+1000 {
				cs = append(cs, either(lit(lo-1000), "outside", clamp(lo-1000)...))
			}
			if v.negOne && lo > 0 {
				cs = append(cs, either("-1", "outside", clamp(-1)...))
			}
		}
		if hi < math.MaxInt64 {
			cs = append(cs, either(lit(hi+1), "outside", clamp(hi+1)...), either("9223372036854775807", "outside", nInt(hi)))
		}
		// larger than any signed 64-bit value: clamped to the maximum, or rejected
		cs = append(cs, either("9223372036854775808", "outside", nInt(hi)), either("18446744073709551615", "outside", nInt(hi)),
			either("18446744073709551616", "outside", nInt(hi)))
		cs = append(cs, reject("'abc'", "invalid"), reject("''", "invalid"), reject("'1.5'", "invalid"), reject("NULL", "null"))
		if in(1) && in(2) {
			cs = append(cs, reject("1.5", "invalid"))
		}
		return cs
	case "uint":
		lo, hi := v.ulo, v.uhi
		var cs []cand
		lit := func(x uint64) string { return strconv.FormatUint(x, 10) }
		x0 := lo + (hi-lo)/2 // midpoint, always inside [lo, hi]
		valid := map[uint64]bool{lo: true, hi: true, x0: true}
		if lo < hi {
			valid[lo+1], valid[hi-1] = true, true
		}
		for _, x := range []uint64{0, 1, 7, 4096, 1 << 32, 1 << 63} {
			if x >= lo && x <= hi {
				valid[x] = true
			}
		}
		if span := hi - lo; span == math.MaxUint64 {
			valid[lo+off] = true
		} else {
			valid[lo+off%(span+1)] = true
		}
		for _, x := range sortedKeys(valid) {
			class := "valid"
			if x == lo || x == hi {
				class = "boundary"
			}
			cs = append(cs, ok(lit(x), class, nUint(x)))
		}
		cs = append(cs, either(sqlStr(lit(x0)), "lenient", nUint(x0)))
		if x0 < 1<<52 {
			cs = append(cs, either(lit(x0)+".0", "lenient", nUint(x0)))
		}
		if x0 >= 3 && x0 < 1<<62 {
			cs = append(cs, ok(fmt.Sprintf("(%d + 3)", x0-3), "expr", nUint(x0)))
		}
		if lo > 0 {
			cs = append(cs, either(lit(lo-1), "outside", nUint(lo)))
		}
		if hi < math.MaxUint64 {
			cs = append(cs, either(lit(hi+1), "outside", nUint(hi)), either("18446744073709551615", "outside", nUint(hi)))
		}
		cs = append(cs, either("18446744073709551616", "outside", nUint(hi)))
		// negative values: MySQL clamps an unsigned variable to its minimum (with a warning) or rejects
		cs = append(cs, either("-1", "outside", nUint(lo)), either("-5", "outside", nUint(lo)), either("-9223372036854775808", "outside", nUint(lo)))
		cs = append(cs, either("-3.0", "outside", nUint(lo)))
		cs = append(cs, reject("'abc'", "invalid"), reject("''", "invalid"), reject("NULL", "null"))
		if lo <= 1 && hi >= 2 {
			cs = append(cs, reject("1.5", "invalid"))
		}
		if x0 < 1<<52 && x0+1 <= hi {
			// a value with a fractional part is not an integer: MySQL rejects it (wrong argument type)
			cs = append(cs, reject(lit(x0)+".5", "invalid"))
		}
		return cs
	case "double":
		lo, hi := v.flo, v.fhi
		var cs []cand
		lit := func(x float64) string { return strconv.FormatFloat(x, 'f', -1, 64) }
		vals := []float64{lo, lo + 0.5, lo + 1234.25}
		if hi < 1e300 {
			vals = append(vals, hi, hi-0.5)
		} else {
			vals = append(vals, 1e15, 123456789.125)
		}
		for _, x := range vals {
			if x < lo || x > hi {
				continue
			}
			class := "valid"
			if x == lo || x == hi {
				class = "boundary"
			}
			cs = append(cs, ok(lit(x), class, fFloat(x)))
		}
		if t := math.Trunc(lo + 7); t >= lo && t <= hi {
			cs = append(cs, ok(strconv.FormatInt(int64(t), 10), "valid", fFloat(t)))
			cs = append(cs, either(sqlStr(lit(t+0.5)), "lenient", fFloat(t+0.5)))
			cs = append(cs, ok(fmt.Sprintf("(%s + 0.5)", lit(t)), "expr", fFloat(t+0.5)))
		}
		cs = append(cs, either(lit(lo-1), "outside", fFloat(lo)), either(lit(lo-0.001), "outside", fFloat(lo)))
		if hi < 1e300 {
			cs = append(cs, either(lit(hi+1), "outside", fFloat(hi)), either(lit(hi*4), "outside", fFloat(hi)))
		}
		cs = append(cs, reject("'abc'", "invalid"), reject("''", "invalid"), reject("NULL", "null"))
		return cs
	case "enum":
		var cs []cand
		hasOnOff := false
		for _, m := range v.members {
			if u := strings.ToUpper(m); u == "ON" || u == "OFF" {
				hasOnOff = true
			}
		}
		for i, m := range v.members {
			cs = append(cs, ok(sqlStr(m), "valid", sStr(m)), ok(sqlStr(strings.ToLower(m)), "valid", sStr(m)), ok(sqlStr(strings.ToUpper(m)), "valid", sStr(m)))
			if !hasOnOff {
				// numeric form = position in the declared list (MySQL enumerations of ON/OFF
				// variables are numbered differently from the engine's declaration, so the numeric
				// form is only generated where it is unambiguous)
				cs = append(cs, ok(strconv.Itoa(i), "valid", sStr(m)), either(strconv.Itoa(i)+".0", "lenient", sStr(m)))
			}
		}
		n := len(v.members)
		cs = append(cs, reject(strconv.Itoa(n), "outside"), reject(strconv.Itoa(n+7), "outside"), reject("-1", "outside"),
			reject("65536", "outside"), reject("18446744073709551615", "outside"),
			reject("'no_such_member'", "invalid"), reject(sqlStr(v.members[0]+"x"), "invalid"), reject("0.5", "invalid"), reject("NULL", "null"))
		return cs
	case "set":
		var cs []cand
		n := len(v.members)
		canon := func(bits uint64) string {
			var parts []string
			for i, m := range v.members {
				if bits&(1<<uint(i)) != 0 {
					parts = append(parts, m)
				}
			}
			return strings.Join(parts, ",")
		}
		for bits := uint64(0); bits < 1<<uint(n); bits++ {
			c := canon(bits)
			if bits == 0 {
				// whether the empty set is a legal value depends on the variable (log_output)
				cs = append(cs, either("''", "lenient", sStr("")), either("0", "lenient", sStr("")))
				continue
			}
			cs = append(cs, ok(sqlStr(c), "valid", sStr(c)), ok(sqlStr(strings.ToLower(c)), "valid", sStr(c)), ok(strconv.FormatUint(bits, 10), "valid", sStr(c)))
			// members in reverse order denote the same set
			parts := strings.Split(c, ",")
			for i, j := 0, len(parts)-1; i < j; i, j = i+1, j-1 {
				parts[i], parts[j] = parts[j], parts[i]
			}
			cs = append(cs, ok(sqlStr(strings.Join(parts, ",")), "valid", sStr(c)))
		}
		cs = append(cs, reject("'no_such_member'", "invalid"), reject(sqlStr(v.members[0]+",no_such_member"), "invalid"),
			reject(strconv.FormatUint(1<<uint(n), 10), "outside"), reject("-1", "outside"), reject("18446744073709551615", "outside"), reject("NULL", "null"))
		return cs
	case "string":
		var cs []cand
		for _, s := range []string{"abc", "", "it's", `a"b`, "üñ €", "x y", "50%_", `back\slash`, "A,B", "0", "a;b -- c", strings.Repeat("long", 40)} {
			cs = append(cs, ok(sqlStr(s), "valid", sStr(s)))
		}
		cs = append(cs, ok("CONCAT('ab', 'cd')", "expr", sStr("abcd")))
		cs = append(cs, either("123", "lenient", sStr("123")), either("1.5", "lenient", sStr("1.5")), either("NULL", "null", sStr(""), "N"))
		return cs
	}
	return nil
}

// userCand is a right-hand side for SET @v = ... with the exact value SELECT @v must return.
type userCand struct {
	sql, class, val string
}

func userCandidates(rt *rapid.T) []userCand {
	i := rapid.Int64Range(-1000, 1000).Draw(rt, "ui")
	big := rapid.SampledFrom([]int64{math.MaxInt64, math.MinInt64 + 1, 1 << 40, -(1 << 33), 4294967296}).Draw(rt, "ubig")
	s := rapid.SampledFrom([]string{"", "a", "A", "it's", "üñ", "10", "x y", "NULL", "1e3"}).Draw(rt, "us")
	q := rapid.IntRange(-4000, 4000).Draw(rt, "uq") // quarters
	dec := fmt.Sprintf("%d.%02d", abs(q)/4, (abs(q)%4)*25)
	if q < 0 {
		dec = "-" + dec
	}
	ratOf := func(q int) string {
		// exact rational of q/4 in the form fx.Norm uses (lowest terms; integers without denominator)
		num, den := q, 4
		for den > 1 && num%2 == 0 {
			num, den = num/2, den/2
		}
		if den == 1 {
			return "n:" + strconv.Itoa(num)
		}
		return fmt.Sprintf("n:%d/%d", num, den)
	}
	return []userCand{
		{strconv.FormatInt(i, 10), "int", nInt(i)},
		{strconv.FormatInt(big, 10), "bigint", nInt(big)},
		{"18446744073709551615", "biguint", "n:18446744073709551615"},
		{dec, "decimal", ratOf(q)},
		{fmt.Sprintf("%de0", i), "float", fFloat(float64(i))},
		{"2.5e-1", "float", fFloat(0.25)},
		{sqlStr(s), "string", sStr(s)},
		{"NULL", "null", "N"},
		{"TRUE", "bool", "n:1"},
		{fmt.Sprintf("(%d + 2)", i), "expr", nInt(i + 2)},
		{fmt.Sprintf("(%d * 3)", i), "expr", nInt(i * 3)},
		{"CONCAT(" + sqlStr(s) + ", 'z')", "expr", sStr(s + "z")},
		{"LENGTH('abcd')", "expr", "n:4"},
		{"(NULL + 1)", "expr", "N"},
		{"(1 = 2)", "expr", "n:0"},
	}
}

// sortedKeys makes the candidate order independent of map iteration order.
func sortedKeys[K int64 | uint64](m map[K]bool) []K {
	out := make([]K, 0, len(m))
	for k := range m {
		out = append(out, k)
	}
	sort.Slice(out, func(i, j int) bool { return out[i] < out[j] })
	return out
}

func abs(x int) int {
	if x < 0 {
		return -x
	}
	return x
}
