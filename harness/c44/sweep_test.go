package c44

import (
	"testing"

	"github.com/dolthub/go-mysql-server/vh/internal/stats"
	"pgregory.net/rapid"
)

// TestC44Sweep takes one variable per case (uniformly from the whole registry pool) and walks
// through its complete value pool in both scopes: every candidate is assigned once from session
// 0 while session 1 only observes; after every SET both sessions are compared with the model,
// and at the end a new session must start from the global value reached.
func TestC44Sweep(t *testing.T) {
	st := stats.New("C44", "sweep")
	defer st.Flush()
	_, all := buildPool(t)
	seen := map[string]bool{}
	rapid.Check(t, func(rt *rapid.T) {
		st.Eval()
		v := all[rapid.IntRange(0, len(all)-1).Draw(rt, "var")]
		off := rapid.Uint64().Draw(rt, "offset")
		rot := rapid.IntRange(0, 100).Draw(rt, "rotation")
		m := start(rt, st, []*varInfo{v}, 2)
		defer m.close()
		m.verify(rt)
		n := 0
		for _, global := range []bool{false, true} {
			var forms []setForm
			for _, f := range setForms {
				if (f.scope != "session") == global {
					forms = append(forms, f)
				}
			}
			// the pool is re-computed after every step: DEFAULT / copy candidates depend on the state
			for i := 0; i < len(m.allCandidates(0, v, global, off)) && !m.dead; i++ {
				c := m.allCandidates(0, v, global, off)[i]
				m.applySet(rt, 0, v, forms[(i+rot)%len(forms)], c, v.name)
				m.verify(rt)
				n++
			}
		}
		if !m.dead {
			m.newSession(rt)
			m.verify(rt)
		}
		if !seen[v.name] {
			seen[v.name] = true
			st.Set("variables_swept_this_shard", len(seen))
		}
		st.Class("sweep:kind:" + v.kind)
		st.ClassN("sweep:statements", n)
	})
}
