package c44

import (
	"fmt"
	"reflect"
	"sort"
	"strings"

	"github.com/dolthub/go-mysql-server/sql"
)

// varInfo is the declared metadata of one system variable, read from the registry itself
// (sql.SystemVariables): the check does not keep its own table of MySQL variables, it decides
// every SET against the type, bounds, scope and dynamic flag the engine declares.
type varInfo struct {
	name     string
	kind     string // bool | int | uint | double | enum | set | string
	scope    sql.MysqlSVScopeType
	readOnly bool // not dynamic, or computed by a ValueFunction
	def      any

	// int
	ilo, ihi int64
	negOne   bool
	// uint
	ulo, uhi uint64
	// double
	flo, fhi float64
	// enum / set members (declared spelling)
	members []string
}

func (v *varInfo) sessionSettable() bool {
	return !v.readOnly && v.scope != sql.SystemVariableScope_Global
}
func (v *varInfo) globalSettable() bool {
	return !v.readOnly && v.scope != sql.SystemVariableScope_Session
}
func (v *varInfo) hasSession() bool { return v.scope != sql.SystemVariableScope_Global }
func (v *varInfo) hasGlobal() bool  { return v.scope != sql.SystemVariableScope_Session }

func (v *varInfo) String() string {
	b := ""
	switch v.kind {
	case "int":
		b = fmt.Sprintf("[%d,%d] negOne=%v", v.ilo, v.ihi, v.negOne)
	case "uint":
		b = fmt.Sprintf("[%d,%d]", v.ulo, v.uhi)
	case "double":
		b = fmt.Sprintf("[%g,%g]", v.flo, v.fhi)
	case "enum", "set":
		b = fmt.Sprint(v.members)
	}
	return fmt.Sprintf("%s %s%s scope=%s ro=%v default=%v", v.name, v.kind, b, v.scope, v.readOnly, v.def)
}

// excludedVars are left out of the pool, each for a stated reason (none of them because of a
// finding).
var excludedVars = map[string]string{
	// change how the harness's own statements are parsed / executed / answered
	"sql_mode":         "changes parser options (ANSI_QUOTES, NO_BACKSLASH_ESCAPES) and has an integer-bitmask spelling of its own",
	"sql_select_limit": "limits the rows of the SELECT/SHOW statements the check observes with",
	// linked variables: setting one also sets its partner (rowexec setSystemVar), outside a per-variable model
	"character_set_connection": "linked to collation_connection",
	"collation_connection":     "linked to character_set_connection",
	"character_set_server":     "linked to collation_server",
	"collation_server":         "linked to character_set_server",
	"character_set_database":   "read from the current database, not from the variable store",
	"collation_database":       "read from the current database, not from the variable store",
	// values validated by more than the declared type (NotifyChanged / validateSystemVariableValue / planbuilder)
	"character_set_client":          "validated against the character-set list, not only by type",
	"character_set_results":         "validated against the character-set list; NULL has a meaning",
	"character_set_filesystem":      "validated against the character-set list",
	"character_set_system":          "validated against the character-set list",
	"time_zone":                     "validated as a time zone",
	"lc_time_names":                 "integer literals are re-read as strings by the planbuilder",
	"default_collation_for_utf8mb4": "validated against the collation list",
}

// loadVars reads the metadata of every registered system variable.
func loadVars() []*varInfo {
	var out []*varInfo
	all := sql.SystemVariables.GetAllGlobalVariables()
	names := make([]string, 0, len(all))
	for n := range all {
		names = append(names, n)
	}
	sort.Strings(names)
	for _, n := range names {
		sv, _, ok := sql.SystemVariables.GetGlobal(n)
		if !ok || sv == nil {
			continue
		}
		msv, ok := sv.(*sql.MysqlSystemVariable)
		if !ok {
			continue
		}
		if _, ex := excludedVars[strings.ToLower(n)]; ex {
			continue
		}
		if msv.NotifyChanged != nil {
			continue // validated / acted upon by a callback beyond the declared type
		}
		if msv.ValueFunction != nil {
			continue // computed on every read (uptime): there is no stored value to model
		}
		v := &varInfo{name: msv.Name, scope: msv.Scope.Type, readOnly: sv.IsReadOnly(), def: msv.Default}
		if v.name != strings.ToLower(v.name) || strings.ContainsAny(v.name, ".") {
			// names with a dot (validate_password.length) need quoting forms the check does not generate
			continue
		}
		rt := reflect.ValueOf(msv.Type)
		switch reflect.TypeOf(msv.Type).Name() {
		case "SystemBoolType":
			v.kind = "bool"
		case "systemIntType":
			v.kind = "int"
			v.ilo, v.ihi = rt.FieldByName("lowerbound").Int(), rt.FieldByName("upperbound").Int()
			v.negOne = rt.FieldByName("negativeOne").Bool()
		case "systemUintType":
			v.kind = "uint"
			v.ulo, v.uhi = rt.FieldByName("lowerbound").Uint(), rt.FieldByName("upperbound").Uint()
		case "systemDoubleType":
			v.kind = "double"
			v.flo, v.fhi = rt.FieldByName("lowerbound").Float(), rt.FieldByName("upperbound").Float()
		case "systemEnumType":
			v.kind = "enum"
			f := rt.FieldByName("indexToVal")
			for i := 0; i < f.Len(); i++ {
				v.members = append(v.members, f.Index(i).String())
			}
		case "systemSetType":
			v.kind = "set"
			v.members = msv.Type.(sql.SetType).Values()
		case "systemStringType":
			v.kind = "string"
		default:
			continue
		}
		out = append(out, v)
	}
	return out
}
