// Package c44 checks property C44: SET of a system variable validates the value and converts
// it to the variable's type, rejecting invalid values without effect; a session-scope change is
// visible only to that session and a global change is seen by new sessions (and by @@global
// reads everywhere, not by the session values of existing sessions); SELECT @@var / @uservar
// returns exactly the value assigned, with its type; user variables are per session.
//
// A rapid state machine runs SET / SELECT histories over several sessions of one engine against
// a small model (one global map, one map per session, one user-variable map per session). What a
// SET of a system variable must do is derived from the metadata the registry itself declares
// for the variable (type, bounds, members, scope, dynamic), see vars_test.go / values_test.go.
package c44

import (
	"fmt"
	"strings"
	"testing"

	"github.com/dolthub/go-mysql-server/sql"
	"github.com/dolthub/go-mysql-server/sql/variables"
	"github.com/dolthub/go-mysql-server/vh/internal/fx"
	"github.com/dolthub/go-mysql-server/vh/internal/kf"
	"github.com/dolthub/go-mysql-server/vh/internal/stats"
	"pgregory.net/rapid"
)

var kinds = []string{"bool", "int", "uint", "double", "enum", "set", "string"}

type setForm struct {
	tmpl  string
	scope string // session | global | persist
}

var setForms = []setForm{
	{"SET SESSION %s = %s", "session"}, {"SET @@session.%s = %s", "session"}, {"SET LOCAL %s = %s", "session"},
	{"SET @@local.%s = %s", "session"}, {"SET %s = %s", "session"}, {"SET @@%s = %s", "session"}, {"SET @@SESSION.%s := %s", "session"},
	{"SET GLOBAL %s = %s", "global"}, {"SET @@global.%s = %s", "global"}, {"SET @@GLOBAL.%s := %s", "global"}, {"SET GLOBAL %s := %s", "global"},
	{"SET PERSIST %s = %s", "persist"},
}

var userNames = []string{"a", "b", "v1"}

type machine struct {
	st      *stats.Collector
	f       *fx.Fixture
	sess    []*fx.Sess
	vars    []*varInfo
	glob    map[string]string   // registry ("global") value per variable, canonical
	initial map[string]string   // value at case start (= declared default), canonical
	sval    []map[string]string // per session: session value per variable
	user    []map[string]string // per session: user variables (lower-cased name), absent = NULL
	history []string
	dead    bool // a listed finding was hit: the variable store is in a state the model does not describe
}

func (m *machine) log(si int, q string) {
	m.history = append(m.history, fmt.Sprintf("[s%d] %s", si, q))
}

func (m *machine) fatalf(rt *rapid.T, format string, args ...any) {
	rt.Fatalf("%s\n--- variables\n%s\n--- history\n%s", fmt.Sprintf(format, args...), m.describeVars(), strings.Join(m.history, ";\n"))
}

func (m *machine) describeVars() string {
	var sb strings.Builder
	for _, v := range m.vars {
		sb.WriteString("  " + v.String() + "\n")
	}
	return sb.String()
}

// sameValue compares an observed canonical value with an expected one. Numbers must be in the
// same class (exact / floating point) unless loose is set (values that were never assigned by
// the history keep whatever Go type the registry declares as default).
func sameValue(got, want string, loose bool) bool {
	if got == want {
		return true
	}
	if len(got) < 2 || len(want) < 2 {
		return false
	}
	if got[:2] != want[:2] && !loose {
		return false
	}
	if (got[0] == 'n' || got[0] == 'f') && (want[0] == 'n' || want[0] == 'f') {
		return fx.ValEq(got, want)
	}
	return false
}

func (m *machine) newSession(rt *rapid.T) int {
	s := m.f.NewSession("root", "localhost", "")
	// memory.Session implements SET PERSIST only after SetGlobals gave it a store (without one
	// PersistGlobal writes to a nil map and panics - noted in notes/C44.md, outside this property)
	s.S.SetGlobals(map[string]interface{}{})
	m.sess = append(m.sess, s)
	sv := map[string]string{}
	for _, v := range m.vars {
		sv[v.name] = m.glob[v.name] // a new session starts from the current global values
	}
	m.sval = append(m.sval, sv)
	m.user = append(m.user, map[string]string{})
	return len(m.sess) - 1
}

// read1 returns the canonical value of a single-value SELECT.
func (m *machine) read1(rt *rapid.T, si int, q string) string {
	r := m.sess[si].Exec(q)
	if !r.OK() || len(r.Rows) != 1 || len(r.Rows[0]) != 1 {
		m.fatalf(rt, "[s%d] %s failed: %s", si, q, r)
	}
	return fx.Norm(r.Rows[0][0], nil)
}

func varCase(rt *rapid.T, name string) string {
	if rapid.IntRange(0, 5).Draw(rt, "upper") == 0 {
		return strings.ToUpper(name)
	}
	return name
}

// ---------------------------------------------------------------------------------------------
// actions

func (m *machine) setSystem(rt *rapid.T) {
	if m.dead {
		return
	}
	si := rapid.IntRange(0, len(m.sess)-1).Draw(rt, "session")
	v := m.vars[rapid.IntRange(0, len(m.vars)-1).Draw(rt, "var")]
	// scope first (3 in 4 a scope the variable has), then one of the spellings of that scope
	wantGlobal := rapid.Bool().Draw(rt, "globalscope")
	if rapid.IntRange(0, 3).Draw(rt, "scopefit") > 0 {
		if !v.hasGlobal() {
			wantGlobal = false
		} else if !v.hasSession() {
			wantGlobal = true
		}
	}
	var forms []setForm
	for _, f := range setForms {
		if (f.scope != "session") == wantGlobal {
			forms = append(forms, f)
		}
	}
	form := forms[rapid.IntRange(0, len(forms)-1).Draw(rt, "form")]
	global := form.scope != "session"
	cs := m.allCandidates(si, v, global, rapid.Uint64().Draw(rt, "offset"))
	c := pickCand(rt, cs, "value")
	m.applySet(rt, si, v, form, c, varCase(rt, v.name))
}

// allCandidates is the value pool of v for a SET in the given scope issued by session si:
// the type-derived pool plus DEFAULT and a copy of the other scope's value, minus the regions
// of listed findings.
func (m *machine) allCandidates(si int, v *varInfo, global bool, off uint64) []cand {
	cs := candidates(v, off)
	if global {
		cs = append(cs, cand{"DEFAULT", "default", +1, []string{m.initial[v.name]}})
		if v.hasSession() && v.hasGlobal() {
			cs = append(cs, cand{"@@session." + v.name, "copy", +1, []string{m.sval[si][v.name]}})
		}
	} else {
		// MySQL: the session value becomes the current global value; the engine documents "the
		// default". Both are accepted.
		cs = append(cs, cand{"DEFAULT", "default", +1, []string{m.initial[v.name], m.glob[v.name]}})
		if v.hasSession() && v.hasGlobal() {
			cs = append(cs, cand{"@@global." + v.name, "copy", +1, []string{m.glob[v.name]}})
		}
	}
	if kf.Listed(findingSignWrap) {
		// region of a listed finding: excluded by construction
		kept := cs[:0:0]
		for _, c := range cs {
			if outOfDomainRegion(v, c) {
				m.st.Excluded("integer-variable-value-outside-its-domain")
				continue
			}
			kept = append(kept, c)
		}
		cs = kept
	}
	return cs
}

// applySet issues one SET of a system variable and decides it.
func (m *machine) applySet(rt *rapid.T, si int, v *varInfo, form setForm, c cand, spelled string) {
	global := form.scope != "session"
	must, why := c.must, ""
	switch {
	case v.readOnly:
		must, why = -1, "the variable is read-only"
	case global && !v.hasGlobal():
		must, why = -1, "the variable has session scope only"
	case !global && !v.hasSession():
		must, why = -1, "the variable has global scope only"
	case form.scope == "persist" && must > 0:
		must = 0 // PERSIST is optional (unsupported for DEFAULT); if accepted it must act like GLOBAL
	}
	q := fmt.Sprintf(form.tmpl, spelled, c.sql)
	r := m.sess[si].Exec(q)
	m.log(si, q)
	m.st.Class("sys:kind:" + v.kind)
	m.st.Class("sys:class:" + c.class)
	m.st.Class("sys:scope:" + form.scope)
	if r.Panic != nil {
		m.fatalf(rt, "[s%d] %s panicked: %v\n%s", si, q, r.Panic, r.Stack)
	}
	if r.TimedOut {
		rt.Skip("timeout")
	}
	nontrivial := c.class != "valid" && c.class != "expr" || why != ""
	if !r.OK() {
		m.st.Class("sys:outcome:rejected")
		if must > 0 {
			m.fatalf(rt, "[s%d] %s was rejected (%v), but %s is a valid value for %s", si, q, r.Err, c.sql, v)
		}
	} else {
		scopeRead := "@@session."
		if global {
			scopeRead = "@@global."
		}
		got := m.read1(rt, si, "SELECT "+scopeRead+v.name)
		if must < 0 {
			if why == "" {
				why = "the value is invalid for the variable's type"
			}
			if m.known(v, c, form, got) {
				return
			}
			m.fatalf(rt, "[s%d] %s was accepted although %s; %s%s is now %s\n  variable: %s", si, q, why, scopeRead, v.name, got, v)
		}
		matched := ""
		for _, w := range c.vals {
			if sameValue(got, w, c.class == "default" || c.class == "copy") {
				matched = w
				break
			}
		}
		if matched == "" {
			if m.known(v, c, form, got) {
				return
			}
			m.fatalf(rt, "[s%d] %s succeeded but %s%s is now %s; acceptable stored values: %v\n  variable: %s", si, q, scopeRead, v.name, got, c.vals, v)
		}
		m.st.Class("sys:outcome:accepted")
		if c.must == 0 && c.class == "outside" {
			m.st.Class("sys:outcome:clamped")
		}
		if c.class == "default" || c.class == "copy" {
			matched = got // keeps the Go type class the engine reports for never-assigned values
		}
		if global {
			m.glob[v.name] = matched
		} else {
			m.sval[si][v.name] = matched
		}
	}
	if nontrivial {
		m.st.NonTrivial(map[string]any{"sql": q, "var": v.String(), "accepted": r.OK()}, v.name, form.tmpl, c.sql)
	}
}

// known evaluates the signatures of the listed findings for an accepted SET whose stored
// value is not acceptable; it ends the case when one matches (the variable store then holds a
// value the model does not describe).
func (m *machine) known(v *varInfo, c cand, form setForm, got string) bool {
	for _, f := range findings {
		if f.match(v, c, got) && kf.Suppress(m.st, f.id) {
			m.st.Class("known:" + f.id)
			m.dead = true
			return true
		}
	}
	return false
}

func (m *machine) setUser(rt *rapid.T) {
	if m.dead {
		return
	}
	si := rapid.IntRange(0, len(m.sess)-1).Draw(rt, "session")
	name := rapid.SampledFrom(userNames).Draw(rt, "uname")
	ref := "@" + varCase(rt, name)
	asg := rapid.SampledFrom([]string{"=", ":="}).Draw(rt, "assign")
	var q, want, class string
	mustFail := false
	switch rapid.IntRange(0, 9).Draw(rt, "ukind") {
	case 0: // copy of another user variable
		src := rapid.SampledFrom(userNames).Draw(rt, "usrc")
		q, class = fmt.Sprintf("SET %s %s @%s", ref, asg, src), "user-copy"
		want = m.userVal(si, src)
	case 1: // arithmetic on a user variable that holds a small integer (or NULL)
		src := rapid.SampledFrom(userNames).Draw(rt, "usrc")
		cur := m.userVal(si, src)
		var n int64
		if cur == "N" {
			want = "N"
		} else if _, err := fmt.Sscanf(cur, "n:%d", &n); err == nil && !strings.Contains(cur, "/") && n > -1<<40 && n < 1<<40 {
			want = nInt(n + 1)
		} else {
			rt.Skip("source is not a small integer")
		}
		q, class = fmt.Sprintf("SET %s %s @%s + 1", ref, asg, src), "user-arith"
	case 2: // value of a system variable
		v := m.vars[rapid.IntRange(0, len(m.vars)-1).Draw(rt, "var")]
		if v.hasSession() && rapid.Bool().Draw(rt, "sessionscope") {
			q, want = fmt.Sprintf("SET %s %s @@session.%s", ref, asg, v.name), m.sval[si][v.name]
		} else if v.hasGlobal() {
			q, want = fmt.Sprintf("SET %s %s @@global.%s", ref, asg, v.name), m.glob[v.name]
		} else {
			rt.Skip("no scope")
		}
		class = "user-from-sysvar"
	case 3: // a failing right-hand side must leave the variable alone
		q, class, mustFail = fmt.Sprintf("SET %s %s c44_no_such_function(1)", ref, asg), "user-invalid", true
		want = m.userVal(si, name)
	default:
		cs := userCandidates(rt)
		c := cs[rapid.IntRange(0, len(cs)-1).Draw(rt, "uvalue")]
		q, want, class = fmt.Sprintf("SET %s %s %s", ref, asg, c.sql), c.val, "user-"+c.class
	}
	r := m.sess[si].Exec(q)
	m.log(si, q)
	m.st.Class(class)
	if r.Panic != nil {
		m.fatalf(rt, "[s%d] %s panicked: %v\n%s", si, q, r.Panic, r.Stack)
	}
	if mustFail {
		if r.OK() {
			m.fatalf(rt, "[s%d] %s succeeded", si, q)
		}
		return
	}
	if !r.OK() {
		m.fatalf(rt, "[s%d] %s failed: %s", si, q, r)
	}
	m.user[si][name] = want
}

func (m *machine) userVal(si int, name string) string {
	if v, ok := m.user[si][strings.ToLower(name)]; ok {
		return v
	}
	return "N"
}

// setBoth assigns a user variable and a system variable (valid values) in one statement.
func (m *machine) setBoth(rt *rapid.T) {
	if m.dead {
		return
	}
	si := rapid.IntRange(0, len(m.sess)-1).Draw(rt, "session")
	var settable []*varInfo
	for _, v := range m.vars {
		if v.sessionSettable() {
			settable = append(settable, v)
		}
	}
	if len(settable) == 0 {
		rt.Skip("no session-settable variable")
	}
	v := settable[rapid.IntRange(0, len(settable)-1).Draw(rt, "var")]
	var valid []cand
	for _, c := range candidates(v, rapid.Uint64().Draw(rt, "offset")) {
		if c.must > 0 {
			valid = append(valid, c)
		}
	}
	c := pickCand(rt, valid, "value")
	name := rapid.SampledFrom(userNames).Draw(rt, "uname")
	n := rapid.Int64Range(-9, 9).Draw(rt, "n")
	var q string
	if rapid.Bool().Draw(rt, "order") {
		q = fmt.Sprintf("SET @%s = %d, SESSION %s = %s", name, n, v.name, c.sql)
	} else {
		q = fmt.Sprintf("SET @@session.%s = %s, @%s = %d", v.name, c.sql, name, n)
	}
	r := m.sess[si].Exec(q)
	m.log(si, q)
	m.st.Class("multi-assignment")
	if !r.OK() {
		m.fatalf(rt, "[s%d] %s failed: %s", si, q, r)
	}
	got := m.read1(rt, si, "SELECT @@session."+v.name)
	if !sameValue(got, c.vals[0], false) {
		m.fatalf(rt, "[s%d] %s succeeded but @@session.%s is now %s, expected %s", si, q, v.name, got, c.vals[0])
	}
	m.sval[si][v.name] = c.vals[0]
	m.user[si][name] = nInt(n)
}

func (m *machine) openSession(rt *rapid.T) {
	if m.dead {
		return
	}
	if len(m.sess) >= 5 {
		rt.Skip("enough sessions")
	}
	si := m.newSession(rt)
	m.log(si, "-- new session")
	m.st.Class("new-session")
}

// showVariables compares SHOW [GLOBAL|SESSION] VARIABLES LIKE with the model.
func (m *machine) showVariables(rt *rapid.T) {
	if m.dead {
		return
	}
	si := rapid.IntRange(0, len(m.sess)-1).Draw(rt, "session")
	v := m.vars[rapid.IntRange(0, len(m.vars)-1).Draw(rt, "var")]
	if v.kind == "set" {
		rt.Skip("SHOW of set-typed variables is not compared")
	}
	scope := rapid.SampledFrom([]string{"", "SESSION ", "GLOBAL "}).Draw(rt, "showscope")
	want := m.sval[si][v.name]
	if scope == "GLOBAL " {
		if !v.hasGlobal() {
			rt.Skip("session-only variable")
		}
		want = m.glob[v.name]
	} else if !v.hasSession() {
		// a global-only variable has no session value: SHOW [SESSION] VARIABLES shows the global one
		if kf.Listed(findingGlobalOnlyCopy) {
			m.st.Excluded("session-read-of-global-only-variable")
			rt.Skip("excluded")
		}
		want = m.glob[v.name]
	}
	q := "SHOW " + scope + "VARIABLES LIKE " + sqlStr(v.name)
	r := m.sess[si].Exec(q)
	m.st.Class("show-variables")
	if !r.OK() {
		m.fatalf(rt, "[s%d] %s failed: %s", si, q, r)
	}
	n := 0
	for _, row := range r.Rows {
		if len(row) != 2 || !strings.EqualFold(fmt.Sprint(row[0]), v.name) {
			continue // '_' in the pattern is a wildcard
		}
		n++
		got := fx.Norm(row[1], nil)
		if v.kind == "bool" {
			switch got {
			case "s:ON":
				got = "n:1"
			case "s:OFF":
				got = "n:0"
			}
		}
		if !sameValue(got, want, true) {
			m.fatalf(rt, "[s%d] %s shows %s, the model has %s", si, q, got, want)
		}
	}
	if n != 1 {
		m.fatalf(rt, "[s%d] %s lists the variable %d times", si, q, n)
	}
}

// ---------------------------------------------------------------------------------------------
// invariant: every session reads exactly the model's values

func (m *machine) verify(rt *rapid.T) {
	if m.dead {
		return
	}
	for si := range m.sess {
		var cols, wants, labels []string
		for _, v := range m.vars {
			if v.hasSession() {
				for _, p := range []string{"@@session.", "@@local.", "@@"} {
					cols, wants, labels = append(cols, p+v.name), append(wants, m.sval[si][v.name]), append(labels, p+v.name)
				}
			} else {
				// a global-only variable has no session value: the bare form reads the global value
				if !kf.Listed(findingGlobalOnlyCopy) {
					cols, wants, labels = append(cols, "@@"+v.name), append(wants, m.glob[v.name]), append(labels, "@@"+v.name)
				} else {
					m.st.Excluded("session-read-of-global-only-variable")
				}
			}
			if v.hasGlobal() {
				cols, wants, labels = append(cols, "@@global."+v.name), append(wants, m.glob[v.name]), append(labels, "@@global."+v.name)
			}
		}
		for _, n := range userNames {
			cols, wants, labels = append(cols, "@"+n), append(wants, m.userVal(si, n)), append(labels, "@"+n)
			cols, wants, labels = append(cols, "@"+strings.ToUpper(n)), append(wants, m.userVal(si, n)), append(labels, "@"+strings.ToUpper(n))
		}
		q := "SELECT " + strings.Join(cols, ", ")
		r := m.sess[si].Exec(q)
		if !r.OK() || len(r.Rows) != 1 || len(r.Rows[0]) != len(cols) {
			m.fatalf(rt, "[s%d] %s failed: %s", si, q, r)
		}
		for i := range cols {
			got := fx.Norm(r.Rows[0][i], nil)
			if !sameValue(got, wants[i], true) {
				m.fatalf(rt, "[s%d] SELECT %s returns %s, the model has %s (sessions: %d)", si, labels[i], got, wants[i], len(m.sess))
			}
		}
	}
}

func pickVars(rt *rapid.T, pool map[string][]*varInfo) []*varInfo {
	n := rapid.IntRange(2, 4).Draw(rt, "nvars")
	var out []*varInfo
	seen := map[string]bool{}
	for len(out) < n {
		k := rapid.SampledFrom(kinds).Draw(rt, "kind")
		vs := pool[k]
		// prefer variables that can be set somewhere (3 in 4)
		var pickFrom []*varInfo
		if rapid.IntRange(0, 3).Draw(rt, "settable") > 0 {
			for _, v := range vs {
				if !v.readOnly {
					pickFrom = append(pickFrom, v)
				}
			}
		}
		if len(pickFrom) == 0 {
			pickFrom = vs
		}
		v := pickFrom[rapid.IntRange(0, len(pickFrom)-1).Draw(rt, "vidx")]
		if seen[v.name] {
			continue
		}
		seen[v.name] = true
		out = append(out, v)
	}
	return out
}

// buildPool groups the registry's variables by kind.
func buildPool(t *testing.T) (map[string][]*varInfo, []*varInfo) {
	variables.InitSystemVariables()
	pool := map[string][]*varInfo{}
	var all []*varInfo
	for _, v := range loadVars() {
		if v.scope != sql.SystemVariableScope_Global && v.scope != sql.SystemVariableScope_Session && v.scope != sql.SystemVariableScope_Both {
			continue
		}
		pool[v.kind] = append(pool[v.kind], v)
		all = append(all, v)
	}
	for _, k := range kinds {
		if len(pool[k]) == 0 {
			t.Fatalf("no system variable of kind %s in the registry", k)
		}
	}
	return pool, all
}

// start builds a fresh engine over a freshly reset registry and reads the initial values of vars.
func start(rt *rapid.T, st *stats.Collector, vars []*varInfo, nsess int) *machine {
	// sql.SystemVariables is process-global: every case starts from the declared defaults
	variables.InitSystemVariables()
	m := &machine{st: st, glob: map[string]string{}, initial: map[string]string{}, vars: vars}
	m.f = fx.New(fx.Opts{})
	// initial values as the engine reports them (declared defaults; not asserted)
	s0 := m.f.NewSession("root", "localhost", "")
	for _, v := range m.vars {
		q := "SELECT @@global." + v.name
		if !v.hasGlobal() {
			q = "SELECT @@session." + v.name
		}
		r := s0.Exec(q)
		if !r.OK() || len(r.Rows) != 1 {
			rt.Fatalf("%s failed: %s", q, r)
		}
		m.glob[v.name] = fx.Norm(r.Rows[0][0], nil)
		m.initial[v.name] = m.glob[v.name]
	}
	for i := 0; i < nsess; i++ {
		m.newSession(rt)
	}
	return m
}

func (m *machine) close() {
	m.f.Close()
	variables.InitSystemVariables()
}

func TestC44(t *testing.T) {
	st := stats.New("C44", "")
	defer st.Flush()
	pool, _ := buildPool(t)
	rapid.Check(t, func(rt *rapid.T) {
		st.Eval()
		vars := pickVars(rt, pool)
		m := start(rt, st, vars, rapid.IntRange(2, 3).Draw(rt, "nsessions"))
		defer m.close()
		m.verify(rt)
		rt.Repeat(map[string]func(*rapid.T){
			"setSystem":  m.setSystem,
			"setSystem2": m.setSystem,
			"setSystem3": m.setSystem,
			"setUser":    m.setUser,
			"setUser2":   m.setUser,
			"setBoth":    m.setBoth,
			"newSession": m.openSession,
			"show":       m.showVariables,
			"":           m.verify,
		})
	})
}
