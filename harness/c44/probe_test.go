package c44

import (
	"fmt"
	"os"
	"strings"
	"testing"

	"github.com/dolthub/go-mysql-server/sql/variables"
	"github.com/dolthub/go-mysql-server/vh/internal/fx"
)

func TestDump(t *testing.T) {
	if os.Getenv("C44_DUMP") == "" {
		t.Skip()
	}
	vs := loadVars()
	cnt := map[string]int{}
	for _, v := range vs {
		fmt.Println(v)
		cnt[fmt.Sprintf("%s/%s/ro=%v", v.kind, v.scope, v.readOnly)]++
	}
	fmt.Println(len(vs), cnt)
}

// TestProbe: lines "N: sql" run sql in session N.
func TestProbe(t *testing.T) {
	p := os.Getenv("PROBE_SQL")
	if p == "" {
		t.Skip()
	}
	variables.InitSystemVariables()
	b, _ := os.ReadFile(p)
	f := fx.New(fx.Opts{})
	defer f.Close()
	ss := map[string]*fx.Sess{}
	for _, ln := range strings.Split(string(b), "\n") {
		ln = strings.TrimSpace(ln)
		if ln == "" || strings.HasPrefix(ln, "#") {
			continue
		}
		k, q, _ := strings.Cut(ln, ":")
		q = strings.TrimSpace(q)
		if ss[k] == nil {
			ss[k] = f.NewSession("", "", "")
		}
		r := ss[k].Exec(q)
		fmt.Printf(">> [%s] %s\n", k, q)
		if r.OK() {
			for _, row := range r.Rows {
				s := ""
				for _, v := range row {
					s += fmt.Sprintf(" %T(%v)", v, v)
				}
				fmt.Printf("  %s\n", s)
			}
			for _, w := range r.Warnings {
				fmt.Printf("   warning %d %s\n", w.Code, w.Message)
			}
		} else {
			fmt.Printf("   %s\n", r)
		}
	}
}
