package c44

import (
	"math/big"
	"strings"
)

// Proposed known findings (notes/C44.findings.json).
const (
	// bare @@x / SHOW [SESSION] VARIABLES of a GLOBAL-only variable read a per-session copy taken
	// at session start instead of the global value
	findingGlobalOnlyCopy = "C44-global-only-var-read-from-session-copy"
	// systemUintType.Convert wraps negative integers and rounds non-integral decimals,
	// systemIntType.Convert wraps unsigned values above MaxInt64: a value outside the variable's
	// domain is stored as a different in-range one
	findingSignWrap = "C44-integer-sysvar-out-of-domain-value-stored"
)

// finding is the signature of one proposed known finding: a predicate over an accepted SET
// (variable metadata, the right-hand side that was assigned, the value stored afterwards).
type finding struct {
	id    string
	match func(v *varInfo, c cand, got string) bool
}

var two64 = new(big.Int).Lsh(big.NewInt(1), 64)

var two63 = new(big.Int).Lsh(big.NewInt(1), 63)

// storedOtherInteger reports whether got is an integer different from the literal lit.
func storedOtherInteger(lit, got string) bool {
	x, ok := new(big.Int).SetString(lit, 10)
	if !ok || !strings.HasPrefix(got, "n:") {
		return false
	}
	g, ok := new(big.Int).SetString(got[2:], 10)
	return ok && g.Cmp(x) != 0
}

// signWrapRegion is the generator region of the finding for integer literals: literals that
// the variable's Go representation cannot hold - negative or >= 2^64 for unsigned variables,
// >= 2^63 or < -2^63 for signed ones.
func signWrapRegion(v *varInfo, c cand) bool {
	x, ok := new(big.Int).SetString(c.sql, 10)
	if !ok {
		return false
	}
	switch v.kind {
	case "uint":
		return x.Sign() < 0 || x.Cmp(two64) >= 0
	case "int":
		return x.Cmp(two63) >= 0 || x.Cmp(new(big.Int).Neg(two63)) < 0
	}
	return false
}

// decimalRegion: a decimal literal that is not a non-negative integer (fractional part, or a
// minus sign) assigned to an unsigned variable.
func decimalRegion(v *varInfo, c cand) bool {
	if v.kind != "uint" || strings.HasPrefix(c.sql, "'") || !strings.Contains(c.sql, ".") {
		return false
	}
	r, ok := new(big.Rat).SetString(c.sql)
	return ok && (!r.IsInt() || r.Sign() < 0)
}

// storedOtherNumber reports whether got is an integer different from the value of the literal.
func storedOtherNumber(lit, got string) bool {
	r, ok := new(big.Rat).SetString(lit)
	if !ok || !strings.HasPrefix(got, "n:") {
		return false
	}
	g, ok := new(big.Rat).SetString(got[2:])
	return ok && g.IsInt() && g.Cmp(r) != 0
}

func outOfDomainRegion(v *varInfo, c cand) bool { return signWrapRegion(v, c) || decimalRegion(v, c) }

var findings = []finding{
	{findingSignWrap, func(v *varInfo, c cand, got string) bool {
		return signWrapRegion(v, c) && storedOtherInteger(c.sql, got) || decimalRegion(v, c) && storedOtherNumber(c.sql, got)
	}},
}
