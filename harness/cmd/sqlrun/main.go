// Command sqlrun executes the SQL statements given on stdin (one per line; lines starting
// with "plan " print the analysed plan) on a fresh in-memory fixture and prints each
// outcome in the harness' canonical form. Triage aid only.
package main

import (
	"bufio"
	"fmt"
	"os"
	"strings"

	"github.com/dolthub/go-mysql-server/vh/internal/fx"
)

func main() {
	f := fx.New(fx.Opts{Root: len(os.Args) > 1 && os.Args[1] == "root"})
	defer f.Close()
	s := f.NewSession("", "", "")
	sc := bufio.NewScanner(os.Stdin)
	sc.Buffer(make([]byte, 1<<20), 1<<24)
	for sc.Scan() {
		q := strings.TrimSpace(sc.Text())
		if q == "" || strings.HasPrefix(q, "#") {
			continue
		}
		if strings.HasPrefix(strings.ToLower(q), "plan ") {
			fmt.Printf("PLAN %s\n%s\n", q[5:], s.Plan(q[5:]))
			continue
		}
		r := s.Exec(q)
		fmt.Printf("> %s\n  %s\n", q, r)
		if r.Panic != nil {
			fmt.Println(r.Stack)
		}
		for _, w := range r.Warnings {
			fmt.Printf("  warning %d: %s\n", w.Code, w.Message)
		}
	}
}
