package c25

import (
	"fmt"
	"math/big"
	"strings"
	"testing"

	"github.com/dolthub/go-mysql-server/vh/internal/kf"
	"github.com/dolthub/go-mysql-server/vh/internal/stats"
	"pgregory.net/rapid"
)

// Known findings of C25 (see /verif/notes/C25.md). For each: `region` is a predicate on the
// *inputs* (used to steer the main search around a listed finding), `signature` is a narrow
// predicate on inputs + engine output (a violation is only ever suppressed when the output is
// exactly what the identified defect produces).
const (
	// + - * on two integer operands is evaluated with Go's native int64/uint64 arithmetic
	// without overflow detection (expression/arithmetic.go plus/minus/mult).
	kfWrap = "C25-int64-wrap"
	// an unsigned operand above 2^63-1 combined with a signed operand is converted to
	// BIGINT by clamping it to 9223372036854775807 before + - * (convertValueToType).
	kfClamp = "C25-unsigned-clamp"
	// unary minus of an unsigned operand negates it in the signed type of the same width
	// (UnaryMinus.Eval: -int8(n), -int16(n), -int32(n), -int64(n)).
	kfNegU = "C25-neg-unsigned-wrap"
	// -9223372036854775808 DIV -1 returns -9223372036854775808 (intDiv: l / r on int64).
	kfDivMin = "C25-div-minint-wrap"
	// a % b fails with "division impossible" when the integer quotient has more digits than
	// both operands (types.DecimalMod sizes the apd context from the operands' digits only).
	kfModImp = "C25-mod-division-impossible"
)

func wrapSigned(v *big.Int, bits int) *big.Int {
	m := new(big.Int).Mod(v, pow2(uint(bits)))
	if m.Cmp(pow2(uint(bits-1))) >= 0 {
		m.Sub(m, pow2(uint(bits)))
	}
	return m
}

func congruent64(a, b *big.Int) bool {
	d := new(big.Int).Sub(a, b)
	return d.Mod(d, two64).Sign() == 0
}

func clampI64(v *big.Int) *big.Int {
	if v.Cmp(maxI64) > 0 {
		return maxI64
	}
	return v
}

func intOp(op string, a, b *big.Int) *big.Int {
	switch op {
	case "+":
		return new(big.Int).Add(a, b)
	case "-":
		return new(big.Int).Sub(a, b)
	}
	return new(big.Int).Mul(a, b)
}

// region names the known finding whose input region contains e ("" if none).
func region(e expr) string {
	if e.a.val == nil || (e.op != "neg" && e.b.val == nil) {
		return ""
	}
	switch e.op {
	case "+", "-", "*":
		if !e.a.isInt || !e.b.isInt {
			return ""
		}
		a, b := e.a.intVal(), e.b.intVal()
		r := intOp(e.op, a, b)
		if e.a.engU && e.b.engU { // computed in uint64
			if !inRange(r, zero, maxU64) {
				return kfWrap
			}
			return ""
		}
		// computed in int64
		if a.Cmp(maxI64) > 0 || b.Cmp(maxI64) > 0 {
			return kfClamp
		}
		if !inRange(r, minI64, maxI64) {
			return kfWrap
		}
	case "neg":
		if e.a.isInt && e.a.engU && e.a.goBits > 0 {
			v := e.a.intVal()
			if v.Cmp(new(big.Int).Sub(pow2(uint(e.a.goBits-1)), bi(1))) > 0 {
				return kfNegU
			}
		}
	case "DIV":
		if e.a.isInt && e.b.isInt && !e.a.engU && !e.b.engU &&
			e.a.intVal().Cmp(minI64) == 0 && e.b.intVal().Cmp(bi(-1)) == 0 {
			return kfDivMin
		}
	case "%":
		// over-approximation by inputs: the integer quotient has more digits than the
		// dividend has significant digits as written (the exact condition depends on the
		// engine's internal representation of the operands).
		if e.b.val.Sign() != 0 {
			q := truncRat(new(big.Rat).Quo(e.a.val, e.b.val))
			qd := len(q.Abs(q).String())
			if qd > sigDigits(e.a) || qd > 60 {
				return kfModImp
			}
		}
	}
	return ""
}

// sigDigits is the number of digits of the operand's coefficient as written / declared.
func sigDigits(o operand) int {
	x := new(big.Rat).Mul(o.val, new(big.Rat).SetInt(pow10(o.scale)))
	n := truncRat(x)
	return len(n.Abs(n).String())
}

// signature names the known finding whose defect produces exactly the observed wrong output.
func signature(e expr, c cell, r *big.Rat) string {
	if c.panic != nil || e.a.val == nil || (e.op != "neg" && e.b.val == nil) {
		return ""
	}
	if e.op == "%" && c.err != nil && e.b.val.Sign() != 0 && strings.Contains(c.err.Error(), "division impossible") {
		return kfModImp
	}
	if c.err != nil || c.num == nil || c.float || !c.num.IsInt() || r == nil || !r.IsInt() {
		return ""
	}
	got := c.num.Num()
	if !inRange(got, minI64, maxU64) || got.Cmp(r.Num()) == 0 {
		return ""
	}
	switch e.op {
	case "+", "-", "*":
		if !e.a.isInt || !e.b.isInt {
			return ""
		}
		a, b := e.a.intVal(), e.b.intVal()
		if congruent64(got, r.Num()) {
			return kfWrap // the two's-complement wrap of the exact result
		}
		if a.Cmp(maxI64) > 0 || b.Cmp(maxI64) > 0 {
			if congruent64(got, intOp(e.op, clampI64(a), clampI64(b))) && inRange(got, minI64, maxI64) {
				return kfClamp // exact (or wrapped) result of the clamped operands
			}
		}
	case "neg":
		if e.a.isInt && e.a.val.Sign() > 0 {
			for _, bits := range []int{8, 16, 32, 64} {
				if e.a.intVal().Cmp(pow2(uint(bits))) < 0 && e.a.intVal().Cmp(pow2(uint(bits-1))) >= 0 {
					w := wrapSigned(e.a.intVal(), bits)
					if got.Cmp(wrapSigned(new(big.Int).Neg(w), bits)) == 0 {
						return kfNegU
					}
				}
			}
		}
	case "DIV":
		if e.a.isInt && e.b.isInt && e.a.intVal().Cmp(minI64) == 0 && e.b.intVal().Cmp(bi(-1)) == 0 && got.Cmp(minI64) == 0 {
			return kfDivMin
		}
	}
	return ""
}

// witness expressions: one minimal input per finding, re-confirmed on every run.
type witness struct {
	id   string
	cols []string // "TYPE=value"
	sql  string
	e    expr
}

func lit(v string) operand {
	n, _ := new(big.Int).SetString(v, 10)
	u, bits := engineLiteralType(n)
	return operand{sql: intLiteralSQL(n), val: new(big.Rat).SetInt(n), isInt: true, engU: u, goBits: bits,
		myU: n.Cmp(maxI64) > 0, desc: "lit", boundary: true}
}

func declit(v string) operand {
	r, _ := new(big.Rat).SetString(v)
	sc := 0
	if i := strings.IndexByte(v, '.'); i >= 0 {
		sc = len(v) - i - 1
	}
	return operand{sql: v, val: r, desc: "declit", scale: sc, boundary: true}
}

func bin(op string, a, b operand) expr {
	return expr{op: op, a: a, b: b, sql: a.sql + " " + op + " " + b.sql}
}

func col(tb *table, ty intType, v string) operand {
	n, _ := new(big.Int).SetString(v, 10)
	name := tb.add(ty.name, v)
	return operand{sql: name, val: new(big.Rat).SetInt(n), isInt: true, engU: ty.unsigned, goBits: ty.goBits, myU: ty.unsigned,
		desc: "col " + ty.name, tmin: ty.min(), tmax: ty.max(), boundary: true}
}

func witnesses() (tb *table, ws []witness) {
	tb = &table{}
	add := func(id string, e expr) { ws = append(ws, witness{id: id, e: e}) }
	add(kfWrap, bin("+", lit("9223372036854775807"), lit("1")))
	add(kfWrap, bin("*", lit("9223372036854775807"), lit("2")))
	add(kfWrap, bin("-", lit("-9223372036854775808"), lit("1")))
	add(kfWrap, bin("-", lit("200"), lit("201")))
	add(kfWrap, bin("+", lit("9223372036854775808"), lit("9223372036854775808")))
	add(kfWrap, bin("+", col(tb, intTypes[9], "18446744073709551615"), col(tb, intTypes[1], "255")))
	add(kfClamp, bin("+", lit("18446744073709551615"), lit("0")))
	add(kfClamp, bin("*", lit("-1"), lit("9223372036854775808")))
	add(kfClamp, bin("-", col(tb, intTypes[9], "18446744073709551615"), col(tb, intTypes[0], "127")))
	neg := func(o operand) expr {
		s := "-" + o.sql
		if o.desc == "lit" {
			s = "-(" + o.sql + ")"
		}
		return expr{op: "neg", a: o, sql: s}
	}
	add(kfNegU, neg(lit("200")))
	add(kfNegU, neg(lit("18446744073709551615")))
	add(kfNegU, neg(col(tb, intTypes[1], "255")))
	add(kfNegU, neg(col(tb, intTypes[7], "4294967295")))
	add(kfDivMin, bin("DIV", lit("-9223372036854775808"), lit("-1")))
	add(kfDivMin, bin("DIV", col(tb, intTypes[8], "-9223372036854775808"), lit("-1")))
	add(kfModImp, bin("%", lit("99"), declit("0.001")))
	add(kfModImp, bin("%", lit("9223372036854775807"), declit("0.7")))
	return tb, ws
}

// TestC25Known re-confirms the witnesses of the known findings and then searches *inside*
// their regions (no exclusion, boundary-heavy operands): every violation there must match
// the signature of its finding exactly, anything else fails.
func TestC25Known(t *testing.T) {
	st := stats.New("C25", "known")
	defer st.Flush()
	tb, ws := witnesses()
	for _, w := range ws {
		cells, stored := runBatch(t.Fatalf, tb, []expr{w.e})
		if !stored {
			t.Fatalf("witness table not stored as given")
		}
		r, _ := exact(w.e)
		ok, _ := judge(w.e, cells[0])
		got := signature(w.e, cells[0], r)
		switch {
		case ok:
			t.Logf("witness of %s no longer reproduces: SELECT %s => %s", w.id, w.e.sql, cells[0])
			st.Class("witness no longer reproduces " + w.id)
		case got != w.id:
			t.Fatalf("witness of %s: SELECT %s => %s (exact %s) does not match the signature (matched %q)", w.id, w.e.sql, cells[0], r.RatString(), got)
		case region(w.e) != w.id:
			t.Fatalf("witness of %s: SELECT %s is not inside the region predicate (%q)", w.id, w.e.sql, region(w.e))
		case !kf.Suppress(st, w.id):
			t.Fatalf("C25 violated (candidate finding %s, not listed as known)\n  %s\n  %s\n  SELECT %s FROM t\n  exact result: %s\n  engine:       %s",
				w.id, tb.ddl(), tb.insert(), w.e.sql, r.RatString(), cells[0])
		}
		st.Eval()
	}
	rapid.Check(t, func(rt *rapid.T) {
		tb := &table{}
		n := rapid.IntRange(1, batchSize()).Draw(rt, "n")
		var es []expr
		for i := 0; i < n; i++ {
			mark := len(tb.defs)
			e := genExpr(rt, tb, fmt.Sprintf("e%d", i))
			if region(e) == "" {
				tb.defs, tb.vals = tb.defs[:mark], tb.vals[:mark]
				continue
			}
			es = append(es, e)
		}
		checkExprs(rt, st, tb, es)
	})
}
