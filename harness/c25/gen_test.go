// Package c25 checks property C25: integer and decimal arithmetic is exact or reports
// out-of-range (see /verif/DESIGN.md section 6, C25 and /verif/notes/C25.md).
package c25

import (
	"fmt"
	"math/big"
	"strings"

	"pgregory.net/rapid"
)

var (
	minI64 = new(big.Int).Lsh(big.NewInt(-1), 63)
	maxI64 = new(big.Int).Sub(new(big.Int).Lsh(big.NewInt(1), 63), big.NewInt(1))
	maxU64 = new(big.Int).Sub(new(big.Int).Lsh(big.NewInt(1), 64), big.NewInt(1))
	two64  = new(big.Int).Lsh(big.NewInt(1), 64)
	zero   = big.NewInt(0)
)

func pow2(k uint) *big.Int            { return new(big.Int).Lsh(big.NewInt(1), k) }
func pow10(k int) *big.Int            { return new(big.Int).Exp(big.NewInt(10), big.NewInt(int64(k)), nil) }
func bi(x int64) *big.Int             { return big.NewInt(x) }
func inRange(v, lo, hi *big.Int) bool { return v.Cmp(lo) >= 0 && v.Cmp(hi) <= 0 }

// intType is one SQL integer column type.
type intType struct {
	name     string
	bits     uint // declared width
	goBits   int  // width of the Go type the engine stores it in
	unsigned bool
}

var intTypes = []intType{
	{"TINYINT", 8, 8, false}, {"TINYINT UNSIGNED", 8, 8, true},
	{"SMALLINT", 16, 16, false}, {"SMALLINT UNSIGNED", 16, 16, true},
	{"MEDIUMINT", 24, 32, false}, {"MEDIUMINT UNSIGNED", 24, 32, true},
	{"INT", 32, 32, false}, {"INT UNSIGNED", 32, 32, true},
	{"BIGINT", 64, 64, false}, {"BIGINT UNSIGNED", 64, 64, true},
}

func (t intType) min() *big.Int {
	if t.unsigned {
		return big.NewInt(0)
	}
	return new(big.Int).Neg(pow2(t.bits - 1))
}

func (t intType) max() *big.Int {
	if t.unsigned {
		return new(big.Int).Sub(pow2(t.bits), bi(1))
	}
	return new(big.Int).Sub(pow2(t.bits-1), bi(1))
}

// genIntIn draws an integer in [lo, hi], biased to the ends of the range, to 0/±1, to
// powers of two (±1) and to small numbers; the rest is uniform over the range.
// The second result reports whether the value is one of the boundary values.
func genIntIn(rt *rapid.T, lo, hi *big.Int, label string) (*big.Int, bool) {
	span := new(big.Int).Sub(hi, lo)
	clampIn := func(v *big.Int) *big.Int {
		if v.Cmp(lo) < 0 {
			return new(big.Int).Set(lo)
		}
		if v.Cmp(hi) > 0 {
			return new(big.Int).Set(hi)
		}
		return v
	}
	switch rapid.IntRange(0, 9).Draw(rt, label+"_how") {
	case 0, 1: // the ends of the range
		d := bi(int64(rapid.IntRange(0, 2).Draw(rt, label+"_d")))
		if rapid.Bool().Draw(rt, label+"_hi") {
			return clampIn(new(big.Int).Sub(hi, d)), true
		}
		return clampIn(new(big.Int).Add(lo, d)), true
	case 2: // -1, 0, 1
		return clampIn(bi(int64(rapid.IntRange(-1, 1).Draw(rt, label+"_s")))), true
	case 3, 4: // ±(2^k + d)
		k := uint(rapid.IntRange(0, 66).Draw(rt, label+"_k"))
		v := pow2(k)
		v.Add(v, bi(int64(rapid.IntRange(-2, 2).Draw(rt, label+"_d"))))
		if rapid.Bool().Draw(rt, label+"_neg") {
			v.Neg(v)
		}
		if !inRange(v, lo, hi) {
			return clampIn(v), true
		}
		return v, true
	case 5, 6: // small
		return clampIn(bi(int64(rapid.IntRange(-12, 12).Draw(rt, label+"_s")))), false
	default: // uniform over the range
		raw := rapid.SliceOfN(rapid.Byte(), 10, 10).Draw(rt, label+"_raw")
		v := new(big.Int).SetBytes(raw)
		v.Mod(v, new(big.Int).Add(span, bi(1)))
		return v.Add(v, lo), false
	}
}

// dec is an exact decimal number: unscaled * 10^-scale.
type dec struct {
	u     *big.Int
	scale int
	negZ  bool // render with a leading '-' although the value is zero
}

func (d dec) rat() *big.Rat {
	return new(big.Rat).SetFrac(d.u, pow10(d.scale))
}

// text renders the number as a plain decimal literal with exactly `scale` fractional digits.
func (d dec) text() string {
	s := new(big.Int).Abs(d.u).String()
	if d.scale > 0 {
		for len(s) <= d.scale {
			s = "0" + s
		}
		s = s[:len(s)-d.scale] + "." + s[len(s)-d.scale:]
	}
	if d.u.Sign() < 0 || (d.u.Sign() == 0 && d.negZ) {
		s = "-" + s
	}
	return s
}

// genDec draws a decimal with at most maxInt integer digits and exactly `scale` fractional
// digits (scale drawn in [0, maxScale] unless fixedScale >= 0).
func genDec(rt *rapid.T, maxIntDigits, maxScale, fixedScale int, label string) (dec, bool) {
	scale := fixedScale
	if scale < 0 {
		switch rapid.IntRange(0, 5).Draw(rt, label+"_sc") {
		case 0:
			scale = maxScale
		case 1:
			scale = 0
		default:
			scale = rapid.IntRange(0, min(maxScale, 6)).Draw(rt, label+"_scale")
		}
		if rapid.IntRange(0, 7).Draw(rt, label+"_scwide") == 0 {
			scale = rapid.IntRange(0, maxScale).Draw(rt, label+"_scale2")
		}
	}
	digits := maxIntDigits + scale
	if digits == 0 {
		return dec{u: big.NewInt(0), scale: scale}, true
	}
	limit := pow10(digits) // |u| < limit
	var u *big.Int
	boundary := false
	switch rapid.IntRange(0, 9).Draw(rt, label+"_how") {
	case 0: // all nines
		u = new(big.Int).Sub(limit, bi(int64(rapid.IntRange(1, 2).Draw(rt, label+"_d"))))
		boundary = true
	case 1: // one unit in the last place / zero
		u = bi(int64(rapid.IntRange(0, 1).Draw(rt, label+"_d")))
		boundary = true
	case 2: // a power of ten (+-1)
		u = pow10(rapid.IntRange(0, digits-1).Draw(rt, label+"_p"))
		u.Add(u, bi(int64(rapid.IntRange(-1, 1).Draw(rt, label+"_d"))))
		boundary = true
	case 3, 4, 5: // few significant digits
		n := min(digits, rapid.IntRange(1, 6).Draw(rt, label+"_n"))
		raw := rapid.Uint64().Draw(rt, label+"_raw")
		u = new(big.Int).SetUint64(raw)
		u.Mod(u, pow10(n))
	case 6: // halves and quarters at the last places (rounding ties for '/')
		u = bi(int64(rapid.SampledFrom([]int{5, 25, 45, 50, 55, 75, 125, 15, 35}).Draw(rt, label+"_t")))
		if u.Cmp(limit) >= 0 {
			u = bi(5 % 10)
			if u.Cmp(limit) >= 0 {
				u = bi(0)
			}
		}
	default: // uniform over all digits
		raw := rapid.SliceOfN(rapid.Byte(), 28, 28).Draw(rt, label+"_raw")
		u = new(big.Int).SetBytes(raw)
		u.Mod(u, limit)
	}
	if u.Cmp(limit) >= 0 {
		u = new(big.Int).Sub(limit, bi(1))
	}
	if u.Sign() < 0 {
		u = big.NewInt(0)
	}
	d := dec{u: u, scale: scale}
	if rapid.IntRange(0, 2).Draw(rt, label+"_neg") == 0 {
		d.u = new(big.Int).Neg(u)
		if u.Sign() == 0 {
			d.negZ = true
		}
	}
	return d, boundary
}

// operand is one leaf of an expression.
type operand struct {
	sql      string   // rendering inside the expression
	val      *big.Rat // nil: SQL NULL
	isInt    bool     // integer-typed (integer column, CAST ... AS [UN]SIGNED, integer literal within the BIGINT ranges)
	engU     bool     // the engine types the operand as unsigned (used only for known-finding regions/signatures)
	goBits   int      // width of the Go integer the engine holds it in (only for known-finding signatures)
	myU      bool     // unsigned in MySQL's typing (unsigned column, CAST AS UNSIGNED, literal above BIGINT max)
	boundary bool
	desc     string   // kind and type, e.g. "lit", "col TINYINT UNSIGNED", "cast UNSIGNED", "declit", "col DECIMAL(10,2)"
	tmin     *big.Int // range of the operand's integer type (nil for decimals / literals)
	tmax     *big.Int
	scale    int // number of fractional digits as written / declared
}

func (o operand) intVal() *big.Int {
	if o.val == nil || !o.val.IsInt() {
		return nil
	}
	return new(big.Int).Set(o.val.Num())
}

func (o operand) String() string {
	v := "NULL"
	if o.val != nil {
		v = o.val.RatString()
	}
	return fmt.Sprintf("%s=%s", o.desc, v)
}

// table collects the columns of the one-row table behind the column operands.
type table struct {
	defs []string
	vals []string
}

func (t *table) add(typ, val string) string {
	name := fmt.Sprintf("c%d", len(t.defs))
	t.defs = append(t.defs, name+" "+typ)
	t.vals = append(t.vals, val)
	return name
}

func (t *table) ddl() string {
	return "CREATE TABLE t (" + strings.Join(t.defs, ", ") + ")"
}

func (t *table) insert() string {
	return "INSERT INTO t VALUES (" + strings.Join(t.vals, ", ") + ")"
}

// literal typing of the engine's plan builder (planbuilder/scalar.go convertInt): the smallest
// Go integer type that holds the value, unsigned when the signed type of that width does not.
// Only used to describe the regions of known findings, never by the oracle.
func engineLiteralType(v *big.Int) (unsigned bool, bits int) {
	if v.Sign() < 0 {
		switch {
		case v.Cmp(bi(-128)) >= 0:
			return false, 8
		case v.Cmp(bi(-32768)) >= 0:
			return false, 16
		case v.Cmp(bi(-2147483648)) >= 0:
			return false, 32
		}
		return false, 64
	}
	switch {
	case v.Cmp(bi(127)) <= 0:
		return false, 8
	case v.Cmp(bi(255)) <= 0:
		return true, 8
	case v.Cmp(bi(32767)) <= 0:
		return false, 16
	case v.Cmp(bi(65535)) <= 0:
		return true, 16
	case v.Cmp(bi(2147483647)) <= 0:
		return false, 32
	case v.Cmp(bi(4294967295)) <= 0:
		return true, 32
	case v.Cmp(maxI64) <= 0:
		return false, 64
	}
	return true, 64
}

func intLiteralSQL(v *big.Int) string {
	if v.Sign() < 0 {
		return "(" + v.String() + ")"
	}
	return v.String()
}

// genIntOperand draws an integer operand: literal, column of an integer type, or CAST.
func genIntOperand(rt *rapid.T, tb *table, label string) operand {
	switch rapid.IntRange(0, 9).Draw(rt, label+"_kind") {
	case 0, 1, 2, 3: // column
		ty := rapid.SampledFrom(intTypes).Draw(rt, label+"_type")
		v, bnd := genIntIn(rt, ty.min(), ty.max(), label)
		name := tb.add(ty.name, v.String())
		return operand{sql: name, val: new(big.Rat).SetInt(v), isInt: true, engU: ty.unsigned, goBits: ty.goBits,
			myU: ty.unsigned, boundary: bnd, desc: "col " + ty.name, tmin: ty.min(), tmax: ty.max()}
	case 4: // CAST
		if rapid.Bool().Draw(rt, label+"_castu") {
			v, bnd := genIntIn(rt, zero, maxU64, label)
			return operand{sql: "CAST(" + v.String() + " AS UNSIGNED)", val: new(big.Rat).SetInt(v), isInt: true, engU: true,
				goBits: 64, myU: true, boundary: bnd, desc: "cast UNSIGNED", tmin: zero, tmax: maxU64}
		}
		v, bnd := genIntIn(rt, minI64, maxI64, label)
		return operand{sql: "CAST(" + intLiteralSQL(v) + " AS SIGNED)", val: new(big.Rat).SetInt(v), isInt: true,
			goBits: 64, boundary: bnd, desc: "cast SIGNED", tmin: minI64, tmax: maxI64}
	default: // literal, in the range of one of the integer types
		ty := rapid.SampledFrom(intTypes).Draw(rt, label+"_type")
		v, bnd := genIntIn(rt, ty.min(), ty.max(), label)
		u, bits := engineLiteralType(v)
		return operand{sql: intLiteralSQL(v), val: new(big.Rat).SetInt(v), isInt: true, engU: u, goBits: bits,
			myU: v.Cmp(maxI64) > 0, boundary: bnd, desc: "lit"}
	}
}

// genDecOperand draws a DECIMAL operand: literal (up to 65 digits, up to 30 fractional
// digits, also integers beyond the BIGINT ranges) or column DECIMAL(p,s).
func genDecOperand(rt *rapid.T, tb *table, label string) operand {
	switch rapid.IntRange(0, 9).Draw(rt, label+"_kind") {
	case 0, 1, 2, 3: // column DECIMAL(p,s)
		var p, s int
		switch rapid.IntRange(0, 4).Draw(rt, label+"_ps") {
		case 0:
			p, s = 65, 30
		case 1:
			p, s = 65, 0
		case 2:
			p, s = 10, 2
		default:
			p = rapid.IntRange(1, 65).Draw(rt, label+"_p")
			s = rapid.IntRange(0, min(p, 30)).Draw(rt, label+"_s")
		}
		d, bnd := genDec(rt, p-s, s, s, label)
		typ := fmt.Sprintf("DECIMAL(%d,%d)", p, s)
		name := tb.add(typ, d.text())
		return operand{sql: name, val: d.rat(), boundary: bnd, desc: "col " + typ, scale: s}
	case 4: // integer literal beyond the BIGINT ranges (typed DECIMAL by MySQL)
		mag, bnd := genIntIn(rt, new(big.Int).Add(maxU64, bi(1)), new(big.Int).Sub(pow10(rapid.IntRange(20, 65).Draw(rt, label+"_mag")), bi(1)), label)
		if rapid.Bool().Draw(rt, label+"_neg") {
			mag = new(big.Int).Neg(mag)
		}
		return operand{sql: intLiteralSQL(mag), val: new(big.Rat).SetInt(mag), boundary: bnd, desc: "biglit"}
	default: // decimal literal with a fractional part
		intDigits := rapid.IntRange(0, 35).Draw(rt, label+"_id")
		if rapid.IntRange(0, 2).Draw(rt, label+"_short") > 0 {
			intDigits = rapid.IntRange(0, 6).Draw(rt, label+"_id2")
		}
		d, bnd := genDec(rt, intDigits, 30, -1, label)
		if d.scale == 0 {
			d.scale = 1
			d.u = new(big.Int).Mul(d.u, bi(10))
		}
		txt := d.text()
		if strings.HasPrefix(txt, "-") {
			txt = "(" + txt + ")"
		}
		return operand{sql: txt, val: d.rat(), boundary: bnd, desc: "declit", scale: d.scale}
	}
}

// expr is one generated expression with its operands.
type expr struct {
	op   string // + - * / DIV % neg
	form string // spelling: "", "MOD", "MOD()"
	a, b operand
	sql  string
}

func (e expr) String() string {
	if e.op == "neg" {
		return fmt.Sprintf("%s   [%s]", e.sql, e.a)
	}
	return fmt.Sprintf("%s   [%s ; %s]", e.sql, e.a, e.b)
}

var binOps = []string{"+", "-", "*", "+", "-", "*", "/", "DIV", "%", "%"}

func genExpr(rt *rapid.T, tb *table, label string) expr {
	var e expr
	kind := rapid.IntRange(0, 9).Draw(rt, label+"_mix") // 0-5 int x int, 6-7 mixed, 8-9 dec x dec
	pick := func(isInt bool, l string) operand {
		if isInt {
			return genIntOperand(rt, tb, l)
		}
		return genDecOperand(rt, tb, l)
	}
	aInt := kind <= 6
	bInt := kind <= 5 || kind == 7
	if rapid.IntRange(0, 7).Draw(rt, label+"_unary") == 0 {
		e.op = "neg"
		e.a = pick(aInt, label+"_a")
		if rapid.IntRange(0, 19).Draw(rt, label+"_null") == 0 {
			e.a.val, e.a.sql = nil, "NULL"
		}
		e.sql = "-" + e.a.sql
		if e.a.desc == "lit" || e.a.desc == "biglit" || e.a.desc == "declit" {
			// "-5" is folded into a literal by the parser; "-(5)" is a real unary minus
			e.sql = "-(" + strings.Trim(e.a.sql, "()") + ")"
		}
		return e
	}
	e.op = rapid.SampledFrom(binOps).Draw(rt, label+"_op")
	e.a = pick(aInt, label+"_a")
	e.b = pick(bInt, label+"_b")
	switch rapid.IntRange(0, 11).Draw(rt, label+"_tweak") {
	case 0: // same operand twice
		e.b = e.a
	case 1: // divisor / right operand 0
		if e.b.isInt {
			e.b = operand{sql: "0", val: new(big.Rat), isInt: true, goBits: 8, boundary: true, desc: "lit"}
		} else {
			e.b = operand{sql: "0.00", val: new(big.Rat), boundary: true, desc: "declit", scale: 2}
		}
	case 2: // -1 on the right (MinInt64 DIV -1, * -1)
		if e.b.isInt {
			e.b = operand{sql: "(-1)", val: big.NewRat(-1, 1), isInt: true, goBits: 8, boundary: true, desc: "lit"}
		}
	case 3:
		if rapid.IntRange(0, 2).Draw(rt, label+"_null") == 0 {
			if rapid.Bool().Draw(rt, label+"_nullside") {
				e.a.val, e.a.sql = nil, "NULL"
			} else {
				e.b.val, e.b.sql = nil, "NULL"
			}
		}
	}
	switch e.op {
	case "%":
		switch rapid.IntRange(0, 3).Draw(rt, label+"_form") {
		case 0:
			e.form = "MOD"
			e.sql = e.a.sql + " MOD " + e.b.sql
		case 1:
			e.form = "MOD()"
			e.sql = "MOD(" + e.a.sql + ", " + e.b.sql + ")"
		default:
			e.sql = e.a.sql + " % " + e.b.sql
		}
	default:
		e.sql = e.a.sql + " " + e.op + " " + e.b.sql
	}
	return e
}
